(* C07 proofs, part 5: the model meets the executable SPEC.  The point of an aggregation of any list of
   values passes every clause of Spec.check_point (hence Glue.run_spec prints nothing on the model's own
   observation); lifted to the reader level for every history. *)
From V Require Import C07.Spec C07.ProofsBucket C07.ProofsAgg C07.ProofsNum C07.ProofsSeries.
From V Require Import Gen.Consts.
From Coq Require Import Lia ZifyBool ZifyNat Arith.
Local Open Scope Z_scope.

Lemma list_eqb_refl : forall l, list_eqb l l = true.
Proof. induction l as [|x l IH]; cbn [list_eqb]; [reflexivity|]. rewrite Z.eqb_refl, IH. reflexivity. Qed.
Lemma list_eqb_eq : forall a b, list_eqb a b = true -> a = b.
Proof.
  induction a as [|x a IH]; intros [|y b] H; cbn [list_eqb] in H; try discriminate; [reflexivity|].
  apply andb_true_iff in H. destruct H as [H1 H2]. apply Z.eqb_eq in H1. rewrite H1, (IH b H2). reflexivity.
Qed.
Lemma fsum_eqb_refl : forall x, fsum_eqb x x = true.
Proof. intros [z| | |]; cbn [fsum_eqb]; [apply Z.eqb_refl|reflexivity|reflexivity|reflexivity]. Qed.
Lemma check_true : forall b t, b = true -> check b t = [].
Proof. intros b t ->. reflexivity. Qed.

(* the comparison "boundary < value" the code makes is the exact comparison with the value *)
Definition key_exact (k : kind) (s : Z) (xs : list Z) : Prop :=
  forall v, In v xs -> forall b, o_lt (ops_of k s) b v = (b <? true_key k s v).

Lemma key_exact_dbl : forall s xs, key_exact KDbl s xs.
Proof. intros s xs v _ b. reflexivity. Qed.
Lemma key_exact_long : forall s xs, 0 <= s -> (forall v, In v xs -> - 2 ^ 63 <= v < 2 ^ 63) -> key_exact KLong s xs.
Proof. intros s xs Hs H v Hv b. cbn [ops_of long_ops o_lt true_key]. apply long_lt_exact; [exact Hs|apply H; exact Hv]. Qed.

(* sentence 1 on the model: the counts are the ideal counts *)
Lemma counts_are_ideal : forall k s c xs,
  sorted (c_bounds c) -> Z.of_nat (length xs) < U64 -> key_exact k s xs ->
  h_counts (agg (ops_of k s) c xs) = ideal_counts k s (c_bounds c) xs.
Proof.
  intros k s c xs Hs Hlen Hk. rewrite agg_closed. cbn [closed h_counts].
  rewrite cf_counts_small by exact Hlen. unfold ideal_counts.
  apply map_ext_in. intros j Hj. apply in_seq in Hj.
  unfold cnt, bucket_count. f_equal. f_equal.
  apply filter_ext_in. intros v Hv. unfold bkt.
  rewrite (bucketp_ext (c_bounds c) _ (true_key k s v) (Hk v Hv)).
  symmetry. apply in_bucket_bucket; [exact Hs|lia].
Qed.

Definition sum_ok (k : kind) (s : Z) (xs : list Z) (h : hist) : Prop :=
  sum_checkable k s xs = true -> h_sum h = SFin (zsum xs).

Lemma agg_sum_ok : forall k s c xs, 0 <= s -> sum_ok k s xs (agg (ops_of k s) c xs).
Proof.
  intros k s c xs Hs H. destruct k; cbn [ops_of sum_checkable] in *.
  - apply sum_is_sum_lemma. apply xadd_exact_long.
  - apply sum_is_sum_dbl_lemma; assumption.
Qed.

Definition within_sentinels (k : kind) (s : Z) (xs : list Z) : Prop :=
  forall v, In v xs -> o_max0 (ops_of k s) <= v <= o_min0 (ops_of k s).

(* a point that agrees with the aggregation of xs on everything but possibly an inexact sum passes the check *)
Lemma check_point_of_fields : forall k s c x xs h,
  sorted (c_bounds c) -> Z.of_nat (length xs) < U64 -> key_exact k s xs -> within_sentinels k s xs ->
  x_minmax x = c_rmm c -> x_basis x = xs ->
  set_sum h (SFin 0) = set_sum (agg (ops_of k s) c xs) (SFin 0) -> sum_ok k s xs h ->
  check_point k s (c_bounds c) x xs (point_of h) = [].
Proof.
  intros k s c x xs h Hs Hlen Hk Hw Hmm Ht Hf Hsum.
  assert (Hb : h_bounds h = c_bounds c).
  { apply (f_equal h_bounds) in Hf. cbn [set_sum h_bounds] in Hf. rewrite Hf, agg_closed. reflexivity. }
  assert (Hc : h_counts h = h_counts (agg (ops_of k s) c xs)) by (apply (f_equal h_counts) in Hf; exact Hf).
  assert (Hn : h_count h = h_count (agg (ops_of k s) c xs)) by (apply (f_equal h_count) in Hf; exact Hf).
  assert (Hr : h_rmm h = c_rmm c).
  { apply (f_equal h_rmm) in Hf. cbn [set_sum h_rmm] in Hf. rewrite Hf, agg_closed. reflexivity. }
  assert (Hmin : h_min h = h_min (agg (ops_of k s) c xs)) by (apply (f_equal h_min) in Hf; exact Hf).
  assert (Hmax : h_max h = h_max (agg (ops_of k s) c xs)) by (apply (f_equal h_max) in Hf; exact Hf).
  destruct (counts_sum_to_count_lemma (ops_of k s) c xs Hlen) as [Hz Hcount].
  unfold check_point. cbn [point_of p_bounds p_counts p_count p_sum p_rmm p_min p_max].
  rewrite Hb, Hc, Hn, Hr, Hmin, Hmax, Ht, Hmm.
  rewrite (counts_are_ideal k s c xs Hs Hlen Hk) in *.
  rewrite !list_eqb_refl.
  assert (Hlen' : Nat.eqb (length (ideal_counts k s (c_bounds c) xs)) (S (length (c_bounds c))) = true).
  { unfold ideal_counts. rewrite map_length, seq_length. apply Nat.eqb_refl. }
  rewrite Hlen'. cbn [andb check app].
  rewrite Hz, Hcount, !Z.eqb_refl. cbn [andb check app].
  assert (Hs4 : (if sum_checkable k s xs
                 then check (fsum_eqb (h_sum h) (SFin (zsum xs))) (append "sum_is_sum:" (x_name x)) else []) = []).
  { destruct (sum_checkable k s xs) eqn:E; [|reflexivity].
    rewrite (Hsum E), fsum_eqb_refl. reflexivity. }
  rewrite Hs4. cbn [app].
  assert (Hs5 : (if c_rmm c then check (c_rmm c) (append "min_max_spec:not_recorded_" (x_name x))
                 else check (negb (c_rmm c)) (append "min_max_spec:recorded_after_" (x_name x))) = []).
  { destruct (c_rmm c); reflexivity. }
  rewrite Hs5. cbn [app].
  destruct xs as [|v t]; [reflexivity|].
  destruct (c_rmm c) eqn:Er; [|reflexivity].
  rewrite agg_closed. cbn [closed h_min h_max]. rewrite Er.
  assert (Hv : o_max0 (ops_of k s) <= v <= o_min0 (ops_of k s)) by (apply Hw; left; reflexivity).
  rewrite list_min_sentinel, list_max_sentinel by lia.
  rewrite !Z.eqb_refl. reflexivity.
Qed.

Theorem check_point_agg : forall k s c x xs,
  0 <= s -> sorted (c_bounds c) -> Z.of_nat (length xs) < U64 -> key_exact k s xs -> within_sentinels k s xs ->
  x_minmax x = c_rmm c -> x_basis x = xs ->
  check_point k s (c_bounds c) x xs (point_of (agg (ops_of k s) c xs)) = [].
Proof.
  intros k s c x xs Hs0 Hs Hlen Hk Hw Hmm Ht.
  apply check_point_of_fields; try assumption; [reflexivity|apply agg_sum_ok; exact Hs0].
Qed.

(* non-vacuity: a config and values meeting every hypothesis, with values on a boundary *)
Example check_point_agg_example :
  let c := mkC [10; 20] true in let xs := [10; 11; 20; 25; 0] in
  sorted (c_bounds c) /\ key_exact KDbl 0 xs /\ within_sentinels KDbl 0 xs /\
  check_point KDbl 0 (c_bounds c) (mkX "agg" true xs) xs (point_of (agg (ops_of KDbl 0) c xs)) = [] /\
  h_counts (agg (ops_of KDbl 0) c xs) = [2; 2; 1].
Proof.
  cbn zeta. split; [|split; [apply key_exact_dbl|split]].
  - apply sortedb_sorted. reflexivity.
  - intros v Hv. cbn [In] in Hv. cbn [ops_of dbl_ops o_max0 o_min0].
    assert (E1 : to_scale 0 kHistMinInitDouble = DMAX 0) by (vm_compute; reflexivity).
    assert (E2 : to_scale 0 kHistMaxInitDouble = - DMAX 0) by (vm_compute; reflexivity).
    rewrite E1, E2. unfold DMAX. assert (0 < 2 ^ (971 + 0)) by (apply pow2_pos; lia).
    destruct Hv as [<-|[<-|[<-|[<-|[<-|[]]]]]]; lia.
  - split; vm_compute; reflexivity.
Qed.

(* ------------------------------------------------------------------ readers: every history *)
Lemma Forall2_check_all : forall {A B} (f : A -> B -> list tok) (a : list A) (b : list B),
  Forall2 (fun x y => f x y = []) a b -> check_all f a b = [].
Proof.
  intros A B f a b H. induction H as [|x y a b Hxy _ IH]; cbn [check_all]; [reflexivity|].
  rewrite Hxy, IH. reflexivity.
Qed.

Lemma Forall2_map_r : forall {A B C} (P : A -> C -> Prop) (g : B -> C) a b,
  Forall2 (fun x y => P x (g y)) a b -> Forall2 P a (map g b).
Proof. intros A B C P g a b H. induction H; cbn [map]; constructor; assumption. Qed.

Lemma Forall2_impl_in : forall {A B} (P Q : A -> B -> Prop) a b,
  Forall2 P a b -> (forall x y, In x a -> P x y -> Q x y) -> Forall2 Q a b.
Proof.
  intros A B P Q a b H. induction H as [|x y a b Hxy _ IH]; intros Himp; constructor.
  - apply Himp; [left; reflexivity|exact Hxy].
  - apply IH. intros x' y' Hin. apply Himp. right. exact Hin.
Qed.

(* everything a reader can be asked to summarise is a list of recorded values *)
Lemma expect_sops_values : forall temps l pend total P,
  Forall (Forall P) pend -> Forall P total -> Forall (fun op => match op with SRec v => P v | SCollect _ => True end) l ->
  Forall (fun e => Forall P (snd e)) (expect_sops temps pend total l).
Proof.
  intros temps l. induction l as [|op l IH]; intros pend total P Hp Ht Hl; cbn [expect_sops].
  - constructor.
  - inversion Hl as [|? ? Hop Hl']; subst. destruct op as [v|r].
    + apply IH; try assumption.
      * apply Forall_forall. intros p Hin. apply in_map_iff in Hin. destruct Hin as (p0 & <- & Hin0).
        apply Forall_app. split; [|constructor; [exact Hop|constructor]].
        rewrite Forall_forall in Hp. apply Hp. exact Hin0.
      * apply Forall_app. split; [exact Ht|constructor; [exact Hop|constructor]].
    + constructor.
      * destruct (is_delta (nth r temps TDelta)); cbn [snd]; [|exact Ht].
        destruct (nth_in_or_default r pend []) as [Hin | ->]; [|constructor].
        rewrite Forall_forall in Hp. apply Hp. exact Hin.
      * apply IH; try assumption.
        apply Forall_forall. intros p Hin.
        clear - Hp Hin. revert r Hin. induction pend as [|q pend IHp]; intros r Hin.
        -- destruct r; cbn [set_nth] in Hin; destruct Hin.
        -- inversion Hp; subst. destruct r as [|r]; cbn [set_nth] in Hin.
           ++ destruct Hin as [<-|Hin]; [constructor|]. rewrite Forall_forall in H2. apply H2. exact Hin.
           ++ destruct Hin as [<-|Hin]; [assumption|]. eapply IHp; eassumption.
Qed.

Lemma expect_sops_names : forall temps l pend total,
  Forall (fun e => fst e = "delta"%string \/ fst e = "cumulative"%string) (expect_sops temps pend total l).
Proof.
  intros temps l. induction l as [|op l IH]; intros pend total; cbn [expect_sops].
  - constructor.
  - destruct op as [v|r]; [apply IH|]. constructor; [|apply IH].
    destruct (is_delta (nth r temps TDelta)); cbn [fst]; [left|right]; reflexivity.
Qed.

(* how many values a history records *)
Definition n_rec (l : list sop) : nat := length (filter (fun op => match op with SRec _ => true | _ => false end) l).

Lemma expect_sops_lengths : forall temps l pend total m,
  Forall (fun p => (length p + n_rec l <= m)%nat) pend -> (length total + n_rec l <= m)%nat ->
  Forall (fun e => (length (snd e) <= m)%nat) (expect_sops temps pend total l).
Proof.
  intros temps l. induction l as [|op l IH]; intros pend total m Hp Ht; cbn [expect_sops].
  - constructor.
  - destruct op as [v|r]; unfold n_rec in *; cbn [filter length] in *.
    + apply IH.
      * apply Forall_forall. intros p Hin. apply in_map_iff in Hin. destruct Hin as (p0 & <- & Hin0).
        rewrite Forall_forall in Hp. specialize (Hp p0 Hin0). rewrite app_length. cbn [length]. lia.
      * rewrite app_length. cbn [length]. lia.
    + constructor.
      * destruct (is_delta (nth r temps TDelta)); cbn [snd]; [|lia].
        destruct (nth_in_or_default r pend []) as [Hin | ->]; [|cbn [length]; lia].
        rewrite Forall_forall in Hp. specialize (Hp _ Hin). lia.
      * apply IH; [|exact Ht].
        apply Forall_forall. intros p Hin.
        clear - Hp Hin. revert r Hin. induction pend as [|q pend IHp]; intros r Hin.
        -- destruct r; cbn [set_nth] in Hin; destruct Hin.
        -- inversion Hp; subst. destruct r as [|r]; cbn [set_nth] in Hin.
           ++ destruct Hin as [<-|Hin]; [cbn [length]; lia|]. rewrite Forall_forall in H2. apply H2. exact Hin.
           ++ destruct Hin as [<-|Hin]; [assumption|]. eapply IHp; eassumption.
Qed.

(* ------------------------------------------------------------------ the defaults are the OpenTelemetry defaults *)
Theorem default_bounds_lemma :
  map (to_scale 0) kHistDefaultBoundsDouble = otel_default_bounds /\
  map (to_scale 0) kHistDefaultBoundsLong = otel_default_bounds /\
  sorted otel_default_bounds /\
  kHistRecordMinMaxDefaultDouble = true /\ kHistRecordMinMaxDefaultLong = true.
Proof.
  split; [vm_compute; reflexivity|]. split; [vm_compute; reflexivity|].
  split; [apply sortedb_sorted; vm_compute; reflexivity|]. split; reflexivity.
Qed.

(* at every scale the glue may pick, the model's configuration is the one the SPEC checks against *)
Lemma to_scale_shift : forall s d, 0 <= snd d -> to_scale s d = Z.shiftl (to_scale 0 d) s.
Proof.
  intros s [m e] He. unfold to_scale. cbn [fst snd] in *. rewrite Z.add_0_r, Z.shiftl_shiftl by exact He. reflexivity.
Qed.

Theorem eff_cfg_spec : forall k s c, eff_cfg (ops_of k s) c = spec_cfg s c.
Proof.
  intros k s [x|]; [reflexivity|]. unfold eff_cfg, spec_cfg.
  destruct default_bounds_lemma as (Hd & Hl & _ & Hrd & Hrl).
  assert (Hnn : forall L, forallb (fun d => 0 <=? snd d) L = true ->
                  map (to_scale s) L = map (fun b => Z.shiftl b s) (map (to_scale 0) L)).
  { intros L HL. rewrite map_map. apply map_ext_in. intros d Hin.
    rewrite forallb_forall in HL. specialize (HL d Hin). apply Z.leb_le in HL. apply to_scale_shift. exact HL. }
  destruct k; cbn [ops_of long_ops dbl_ops o_defb o_defrmm].
  - rewrite Hnn by (vm_compute; reflexivity). rewrite Hl, Hrl. reflexivity.
  - rewrite Hnn by (vm_compute; reflexivity). rewrite Hd, Hrd. reflexivity.
Qed.
