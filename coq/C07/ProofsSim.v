(* C07 proofs, part 6: the double instrument.  Its addition rounds, so it is related to the reference
   instrument with exact addition ([dblx_ops]):
   (A) for every history, every reported point agrees with the reference on everything but the sum;
   hence (with ProofsSeries) bucket counts, count, min and max of every point a reader of a double
   histogram is handed are those of the exact summary of its interval, unconditionally. *)
From V Require Import C07.Spec C07.ProofsBucket C07.ProofsAgg C07.ProofsNum C07.ProofsSeries.
From Coq Require Import Lia ZifyBool ZifyNat Arith.
Local Open Scope Z_scope.

Definition nosum (h : hist) : hist := set_sum h (SFin 0).

Lemma nosum_fields : forall h h',
  nosum h = nosum h' <->
  (h_bounds h = h_bounds h' /\ h_counts h = h_counts h' /\ h_count h = h_count h' /\
   h_min h = h_min h' /\ h_max h = h_max h' /\ h_rmm h = h_rmm h' /\ h_rmm_mem h = h_rmm_mem h').
Proof.
  intros [b c n s mn mx r rm] [b' c' n' s' mn' mx' r' rm']. unfold nosum, set_sum. cbn. split.
  - intros H. injection H as -> -> -> -> -> -> ->. repeat split.
  - intros (-> & -> & -> & -> & -> & -> & ->). reflexivity.
Qed.

(* two instrument kinds that differ in the addition only *)
Definition same_but_add (o o' : ops) : Prop :=
  (forall b v, o_lt o b v = o_lt o' b v) /\ o_min0 o = o_min0 o' /\ o_max0 o = o_max0 o'.

Lemma dbl_dblx_same : forall s, same_but_add (dbl_ops s) (dblx_ops s).
Proof. intros s. repeat split. Qed.

Section Sim.
Variables o o' : ops.
Hypothesis Hsame : same_but_add o o'.

Lemma nosum_new : forall c, nosum (new_hist o c) = nosum (new_hist o' c).
Proof. intros c. destruct Hsame as (_ & Hmin & Hmax). unfold nosum, set_sum, new_hist. cbn. rewrite Hmin, Hmax. reflexivity. Qed.

Lemma nosum_aggregate : forall h h' v, nosum h = nosum h' -> nosum (aggregate o h v) = nosum (aggregate o' h' v).
Proof.
  intros h h' v H. apply nosum_fields in H. destruct H as (Hb & Hc & Hn & Hmn & Hmx & Hr & Hm).
  destruct Hsame as (Hk & _ & _).
  apply nosum_fields. unfold aggregate. cbn [h_bounds h_counts h_count h_sum h_min h_max h_rmm h_rmm_mem].
  rewrite Hb, Hc, Hn, Hmn, Hmx, Hr, Hm.
  rewrite (bucketp_ext2 (h_bounds h') (fun b => o_lt o b v) (fun b => o_lt o' b v)) by (intros b; apply Hk).
  repeat split.
Qed.

Lemma nosum_merge : forall a a' b b', nosum a = nosum a' -> nosum b = nosum b' ->
  nosum (merge o a b) = nosum (merge o' a' b').
Proof.
  intros a a' b b' Ha Hb. apply nosum_fields in Ha, Hb.
  destruct Ha as (Hb1 & Hc1 & Hn1 & Hmn1 & Hmx1 & Hr1 & Hm1).
  destruct Hb as (Hb2 & Hc2 & Hn2 & Hmn2 & Hmx2 & Hr2 & Hm2).
  destruct Hsame as (_ & Hmin & Hmax).
  apply nosum_fields. unfold merge. cbn [h_bounds h_counts h_count h_sum h_min h_max h_rmm h_rmm_mem].
  rewrite Hb1, Hc1, Hn1, Hmn1, Hmx1, Hr1, Hm1, Hc2, Hn2, Hmn2, Hmx2, Hr2, Hmin, Hmax. repeat split.
Qed.

Lemma nosum_diff : forall a a' b b', nosum a = nosum a' -> nosum b = nosum b' ->
  nosum (diff o a b) = nosum (diff o' a' b').
Proof.
  intros a a' b b' Ha Hb. apply nosum_fields in Ha, Hb.
  destruct Ha as (Hb1 & Hc1 & Hn1 & Hmn1 & Hmx1 & Hr1 & Hm1).
  destruct Hb as (Hb2 & Hc2 & Hn2 & Hmn2 & Hmx2 & Hr2 & Hm2).
  destruct Hsame as (_ & Hmin & Hmax).
  apply nosum_fields. unfold diff. cbn [h_bounds h_counts h_count h_sum h_min h_max h_rmm h_rmm_mem].
  rewrite Hb1, Hc1, Hn1, Hm1, Hc2, Hn2, Hmin, Hmax. repeat split.
Qed.

Lemma nosum_agg : forall c xs, nosum (agg o c xs) = nosum (agg o' c xs).
Proof.
  intros c xs. unfold agg. generalize (nosum_new c). generalize (new_hist o c), (new_hist o' c).
  induction xs as [|v xs IH]; intros h h' H; cbn [fold_left]; [exact H|].
  apply IH. apply nosum_aggregate. exact H.
Qed.

(* ---- the register machine ---- *)
Definition hrel (h h' : hist) : Prop := nosum h = nosum h'.

Lemma Forall2_nth_rel : forall {A} (R : A -> A -> Prop) l l' i d d',
  Forall2 R l l' -> R d d' -> R (nth i l d) (nth i l' d').
Proof.
  intros A R l l' i d d' H Hd. revert i. induction H as [|x y l l' Hxy _ IH]; intros [|i]; cbn [nth]; auto.
Qed.
Lemma Forall2_set_nth : forall {A} (R : A -> A -> Prop) l l' i x x',
  Forall2 R l l' -> R x x' -> Forall2 R (set_nth i x l) (set_nth i x' l').
Proof.
  intros A R l l' i x x' H Hx. revert i. induction H as [|a b l l' Hab Hl IH]; intros [|i]; cbn [set_nth]; constructor; auto.
Qed.

Lemma step_aop_rel : forall c rs rs' op,
  Forall2 hrel rs rs' ->
  Forall2 hrel (fst (step_aop o c rs op)) (fst (step_aop o' c rs' op)) /\
  Forall2 hrel (snd (step_aop o c rs op)) (snd (step_aop o' c rs' op)).
Proof.
  intros c rs rs' op H.
  assert (Hget : forall r, hrel (nth r rs (new_hist o c)) (nth r rs' (new_hist o' c))).
  { intros r. apply Forall2_nth_rel; [exact H|apply nosum_new]. }
  destruct op as [r|r v|r|r a b|r a b|r]; cbn [step_aop fst snd].
  - split; [apply Forall2_set_nth; [exact H|apply nosum_new]|constructor].
  - split; [apply Forall2_set_nth; [exact H|apply nosum_aggregate; apply Hget]|constructor].
  - split; [exact H|constructor].
  - split; [apply Forall2_set_nth; [exact H|apply nosum_merge; apply Hget]|constructor].
  - split; [apply Forall2_set_nth; [exact H|apply nosum_diff; apply Hget]|constructor].
  - split; [exact H|constructor; [apply Hget|constructor]].
Qed.

Theorem run_aops_rel : forall c l rs rs',
  Forall2 hrel rs rs' -> Forall2 hrel (run_aops o c rs l) (run_aops o' c rs' l).
Proof.
  intros c l. induction l as [|op l IH]; intros rs rs' H; cbn [run_aops]; [constructor|].
  destruct (step_aop_rel c rs rs' op H) as [H1 H2].
  destruct (step_aop o c rs op) as [rs1 out1]. destruct (step_aop o' c rs' op) as [rs1' out1']. cbn [fst snd] in *.
  apply Forall2_app; [exact H2|apply IH; exact H1].
Qed.

Lemma init_regs_rel : forall c, Forall2 hrel (init_regs o c) (init_regs o' c).
Proof.
  intros c. unfold init_regs. induction NREG as [|n IH]; cbn [repeat]; constructor; [apply nosum_new|exact IH].
Qed.

(* ---- one series behind readers ---- *)
Definition orel (a b : option hist) : Prop :=
  match a, b with
  | None, None => True
  | Some h, Some h' => hrel h h'
  | _, _ => False
  end.
Definition rrel (x y : rstate) : Prop :=
  Forall2 hrel (r_unrep x) (r_unrep y) /\ r_entry x = r_entry y /\ orel (r_last x) (r_last y).
Definition srel (s s' : sstate) : Prop := orel (s_cur s) (s_cur s') /\ Forall2 rrel (s_rd s) (s_rd s').

Lemma rrel0 : rrel rstate0 rstate0.
Proof. repeat split. constructor. Qed.

Lemma record_rel : forall c st st' v, srel st st' -> srel (record o c st v) (record o' c st' v).
Proof.
  intros c st st' v [Hc Hr]. split; [|exact Hr]. cbn [record s_cur orel].
  apply nosum_aggregate.
  destruct (s_cur st) as [h|], (s_cur st') as [h'|]; cbn [orel] in Hc; try contradiction; [exact Hc|apply nosum_new].
Qed.

Lemma merge_opt_rel : forall c m m' h h', orel m m' -> hrel h h' -> orel (merge_opt o c m h) (merge_opt o' c m' h').
Proof.
  intros c m m' h h' Hm Hh. unfold merge_opt. cbn [orel]. apply nosum_merge; [|exact Hh].
  destruct m as [x|], m' as [x'|]; cbn [orel] in Hm; try contradiction; [exact Hm|apply nosum_new].
Qed.

Lemma fold_merge_rel : forall c l l' m m', Forall2 hrel l l' -> orel m m' ->
  orel (fold_left (merge_opt o c) l m) (fold_left (merge_opt o' c) l' m').
Proof.
  intros c l l' m m' H. revert m m'. induction H as [|h h' l l' Hh _ IH]; intros m m' Hm; cbn [fold_left]; [exact Hm|].
  apply IH. apply merge_opt_rel; assumption.
Qed.

Lemma Forall2_length_eq : forall {A B} (R : A -> B -> Prop) l l', Forall2 R l l' -> length l = length l'.
Proof. intros A B R l l' H. induction H; cbn [length]; congruence. Qed.

Lemma collect_rel : forall c temps st st' r, srel st st' ->
  srel (fst (collect o c temps st r)) (fst (collect o' c temps st' r)) /\
  orel (snd (collect o c temps st r)) (snd (collect o' c temps st' r)).
Proof.
  intros c temps st st' r [Hc Hr]. unfold collect.
  destruct (Nat.eqb (length temps) 1 && is_delta (nth r temps TDelta)); cbn [fst snd].
  - split; [split; [exact I|exact Hr]|exact Hc].
  - set (rd1 := match s_cur st with
                | Some h => map (fun x => mkR (r_unrep x ++ [h]) true (r_last x)) (s_rd st)
                | None => s_rd st end).
    set (rd1' := match s_cur st' with
                 | Some h => map (fun x => mkR (r_unrep x ++ [h]) true (r_last x)) (s_rd st')
                 | None => s_rd st' end).
    assert (H1 : Forall2 rrel rd1 rd1').
    { unfold rd1, rd1'. destruct (s_cur st) as [h|], (s_cur st') as [h'|]; cbn [orel] in Hc; try contradiction; [|exact Hr].
      clear - Hr Hc. induction Hr as [|x y l l' Hxy _ IH]; cbn [map]; constructor; [|exact IH].
      destruct Hxy as (Hu & He & Hl). repeat split; cbn [r_unrep r_entry r_last]; [|exact Hl].
      apply Forall2_app; [exact Hu|constructor; [exact Hc|constructor]]. }
    clearbody rd1 rd1'.
    pose proof (Forall2_nth_rel rrel rd1 rd1' r rstate0 rstate0 H1 rrel0) as (Hu & He & Hl).
    rewrite <- He.
    destruct (r_entry (nth r rd1 rstate0)); cbn [negb fst snd].
    + pose proof (fold_merge_rel c _ _ None None Hu I) as Hm.
      set (m := fold_left (merge_opt o c) (r_unrep (nth r rd1 rstate0)) None) in *.
      set (m' := fold_left (merge_opt o' c) (r_unrep (nth r rd1' rstate0)) None) in *.
      assert (Hres : orel (if is_delta (nth r temps TDelta) then m
                           else match r_last (nth r rd1 rstate0) with Some l => merge_opt o c m l | None => m end)
                          (if is_delta (nth r temps TDelta) then m'
                           else match r_last (nth r rd1' rstate0) with Some l => merge_opt o' c m' l | None => m' end)).
      { destruct (is_delta (nth r temps TDelta)); [exact Hm|].
        destruct (r_last (nth r rd1 rstate0)) as [l|], (r_last (nth r rd1' rstate0)) as [l'|]; cbn [orel] in Hl; try contradiction;
          [apply merge_opt_rel; assumption|exact Hm]. }
      split; [|exact Hres].
      split; [exact I|]. apply Forall2_set_nth; [exact H1|].
      repeat split; cbn [r_unrep r_entry r_last]; [constructor|exact Hres].
    + split; [split; [exact I|exact H1]|exact I].
Qed.

Theorem run_sops_rel : forall c temps l st st', srel st st' ->
  Forall2 orel (run_sops o c temps st l) (run_sops o' c temps st' l).
Proof.
  intros c temps l. induction l as [|op l IH]; intros st st' H; cbn [run_sops]; [constructor|].
  destruct op as [v|r].
  - apply IH. apply record_rel. exact H.
  - destruct (collect_rel c temps st st' r H) as [H1 H2].
    destruct (collect o c temps st r) as [s1 out1]. destruct (collect o' c temps st' r) as [s1' out1']. cbn [fst snd] in *.
    constructor; [exact H2|apply IH; exact H1].
Qed.

Lemma sstate0_rel : forall n, srel (sstate0 n) (sstate0 n).
Proof.
  intros n. split; [exact I|]. cbn [sstate0 s_rd]. induction n as [|n IH]; cbn [repeat]; constructor; [apply rrel0|exact IH].
Qed.

End Sim.

(* for every history, a reader of a double histogram gets a point exactly when the exact reference does, and the
   point has the reference's boundaries, bucket counts, count, min, max and flags *)
Theorem reader_double_fields_lemma :
  forall s c temps l, Forall (valid_sop temps) l ->
    Forall2 (fun e out => match out with
                          | None => snd e = []
                          | Some h => nosum h = nosum (agg (dblx_ops s) c (snd e))
                          end)
            (expect_sops temps (repeat [] (length temps)) [] l)
            (run_sops (dbl_ops s) c temps (sstate0 (length temps)) l).
Proof.
  intros s c temps l Hv.
  pose proof (series_lossless_lemma (dblx_ops s) c (xadd_exact_dblx s) temps l Hv) as Hx.
  pose proof (run_sops_rel (dbl_ops s) (dblx_ops s) (dbl_dblx_same s) c temps l _ _ (sstate0_rel (length temps))) as Hr.
  revert Hr. generalize (run_sops (dbl_ops s) c temps (sstate0 (length temps)) l).
  induction Hx as [|e out es outs He _ IH]; intros outs' Hr; inversion Hr as [|out' ? outs'' ? Ho Hrest]; subst; constructor.
  - unfold ok_eq in He. destruct out' as [h'|], out as [h|]; cbn [orel] in Ho; try contradiction.
    + unfold hrel in Ho. rewrite Ho, He. reflexivity.
    + exact He.
  - apply IH. exact Hrest.
Qed.

(* the same for the register machine over Aggregate / Merge / Diff: the double instrument agrees with the
   exact reference on everything but the sums, for every sequence of operations *)
Theorem machine_double_fields_lemma :
  forall s c l,
    Forall2 (fun h h' => nosum h = nosum h')
            (run_aops (dbl_ops s) c (init_regs (dbl_ops s) c) l)
            (run_aops (dblx_ops s) c (init_regs (dblx_ops s) c) l).
Proof.
  intros s c l. apply (run_aops_rel (dbl_ops s) (dblx_ops s) (dbl_dblx_same s)). apply init_regs_rel. apply dbl_dblx_same.
Qed.
