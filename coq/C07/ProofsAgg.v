(* C07 proofs, part 2: a closed form of what Aggregate computes from a list of values, and from it:
   counts add up to count, sum, min/max, order independence, Merge as a homomorphism from list
   concatenation, associativity/commutativity of Merge, Diff inverting Merge on the counts. *)
From V Require Import C07.Spec C07.ProofsBucket.
From Coq Require Import Lia ZifyBool ZifyNat Arith Permutation.
Local Open Scope Z_scope.

(* ------------------------------------------------------------------ list helpers *)
Lemma fold_add_acc : forall l a, fold_left Z.add l a = a + fold_left Z.add l 0.
Proof.
  induction l as [|x l IH]; intros a; cbn [fold_left].
  - lia.
  - rewrite IH. rewrite (IH (0 + x)). lia.
Qed.
Lemma zsum_nil : zsum [] = 0.
Proof. reflexivity. Qed.
Lemma zsum_cons : forall x l, zsum (x :: l) = x + zsum l.
Proof. intros x l. unfold zsum. cbn [fold_left]. rewrite fold_add_acc. lia. Qed.
Lemma zsum_app : forall a b, zsum (a ++ b) = zsum a + zsum b.
Proof.
  induction a as [|x a IH]; intros b.
  - cbn [app]. rewrite zsum_nil. lia.
  - cbn [app]. rewrite !zsum_cons, IH. lia.
Qed.

Lemma nth_map_seq : forall (g : nat -> Z) m j, (j < m)%nat -> nth j (map g (seq 0 m)) 0 = g j.
Proof.
  intros g m j H.
  rewrite (nth_indep _ 0 (g 0%nat)) by (rewrite map_length, seq_length; exact H).
  rewrite map_nth. rewrite seq_nth by exact H. reflexivity.
Qed.

Lemma incr_length : forall l i, length (incr i l) = length l.
Proof. induction l as [|x l IH]; intros [|i]; cbn [incr length]; try reflexivity. rewrite IH. reflexivity. Qed.

Lemma incr_nth : forall l i j,
  nth j (incr i l) 0 = if Nat.eqb j i && Nat.ltb i (length l) then wadd (nth j l 0) 1 else nth j l 0.
Proof.
  induction l as [|x l IH]; intros i j.
  - destruct i; cbn [incr length]; rewrite andb_false_r; reflexivity.
  - destruct i as [|i]; destruct j as [|j]; cbn [incr nth length]; try reflexivity.
    rewrite IH. reflexivity.
Qed.

Lemma zip_with_length : forall f a b, length (zip_with f a b) = Nat.min (length a) (length b).
Proof.
  induction a as [|x a IH]; intros [|y b]; cbn [zip_with length]; try reflexivity.
  rewrite IH. reflexivity.
Qed.
Lemma zip_with_nth : forall f a b j, (j < length a)%nat -> (j < length b)%nat ->
  nth j (zip_with f a b) 0 = f (nth j a 0) (nth j b 0).
Proof.
  induction a as [|x a IH]; intros [|y b] j Ha Hb; cbn [length] in *; try lia.
  destruct j as [|j]; cbn [zip_with nth]; [reflexivity|]. apply IH; lia.
Qed.

Lemma list_eq_nth : forall (a b : list Z), length a = length b ->
  (forall j, (j < length a)%nat -> nth j a 0 = nth j b 0) -> a = b.
Proof. intros a b Hl H. apply (nth_ext a b 0 0 Hl). exact H. Qed.

(* ------------------------------------------------------------------ min / max folds *)
Lemma list_min_acc : forall l a b, list_min (Z.min a b) l = Z.min a (list_min b l).
Proof.
  induction l as [|x l IH]; intros a b; unfold list_min in *; cbn [fold_left].
  - reflexivity.
  - rewrite <- IH. f_equal. lia.
Qed.
Lemma list_min_le_init : forall l m, list_min m l <= m.
Proof. intros l m. pose proof (list_min_acc l m m) as H. rewrite Z.min_id in H. lia. Qed.
Lemma list_min_app : forall m xs ys, list_min m (xs ++ ys) = Z.min (list_min m xs) (list_min m ys).
Proof.
  intros m xs ys. unfold list_min at 1. rewrite fold_left_app. fold (list_min m xs). fold (list_min (list_min m xs) ys).
  pose proof (list_min_le_init xs m) as Hle.
  replace (list_min m xs) with (Z.min (list_min m xs) m) at 1 by lia.
  apply list_min_acc.
Qed.
Lemma list_max_acc : forall l a b, list_max (Z.max a b) l = Z.max a (list_max b l).
Proof.
  induction l as [|x l IH]; intros a b; unfold list_max in *; cbn [fold_left].
  - reflexivity.
  - rewrite <- IH. f_equal. lia.
Qed.
Lemma list_max_ge_init : forall l m, m <= list_max m l.
Proof. intros l m. pose proof (list_max_acc l m m) as H. rewrite Z.max_id in H. lia. Qed.
Lemma list_max_app : forall m xs ys, list_max m (xs ++ ys) = Z.max (list_max m xs) (list_max m ys).
Proof.
  intros m xs ys. unfold list_max at 1. rewrite fold_left_app. fold (list_max m xs). fold (list_max (list_max m xs) ys).
  pose proof (list_max_ge_init xs m) as Hle.
  replace (list_max m xs) with (Z.max (list_max m xs) m) at 1 by lia.
  apply list_max_acc.
Qed.

(* the fold is the least element: a lower bound that is attained *)
Lemma list_min_spec : forall l m, (forall v, In v (m :: l) -> list_min m l <= v) /\ In (list_min m l) (m :: l).
Proof.
  induction l as [|x l IH]; intros m.
  - unfold list_min; cbn [fold_left]. split; [intros v [<-|[]]; lia|left; reflexivity].
  - unfold list_min; cbn [fold_left]. fold (list_min (Z.min m x) l).
    destruct (IH (Z.min m x)) as [Hlb Hin]. split.
    + intros v Hv.
      assert (Hm : list_min (Z.min m x) l <= Z.min m x) by (apply Hlb; left; reflexivity).
      destruct Hv as [<-|[<-|Hv]]; try lia. apply Hlb. right. exact Hv.
    + destruct Hin as [Heq|Hin].
      * rewrite <- Heq. destruct (Z.min_spec m x) as [[_ ->]|[_ ->]]; [left|right; left]; reflexivity.
      * right. right. exact Hin.
Qed.
Lemma list_max_spec : forall l m, (forall v, In v (m :: l) -> v <= list_max m l) /\ In (list_max m l) (m :: l).
Proof.
  induction l as [|x l IH]; intros m.
  - unfold list_max; cbn [fold_left]. split; [intros v [<-|[]]; lia|left; reflexivity].
  - unfold list_max; cbn [fold_left]. fold (list_max (Z.max m x) l).
    destruct (IH (Z.max m x)) as [Hub Hin]. split.
    + intros v Hv.
      assert (Hm : Z.max m x <= list_max (Z.max m x) l) by (apply Hub; left; reflexivity).
      destruct Hv as [<-|[<-|Hv]]; try lia. apply Hub. right. exact Hv.
    + destruct Hin as [Heq|Hin].
      * rewrite <- Heq. destruct (Z.max_spec m x) as [[_ ->]|[_ ->]]; [right; left|left]; reflexivity.
      * right. right. exact Hin.
Qed.

(* ------------------------------------------------------------------ the closed form *)
(* how many of the values the search sends to bucket j *)
Definition cnt (f : Z -> nat) (j : nat) (xs : list Z) : Z :=
  Z.of_nat (length (filter (fun v => Nat.eqb (f v) j) xs)).
Definition cf_counts (f : Z -> nat) (n : nat) (xs : list Z) : list Z :=
  map (fun j => cnt f j xs mod U64) (seq 0 (S n)).
Definition sum_fold (o : ops) (xs : list Z) : fsum := fold_left (fun a v => o_add o a (SFin v)) xs (SFin 0).
Definition bkt (o : ops) (c : cfg) (v : Z) : nat := bucketp (c_bounds c) (fun b => o_lt o b v).

Definition closed (o : ops) (c : cfg) (xs : list Z) : hist :=
  mkH (c_bounds c)
      (cf_counts (bkt o c) (length (c_bounds c)) xs)
      (Z.of_nat (length xs) mod U64)
      (sum_fold o xs)
      (if c_rmm c then list_min (o_min0 o) xs else o_min0 o)
      (if c_rmm c then list_max (o_max0 o) xs else o_max0 o)
      (c_rmm c) (c_rmm c).

Lemma U64_pos : 0 < U64.
Proof. reflexivity. Qed.

Lemma cnt_app : forall f j xs ys, cnt f j (xs ++ ys) = cnt f j xs + cnt f j ys.
Proof. intros. unfold cnt. rewrite filter_app, app_length. lia. Qed.
Lemma cnt_nil : forall f j, cnt f j [] = 0.
Proof. reflexivity. Qed.
Lemma cnt_one : forall f j v, cnt f j [v] = if Nat.eqb (f v) j then 1 else 0.
Proof. intros. unfold cnt. cbn [filter]. destruct (Nat.eqb (f v) j); reflexivity. Qed.
Lemma filter_len_le : forall (p : Z -> bool) xs, (length (filter p xs) <= length xs)%nat.
Proof. induction xs as [|x xs IH]; cbn [filter length]; [lia|]. destruct (p x); cbn [length]; lia. Qed.
Lemma cnt_range : forall f j xs, 0 <= cnt f j xs <= Z.of_nat (length xs).
Proof. intros. unfold cnt. pose proof (filter_len_le (fun v => Nat.eqb (f v) j) xs). lia. Qed.

Lemma cf_counts_length : forall f n xs, length (cf_counts f n xs) = S n.
Proof. intros. unfold cf_counts. rewrite map_length, seq_length. reflexivity. Qed.
Lemma cf_counts_nth : forall f n xs j, (j <= n)%nat -> nth j (cf_counts f n xs) 0 = cnt f j xs mod U64.
Proof. intros. unfold cf_counts. rewrite nth_map_seq by lia. reflexivity. Qed.

Lemma wadd_mod_l : forall a b, wadd (a mod U64) b = (a + b) mod U64.
Proof. intros. unfold wadd. rewrite Zplus_mod_idemp_l. reflexivity. Qed.
Lemma wadd_mod_lr : forall a b, wadd (a mod U64) (b mod U64) = (a + b) mod U64.
Proof. intros. unfold wadd. rewrite <- Zplus_mod. reflexivity. Qed.

Lemma incr_cf : forall f n xs v, (f v <= n)%nat -> incr (f v) (cf_counts f n xs) = cf_counts f n (xs ++ [v]).
Proof.
  intros f n xs v Hv. apply list_eq_nth.
  - rewrite incr_length, !cf_counts_length. reflexivity.
  - intros j Hj. rewrite incr_length, cf_counts_length in Hj.
    rewrite incr_nth, cf_counts_length, !cf_counts_nth by lia.
    rewrite cnt_app, cnt_one.
    assert (Hlt : Nat.ltb (f v) (S n) = true) by (apply Nat.ltb_lt; lia). rewrite Hlt, andb_true_r.
    rewrite (Nat.eqb_sym (f v) j).
    destruct (Nat.eqb j (f v)).
    + apply wadd_mod_l.
    + f_equal. lia.
Qed.

Lemma repeat_cf : forall f n, repeat 0 (S n) = cf_counts f n [].
Proof.
  intros f n. apply list_eq_nth.
  - rewrite repeat_length, cf_counts_length. reflexivity.
  - intros j Hj. rewrite repeat_length in Hj. rewrite cf_counts_nth by lia.
    rewrite cnt_nil. rewrite nth_repeat. reflexivity.
Qed.

Lemma aggregate_closed : forall o c xs v, aggregate o (closed o c xs) v = closed o c (xs ++ [v]).
Proof.
  intros o c xs v. unfold aggregate, closed. cbn [h_bounds h_counts h_count h_sum h_min h_max h_rmm h_rmm_mem].
  f_equal.
  - apply (incr_cf (bkt o c)). unfold bkt. apply bucketp_le_length.
  - rewrite wadd_mod_l. rewrite app_length. cbn [length]. f_equal. lia.
  - unfold sum_fold. rewrite fold_left_app. reflexivity.
  - destruct (c_rmm c); [|reflexivity]. unfold list_min. rewrite fold_left_app. reflexivity.
  - destruct (c_rmm c); [|reflexivity]. unfold list_max. rewrite fold_left_app. reflexivity.
Qed.

Theorem agg_closed : forall o c xs, agg o c xs = closed o c xs.
Proof.
  intros o c xs. induction xs as [|v xs IH] using rev_ind.
  - unfold agg, closed, new_hist. cbn [fold_left length].
    f_equal; try reflexivity; try (destruct (c_rmm c); reflexivity).
    apply repeat_cf.
  - unfold agg in *. rewrite fold_left_app. cbn [fold_left]. rewrite IH. apply aggregate_closed.
Qed.

(* ------------------------------------------------------------------ exact addition *)
Definition exact_add (o : ops) : Prop := forall a b, o_add o (SFin a) (SFin b) = SFin (a + b).

Lemma xadd_exact_long : forall s, exact_add (long_ops s).
Proof. intros s a b. reflexivity. Qed.
Lemma xadd_exact_dblx : forall s, exact_add (dblx_ops s).
Proof. intros s a b. reflexivity. Qed.

Lemma sum_fold_acc : forall o, exact_add o -> forall xs a,
  fold_left (fun a v => o_add o a (SFin v)) xs (SFin a) = SFin (a + zsum xs).
Proof.
  intros o He. induction xs as [|x xs IH]; intros a; cbn [fold_left].
  - rewrite zsum_nil. f_equal. lia.
  - rewrite He, IH, zsum_cons. f_equal. lia.
Qed.
Lemma sum_fold_exact : forall o, exact_add o -> forall xs, sum_fold o xs = SFin (zsum xs).
Proof. intros o He xs. unfold sum_fold. rewrite (sum_fold_acc o He). f_equal. Qed.

(* ------------------------------------------------------------------ sentences 2-4 on the model *)
Lemma zsum_map_split : forall (g h : nat -> Z) l,
  zsum (map (fun j => g j + h j) l) = zsum (map g l) + zsum (map h l).
Proof.
  induction l as [|x l IH]; cbn [map].
  - reflexivity.
  - rewrite !zsum_cons, IH. lia.
Qed.
Lemma zsum_indicator : forall b a m, (a <= b < a + m)%nat ->
  zsum (map (fun j => if Nat.eqb b j then 1 else 0) (seq a m)) = 1.
Proof.
  intros b a m. revert a. induction m as [|m IH]; intros a H; [lia|].
  cbn [seq map]. rewrite zsum_cons.
  destruct (Nat.eqb b a) eqn:E.
  - apply Nat.eqb_eq in E. subst a.
    assert (Hz : forall k m', (b < k)%nat -> zsum (map (fun j => if Nat.eqb b j then 1 else 0) (seq k m')) = 0).
    { intros k m'. revert k. induction m' as [|m' IH']; intros k Hk; [reflexivity|].
      cbn [seq map]. rewrite zsum_cons, IH' by lia.
      assert (Nat.eqb b k = false) by (apply Nat.eqb_neq; lia). rewrite H0. reflexivity. }
    rewrite Hz by lia. reflexivity.
  - apply Nat.eqb_neq in E. rewrite IH by lia. reflexivity.
Qed.
Lemma zsum_zero : forall (l : list nat), zsum (map (fun _ => 0) l) = 0.
Proof. induction l as [|x l IH]; [reflexivity|]. cbn [map]. rewrite zsum_cons, IH. reflexivity. Qed.

(* every value is counted in exactly one bucket: the unwrapped counts add up to the number of values *)
Lemma cnt_total : forall f n xs, (forall v, (f v <= n)%nat) ->
  zsum (map (fun j => cnt f j xs) (seq 0 (S n))) = Z.of_nat (length xs).
Proof.
  intros f n xs Hf. induction xs as [|v xs IH] using rev_ind.
  - rewrite (map_ext _ (fun _ => 0)) by (intros; apply cnt_nil). apply zsum_zero.
  - rewrite (map_ext _ (fun j => cnt f j xs + (if Nat.eqb (f v) j then 1 else 0))).
    2:{ intros j. rewrite cnt_app, cnt_one. reflexivity. }
    rewrite zsum_map_split, IH, zsum_indicator by (specialize (Hf v); lia).
    rewrite app_length. cbn [length]. lia.
Qed.

Lemma cf_counts_small : forall f n xs, Z.of_nat (length xs) < U64 ->
  cf_counts f n xs = map (fun j => cnt f j xs) (seq 0 (S n)).
Proof.
  intros f n xs Hlen. unfold cf_counts. apply map_ext. intros j.
  apply Z.mod_small. pose proof (cnt_range f j xs). lia.
Qed.

Theorem counts_sum_to_count_lemma : forall o c xs, Z.of_nat (length xs) < U64 ->
  zsum (h_counts (agg o c xs)) = h_count (agg o c xs) /\ h_count (agg o c xs) = Z.of_nat (length xs).
Proof.
  intros o c xs Hlen. rewrite agg_closed. cbn [closed h_counts h_count].
  rewrite cf_counts_small by exact Hlen.
  rewrite cnt_total by (intros v; apply bucketp_le_length).
  rewrite Z.mod_small by lia. split; reflexivity.
Qed.

Theorem sum_is_sum_lemma : forall o c xs, exact_add o -> h_sum (agg o c xs) = SFin (zsum xs).
Proof. intros o c xs He. rewrite agg_closed. cbn [closed h_sum]. apply sum_fold_exact. exact He. Qed.

(* min and max, when enabled, of a non-empty list of values that are not beyond the sentinels *)
Theorem min_max_spec_lemma : forall o c xs,
  c_rmm c = true -> xs <> [] -> (forall v, In v xs -> o_max0 o <= v <= o_min0 o) ->
  let h := agg o c xs in
  h_rmm h = true /\
  In (h_min h) xs /\ (forall v, In v xs -> h_min h <= v) /\
  In (h_max h) xs /\ (forall v, In v xs -> v <= h_max h).
Proof.
  intros o c xs Hr Hne Hb. cbn zeta. rewrite agg_closed. cbn [closed h_rmm h_min h_max]. rewrite Hr.
  destruct xs as [|x xs]; [congruence|].
  destruct (list_min_spec (x :: xs) (o_min0 o)) as [Hlb Hin].
  destruct (list_max_spec (x :: xs) (o_max0 o)) as [Hub Hin'].
  split; [reflexivity|].
  assert (Hx : o_max0 o <= x <= o_min0 o) by (apply Hb; left; reflexivity).
  assert (Hmin_le : list_min (o_min0 o) (x :: xs) <= x) by (apply Hlb; right; left; reflexivity).
  assert (Hmax_ge : x <= list_max (o_max0 o) (x :: xs)) by (apply Hub; right; left; reflexivity).
  repeat split.
  - destruct Hin as [Heq|Hin]; [|exact Hin].
    assert (list_min (o_min0 o) (x :: xs) = x) by lia. left. congruence.
  - intros v Hv. apply Hlb. right. exact Hv.
  - destruct Hin' as [Heq|Hin']; [|exact Hin'].
    assert (list_max (o_max0 o) (x :: xs) = x) by lia. left. congruence.
  - intros v Hv. apply Hub. right. exact Hv.
Qed.

(* the same in the form the checker uses: the fold over the tail starting from the head *)
Lemma list_min_sentinel : forall m x xs, x <= m -> list_min m (x :: xs) = list_min x xs.
Proof. intros m x xs H. unfold list_min. cbn [fold_left]. f_equal. lia. Qed.
Lemma list_max_sentinel : forall m x xs, m <= x -> list_max m (x :: xs) = list_max x xs.
Proof. intros m x xs H. unfold list_max. cbn [fold_left]. f_equal. lia. Qed.

(* ------------------------------------------------------------------ order independence *)
Lemma filter_length_perm : forall (p : Z -> bool) xs ys, Permutation xs ys -> length (filter p xs) = length (filter p ys).
Proof.
  intros p xs ys H. induction H; cbn [filter].
  - reflexivity.
  - destruct (p x); cbn [length]; congruence.
  - destruct (p x); destruct (p y); reflexivity.
  - congruence.
Qed.
Lemma zsum_perm : forall xs ys, Permutation xs ys -> zsum xs = zsum ys.
Proof.
  intros xs ys H. induction H.
  - reflexivity.
  - rewrite !zsum_cons. lia.
  - rewrite !zsum_cons. lia.
  - congruence.
Qed.
Lemma list_min_perm : forall xs ys, Permutation xs ys -> forall m, list_min m xs = list_min m ys.
Proof.
  intros xs ys H. induction H; intros m; unfold list_min in *; cbn [fold_left].
  - reflexivity.
  - apply IHPermutation.
  - f_equal. lia.
  - rewrite IHPermutation1. apply IHPermutation2.
Qed.
Lemma list_max_perm : forall xs ys, Permutation xs ys -> forall m, list_max m xs = list_max m ys.
Proof.
  intros xs ys H. induction H; intros m; unfold list_max in *; cbn [fold_left].
  - reflexivity.
  - apply IHPermutation.
  - f_equal. lia.
  - rewrite IHPermutation1. apply IHPermutation2.
Qed.

Theorem agg_perm : forall o c xs ys, exact_add o -> Permutation xs ys -> agg o c xs = agg o c ys.
Proof.
  intros o c xs ys He Hp. rewrite !agg_closed. unfold closed.
  rewrite !(sum_fold_exact o He), (zsum_perm _ _ Hp), (Permutation_length Hp).
  rewrite (list_min_perm _ _ Hp), (list_max_perm _ _ Hp).
  f_equal. unfold cf_counts. apply map_ext. intros j. unfold cnt.
  rewrite (filter_length_perm _ _ _ Hp). reflexivity.
Qed.

(* ------------------------------------------------------------------ Merge *)
Definition set_sum (h : hist) (s : fsum) : hist :=
  mkH (h_bounds h) (h_counts h) (h_count h) s (h_min h) (h_max h) (h_rmm h) (h_rmm_mem h).

(* for either instrument kind: everything but the sum depends on the multiset of values only *)
Theorem agg_perm_fields : forall o c xs ys, Permutation xs ys ->
  set_sum (agg o c xs) (SFin 0) = set_sum (agg o c ys) (SFin 0).
Proof.
  intros o c xs ys Hp. rewrite !agg_closed. unfold closed, set_sum.
  cbn [h_bounds h_counts h_count h_sum h_min h_max h_rmm h_rmm_mem].
  rewrite (Permutation_length Hp), (list_min_perm _ _ Hp), (list_max_perm _ _ Hp).
  f_equal. unfold cf_counts. apply map_ext. intros j. unfold cnt.
  rewrite (filter_length_perm _ _ _ Hp). reflexivity.
Qed.

Lemma zip_cf : forall f n xs ys, zip_with wadd (cf_counts f n xs) (cf_counts f n ys) = cf_counts f n (xs ++ ys).
Proof.
  intros f n xs ys. apply list_eq_nth.
  - rewrite zip_with_length, !cf_counts_length. apply Nat.min_id.
  - intros j Hj. rewrite zip_with_length, !cf_counts_length, Nat.min_id in Hj.
    rewrite zip_with_nth by (rewrite cf_counts_length; exact Hj).
    rewrite !cf_counts_nth by lia. rewrite cnt_app. apply wadd_mod_lr.
Qed.

(* all fields but the sum, for either instrument kind *)
Lemma merge_closed_gen : forall o c xs ys,
  merge o (closed o c xs) (closed o c ys) = set_sum (closed o c (xs ++ ys)) (o_add o (sum_fold o xs) (sum_fold o ys)).
Proof.
  intros o c xs ys. unfold merge, closed, set_sum.
  cbn [h_bounds h_counts h_count h_sum h_min h_max h_rmm h_rmm_mem].
  rewrite zip_cf, wadd_mod_lr, app_length, andb_diag.
  f_equal.
  - f_equal. lia.
  - destruct (c_rmm c); [|reflexivity]. symmetry. apply list_min_app.
  - destruct (c_rmm c); [|reflexivity]. symmetry. apply list_max_app.
Qed.

Theorem merge_homomorphism_lemma : forall o c xs ys, exact_add o ->
  merge o (agg o c xs) (agg o c ys) = agg o c (xs ++ ys).
Proof.
  intros o c xs ys He. rewrite !agg_closed, merge_closed_gen.
  rewrite !(sum_fold_exact o He), He.
  unfold set_sum, closed. cbn [h_bounds h_counts h_count h_sum h_min h_max h_rmm h_rmm_mem].
  rewrite (sum_fold_exact o He), zsum_app. reflexivity.
Qed.

(* for the double instrument: everything but the sum, always; the sum as soon as the one addition is exact *)
Theorem merge_homomorphism_fields : forall o c xs ys,
  set_sum (merge o (agg o c xs) (agg o c ys)) (SFin 0) = set_sum (agg o c (xs ++ ys)) (SFin 0).
Proof. intros. rewrite !agg_closed, merge_closed_gen. reflexivity. Qed.

(* Merge on arbitrary points: commutative and associative *)
Lemma zip_with_comm : forall f a b, (forall x y, f x y = f y x) -> zip_with f a b = zip_with f b a.
Proof.
  intros f a b Hf. revert b. induction a as [|x a IH]; intros [|y b]; cbn [zip_with]; try reflexivity.
  rewrite Hf, IH. reflexivity.
Qed.
Lemma zip_with_assoc : forall f a b c, (forall x y z, f (f x y) z = f x (f y z)) ->
  zip_with f (zip_with f a b) c = zip_with f a (zip_with f b c).
Proof.
  intros f a b c Hf. revert b c. induction a as [|x a IH]; intros [|y b] [|z c]; cbn [zip_with]; try reflexivity.
  rewrite Hf, IH. reflexivity.
Qed.
Lemma wadd_comm : forall x y, wadd x y = wadd y x.
Proof. intros. unfold wadd. f_equal. lia. Qed.
Lemma wadd_assoc : forall x y z, wadd (wadd x y) z = wadd x (wadd y z).
Proof. intros. unfold wadd. rewrite Zplus_mod_idemp_l, Zplus_mod_idemp_r. f_equal. lia. Qed.

Definition add_comm (o : ops) : Prop := forall x y, o_add o x y = o_add o y x.
Definition add_assoc (o : ops) : Prop := forall x y z, o_add o (o_add o x y) z = o_add o x (o_add o y z).

Lemma xadd_comm : forall x y, xadd x y = xadd y x.
Proof. intros [a| | |] [b| | |]; cbn; try reflexivity. f_equal. lia. Qed.
Lemma xadd_assoc : forall x y z, xadd (xadd x y) z = xadd x (xadd y z).
Proof. intros [a| | |] [b| | |] [c| | |]; cbn; try reflexivity. f_equal. lia. Qed.
Lemma fadd_comm : forall s x y, fadd s x y = fadd s y x.
Proof. intros s [a| | |] [b| | |]; cbn; try reflexivity. f_equal. lia. Qed.

Theorem merge_comm_lemma : forall o a b, add_comm o ->
  h_bounds a = h_bounds b -> h_rmm_mem a = h_rmm_mem b -> merge o a b = merge o b a.
Proof.
  intros o a b Hc Hb Hm. unfold merge. rewrite Hb, Hm, (andb_comm (h_rmm a)).
  rewrite (zip_with_comm wadd _ _ wadd_comm), (wadd_comm (h_count a)), (Hc (h_sum a)).
  rewrite (Z.min_comm (h_min a)), (Z.max_comm (h_max a)). reflexivity.
Qed.

Theorem merge_assoc_lemma : forall o a b c, add_assoc o ->
  merge o (merge o a b) c = merge o a (merge o b c).
Proof.
  intros o a b c Ha. unfold merge.
  cbn [h_bounds h_counts h_count h_sum h_min h_max h_rmm h_rmm_mem].
  rewrite (zip_with_assoc wadd _ _ _ wadd_assoc), wadd_assoc, Ha.
  destruct (h_rmm a), (h_rmm b), (h_rmm c); cbn [andb]; f_equal; lia.
Qed.

(* ------------------------------------------------------------------ Diff *)
Definition in_u64 (x : Z) : Prop := 0 <= x < U64.

Theorem diff_inverts_merge_counts : forall o a b,
  length (h_counts a) = length (h_counts b) -> Forall in_u64 (h_counts b) -> in_u64 (h_count b) ->
  let d := diff o a (merge o a b) in
  h_counts d = h_counts b /\ h_count d = h_count b /\ h_bounds d = h_bounds a /\ h_rmm d = false.
Proof.
  intros o a b Hl Hall Hc. cbn zeta. unfold diff, merge.
  cbn [h_bounds h_counts h_count h_sum h_min h_max h_rmm h_rmm_mem].
  repeat split.
  - apply list_eq_nth.
    + rewrite !zip_with_length. lia.
    + intros j Hj. rewrite !zip_with_length in Hj.
      rewrite zip_with_nth by (rewrite ?zip_with_length; lia).
      rewrite zip_with_nth by lia.
      unfold wadd. rewrite Zminus_mod_idemp_l.
      replace (nth j (h_counts a) 0 + nth j (h_counts b) 0 - nth j (h_counts a) 0) with (nth j (h_counts b) 0) by lia.
      apply Z.mod_small. rewrite Forall_forall in Hall. apply Hall. apply nth_In. lia.
  - unfold wadd. rewrite Zminus_mod_idemp_l.
    replace (h_count a + h_count b - h_count a) with (h_count b) by lia.
    apply Z.mod_small. exact Hc.
Qed.

Lemma closed_counts_u64 : forall o c xs, Forall in_u64 (h_counts (closed o c xs)) /\ in_u64 (h_count (closed o c xs)).
Proof.
  intros o c xs. cbn [closed h_counts h_count]. split.
  - apply Forall_forall. intros x Hx. unfold cf_counts in Hx. apply in_map_iff in Hx.
    destruct Hx as (j & <- & _). apply Z.mod_pos_bound. apply U64_pos.
  - apply Z.mod_pos_bound. apply U64_pos.
Qed.

(* cur.Diff(cur.Merge(delta)) gives the delta back: bucket counts, count and (exact addition) the sum *)
Theorem diff_inverts_merge_lemma : forall o c xs ys, exact_add o ->
  let d := diff o (agg o c xs) (merge o (agg o c xs) (agg o c ys)) in
  h_counts d = h_counts (agg o c ys) /\ h_count d = h_count (agg o c ys) /\ h_bounds d = h_bounds (agg o c ys) /\
  h_sum d = h_sum (agg o c ys).
Proof.
  intros o c xs ys He. cbn zeta.
  destruct (closed_counts_u64 o c ys) as [H1 H2].
  destruct (diff_inverts_merge_counts o (agg o c xs) (agg o c ys)) as (Ha & Hb & Hc & _).
  - rewrite !agg_closed. cbn [closed h_counts]. rewrite !cf_counts_length. reflexivity.
  - rewrite agg_closed. exact H1.
  - rewrite agg_closed. exact H2.
  - rewrite Ha, Hb, Hc. split; [reflexivity|]. split; [reflexivity|]. split; [rewrite !agg_closed; reflexivity|].
    rewrite (merge_homomorphism_lemma o c xs ys He). cbn [diff h_sum].
    rewrite !(sum_is_sum_lemma o c _ He). cbn [fneg]. rewrite He, zsum_app. f_equal. lia.
Qed.
