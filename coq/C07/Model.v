(* C07 - executable model of the explicit-bucket histogram aggregation of the metrics SDK:
   {Long,Double}HistogramAggregation (Aggregate / Merge / Diff / ToPoint, BucketBinarySearch),
   the glue of the synchronous histogram instruments, and - for one attribute set - the
   per-reader bookkeeping of SyncMetricStorage::Collect + TemporalMetricStorage::buildMetrics.
   Definitions only, no proofs.

   Numbers.  Every finite binary64 value is an integer multiple of 2^-1074, so a finite double is
   modelled by the integer [z] with value z * 2^-1074 ("units"); comparisons of doubles are
   comparisons of these integers, sums of doubles are integer sums followed by the IEEE
   round-to-nearest-even step [rnd].  int64 values stay plain integers; they are compared with the
   boundaries the way the int64 overload of BucketBinarySearch does ([long_lt]). *)
From V Require Export Base.Tok.
From V Require Import Gen.Consts.
Local Open Scope Z_scope.

(* ------------------------------------------------------------------ binary64 *)
(* a finite double, exactly: (m, e) stands for m * 2^e *)
Definition dyad := (Z * Z)%type.

(* a double-valued sum: finite (in units) or one of the specials an overflowing sum can reach *)
Inductive fsum := SFin (z : Z) | SPInf | SNInf | SNaN.

Definition bitlen (z : Z) : Z := if z =? 0 then 0 else Z.log2 (Z.abs z) + 1.

(* To keep the integers small the model of one case works in units of 2^-s for the smallest
   s in [0, 1074] that makes every double of the case an integer ([need_scale]); nothing but
   the overflow threshold and the printing of bit patterns depends on s. *)
Definition OVF (s : Z) : Z := 2 ^ (1024 + s).          (* 2^1024 in units of 2^-s *)
Fixpoint val2 (p : positive) : Z := match p with xO q => 1 + val2 q | _ => 0 end.
Definition need_scale (d : dyad) : Z :=
  match fst d with Z0 => 0 | Zpos p | Zneg p => Z.max 0 (- (snd d + val2 p)) end.
(* m * 2^e in units of 2^-s (exact when need_scale (m, e) <= s) *)
Definition to_scale (s : Z) (d : dyad) : Z := Z.shiftl (fst d) (snd d + s).

(* round the exact value z (units of 2^-s, 0 <= s <= 1074) to the nearest binary64, ties to even;
   subnormals are spaced 2^-1074 apart, which is at most one unit, so only magnitudes above 53 bits
   need rounding *)
Definition rnd (s : Z) (z : Z) : fsum :=
  let a := Z.abs z in
  let n := bitlen z in
  if n <=? 53 then SFin z
  else
    let sh := n - 53 in
    let q := Z.shiftr a sh in
    let r := a - Z.shiftl q sh in
    let half := Z.shiftl 1 (sh - 1) in
    let q' := if (half <? r) || ((half =? r) && Z.odd q) then q + 1 else q in
    let res := Z.shiftl q' sh in
    if OVF s <=? res then (if z <? 0 then SNInf else SPInf)
    else SFin (if z <? 0 then - res else res).

(* IEEE bit pattern (as an integer in [0, 2^64)) -> the finite value; None for inf / NaN *)
Definition decode (bits : Z) : option dyad :=
  if (bits <? 0) || (2 ^ 64 <=? bits) then None else
  let s := Z.shiftr bits 63 in
  let e := Z.land (Z.shiftr bits 52) 2047 in
  let m := Z.land bits (Z.ones 52) in
  if e =? 2047 then None
  else let mant := if e =? 0 then m else m + 2 ^ 52 in
       Some (if s =? 1 then - mant else mant, if e =? 0 then -1074 else e - 1075).

(* finite value z units of 2^-s (assumed representable) -> bit pattern; zero is +0 *)
Definition encode (s z : Z) : Z :=
  if z =? 0 then 0 else
  let a := Z.abs z in
  let n := bitlen z in
  let sg := if z <? 0 then 2 ^ 63 else 0 in
  let ef := n - s + 1022 in
  if ef <=? 0 then sg + Z.shiftl a (1074 - s)
  else sg + ef * 2 ^ 52 + (Z.shiftl a (53 - n) - 2 ^ 52).

Definition encode_sum (s : Z) (x : fsum) : Z :=
  match x with
  | SFin z => encode s z
  | SPInf => 2047 * 2 ^ 52
  | SNInf => 2 ^ 63 + 2047 * 2 ^ 52
  | SNaN => 2047 * 2 ^ 52 + 2 ^ 51
  end.

(* double + double *)
Definition fadd (s : Z) (x y : fsum) : fsum :=
  match x, y with
  | SFin a, SFin b => rnd s (a + b)
  | SNaN, _ | _, SNaN => SNaN
  | SPInf, SNInf | SNInf, SPInf => SNaN
  | SPInf, _ | _, SPInf => SPInf
  | SNInf, _ | _, SNInf => SNInf
  end.

(* int64 + int64 (no overflow: that is undefined behaviour in the C++), also the "no rounding" reference *)
Definition xadd (x y : fsum) : fsum :=
  match x, y with
  | SFin a, SFin b => SFin (a + b)
  | _, _ => SNaN
  end.

(* - double *)
Definition fneg (x : fsum) : fsum :=
  match x with SFin z => SFin (- z) | SPInf => SNInf | SNInf => SPInf | SNaN => SNaN end.

(* boundary < value for an int64 value, as the int64 overload of BucketBinarySearch decides it (b in units of
   2^-s): a boundary >= 2^63 is not below any int64, one < -2^63 below every int64, otherwise
   static_cast<int64_t>(std::floor(boundary)) < value *)
Definition long_lt (s b v : Z) : bool :=
  if Z.shiftl (2 ^ 63) s <=? b then false
  else if b <? - Z.shiftl (2 ^ 63) s then true
  else Z.shiftr b s <? v.

(* ------------------------------------------------------------------ the two instrument kinds *)
Record ops := mkOps {
  o_lt : Z -> Z -> bool;           (* boundary (units) < value, as the bucket search compares them *)
  o_add : fsum -> fsum -> fsum;    (* sum_ + value, sum_ + sum_ *)
  o_min0 : Z;                      (* initial min_ *)
  o_max0 : Z;                      (* initial max_ *)
  o_defb : list Z;                 (* boundaries without a config *)
  o_defrmm : bool                  (* record_min_max_ without a config *)
}.

Definition long_ops (s : Z) : ops :=
  mkOps (long_lt s) xadd kHistMinInitLong kHistMaxInitLong
        (map (to_scale s) kHistDefaultBoundsLong) kHistRecordMinMaxDefaultLong.
Definition dbl_ops (s : Z) : ops :=
  mkOps (fun b v => b <? v) (fadd s) (to_scale s kHistMinInitDouble) (to_scale s kHistMaxInitDouble)
        (map (to_scale s) kHistDefaultBoundsDouble) kHistRecordMinMaxDefaultDouble.
(* reference for the proofs: the double instrument with exact sums *)
Definition dblx_ops (s : Z) : ops :=
  mkOps (fun b v => b <? v) xadd (to_scale s kHistMinInitDouble) (to_scale s kHistMaxInitDouble)
        (map (to_scale s) kHistDefaultBoundsDouble) kHistRecordMinMaxDefaultDouble.

(* ------------------------------------------------------------------ HistogramPointData + the aggregation's own flag *)
Record hist := mkH {
  h_bounds : list Z;      (* boundaries_ (units) *)
  h_counts : list Z;      (* counts_ *)
  h_count : Z;            (* count_ *)
  h_sum : fsum;           (* sum_ *)
  h_min : Z;              (* min_ *)
  h_max : Z;              (* max_ *)
  h_rmm : bool;           (* point_data_.record_min_max_ *)
  h_rmm_mem : bool        (* the aggregation's record_min_max_ member (what Aggregate tests) *)
}.

(* HistogramAggregationConfig, or none *)
Record cfg := mkC { c_bounds : list Z; c_rmm : bool }.
Definition eff_cfg (o : ops) (c : option cfg) : cfg :=
  match c with Some x => x | None => mkC (o_defb o) (o_defrmm o) end.

(* the constructor taking a config pointer *)
Definition new_hist (o : ops) (c : cfg) : hist :=
  mkH (c_bounds c) (repeat 0 (S (length (c_bounds c)))) 0 (SFin 0) (o_min0 o) (o_max0 o) (c_rmm c) (c_rmm c).

(* std::lower_bound as libstdc++ runs it: [first, first+len) halves until empty; [below b] is the
   comparison "boundary b < value" *)
Fixpoint lower_bound (fuel : nat) (bs : list Z) (first len : nat) (below : Z -> bool) : nat :=
  match fuel with
  | O => first
  | S f =>
      if Nat.eqb len 0 then first
      else
        let half := Nat.div2 len in
        let mid := (first + half)%nat in
        if below (nth mid bs 0) then lower_bound f bs (S mid) (len - half - 1) below
        else lower_bound f bs first half below
  end.
(* BucketBinarySearch *)
Definition bucketp (bs : list Z) (below : Z -> bool) : nat := lower_bound (S (length bs)) bs 0 (length bs) below.
(* ... with the plain comparison against a key in units *)
Definition bucket (bs : list Z) (k : Z) : nat := bucketp bs (fun b => b <? k).

(* counts_ and count_ are uint64_t *)
Definition U64 : Z := 2 ^ 64.
Definition wadd (a b : Z) : Z := (a + b) mod U64.

Fixpoint incr (i : nat) (l : list Z) : list Z :=
  match l, i with
  | [], _ => []
  | x :: t, O => wadd x 1 :: t
  | x :: t, S j => x :: incr j t
  end.

(* Aggregate(value) *)
Definition aggregate (o : ops) (h : hist) (v : Z) : hist :=
  mkH (h_bounds h)
      (incr (bucketp (h_bounds h) (fun b => o_lt o b v)) (h_counts h))
      (wadd (h_count h) 1)
      (o_add o (h_sum h) (SFin v))
      (if h_rmm_mem h then Z.min (h_min h) v else h_min h)
      (if h_rmm_mem h then Z.max (h_max h) v else h_max h)
      (h_rmm h) (h_rmm_mem h).

Definition agg (o : ops) (c : cfg) (xs : list Z) : hist := fold_left (aggregate o) xs (new_hist o c).

Fixpoint zip_with (f : Z -> Z -> Z) (a b : list Z) : list Z :=
  match a, b with
  | x :: a', y :: b' => f x y :: zip_with f a' b'
  | _, _ => []
  end.

(* cur.Merge(delta): a fresh aggregation (boundaries of cur, member flag of cur) filled by HistogramMerge *)
Definition merge (o : ops) (cur delta : hist) : hist :=
  let r := h_rmm cur && h_rmm delta in
  mkH (h_bounds cur)
      (zip_with wadd (h_counts cur) (h_counts delta))
      (wadd (h_count cur) (h_count delta))
      (o_add o (h_sum cur) (h_sum delta))
      (if r then Z.min (h_min cur) (h_min delta) else o_min0 o)
      (if r then Z.max (h_max cur) (h_max delta) else o_max0 o)
      r (h_rmm_mem cur).

(* cur.Diff(next): HistogramDiff subtracts counts_ and count_ (uint64 arithmetic) and sum_; min_, max_
   keep the constructor's values, min/max are switched off *)
Definition diff (o : ops) (cur next : hist) : hist :=
  mkH (h_bounds cur)
      (zip_with (fun c n => (n - c) mod U64) (h_counts cur) (h_counts next))
      ((h_count next - h_count cur) mod U64)
      (o_add o (h_sum next) (fneg (h_sum cur))) (o_min0 o) (o_max0 o) false (h_rmm_mem cur).

(* ------------------------------------------------------------------ a register machine over aggregations *)
Definition NREG : nat := 8.
Inductive aop :=
| ONew (r : nat)               (* r := new aggregation *)
| OAgg (r : nat) (v : Z)       (* r.Aggregate(v) *)
| OAggX (r : nat)              (* r.Aggregate(value of the other arithmetic type): empty override *)
| OMerge (r a b : nat)         (* r := a.Merge(b) *)
| ODiff (r a b : nat)          (* r := a.Diff(b) *)
| OPrint (r : nat).            (* observe r.ToPoint() *)

Fixpoint set_nth {A} (i : nat) (x : A) (l : list A) : list A :=
  match l, i with
  | [], _ => []
  | _ :: t, O => x :: t
  | y :: t, S j => y :: set_nth j x t
  end.

Definition step_aop (o : ops) (c : cfg) (rs : list hist) (op : aop) : list hist * list hist :=
  let get r := nth r rs (new_hist o c) in
  match op with
  | ONew r => (set_nth r (new_hist o c) rs, [])
  | OAgg r v => (set_nth r (aggregate o (get r) v) rs, [])
  | OAggX r => (rs, [])
  | OMerge r a b => (set_nth r (merge o (get a) (get b)) rs, [])
  | ODiff r a b => (set_nth r (diff o (get a) (get b)) rs, [])
  | OPrint r => (rs, [get r])
  end.

Fixpoint run_aops (o : ops) (c : cfg) (rs : list hist) (l : list aop) : list hist :=
  match l with
  | [] => []
  | op :: l' => let '(rs', out) := step_aop o c rs op in out ++ run_aops o c rs' l'
  end.

Definition init_regs (o : ops) (c : cfg) : list hist := repeat (new_hist o c) NREG.

(* ------------------------------------------------------------------ one series behind readers *)
(* glue of the instruments: DoubleHistogram::Record drops value < 0; LongHistogram::Record(uint64_t)
   hands the value to RecordLong(int64_t) (two's complement) *)
Definition accept_double (v : Z) : option Z := if v <? 0 then None else Some v.
Definition accept_long (u : Z) : option Z := Some (if 2 ^ 63 <=? u then u - 2 ^ 64 else u).

Inductive temp := TDelta | TCumul.
Definition is_delta (t : temp) : bool := match t with TDelta => true | TCumul => false end.

(* per reader: the stash of unreported interval aggregations, whether the stash entry exists,
   and what was reported last *)
Record rstate := mkR { r_unrep : list hist; r_entry : bool; r_last : option hist }.
Record sstate := mkS { s_cur : option hist; s_rd : list rstate }.
Definition rstate0 : rstate := mkR [] false None.
Definition sstate0 (n : nat) : sstate := mkS None (repeat rstate0 n).

Inductive sop := SRec (v : Z) | SCollect (r : nat).

Definition record (o : ops) (c : cfg) (st : sstate) (v : Z) : sstate :=
  mkS (Some (aggregate o (match s_cur st with Some h => h | None => new_hist o c end) v)) (s_rd st).

(* merged_metrics->Set(attrs, GetOrSetDefault(attrs, default)->Merge(aggregation)) *)
Definition merge_opt (o : ops) (c : cfg) (m : option hist) (h : hist) : option hist :=
  Some (merge o (match m with Some x => x | None => new_hist o c end) h).

Definition collect (o : ops) (c : cfg) (temps : list temp) (st : sstate) (r : nat) : sstate * option hist :=
  let d := s_cur st in
  let t := nth r temps TDelta in
  if Nat.eqb (length temps) 1 && is_delta t then (mkS None (s_rd st), d)
  else
    let rd1 := match d with
               | Some h => map (fun x => mkR (r_unrep x ++ [h]) true (r_last x)) (s_rd st)
               | None => s_rd st
               end in
    let me := nth r rd1 rstate0 in
    if negb (r_entry me) then (mkS None rd1, None)
    else
      let merged := fold_left (merge_opt o c) (r_unrep me) None in
      let result := if is_delta t then merged
                    else match r_last me with Some l => merge_opt o c merged l | None => merged end in
      (mkS None (set_nth r (mkR [] true result) rd1), result).

Fixpoint run_sops (o : ops) (c : cfg) (temps : list temp) (st : sstate) (l : list sop) : list (option hist) :=
  match l with
  | [] => []
  | SRec v :: l' => run_sops o c temps (record o c st v) l'
  | SCollect r :: l' => let '(st', out) := collect o c temps st r in out :: run_sops o c temps st' l'
  end.
