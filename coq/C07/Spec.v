(* C07 - the property, independent of how the code computes a point: a point is checked against the
   plain list of values it has to summarise.  Executable checkers (run on the implementation's
   observations by Glue.run_spec) and the Props they reflect.  No proofs. *)
From V Require Export C07.Model.
Local Open Scope Z_scope.

Inductive kind := KLong | KDbl.
Definition ops_of (k : kind) (s : Z) : ops := match k with KLong => long_ops s | KDbl => dbl_ops s end.

(* the exact real-number comparison key of a recorded value, in units of 2^-s:
   an int64 value v is v * 2^s units (NOT its rounding to double) *)
Definition true_key (k : kind) (s : Z) (v : Z) : Z := match k with KLong => Z.shiftl v s | KDbl => v end.

(* what is observed of an aggregation: HistogramPointData *)
Record dpoint := mkP {
  p_bounds : list Z; p_counts : list Z; p_count : Z; p_sum : fsum; p_rmm : bool; p_min : Z; p_max : Z }.
Definition point_of (h : hist) : dpoint :=
  mkP (h_bounds h) (h_counts h) (h_count h) (h_sum h) (h_rmm h) (h_min h) (h_max h).

(* ------------------------------------------------------------------ sentence 1: buckets *)
(* bucket i holds the values with boundary[i-1] < v <= boundary[i]; bucket 0 has no lower limit,
   the last bucket (i = length bs) no upper limit *)
Definition in_bucket (bs : list Z) (i : nat) (x : Z) : bool :=
  (match i with O => true | S j => nth j bs 0 <? x end) &&
  (if Nat.ltb i (length bs) then x <=? nth i bs 0 else true).
Definition In_bucket (bs : list Z) (i : nat) (x : Z) : Prop :=
  (forall j, i = S j -> nth j bs 0 < x) /\ ((i < length bs)%nat -> x <= nth i bs 0).

Definition bucket_count (k : kind) (s : Z) (bs : list Z) (i : nat) (xs : list Z) : Z :=
  Z.of_nat (length (filter (fun v => in_bucket bs i (true_key k s v)) xs)).
Definition ideal_counts (k : kind) (s : Z) (bs : list Z) (xs : list Z) : list Z :=
  map (fun i => bucket_count k s bs i xs) (seq 0 (S (length bs))).

Fixpoint sortedb (l : list Z) : bool :=
  match l with
  | a :: ((b :: _) as t) => (a <=? b) && sortedb t
  | _ => true
  end.
Definition sorted (l : list Z) : Prop := forall i j, (i <= j < length l)%nat -> nth i l 0 <= nth j l 0.

(* ------------------------------------------------------------------ sentences 2-4 *)
Definition zsum (l : list Z) : Z := fold_left Z.add l 0.
Definition list_min (x : Z) (l : list Z) : Z := fold_left Z.min l x.
Definition list_max (x : Z) (l : list Z) : Z := fold_left Z.max l x.

(* When is the double sum of a multiset determined regardless of the order of additions?  When all
   values are multiples of one power of two 2^q and the absolute values add up to less than 2^(q+53)
   (and nothing can overflow): then every sub-sum is exactly representable. *)
Definition min_val2 (xs : list Z) : option Z :=
  fold_left (fun (a : option Z) (v : Z) =>
               match v with
               | Z0 => a
               | Zpos p | Zneg p => match a with None => Some (val2 p) | Some q => Some (Z.min q (val2 p)) end
               end) xs None.
Definition abs_sum (xs : list Z) : Z := fold_left (fun a v => a + Z.abs v) xs 0.
Definition exact_ms (s : Z) (xs : list Z) : bool :=
  match min_val2 xs with
  | None => true
  | Some q => (abs_sum xs <? 2 ^ (q + 53)) && (q + 53 <=? 1024 + s)
  end.
Definition sum_checkable (k : kind) (s : Z) (xs : list Z) : bool :=
  match k with KLong => true | KDbl => exact_ms s xs end.

Fixpoint list_eqb (a b : list Z) : bool :=
  match a, b with
  | [], [] => true
  | x :: a', y :: b' => (x =? y) && list_eqb a' b'
  | _, _ => false
  end.
Definition fsum_eqb (a b : fsum) : bool :=
  match a, b with
  | SFin x, SFin y => x =? y
  | SPInf, SPInf | SNInf, SNInf | SNaN, SNaN => true
  | _, _ => false
  end.

(* context of a check: how the multiset came about; it becomes the feature part of the clause tag *)
Record ctx := mkX {
  x_name : string;        (* agg | merge | diff | delta | cumulative *)
  x_minmax : bool;        (* min/max are expected to be recorded *)
  x_basis : list Z        (* every value whose sum took part in computing the point's sum (more than the summarised
                             values after a Diff): decides whether a double sum is checked *)
}.

Definition big_long (k : kind) (xs : list Z) : bool :=
  match k with KLong => existsb (fun v => 2 ^ 53 <? Z.abs v) xs | KDbl => false end.

(* the point p must be the exact summary of the values xs under boundaries bs *)
Definition check_point (k : kind) (s : Z) (bs : list Z) (x : ctx) (xs : list Z) (p : dpoint) : list tok :=
  check (list_eqb (p_bounds p) bs && Nat.eqb (length (p_counts p)) (S (length bs))) (append "shape:" (x_name x)) ++
  check (list_eqb (p_counts p) (ideal_counts k s bs xs)) (append "bucket_spec:" (x_name x)) ++
  check ((zsum (p_counts p) =? p_count p) && (p_count p =? Z.of_nat (length xs))) (append "counts_sum_to_count:" (x_name x)) ++
  (if sum_checkable k s (x_basis x)
   then check (fsum_eqb (p_sum p) (SFin (zsum xs))) (append "sum_is_sum:" (x_name x))
   else []) ++
  (if x_minmax x then check (p_rmm p) (append "min_max_spec:not_recorded_" (x_name x))
   else check (negb (p_rmm p)) (append "min_max_spec:recorded_after_" (x_name x))) ++
  (match xs with
   | v :: t =>
       if p_rmm p
       then check (p_min p =? list_min v t) (append "min_max_spec:min_" (x_name x)) ++
            check (p_max p =? list_max v t) (append "min_max_spec:max_" (x_name x))
       else []
   | [] => []
   end).

(* the same statement as a Prop (what check_point = [] means, for the unconditional part) *)
Definition summarises (k : kind) (s : Z) (bs : list Z) (xs : list Z) (p : dpoint) : Prop :=
  p_bounds p = bs /\
  p_counts p = ideal_counts k s bs xs /\
  zsum (p_counts p) = p_count p /\ p_count p = Z.of_nat (length xs) /\
  (sum_checkable k s xs = true -> p_sum p = SFin (zsum xs)) /\
  (p_rmm p = true -> forall v t, xs = v :: t -> p_min p = list_min v t /\ p_max p = list_max v t).

(* the configuration a point is checked against: the view's, or - without one - the defaults the OpenTelemetry
   specification fixes for explicit-bucket histograms (boundaries in units of 2^-s; min/max recorded) *)
Definition otel_default_bounds : list Z := [0; 5; 10; 25; 50; 75; 100; 250; 500; 750; 1000; 2500; 5000; 7500; 10000].
Definition spec_cfg (s : Z) (c : option cfg) : cfg :=
  match c with Some x => x | None => mkC (map (fun b => Z.shiftl b s) otel_default_bounds) true end.

(* ------------------------------------------------------------------ which values a register summarises *)
Record sym := mkSym {
  y_vals : list Z;       (* the multiset, in order of arrival *)
  y_name : string;       (* agg / merge / diff *)
  y_rmm : bool;          (* min/max still meaningful (no Diff on the way) *)
  y_basis : list Z;      (* all values whose sums went into this register's sum *)
  y_bad : bool           (* Diff applied to something that is not a sub-multiset: nothing is claimed *)
}.
Definition sym0 (rmm : bool) : sym := mkSym [] "agg" rmm [] false.

Fixpoint remove1 (v : Z) (l : list Z) : option (list Z) :=
  match l with
  | [] => None
  | x :: t => if x =? v then Some t else option_map (cons x) (remove1 v t)
  end.
(* multiset difference big - small, None when small is not contained in big *)
Fixpoint msub (big small : list Z) : option (list Z) :=
  match small with
  | [] => Some big
  | v :: s' => match remove1 v big with Some b' => msub b' s' | None => None end
  end.

Definition is_diff_name (n : string) : bool := String.eqb n "diff".

Definition step_sym (rmm : bool) (ys : list sym) (op : aop) : list sym * list sym :=
  let get r := nth r ys (sym0 rmm) in
  match op with
  | ONew r => (set_nth r (sym0 rmm) ys, [])
  | OAgg r v => let y := get r in
                (set_nth r (mkSym (y_vals y ++ [v]) (y_name y) (y_rmm y) (y_basis y ++ [v]) (y_bad y)) ys, [])
  | OAggX r => (ys, [])
  | OMerge r a b =>
      let ya := get a in let yb := get b in
      (set_nth r (mkSym (y_vals ya ++ y_vals yb)
                        (if is_diff_name (y_name ya) || is_diff_name (y_name yb) then "diff" else "merge")
                        (y_rmm ya && y_rmm yb) (y_basis ya ++ y_basis yb) (y_bad ya || y_bad yb)) ys, [])
  | ODiff r a b =>
      let ya := get a in let yb := get b in
      (set_nth r (match msub (y_vals yb) (y_vals ya) with
                  | Some d => mkSym d "diff" false (y_basis ya ++ y_basis yb) (y_bad ya || y_bad yb)
                  | None => mkSym [] "diff" false [] true
                  end) ys, [])
  | OPrint r => (ys, [get r])
  end.
Fixpoint run_sym (rmm : bool) (ys : list sym) (l : list aop) : list sym :=
  match l with
  | [] => []
  | op :: l' => let '(ys', out) := step_sym rmm ys op in out ++ run_sym rmm ys' l'
  end.

Definition check_sym (k : kind) (s : Z) (bs : list Z) (y : sym) (p : dpoint) : list tok :=
  if y_bad y then []
  else check_point k s bs (mkX (y_name y) (y_rmm y) (y_basis y)) (y_vals y) p.

Fixpoint check_all {A B} (f : A -> B -> list tok) (a : list A) (b : list B) : list tok :=
  match a, b with
  | [], [] => []
  | x :: a', y :: b' => f x y ++ check_all f a' b'
  | _, _ => fail "shape:number_of_points"
  end.

Definition spec_agg (k : kind) (s : Z) (c : cfg) (l : list aop) (obs : list dpoint) : list tok :=
  check_all (check_sym k s (c_bounds c)) (run_sym (c_rmm c) (repeat (sym0 (c_rmm c)) NREG) l) obs.

(* ------------------------------------------------------------------ which values a reader's point summarises *)
(* per reader: the accepted values since its previous collection; plus all accepted values so far *)
Fixpoint expect_sops (temps : list temp) (pend : list (list Z)) (total : list Z) (l : list sop)
  : list (string * list Z) :=
  match l with
  | [] => []
  | SRec v :: l' => expect_sops temps (map (fun p => p ++ [v]) pend) (total ++ [v]) l'
  | SCollect r :: l' =>
      (if is_delta (nth r temps TDelta) then ("delta"%string, nth r pend []) else ("cumulative"%string, total))
        :: expect_sops temps (set_nth r [] pend) total l'
  end.

Definition check_collect (k : kind) (s : Z) (c : cfg) (e : string * list Z) (o : option dpoint) : list tok :=
  let '(name, xs) := e in
  match o, xs with
  | None, [] => []
  | None, _ :: _ => fail (append "lossless:missing_point_" name)
  | Some p, _ => check_point k s (c_bounds c) (mkX name (c_rmm c) xs) xs p
  end.

Definition spec_series (k : kind) (s : Z) (c : cfg) (temps : list temp) (l : list sop) (obs : list (option dpoint)) : list tok :=
  check_all (check_collect k s c) (expect_sops temps (repeat [] (length temps)) [] l) obs.
