(* C07 proofs, part 3: numbers.  When the rounding step of a double addition is the identity; the
   order-independent exactness criterion of the SPEC is sound; int64 -> double is exact up to 2^53 and
   not beyond (F8b); finite doubles lie between the min/max sentinels. *)
From V Require Import C07.Spec C07.ProofsBucket C07.ProofsAgg.
From V Require Import Gen.Consts.
From Coq Require Import Lia ZifyBool ZifyNat Arith.
Local Open Scope Z_scope.

Definition repr (s z : Z) : Prop := rnd s z = SFin z.

Lemma repr_small : forall s z, bitlen z <= 53 -> repr s z.
Proof.
  intros s z H. unfold repr, rnd.
  destruct (bitlen z <=? 53) eqn:E; [reflexivity|]. apply Z.leb_gt in E. lia.
Qed.

Lemma pow2_pos : forall e, 0 <= e -> 0 < 2 ^ e.
Proof. intros e He. apply Z.pow_pos_nonneg; lia. Qed.

Lemma pow2_divide : forall a b, 0 <= a <= b -> (2 ^ a | 2 ^ b).
Proof.
  intros a b H. exists (2 ^ (b - a)). rewrite <- Z.pow_add_r by lia. f_equal. lia.
Qed.

(* a multiple of 2^q below 2^(q+53) has at most 53 significant bits: rounding leaves it alone *)
Lemma repr_abs : forall s q a, 0 <= q -> q + 53 <= 1024 + s -> 0 <= a -> (2 ^ q | a) -> a < 2 ^ (q + 53) ->
  forall neg : bool,
  (let n := bitlen a in
   if n <=? 53 then SFin (if neg then - a else a)
   else
     let sh := n - 53 in
     let q0 := Z.shiftr a sh in
     let r := a - Z.shiftl q0 sh in
     let half := Z.shiftl 1 (sh - 1) in
     let q' := if (half <? r) || ((half =? r) && Z.odd q0) then q0 + 1 else q0 in
     let res := Z.shiftl q' sh in
     if OVF s <=? res then (if neg then SNInf else SPInf)
     else SFin (if neg then - res else res)) = SFin (if neg then - a else a).
Proof.
  intros s q a Hq Hs Ha Hdiv Hlt neg. cbn zeta.
  destruct (bitlen a <=? 53) eqn:E; [reflexivity|].
  apply Z.leb_gt in E. unfold bitlen in E |- *.
  destruct (a =? 0) eqn:E0; [lia|]. apply Z.eqb_neq in E0.
  rewrite Z.abs_eq in * by lia.
  assert (Hapos : 0 < a) by lia.
  assert (Hlog : Z.log2 a < q + 53) by (apply Z.log2_lt_pow2; lia).
  set (sh := Z.log2 a + 1 - 53) in *.
  assert (Hsh : 1 <= sh <= q) by (unfold sh; lia).
  assert (Hd2 : (2 ^ sh | a)).
  { eapply Z.divide_trans; [apply (pow2_divide sh q); lia|exact Hdiv]. }
  destruct Hd2 as [m Hm].
  assert (Hp : 0 < 2 ^ sh) by (apply pow2_pos; lia).
  rewrite Z.shiftr_div_pow2 by lia.
  assert (Hq0 : a / 2 ^ sh = m) by (rewrite Hm; apply Z.div_mul; lia).
  rewrite Hq0. rewrite !Z.shiftl_mul_pow2 by lia.
  replace (a - m * 2 ^ sh) with 0 by lia.
  assert (Hhalf : 0 < 1 * 2 ^ (sh - 1)) by (pose proof (pow2_pos (sh - 1)); lia).
  assert (E1 : (1 * 2 ^ (sh - 1) <? 0) = false) by (apply Z.ltb_ge; lia).
  assert (E2 : (1 * 2 ^ (sh - 1) =? 0) = false) by (apply Z.eqb_neq; lia).
  rewrite E1, E2. cbn [orb andb].
  rewrite <- Hm.
  assert (Hovf : (OVF s <=? a) = false).
  { apply Z.leb_gt. unfold OVF.
    assert (2 ^ (q + 53) <= 2 ^ (1024 + s)) by (apply Z.pow_le_mono_r; lia). lia. }
  rewrite Hovf. reflexivity.
Qed.

Lemma bitlen_abs : forall z, bitlen (Z.abs z) = bitlen z.
Proof. intros z. unfold bitlen. rewrite Z.abs_involutive. destruct z; reflexivity. Qed.

Lemma repr_div : forall s q z, 0 <= q -> q + 53 <= 1024 + s -> (2 ^ q | z) -> Z.abs z < 2 ^ (q + 53) -> repr s z.
Proof.
  intros s q z Hq Hs Hdiv Hlt. unfold repr, rnd. cbn zeta.
  pose proof (repr_abs s q (Z.abs z) Hq Hs (Z.abs_nonneg z)) as H.
  assert (Hd : (2 ^ q | Z.abs z)) by (apply Z.divide_abs_r; exact Hdiv).
  specialize (H Hd Hlt (z <? 0)). cbn zeta in H. rewrite bitlen_abs in H.
  destruct (bitlen z <=? 53) eqn:E; [reflexivity|].
  destruct (z <? 0) eqn:En.
  - apply Z.ltb_lt in En. rewrite H. f_equal. lia.
  - apply Z.ltb_ge in En. rewrite H. f_equal. lia.
Qed.

(* ------------------------------------------------------------------ the SPEC's exactness criterion is sound *)
Definition exact_q (s q : Z) (xs : list Z) : Prop :=
  0 <= q /\ q + 53 <= 1024 + s /\ Forall (fun v => (2 ^ q | v)) xs /\ abs_sum xs < 2 ^ (q + 53).

Lemma abs_sum_acc : forall xs a, fold_left (fun a v => a + Z.abs v) xs a = a + abs_sum xs.
Proof.
  induction xs as [|x xs IH]; intros a; unfold abs_sum; cbn [fold_left].
  - lia.
  - rewrite IH. rewrite (IH (0 + Z.abs x)). unfold abs_sum. lia.
Qed.
Lemma abs_sum_cons : forall x xs, abs_sum (x :: xs) = Z.abs x + abs_sum xs.
Proof. intros. unfold abs_sum at 1. cbn [fold_left]. rewrite abs_sum_acc. lia. Qed.
Lemma abs_sum_nonneg : forall xs, 0 <= abs_sum xs.
Proof. induction xs as [|x xs IH]; [unfold abs_sum; cbn; lia|]. rewrite abs_sum_cons. lia. Qed.
Lemma abs_sum_app : forall xs ys, abs_sum (xs ++ ys) = abs_sum xs + abs_sum ys.
Proof.
  induction xs as [|x xs IH]; intros ys; cbn [app].
  - unfold abs_sum at 2. cbn [fold_left]. lia.
  - rewrite !abs_sum_cons, IH. lia.
Qed.
Lemma zsum_abs_le : forall xs, Z.abs (zsum xs) <= abs_sum xs.
Proof.
  induction xs as [|x xs IH].
  - rewrite zsum_nil. unfold abs_sum. cbn. lia.
  - rewrite zsum_cons, abs_sum_cons. lia.
Qed.
Lemma zsum_divide : forall d xs, Forall (fun v => (d | v)) xs -> (d | zsum xs).
Proof.
  intros d xs H. induction H as [|x xs Hx _ IH].
  - rewrite zsum_nil. apply Z.divide_0_r.
  - rewrite zsum_cons. apply Z.divide_add_r; assumption.
Qed.

Lemma exact_q_app : forall s q xs ys, exact_q s q (xs ++ ys) -> exact_q s q xs /\ exact_q s q ys.
Proof.
  intros s q xs ys (Hq & Hs & Hall & Hsum).
  apply Forall_app in Hall. destruct Hall as [Hx Hy].
  rewrite abs_sum_app in Hsum.
  pose proof (abs_sum_nonneg xs). pose proof (abs_sum_nonneg ys).
  split; (split; [exact Hq|split; [exact Hs|split; [assumption|lia]]]).
Qed.

Lemma exact_q_repr : forall s q xs, exact_q s q xs -> repr s (zsum xs).
Proof.
  intros s q xs (Hq & Hs & Hall & Hsum).
  apply (repr_div s q); try assumption.
  - apply zsum_divide. exact Hall.
  - pose proof (zsum_abs_le xs). lia.
Qed.

Lemma val2_nonneg : forall p, 0 <= val2 p.
Proof. induction p; cbn [val2]; lia. Qed.
Lemma val2_divide : forall p, (2 ^ val2 p | Zpos p).
Proof.
  induction p as [p IH|p IH|]; cbn [val2].
  - apply Z.divide_1_l.
  - pose proof (val2_nonneg p). rewrite Z.pow_add_r by lia.
    change (Z.pos p~0) with (2 * Z.pos p). change (2 ^ 1) with 2.
    apply Z.mul_divide_mono_l. exact IH.
  - apply Z.divide_1_l.
Qed.

Definition mv_step (a : option Z) (v : Z) : option Z :=
  match v with
  | Z0 => a
  | Zpos p | Zneg p => match a with None => Some (val2 p) | Some q => Some (Z.min q (val2 p)) end
  end.

Lemma divide_le_val2 : forall q p, 0 <= q <= val2 p -> (2 ^ q | Zpos p).
Proof. intros q p H. eapply Z.divide_trans; [apply (pow2_divide q (val2 p)); lia|apply val2_divide]. Qed.

Lemma mv_fold : forall xs acc,
  (match acc with Some a => 0 <= a | None => True end) ->
  match fold_left mv_step xs acc with
  | Some q => 0 <= q /\ (match acc with Some a => q <= a | None => True end) /\ Forall (fun v => (2 ^ q | v)) xs
  | None => acc = None /\ Forall (fun v => v = 0) xs
  end.
Proof.
  induction xs as [|x xs IH]; intros acc Hacc; cbn [fold_left].
  - destruct acc as [a|]; [split; [exact Hacc|split; [lia|constructor]]|split; [reflexivity|constructor]].
  - assert (Hstep : match mv_step acc x with Some a => 0 <= a | None => True end).
    { destruct x as [|p|p]; cbn [mv_step]; [exact Hacc| |]; destruct acc as [a|]; pose proof (val2_nonneg p); lia. }
    specialize (IH (mv_step acc x) Hstep).
    destruct (fold_left mv_step xs (mv_step acc x)) as [q|].
    + destruct IH as (Hq & Hle & Hall).
      assert (Hx : (2 ^ q | x) /\ match acc with Some a => q <= a | None => True end).
      { destruct x as [|p|p]; cbn [mv_step] in Hle.
        - split; [apply Z.divide_0_r|exact Hle].
        - destruct acc as [a|]; (split; [apply divide_le_val2; lia|try lia; try exact I]).
        - destruct acc as [a|]; (split; [apply Z.divide_opp_r; change (- Z.neg p) with (Z.pos p); apply divide_le_val2; lia|try lia; try exact I]). }
      destruct Hx as [Hx Hacc']. split; [exact Hq|split; [exact Hacc'|constructor; assumption]].
    + destruct IH as (Hn & Hall).
      destruct x as [|p|p]; cbn [mv_step] in Hn.
      * split; [exact Hn|constructor; [reflexivity|exact Hall]].
      * destruct acc; discriminate.
      * destruct acc; discriminate.
Qed.

Lemma abs_sum_zero : forall xs, Forall (fun v => v = 0) xs -> abs_sum xs = 0.
Proof.
  intros xs H. induction H as [|x xs Hx _ IH].
  - reflexivity.
  - rewrite abs_sum_cons, IH, Hx. reflexivity.
Qed.

Theorem exact_ms_sound : forall s xs, 0 <= s -> exact_ms s xs = true -> exists q, exact_q s q xs.
Proof.
  intros s xs Hs H. unfold exact_ms, min_val2 in H.
  pose proof (mv_fold xs None I) as Hm. fold mv_step in H.
  change (fun (a : option Z) (v : Z) =>
            match v with
            | 0 => a
            | Z.pos p | Z.neg p => match a with Some q => Some (Z.min q (val2 p)) | None => Some (val2 p) end
            end) with mv_step in H.
  destruct (fold_left mv_step xs None) as [q|].
  - destruct Hm as (Hq & _ & Hall).
    apply andb_true_iff in H. destruct H as [H1 H2].
    apply Z.ltb_lt in H1. apply Z.leb_le in H2.
    exists q. repeat split; assumption.
  - destruct Hm as (_ & Hall). exists 0. repeat split; try lia.
    + eapply Forall_impl; [|exact Hall]. intros v ->. apply Z.divide_0_r.
    + rewrite abs_sum_zero by exact Hall. reflexivity.
Qed.

(* ------------------------------------------------------------------ the double instrument on exact runs *)
Lemma sum_fold_dbl_exact : forall s q xs, exact_q s q xs -> sum_fold (dbl_ops s) xs = SFin (zsum xs).
Proof.
  intros s q xs. induction xs as [|v xs IH] using rev_ind; intros Hex.
  - reflexivity.
  - destruct (exact_q_app _ _ _ _ Hex) as [Hxs _].
    unfold sum_fold in *. rewrite fold_left_app. cbn [fold_left]. rewrite (IH Hxs).
    cbn [dbl_ops o_add fadd].
    pose proof (exact_q_repr _ _ _ Hex) as Hr. rewrite zsum_app, zsum_cons, zsum_nil in Hr.
    unfold repr in Hr. rewrite zsum_app, zsum_cons, zsum_nil.
    replace (zsum xs + v) with (zsum xs + (v + 0)) by lia. exact Hr.
Qed.

Theorem sum_is_sum_dbl_lemma : forall s c xs, 0 <= s -> exact_ms s xs = true ->
  h_sum (agg (dbl_ops s) c xs) = SFin (zsum xs).
Proof.
  intros s c xs Hs H. destruct (exact_ms_sound s xs Hs H) as [q Hq].
  rewrite agg_closed. cbn [closed h_sum]. apply (sum_fold_dbl_exact s q). exact Hq.
Qed.

Theorem merge_homomorphism_dbl_lemma : forall s c xs ys, 0 <= s -> exact_ms s (xs ++ ys) = true ->
  merge (dbl_ops s) (agg (dbl_ops s) c xs) (agg (dbl_ops s) c ys) = agg (dbl_ops s) c (xs ++ ys).
Proof.
  intros s c xs ys Hs H. destruct (exact_ms_sound s _ Hs H) as [q Hq].
  destruct (exact_q_app _ _ _ _ Hq) as [Hx Hy].
  rewrite !agg_closed, merge_closed_gen.
  rewrite (sum_fold_dbl_exact s q xs Hx), (sum_fold_dbl_exact s q ys Hy).
  cbn [dbl_ops o_add fadd].
  pose proof (exact_q_repr _ _ _ Hq) as Hr. rewrite zsum_app in Hr. unfold repr in Hr. rewrite Hr.
  unfold set_sum, closed. cbn [h_bounds h_counts h_count h_sum h_min h_max h_rmm h_rmm_mem].
  rewrite (sum_fold_dbl_exact s q (xs ++ ys) Hq), zsum_app. reflexivity.
Qed.

(* non-vacuity: values k/1024 (here in units of 2^-10), and a run that does round *)
Example exact_ms_example : exact_ms 10 [1; 1024; 5120; 3; 1073741823] = true /\ exact_ms 0 [2 ^ 53; 1] = false.
Proof. split; vm_compute; reflexivity. Qed.
Example rounding_example : rnd 0 (2 ^ 53 + 1) = SFin (2 ^ 53) /\ rnd 0 (2 ^ 53 + 3) = SFin (2 ^ 53 + 4) /\
                           rnd 0 (2 ^ 1024 - 2 ^ 970) = SPInf /\ rnd 0 (2 ^ 1024 - 2 ^ 970 - 1) = SFin (2 ^ 1024 - 2 ^ 971).
Proof. repeat split; vm_compute; reflexivity. Qed.

(* ------------------------------------------------------------------ int64 value against double boundary *)
(* the comparison of the int64 overload (floor of the boundary, two range guards) is the exact comparison of the
   boundary with the value, for every int64 - also beyond 2^53 (F8b, repaired by 48bf9cc) *)
Theorem long_lt_exact : forall s b v, 0 <= s -> - 2 ^ 63 <= v < 2 ^ 63 ->
  long_lt s b v = (b <? Z.shiftl v s).
Proof.
  intros s b v Hs Hv. unfold long_lt.
  rewrite !Z.shiftl_mul_pow2, Z.shiftr_div_pow2 by exact Hs.
  assert (Hp : 0 < 2 ^ s) by (apply pow2_pos; exact Hs).
  set (P := 2 ^ s) in *. clearbody P.
  change (2 ^ 63) with 9223372036854775808 in *.
  destruct (9223372036854775808 * P <=? b) eqn:E1.
  - apply Z.leb_le in E1. symmetry. apply Z.ltb_ge. nia.
  - apply Z.leb_gt in E1.
    destruct (b <? - (9223372036854775808 * P)) eqn:E2.
    + apply Z.ltb_lt in E2. symmetry. apply Z.ltb_lt. nia.
    + apply Z.ltb_ge in E2.
      pose proof (Z.div_mod b P ltac:(lia)) as Hdm.
      pose proof (Z.mod_pos_bound b P Hp) as Hr.
      set (q := b / P) in *. set (r := b mod P) in *. clearbody q r.
      destruct (Z.ltb_spec q v); destruct (Z.ltb_spec b (v * P)); try reflexivity; nia.
Qed.

(* non-vacuity, with the former counterexample: 2^53 + 1 is above the boundary 2^53, INT64_MIN + 1 above -2^63 *)
Example long_lt_examples :
  long_lt 0 (2 ^ 53) (2 ^ 53 + 1) = true /\ long_lt 0 (2 ^ 53) (2 ^ 53) = false /\
  long_lt 0 (- 2 ^ 63) (- 2 ^ 63 + 1) = true /\ long_lt 0 (2 ^ 63) (2 ^ 63 - 1) = false /\
  long_lt 1 1 1 = true /\ long_lt 1 (-1) 0 = true /\ long_lt 1 (-1) (-1) = false /\
  bucket [2 ^ 53] (Z.shiftl (2 ^ 53 + 1) 0) = 1%nat.
Proof. repeat split; vm_compute; reflexivity. Qed.

(* ------------------------------------------------------------------ finite doubles lie between the sentinels *)
Lemma land_2047 : forall x, 0 <= Z.land x 2047 < 2048.
Proof.
  intros x. change 2047 with (Z.ones 11). rewrite Z.land_ones by lia.
  change (2 ^ 11) with 2048. apply Z.mod_pos_bound. lia.
Qed.

Lemma decode_range : forall b m e, decode b = Some (m, e) -> Z.abs m < 2 ^ 53 /\ -1074 <= e <= 971.
Proof.
  intros b m e H. unfold decode in H.
  destruct ((b <? 0) || (2 ^ 64 <=? b)); [discriminate|].
  pose proof (land_2047 (Z.shiftr b 52)) as He.
  assert (Hm : 0 <= Z.land b (Z.ones 52) < 4503599627370496).
  { rewrite Z.land_ones by lia. apply Z.mod_pos_bound. reflexivity. }
  change (2 ^ 52) with 4503599627370496 in H. change (2 ^ 53) with 9007199254740992.
  remember (Z.land b (Z.ones 52)) as mm eqn:Emm. remember (Z.land (Z.shiftr b 52) 2047) as ee eqn:Eee.
  remember (Z.shiftr b 63 =? 1) as sg eqn:Esg. clear Emm Eee Esg.
  destruct (ee =? 2047) eqn:E1; [discriminate|].
  apply Z.eqb_neq in E1.
  destruct (ee =? 0) eqn:E2.
  - injection H as Hm1 He1. subst e. split; [|lia]. destruct sg; subst m; lia.
  - apply Z.eqb_neq in E2. injection H as Hm1 He1. subst e. split; [|lia]. destruct sg; subst m; lia.
Qed.

Definition DMAX (s : Z) : Z := 9007199254740991 * 2 ^ (971 + s).

Lemma to_scale_bound : forall s m e, 0 <= s -> Z.abs m < 2 ^ 53 -> -1074 <= e <= 971 ->
  - DMAX s <= to_scale s (m, e) <= DMAX s.
Proof.
  intros s m e Hs Hm He. unfold to_scale, DMAX. cbn [fst snd].
  assert (Hbig : 1 <= 2 ^ (971 + s)) by (pose proof (pow2_pos (971 + s)); lia).
  destruct (Z_le_gt_dec 0 (e + s)) as [Hk|Hk].
  - rewrite Z.shiftl_mul_pow2 by lia.
    assert (Hp : 0 < 2 ^ (e + s)) by (apply pow2_pos; lia).
    assert (Hle : 2 ^ (e + s) <= 2 ^ (971 + s)) by (apply Z.pow_le_mono_r; lia).
    assert (Hm' : - 9007199254740991 <= m <= 9007199254740991) by (change (2 ^ 53) with 9007199254740992 in Hm; lia).
    nia.
  - replace (e + s) with (- (- (e + s))) by lia. rewrite Z.shiftl_opp_r, Z.shiftr_div_pow2 by lia.
    assert (Hp : 0 < 2 ^ (- (e + s))) by (apply pow2_pos; lia).
    assert (Hm' : - 9007199254740991 <= m <= 9007199254740991) by (change (2 ^ 53) with 9007199254740992 in Hm; lia).
    assert (Hd : - 9007199254740991 <= m / 2 ^ (- (e + s)) <= 9007199254740991).
    { split.
      - apply Z.div_le_lower_bound; [lia|]. nia.
      - apply Z.div_le_upper_bound; [lia|]. nia. }
    nia.
Qed.

(* the sentinels read from the sources are +-DBL_MAX: every decoded double lies between them *)
Theorem double_within_sentinels : forall s b d, 0 <= s -> decode b = Some d ->
  o_max0 (dbl_ops s) <= to_scale s d <= o_min0 (dbl_ops s).
Proof.
  intros s b [m e] Hs Hd. destruct (decode_range b m e Hd) as [Hm He].
  pose proof (to_scale_bound s m e Hs Hm He) as Hb.
  cbn [dbl_ops o_max0 o_min0].
  assert (E1 : to_scale s kHistMinInitDouble = DMAX s).
  { unfold to_scale, DMAX. change (fst kHistMinInitDouble) with 9007199254740991.
    change (snd kHistMinInitDouble) with 971. rewrite Z.shiftl_mul_pow2 by lia. reflexivity. }
  assert (E2 : to_scale s kHistMaxInitDouble = - DMAX s).
  { unfold to_scale, DMAX. change (fst kHistMaxInitDouble) with (-9007199254740991).
    change (snd kHistMaxInitDouble) with 971. rewrite Z.shiftl_mul_pow2 by lia. lia. }
  rewrite E1, E2. exact Hb.
Qed.

Theorem long_within_sentinels : forall s v, - 2 ^ 63 <= v < 2 ^ 63 -> o_max0 (long_ops s) <= v <= o_min0 (long_ops s).
Proof.
  intros s v H. cbn [long_ops o_max0 o_min0].
  change kHistMaxInitLong with (- 2 ^ 63). change kHistMinInitLong with (2 ^ 63 - 1). lia.
Qed.
