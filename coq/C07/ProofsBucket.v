(* C07 proofs, part 1: BucketBinarySearch (std::lower_bound) on a sorted boundary list returns the unique
   bucket i with b[i-1] < v <= b[i]. *)
From V Require Import C07.Spec.
From Coq Require Import Lia ZifyBool ZifyNat Arith.
Local Open Scope Z_scope.

Lemma div2_lt : forall n, (0 < n)%nat -> (Nat.div2 n < n)%nat.
Proof. intros n H. apply Nat.lt_div2. exact H. Qed.

(* what the answer of a lower-bound search must satisfy *)
Definition is_lower_bound (bs : list Z) (k : Z) (i : nat) : Prop :=
  (i <= length bs)%nat /\
  (forall j, (j < i)%nat -> nth j bs 0 < k) /\
  (forall j, (i <= j < length bs)%nat -> k <= nth j bs 0).

Lemma lower_bound_inv :
  forall fuel bs first len k,
    sorted bs ->
    (first + len <= length bs)%nat -> (len < fuel)%nat ->
    (forall j, (j < first)%nat -> nth j bs 0 < k) ->
    (forall j, (first + len <= j < length bs)%nat -> k <= nth j bs 0) ->
    is_lower_bound bs k (lower_bound fuel bs first len (fun b => b <? k)).
Proof.
  induction fuel as [|f IH]; intros bs first len k Hs Hlen Hfuel Hlo Hhi.
  - lia.
  - cbn [lower_bound].
    destruct (Nat.eqb len 0) eqn:E0.
    + apply Nat.eqb_eq in E0. subst len.
      split; [lia|]. split; [exact Hlo|]. intros j Hj. apply Hhi. lia.
    + apply Nat.eqb_neq in E0.
      assert (Hh : (Nat.div2 len < len)%nat) by (apply div2_lt; lia).
      destruct (nth (first + Nat.div2 len) bs 0 <? k) eqn:Ec.
      * apply Z.ltb_lt in Ec.
        apply IH; try assumption; try lia.
        -- intros j Hj.
           assert (Hle : nth j bs 0 <= nth (first + Nat.div2 len) bs 0) by (apply Hs; lia).
           lia.
        -- intros j Hj. apply Hhi. lia.
      * apply Z.ltb_ge in Ec.
        apply IH; try assumption; try lia.
        intros j Hj.
        assert (Hle : nth (first + Nat.div2 len) bs 0 <= nth j bs 0) by (apply Hs; lia).
        lia.
Qed.

Lemma bucket_is_lower_bound : forall bs k, sorted bs -> is_lower_bound bs k (bucket bs k).
Proof.
  intros bs k Hs. unfold bucket, bucketp.
  apply lower_bound_inv; try assumption; try lia; intros j Hj; lia.
Qed.

(* the index is in range whatever the list looks like (counts_[index] is never out of bounds) *)
Lemma lower_bound_range :
  forall fuel bs first len p,
    (first <= lower_bound fuel bs first len p <= first + len)%nat.
Proof.
  induction fuel as [|f IH]; intros bs first len p; cbn [lower_bound].
  - lia.
  - destruct (Nat.eqb len 0) eqn:E0; [lia|].
    apply Nat.eqb_neq in E0.
    assert (Hh : (Nat.div2 len < len)%nat) by (apply div2_lt; lia).
    destruct (p (nth (first + Nat.div2 len) bs 0)).
    + specialize (IH bs (S (first + Nat.div2 len)) (len - Nat.div2 len - 1)%nat p). lia.
    + specialize (IH bs first (Nat.div2 len) p). lia.
Qed.

Lemma bucketp_le_length : forall bs p, (bucketp bs p <= length bs)%nat.
Proof. intros bs p. unfold bucketp. pose proof (lower_bound_range (S (length bs)) bs 0 (length bs) p). lia. Qed.
Lemma bucket_le_length : forall bs k, (bucket bs k <= length bs)%nat.
Proof. intros bs k. apply bucketp_le_length. Qed.

(* the search depends on the comparison only through its values *)
Lemma lower_bound_ext : forall p q, (forall b, p b = q b) ->
  forall fuel bs first len, lower_bound fuel bs first len p = lower_bound fuel bs first len q.
Proof.
  intros p q H. induction fuel as [|f IH]; intros bs first len; cbn [lower_bound]; [reflexivity|].
  rewrite H, !IH. reflexivity.
Qed.
Lemma bucketp_ext2 : forall bs p q, (forall b, p b = q b) -> bucketp bs p = bucketp bs q.
Proof. intros bs p q H. unfold bucketp. apply lower_bound_ext. exact H. Qed.
Lemma bucketp_ext : forall bs p k, (forall b, p b = (b <? k)) -> bucketp bs p = bucket bs k.
Proof. intros bs p k H. unfold bucket, bucketp. apply lower_bound_ext. exact H. Qed.

Lemma lower_bound_unique :
  forall bs k i i', is_lower_bound bs k i -> is_lower_bound bs k i' -> i = i'.
Proof.
  intros bs k i i' (Hi & Hlo & Hhi) (Hi' & Hlo' & Hhi').
  destruct (Nat.lt_trichotomy i i') as [H|[H|H]]; [|exact H|].
  - specialize (Hlo' i H). specialize (Hhi i). lia.
  - specialize (Hlo i' H). specialize (Hhi' i'). lia.
Qed.

(* sentence 1 of the property in the words of the statement: In_bucket bs i v is
   b[i-1] < v <= b[i], no lower limit for i = 0, no upper limit for i = length bs *)
Lemma sorted_In_bucket_lower_bound :
  forall bs k i, sorted bs -> (i <= length bs)%nat -> In_bucket bs i k -> is_lower_bound bs k i.
Proof.
  intros bs k i Hs Hi [Hlo Hhi]. split; [exact Hi|]. split.
  - intros j Hj. destruct i as [|i']; [lia|].
    specialize (Hlo i' eq_refl).
    assert (nth j bs 0 <= nth i' bs 0) by (apply Hs; lia). lia.
  - intros j Hj.
    assert (Hlt : (i < length bs)%nat) by lia.
    specialize (Hhi Hlt).
    assert (nth i bs 0 <= nth j bs 0) by (apply Hs; lia). lia.
Qed.

Lemma lower_bound_In_bucket : forall bs k i, is_lower_bound bs k i -> In_bucket bs i k.
Proof.
  intros bs k i (Hi & Hlo & Hhi). split.
  - intros j Hj. apply Hlo. lia.
  - intros Hlt. apply Hhi. lia.
Qed.

Theorem bucket_spec_lemma :
  forall bs v, sorted bs ->
    (bucket bs v <= length bs)%nat /\ In_bucket bs (bucket bs v) v /\
    (forall i, (i <= length bs)%nat -> In_bucket bs i v -> i = bucket bs v).
Proof.
  intros bs v Hs.
  pose proof (bucket_is_lower_bound bs v Hs) as Hb.
  split; [apply bucket_le_length|]. split; [apply lower_bound_In_bucket; exact Hb|].
  intros i Hi Hin. eapply lower_bound_unique; [|exact Hb].
  apply sorted_In_bucket_lower_bound; assumption.
Qed.

(* non-vacuity: a sorted list with a value on a boundary, between two, below and above all *)
Example bucket_examples :
  sorted [10; 20; 30] /\ bucket [10; 20; 30] 20 = 1%nat /\ bucket [10; 20; 30] 21 = 2%nat /\
  bucket [10; 20; 30] 5 = 0%nat /\ bucket [10; 20; 30] 31 = 3%nat /\ bucket [] 7 = 0%nat.
Proof.
  split.
  - intros i j Hij. cbn [length] in Hij.
    destruct i as [|[|[|i]]]; destruct j as [|[|[|j]]]; cbn; lia.
  - vm_compute. repeat split; reflexivity.
Qed.

(* boolean reflections used by the executable checker *)
Lemma in_bucket_iff : forall bs i x, in_bucket bs i x = true <-> In_bucket bs i x.
Proof.
  intros bs i x. unfold in_bucket, In_bucket. rewrite andb_true_iff. split.
  - intros [H1 H2]. split.
    + intros j Hj. subst i. apply Z.ltb_lt. exact H1.
    + intros Hlt. apply Nat.ltb_lt in Hlt. rewrite Hlt in H2. apply Z.leb_le. exact H2.
  - intros [H1 H2]. split.
    + destruct i as [|j]; [reflexivity|]. apply Z.ltb_lt. apply H1. reflexivity.
    + destruct (Nat.ltb i (length bs)) eqn:E; [|reflexivity].
      apply Z.leb_le. apply H2. apply Nat.ltb_lt. exact E.
Qed.

Lemma sortedb_sorted : forall l, sortedb l = true -> sorted l.
Proof.
  induction l as [|a l IH]; intros H i j Hij.
  - cbn in Hij. lia.
  - destruct l as [|b t].
    + cbn in Hij. assert (i = 0%nat) by lia. assert (j = 0%nat) by lia. subst. lia.
    + cbn [sortedb] in H. apply andb_true_iff in H. destruct H as [Hab Ht].
      apply Z.leb_le in Hab. specialize (IH Ht).
      destruct i as [|i'].
      * destruct j as [|j']; [lia|].
        change (nth 0 (a :: b :: t) 0) with a.
        change (nth (S j') (a :: b :: t) 0) with (nth j' (b :: t) 0). cbn [length] in Hij.
        assert (Hb : nth 0 (b :: t) 0 <= nth j' (b :: t) 0) by (apply IH; cbn [length]; lia).
        change (nth 0 (b :: t) 0) with b in Hb. lia.
      * destruct j as [|j']; [lia|].
        change (nth (S i') (a :: b :: t) 0) with (nth i' (b :: t) 0).
        change (nth (S j') (a :: b :: t) 0) with (nth j' (b :: t) 0).
        apply IH. cbn [length] in *. lia.
Qed.

(* for a sorted list the in_bucket test is true exactly at the index the search returns *)
Lemma in_bucket_bucket :
  forall bs x i, sorted bs -> (i <= length bs)%nat ->
    in_bucket bs i x = Nat.eqb (bucket bs x) i.
Proof.
  intros bs x i Hs Hi.
  destruct (bucket_spec_lemma bs x Hs) as (Hb & Hin & Huniq).
  destruct (Nat.eqb (bucket bs x) i) eqn:E.
  - apply Nat.eqb_eq in E. subst i. apply in_bucket_iff. exact Hin.
  - apply Nat.eqb_neq in E.
    destruct (in_bucket bs i x) eqn:Ei; [|reflexivity].
    apply in_bucket_iff in Ei. specialize (Huniq i Hi Ei). congruence.
Qed.
