(* C07 proofs, part 7: every sequence of New / Aggregate / Merge / ToPoint operations over the eight
   registers, for either instrument kind, yields points that pass the executable SPEC: each register holds the
   exact summary of the list of values the SPEC attributes to it (double sums: whenever the SPEC checks them).
   Diff is excluded here: its sum is the open finding F8c (its counts are covered by diff_inverts_merge). *)
From V Require Import C07.Spec C07.ProofsBucket C07.ProofsAgg C07.ProofsNum C07.ProofsSeries C07.ProofsSim C07.ProofsSpec.
From Coq Require Import Lia ZifyBool ZifyNat Arith.
Local Open Scope Z_scope.

Lemma Forall2_nth_het : forall {A B} (R : A -> B -> Prop) l l' i d d',
  Forall2 R l l' -> R d d' -> R (nth i l d) (nth i l' d').
Proof.
  intros A B R l l' i d d' H Hd. revert i. induction H as [|x y l l' Hxy _ IH]; intros [|i]; cbn [nth]; auto.
Qed.
Lemma Forall2_set_nth_het : forall {A B} (R : A -> B -> Prop) l l' i x x',
  Forall2 R l l' -> R x x' -> Forall2 R (set_nth i x l) (set_nth i x' l').
Proof.
  intros A B R l l' i x x' H Hx. revert i. induction H as [|a b l l' Hab Hl IH]; intros [|i]; cbn [set_nth]; constructor; auto.
Qed.

Section Machine.
Variable k : kind.
Variable s : Z.
Variable c : cfg.
Hypothesis Hs : 0 <= s.
Let o := ops_of k s.

(* what every recorded value must satisfy: the bucket search compares it exactly, and it lies between the sentinels *)
Definition good_val (v : Z) : Prop := (forall b, o_lt o b v = (b <? true_key k s v)) /\ o_max0 o <= v <= o_min0 o.

(* the sum of a register, as far as the SPEC looks at it *)
Definition sumc (xs : list Z) (h : hist) : Prop :=
  match k with
  | KLong => h_sum h = SFin (zsum xs)
  | KDbl => forall q, exact_q s q xs -> h_sum h = SFin (zsum xs)
  end.

Definition reg_ok (h : hist) (y : sym) : Prop :=
  y_bad y = false /\ y_basis y = y_vals y /\ y_rmm y = c_rmm c /\
  Forall good_val (y_vals y) /\
  nosum h = nosum (agg o c (y_vals y)) /\ sumc (y_vals y) h.

Lemma same_refl : same_but_add o o.
Proof. repeat split. Qed.

Lemma reg_ok_new : reg_ok (new_hist o c) (sym0 (c_rmm c)).
Proof.
  unfold reg_ok. cbn [sym0 y_bad y_basis y_rmm y_vals]. repeat split; try constructor.
  unfold sumc. destruct k; [reflexivity|intros q _; reflexivity].
Qed.

Lemma sumc_aggregate : forall xs h v, sumc xs h -> sumc (xs ++ [v]) (aggregate o h v).
Proof.
  intros xs h v H. unfold sumc in *. subst o. destruct k; cbn [ops_of aggregate h_sum long_ops dbl_ops o_add].
  - rewrite H. cbn [xadd]. rewrite zsum_app, zsum_cons, zsum_nil. f_equal. lia.
  - intros q Hq. destruct (exact_q_app _ _ _ _ Hq) as [Hx _]. rewrite (H q Hx). cbn [fadd].
    pose proof (exact_q_repr _ _ _ Hq) as Hr. unfold repr in Hr.
    rewrite zsum_app, zsum_cons, zsum_nil in *. replace (zsum xs + v) with (zsum xs + (v + 0)) by lia. exact Hr.
Qed.

Lemma sumc_merge : forall xs ys a b, sumc xs a -> sumc ys b -> sumc (xs ++ ys) (merge o a b).
Proof.
  intros xs ys a b Ha Hb. unfold sumc in *. subst o. destruct k; cbn [ops_of merge h_sum long_ops dbl_ops o_add].
  - rewrite Ha, Hb. cbn [xadd]. rewrite zsum_app. reflexivity.
  - intros q Hq. destruct (exact_q_app _ _ _ _ Hq) as [Hx Hy]. rewrite (Ha q Hx), (Hb q Hy). cbn [fadd].
    pose proof (exact_q_repr _ _ _ Hq) as Hr. unfold repr in Hr. rewrite zsum_app in *. exact Hr.
Qed.

Definition no_diff (op : aop) : Prop := match op with ODiff _ _ _ => False | _ => True end.
Definition good_op (op : aop) : Prop := match op with OAgg _ v => good_val v | _ => True end.

Lemma step_ok : forall rs ys op,
  Forall2 reg_ok rs ys -> no_diff op -> good_op op ->
  Forall2 reg_ok (fst (step_aop o c rs op)) (fst (step_sym (c_rmm c) ys op)) /\
  Forall2 reg_ok (snd (step_aop o c rs op)) (snd (step_sym (c_rmm c) ys op)).
Proof.
  intros rs ys op H Hnd Hg.
  assert (Hget : forall r, reg_ok (nth r rs (new_hist o c)) (nth r ys (sym0 (c_rmm c)))).
  { intros r. apply Forall2_nth_het; [exact H|apply reg_ok_new]. }
  destruct op as [r|r v|r|r a b|r a b|r]; cbn [step_aop step_sym fst snd].
  - split; [apply Forall2_set_nth_het; [exact H|apply reg_ok_new]|constructor].
  - split; [|constructor]. apply Forall2_set_nth_het; [exact H|].
    destruct (Hget r) as (H1 & H2 & H3 & H4 & H5 & H6).
    unfold reg_ok. cbn [y_bad y_basis y_rmm y_vals]. repeat split; try assumption.
    + rewrite H2. reflexivity.
    + apply Forall_app. split; [exact H4|constructor; [exact Hg|constructor]].
    + rewrite (nosum_aggregate o o same_refl _ _ v H5).
      unfold agg. rewrite fold_left_app. reflexivity.
    + apply sumc_aggregate. exact H6.
  - split; [exact H|constructor].
  - split; [|constructor]. apply Forall2_set_nth_het; [exact H|].
    destruct (Hget a) as (A1 & A2 & A3 & A4 & A5 & A6). destruct (Hget b) as (B1 & B2 & B3 & B4 & B5 & B6).
    unfold reg_ok. cbn [y_bad y_basis y_rmm y_vals]. rewrite A1, A2, A3, B1, B2, B3. cbn [orb].
    repeat split; try reflexivity.
    + apply andb_diag.
    + apply Forall_app. split; assumption.
    + rewrite (nosum_merge o o same_refl _ _ _ _ A5 B5). apply merge_homomorphism_fields.
    + apply sumc_merge; assumption.
  - contradiction.
  - split; [exact H|constructor; [apply Hget|constructor]].
Qed.

Lemma run_ok : forall l rs ys,
  Forall2 reg_ok rs ys -> Forall no_diff l -> Forall good_op l ->
  Forall2 reg_ok (run_aops o c rs l) (run_sym (c_rmm c) ys l).
Proof.
  induction l as [|op l IH]; intros rs ys H Hnd Hg; cbn [run_aops run_sym]; [constructor|].
  inversion Hnd as [|? ? Hnd1 Hnd2]; subst. inversion Hg as [|? ? Hg1 Hg2]; subst.
  destruct (step_ok rs ys op H Hnd1 Hg1) as [Hs1 Hs2].
  destruct (step_aop o c rs op) as [rs1 out1]. destruct (step_sym (c_rmm c) ys op) as [ys1 out1']. cbn [fst snd] in *.
  apply Forall2_app; [exact Hs2|apply IH; assumption].
Qed.

Lemma init_ok : Forall2 reg_ok (init_regs o c) (repeat (sym0 (c_rmm c)) NREG).
Proof. unfold init_regs. induction NREG as [|n IH]; cbn [repeat]; constructor; [apply reg_ok_new|exact IH]. Qed.

Lemma reg_ok_check : forall h y,
  sorted (c_bounds c) -> reg_ok h y -> Z.of_nat (length (y_vals y)) < U64 ->
  check_sym k s (c_bounds c) y (point_of h) = [].
Proof.
  intros h y Hsorted (H1 & H2 & H3 & H4 & H5 & H6) Hlen. unfold check_sym. rewrite H1.
  rewrite Forall_forall in H4.
  apply check_point_of_fields; try assumption.
  - intros v Hv. apply (H4 v Hv).
  - intros v Hv. apply (H4 v Hv).
  - intros Hc. unfold sumc in H6. clear H4 H5. subst o. destruct k; [exact H6|].
    cbn [sum_checkable] in Hc. destruct (exact_ms_sound s _ Hs Hc) as [q Hq]. apply (H6 q Hq).
Qed.

Theorem machine_meets_spec_lemma : forall l,
  sorted (c_bounds c) -> Forall no_diff l -> Forall good_op l ->
  Forall (fun y => Z.of_nat (length (y_vals y)) < U64) (run_sym (c_rmm c) (repeat (sym0 (c_rmm c)) NREG) l) ->
  spec_agg k s c l (map point_of (run_aops o c (init_regs o c) l)) = [].
Proof.
  intros l Hsorted Hnd Hg Hlen. unfold spec_agg.
  pose proof (run_ok l _ _ init_ok Hnd Hg) as H.
  revert Hlen. generalize dependent (run_sym (c_rmm c) (repeat (sym0 (c_rmm c)) NREG) l).
  generalize (run_aops o c (init_regs o c) l).
  intros hs ys H. induction H as [|h y hs ys Hhy _ IH]; intros Hlen; cbn [map check_all]; [reflexivity|].
  inversion Hlen; subst. rewrite (reg_ok_check h y Hsorted Hhy) by assumption. cbn [app]. apply IH. assumption.
Qed.

(* ---- the same representation relation carries the reader-level proof (ProofsSeries) for both kinds ---- *)
Definition rep (h : hist) (xs : list Z) : Prop := nosum h = nosum (agg o c xs) /\ sumc xs h.

Lemma rep_new : rep (new_hist o c) [].
Proof. split; [reflexivity|]. unfold sumc. subst o. destruct k; [reflexivity|intros q _; reflexivity]. Qed.
Lemma rep_agg : forall h xs v, rep h xs -> rep (aggregate o h v) (xs ++ [v]).
Proof.
  intros h xs v [H1 H2]. split; [|apply sumc_aggregate; exact H2].
  rewrite (nosum_aggregate o o same_refl _ _ v H1). unfold agg. rewrite fold_left_app. reflexivity.
Qed.
Lemma rep_merge : forall a b xs ys, rep a xs -> rep b ys -> rep (merge o a b) (xs ++ ys).
Proof.
  intros a b xs ys [A1 A2] [B1 B2]. split; [|apply sumc_merge; assumption].
  rewrite (nosum_merge o o same_refl _ _ _ _ A1 B1). apply merge_homomorphism_fields.
Qed.
Lemma sumc_swap : forall h xs ys, sumc (xs ++ ys) h -> sumc (ys ++ xs) h.
Proof.
  intros h xs ys H. unfold sumc in *. clear o. destruct k.
  - rewrite H, !zsum_app. f_equal. lia.
  - intros q (Hq & Hs' & Hall & Hsum).
    assert (Hq' : exact_q s q (xs ++ ys)).
    { split; [exact Hq|]. split; [exact Hs'|]. split.
      - apply Forall_app in Hall. apply Forall_app. tauto.
      - rewrite abs_sum_app in *. lia. }
    rewrite (H q Hq'), !zsum_app. f_equal. lia.
Qed.
Lemma rep_swap : forall h xs ys, rep h (xs ++ ys) -> rep h (ys ++ xs).
Proof.
  intros h xs ys [H1 H2]. split; [|apply sumc_swap; exact H2].
  rewrite H1. apply agg_perm_fields. apply Permutation.Permutation_app_comm.
Qed.

(* for every history and either instrument kind, every reported point passes the check *)
Theorem series_meets_spec_lemma : forall temps l,
  sorted (c_bounds c) ->
  Forall (valid_sop temps) l ->
  Forall (fun op => match op with SRec v => good_val v | SCollect _ => True end) l ->
  Z.of_nat (n_rec l) < U64 ->
  spec_series k s c temps l
    (map (option_map point_of) (run_sops o c temps (sstate0 (length temps)) l)) = [].
Proof.
  intros temps l Hsorted Hvalid Hvals Hn. unfold spec_series.
  apply Forall2_check_all. apply Forall2_map_r.
  pose proof (series_rep o c temps rep rep_new rep_agg rep_merge rep_swap l Hvalid) as Hok.
  pose proof (expect_sops_values temps l (repeat [] (length temps)) [] good_val) as Hv.
  assert (Hv' : Forall (fun e => Forall good_val (snd e)) (expect_sops temps (repeat [] (length temps)) [] l)).
  { apply Hv; [apply Forall_forall; intros p Hin; apply repeat_spec in Hin; subst; constructor|constructor|exact Hvals]. }
  pose proof (expect_sops_lengths temps l (repeat [] (length temps)) [] (n_rec l)) as Hl.
  assert (Hl' : Forall (fun e => (length (snd e) <= n_rec l)%nat) (expect_sops temps (repeat [] (length temps)) [] l)).
  { apply Hl; [apply Forall_forall; intros p Hin; apply repeat_spec in Hin; subst; cbn [length]; lia|cbn [length]; lia]. }
  eapply Forall2_impl_in; [exact Hok|].
  intros [name xs] out Hin Hout. unfold ok, orep in Hout. cbn [snd] in Hout.
  rewrite Forall_forall in Hv', Hl'.
  specialize (Hv' _ Hin). specialize (Hl' _ Hin). cbn [snd] in Hv', Hl'.
  unfold check_collect. destruct out as [h|]; cbn [option_map].
  - destruct Hout as [H1 H2]. rewrite Forall_forall in Hv'.
    apply check_point_of_fields; try assumption; try reflexivity.
    + lia.
    + intros v Hv0. apply (Hv' v Hv0).
    + intros v Hv0. apply (Hv' v Hv0).
    + intros Hc. unfold sumc in H2. clear H1 Hv' Hok Hv Hvals. subst o. destruct k; [exact H2|].
      cbn [sum_checkable] in Hc. destruct (exact_ms_sound s _ Hs Hc) as [q Hq]. apply (H2 q Hq).
  - subst xs. reflexivity.
Qed.

End Machine.

(* every finite double and every int64 is a good value *)
Lemma good_val_double : forall s b d, 0 <= s -> decode b = Some d -> good_val KDbl s (to_scale s d).
Proof. intros s b d Hs Hd. split; [intros b0; reflexivity|]. apply (double_within_sentinels s b d Hs Hd). Qed.
Lemma good_val_long : forall s v, 0 <= s -> - 2 ^ 63 <= v < 2 ^ 63 -> good_val KLong s v.
Proof.
  intros s v Hs Hv. split.
  - intros b. cbn [ops_of long_ops o_lt true_key]. apply long_lt_exact; assumption.
  - apply long_within_sentinels. exact Hv.
Qed.

(* non-vacuity: an operation sequence meeting the hypotheses, with a merge of two parts and of a register with itself *)
Example machine_example :
  let l := [OAgg 0 3; OAgg 1 10; OAgg 1 25; OMerge 2 0 1; OPrint 2; OMerge 3 2 2; OPrint 3] in
  Forall no_diff l /\ Forall (good_op KLong 0) l /\
  spec_agg KLong 0 (mkC [10; 20] true) l
    (map point_of (run_aops (long_ops 0) (mkC [10; 20] true) (init_regs (long_ops 0) (mkC [10; 20] true)) l)) = [].
Proof.
  cbn zeta. split; [repeat constructor|]. split.
  - repeat constructor; cbn [good_op]; apply good_val_long; change (2 ^ 63) with 9223372036854775808; lia.
  - vm_compute. reflexivity.
Qed.
