(* C15 - Baggage round-trips through its header; composite propagators apply every part.
   Property theorems about the Gallina model coq/C15/Model.v (tied to the C++ by ./check C15).
   Only statements here; proofs are in coq/C15/Proofs*.v. *)
From V Require Import C15.Glue C15.ProofsBase C15.ProofsOps C15.ProofsHeader C15.ProofsRoundtrip
                      C15.ProofsComposite C15.ProofsSpec C15.ProofsMain.

(* -- "characters outside the token set are percent-encoded and decoded back":
      UrlDecode inverts UrlEncode on EVERY byte string (not only printable ones) *)
Theorem decode_encode : forall s : bytes, url_decode (url_encode s) = Some s.
Proof. exact url_decode_encode. Qed.
Print Assumptions decode_encode.

(* the model's codec is the declarative one of the SPEC *)
Theorem codec_refines_spec : forall s : bytes, sp_decode s = url_decode s /\ sp_encode s = url_encode s.
Proof. exact (fun s => conj (sp_decode_eq s) (sp_encode_eq s)). Qed.
Print Assumptions codec_refines_spec.

(* -- every baggage built through Set/Delete (any arguments, any history) has only valid
      entries (non-empty printable key, printable value) and no duplicate key *)
Theorem built_by_set_valid :
  forall b, built_by_set b ->
  bag_wf b /\ forallb kv_valid (bg_entries b) = true /\ NoDup (map fst (bg_entries b)).
Proof. exact built_by_set_invariant. Qed.
Print Assumptions built_by_set_valid.

(* -- the header round trip, under exactly these hypotheses: the baggage was built through Set
      (hence valid keys/values); in every value the part from the first ';' on contains no ','
      and does not end in white space, and the encoded member is at most kMaxKeyValueSize bytes
      (rt_extra); at most kMaxKeyValuePairs entries; header at most kMaxSize bytes.
      The entries come back the same, in the same order. *)
Theorem baggage_roundtrip :
  forall b, built_by_set b ->
  forallb rt_extra (bg_entries b) = true ->
  length (bg_entries b) <= kMaxKeyValuePairsBaggage ->
  length (bg_to_header b) <= kMaxSizeBaggage ->
  bg_entries (bg_from_header (bg_to_header b)) = bg_entries b.
Proof. exact baggage_roundtrip_built. Qed.
Print Assumptions baggage_roundtrip.

(* the same for any entry list that meets rt_ok (validity + the hypotheses above), however built *)
Theorem baggage_roundtrip_any :
  forall b, rt_ok (bg_entries b) = true -> bg_entries (bg_from_header (bg_to_header b)) = bg_entries b.
Proof. exact model_roundtrip. Qed.
Print Assumptions baggage_roundtrip_any.

(* ... and through the propagator: Inject into an empty carrier, Extract into any context *)
Theorem baggage_roundtrip_propagator :
  forall b ctx ctx0, cx_bag ctx = Some b -> rt_ok (bg_entries b) = true ->
  let car := baggage_inject ctx [] in
  let out := baggage_extract car ctx0 in
  (bg_entries b <> [] ->
     car = [(h_baggage, bg_to_header b)] /\
     exists b', out = CxBag b' :: ctx0 /\ bg_entries b' = bg_entries b) /\
  (bg_entries b = [] -> car = [] /\ out = ctx0).
Proof. exact propagator_roundtrip. Qed.
Print Assumptions baggage_roundtrip_propagator.

(* the hypotheses are needed: the two excluded shapes do not come back *)
Theorem baggage_roundtrip_needs_hypotheses :
  sp_from_header (sp_to_header [(bs "k", bs "a;b,c")]) = [(bs "k", bs "a;b")] /\
  sp_from_header (sp_to_header [(bs "k", bs "a;b ")]) = [(bs "k", bs "a;b")].
Proof. exact (conj roundtrip_needs_no_comma_in_metadata roundtrip_needs_no_trailing_space_in_metadata). Qed.
Print Assumptions baggage_roundtrip_needs_hypotheses.

(* -- Set replaces an existing key (new entry first, the key occurs exactly once, every other
      key keeps its value and order); an invalid key or value gives a copy *)
Theorem set_replaces :
  forall k v b, bag_wf b -> sp_valid_key k = true -> sp_valid_value v = true ->
  bg_entries (bg_set k v b) = (k, v) :: remove_key k (bg_entries b) /\
  bg_get k (bg_set k v b) = Some v /\
  key_count k (bg_entries (bg_set k v b)) = 1 /\
  (forall k', bytes_eqb k' k = false -> bg_get k' (bg_set k v b) = bg_get k' b) /\
  remove_key k (bg_entries (bg_set k v b)) = remove_key k (bg_entries b).
Proof. exact set_replaces_model. Qed.
Print Assumptions set_replaces.

Theorem set_invalid_copies :
  forall k v b, bag_wf b -> sp_valid_key k && sp_valid_value v = false -> bg_entries (bg_set k v b) = bg_entries b.
Proof. exact set_invalid_copies_model. Qed.
Print Assumptions set_invalid_copies.

(* -- Delete removes it *)
Theorem delete_removes :
  forall k b, bag_wf b ->
  bg_entries (bg_delete k b) = remove_key k (bg_entries b) /\
  bg_get k (bg_delete k b) = None /\
  key_count k (bg_entries (bg_delete k b)) = 0 /\
  (forall k', bytes_eqb k' k = false -> bg_get k' (bg_delete k b) = bg_get k' b).
Proof. exact delete_removes_model. Qed.
Print Assumptions delete_removes.

(* every baggage any operation can produce is well formed (so the two theorems above apply to
   every reachable object) *)
Theorem reachable_wf :
  forall ops st, Forall bag_wf st -> Forall bag_wf (run_ops ops st).
Proof. exact run_ops_wf. Qed.
Print Assumptions reachable_wf.

(* -- neither changes the baggage they were called on: in every history of Set/Delete/FromHeader
      on a store of objects, the objects that exist after a prefix are still the same after any
      continuation *)
Theorem set_delete_pure :
  forall ops1 ops2 st, firstn (length (run_ops ops1 st)) (run_ops (ops1 ++ ops2) st) = run_ops ops1 st.
Proof. exact store_append_only. Qed.
Print Assumptions set_delete_pure.

(* -- extraction from arbitrary bytes = the declarative member grammar, for every byte string *)
Theorem from_header_refines_spec : forall h : bytes, bg_entries (bg_from_header h) = sp_from_header h.
Proof. exact bg_from_header_entries. Qed.
Print Assumptions from_header_refines_spec.

(* -- keeps only members whose decoded key and value are valid (soundness), keeps all of them
      when within the limits (completeness), in header order *)
Theorem from_header_keeps_only_valid :
  forall h : bytes,
  (forall e, In e (bg_entries (bg_from_header h)) ->
     entry_valid e = true /\ exists seg, In seg (split_on comma h) /\ sp_member seg = Some e) /\
  (length h <= kMaxSizeBaggage ->
   length (filter_map sp_member (split_on comma h)) <= kMaxKeyValuePairsBaggage ->
   forall seg e, In seg (split_on comma h) -> sp_member seg = Some e -> In e (bg_entries (bg_from_header h))) /\
  (length h <= kMaxSizeBaggage ->
   exists rest, filter_map sp_member (split_on comma h) = bg_entries (bg_from_header h) ++ rest).
Proof. exact from_header_keeps_only_valid_model. Qed.
Print Assumptions from_header_keeps_only_valid.

(* -- honours the 180-member, 4096-byte member and 8192-byte header limits (numbers read from
      baggage.h into Gen/Consts.v on every run) *)
Theorem limits_honoured :
  forall h : bytes,
  length (bg_entries (bg_from_header h)) <= kMaxKeyValuePairsBaggage /\
  (kMaxSizeBaggage < length h -> bg_entries (bg_from_header h) = []) /\
  (forall e, In e (bg_entries (bg_from_header h)) -> length (fst e) + length (snd e) <= kMaxKeyValueSize) /\
  (forall e, In e (bg_entries (bg_from_header h)) ->
     exists rk rv, (exists seg, In seg (split_on comma h) /\ cut equals (trim seg) = Some (rk, rv)) /\
                   length rk + length rv <= kMaxKeyValueSize).
Proof. exact limits_honoured_model. Qed.
Print Assumptions limits_honoured.

Theorem limits_are_180_4096_8192 :
  kMaxKeyValuePairsBaggage = 180 /\ kMaxKeyValueSize = N.to_nat 4096%N /\ kMaxSizeBaggage = N.to_nat 8192%N.
Proof. exact limits_nonvacuous. Qed.
Print Assumptions limits_are_180_4096_8192.

(* -- leaves the context untouched when nothing valid remains (and installs the baggage otherwise) *)
Theorem nothing_valid_leaves_context :
  forall car ctx,
  (bg_entries (bg_from_header (car_get h_baggage car)) = [] -> baggage_extract car ctx = ctx) /\
  (bg_entries (bg_from_header (car_get h_baggage car)) <> [] ->
     baggage_extract car ctx = CxBag (bg_from_header (car_get h_baggage car)) :: ctx).
Proof. exact nothing_valid_leaves_context_model. Qed.
Print Assumptions nothing_valid_leaves_context.

(* -- a composite injects with every configured propagator, in order, on the one carrier
      (for every list of propagators, whatever they are) *)
Theorem composite_inject_all :
  forall ps ctx car,
  comp_inject ps ctx car = fold_left (fun c p => p_inject p ctx c) ps car /\
  (forall ps1 p ps2, ps = ps1 ++ p :: ps2 ->
     comp_inject ps ctx car = comp_inject ps2 ctx (p_inject p ctx (comp_inject ps1 ctx car))).
Proof.
  exact (fun ps ctx car => conj (comp_inject_fold ps ctx car)
           (fun ps1 p ps2 E => eq_ind_r (fun x => comp_inject x ctx car = _) (comp_inject_each ps1 p ps2 ctx car) E)).
Qed.
Print Assumptions composite_inject_all.

(* for the built-in parts: what any configured part writes on its own is in the carrier afterwards *)
Theorem composite_inject_all_builtin_headers :
  forall ns ctx car n k v,
  In n ns -> last_write k (writes_of n ctx) = Some v ->
  car_get k (comp_inject (map prop_of_name ns) ctx car) = v.
Proof. exact composite_inject_all_builtin. Qed.
Print Assumptions composite_inject_all_builtin_headers.

(* -- and extracts by threading the context through all of them in order; with no part at all the
      caller's context is returned *)
Theorem composite_extract_threads_in_order :
  forall ps car ctx,
  comp_extract ps car ctx = fold_left (fun c p => p_extract p car c) ps ctx /\
  (forall ps1 p ps2, ps = ps1 ++ p :: ps2 ->
     comp_extract ps car ctx = comp_extract ps2 car (p_extract p car (comp_extract ps1 car ctx))).
Proof.
  exact (fun ps car ctx => conj (comp_extract_fold ps car ctx)
           (fun ps1 p ps2 E => eq_ind_r (fun x => comp_extract x car ctx = _) (comp_extract_each ps1 p ps2 car ctx) E)).
Qed.
Print Assumptions composite_extract_threads_in_order.

(* -- the model passes every SPEC checker that ./check runs on the implementation's observations *)
Theorem model_meets_spec_header :
  forall h init, spec_hdr_ok (hdr_bytes h) (option_map sp_from_header init) (model_hdr_obs h init) = [].
Proof. exact model_meets_spec_hdr. Qed.
Print Assumptions model_meets_spec_header.

Theorem model_meets_spec_operations :
  forall init ops, spec_ops_ok (init_entries init) ops (model_ops_obs init ops) = [].
Proof. exact model_meets_spec_ops. Qed.
Print Assumptions model_meets_spec_operations.

Theorem model_meets_spec_composite :
  forall ps ctx car,
  spec_comp_inject_ok (p_inject (composite ps) ctx car) (parts_inject ps ctx car) = [] /\
  spec_comp_extract_ok (obs_of_ctx ctx (p_extract (composite ps) car ctx)) (obs_of_ctx ctx (parts_extract ps car ctx)) = [].
Proof. exact (fun ps ctx car => conj (model_meets_spec_comp_inject ps ctx car) (model_meets_spec_comp_extract ps ctx car)). Qed.
Print Assumptions model_meets_spec_composite.

(* PURITY lines (ThreadSanitizer probe of the model's purity assumption; a run-time check, not a theorem):
   the model's prediction PURE passes the clause *)
Theorem model_meets_spec_purity_probe : forall l, parse_case l = Some CPur -> run_spec l (run_model l) = [].
Proof. exact model_meets_spec_purity. Qed.
Print Assumptions model_meets_spec_purity_probe.

(* -- the linear-time trim / member list used by this model are C14's trim_ws / members *)
Theorem members_are_c14_members : forall h, bg_members h = members h /\ forall s, trim s = trim_ws s.
Proof. exact (fun h => conj (bg_members_eq h) trim_eq). Qed.
Print Assumptions members_are_c14_members.
