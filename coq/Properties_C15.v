(* placeholder until C15/Proofs*.v land: nothing is claimed proved yet *)
From V Require Import C15.Glue.
Theorem c15_placeholder : True. Proof. exact I. Qed.
Print Assumptions c15_placeholder.
