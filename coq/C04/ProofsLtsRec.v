(* C04 proofs, part 13: the answers of IsRecording in an accepted trace.  The answer a call returns is 1 exactly when no End
   took mu_ before it did; hence SpecRace's clause (d). *)
From V Require Import C04.Glue C04.ProofsMap C04.ProofsStep C04.ProofsMeets C04.ProofsLts C04.ProofsLtsOrder C04.ProofsLtsRace C04.ProofsLtsCut.
From Coq Require Import Lia.
Local Open Scope nat_scope.

(* recordable_ is non-null exactly while no End has taken the lock (sampled span, mu_ free) *)
Lemma rec_iff_no_end c s0 s : c_sampled c = true -> Inv (start_span c s0) s -> l_mu s = None ->
  (match l_rec s with Some _ => true | None => false end) = negb (existsb is_end (l_lin s)).
Proof.
  intros Hs [_ Hr] Hmu. unfold complete, pending in Hr. rewrite Hmu, finish_none in Hr.
  destruct (existsb is_end (l_lin s)) eqn:E.
  - rewrite (run_ops_with_end c s0 _ Hs E) in Hr. injection Hr as -> _. reflexivity.
  - assert (F : Forall (fun o => is_end o = false) (l_lin s)).
    { apply Forall_forall. intros o Ho. destruct (is_end o) eqn:Eo; [|reflexivity].
      assert (existsb is_end (l_lin s) = true) by (apply existsb_exists; exists o; split; assumption). congruence. }
    unfold start_span in Hr. rewrite Hs, span_ctor_uniform, (run_ops_recording _ _ _ _ F) in Hr. injection Hr as -> _. reflexivity.
Qed.

Lemma existsb_map' {A B} (f : B -> bool) (g : A -> B) l : existsb f (map g l) = existsb (fun x => f (g x)) l.
Proof. induction l as [|a l IH]; [reflexivity|]. cbn. rewrite IH. reflexivity. Qed.

Section Rec.
Variable ths : list (list (op oval)).
Variables (c : cfg oval) (s0 : start oval).
Hypothesis Hs : c_sampled c = true.

Definition flag (l1 : list cid) : Z := if existsb (fun x => is_end (op_at ths x)) l1 then 0%Z else 1%Z.
Definition pc_op (p : pc) : option (op oval) :=
  match p with PIn o _ | PFan o _ _ | PUnlocked o _ => Some o | _ => None end.
Definition pc_res (p : pc) : option Z := match p with PIn _ r | PUnlocked _ r => Some r | _ => None end.

Record K (s : lstate) (cur : nat -> nat) (ids : list cid) (hp : list hev) : Prop := {
  K_op : forall t o, pc_op (l_pc s t) = Some o -> o = op_at ths (me cur t);
  K_fan : forall t o cs k, l_pc s t = PFan o cs k -> is_end o = true;
  K_pc : forall t r, pc_op (l_pc s t) = Some IsRec -> pc_res (l_pc s t) = Some r ->
         exists l1 l2, ids = l1 ++ me cur t :: l2 /\ r = flag l1;
  K_hist : forall ev, In ev hp -> h_begin ev = false -> op_at ths (h_tid ev, h_idx ev) = IsRec ->
           exists l1 l2, ids = l1 ++ (h_tid ev, h_idx ev) :: l2 /\ h_res ev = flag l1
}.

Lemma split_grows (ids : list cid) x z : (exists l1 l2, ids = l1 ++ x :: l2 /\ z = flag l1) ->
  forall more, exists l1 l2, ids ++ more = l1 ++ x :: l2 /\ z = flag l1.
Proof. intros (l1 & l2 & -> & E) more. exists l1, (l2 ++ more). split; [rewrite <- app_assoc; reflexivity|exact E]. Qed.

Lemma lock_step_cases s t o :
  (exists r, l_pc (lock_step s t o) t = PIn o r /\ (o = IsRec -> r = (if match l_rec s with Some _ => true | None => false end then 1%Z else 0%Z))) \/
  (exists cs, l_pc (lock_step s t o) t = PFan o cs 0 /\ is_end o = true).
Proof.
  unfold lock_step. destruct o; cbn [l_pc]; rewrite ?upd_same; try (left; eexists; split; [reflexivity|intros; discriminate]).
  - destruct (l_ended s); cbn [l_pc]; rewrite ?upd_same; [left; eexists; split; [reflexivity|intros; discriminate]|].
    destruct (l_rec s); cbn [l_pc]; rewrite upd_same; [right; eexists; split; reflexivity|left; eexists; split; [reflexivity|intros; discriminate]].
  - left. eexists. split; [reflexivity|]. intros _. destruct (l_rec s); reflexivity.
Qed.

Lemma K_step s cur ids hp e te s' : J ths s cur ids hp -> Inv (start_span c s0) s -> K s cur ids hp ->
  tev_ok cur e = true -> lev_of ths e = Some te -> accept s te = Some s' ->
  K s' (cur_step cur e) (ids ++ lock_id cur e) (hp ++ hist_of [e]).
Proof.
  intros Jv Iv Kv Hok Hl Ha.
  destruct e as [t i|t i r|t|t|t p]; cbn [tev_ok lev_of cur_step lock_id hist_of flat_map app] in *.
  - (* B *)
    apply Nat.eqb_eq in Hok. subst i. destruct (nth_error (nth t ths []) (cur t)) as [o|] eqn:En; [|discriminate]. injection Hl as <-.
    unfold accept in Ha. destruct (l_pc s t) eqn:Ept; try discriminate. injection Ha as <-. rewrite !app_nil_r.
    assert (Other : forall x, x <> t -> l_pc (set_pc s t (PCalled o)) x = l_pc s x /\ me (upd cur t (S (cur t))) x = me cur x).
    { intros x N. cbn [set_pc l_pc]. unfold me. rewrite !upd_other by exact N. split; reflexivity. }
    constructor.
    + intros x o' Ho. destruct (Nat.eq_dec x t) as [->|N]; [cbn [set_pc l_pc] in Ho; rewrite upd_same in Ho; discriminate|].
      destruct (Other x N) as [E1 E2]. rewrite E1 in Ho. rewrite E2. exact (K_op _ _ _ _ Kv x o' Ho).
    + intros x o' cs k Hp. destruct (Nat.eq_dec x t) as [->|N]; [cbn [set_pc l_pc] in Hp; rewrite upd_same in Hp; discriminate|].
      destruct (Other x N) as [E1 _]. rewrite E1 in Hp. exact (K_fan _ _ _ _ Kv x o' cs k Hp).
    + intros x r Ho Hr. destruct (Nat.eq_dec x t) as [->|N]; [cbn [set_pc l_pc] in Ho; rewrite upd_same in Ho; discriminate|].
      destruct (Other x N) as [E1 E2]. rewrite E1 in Ho, Hr. rewrite E2. exact (K_pc _ _ _ _ Kv x r Ho Hr).
    + intros ev Hin Hb Hop. apply in_app_or in Hin as [Hin|[<-|[]]]; [exact (K_hist _ _ _ _ Kv ev Hin Hb Hop)|discriminate].
  - (* R *)
    apply Nat.eqb_eq in Hok. injection Hl as <-.
    unfold accept in Ha. destruct (l_pc s t) eqn:Ept; try discriminate. destruct (r =? r0)%Z eqn:Er; [|discriminate]. injection Ha as <-.
    apply Z.eqb_eq in Er. subst r0. rewrite !app_nil_r.
    assert (Me : me cur t = (t, i)) by (unfold me; f_equal; lia).
    constructor.
    + intros x o' Ho. cbn [set_pc l_pc] in Ho. destruct (Nat.eq_dec x t) as [->|N]; [rewrite upd_same in Ho; discriminate|].
      rewrite upd_other in Ho by exact N. exact (K_op _ _ _ _ Kv x o' Ho).
    + intros x o' cs k Hp. cbn [set_pc l_pc] in Hp. destruct (Nat.eq_dec x t) as [->|N]; [rewrite upd_same in Hp; discriminate|].
      rewrite upd_other in Hp by exact N. exact (K_fan _ _ _ _ Kv x o' cs k Hp).
    + intros x r' Ho Hr. cbn [set_pc l_pc] in Ho, Hr. destruct (Nat.eq_dec x t) as [->|N]; [rewrite upd_same in Ho; discriminate|].
      rewrite upd_other in Ho, Hr by exact N. exact (K_pc _ _ _ _ Kv x r' Ho Hr).
    + intros ev Hin Hb Hop. apply in_app_or in Hin as [Hin|[<-|[]]]; [exact (K_hist _ _ _ _ Kv ev Hin Hb Hop)|].
      cbn [h_tid h_idx h_res] in *. rewrite <- Me in *.
      assert (Eo : o = IsRec) by (rewrite <- Hop; apply (K_op _ _ _ _ Kv t o); rewrite Ept; reflexivity).
      apply (K_pc _ _ _ _ Kv t r); rewrite Ept, ?Eo; reflexivity.
  - (* L *)
    injection Hl as <-. unfold accept in Ha. destruct (l_pc s t) eqn:Ept; try discriminate.
    destruct (l_mu s) eqn:Emu; [discriminate|]. injection Ha as <-. rewrite app_nil_r. fold (me cur t).
    pose proof (J_pc' ths _ _ _ _ Jv t) as Ht. rewrite Ept in Ht. cbn in Ht. destruct Ht as (_ & Eo & _).
    assert (Other : forall x, x <> t -> l_pc (lock_step s t o) x = l_pc s x) by (intros x N; apply lock_step_pc; exact N).
    constructor.
    + intros x o' Ho. destruct (Nat.eq_dec x t) as [->|N].
      * destruct (lock_step_cases s t o) as [(r & E & _)|(cs & E & _)]; rewrite E in Ho; injection Ho as <-; exact Eo.
      * rewrite Other in Ho by exact N. exact (K_op _ _ _ _ Kv x o' Ho).
    + intros x o' cs k Hp. destruct (Nat.eq_dec x t) as [->|N].
      * destruct (lock_step_cases s t o) as [(r & E & _)|(cs' & E & He)]; rewrite E in Hp; [discriminate|]. injection Hp as <- _ _. exact He.
      * rewrite Other in Hp by exact N. exact (K_fan _ _ _ _ Kv x o' cs k Hp).
    + intros x r Ho Hr. destruct (Nat.eq_dec x t) as [->|N].
      * destruct (lock_step_cases s t o) as [(r' & E & Hr')|(cs & E & _)]; rewrite E in Ho, Hr; [|discriminate].
        injection Ho as ->. injection Hr as <-. exists ids, []. split; [reflexivity|]. rewrite (Hr' eq_refl).
        rewrite (rec_iff_no_end c s0 s Hs Iv Emu), (J_lin _ _ _ _ _ Jv). unfold flag. rewrite existsb_map'.
        destruct (existsb (fun x => is_end (op_at ths x)) ids); reflexivity.
      * rewrite Other in Ho, Hr by exact N. apply split_grows. exact (K_pc _ _ _ _ Kv x r Ho Hr).
    + intros ev Hin Hb Hop. apply split_grows. exact (K_hist _ _ _ _ Kv ev Hin Hb Hop).
  - (* U *)
    injection Hl as <-. rewrite !app_nil_r.
    assert (Kc : exists p', l_pc s' = upd (l_pc s) t p' /\
               ((exists o r, l_pc s t = PIn o r /\ p' = PUnlocked o r) \/ (exists o k, l_pc s t = PFan o [] k /\ p' = PUnlocked o 0%Z))).
    { unfold accept in Ha. destruct (l_pc s t) eqn:Ept; try discriminate.
      - injection Ha as <-. eexists. split; [reflexivity|]. left. eauto.
      - destruct cs; [|discriminate]. injection Ha as <-. eexists. split; [reflexivity|]. right. eauto. }
    destruct Kc as (p' & Epc & Hcase).
    constructor.
    + intros x o' Ho. rewrite Epc in Ho. destruct (Nat.eq_dec x t) as [->|N].
      * rewrite upd_same in Ho. apply (K_op _ _ _ _ Kv t o').
        destruct Hcase as [(o & r & E1 & ->)|(o & k & E1 & ->)]; rewrite E1; exact Ho.
      * rewrite upd_other in Ho by exact N. exact (K_op _ _ _ _ Kv x o' Ho).
    + intros x o' cs k Hp. rewrite Epc in Hp. destruct (Nat.eq_dec x t) as [->|N].
      * rewrite upd_same in Hp. destruct Hcase as [(o & r & _ & ->)|(o & k' & _ & ->)]; discriminate.
      * rewrite upd_other in Hp by exact N. exact (K_fan _ _ _ _ Kv x o' cs k Hp).
    + intros x r Ho Hr. rewrite Epc in Ho, Hr. destruct (Nat.eq_dec x t) as [->|N].
      * rewrite upd_same in Ho, Hr. destruct Hcase as [(o & r' & E1 & ->)|(o & k' & E1 & ->)].
        -- apply (K_pc _ _ _ _ Kv t r); rewrite E1; [exact Ho|exact Hr].
        -- cbn in Ho. injection Ho as ->. pose proof (K_fan _ _ _ _ Kv t IsRec [] k' E1). discriminate.
      * rewrite upd_other in Ho, Hr by exact N. exact (K_pc _ _ _ _ Kv x r Ho Hr).
    + exact (K_hist _ _ _ _ Kv).
  - (* D *)
    injection Hl as <-. rewrite !app_nil_r.
    unfold accept in Ha. destruct (l_pc s t) eqn:Ept; try discriminate. destruct cs as [|c0 cs]; [discriminate|].
    destruct (Nat.eqb p k); [|discriminate]. injection Ha as <-.
    constructor.
    + intros x o' Ho. cbn [l_pc] in Ho. destruct (Nat.eq_dec x t) as [->|N].
      * rewrite upd_same in Ho. apply (K_op _ _ _ _ Kv t o'). rewrite Ept. exact Ho.
      * rewrite upd_other in Ho by exact N. exact (K_op _ _ _ _ Kv x o' Ho).
    + intros x o' cs' k' Hp. cbn [l_pc] in Hp. destruct (Nat.eq_dec x t) as [->|N].
      * rewrite upd_same in Hp. injection Hp as <- _ _. exact (K_fan _ _ _ _ Kv t o _ _ Ept).
      * rewrite upd_other in Hp by exact N. exact (K_fan _ _ _ _ Kv x o' cs' k' Hp).
    + intros x r Ho Hr. cbn [l_pc] in Ho, Hr. destruct (Nat.eq_dec x t) as [->|N].
      * rewrite upd_same in Hr. discriminate.
      * rewrite upd_other in Ho, Hr by exact N. exact (K_pc _ _ _ _ Kv x r Ho Hr).
    + exact (K_hist _ _ _ _ Kv).
Qed.
End Rec.

Lemma K_init ths c s0 : K ths (linit c s0) (fun _ => 0) [] [].
Proof. constructor; cbn; intros; try discriminate; contradiction. Qed.

Lemma JK_replay ths c s0 : c_sampled c = true -> forall evs s cur ids hp n s',
  J ths s cur ids hp -> Inv (start_span c s0) s -> K ths s cur ids hp -> replay ths s cur evs n = inl s' ->
  exists cur', J ths s' cur' (ids ++ ids_of cur evs) (hp ++ hist_of evs) /\ K ths s' cur' (ids ++ ids_of cur evs) (hp ++ hist_of evs).
Proof.
  intros Hs. induction evs as [|e evs IH]; intros s cur ids hp n s' Jv Iv Kv Hr.
  - cbn in Hr. injection Hr as <-. exists cur. cbn. rewrite !app_nil_r. split; assumption.
  - cbn [replay] in Hr. destruct (tev_ok cur e) eqn:Hok; [|discriminate].
    destruct (lev_of ths e) as [te|] eqn:Hl; [|discriminate].
    destruct (accept s te) as [s1|] eqn:Ha; [|discriminate].
    destruct (IH _ _ _ _ _ _ (J_step ths _ _ _ _ _ _ _ Jv Hok Hl Ha) (inv_step _ _ _ _ Iv Ha) (K_step ths c s0 Hs _ _ _ _ _ _ _ Jv Iv Kv Hok Hl Ha) Hr)
      as [cur' [Jf Kf]].
    exists cur'. cbn [ids_of]. rewrite hist_of_cons, !app_assoc. split; assumption.
Qed.

(* in an accepted trace, the R event of an IsRecording call carries 1 exactly when no End precedes the call in lock order *)
Theorem isrecording_answers ths c s0 evs s' : c_sampled c = true ->
  replay ths (linit c s0) (fun _ => 0) evs 0 = inl s' ->
  forall ev, In ev (hist_of evs) -> h_begin ev = false -> op_at ths (h_tid ev, h_idx ev) = IsRec ->
  exists l1 l2, ids_of (fun _ => 0) evs = l1 ++ (h_tid ev, h_idx ev) :: l2 /\ h_res ev = flag ths l1.
Proof.
  intros Hs Hr. destruct (JK_replay ths c s0 Hs evs _ _ _ _ _ _ (J_init ths c s0) (inv_init c s0) (K_init ths c s0) Hr) as [cur' [_ Kf]].
  cbn [app] in Kf. exact (K_hist _ _ _ _ _ Kf).
Qed.

(* ------------------------------------------------------------------ clause (d) *)
Lemma pos_of_nth b t i h : forall n p, pos_of b t i h n = Some p ->
  exists ev, nth_error h (p - n) = Some ev /\ h_begin ev = b /\ h_tid ev = t /\ h_idx ev = i.
Proof.
  induction h as [|e h IH]; intros n p; cbn [pos_of]; [discriminate|].
  destruct (Bool.eqb (h_begin e) b && Nat.eqb (h_tid e) t && Nat.eqb (h_idx e) i) eqn:E.
  - intros [= <-]. rewrite Nat.sub_diag. exists e. apply andb_true_iff in E as [E E3]. apply andb_true_iff in E as [E1 E2].
    apply eqb_prop in E1. apply Nat.eqb_eq in E2, E3. auto.
  - intros H. pose proof (pos_of_bound _ _ _ _ _ _ H) as B. destruct (IH _ _ H) as (ev & Hn & K1).
    exists ev. split; [|exact K1]. replace (p - n) with (S (p - S n)) by lia. exact Hn.
Qed.
Lemma min_list_attained l d : min_list l d < d -> In (min_list l d) l.
Proof.
  induction l as [|x l IH]; cbn; [lia|]. intros H. destruct (Nat.le_gt_cases x (min_list l d)).
  - left. symmetry. apply Nat.min_l. assumption.
  - right. rewrite Nat.min_r in * by lia. apply IH. exact H.
Qed.
Lemma precedes_split_left (ids l1 l2 : list cid) x y : NoDup ids -> ids = l1 ++ x :: l2 -> precedes y x ids -> In y l1.
Proof.
  intros Hn E Hp. destruct (precedes_in _ _ _ Hp) as [Hy _]. rewrite E in Hy. apply in_app_or in Hy as [Hy|[<-|Hy]]; [exact Hy| |].
  - exfalso. exact (precedes_irrefl _ _ Hn Hp).
  - exfalso. subst ids. assert (Hn2 : NoDup ((l1 ++ [x]) ++ l2)) by (rewrite <- app_assoc; exact Hn).
    assert (Hp2 : precedes y x ((l1 ++ [x]) ++ l2)) by (rewrite <- app_assoc; exact Hp).
    pose proof (precedes_tail (l1 ++ [x]) l2 y x Hn2 Hy Hp2) as K2. apply NoDup_remove_2 in Hn. apply Hn. apply in_or_app; right; exact K2.
Qed.
Lemma in_left_precedes (l1 l2 : list cid) x y : In y l1 -> precedes y x (l1 ++ x :: l2).
Proof. intros H. apply in_split in H as (a & b & ->). exists a, (b ++ x :: l2). split; [rewrite <- app_assoc; reflexivity|apply in_or_app; right; left; reflexivity]. Qed.

Section ClauseD.
Variables (ths : list (list (op aval))) (h : list hev) (ids : list cid).
Hypothesis Hnd : NoDup ids.
Hypothesis Hval : forall x, In x ids <-> valid ths x.
Hypothesis Hord : forall x y, In y ids -> before h x y = true -> precedes x y ids.
Hypothesis Hret : forall x, valid ths x -> has false x h.
Hypothesis Hans : forall ev, In ev h -> h_begin ev = false -> opa ths (h_tid ev, h_idx ev) = IsRec ->
  exists l1 l2, ids = l1 ++ (h_tid ev, h_idx ev) :: l2 /\ h_res ev = flag (conv_threads ths) l1.

Lemma end_call_in x t : In (x, t) (ends_of (concat (number_threads 0 ths))) <-> valid ths x /\ opa ths x = End t.
Proof.
  unfold ends_of. rewrite in_flat_map. split.
  - intros ([x' o] & Hc & Hin). cbn [snd fst] in Hin. destruct o; try contradiction. destruct Hin as [[= -> ->]|[]].
    apply call_in in Hc as [V E]. split; [exact V|symmetry; exact E].
  - intros [V E]. exists (x, opa ths x). split; [apply call_in; split; [exact V|reflexivity]|]. cbn [snd fst]. rewrite E. left; reflexivity.
Qed.

Theorem isrec_ok_lin : isrec_ok h (number_threads 0 ths) = true.
Proof.
  unfold isrec_ok. apply forallb_forall. intros [x o] Hc. cbn [snd fst]. destruct o; try reflexivity.
  apply call_in in Hc as [Vx Ox]. symmetry in Ox.
  pose proof (Hret x Vx) as Hh. unfold has in Hh. destruct (pos_of false (fst x) (snd x) h 0) as [p|] eqn:Ep; [|contradiction].
  assert (Pp0 : pr h x = p) by (unfold pr; rewrite Ep; reflexivity). rewrite !Pp0.
  destruct (pos_of_nth _ _ _ _ _ _ Ep) as (ev & Hn & B1 & B2 & B3). rewrite Nat.sub_0_r in Hn. rewrite Hn.
  assert (Hin : In ev h) by (eapply nth_error_In; exact Hn).
  assert (Ex : (h_tid ev, h_idx ev) = x) by (destruct x; cbn in *; subst; reflexivity).
  destruct (Hans ev Hin B1) as (l1 & l2 & Eids & Eres); [rewrite Ex; exact Ox|]. rewrite Ex in Eids.
  assert (Pp : pr h x = p) by (unfold pr; rewrite Ep; reflexivity).
  apply andb_true_iff. split.
  - match goal with |- (if Nat.ltb ?a ?b then _ else _) = true => destruct (Nat.ltb_spec a b) as [L|L] end; [|reflexivity].
    rewrite Eres. unfold flag. destruct (existsb (fun y => is_end (op_at (conv_threads ths) y)) l1) eqn:Ee; [exfalso|reflexivity].
    apply existsb_exists in Ee as (e' & He1 & He2). rewrite op_at_conv, is_end_map in He2. destruct (opa ths e') as [| | | |t'|] eqn:Oe; try discriminate.
    assert (Ve : valid ths e') by (apply Hval; rewrite Eids; apply in_or_app; left; exact He1).
    assert (Hm : min_list (map (fun e0 => pb h (fst e0)) (ends_of (concat (number_threads 0 ths)))) (length h) <= pb h e').
    { apply min_list_le. apply in_map_iff. exists (e', t'). split; [reflexivity|]. apply end_call_in. split; assumption. }
    assert (Bf : before h x e' = true) by (unfold before; apply Nat.ltb_lt; rewrite Pp; eapply Nat.lt_le_trans; [exact L|exact Hm]).
    pose proof (Hord x e' (proj2 (Hval e') Ve) Bf) as P1.
    assert (P2 : precedes e' x ids) by (rewrite Eids; apply in_left_precedes; exact He1). exact (precedes_asym _ _ _ Hnd P1 P2).
  - match goal with |- (if Nat.ltb ?a ?b then _ else _) = true => set (mr := a); destruct (Nat.ltb_spec mr b) as [L|L] end; [|reflexivity].
    assert (Lt : mr < length h) by (pose proof (pb_le_length h x); lia).
    apply min_list_attained in Lt. fold mr in Lt. apply in_map_iff in Lt as ([e' t'] & Em & He). cbn [fst] in Em.
    apply end_call_in in He as [Ve Oe].
    assert (Bf : before h e' x = true) by (unfold before; apply Nat.ltb_lt; lia).
    pose proof (Hord e' x (proj2 (Hval x) Vx) Bf) as P1.
    pose proof (precedes_split_left ids l1 l2 x e' Hnd Eids P1) as Hl1.
    rewrite Eres. unfold flag.
    assert (Ee : existsb (fun y => is_end (op_at (conv_threads ths) y)) l1 = true).
    { apply existsb_exists. exists e'. split; [exact Hl1|]. rewrite op_at_conv, Oe. reflexivity. }
    rewrite Ee. reflexivity.
Qed.
End ClauseD.
