(* C04 proofs, part 10: the lock order of an accepted trace is a LINEARIZATION of the calls: it contains every
   call that has returned, each call once, and whenever call x returned before call y began (real time, as the
   history shows it), x took mu_ before y did. *)
From V Require Import C04.Glue C04.ProofsMap C04.ProofsStep C04.ProofsLts.
From Coq Require Import Lia.
Local Open Scope nat_scope.

Definition cid := (nat * nat)%type.
Definition op_at (ths : list (list (op oval))) (x : cid) : op oval := nth (snd x) (nth (fst x) ths []) IsRec.

(* the call ids in the order of the L events *)
Definition lock_id (cur : nat -> nat) (e : tev) : list cid :=
  match e with TLock t => [(t, cur t - 1)] | _ => [] end.
Fixpoint ids_of (cur : nat -> nat) (evs : list tev) : list cid :=
  match evs with
  | [] => []
  | e :: r => lock_id cur e ++ ids_of (cur_step cur e) r
  end.

Definition has (b : bool) (x : cid) (h : list hev) : Prop := pos_of b (fst x) (snd x) h 0 <> None.
(* x is strictly in front of (an occurrence of) y *)
Definition precedes (x y : cid) (l : list cid) : Prop := exists l1 l2, l = l1 ++ x :: l2 /\ In y l2.

(* ------------------------------------------------------------------ positions in a growing history *)
Lemma pos_of_shift b t i h : forall n, pos_of b t i h (S n) = option_map S (pos_of b t i h n).
Proof.
  induction h as [|e h IH]; intros n; [reflexivity|]. cbn.
  destruct (Bool.eqb (h_begin e) b && Nat.eqb (h_tid e) t && Nat.eqb (h_idx e) i); [reflexivity|apply IH].
Qed.
Lemma pos_of_bound b t i h : forall n p, pos_of b t i h n = Some p -> n <= p < n + length h.
Proof.
  induction h as [|e h IH]; intros n p; cbn; [discriminate|].
  destruct (Bool.eqb (h_begin e) b && Nat.eqb (h_tid e) t && Nat.eqb (h_idx e) i).
  - intros [= <-]. lia.
  - intros H. apply IH in H. lia.
Qed.
Lemma pos_of_app b t i h1 h2 : forall n,
  pos_of b t i (h1 ++ h2) n = match pos_of b t i h1 n with Some p => Some p | None => pos_of b t i h2 (n + length h1) end.
Proof.
  induction h1 as [|e h1 IH]; intros n; cbn; [rewrite Nat.add_0_r; reflexivity|].
  destruct (Bool.eqb (h_begin e) b && Nat.eqb (h_tid e) t && Nat.eqb (h_idx e) i); [reflexivity|].
  rewrite IH. replace (S n + length h1) with (n + S (length h1)) by lia. reflexivity.
Qed.

Lemma pb_stable h h2 x : has true x h -> pb (h ++ h2) x = pb h x /\ pb h x < length h.
Proof.
  unfold has, pb. intros H. rewrite pos_of_app. destruct (pos_of true (fst x) (snd x) h 0) eqn:E; [|contradiction].
  split; [reflexivity|]. apply pos_of_bound in E. lia.
Qed.
Lemma pr_stable h h2 x : has false x h -> pr (h ++ h2) x = pr h x /\ pr h x < length h.
Proof.
  unfold has, pr. intros H. rewrite pos_of_app. destruct (pos_of false (fst x) (snd x) h 0) eqn:E; [|contradiction].
  split; [reflexivity|]. apply pos_of_bound in E. lia.
Qed.
Lemma pr_absent h h2 x : ~ has false x h -> length h <= pr (h ++ h2) x.
Proof.
  unfold has, pr. intros H. rewrite pos_of_app. destruct (pos_of false (fst x) (snd x) h 0) eqn:E; [exfalso; apply H; discriminate|].
  destruct (pos_of false (fst x) (snd x) h2 (0 + length h)) eqn:E2; [apply pos_of_bound in E2; lia|]. rewrite app_length. lia.
Qed.
Lemma has_app b x h h2 : has b x h -> has b x (h ++ h2).
Proof. unfold has. intros H. rewrite pos_of_app. destruct (pos_of b (fst x) (snd x) h 0); [discriminate|exfalso; apply H; reflexivity]. Qed.
Lemma has_app_inv b x h e : has b x (h ++ [e]) -> has b x h \/ (h_begin e = b /\ h_tid e = fst x /\ h_idx e = snd x).
Proof.
  unfold has. rewrite pos_of_app. destruct (pos_of b (fst x) (snd x) h 0); [left; discriminate|].
  cbn. destruct (Bool.eqb (h_begin e) b && Nat.eqb (h_tid e) (fst x) && Nat.eqb (h_idx e) (snd x)) eqn:E; [|intros H; contradiction].
  intros _. right. apply andb_true_iff in E as [E E3]. apply andb_true_iff in E as [E1 E2].
  apply eqb_prop in E1. apply Nat.eqb_eq in E2, E3. auto.
Qed.
Lemma has_dec b x h : has b x h \/ ~ has b x h.
Proof. unfold has. destruct (pos_of b (fst x) (snd x) h 0); [left; discriminate|right; intros H; apply H; reflexivity]. Qed.
Lemma nodup_snoc {A} (l : list A) x : NoDup l -> ~ In x l -> NoDup (l ++ [x]).
Proof.
  intros H N. induction H as [|a l Ha Hl IH]; cbn; [constructor; [intros []|constructor]|].
  constructor.
  - intros Hin. apply in_app_or in Hin as [Hin|[->|[]]]; [contradiction|]. apply N; left; reflexivity.
  - apply IH. intros Hin. apply N; right; exact Hin.
Qed.

Lemma precedes_app x y l z : precedes x y l -> precedes x y (l ++ z).
Proof. intros (l1 & l2 & -> & H). exists l1, (l2 ++ z). split; [rewrite <- app_assoc; reflexivity | apply in_or_app; left; exact H]. Qed.
Lemma precedes_new x y l : In x l -> precedes x y (l ++ [y]).
Proof.
  intros H. apply in_split in H as (l1 & l2 & ->). exists l1, (l2 ++ [y]). split; [rewrite <- app_assoc; reflexivity|].
  apply in_or_app; right; left; reflexivity.
Qed.

(* ------------------------------------------------------------------ the invariant of a replay *)
Section Replay.
Variable ths : list (list (op oval)).

Definition me (cur : nat -> nat) (t : nat) : cid := (t, cur t - 1).

Record J (s : lstate) (cur : nat -> nat) (ids : list cid) (hp : list hev) : Prop := {
  J_lin : l_lin s = map (op_at ths) ids;
  J_pc : forall t, match l_pc s t with
                   | PIdle => True
                   | PCalled o => 0 < cur t /\ o = op_at ths (me cur t) /\ ~ In (me cur t) ids /\ has true (me cur t) hp /\ ~ has false (me cur t) hp
                   | _ => 0 < cur t /\ In (me cur t) ids /\ ~ has false (me cur t) hp
                   end;
  J_ret : forall x, has false x hp -> In x ids;
  J_beg : forall x, In x ids -> has true x hp /\ snd x < cur (fst x);
  J_fresh : forall t i, has true (t, i) hp -> i < cur t;
  J_order : forall x y, In y ids -> before hp x y = true -> precedes x y ids;
  J_nodup : NoDup ids
}.

Lemma lock_step_lin s t o : l_lin (lock_step s t o) = (l_lin s ++ [o])%list.
Proof. unfold lock_step. destruct o; cbn; try reflexivity. destruct (l_ended s); [reflexivity|]. destruct (l_rec s); reflexivity. Qed.
Lemma lock_step_pc s t o x : x <> t -> l_pc (lock_step s t o) x = l_pc s x.
Proof.
  intros N. unfold lock_step. destruct o; cbn [l_pc]; try (apply upd_other; exact N).
  destruct (l_ended s); cbn [l_pc]; [apply upd_other; exact N|]. destruct (l_rec s); cbn [l_pc]; apply upd_other; exact N.
Qed.
Lemma lock_step_pc_me s t o : match l_pc (lock_step s t o) t with PIn _ _ | PFan _ _ _ => True | _ => False end.
Proof.
  unfold lock_step. destruct o; cbn [l_pc]; rewrite ?upd_same; try exact I.
  destruct (l_ended s); cbn [l_pc]; rewrite ?upd_same; [exact I|]. destruct (l_rec s); cbn [l_pc]; rewrite upd_same; exact I.
Qed.

Lemma before_needs_ret hp x y : before hp x y = true -> pb hp y <= length hp -> has false x hp.
Proof.
  unfold before, has, pr. intros H L. apply Nat.ltb_lt in H.
  destruct (pos_of false (fst x) (snd x) hp 0); [discriminate|]. lia.
Qed.
Lemma pb_le_length hp y : pb hp y <= length hp.
Proof. unfold pb. destruct (pos_of true (fst y) (snd y) hp 0) eqn:E; [apply pos_of_bound in E; lia|lia]. Qed.

(* appending a B / R event keeps the order facts about locked calls *)
Lemma order_hist_grows s cur ids hp e : J s cur ids hp ->
  forall x y, In y ids -> before (hp ++ [e]) x y = true -> precedes x y ids.
Proof.
  intros Jv x y Hy Hb. destruct (J_beg _ _ _ _ Jv y Hy) as [By _].
  destruct (pb_stable hp [e] y By) as [Pb Lb].
  assert (Hx : has false x hp).
  { destruct (has_dec false x hp) as [H|H]; [exact H|]. exfalso.
    pose proof (pr_absent hp [e] x H) as P. unfold before in Hb. apply Nat.ltb_lt in Hb. rewrite Pb in Hb. lia. }
  destruct (pr_stable hp [e] x Hx) as [Pr _].
  apply (J_order _ _ _ _ Jv x y Hy). unfold before in *. rewrite Pb, Pr in Hb. exact Hb.
Qed.

Definition pc_ok (cur : nat -> nat) (ids : list cid) (hp : list hev) (t : nat) (p : pc) : Prop :=
  match p with
  | PIdle => True
  | PCalled o => 0 < cur t /\ o = op_at ths (me cur t) /\ ~ In (me cur t) ids /\ has true (me cur t) hp /\ ~ has false (me cur t) hp
  | _ => 0 < cur t /\ In (me cur t) ids /\ ~ has false (me cur t) hp
  end.
Lemma J_pc' s cur ids hp : J s cur ids hp -> forall t, pc_ok cur ids hp t (l_pc s t).
Proof. intros Jv t. exact (J_pc _ _ _ _ Jv t). Qed.

(* a history event of thread t does not disturb what is known of the other threads *)
Lemma pc_ok_hist cur ids hp e x p : pc_ok cur ids hp x p -> (h_begin e = false -> (h_tid e, h_idx e) <> me cur x) ->
  pc_ok cur ids (hp ++ [e]) x p.
Proof.
  intros H Hn. assert (K : ~ has false (me cur x) hp -> ~ has false (me cur x) (hp ++ [e])).
  { intros N Hh. apply has_app_inv in Hh as [Hh|(B & T & I)]; [contradiction|]. apply (Hn B). unfold me in *. cbn [fst snd] in *. congruence. }
  destruct p as [|o|o r|o cs k|o r]; cbn in *.
  - exact I.
  - destruct H as (A & B & C & D & E). repeat split; auto. apply has_app; exact D.
  - destruct H as (A & B & C); repeat split; auto.
  - destruct H as (A & B & C); repeat split; auto.
  - destruct H as (A & B & C); repeat split; auto.
Qed.

Lemma upd_mono (cur : nat -> nat) t y : cur y <= upd cur t (S (cur t)) y.
Proof. unfold upd. destruct (Nat.eqb_spec y t) as [->|]; lia. Qed.

Lemma J_step s cur ids hp e te s' : J s cur ids hp ->
  tev_ok cur e = true -> lev_of ths e = Some te -> accept s te = Some s' ->
  J s' (cur_step cur e) (ids ++ lock_id cur e) (hp ++ hist_of [e]).
Proof.
  intros Jv Hok Hl Ha. pose proof (J_pc' _ _ _ _ Jv) as Hpc.
  destruct e as [t i|t i r|t|t|t p]; cbn [tev_ok lev_of cur_step lock_id hist_of flat_map app] in *.
  - (* B *)
    apply Nat.eqb_eq in Hok. subst i.
    destruct (nth_error (nth t ths []) (cur t)) as [o|] eqn:En; [|discriminate]. injection Hl as <-.
    unfold accept in Ha. destruct (l_pc s t) eqn:Ept; try discriminate. injection Ha as <-.
    rewrite !app_nil_r.
    assert (Fresh : ~ In (t, cur t) ids).
    { intros Hin. destruct (J_beg _ _ _ _ Jv _ Hin) as [_ L]. cbn in L. lia. }
    assert (NoR : ~ has false (t, cur t) hp) by (intros Hh; apply Fresh; apply (J_ret _ _ _ _ Jv); exact Hh).
    constructor.
    + exact (J_lin _ _ _ _ Jv).
    + intros x. cbn [set_pc l_pc]. destruct (Nat.eq_dec x t) as [->|N].
      * rewrite upd_same. unfold me. rewrite upd_same. replace (S (cur t) - 1) with (cur t) by lia. cbn.
        repeat split; [lia | symmetry; apply nth_error_nth; exact En | exact Fresh | | ].
        -- unfold has. cbn [fst snd]. rewrite pos_of_app. destruct (pos_of true t (cur t) hp 0); [discriminate|].
           cbn. rewrite !Nat.eqb_refl. discriminate.
        -- intros Hh. apply has_app_inv in Hh as [Hh|(B & _)]; [contradiction|discriminate].
      * rewrite upd_other by exact N.
        assert (M : me (upd cur t (S (cur t))) x = me cur x) by (unfold me; rewrite upd_other by exact N; reflexivity).
        specialize (Hpc x). apply (pc_ok_hist cur ids hp (mk_hev true t (cur t) 0%Z) x) in Hpc; [|intros B; discriminate].
        destruct (l_pc s x); cbn in *; rewrite ?M, ?upd_other by exact N; exact Hpc.
    + intros x Hh. apply has_app_inv in Hh as [Hh|(B & _)]; [apply (J_ret _ _ _ _ Jv); exact Hh|discriminate].
    + intros x Hin. destruct (J_beg _ _ _ _ Jv x Hin) as [Hb L]. split; [apply has_app; exact Hb|].
      pose proof (upd_mono cur t (fst x)). lia.
    + intros t' i' Hh. apply has_app_inv in Hh as [Hh|(_ & T & I)].
      * pose proof (J_fresh _ _ _ _ Jv t' i' Hh). pose proof (upd_mono cur t t'). lia.
      * cbn in T, I. subst. rewrite upd_same. lia.
    + apply (order_hist_grows s cur ids hp _ Jv).
    + exact (J_nodup _ _ _ _ Jv).
  - (* R *)
    apply Nat.eqb_eq in Hok. injection Hl as <-.
    unfold accept in Ha. destruct (l_pc s t) eqn:Ept; try discriminate. destruct (r =? r0)%Z; [|discriminate]. injection Ha as <-.
    rewrite !app_nil_r.
    assert (Me : me cur t = (t, i)) by (unfold me; f_equal; lia).
    pose proof (Hpc t) as Ht. rewrite Ept in Ht. cbn in Ht. destruct Ht as (Pos & InMe & NoR).
    constructor.
    + exact (J_lin _ _ _ _ Jv).
    + intros x. cbn [set_pc l_pc]. destruct (Nat.eq_dec x t) as [->|N].
      * rewrite upd_same. exact I.
      * rewrite upd_other by exact N. apply pc_ok_hist; [apply Hpc|].
        intros _ E. unfold me in E. cbn in E. injection E as E1 _. apply N; symmetry; exact E1.
    + intros x Hh. apply has_app_inv in Hh as [Hh|(_ & T & I)]; [apply (J_ret _ _ _ _ Jv); exact Hh|].
      cbn in T, I. destruct x as [xt xi]. cbn in T, I. subst. rewrite <- Me. exact InMe.
    + intros x Hin. destruct (J_beg _ _ _ _ Jv x Hin) as [Hb L]. split; [apply has_app; exact Hb|exact L].
    + intros t' i' Hh. apply has_app_inv in Hh as [Hh|(B & _)]; [apply (J_fresh _ _ _ _ Jv); exact Hh|discriminate].
    + apply (order_hist_grows s cur ids hp _ Jv).
    + exact (J_nodup _ _ _ _ Jv).
  - (* L *)
    injection Hl as <-. unfold accept in Ha. destruct (l_pc s t) eqn:Ept; try discriminate.
    destruct (l_mu s); [discriminate|]. injection Ha as <-. rewrite app_nil_r.
    pose proof (Hpc t) as Ht. rewrite Ept in Ht. cbn in Ht. destruct Ht as (Pos & Eo & NotIn & HasB & NoR).
    fold (me cur t).
    constructor.
    + rewrite lock_step_lin, (J_lin _ _ _ _ Jv), map_app, Eo. reflexivity.
    + intros x. destruct (Nat.eq_dec x t) as [->|N].
      * pose proof (lock_step_pc_me s t o) as K. destruct (l_pc (lock_step s t o) t); try contradiction; cbn;
          (repeat split; [exact Pos | apply in_or_app; right; left; reflexivity | exact NoR]).
      * rewrite lock_step_pc by exact N. specialize (Hpc x). destruct (l_pc s x); cbn in *; try exact I.
        -- destruct Hpc as (A & B & C & D & E). repeat split; auto. intros Hin. apply in_app_or in Hin as [Hin|[Hin|[]]]; [contradiction|].
           unfold me in Hin. injection Hin as E1 _. apply N; symmetry; exact E1.
        -- destruct Hpc as (A & B & C). repeat split; auto. apply in_or_app; left; exact B.
        -- destruct Hpc as (A & B & C). repeat split; auto. apply in_or_app; left; exact B.
        -- destruct Hpc as (A & B & C). repeat split; auto. apply in_or_app; left; exact B.
    + intros x Hh. apply in_or_app; left. apply (J_ret _ _ _ _ Jv); exact Hh.
    + intros x Hin. apply in_app_or in Hin as [Hin|[<-|[]]]; [apply (J_beg _ _ _ _ Jv); exact Hin|].
      split; [exact HasB|unfold me; cbn; lia].
    + exact (J_fresh _ _ _ _ Jv).
    + intros x y Hy Hb. apply in_app_or in Hy as [Hy|[<-|[]]].
      * apply precedes_app. apply (J_order _ _ _ _ Jv); assumption.
      * apply precedes_new. apply (J_ret _ _ _ _ Jv). eapply before_needs_ret; [exact Hb|apply pb_le_length].
    + apply nodup_snoc; [exact (J_nodup _ _ _ _ Jv)|exact NotIn].
  - (* U *)
    injection Hl as <-. rewrite !app_nil_r.
    assert (K : exists p', l_pc s' = upd (l_pc s) t p' /\ (match p' with PUnlocked _ _ => True | _ => False end) /\
                           (match l_pc s t with PIn _ _ | PFan _ _ _ => True | _ => False end) /\ l_lin s' = l_lin s).
    { unfold accept in Ha. destruct (l_pc s t) eqn:Ept; try discriminate.
      - injection Ha as <-. eexists; cbn; repeat split; exact I.
      - destruct cs; [|discriminate]. injection Ha as <-. eexists; cbn; repeat split; exact I. }
    destruct K as (p' & Epc & Hp' & Hold & Elin).
    pose proof (Hpc t) as Ht.
    assert (Ht' : 0 < cur t /\ In (me cur t) ids /\ ~ has false (me cur t) hp) by (destruct (l_pc s t); try contradiction; exact Ht).
    constructor; try (destruct Jv; assumption).
    + rewrite Elin. exact (J_lin _ _ _ _ Jv).
    + intros x. rewrite Epc. destruct (Nat.eq_dec x t) as [->|N].
      * rewrite upd_same. destruct p'; try contradiction. exact Ht'.
      * rewrite upd_other by exact N. apply Hpc.
  - (* D *)
    injection Hl as <-. rewrite !app_nil_r.
    unfold accept in Ha. destruct (l_pc s t) eqn:Ept; try discriminate. destruct cs as [|c cs]; [discriminate|].
    destruct (Nat.eqb p k); [|discriminate]. injection Ha as <-.
    pose proof (Hpc t) as Ht. rewrite Ept in Ht.
    constructor; try (destruct Jv; assumption).
    intros x. cbn [l_pc]. destruct (Nat.eq_dec x t) as [->|N].
    * rewrite upd_same. exact Ht.
    * rewrite upd_other by exact N. apply Hpc.
Qed.

Lemma hist_of_cons e r : hist_of (e :: r) = (hist_of [e] ++ hist_of r)%list.
Proof. unfold hist_of. cbn [flat_map]. rewrite app_nil_r. reflexivity. Qed.

Lemma J_replay evs : forall s cur ids hp n s', J s cur ids hp -> replay ths s cur evs n = inl s' ->
  exists cur', J s' cur' (ids ++ ids_of cur evs) (hp ++ hist_of evs).
Proof.
  induction evs as [|e evs IH]; intros s cur ids hp n s' Jv Hr.
  - cbn in Hr. injection Hr as <-. exists cur. cbn. rewrite !app_nil_r. exact Jv.
  - cbn [replay] in Hr. destruct (tev_ok cur e) eqn:Hok; [|discriminate].
    destruct (lev_of ths e) as [te|] eqn:Hl; [|discriminate].
    destruct (accept s te) as [s1|] eqn:Ha; [|discriminate].
    destruct (IH _ _ _ _ _ _ (J_step _ _ _ _ _ _ _ Jv Hok Hl Ha) Hr) as [cur' Jf].
    exists cur'. cbn [ids_of]. rewrite hist_of_cons, !app_assoc. exact Jf.
Qed.
End Replay.

Lemma J_init ths c s : J ths (linit c s) (fun _ => 0) [] [].
Proof.
  constructor; cbn; try (intros; contradiction); try reflexivity; try constructor.
Qed.

(* THE LOCK ORDER IS A LINEARIZATION of the calls of an accepted trace *)
Theorem lock_order_is_linearization ths c s evs s' :
  replay ths (linit c s) (fun _ => 0) evs 0 = inl s' ->
  let ids := ids_of (fun _ => 0) evs in let h := hist_of evs in
  l_lin s' = map (op_at ths) ids /\ NoDup ids /\
  (forall x, has false x h -> In x ids) /\ (forall x, In x ids -> has true x h) /\
  (forall x y, In y ids -> before h x y = true -> precedes x y ids).
Proof.
  intros Hr. destruct (J_replay ths evs _ _ _ _ _ _ (J_init ths c s) Hr) as [cur' Jf]. cbn [app] in Jf.
  cbn zeta. repeat split.
  - exact (J_lin _ _ _ _ _ Jf).
  - exact (J_nodup _ _ _ _ _ Jf).
  - exact (J_ret _ _ _ _ _ Jf).
  - intros x Hx. apply (J_beg _ _ _ _ _ Jf x Hx).
  - exact (J_order _ _ _ _ _ Jf).
Qed.
