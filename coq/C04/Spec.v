(* SPEC for C04, written from the property text and independently of how the SDK gets there:
   what every processor's exporter must have received is described by looking at the list of
   operations as a whole ("the last UpdateName before the first End", "for every key the value of
   the last write", "the events in call order"), not by running a machine.  All checkers are
   executable and are run on the IMPLEMENTATION's observations.  No proofs here. *)
From V Require Export C04.Model.
From Coq Require Import String.
Local Open Scope Z_scope.

(* ------------------------------------------------------------------ equality tests *)
Definition sty_eqb (a b : sty) : bool :=
  match a, b with
  | TBool, TBool | TI32, TI32 | TU32, TU32 | TI64, TI64 | TDbl, TDbl | TU64, TU64 | TU8, TU8 => true
  | _, _ => false
  end.
Fixpoint zs_eqb (a b : list Z) : bool :=
  match a, b with
  | [], [] => true
  | x :: a', y :: b' => (x =? y) && zs_eqb a' b'
  | _, _ => false
  end.
Fixpoint strs_eqb (a b : list bytes) : bool :=
  match a, b with
  | [], [] => true
  | x :: a', y :: b' => bytes_eqb x y && strs_eqb a' b'
  | _, _ => false
  end.
Definition oval_eqb (a b : oval) : bool :=
  match a, b with
  | OSc t x, OSc u y => sty_eqb t u && (x =? y)
  | OStr x, OStr y => bytes_eqb x y
  | OArr t x, OArr u y => sty_eqb t u && zs_eqb x y
  | OAStr x, OAStr y => strs_eqb x y
  | _, _ => false
  end.
Fixpoint amap_eqb (a b : amap) : bool :=
  match a, b with
  | [], [] => true
  | (k, v) :: a', (k', v') :: b' => bytes_eqb k k' && oval_eqb v v' && amap_eqb a' b'
  | _, _ => false
  end.
Definition tstamp_eqb (a b : tstamp) : bool :=
  match a, b with
  | TExact x, TExact y => x =? y
  | TNow, TNow => true
  | _, _ => false
  end.
Definition lctx_eqb (a b : lctx) : bool :=
  bytes_eqb (l_tid a) (l_tid b) && bytes_eqb (l_sid a) (l_sid b) && (l_flags a =? l_flags b) &&
  Bool.eqb (l_remote a) (l_remote b) && bytes_eqb (l_ts a) (l_ts b).
Definition event_eqb (a b : event) : bool :=
  bytes_eqb (e_name a) (e_name b) && tstamp_eqb (e_ts a) (e_ts b) && amap_eqb (e_attrs a) (e_attrs b).
Definition link_eqb (a b : link) : bool := lctx_eqb (k_ctx a) (k_ctx b) && amap_eqb (k_attrs a) (k_attrs b).
Fixpoint list_eqb {A} (eqb : A -> A -> bool) (a b : list A) : bool :=
  match a, b with
  | [], [] => true
  | x :: a', y :: b' => eqb x y && list_eqb eqb a' b'
  | _, _ => false
  end.
Definition scope_eqb (a b : scope) : bool :=
  bytes_eqb (fst (fst a)) (fst (fst b)) && bytes_eqb (snd (fst a)) (snd (fst b)) && bytes_eqb (snd a) (snd b).
Definition sdata_eqb (a b : sdata) : bool :=
  bytes_eqb (d_name a) (d_name b) && (d_kind a =? d_kind b) && tstamp_eqb (d_start a) (d_start b) &&
  tstamp_eqb (d_dur a) (d_dur b) && (d_status a =? d_status b) && bytes_eqb (d_desc a) (d_desc b) &&
  Bool.eqb (d_ctx a) (d_ctx b) && amap_eqb (d_attrs a) (d_attrs b) && list_eqb event_eqb (d_events a) (d_events b) &&
  list_eqb link_eqb (d_links a) (d_links b) && amap_eqb (d_res a) (d_res b) && scope_eqb (d_scope a) (d_scope b).

(* ------------------------------------------------------------------ "what was recorded before End" *)
Definition is_end {V} (o : op V) : bool := match o with End _ => true | _ => false end.
(* the operations in front of the first End *)
Fixpoint before_end {V} (ops : list (op V)) : list (op V) :=
  match ops with
  | [] => []
  | o :: r => if is_end o then [] else o :: before_end r
  end.
(* the end_steady_time of the End that counts: the first one; dropping the span without End ends it
   with default options *)
Definition end_time {V} (ops : list (op V)) : Z :=
  match find is_end ops with Some (End t) => t | _ => 0 end.

(* the owned copy of each value alternative *)
Definition c_string (s : bytes) : bytes :=
  match index_of x00 s with Some i => firstn i s | None => s end.
Definition owned (v : aval) : oval :=
  match v with
  | ASc t z => OSc t z
  | ACStr s => OStr (c_string s)
  | AStr s => OStr s
  | AArr t l => OArr t l
  | AAStr l => OAStr l
  end.

(* the last write of key [k] in a sequence of writes *)
Definition last_write (k : bytes) (ws : attrs aval) : option aval :=
  option_map snd (find (fun kv => bytes_eqb (fst kv) k) (rev ws)).

Fixpoint strictly_sorted (ks : list bytes) : bool :=
  match ks with
  | a :: (b :: _) as r => (match bytes_cmp a b with Lt => true | _ => false end) && strictly_sorted r
  | _ => true
  end.

(* [m] (printed sorted by key) is exactly: for every key written, the owned copy of its last write *)
Definition amap_ok (ws : attrs aval) (m : amap) : bool * bool * bool :=
  (strictly_sorted (map fst m),
   forallb (fun kv => match last_write (fst kv) ws with
                      | Some v => oval_eqb (owned v) (snd kv)
                      | None => false
                      end) m,
   forallb (fun kv => existsb (fun kv' => bytes_eqb (fst kv') (fst kv)) m) ws).
Definition amap_check (what : string) (ws : attrs aval) (m : amap) : list tok :=
  let '(canon, values, keys) := amap_ok ws m in
  check canon (what ++ ":duplicate_or_unsorted_key") ++
  check values (what ++ ":not_last_write") ++
  check keys (what ++ ":key_missing").

Definition names_of {V} (ops : list (op V)) : list bytes :=
  flat_map (fun o => match o with UpdateName n => [n] | _ => [] end) ops.
Definition statuses_of {V} (ops : list (op V)) : list (Z * bytes) :=
  flat_map (fun o => match o with Status c d => [(c, d)] | _ => [] end) ops.
Definition writes_of {V} (ops : list (op V)) : attrs V :=
  flat_map (fun o => match o with SetAttr kv => [kv] | _ => [] end) ops.
Definition events_of {V} (ops : list (op V)) : list (bytes * option Z * option (attrs V)) :=
  flat_map (fun o => match o with Event n ts a => [(n, ts, a)] | _ => [] end) ops.

Definition expect_time (given : Z) : tstamp := if given =? 0 then TNow else TExact given.

Fixpoint events_check (ex : list (bytes * option Z * option (attrs aval))) (got : list event) : list tok :=
  match ex, got with
  | [], [] => []
  | (n, ts, a) :: ex', e :: got' =>
      check (bytes_eqb n (e_name e)) "events:name_or_order" ++
      check (tstamp_eqb (match ts with Some z => TExact z | None => TNow end) (e_ts e)) "events:timestamp" ++
      amap_check "event_attrs" (match a with Some l => l | None => [] end) (e_attrs e) ++
      events_check ex' got'
  | _, _ => fail "events:count"
  end.
Fixpoint links_check (ex : list (lctx * attrs aval)) (got : list link) : list tok :=
  match ex, got with
  | [], [] => []
  | (c, a) :: ex', l :: got' =>
      check (lctx_eqb c (k_ctx l)) "links:context_or_order" ++
      amap_check "link_attrs" a (k_attrs l) ++
      links_check ex' got'
  | _, _ => fail "links:count"
  end.

(* one exported span against the case *)
Definition span_check (c : cfg aval) (s : start aval) (ops : list (op aval)) (d : sdata) : list tok :=
  let pre := before_end ops in
  check (bytes_eqb (d_name d) (last (names_of pre) (s_name s))) "name:last_update_before_end" ++
  check (d_kind d =? s_kind s) "kind:start_option" ++
  check (tstamp_eqb (d_start d) (expect_time (s_sys s))) "start_time:start_option" ++
  check (tstamp_eqb (d_dur d)
           (if (s_steady s =? 0) || (end_time ops =? 0) then TNow else TExact (end_time ops - s_steady s)))
        "duration:end_minus_start" ++
  (let st := last (statuses_of pre) (0, []) in
   check ((d_status d =? fst st) && bytes_eqb (d_desc d) (snd st)) "status:last_set_before_end") ++
  check (d_ctx d) "identity:span_context" ++
  amap_check "attrs" (s_attrs s ++ writes_of pre) (d_attrs d) ++
  events_check (events_of pre) (d_events d) ++
  links_check (s_links s) (d_links d) ++
  amap_check "resource" (c_res c) (d_res d) ++
  check (scope_eqb (d_scope d) (c_scope c)) "scope:as_configured".

(* IsRecording() is true exactly on a sampled span that has not been ended *)
Fixpoint rec_answers {V} (recording : bool) (ops : list (op V)) : list bool :=
  match ops with
  | [] => []
  | IsRec :: r => recording :: rec_answers recording r
  | End _ :: r => rec_answers false r
  | _ :: r => rec_answers recording r
  end.

Fixpoint bools_eqb (a b : list bool) : bool :=
  match a, b with
  | [], [] => true
  | x :: a', y :: b' => Bool.eqb x y && bools_eqb a' b'
  | _, _ => false
  end.

(* every processor: exactly one span (none for a span that is not sampled), ... *)
Definition count_check (sampled : bool) (got : list (list sdata)) : list tok :=
  check (forallb (fun g => Nat.leb (List.length g) (if sampled then 1 else 0)) got) "end_once:exported_more_than_once" ++
  check (forallb (fun g => Nat.leb (if sampled then 1 else 0) (List.length g)) got) "end_once:not_exported".
(* ... the same content for all of them, ... *)
Definition copies_check (got : list (list sdata)) : list tok :=
  match got with
  | [] => []
  | g :: r => check (forallb (list_eqb sdata_eqb g) r) "fanout:copies_differ"
  end.
(* ... and that content is what was recorded before End *)
Definition content_check (c : cfg aval) (s : start aval) (ops : list (op aval)) (got : list (list sdata)) : list tok :=
  match got with
  | (d :: _) :: _ => span_check c s ops d
  | _ => []
  end.

Definition spec_check (c : cfg aval) (s : start aval) (ops : list (op aval)) (obs : list bool * list (list sdata)) : list tok :=
  let (q, got) := obs in
  check (Nat.eqb (List.length got) (List.length (c_procs c))) "fanout:processor_count" ++
  count_check (c_sampled c) got ++
  copies_check got ++
  content_check c s ops got ++
  check (bools_eqb q (rec_answers (c_sampled c) ops)) "isrecording:until_end".
