(* C04 proofs, part 5: the property theorems in the form Properties_C04.v states them. *)
From V Require Import C04.Glue C04.ProofsMap C04.ProofsStep C04.ProofsMeets C04.ProofsHeap.
From Coq Require Import Lia.
Local Open Scope Z_scope.

(* last write wins per key, for every alternative: reading key k of the exported attribute map gives the
   owned copy of the value of the last SetAttribute(k) before End (StartSpan's attributes count as the
   earliest writes), None when k was never written; and the map has no duplicate keys *)
Lemma last_write_wins_lemma (c : cfg aval) (s : start aval) (ops : list (op aval)) (k : bytes) :
  let d := export (map_cfg conv c) (map_start conv s) (conv_case_ops ops) in
  alookup k (d_attrs d) = option_map owned (last_write k (s_attrs s ++ writes_of (before_end ops))) /\
  canonical (d_attrs d).
Proof.
  cbn zeta.
  destruct (export_fields (map_cfg conv c) (map_start conv s) (conv_case_ops ops)) as (_ & _ & _ & _ & _ & _ & F7 & _).
  cbn zeta in F7. rewrite F7. unfold conv_case_ops. rewrite before_end_map, writes_of_map.
  cbn [map_start s_attrs]. rewrite <- map_attrs_app. unfold amap_of. split.
  - rewrite fold_lookup by constructor. rewrite last_write_map.
    destruct (last_write k (s_attrs s ++ writes_of (before_end ops))); reflexivity.
  - apply fold_canonical. constructor.
Qed.

Lemma events_links_lemma (c : cfg oval) (s : start oval) (ops : list (op oval)) :
  d_events (export c s ops) = map event_of (events_of (before_end ops)) /\
  d_links (export c s ops) = map link_of (s_links s).
Proof. destruct (export_fields c s ops) as (_ & _ & _ & _ & _ & _ & _ & F8 & F9 & _). split; assumption. Qed.

Lemma once_lemma (c : cfg oval) (s : start oval) (ops : list (op oval)) :
  List.length (w_got (run1 c s ops)) = List.length (c_procs c) /\
  forall i, (i < List.length (c_procs c))%nat ->
    nth_error (w_got (run1 c s ops)) i = Some (if c_sampled c then [export c s ops] else []).
Proof.
  destruct (c_sampled c) eqn:Hs; [rewrite run1_sampled by exact Hs | rewrite run1_unsampled by exact Hs]; cbn [w_got];
    (split; [apply map_length|]); intros i Hi.
  - destruct (nth_error (c_procs c) i) eqn:E; [|apply nth_error_None in E; lia].
    rewrite (map_nth_error _ _ _ E). reflexivity.
  - destruct (nth_error (c_procs c) i) eqn:E; [|apply nth_error_None in E; lia].
    rewrite (map_nth_error _ _ _ E). reflexivity.
Qed.

Lemma after_end_lemma (c : cfg oval) (s : start oval) pre t rest : c_sampled c = true ->
  w_got (run1 c s (pre ++ End t :: rest)) = w_got (run1 c s (pre ++ [End t])).
Proof. intros Hs. apply end_latches; exact Hs. Qed.

Lemma is_recording_lemma (c : cfg oval) (s : start oval) ops : w_q (run1 c s ops) = rec_answers (c_sampled c) ops.
Proof. destruct (c_sampled c) eqn:Hs; [rewrite run1_sampled by exact Hs | rewrite run1_unsampled by exact Hs]; reflexivity. Qed.

(* what run_model prints is the observation of the compiled caller = of the span machine on owned copies *)
Lemma model_meets_spec_lemma (c : cfg aval) (s : start aval) (ops : list (op aval)) :
  exists w, run_compiled c s ops = Some w /\ spec_check c s ops (w_q w, w_got w) = [].
Proof.
  exists (run1 (map_cfg conv c) (map_start conv s) (conv_case_ops ops)).
  split; [apply run_compiled_correct | apply run1_meets_spec].
Qed.

Lemma run_model_never_faults (l : list tok) c : parse_case l = Some c ->
  run_model_seq l = print_obs (w_q (run1 (map_cfg conv (cs_cfg c)) (map_start conv (cs_start c)) (conv_case_ops (cs_ops c))))
                          (w_got (run1 (map_cfg conv (cs_cfg c)) (map_start conv (cs_start c)) (conv_case_ops (cs_ops c)))).
Proof. intros H. unfold run_model_seq. rewrite H, run_compiled_correct. reflexivity. Qed.
