(* C04 proofs, part 9: accepted traces of the lock-granularity machine against the race SPEC (SpecRace.v). *)
From V Require Import C04.Glue C04.ProofsMap C04.ProofsStep C04.ProofsMeets C04.ProofsLts.
From Coq Require Import Lia String.
Local Open Scope Z_scope.

Definition cut_tag : string := "srace_cut:no_consistent_cut_of_the_threads_operations".
Definition isrec_tag : string := "srace_isrecording:until_end".

Lemma forallb_const {A B} (p : B -> bool) (x : B) (l : list A) : p x = true -> forallb p (map (fun _ => x) l) = true.
Proof. intros H. induction l; [reflexivity|]. cbn [map forallb]. rewrite H, IHl. reflexivity. Qed.

(* clauses (a), (b) and the clauses about StartSpan's / the provider's data hold of what the machine hands to the
   processors, whatever the interleaving; what is left of [race_check] are clause (c)'s search and clause (d) *)
Lemma race_check_of_export (c : cfg aval) (s : start aval) ths h (lin : list (op oval)) :
  let d := export (map_cfg conv c) (map_start conv s) lin in
  race_check c s ths h (map (fun _ => [d]) (c_procs c)) =
  ((match c_procs c with
    | [] => []
    | _ => check (race_cut_exists h s (number_threads 0 ths) d) cut_tag
    end) ++ check (isrec_ok h (number_threads 0 ths)) isrec_tag)%list.
Proof.
  cbn zeta. unfold race_check. rewrite map_length, Nat.eqb_refl. cbn [check app].
  set (d := export (map_cfg conv c) (map_start conv s) lin).
  assert (C1 : forallb (fun g : list sdata => Nat.leb (List.length g) 1) (map (fun _ => [d]) (c_procs c)) = true) by (apply forallb_const; reflexivity).
  assert (C2 : forallb (fun g : list sdata => Nat.leb 1 (List.length g)) (map (fun _ => [d]) (c_procs c)) = true) by (apply forallb_const; reflexivity).
  rewrite C1, C2. cbn [check app].
  destruct (c_procs c) as [|p P]; [reflexivity|]. cbn [map].
  assert (C3 : forallb (list_eqb sdata_eqb [d]) (map (fun _ => [d]) P) = true).
  { apply forallb_const. apply (list_eqb_refl sdata_eqb sdata_eqb_refl). }
  rewrite C3. cbn [check app].
  destruct (export_fields (map_cfg conv c) (map_start conv s) lin) as (_ & F2 & F3 & _ & _ & F6 & _ & _ & F9 & F10 & F11).
  cbn zeta in *. fold d in F2, F3, F6, F9, F10, F11.
  cbn [map_start map_cfg s_kind s_sys s_links c_res c_scope] in *.
  rewrite F2, F3, F6, F9, F10, F11, Z.eqb_refl.
  assert (T1 : tstamp_eqb (now_or (s_sys s)) (expect_time (s_sys s)) = true)
    by (unfold now_or, expect_time; destruct (s_sys s =? 0); apply tstamp_eqb_refl).
  rewrite T1, links_check_ok, amap_check_fold, scope_eqb_refl. reflexivity.
Qed.

(* ------------------------------------------------------------------ what ./check replays is an accepted trace *)
From V Require Import C04.ProofsLtsOrder.

Lemma replay_is_accepted ths evs : forall s cur n s', replay ths s cur evs n = inl s' -> exists tr, accept_all s tr = Some s'.
Proof.
  induction evs as [|e evs IH]; intros s cur n s' H; cbn in H.
  - injection H as <-. exists []. reflexivity.
  - destruct (tev_ok cur e); [|discriminate]. destruct (lev_of ths e) as [te|]; [|discriminate].
    destruct (accept s te) as [s1|] eqn:Ea; [|discriminate]. destruct (IH _ _ _ _ H) as [tr Htr].
    exists (te :: tr). cbn. rewrite Ea. exact Htr.
Qed.

Definition conv_threads (ths : list (list (op aval))) : list (list (op oval)) := map (map (map_op conv)) ths.

(* EVERY ACCEPTED TRACE PASSES SpecRace's clauses (a) "End once", (b) "identical copies" and the clauses about StartSpan's and
   the provider's data - for any number of threads and processors and any interleaving; what remains of [race_check] is
   clause (c)'s search for the cut and clause (d), on the export of the calls in lock order.
   Hypotheses: the run is over (mu_ free) and some End call has returned (in ./check: the controller's). *)
Theorem accepted_trace_race_clauses_ab (c : cfg aval) (s : start aval) (ths : list (list (op aval))) evs s' x :
  c_sampled c = true ->
  replay (conv_threads ths) (linit (map_cfg conv c) (map_start conv s)) (fun _ => O) evs 0 = inl s' ->
  l_mu s' = None ->
  has false x (hist_of evs) -> is_end (op_at (conv_threads ths) x) = true ->
  l_got s' = map (fun _ => [export (map_cfg conv c) (map_start conv s) (l_lin s')]) (c_procs c) /\
  race_check c s ths (hist_of evs) (l_got s') =
  ((match c_procs c with
    | [] => []
    | _ => check (race_cut_exists (hist_of evs) s (number_threads 0 ths) (export (map_cfg conv c) (map_start conv s) (l_lin s'))) cut_tag
    end) ++ check (isrec_ok (hist_of evs) (number_threads 0 ths)) isrec_tag)%list.
Proof.
  intros Hs Hr Hmu Hx He.
  destruct (lock_order_is_linearization _ _ _ _ _ Hr) as (Hlin & _ & Hret & _).
  assert (E : existsb is_end (l_lin s') = true).
  { apply existsb_exists. exists (op_at (conv_threads ths) x). split; [|exact He].
    rewrite Hlin. apply in_map. apply Hret. exact Hx. }
  destruct (replay_is_accepted _ _ _ _ _ _ Hr) as [tr Htr].
  destruct (concurrent_export (map_cfg conv c) (map_start conv s) tr s' Hs Htr Hmu E) as (_ & _ & G & _).
  split; [exact G|]. rewrite G. apply (race_check_of_export c s ths (hist_of evs) (l_lin s')).
Qed.
