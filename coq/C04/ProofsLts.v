(* C04 proofs, part 8: the lock-granularity machine (Lts.v) refines the sequential span machine.
   For EVERY accepted trace - any interleaving, any number of threads, any number of processors - the
   state is the state of the sequential machine after the calls IN THE ORDER IN WHICH THEY TOOK mu_
   (with the deliveries of a running End completed).  All the single-threaded theorems then hold of
   concurrent executions, with "before End" meaning "took the lock before the first End did". *)
From V Require Import C04.Spec C04.Lts C04.ProofsMap C04.ProofsStep.
From Coq Require Import Lia.
Local Open Scope Z_scope.

Definition in_cs (p : pc) : bool := match p with PIn _ _ | PFan _ _ _ => true | _ => false end.

(* the children a running End has not handed out yet, and the processor the next one goes to *)
Definition pending (s : lstate) : list sdata * nat :=
  match l_mu s with
  | Some t => match l_pc s t with PFan _ cs k => (cs, k) | _ => ([], O) end
  | None => ([], O)
  end.
Definition finish (got : list (list sdata)) (p : list sdata * nat) : list (list sdata) :=
  (firstn (snd p) got ++ deliver (skipn (snd p) got) (fst p))%list.
(* the state with the deliveries of the running End (if any) completed *)
Definition complete (s : lstate) : world :=
  mk_w (l_rec s) (l_ended s) (l_steady s) (finish (l_got s) (pending s)) (l_q s).

Record Inv (w0 : world) (s : lstate) : Prop := {
  I_mutex : forall t, in_cs (l_pc s t) = true -> l_mu s = Some t;
  I_ref : complete s = run_ops w0 (l_lin s)
}.

Lemma deliver_nil got : deliver got [] = got.
Proof. destruct got; reflexivity. Qed.
Lemma finish_none got k : finish got ([], k) = got.
Proof. unfold finish. cbn [fst snd]. rewrite deliver_nil. apply firstn_skipn. Qed.

Lemma upd_same {A} (f : nat -> A) t v : upd f t v t = v.
Proof. unfold upd. rewrite Nat.eqb_refl. reflexivity. Qed.
Lemma upd_other {A} (f : nat -> A) t v x : x <> t -> upd f t v x = f x.
Proof. unfold upd. intros H. destruct (Nat.eqb_spec x t); [contradiction|reflexivity]. Qed.

Lemma firstn_S_skipn {A} k (l : list A) g rest : skipn k l = g :: rest ->
  firstn (S k) l = (firstn k l ++ [g])%list /\ skipn (S k) l = rest.
Proof.
  revert l; induction k as [|k IH]; intros l H.
  - cbn in H. subst l. split; reflexivity.
  - destruct l as [|a l]; [discriminate|]. cbn in H. destruct (IH l H) as [HA HB]. split.
    + change (firstn (S (S k)) (a :: l)) with (a :: firstn (S k) l). rewrite HA. reflexivity.
    + exact HB.
Qed.

(* handing out one child does not change the completed state *)
Lemma finish_deliver got c cs k : finish (app_nth k c got) (cs, S k) = finish got (c :: cs, k).
Proof.
  unfold finish, app_nth. cbn [fst snd]. destruct (skipn k got) as [|g rest] eqn:E.
  - assert (L : (length got <= k)%nat).
    { destruct (Nat.le_gt_cases (length got) k) as [|G]; [assumption|].
      assert (X : length (skipn k got) = (length got - k)%nat) by apply skipn_length. rewrite E in X. cbn in X. lia. }
    rewrite (skipn_all2 got) by lia. rewrite !firstn_all2 by lia. reflexivity.
  - assert (Lk : length (firstn k got) = k).
    { apply firstn_length_le. destruct (Nat.le_gt_cases k (length got)) as [|G]; [assumption|].
      rewrite skipn_all2 in E by lia. discriminate. }
    assert (S1 : skipn k (firstn k got ++ (g ++ [c]) :: rest) = (g ++ [c]) :: rest).
    { rewrite skipn_app, Lk, Nat.sub_diag. rewrite (skipn_all2 (firstn k got)) by lia. reflexivity. }
    destruct (firstn_S_skipn k _ _ _ S1) as [F1 S2]. rewrite F1, S2.
    rewrite firstn_app, Lk, Nat.sub_diag, (firstn_all2 (firstn k got)) by lia. cbn [firstn].
    rewrite app_nil_r, <- app_assoc. reflexivity.
Qed.

Lemma pending_set_pc s t p : (forall o cs k, l_pc s t <> PFan o cs k) -> (forall o cs k, p <> PFan o cs k) ->
  pending (set_pc s t p) = pending s.
Proof.
  intros H1 H2. unfold pending, set_pc. cbn [l_mu l_pc]. destruct (l_mu s) as [h|]; [|reflexivity].
  destruct (Nat.eq_dec h t) as [->|N].
  - rewrite upd_same.
    assert (Q : match l_pc s t with PFan _ cs k => (cs, k) | _ => ([], O) end = ([], O)).
    { destruct (l_pc s t) eqn:E; try reflexivity. exfalso; eapply H1; reflexivity. }
    rewrite Q. destruct p; try reflexivity. exfalso; eapply H2; reflexivity.
  - rewrite upd_other by exact N. reflexivity.
Qed.

(* a setter only touches recordable_ *)
Lemma step_setter w o : is_end o = false -> o <> IsRec ->
  step w o = mk_w (w_rec (step w o)) (w_ended w) (w_steady w) (w_got w) (w_q w).
Proof.
  intros He Hi. destruct w as [r e st g q]. destruct o; try discriminate; try contradiction;
    cbn [step on_rec w_rec w_ended w_steady w_got w_q]; destruct r; reflexivity.
Qed.

Lemma inv_step w0 s te s' : Inv w0 s -> accept s te = Some s' -> Inv w0 s'.
Proof.
  intros [Hm Hr] Ha. destruct te as [t e]. unfold accept in Ha.
  destruct e as [o| |p| |r]; destruct (l_pc s t) as [|o'|o' r'|o' cs k|o' r'] eqn:Epc; cbv beta iota in Ha; try discriminate.
  - (* LBeg *)
    injection Ha as <-. split.
    + intros x Hx. cbn [set_pc l_pc l_mu] in *. destruct (Nat.eq_dec x t) as [->|N].
      * rewrite upd_same in Hx. discriminate.
      * rewrite upd_other in Hx by exact N. apply Hm; exact Hx.
    + unfold complete. rewrite pending_set_pc; [exact Hr | intros; rewrite Epc; discriminate | intros; discriminate].
  - (* LLock *)
    destruct (l_mu s) eqn:Emu; [discriminate|]. injection Ha as <-.
    assert (P0 : pending s = ([], O)) by (unfold pending; rewrite Emu; reflexivity).
    assert (W : world_of s = run_ops w0 (l_lin s)).
    { rewrite <- Hr. unfold complete, world_of. rewrite P0, finish_none. reflexivity. }
    assert (NoCs : forall x, in_cs (l_pc s x) = false).
    { intros x. destruct (in_cs (l_pc s x)) eqn:E; [|reflexivity]. discriminate (Hm x E). }
    split.
    + intros x Hx. assert (L : l_mu (lock_step s t o') = Some t) by (unfold lock_step; destruct o'; cbn; try reflexivity; destruct (l_ended s); [reflexivity|]; destruct (l_rec s); reflexivity).
      rewrite L. f_equal. destruct (Nat.eq_dec x t) as [|N]; [symmetry; assumption|].
      assert (P : l_pc (lock_step s t o') x = l_pc s x).
      { unfold lock_step; destruct o'; cbn [l_pc]; try (apply upd_other; exact N);
          destruct (l_ended s); cbn [l_pc]; try (apply upd_other; exact N); destruct (l_rec s); cbn [l_pc]; apply upd_other; exact N. }
      rewrite P, NoCs in Hx. discriminate.
    + assert (R : run_ops w0 (l_lin (lock_step s t o')) = step (world_of s) o').
      { assert (L : l_lin (lock_step s t o') = (l_lin s ++ [o'])%list)
          by (unfold lock_step; destruct o'; cbn; try reflexivity; destruct (l_ended s); [reflexivity|]; destruct (l_rec s); reflexivity).
        rewrite L. unfold run_ops. rewrite fold_left_app. cbn [fold_left]. fold (run_ops w0 (l_lin s)). rewrite <- W. reflexivity. }
      rewrite R. unfold complete, pending, lock_step.
      destruct o' as [kv|n ts a|c d|n|e|].
      * cbn [l_mu l_pc l_rec l_ended l_steady l_got l_q]. rewrite upd_same, finish_none.
        rewrite (step_setter (world_of s) (SetAttr kv)) by (reflexivity || discriminate). reflexivity.
      * cbn [l_mu l_pc l_rec l_ended l_steady l_got l_q]. rewrite upd_same, finish_none.
        rewrite (step_setter (world_of s) (Event n ts a)) by (reflexivity || discriminate). reflexivity.
      * cbn [l_mu l_pc l_rec l_ended l_steady l_got l_q]. rewrite upd_same, finish_none.
        rewrite (step_setter (world_of s) (Status c d)) by (reflexivity || discriminate). reflexivity.
      * cbn [l_mu l_pc l_rec l_ended l_steady l_got l_q]. rewrite upd_same, finish_none.
        rewrite (step_setter (world_of s) (UpdateName n)) by (reflexivity || discriminate). reflexivity.
      * unfold world_of. cbn [step w_ended w_rec w_steady w_got w_q]. destruct (l_ended s) eqn:Ee.
        -- cbn [l_mu l_pc l_rec l_ended l_steady l_got l_q]. rewrite upd_same, finish_none. reflexivity.
        -- destruct (l_rec s) as [cs|] eqn:Er; cbn [l_mu l_pc l_rec l_ended l_steady l_got l_q]; rewrite upd_same.
           ++ unfold finish. cbn [fst snd firstn skipn app]. reflexivity.
           ++ rewrite finish_none. reflexivity.
      * cbn [l_mu l_pc l_rec l_ended l_steady l_got l_q]. rewrite upd_same, finish_none. unfold world_of. cbn [step w_rec w_ended w_steady w_got w_q].
        reflexivity.
  - (* LDeliver *)
    destruct cs as [|c cs]; [discriminate|]. destruct (Nat.eqb p k); [|discriminate]. injection Ha as <-.
    assert (Mu : l_mu s = Some t) by (apply Hm; rewrite Epc; reflexivity).
    split.
    + intros x Hx. cbn [l_mu l_pc] in *. destruct (Nat.eq_dec x t) as [->|N]; [exact Mu|].
      rewrite upd_other in Hx by exact N. apply Hm; exact Hx.
    + cbn [l_lin]. rewrite <- Hr. unfold complete, pending. cbn [l_mu l_pc l_rec l_ended l_steady l_got l_q l_lin].
      rewrite Mu, upd_same, Epc, finish_deliver. reflexivity.
  - (* LUnlock from PIn *)
    injection Ha as <-.
    assert (Mu : l_mu s = Some t) by (apply Hm; rewrite Epc; reflexivity).
    split.
    + intros x Hx. cbn [l_mu l_pc] in *. destruct (Nat.eq_dec x t) as [->|N].
      * rewrite upd_same in Hx. discriminate.
      * rewrite upd_other in Hx by exact N. specialize (Hm x Hx). rewrite Mu in Hm. injection Hm as ->. contradiction.
    + cbn [l_lin]. rewrite <- Hr. unfold complete, pending. cbn [l_mu l_pc l_rec l_ended l_steady l_got l_q l_lin]. rewrite Mu, Epc, !finish_none. reflexivity.
  - (* LUnlock from PFan [] *)
    destruct cs; [|discriminate]. injection Ha as <-.
    assert (Mu : l_mu s = Some t) by (apply Hm; rewrite Epc; reflexivity).
    split.
    + intros x Hx. cbn [l_mu l_pc] in *. destruct (Nat.eq_dec x t) as [->|N].
      * rewrite upd_same in Hx. discriminate.
      * rewrite upd_other in Hx by exact N. specialize (Hm x Hx). rewrite Mu in Hm. injection Hm as ->. contradiction.
    + cbn [l_lin]. rewrite <- Hr. unfold complete, pending. cbn [l_mu l_pc l_rec l_ended l_steady l_got l_q l_lin]. rewrite Mu, Epc, !finish_none. reflexivity.
  - (* LRet *)
    destruct (r =? r'); [|discriminate]. injection Ha as <-. split.
    + intros x Hx. cbn [set_pc l_pc l_mu] in *. destruct (Nat.eq_dec x t) as [->|N].
      * rewrite upd_same in Hx. discriminate.
      * rewrite upd_other in Hx by exact N. apply Hm; exact Hx.
    + unfold complete. rewrite pending_set_pc; [exact Hr | intros; rewrite Epc; discriminate | intros; discriminate].
Qed.

Lemma inv_init c s : Inv (start_span c s) (linit c s).
Proof.
  split; [intros t H; discriminate|].
  unfold complete, pending, linit, start_span.
  cbn [l_mu l_rec l_ended l_steady l_got l_q l_lin run_ops fold_left w_rec w_ended w_steady w_got w_q]. rewrite finish_none. reflexivity.
Qed.

Lemma inv_all w0 tr : forall s s', Inv w0 s -> accept_all s tr = Some s' -> Inv w0 s'.
Proof.
  induction tr as [|te tr IH]; intros s s' Hi Ha; cbn in Ha; [injection Ha as <-; exact Hi|].
  destruct (accept s te) as [s1|] eqn:E; [|discriminate]. eapply IH; [eapply inv_step; eauto|exact Ha].
Qed.

(* REFINEMENT: after any accepted trace, whenever mu_ is free the span and the processors are in the state
   the sequential machine reaches on the calls in lock order *)
Theorem lts_refines_sequential c s tr s' : accept_all (linit c s) tr = Some s' -> l_mu s' = None ->
  world_of s' = run_ops (start_span c s) (l_lin s').
Proof.
  intros Ha Hmu. destruct (inv_all _ tr _ _ (inv_init c s) Ha) as [_ Hr].
  rewrite <- Hr. unfold complete, pending, world_of. rewrite Hmu, finish_none. reflexivity.
Qed.

(* the sequential machine on a list that contains an End *)
Lemma run_ops_with_end c s ops : c_sampled c = true -> existsb is_end ops = true ->
  run_ops (start_span c s) ops =
  mk_w None true (s_steady s) (map (fun _ => [export c s ops]) (c_procs c)) (rec_answers true ops).
Proof.
  intros Hs He.
  assert (R := run1_sampled c s ops Hs). unfold run1 in R.
  destruct (ops_split ops) as [(F & B & N)|(t & rest & S & N & F)].
  - exfalso. apply existsb_exists in He as (o & Ho & Eo). rewrite Forall_forall in F. rewrite (F o Ho) in Eo. discriminate.
  - (* the destructor's End changes nothing any more *)
    assert (X : exists G q, run_ops (start_span c s) ops = mk_w None true (s_steady s) G q).
    { assert (E : run_ops (start_span c s) ops = run_ops (start_span c s) (before_end ops ++ End t :: rest)) by (rewrite <- S; reflexivity).
      rewrite E. unfold start_span. rewrite Hs, span_ctor_uniform. unfold run_ops. rewrite fold_left_app.
      fold (run_ops (mk_w (Some (uni (c_procs c) (ctor_sd c s))) false (s_steady s) (map (fun _ => []) (c_procs c)) []) (before_end ops)).
      rewrite (run_ops_recording _ _ _ _ F). cbn [fold_left step w_ended w_rec w_steady w_got w_q app].
      match goal with |- exists G q, fold_left step rest ?w = _ => fold (run_ops w rest) end.
      rewrite run_ops_not_recording. eauto. }
    destruct X as (G & q & X). rewrite X in R. cbn [step w_ended] in R. rewrite X. exact R.
Qed.

(* THE CONCURRENT THEOREM.  Any interleaving of any number of threads on one span with any number of
   processors, once some End has taken the lock and mu_ is free again:
   - End has taken effect exactly once: the span is ended, holds no recordable;
   - every processor has been handed exactly one span, and they are all the same: [export] of the calls in lock
     order - the constructor's recordable folded over the setters that took mu_ BEFORE the first End did, with
     that End's duration; nothing that took the lock later is in it;
   - IsRecording answered true exactly to the calls that took the lock before that End *)
Theorem concurrent_export c s tr s' : c_sampled c = true ->
  accept_all (linit c s) tr = Some s' -> l_mu s' = None -> existsb is_end (l_lin s') = true ->
  l_rec s' = None /\ l_ended s' = true /\
  l_got s' = map (fun _ => [export c s (l_lin s')]) (c_procs c) /\
  l_q s' = rec_answers true (l_lin s').
Proof.
  intros Hs Ha Hmu He. pose proof (lts_refines_sequential c s tr s' Ha Hmu) as R.
  rewrite (run_ops_with_end c s _ Hs He) in R. unfold world_of in R. injection R as R1 R2 _ R4 R5. auto.
Qed.

(* a thread that finds mu_ taken cannot take it: a setter that arrives while End is handing the span to the
   processors waits, and finds recordable_ == nullptr afterwards *)
Theorem no_lock_while_held s t t' : l_mu s = Some t' -> accept s (t, LLock) = None.
Proof. intros H. unfold accept. destruct (l_pc s t); try reflexivity. rewrite H. reflexivity. Qed.

(* ------------------------------------------------------------------ non-vacuity *)
Definition ec : cfg oval := mk_cfg [PSimple; PSimple] true (bs "l", [], []) [].
Definition es : start oval := mk_start (bs "op") 1 100 50 [] [].
Definition late := SetAttr (bs "late", OSc TI32 2).
(* thread 0 ends the span; thread 1's SetAttribute begins while End hands the span to the processors *)
Definition tr_good : list (nat * lev) :=
  [(0, LBeg (End 90)); (0, LLock); (0, LDeliver 0); (1, LBeg late); (0, LDeliver 1); (0, LUnlock); (0, LRet 0);
   (1, LLock); (1, LUnlock); (1, LRet 0)]%nat.
Definition tr_early := [(0, LBeg (End 90)); (0, LLock); (0, LDeliver 0); (1, LBeg late); (1, LLock)]%nat.
Definition tr_seeded := [(0, LBeg (End 90)); (0, LLock); (0, LUnlock); (0, LDeliver 0); (1, LBeg late); (1, LLock); (1, LUnlock); (0, LDeliver 1)]%nat.

(* accepted: the late SetAttribute can only take mu_ after End released it, and is then ignored - both processors were handed
   the span without the attribute, and the lock order is End, SetAttribute *)
Example late_setter_waits_and_is_ignored :
  option_map (fun s => (map (map d_attrs) (l_got s), l_lin s)) (accept_all (linit ec es) tr_good) = Some ([[[]]; [[]]], [End 90; late]) /\
  accept_all (linit ec es) tr_early = None.
Proof. split; vm_compute; reflexivity. Qed.
(* what the seeded change C04_e does - mu_ released before the processors are served, the late setter entering in between, so
   that the second processor's copy would differ - is not a trace of the machine *)
Example unlock_before_fanout_is_rejected : accept_all (linit ec es) tr_seeded = None.
Proof. vm_compute; reflexivity. Qed.
