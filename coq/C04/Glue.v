(* Glue between the token wire format and the C04 model/spec.  Extracted.

   case  :=  P {S|B}* | SMP <0/1> | SC x<name> x<version> x<schema> | R {; attr}* |
             ST x<name> <kind> <start_system> <start_steady> {; attr}* {| LK link {; attr}*}* {| op}*
   link  :=  x<trace id> x<span id> <flags> <remote 0/1> x<tracestate header>
   op    :=  SA attr | EV0 x<name> | EVT x<name> <ts> | EVA x<name> {; attr}* | EVTA x<name> <ts> {; attr}*
           | SS <code> x<desc> | UN x<name> | END <end_steady> | IR
   attr  :=  x<key> <type> payload      type: b i u l d U (one integer)  c s (one byte string)
                                              ab ai au al ad aU a8 (integers)  as (byte strings)
   observation := Q <0/1>* {# spans-of-processor}*          spans separated by @
   span  :=  N x<name> <kind> <start|NOW> <duration|NOW> <status> x<desc> <ctx 0/1> | A {; oattr}* {| E x<name> <ts|NOW> {; oattr}*}*
             {| L link {; oattr}*}* | R {; oattr}* | S x<name> x<version> x<schema>
   oattr :=  as attr, without type c *)
From V Require Export C04.Spec C04.SpecRace C04.Lts.
From Coq Require Import String.
Local Open Scope Z_scope.

Definition pow2 (n : Z) : Z := 2 ^ n.
Definition in_range (t : sty) (z : Z) : bool :=
  match t with
  | TBool => (0 <=? z) && (z <=? 1)
  | TI32 => (- pow2 31 <=? z) && (z <? pow2 31)
  | TU32 => (0 <=? z) && (z <? pow2 32)
  | TI64 => (- pow2 63 <=? z) && (z <? pow2 63)
  | TDbl | TU64 => (0 <=? z) && (z <? pow2 64)
  | TU8 => (0 <=? z) && (z <? 256)
  end.

Definition sc_tag (t : sty) : string :=
  match t with TBool => "b" | TI32 => "i" | TU32 => "u" | TI64 => "l" | TDbl => "d" | TU64 => "U" | TU8 => "B8" end.
Definition arr_tag (t : sty) : string :=
  match t with TBool => "ab" | TI32 => "ai" | TU32 => "au" | TI64 => "al" | TDbl => "ad" | TU64 => "aU" | TU8 => "a8" end.

Definition scalar_of_tag (t : tok) : option sty :=
  if is_tag "b" t then Some TBool else if is_tag "i" t then Some TI32 else if is_tag "u" t then Some TU32
  else if is_tag "l" t then Some TI64 else if is_tag "d" t then Some TDbl else if is_tag "U" t then Some TU64 else None.
Definition array_of_tag (t : tok) : option sty :=
  if is_tag "ab" t then Some TBool else if is_tag "ai" t then Some TI32 else if is_tag "au" t then Some TU32
  else if is_tag "al" t then Some TI64 else if is_tag "ad" t then Some TDbl else if is_tag "aU" t then Some TU64
  else if is_tag "a8" t then Some TU8 else None.

Fixpoint all_ints (t : sty) (l : list tok) : option (list Z) :=
  match l with
  | [] => Some []
  | TZ z :: r => if in_range t z then option_map (cons z) (all_ints t r) else None
  | _ => None
  end.
Fixpoint all_bytes_toks (l : list tok) : option (list bytes) :=
  match l with
  | [] => Some []
  | TB b :: r => option_map (cons b) (all_bytes_toks r)
  | _ => None
  end.

(* a value as the caller gives it *)
Definition parse_aval (l : list tok) : option aval :=
  match l with
  | ty :: payload =>
      match scalar_of_tag ty with
      | Some t => match payload with [TZ z] => if in_range t z then Some (ASc t z) else None | _ => None end
      | None =>
          match array_of_tag ty with
          | Some t => option_map (AArr t) (all_ints t payload)
          | None =>
              if is_tag "c" ty then match payload with [TB s] => Some (ACStr s) | _ => None end
              else if is_tag "s" ty then match payload with [TB s] => Some (AStr s) | _ => None end
              else if is_tag "as" ty then option_map AAStr (all_bytes_toks payload)
              else None
          end
      end
  | [] => None
  end.
Definition parse_attr (l : list tok) : option (bytes * aval) :=
  match l with
  | TB k :: r => option_map (pair k) (parse_aval r)
  | _ => None
  end.
Fixpoint parse_all {A} (f : list tok -> option A) (l : list (list tok)) : option (list A) :=
  match l with
  | [] => Some []
  | x :: r => match f x, parse_all f r with
              | Some a, Some r' => Some (a :: r')
              | _, _ => None
              end
  end.

(* "head {; attr}*" -> (head tokens, attrs) *)
Definition with_attrs (sec : list tok) : option (list tok * attrs aval) :=
  match split_toks ";" sec with
  | hd :: parts => option_map (pair hd) (parse_all parse_attr parts)
  | [] => None
  end.

Definition parse_lctx (l : list tok) : option lctx :=
  match l with
  | [TB tid; TB sid; TZ f; TZ r; TB ts] =>
      if Nat.eqb (List.length tid) 16 && Nat.eqb (List.length sid) 8 && (0 <=? f) && (f <? 256) && (0 <=? r) && (r <=? 1)
      then Some (mk_lctx tid sid f (r =? 1) ts) else None
  | _ => None
  end.

Definition ts_ok (z : Z) : bool := (0 <=? z) && (z <? pow2 62).

Definition parse_op (sec : list tok) : option (op aval) :=
  match with_attrs sec with
  | Some (t :: hd, a) =>
      if is_tag "SA" t then match parse_attr hd, a with Some kv, [] => Some (SetAttr kv) | _, _ => None end
      else if is_tag "EV0" t then match hd, a with [TB n], [] => Some (Event n None None) | _, _ => None end
      else if is_tag "EVT" t then match hd, a with [TB n; TZ z], [] => if ts_ok z then Some (Event n (Some z) None) else None | _, _ => None end
      else if is_tag "EVA" t then match hd with [TB n] => Some (Event n None (Some a)) | _ => None end
      else if is_tag "EVTA" t then match hd with [TB n; TZ z] => if ts_ok z then Some (Event n (Some z) (Some a)) else None | _ => None end
      else if is_tag "SS" t then match hd, a with [TZ c; TB d], [] => if (0 <=? c) && (c <=? 2) then Some (Status c d) else None | _, _ => None end
      else if is_tag "UN" t then match hd, a with [TB n], [] => Some (UpdateName n) | _, _ => None end
      else if is_tag "END" t then match hd, a with [TZ z], [] => if ts_ok z then Some (End z) else None | _, _ => None end
      else if is_tag "IR" t then match hd, a with [], [] => Some IsRec | _, _ => None end
      else None
  | _ => None
  end.

Fixpoint parse_kinds (l : list tok) : option (list pkind) :=
  match l with
  | [] => Some []
  | t :: r => if is_tag "S" t then option_map (cons PSimple) (parse_kinds r)
              else if is_tag "B" t then option_map (cons PBatch) (parse_kinds r)
              else None
  end.

Definition is_link_sec (sec : list tok) : bool := match sec with t :: _ => is_tag "LK" t | [] => false end.
Definition parse_link (sec : list tok) : option (lctx * attrs aval) :=
  match with_attrs sec with
  | Some (_ :: hd, a) => option_map (fun c => (c, a)) (parse_lctx hd)
  | _ => None
  end.
(* the LK sections directly behind ST *)
Fixpoint leading_links (secs : list (list tok)) : list (list tok) * list (list tok) :=
  match secs with
  | s :: r => if is_link_sec s then let (a, b) := leading_links r in (s :: a, b) else ([], secs)
  | [] => ([], [])
  end.

Record case := mk_case { cs_cfg : cfg aval; cs_start : start aval; cs_ops : list (op aval) }.

(* ---- operations issued by several threads on the one span (before anybody ends it):
        PAR | TH | op.. | TH | op.. | SEQ | op..       1..4 threads, then the sequential rest
   Thread i (0-based) may only SetAttribute keys and AddEvent names whose first byte is the digit i;
   thread 0 may also UpdateName / SetStatus / IsRecording; no thread Ends the span.  Under these conditions
   every interleaving gives the same export up to the order between events of different threads (ProofsPar),
   the driver prints the events of the threaded part grouped by that first byte, and the case stands for
   the sequentialisation thread 0, thread 1, ... *)
Definition is_marker (m : string) (sec : list tok) : bool := match sec with [t] => is_tag m t | _ => false end.
Fixpoint split_secs_aux (m : string) (l : list (list tok)) (cur : list (list tok)) : list (list (list tok)) :=
  match l with
  | [] => [rev cur]
  | x :: r => if is_marker m x then rev cur :: split_secs_aux m r [] else split_secs_aux m r (x :: cur)
  end.
Definition split_secs (m : string) (l : list (list tok)) : list (list (list tok)) := split_secs_aux m l [].

Definition digit (i : nat) : byte := n2b (48 + N.of_nat i).
Definition owned_by (i : nat) (s : bytes) : bool := match s with b :: _ => Byte.eqb b (digit i) | [] => false end.
Definition thread_op_ok {V} (i : nat) (o : op V) : bool :=
  match o with
  | SetAttr kv => owned_by i (fst kv)
  | Event n _ _ => owned_by i n
  | Status _ _ | UpdateName _ | IsRec => Nat.eqb i 0
  | End _ => false
  end.
Fixpoint threads_ok {V} (i : nat) (ths : list (list (op V))) : bool :=
  match ths with
  | [] => true
  | t :: r => forallb (thread_op_ok i) t && threads_ok (S i) r
  end.

Fixpoint parse_groups (gs : list (list (list tok))) : option (list (list (op aval))) :=
  match gs with
  | [] => Some []
  | g :: r => match parse_all parse_op g, parse_groups r with
              | Some t, Some r' => Some (t :: r')
              | _, _ => None
              end
  end.
Definition parse_ops (opsecs : list (list tok)) : option (list (op aval)) :=
  match opsecs with
  | par :: r =>
      if is_marker "PAR" par then
        match split_secs "SEQ" r with
        | [thr; tail] =>
            match split_secs "TH" thr with
            | [] :: groups =>
                match parse_groups groups, parse_all parse_op tail with
                | Some ths, Some tl =>
                    if Nat.leb 1 (List.length ths) && Nat.leb (List.length ths) 4 && threads_ok 0 ths
                    then Some (List.concat ths ++ tl)%list else None
                | _, _ => None
                end
            | _ => None
            end
        | _ => None
        end
      else parse_all parse_op opsecs
  | [] => Some []
  end.

Definition parse_case (l : list tok) : option case :=
  match split_toks "|" l with
  | (tp :: kinds) :: [tsmp; TZ smp] :: [tsc; TB sn; TB sv; TB ss] :: res :: st :: rest =>
      if is_tag "P" tp && is_tag "SMP" tsmp && is_tag "SC" tsc && (0 <=? smp) && (smp <=? 1) && Nat.leb (List.length kinds) 4 then
        match parse_kinds kinds, with_attrs res, with_attrs st with
        | Some ks, Some ([tr], ra), Some ([tst; TB name; TZ kind; TZ sys; TZ steady], sa) =>
            if is_tag "R" tr && is_tag "ST" tst && (0 <=? kind) && (kind <=? 4) && ts_ok sys && ts_ok steady then
              let (lks, opsecs) := leading_links rest in
              match parse_all parse_link lks, parse_ops opsecs with
              | Some links, Some ops =>
                  Some (mk_case (mk_cfg ks (smp =? 1) (sn, sv, ss) ra) (mk_start name kind sys steady sa links) ops)
              | _, _ => None
              end
            else None
        | _, _, _ => None
        end
      else None
  | _ => None
  end.

(* ------------------------------------------------------------------ printing an observation *)
Definition print_oval (v : oval) : list tok :=
  match v with
  | OSc t z => [tag (sc_tag t); TZ z]
  | OStr s => [tag "s"; TB s]
  | OArr t l => tag (arr_tag t) :: map TZ l
  | OAStr l => tag "as" :: map TB l
  end.
Definition print_amap (m : amap) : list tok :=
  flat_map (fun kv => tag ";" :: TB (fst kv) :: print_oval (snd kv)) m.
Definition print_time (t : tstamp) : tok := match t with TExact z => TZ z | TNow => tag "NOW" end.
Definition print_lctx (c : lctx) : list tok :=
  [TB (l_tid c); TB (l_sid c); TZ (l_flags c); tbool (l_remote c); TB (l_ts c)].
Definition print_span (d : sdata) : list tok :=
  [tag "N"; TB (d_name d); TZ (d_kind d); print_time (d_start d); print_time (d_dur d); TZ (d_status d); TB (d_desc d); tbool (d_ctx d)] ++
  [tag "|"; tag "A"] ++ print_amap (d_attrs d) ++
  flat_map (fun e => [tag "|"; tag "E"; TB (e_name e); print_time (e_ts e)] ++ print_amap (e_attrs e)) (d_events d) ++
  flat_map (fun l => [tag "|"; tag "L"] ++ print_lctx (k_ctx l) ++ print_amap (k_attrs l)) (d_links d) ++
  [tag "|"; tag "R"] ++ print_amap (d_res d) ++
  [tag "|"; tag "S"; TB (fst (fst (d_scope d))); TB (snd (fst (d_scope d))); TB (snd (d_scope d))].
Fixpoint print_spans (l : list sdata) : list tok :=
  match l with
  | [] => []
  | [d] => print_span d
  | d :: r => print_span d ++ [tag "@"] ++ print_spans r
  end.
Definition print_obs (q : list bool) (got : list (list sdata)) : list tok :=
  tag "Q" :: map tbool q ++ flat_map (fun g => tag "#" :: print_spans g) got.
Definition print_world (w : option world) : list tok :=
  match w with
  | Some w => print_obs (w_q w) (w_got w)
  | None => [tag "FAULT"]               (* the model of the driver read dead caller memory: cannot happen (Proofs) *)
  end.

(* ------------------------------------------------------------------ parsing an observation *)
Fixpoint all_ints_any (l : list tok) : option (list Z) :=
  match l with
  | [] => Some []
  | TZ z :: r => option_map (cons z) (all_ints_any r)
  | _ => None
  end.
(* the scalar tags of an observation: those of a case plus B8 (a single uint8_t - not an alternative of
   OwnedAttributeValue; never printed by the C++ driver, accepted so that printing and parsing are inverse
   on every value of the type) *)
Definition oscalar_of_tag (t : tok) : option sty :=
  match scalar_of_tag t with
  | Some x => Some x
  | None => if is_tag "B8" t then Some TU8 else None
  end.
Definition parse_oval (l : list tok) : option oval :=
  match l with
  | ty :: payload =>
      match oscalar_of_tag ty with
      | Some t => match payload with [TZ z] => Some (OSc t z) | _ => None end
      | None =>
          match array_of_tag ty with
          | Some t => option_map (OArr t) (all_ints_any payload)
          | None =>
              if is_tag "s" ty then match payload with [TB s] => Some (OStr s) | _ => None end
              else if is_tag "as" ty then option_map OAStr (all_bytes_toks payload)
              else None
          end
      end
  | [] => None
  end.
Definition parse_oattr (l : list tok) : option (bytes * oval) :=
  match l with
  | TB k :: r => option_map (pair k) (parse_oval r)
  | _ => None
  end.
Definition with_oattrs (sec : list tok) : option (list tok * amap) :=
  match split_toks ";" sec with
  | hd :: parts => option_map (pair hd) (parse_all parse_oattr parts)
  | [] => None
  end.
Definition parse_time (t : tok) : option tstamp :=
  match t with
  | TZ z => Some (TExact z)
  | _ => if is_tag "NOW" t then Some TNow else None
  end.
Definition parse_olctx (l : list tok) : option lctx :=
  match l with
  | [TB tid; TB sid; TZ f; TZ r; TB ts] => Some (mk_lctx tid sid f (r =? 1) ts)
  | _ => None
  end.

Definition sec_is (s : string) (sec : list tok) : bool := match sec with t :: _ => is_tag s t | [] => false end.
Fixpoint leading (s : string) (secs : list (list tok)) : list (list tok) * list (list tok) :=
  match secs with
  | x :: r => if sec_is s x then let (a, b) := leading s r in (x :: a, b) else ([], secs)
  | [] => ([], [])
  end.

Definition parse_event (sec : list tok) : option event :=
  match with_oattrs sec with
  | Some ([_; TB n; t], a) => option_map (fun ts => mk_event n ts a) (parse_time t)
  | _ => None
  end.
Definition parse_olink (sec : list tok) : option link :=
  match with_oattrs sec with
  | Some (_ :: hd, a) => option_map (fun c => mk_link c a) (parse_olctx hd)
  | _ => None
  end.

Definition parse_span (l : list tok) : option sdata :=
  match split_toks "|" l with
  | [tn; TB name; TZ kind; st; du; TZ status; TB desc; TZ ctx] :: asec :: rest =>
      let (evs, rest1) := leading "E" rest in
      let (lks, rest2) := leading "L" rest1 in
      match parse_time st, parse_time du, with_oattrs asec, parse_all parse_event evs, parse_all parse_olink lks, rest2 with
      | Some st', Some du', Some ([ta], am), Some evs', Some lks', [rsec; [tsc; TB sn; TB sv; TB ss]] =>
          match with_oattrs rsec with
          | Some ([tr], rm) =>
              if is_tag "N" tn && is_tag "A" ta && is_tag "R" tr && is_tag "S" tsc
              then Some (mk_sd name kind st' du' status desc (ctx =? 1) am evs' lks' rm (sn, sv, ss))
              else None
          | _ => None
          end
      | _, _, _, _, _, _ => None
      end
  | _ => None
  end.

Definition parse_proc (l : list tok) : option (list sdata) :=
  match l with
  | [] => Some []
  | _ => parse_all parse_span (split_toks "@" l)
  end.

Fixpoint parse_bools (l : list tok) : option (list bool) :=
  match l with
  | [] => Some []
  | TZ z :: r => option_map (cons (z =? 1)) (parse_bools r)
  | _ => None
  end.

Definition parse_obs (l : list tok) : option (list bool * list (list sdata)) :=
  match split_toks "#" l with
  | (tq :: qs) :: procs =>
      if is_tag "Q" tq then
        match parse_bools qs, parse_all parse_proc procs with
        | Some q, Some got => Some (q, got)
        | _, _ => None
        end
      else None
  | _ => None
  end.

(* ------------------------------------------------------------------ entry points *)
Definition run_model_seq (l : list tok) : list tok :=
  match parse_case l with
  | Some c => print_world (run_compiled (cs_cfg c) (cs_start c) (cs_ops c))
  | None => bad_case
  end.

Definition is_mutator {V} (o : op V) : bool := match o with End _ | IsRec => false | _ => true end.
Fixpoint after_end {V} (ops : list (op V)) : list (op V) :=
  match ops with
  | [] => []
  | o :: r => if is_end o then r else after_end r
  end.
Definition nat_tag (n : nat) : string :=
  match n with O => "0" | 1%nat => "1" | 2%nat => "2" | 3%nat => "3" | _ => "4" end.

(* branch tag: sampled?, number of processors, how the span was ended, whether anything came after End *)
Definition run_tag_seq (l : list tok) : list tok :=
  match parse_case l with
  | Some c =>
      let ops := cs_ops c in
      if negb (c_sampled (cs_cfg c)) then [tag "unsampled"]
      else [tag ("p" ++ nat_tag (List.length (c_procs (cs_cfg c))) ++
                 (if existsb is_end ops then
                    (if existsb is_end (after_end ops) then "_end2" else "_end") ++
                    (if existsb is_mutator (after_end ops) then "_late" else "")
                  else "_dtor") ++
                 (if existsb (is_tag "PAR") l then "_par" else ""))]
  | None => bad_case
  end.

Definition run_spec_seq (l obs : list tok) : list tok :=
  match parse_case l with
  | Some c => match parse_obs obs with
              | Some o => spec_check (cs_cfg c) (cs_start c) (cs_ops c) o
              | None => fail "obs:unparsable"
              end
  | None => bad_case
  end.

(* ================================================================== SRACE: one span, several threads, End racing
   case  :=  SRACE {S|Q}+ | ST x<name> <kind> <start_system> <start_steady> {; attr}* | T {| op}* | T {| op}* ... | s <tid> <flag>...
             (no implicit time stamps: start times and End times non-zero, events EVT / EVTA; event names pairwise distinct;
              1..4 threads; the controller ends the span with END 7777 after the threads have finished)
   observation (runner TRACE_MODE):  <observation of the exporters as above> || H {<K> <tid> <a> <b>}*
       K = B / R: call <a> of the thread begins / returns (b: the answer of IsRecording);  L / U: the thread takes / releases
       Span::mu_;  D: processor <a> is handed its child (inside End)
   [run_model] replays the logged trace through the acceptor of the lock-granularity machine (Lts.v) and prints what that machine
   says every processor was handed; the SPEC (SpecRace.v) is evaluated on the B / R history and the exports. *)
Fixpoint cut_bars (l : list tok) : list tok * list tok :=
  match l with
  | [] => ([], [])
  | t :: r => if is_tag "||" t then ([], r) else let '(a, b) := cut_bars r in (t :: a, b)
  end.

Record rcase := mk_rcase { rc_cfg : cfg aval; rc_start : start aval; rc_threads : list (list (op aval)) }.

Definition final_end : Z := 7777.
Definition race_op_ok (o : op aval) : bool :=
  match o with
  | Event _ None _ => false
  | End t => negb (t =? 0)
  | _ => true
  end.
Fixpoint race_groups (gs : list (list (list tok))) : option (list (list (op aval))) :=
  match gs with
  | [] => Some []
  | g :: r => match parse_all parse_op g, race_groups r with
              | Some t, Some r' => if forallb race_op_ok t then Some (t :: r') else None
              | _, _ => None
              end
  end.
Fixpoint parse_rkinds (l : list tok) : option (list pkind) :=
  match l with
  | [] => Some []
  | t :: r => if is_tag "S" t then option_map (cons PSimple) (parse_rkinds r)
              else if is_tag "Q" t then option_map (cons PBatch) (parse_rkinds r)
              else None
  end.
Definition is_sched_sec (sec : list tok) : bool := match sec with t :: _ => is_tag "s" t | [] => false end.

Definition parse_rcase (l : list tok) : option rcase :=
  match split_toks "|" l with
  | (tr :: kinds) :: st :: rest =>
      if is_tag "SRACE" tr && Nat.leb 1 (List.length kinds) && Nat.leb (List.length kinds) 4 then
        match parse_rkinds kinds, with_attrs st with
        | Some ks, Some ([tst; TB name; TZ kind; TZ sys; TZ steady], sa) =>
            if is_tag "ST" tst && (0 <=? kind) && (kind <=? 4) && ts_ok sys && ts_ok steady && negb (sys =? 0) && negb (steady =? 0) then
              match split_secs "T" (filter (fun s => negb (is_sched_sec s)) rest) with
              | [] :: groups =>
                  match race_groups groups with
                  | Some ths =>
                      if Nat.leb 1 (List.length ths) && Nat.leb (List.length ths) 4 &&
                         nodup_names (map (fun e => fst (fst e)) (events_of (List.concat ths)))
                      then Some (mk_rcase (mk_cfg ks true (bs "l", [], []) []) (mk_start name kind sys steady sa []) ths)
                      else None
                  | None => None
                  end
              | _ => None
              end
            else None
        | _, _ => None
        end
      else None
  | _ => None
  end.

(* the threads plus the controller as one more thread: its End, then the destructor's End() when it drops the span *)
Definition race_threads (c : rcase) : list (list (op aval)) := (rc_threads c ++ [[End final_end; End 0]])%list.

(* one logged event: B / R (begin / return of a public call), L / U (Span::mu_ taken / released), D (a processor is handed its child) *)
Inductive tev := TBeg (t i : nat) | TRet (t i : nat) (r : Z) | TLock (t : nat) | TUnlock (t : nat) | TDeliver (t p : nat).
Fixpoint parse_tevs (l : list tok) : option (list tev) :=
  match l with
  | [] => Some []
  | k :: TZ a :: TZ b :: TZ r :: rest =>
      let t := Z.to_nat a in
      match (if is_tag "B" k then Some (TBeg t (Z.to_nat b))
             else if is_tag "R" k then Some (TRet t (Z.to_nat b) r)
             else if is_tag "L" k then Some (TLock t)
             else if is_tag "U" k then Some (TUnlock t)
             else if is_tag "D" k then Some (TDeliver t (Z.to_nat b))
             else None), parse_tevs rest with
      | Some e, Some r' => Some (e :: r')
      | _, _ => None
      end
  | _ => None
  end.
Definition parse_rtrace (tr : list tok) : option (list tev) :=
  match tr with
  | th :: r => if is_tag "H" th then parse_tevs r else None
  | [] => None
  end.
(* the call history the race SPEC looks at *)
Definition hist_of (tr : list tev) : list hev :=
  flat_map (fun e => match e with
                     | TBeg t i => [mk_hev true t i 0]
                     | TRet t i r => [mk_hev false t i r]
                     | _ => []
                     end) tr.

(* the history of thread t, as the list of its events, must be B t 0, R t 0, B t 1, R t 1, ... for all its operations *)
Fixpoint expected_events (t i n : nat) : list (bool * nat * nat) :=
  match n with O => [] | S k => (true, t, i) :: (false, t, i) :: expected_events t (S i) k end.
Definition hev_key (e : hev) : bool * nat * nat := (h_begin e, h_tid e, h_idx e).
Definition key_eqb (a b : bool * nat * nat) : bool :=
  Bool.eqb (fst (fst a)) (fst (fst b)) && Nat.eqb (snd (fst a)) (snd (fst b)) && Nat.eqb (snd a) (snd b).
Fixpoint thread_hist_ok (ths : list (list (op aval))) (t : nat) (h : list hev) : bool :=
  match ths with
  | [] => true
  | ops :: r =>
      list_eqb key_eqb (map hev_key (filter (fun e => Nat.eqb (h_tid e) t) h)) (expected_events t 0 (List.length ops)) &&
      thread_hist_ok r (S t) h
  end.
Definition history_ok (c : rcase) (h : list hev) : bool :=
  thread_hist_ok (race_threads c) 0 h &&
  forallb (fun e => Nat.ltb (h_tid e) (List.length (race_threads c))) h &&
  (* the controller's End begins after everything else has returned *)
  Nat.eqb (pb h (List.length (rc_threads c), O)) (List.length h - 4).

(* ================================================================== MRACE: several spans ended concurrently on the same processors
   case  :=  MRACE {S|Q}+ | T | ST x<name> <kind> <start_system> <start_steady> {; attr}* {| op}* | T | ST ... | s <tid> <flag>...
             thread i owns span i (started by the controller before the threads run): its operations go to that span only and contain
             an END; explicit time stamps only.  Each span is used by one thread, so what every processor must receive for it is the
             export of the sequential machine on that thread's operations - whatever the interleaving of the threads.
   observation:  M <null entries handed to an exporter> <recordables that changed while an exporter held them>
                   {# slot {& slot}*}*      one # section per processor, one slot per thread: the spans received for that thread's span *)
Record mthread := mk_mthread { mt_start : start aval; mt_ops : list (op aval) }.
Record mcase := mk_mcase { mc_cfg : cfg aval; mc_threads : list mthread }.

Definition parse_mthread (g : list (list tok)) : option mthread :=
  match g with
  | st :: opsecs =>
      match with_attrs st, parse_all parse_op opsecs with
      | Some ([tst; TB name; TZ kind; TZ sys; TZ steady], sa), Some ops =>
          if is_tag "ST" tst && (0 <=? kind) && (kind <=? 4) && ts_ok sys && ts_ok steady && negb (sys =? 0) && negb (steady =? 0) &&
             forallb race_op_ok ops && existsb is_end ops
          then Some (mk_mthread (mk_start name kind sys steady sa []) ops) else None
      | _, _ => None
      end
  | [] => None
  end.
Fixpoint parse_mthreads (gs : list (list (list tok))) : option (list mthread) :=
  match gs with
  | [] => Some []
  | g :: r => match parse_mthread g, parse_mthreads r with
              | Some t, Some r' => Some (t :: r')
              | _, _ => None
              end
  end.
Definition parse_mcase (l : list tok) : option mcase :=
  match split_toks "|" l with
  | (tr :: kinds) :: rest =>
      if is_tag "MRACE" tr && Nat.leb 1 (List.length kinds) && Nat.leb (List.length kinds) 4 then
        match parse_rkinds kinds, split_secs "T" (filter (fun s => negb (is_sched_sec s)) rest) with
        | Some ks, [] :: groups =>
            match parse_mthreads groups with
            | Some ths => if Nat.leb 1 (List.length ths) && Nat.leb (List.length ths) 4
                          then Some (mk_mcase (mk_cfg ks true (bs "l", [], []) []) ths) else None
            | None => None
            end
        | _, _ => None
        end
      else None
  | _ => None
  end.

Definition mthread_world (c : cfg aval) (t : mthread) : world :=
  run1 (map_cfg conv c) (map_start conv (mt_start t)) (map (map_op conv) (mt_ops t)).
Fixpoint join_amp (l : list (list tok)) : list tok :=
  match l with
  | [] => []
  | [x] => x
  | x :: r => (x ++ tag "&" :: join_amp r)%list
  end.
Fixpoint nat_seq (n : nat) : list nat := match n with O => [] | S k => (nat_seq k ++ [k])%list end.
Definition mrace_model (mc : mcase) : list tok :=
  let ws := map (mthread_world (mc_cfg mc)) (mc_threads mc) in
  tag "M" :: TZ 0 :: TZ 0 ::
  flat_map (fun p => tag "#" :: join_amp (map (fun w => print_spans (nth p (w_got w) [])) ws)) (nat_seq (List.length (c_procs (mc_cfg mc)))).

Fixpoint slots_check (c : cfg aval) (ths : list mthread) (slots : list (list sdata)) : list tok :=
  match ths, slots with
  | [], [] => []
  | t :: ths', sl :: slots' =>
      match sl with
      | [d] => span_check c (mt_start t) (mt_ops t) d
      | [] => fail "mrace_once:span_not_exported"
      | _ => fail "mrace_once:span_exported_more_than_once"
      end ++ slots_check c ths' slots'
  | _, _ => fail "mrace:slot_count"
  end.
Definition mrace_check (mc : mcase) (nulls changed : Z) (procs : list (list (list sdata))) : list tok :=
  check (nulls =? 0) "mrace:null_entry_handed_to_exporter" ++
  check (changed =? 0) "mrace:recordable_changed_while_exporter_held_it" ++
  check (Nat.eqb (List.length procs) (List.length (c_procs (mc_cfg mc)))) "mrace_fanout:processor_count" ++
  flat_map (slots_check (mc_cfg mc) (mc_threads mc)) procs.

Definition parse_mobs (l : list tok) : option (Z * Z * list (list (list sdata))) :=
  match split_toks "#" l with
  | [tm; TZ a; TZ b] :: procs =>
      if is_tag "M" tm then
        option_map (fun ps => (a, b, ps)) (parse_all (fun sec => parse_all parse_proc (split_toks "&" sec)) procs)
      else None
  | _ => None
  end.
Definition is_mrace (l : list tok) : bool := match l with t :: _ => is_tag "MRACE" t | [] => false end.

Definition is_srace (l : list tok) : bool := match l with t :: _ => is_tag "SRACE" t | [] => false end.

(* the trace as a trace of the lock-granularity machine (Lts.v): B carries the operation the thread's script has at that index *)
Definition lev_of (ths : list (list (op oval))) (e : tev) : option (nat * lev) :=
  match e with
  | TBeg t i => option_map (fun o => (t, LBeg o)) (nth_error (nth t ths []) i)
  | TRet t _ r => Some (t, LRet r)
  | TLock t => Some (t, LLock)
  | TUnlock t => Some (t, LUnlock)
  | TDeliver t p => Some (t, LDeliver p)
  end.
(* [cur t]: how many calls thread t has begun; its B events are numbered 0, 1, 2, ... and an R event names the last one *)
Definition tev_ok (cur : nat -> nat) (e : tev) : bool :=
  match e with
  | TBeg t i => Nat.eqb i (cur t)
  | TRet t i _ => Nat.eqb (S i) (cur t)
  | _ => true
  end.
Definition cur_step (cur : nat -> nat) (e : tev) : nat -> nat :=
  match e with TBeg t i => upd cur t (S i) | _ => cur end.
Fixpoint replay (ths : list (list (op oval))) (s : lstate) (cur : nat -> nat) (tr : list tev) (n : Z) : lstate + Z :=
  match tr with
  | [] => inl s
  | e :: r => match (if tev_ok cur e then lev_of ths e else None) with
              | Some te => match accept s te with
                           | Some s' => replay ths s' (cur_step cur e) r (n + 1)
                           | None => inr n
                           end
              | None => inr n
              end
  end.
Definition race_lts_threads (c : rcase) : list (list (op oval)) := map (map (map_op conv)) (race_threads c).

(* [run_model]: the acceptor of Lts.v replays the logged trace event by event and derives what every processor was handed *)
Definition run_model (l : list tok) : list tok :=
  let '(c, tr) := cut_bars l in
  if is_srace c then
    match parse_rcase c with
    | Some rc => match parse_rtrace tr with
                 | Some evs =>
                     if history_ok rc (hist_of evs) then
                       match replay (race_lts_threads rc) (linit (map_cfg conv (rc_cfg rc)) (map_start conv (rc_start rc))) (fun _ => O) evs 0 with
                       | inl s => match l_mu s with
                                  | None => print_obs [] (l_got s)
                                  | Some _ => [tag "REJECT"; tag "mu_held_at_the_end"]
                                  end
                       | inr n => [tag "REJECT"; tag "event"; TZ n; tag "is_not_a_step_of_the_lock_granularity_machine"]
                       end
                     else [tag "REJECT"; tag "history_is_not_a_history_of_this_case"]
                 | None => [tag "REJECT"; tag "trace_unparsable"]
                 end
    | None => bad_case
    end
  else if is_mrace c then match parse_mcase c with Some mc => mrace_model mc | None => bad_case end
  else run_model_seq c.

Definition run_tag (l : list tok) : list tok :=
  let '(c, tr) := cut_bars l in
  if is_srace c then
    match parse_rcase c with
    | Some rc => [tag ("srace_p" ++ nat_tag (List.length (c_procs (rc_cfg rc))) ++ "_t" ++ nat_tag (List.length (rc_threads rc)))]
    | None => bad_case
    end
  else if is_mrace c then
    match parse_mcase c with
    | Some mc => [tag ("mrace_p" ++ nat_tag (List.length (c_procs (mc_cfg mc))) ++ "_t" ++ nat_tag (List.length (mc_threads mc)))]
    | None => bad_case
    end
  else run_tag_seq c.

Definition run_spec (l obs : list tok) : list tok :=
  let '(c, tr) := cut_bars l in
  if is_srace c then
    match parse_rcase c with
    | Some rc =>
        match parse_rtrace tr, parse_obs obs with
        | Some evs, Some (_, got) =>
            check (history_ok rc (hist_of evs)) "srace:history_malformed" ++
            race_check (rc_cfg rc) (rc_start rc) (race_threads rc) (hist_of evs) got
        | _, _ => fail "srace:run_did_not_finish"
        end
    | None => bad_case
    end
  else if is_mrace c then
    match parse_mcase c with
    | Some mc => match parse_mobs obs with
                 | Some (a, b, procs) => mrace_check mc a b procs
                 | None => fail "obs:unparsable"
                 end
    | None => bad_case
    end
  else run_spec_seq c obs.
