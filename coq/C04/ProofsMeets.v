(* C04 proofs, part 3: the span machine meets the SPEC, for every case. *)
From V Require Import C04.Spec C04.ProofsMap C04.ProofsStep.
From Coq Require Import Lia.
Local Open Scope Z_scope.

(* ------------------------------------------------------------------ converting a case commutes with reading it *)
Section Commute.
Context {A B : Type} (f : A -> B).

Lemma is_end_map (o : op A) : is_end (map_op f o) = is_end o.
Proof. destruct o; reflexivity. Qed.
Lemma before_end_map (ops : list (op A)) : before_end (map (map_op f) ops) = map (map_op f) (before_end ops).
Proof. induction ops as [|o ops IH]; [reflexivity|]. cbn. rewrite is_end_map. destruct (is_end o); [reflexivity|]. cbn. rewrite IH; reflexivity. Qed.
Lemma end_time_map (ops : list (op A)) : end_time (map (map_op f) ops) = end_time ops.
Proof.
  unfold end_time. induction ops as [|o ops IH]; [reflexivity|]. cbn. rewrite is_end_map.
  destruct (is_end o) eqn:E; [|exact IH]. destruct o; try discriminate. reflexivity.
Qed.
Lemma rec_answers_map r (ops : list (op A)) : rec_answers r (map (map_op f) ops) = rec_answers r ops.
Proof. revert r; induction ops as [|o ops IH]; intros r; [reflexivity|]. destruct o; cbn; rewrite ?IH; reflexivity. Qed.
Lemma names_of_map (ops : list (op A)) : names_of (map (map_op f) ops) = names_of ops.
Proof. unfold names_of. induction ops as [|o ops IH]; [reflexivity|]. cbn. rewrite IH. destruct o; reflexivity. Qed.
Lemma statuses_of_map (ops : list (op A)) : statuses_of (map (map_op f) ops) = statuses_of ops.
Proof. unfold statuses_of. induction ops as [|o ops IH]; [reflexivity|]. cbn. rewrite IH. destruct o; reflexivity. Qed.
Lemma writes_of_map (ops : list (op A)) : writes_of (map (map_op f) ops) = map_attrs f (writes_of ops).
Proof.
  unfold writes_of, map_attrs. induction ops as [|o ops IH]; [reflexivity|]. cbn. rewrite IH, map_app.
  destruct o; reflexivity.
Qed.
Definition map_ev (e : bytes * option Z * option (attrs A)) : bytes * option Z * option (attrs B) :=
  (fst e, option_map (map_attrs f) (snd e)).
Lemma events_of_map (ops : list (op A)) : events_of (map (map_op f) ops) = map map_ev (events_of ops).
Proof.
  unfold events_of. induction ops as [|o ops IH]; [reflexivity|]. cbn. rewrite IH, map_app.
  destruct o; reflexivity.
Qed.
Lemma map_attrs_app (a b : attrs A) : map_attrs f (a ++ b) = map_attrs f a ++ map_attrs f b.
Proof. apply map_app. Qed.
End Commute.

(* ------------------------------------------------------------------ the clauses, one by one *)
Lemma events_check_ok (ex : list (bytes * option Z * option (attrs aval))) :
  events_check ex (map event_of (map (map_ev conv) ex)) = [].
Proof.
  induction ex as [|[[n ts] a] ex IH]; [reflexivity|].
  cbn [map events_check event_of map_ev fst snd e_name e_ts e_attrs].
  rewrite bytes_eqb_refl. cbn [check app].
  assert (T : tstamp_eqb (match ts with Some z => TExact z | None => TNow end) (ev_time ts) = true)
    by (destruct ts; cbn; [apply Z.eqb_refl|reflexivity]).
  rewrite T. cbn [check app].
  assert (M : amap_check "event_attrs" (match a with Some l => l | None => [] end)
                         (amap_of (ev_attrs (option_map (map_attrs conv) a))) = []).
  { destruct a as [l|]; cbn [option_map ev_attrs]; [apply amap_check_fold|]. apply (amap_check_fold "event_attrs" []). }
  rewrite M. exact IH.
Qed.

Lemma links_check_ok (ex : list (lctx * attrs aval)) :
  links_check ex (map link_of (map (fun l => (fst l, map_attrs conv (snd l))) ex)) = [].
Proof.
  induction ex as [|[c a] ex IH]; [reflexivity|].
  cbn [map links_check link_of fst snd k_ctx k_attrs].
  rewrite lctx_eqb_refl, amap_check_fold. exact IH.
Qed.

Definition conv_case_ops (ops : list (op aval)) : list (op oval) := map (map_op conv) ops.

(* the content clause: the export of the machine is what the SPEC reads off the operation list *)
Theorem span_check_export c s ops :
  span_check c s ops (export (map_cfg conv c) (map_start conv s) (conv_case_ops ops)) = [].
Proof.
  unfold span_check, conv_case_ops.
  destruct (export_fields (map_cfg conv c) (map_start conv s) (map (map_op conv) ops))
    as (F1 & F2 & F3 & F4 & F5 & F6 & F7 & F8 & F9 & F10 & F11).
  cbn zeta in *.
  rewrite before_end_map in F1, F5, F7, F8. rewrite end_time_map in F4.
  rewrite names_of_map in F1. rewrite statuses_of_map in F5. rewrite writes_of_map in F7. rewrite events_of_map in F8.
  cbn [map_start map_cfg s_name s_kind s_sys s_steady s_attrs s_links c_res c_scope] in *.
  rewrite F1, F2, F3, F4, F6, F7, F8, F9, F10, F11.
  rewrite bytes_eqb_refl, Z.eqb_refl. cbn [check app].
  assert (T1 : tstamp_eqb (now_or (s_sys s)) (expect_time (s_sys s)) = true)
    by (unfold now_or, expect_time; destruct (s_sys s =? 0); apply tstamp_eqb_refl).
  rewrite T1. cbn [check app].
  assert (T2 : tstamp_eqb (duration (s_steady s) (end_time ops))
                 (if (s_steady s =? 0) || (end_time ops =? 0) then TNow else TExact (end_time ops - s_steady s)) = true)
    by (unfold duration; destruct ((s_steady s =? 0) || (end_time ops =? 0)); apply tstamp_eqb_refl).
  rewrite T2. cbn [check app].
  assert (S : (d_status (export (map_cfg conv c) (map_start conv s) (map (map_op conv) ops)) =? fst (last (statuses_of (before_end ops)) (0, []))) &&
              bytes_eqb (d_desc (export (map_cfg conv c) (map_start conv s) (map (map_op conv) ops))) (snd (last (statuses_of (before_end ops)) (0, []))) = true).
  { rewrite <- F5. cbn [fst snd]. rewrite Z.eqb_refl, bytes_eqb_refl. reflexivity. }
  rewrite S. cbn [check app].
  rewrite <- map_attrs_app, amap_check_fold, events_check_ok, links_check_ok, amap_check_fold, scope_eqb_refl.
  reflexivity.
Qed.

Lemma count_check_one {A} (P : list A) d : count_check true (map (fun _ => [d]) P) = [].
Proof.
  unfold count_check.
  assert (forallb (fun g : list sdata => Nat.leb (List.length g) 1) (map (fun _ => [d]) P) = true) as -> by (induction P; [reflexivity|exact IHP]).
  assert (forallb (fun g : list sdata => Nat.leb 1 (List.length g)) (map (fun _ => [d]) P) = true) as -> by (induction P; [reflexivity|exact IHP]).
  reflexivity.
Qed.
Lemma count_check_none {A} (P : list A) : count_check false (map (fun _ => []) P) = [].
Proof.
  unfold count_check.
  assert (forallb (fun g : list sdata => Nat.leb (List.length g) 0) (map (fun _ => []) P) = true) as -> by (induction P; [reflexivity|exact IHP]).
  assert (forallb (fun g : list sdata => Nat.leb 0 (List.length g)) (map (fun _ => []) P) = true) as -> by (induction P; [reflexivity|exact IHP]).
  reflexivity.
Qed.
Lemma copies_check_uniform {A} (P : list A) (g : list sdata) : copies_check (map (fun _ => g) P) = [].
Proof.
  destruct P as [|p P]; [reflexivity|]. cbn [map copies_check].
  assert (forallb (list_eqb sdata_eqb g) (map (fun _ => g) P) = true) as ->; [|reflexivity].
  induction P; [reflexivity|]. cbn. rewrite (list_eqb_refl sdata_eqb sdata_eqb_refl). exact IHP.
Qed.

(* MODEL MEETS SPEC (level 1): for every configuration, start and operation sequence, the observation
   of the span machine passes every clause of the SPEC *)
Theorem run1_meets_spec c s ops :
  let w := run1 (map_cfg conv c) (map_start conv s) (conv_case_ops ops) in
  spec_check c s ops (w_q w, w_got w) = [].
Proof.
  cbn zeta. unfold spec_check.
  destruct (c_sampled c) eqn:Hs.
  - rewrite run1_sampled by exact Hs. cbn [w_q w_got map_cfg c_procs].
    rewrite map_length, Nat.eqb_refl, count_check_one, copies_check_uniform. cbn [check app].
    unfold conv_case_ops. rewrite rec_answers_map, bools_eqb_refl. cbn [check]. rewrite app_nil_r.
    unfold content_check. destruct (c_procs c) as [|p P]; [reflexivity|]. cbn [map].
    apply span_check_export.
  - rewrite run1_unsampled by exact Hs. cbn [w_q w_got map_cfg c_procs].
    rewrite map_length, Nat.eqb_refl, count_check_none, copies_check_uniform. cbn [check app].
    unfold conv_case_ops. rewrite rec_answers_map, bools_eqb_refl. cbn [check]. rewrite app_nil_r.
    unfold content_check. destruct (c_procs c) as [|p P]; reflexivity.
Qed.

(* the SPEC is not vacuous: it rejects an export that kept the FIRST write of a key, one that lost the
   last event, one exported twice, and one whose second processor got an empty recordable *)
Example spec_rejects :
  let c := mk_cfg [PSimple; PSimple] true (bs "l", [], []) [] in
  let s := mk_start (bs "n") 0 0 0 [] [] in
  let ops := [SetAttr (bs "a", ASc TI32 1); SetAttr (bs "a", ASc TI32 2); Event (bs "e") (Some 5) None; End 0] in
  let good := export (map_cfg conv c) (map_start conv s) (conv_case_ops ops) in
  let first_wins := sd_set_attr (bs "a", OSc TI32 1) good in
  let no_event := mk_sd (d_name good) 0 TNow TNow 0 [] true (d_attrs good) [] [] [] (d_scope good) in
  spec_check c s ops ([], [[good]; [good]]) = [] /\
  spec_check c s ops ([], [[first_wins]; [first_wins]]) = [tag "attrs:not_last_write"] /\
  spec_check c s ops ([], [[no_event]; [no_event]]) = [tag "events:count"] /\
  spec_check c s ops ([], [[good; good]; [good; good]]) = [tag "end_once:exported_more_than_once"] /\
  spec_check c s ops ([], [[good]; [empty_sd]]) = [tag "fanout:copies_differ"] /\
  spec_check c s ops ([], [[good]]) = [tag "fanout:processor_count"].
Proof. cbn zeta. repeat split; vm_compute; reflexivity. Qed.
