(* MODEL for C04 at lock granularity: any number of threads operating on ONE span whose recordable fans
   out to n processors.  The events are what the scheduler shim logs for the unchanged code:

     LBeg o     a public call (SetAttribute / AddEvent / SetStatus / UpdateName / End / IsRecording) begins
     LLock      its lock_guard takes Span::mu_ (possible only while nobody holds it).  The body of a
                setter - the null check of recordable_ and the fan-out to the MultiRecordable's children -
                has no scheduling point, so it is done with the lock step; so are End's "has_ended_" latch,
                the duration, and the release of recordable_ (the first statement of
                MultiSpanProcessor::OnEnd, to which Span::recordable_ itself is passed by reference)
     LDeliver p End only: MultiSpanProcessor::OnEnd hands child p to processor p - mu_ is STILL held, but
                the processors' OnEnd / Export contain scheduling points, so other threads run in between
     LUnlock    the lock_guard releases mu_
     LRet r     the call returns (r: the answer of IsRecording, 0 otherwise)

   [accept] is the acceptor of the traces of this machine: one program counter per thread, any
   interleaving.  Definitions only; the theorems are in ProofsLts*.v. *)
From V Require Export C04.Model.
Local Open Scope Z_scope.

Inductive lev :=
| LBeg (o : op oval)
| LLock
| LDeliver (p : nat)
| LUnlock
| LRet (r : Z).

Inductive pc :=
| PIdle
| PCalled (o : op oval)
| PIn (o : op oval) (r : Z)                          (* holds mu_, body done, r = what the call will return *)
| PFan (o : op oval) (cs : list sdata) (k : nat)     (* End, holds mu_: children still to hand out, the next one goes to processor k *)
| PUnlocked (o : op oval) (r : Z).

Record lstate := mk_l {
  l_mu : option nat;              (* the holder of Span::mu_ *)
  l_rec : option (list sdata);    (* Span::recordable_ *)
  l_ended : bool;                 (* Span::has_ended_ *)
  l_steady : Z;
  l_got : list (list sdata);      (* what processor i has been handed so far *)
  l_pc : nat -> pc;
  l_lin : list (op oval);         (* ghost: the calls in the order in which they took mu_ *)
  l_q : list bool                 (* ghost: the answers of IsRecording in that order *)
}.

Definition upd {A} (f : nat -> A) (t : nat) (v : A) : nat -> A := fun x => if Nat.eqb x t then v else f x.

(* got[k] := got[k] ++ [c]   (nothing if there is no processor k) *)
Definition app_nth (k : nat) (c : sdata) (got : list (list sdata)) : list (list sdata) :=
  match skipn k got with
  | g :: rest => firstn k got ++ (g ++ [c]) :: rest
  | [] => got
  end.

Definition world_of (s : lstate) : world := mk_w (l_rec s) (l_ended s) (l_steady s) (l_got s) (l_q s).

Definition set_pc (s : lstate) (t : nat) (p : pc) : lstate :=
  mk_l (l_mu s) (l_rec s) (l_ended s) (l_steady s) (l_got s) (upd (l_pc s) t p) (l_lin s) (l_q s).

(* the body of the critical section of call [o] by thread [t] *)
Definition lock_step (s : lstate) (t : nat) (o : op oval) : lstate :=
  let lin := (l_lin s ++ [o])%list in
  match o with
  | End e =>
      if l_ended s then mk_l (Some t) (l_rec s) true (l_steady s) (l_got s) (upd (l_pc s) t (PIn o 0)) lin (l_q s)
      else match l_rec s with
           | None => mk_l (Some t) None true (l_steady s) (l_got s) (upd (l_pc s) t (PIn o 0)) lin (l_q s)
           | Some cs =>
               mk_l (Some t) None true (l_steady s) (l_got s)
                    (upd (l_pc s) t (PFan o (fan (sd_set_dur (duration (l_steady s) e)) cs) 0)) lin (l_q s)
           end
  | IsRec =>
      let r := match l_rec s with Some _ => true | None => false end in
      mk_l (Some t) (l_rec s) (l_ended s) (l_steady s) (l_got s) (upd (l_pc s) t (PIn o (if r then 1 else 0))) lin
           (l_q s ++ [r])%list
  | _ =>
      let w := step (world_of s) o in
      mk_l (Some t) (w_rec w) (l_ended s) (l_steady s) (l_got s) (upd (l_pc s) t (PIn o 0)) lin (l_q s)
  end.

Definition accept (s : lstate) (te : nat * lev) : option lstate :=
  let (t, e) := te in
  match e, l_pc s t with
  | LBeg o, PIdle => Some (set_pc s t (PCalled o))
  | LLock, PCalled o => match l_mu s with None => Some (lock_step s t o) | Some _ => None end
  | LDeliver p, PFan o (c :: cs) k =>
      if Nat.eqb p k
      then Some (mk_l (l_mu s) (l_rec s) (l_ended s) (l_steady s) (app_nth k c (l_got s)) (upd (l_pc s) t (PFan o cs (S k))) (l_lin s) (l_q s))
      else None
  | LUnlock, PIn o r => Some (mk_l None (l_rec s) (l_ended s) (l_steady s) (l_got s) (upd (l_pc s) t (PUnlocked o r)) (l_lin s) (l_q s))
  | LUnlock, PFan o [] k => Some (mk_l None (l_rec s) (l_ended s) (l_steady s) (l_got s) (upd (l_pc s) t (PUnlocked o 0)) (l_lin s) (l_q s))
  | LRet r, PUnlocked o r' => if r =? r' then Some (set_pc s t PIdle) else None
  | _, _ => None
  end.

Fixpoint accept_all (s : lstate) (tr : list (nat * lev)) : option lstate :=
  match tr with
  | [] => Some s
  | te :: r => match accept s te with Some s' => accept_all s' r | None => None end
  end.

(* the span right after StartSpan *)
Definition linit (c : cfg oval) (s : start oval) : lstate :=
  let w := start_span c s in
  mk_l None (w_rec w) (w_ended w) (w_steady w) (w_got w) (fun _ => PIdle) [] [].
