(* C04, SRACE: the race SPEC (coq/C04/SpecRace.v) on hand-made histories - what it allows and what it rejects.
   The SPEC is evaluated by ./check on the histories of explored schedules; there is no for-all theorem about it. *)
From V Require Import C04.Glue.
From Coq Require Import String.
Local Open Scope Z_scope.
(* thread 0: End 90; thread 1: SetAttribute late=2, UpdateName renamed; controller End *)
Definition c := mk_cfg [PSimple; PSimple] true (bs "l", [], []) ([] : attrs aval).
Definition s := mk_start (bs "op") 1 100 50 [(bs "before", ASc TI32 1)] ([] : list (lctx * attrs aval)).
Definition ths : list (list (op aval)) := [[End 90]; [SetAttr (bs "late", ASc TI32 2); UpdateName (bs "renamed")]; [End 7777]].
Definition B t i := mk_hev true t i 0. Definition R t i := mk_hev false t i 0.
(* the late calls begin after End has begun and return before it returns (the seeded tree lets them through) *)
Definition h_overlap := [B 0 0; B 1 0; R 1 0; B 1 1; R 1 1; R 0 0; B 2 0; R 2 0]%nat.
(* the late calls begin after End returned *)
Definition h_after := [B 0 0; R 0 0; B 1 0; R 1 0; B 1 1; R 1 1; B 2 0; R 2 0]%nat.
Definition good : sdata := mk_sd (bs "op") 1 (TExact 100) (TExact 40) 0 [] true [(bs "before", OSc TI32 1)] [] [] [] (bs "l", [], []).
Definition late : sdata := mk_sd (bs "renamed") 1 (TExact 100) (TExact 40) 0 [] true [(bs "before", OSc TI32 1); (bs "late", OSc TI32 2)] [] [] [] (bs "l", [], []).
Definition half : sdata := mk_sd (bs "op") 1 (TExact 100) (TExact 40) 0 [] true [(bs "before", OSc TI32 1); (bs "late", OSc TI32 2)] [] [] [] (bs "l", [], []).

(* calls overlapping End are in or out, as a prefix of their thread, but the same for every processor *)
Example race_spec_allows_every_consistent_cut :
  race_check c s ths h_overlap [[good]; [good]] = [] /\ race_check c s ths h_overlap [[half]; [half]] = [] /\
  race_check c s ths h_overlap [[late]; [late]] = [] /\ race_check c s ths h_after [[good]; [good]] = [].
Proof. repeat split; vm_compute; reflexivity. Qed.
(* what the seeded change seeded/C04_e produces: the second processor's copy contains calls the first one's does not *)
Example race_spec_rejects_diverging_copies :
  race_check c s ths h_overlap [[good]; [late]] = [tag "srace_fanout:copies_differ"].
Proof. vm_compute; reflexivity. Qed.
(* calls that began after End had returned must not show, even in all copies; End exports once *)
Example race_spec_rejects_late_calls_and_double_export :
  race_check c s ths h_after [[late]; [late]] = [tag "srace_cut:no_consistent_cut_of_the_threads_operations"] /\
  race_check c s ths h_after [[good; good]; [good]] = [tag "srace_end_once:exported_more_than_once"; tag "srace_fanout:copies_differ"].
Proof. split; vm_compute; reflexivity. Qed.
