(* C04 proofs, part 6: the extracted entry points.  The observation [run_model] prints parses back to
   what was printed - for every observation whatsoever - so [run_spec_seq l (run_model_seq l)] is the structured
   checker of ProofsMeets on the model's structured output. *)
From V Require Import C04.Glue C04.ProofsMap C04.ProofsStep C04.ProofsMeets C04.ProofsHeap C04.ProofsProps.
From Coq Require Import String Lia.
Local Open Scope Z_scope.

(* ------------------------------------------------------------------ joining and splitting at a separator tag *)
Definition plain (sep : string) (l : list tok) : Prop := Forall (fun t => is_tag sep t = false) l.
Definition join (sep : string) (hd : list tok) (bodies : list (list tok)) : list tok :=
  hd ++ flat_map (fun b => tag sep :: b) bodies.

Lemma split_aux_plain sep body : forall rest cur, plain sep body ->
  split_toks_aux sep (body ++ rest) cur = split_toks_aux sep rest (rev body ++ cur).
Proof.
  induction body as [|t body IH]; intros rest cur H; [reflexivity|].
  inversion H as [|? ? Ht Hb]; subst. cbn [app split_toks_aux]. rewrite Ht, IH by exact Hb.
  cbn [rev]. rewrite <- app_assoc. reflexivity.
Qed.
Lemma split_aux_members (sep : string) bodies : forall cur,
  is_tag sep (tag sep) = true -> Forall (plain sep) bodies ->
  split_toks_aux sep (flat_map (fun b => tag sep :: b) bodies) cur = rev cur :: bodies.
Proof.
  induction bodies as [|b bodies IH]; intros cur Hs H; [reflexivity|].
  inversion H as [|? ? Hb Hr]; subst.
  cbn [flat_map app split_toks_aux]. rewrite Hs. f_equal.
  rewrite split_aux_plain by exact Hb. rewrite IH by assumption. rewrite app_nil_r, rev_involutive. reflexivity.
Qed.
Lemma split_join (sep : string) hd bodies : is_tag sep (tag sep) = true -> plain sep hd -> Forall (plain sep) bodies ->
  split_toks sep (join sep hd bodies) = hd :: bodies.
Proof.
  intros Hs Hh Hb. unfold split_toks, join. rewrite split_aux_plain by exact Hh.
  rewrite split_aux_members by assumption. rewrite app_nil_r, rev_involutive. reflexivity.
Qed.
Lemma plain_join (s sep : string) hd bodies : is_tag s (tag sep) = false -> plain s hd -> Forall (plain s) bodies ->
  plain s (join sep hd bodies).
Proof.
  intros Hs Hh Hb. unfold join, plain. apply Forall_app. split; [exact Hh|].
  induction Hb as [|b bodies Hb1 Hb2 IH]; [constructor|]. cbn [flat_map]. constructor; [exact Hs|].
  apply Forall_app. split; [exact Hb1|exact IH].
Qed.

(* tokens that are none of the four separators *)
Definition tfree (t : tok) : Prop :=
  is_tag ";" t = false /\ is_tag "|" t = false /\ is_tag "@" t = false /\ is_tag "#" t = false.
Definition free (l : list tok) : Prop := Forall tfree l.
Lemma free_plain l : free l -> plain ";" l /\ plain "|" l /\ plain "@" l /\ plain "#" l.
Proof. intros H. repeat split; eapply Forall_impl; try exact H; intros t (A & B & C & D); assumption. Qed.
Lemma tfree_TB b : tfree (TB b). Proof. repeat split. Qed.
Lemma tfree_TZ z : tfree (TZ z). Proof. repeat split. Qed.
Lemma free_map_TB l : free (map TB l). Proof. apply Forall_map, Forall_forall. intros; apply tfree_TB. Qed.
Lemma free_map_TZ l : free (map TZ l). Proof. apply Forall_map, Forall_forall. intros; apply tfree_TZ. Qed.
Lemma free_map_tbool l : free (map tbool l). Proof. apply Forall_map, Forall_forall. intros; apply tfree_TZ. Qed.

(* ------------------------------------------------------------------ values and attribute maps *)
Lemma all_ints_any_print l : all_ints_any (map TZ l) = Some l.
Proof. induction l; cbn; [reflexivity|]. rewrite IHl; reflexivity. Qed.
Lemma all_bytes_toks_print l : all_bytes_toks (map TB l) = Some l.
Proof. induction l; cbn; [reflexivity|]. rewrite IHl; reflexivity. Qed.

Lemma parse_print_oval v : parse_oval (print_oval v) = Some v.
Proof.
  destruct v as [t z|s|t l|l]; cbn [print_oval parse_oval].
  - destruct t; reflexivity.
  - reflexivity.
  - destruct t; cbn; rewrite all_ints_any_print; reflexivity.
  - cbn. rewrite all_bytes_toks_print. reflexivity.
Qed.
Lemma free_print_oval v : free (print_oval v).
Proof.
  destruct v as [t z|s|t l|l]; cbn [print_oval].
  - constructor; [destruct t; repeat split|constructor; [apply tfree_TZ|constructor]].
  - constructor; [repeat split|constructor; [apply tfree_TB|constructor]].
  - constructor; [destruct t; repeat split|apply free_map_TZ].
  - constructor; [repeat split|apply free_map_TB].
Qed.

Definition oattr_body (kv : bytes * oval) : list tok := TB (fst kv) :: print_oval (snd kv).
Lemma print_amap_join m : print_amap m = flat_map (fun b => tag ";" :: b) (map oattr_body m).
Proof. unfold print_amap. induction m as [|kv m IH]; cbn; [reflexivity|]. rewrite IH. reflexivity. Qed.
Lemma parse_oattr_body kv : parse_oattr (oattr_body kv) = Some kv.
Proof. destruct kv as [k v]. unfold oattr_body, parse_oattr. cbn [fst snd]. rewrite parse_print_oval. reflexivity. Qed.
Lemma free_oattr_body kv : free (oattr_body kv).
Proof. constructor; [apply tfree_TB|apply free_print_oval]. Qed.
Lemma parse_all_map {A} (f : list tok -> option A) (g : A -> list tok) l :
  (forall x, f (g x) = Some x) -> parse_all f (map g l) = Some l.
Proof. intros H. induction l as [|x l IH]; cbn; [reflexivity|]. rewrite H, IH. reflexivity. Qed.

(* a section: a head followed by an attribute map *)
Definition sec (hd : list tok) (m : amap) : list tok := join ";" hd (map oattr_body m).
Lemma with_oattrs_sec hd m : free hd -> with_oattrs (sec hd m) = Some (hd, m).
Proof.
  intros Hh. unfold with_oattrs, sec. rewrite split_join.
  - rewrite (parse_all_map parse_oattr oattr_body m parse_oattr_body). reflexivity.
  - reflexivity.
  - apply free_plain; exact Hh.
  - apply Forall_map, Forall_forall. intros kv _. apply free_plain, free_oattr_body.
Qed.
Lemma sec_plain (s : string) hd m : is_tag s (tag ";") = false -> plain s hd -> (forall l, free l -> plain s l) -> plain s (sec hd m).
Proof.
  intros Hs Hh Hf. apply plain_join; [exact Hs|exact Hh|].
  apply Forall_map, Forall_forall. intros kv _. apply Hf, free_oattr_body.
Qed.

(* ------------------------------------------------------------------ one span *)
Definition head_toks (d : sdata) : list tok :=
  [tag "N"; TB (d_name d); TZ (d_kind d); print_time (d_start d); print_time (d_dur d); TZ (d_status d); TB (d_desc d); tbool (d_ctx d)].
Definition ev_sec (e : event) : list tok := sec [tag "E"; TB (e_name e); print_time (e_ts e)] (e_attrs e).
Definition lk_sec (l : link) : list tok := sec (tag "L" :: print_lctx (k_ctx l)) (k_attrs l).
Definition scope_sec (d : sdata) : list tok := [tag "S"; TB (fst (fst (d_scope d))); TB (snd (fst (d_scope d))); TB (snd (d_scope d))].
Definition sections (d : sdata) : list (list tok) :=
  sec [tag "A"] (d_attrs d) :: map ev_sec (d_events d) ++ map lk_sec (d_links d) ++ [sec [tag "R"] (d_res d); scope_sec d].

Lemma flat_map_app {A B} (f : A -> list B) l1 l2 : flat_map f (l1 ++ l2) = flat_map f l1 ++ flat_map f l2.
Proof. induction l1; cbn; [reflexivity|]. rewrite IHl1, app_assoc. reflexivity. Qed.
Lemma flat_map_map {A B C} (g : A -> B) (f : B -> list C) l : flat_map f (map g l) = flat_map (fun x => f (g x)) l.
Proof. induction l; cbn; [reflexivity|]. rewrite IHl. reflexivity. Qed.

Lemma print_span_join d : print_span d = join "|" (head_toks d) (sections d).
Proof.
  unfold print_span, join, sections, head_toks. f_equal.
  cbn [flat_map]. rewrite !flat_map_app, !flat_map_map. cbn [flat_map].
  unfold sec, join, ev_sec, lk_sec, sec, join, scope_sec. rewrite !print_amap_join, app_nil_r.
  cbn [app]. do 2 f_equal. f_equal. f_equal.
  - apply flat_map_ext. intros e. rewrite print_amap_join. reflexivity.
  - f_equal. apply flat_map_ext. intros l. rewrite print_amap_join. reflexivity.
Qed.

Lemma tfree_time t : tfree (print_time t).
Proof. destruct t; repeat split. Qed.
Lemma free_lctx c : free (print_lctx c).
Proof. unfold print_lctx. repeat constructor. Qed.
Lemma free_head d : free (head_toks d).
Proof. unfold head_toks. repeat (constructor; [try apply tfree_time; repeat split|]). constructor. Qed.

Lemma parse_time_print t : parse_time (print_time t) = Some t.
Proof. destruct t; reflexivity. Qed.
Lemma parse_event_sec e : parse_event (ev_sec e) = Some e.
Proof.
  unfold parse_event, ev_sec. rewrite with_oattrs_sec.
  - rewrite parse_time_print. destruct e; reflexivity.
  - constructor; [repeat split|constructor; [apply tfree_TB|constructor; [apply tfree_time|constructor]]].
Qed.
Lemma parse_olctx_print c : parse_olctx (print_lctx c) = Some c.
Proof. destruct c as [tid sid f r ts]. unfold print_lctx, parse_olctx. cbn. destruct r; reflexivity. Qed.
Lemma parse_olink_sec l : parse_olink (lk_sec l) = Some l.
Proof.
  unfold parse_olink, lk_sec. rewrite with_oattrs_sec.
  - rewrite parse_olctx_print. destruct l; reflexivity.
  - constructor; [repeat split|apply free_lctx].
Qed.

Lemma leading_print (s : string) (xs : list (list tok)) rest :
  Forall (fun x => sec_is s x = true) xs -> match rest with x :: _ => sec_is s x = false | [] => True end ->
  leading s (xs ++ rest) = (xs, rest).
Proof.
  intros Hx Hr. induction Hx as [|x xs Hx1 Hx2 IH]; cbn [app leading].
  - destruct rest as [|r rest]; [reflexivity|]. cbn [leading]. rewrite Hr. reflexivity.
  - rewrite Hx1, IH. reflexivity.
Qed.

Lemma sections_plain (s : string) d : is_tag s (tag ";") = false -> (forall l, free l -> plain s l) ->
  Forall (plain s) (sections d).
Proof.
  intros Hs Hf. unfold sections. constructor.
  - apply sec_plain; [exact Hs | apply Hf; repeat constructor | exact Hf].
  - apply Forall_app. split; [|apply Forall_app; split].
    + apply Forall_map, Forall_forall. intros e _. apply sec_plain; [exact Hs | | exact Hf].
      apply Hf. constructor; [repeat split|constructor; [apply tfree_TB|constructor; [apply tfree_time|constructor]]].
    + apply Forall_map, Forall_forall. intros l _. apply sec_plain; [exact Hs | | exact Hf].
      apply Hf. constructor; [repeat split|apply free_lctx].
    + constructor; [|constructor; [|constructor]].
      * apply sec_plain; [exact Hs | apply Hf; repeat constructor | exact Hf].
      * apply Hf. unfold scope_sec. repeat constructor.
Qed.

Lemma parse_print_span d : parse_span (print_span d) = Some d.
Proof.
  unfold parse_span. rewrite print_span_join, split_join;
    [| reflexivity | apply free_plain, free_head | apply sections_plain; [reflexivity | intros l H; apply free_plain; exact H]].
  unfold head_toks at 1. unfold sections.
  rewrite (leading_print "E" (map ev_sec (d_events d)) (map lk_sec (d_links d) ++ [sec [tag "R"] (d_res d); scope_sec d])).
  2: { apply Forall_map, Forall_forall. intros e _. reflexivity. }
  2: { destruct (d_links d); reflexivity. }
  rewrite (leading_print "L" (map lk_sec (d_links d)) [sec [tag "R"] (d_res d); scope_sec d]).
  2: { apply Forall_map, Forall_forall. intros l _. reflexivity. }
  2: { reflexivity. }
  rewrite !parse_time_print, with_oattrs_sec by (repeat constructor).
  rewrite (parse_all_map parse_event ev_sec _ parse_event_sec), (parse_all_map parse_olink lk_sec _ parse_olink_sec).
  unfold scope_sec. rewrite with_oattrs_sec by (repeat constructor).
  cbn. destruct d as [n k st du ss de cx am ev lk rs [[sn sv] sc]]. cbn. destruct cx; reflexivity.
Qed.

Lemma print_span_plain (s : string) d : is_tag s (tag ";") = false -> is_tag s (tag "|") = false ->
  (forall l, free l -> plain s l) -> plain s (print_span d).
Proof.
  intros H1 H2 Hf. rewrite print_span_join. apply plain_join; [exact H2 | apply Hf, free_head | apply sections_plain; assumption].
Qed.

(* ------------------------------------------------------------------ processors, observation *)
Lemma print_spans_join d r : print_spans (d :: r) = join "@" (print_span d) (map print_span r).
Proof.
  revert d; induction r as [|d2 r IH]; intros d.
  - unfold join. cbn. rewrite app_nil_r. reflexivity.
  - change (print_spans (d :: d2 :: r)) with (print_span d ++ [tag "@"] ++ print_spans (d2 :: r)).
    rewrite IH. unfold join. cbn [map flat_map app]. reflexivity.
Qed.

Lemma parse_print_proc g : parse_proc (print_spans g) = Some g.
Proof.
  destruct g as [|d r]; [reflexivity|].
  unfold parse_proc. rewrite print_spans_join.
  assert (N : exists t rest, join "@" (print_span d) (map print_span r) = t :: rest).
  { unfold join, print_span. cbn. eauto. }
  destruct N as (t & rest & N). rewrite N, <- N. clear N.
  rewrite split_join.
  - change (print_span d :: map print_span r) with (map print_span (d :: r)).
    apply (parse_all_map parse_span print_span _ parse_print_span).
  - reflexivity.
  - apply print_span_plain; [reflexivity | reflexivity | intros l H; apply free_plain; exact H].
  - apply Forall_map, Forall_forall. intros x _. apply print_span_plain; [reflexivity | reflexivity | intros l H; apply free_plain; exact H].
Qed.

Lemma print_spans_plain_hash g : plain "#" (print_spans g).
Proof.
  destruct g as [|d r]; [constructor|]. rewrite print_spans_join. apply plain_join.
  - reflexivity.
  - apply print_span_plain; [reflexivity | reflexivity | intros l H; apply free_plain; exact H].
  - apply Forall_map, Forall_forall. intros x _. apply print_span_plain; [reflexivity | reflexivity | intros l H; apply free_plain; exact H].
Qed.

Lemma parse_bools_print q : parse_bools (map tbool q) = Some q.
Proof. induction q as [|b q IH]; cbn; [reflexivity|]. rewrite IH. destruct b; reflexivity. Qed.

(* printing and parsing an observation are inverse, for EVERY observation *)
Theorem parse_print_obs q got : parse_obs (print_obs q got) = Some (q, got).
Proof.
  unfold parse_obs, print_obs.
  change (tag "Q" :: map tbool q ++ flat_map (fun g => tag "#" :: print_spans g) got)
    with ((tag "Q" :: map tbool q) ++ flat_map (fun g => tag "#" :: print_spans g) got).
  rewrite <- (flat_map_map print_spans (fun b => tag "#" :: b)).
  change ((tag "Q" :: map tbool q) ++ flat_map (fun b => tag "#" :: b) (map print_spans got))
    with (join "#" (tag "Q" :: map tbool q) (map print_spans got)).
  rewrite split_join.
  - cbn [is_tag]. change (is_tag "Q" (tag "Q")) with true. cbv iota.
    rewrite parse_bools_print, (parse_all_map parse_proc print_spans _ parse_print_proc). reflexivity.
  - reflexivity.
  - constructor; [reflexivity|]. apply free_plain, free_map_tbool.
  - apply Forall_map, Forall_forall. intros g _. apply print_spans_plain_hash.
Qed.

(* MODEL MEETS SPEC, for the two extracted entry points as ./check composes them *)
Theorem model_meets_spec_wire_lemma (l : list tok) (c : case) : parse_case l = Some c -> run_spec_seq l (run_model_seq l) = [].
Proof.
  intros H. rewrite (run_model_never_faults l c H). unfold run_spec_seq. rewrite H, parse_print_obs.
  apply run1_meets_spec.
Qed.

(* ------------------------------------------------------------------ the dispatching entry points *)
Lemma cut_bars_plain l tr : plain "||" l -> cut_bars (l ++ tag "||" :: tr) = (l, tr).
Proof.
  induction 1 as [|t l Ht Hl IH]; [reflexivity|]. cbn [app cut_bars]. rewrite Ht, IH. reflexivity.
Qed.
Lemma cut_bars_none l : plain "||" l -> cut_bars l = (l, []).
Proof. induction 1 as [|t l Ht Hl IH]; [reflexivity|]. cbn [cut_bars]. rewrite Ht, IH. reflexivity. Qed.

(* what ./check composes: the runner hands "<case> || <trace>" (the trace is empty for these cases) to [run_model] and [run_spec] *)
Theorem model_meets_spec_entry_lemma (l tr : list tok) (c : case) :
  parse_case l = Some c -> is_srace l = false -> is_mrace l = false -> plain "||" l ->
  run_spec (l ++ tag "||" :: tr) (run_model (l ++ tag "||" :: tr)) = [] /\ run_spec l (run_model l) = [].
Proof.
  intros H Hs Hm Hp. unfold run_spec, run_model. rewrite (cut_bars_plain l tr Hp), (cut_bars_none l Hp), Hs, Hm.
  split; apply (model_meets_spec_wire_lemma l c H).
Qed.
