(* C04 proofs, part 7: mutators from several threads on one span.  Every mutator is one atomic step (it
   runs under Span::mu_), so a concurrent execution is some interleaving of the threads' operation lists.
   Under the discipline of the threaded cases (thread i writes only keys / adds only events whose first byte
   is the digit i; only thread 0 renames / sets the status; nobody ends the span) EVERY interleaving leaves
   the recordable in the same state as running the threads one after the other - except for the order
   between events of different threads, where each thread's events keep their call order. *)
From V Require Import C04.Glue C04.ProofsMap C04.ProofsStep.
From Coq Require Import Lia.
Local Open Scope nat_scope.

(* [l] is an interleaving of the lists [ths]: each list's own order is kept, nothing lost, nothing added *)
Inductive interleaving {A} : list (list A) -> list A -> Prop :=
| il_nil ths : Forall (fun t => t = []) ths -> interleaving ths []
| il_step pre x t post l : interleaving (pre ++ t :: post) l -> interleaving (pre ++ (x :: t) :: post) (x :: l).

(* position i is the only one that may be non-empty *)
Definition single {A} (i : nat) (L : list (list A)) : Prop :=
  forall j x, j <> i -> nth_error L j = Some x -> x = [].

Lemma nth_error_mid {A} (pre : list A) x post : nth_error (pre ++ x :: post) (length pre) = Some x.
Proof. rewrite nth_error_app2 by lia. rewrite Nat.sub_diag. reflexivity. Qed.
Lemma nth_error_replace_other {A} (pre : list A) x y post j : j <> length pre ->
  nth_error (pre ++ x :: post) j = nth_error (pre ++ y :: post) j.
Proof.
  intros H. destruct (Nat.lt_ge_cases j (length pre)).
  - rewrite !nth_error_app1 by lia. reflexivity.
  - rewrite !nth_error_app2 by lia. destruct (j - length pre) eqn:E; [lia|reflexivity].
Qed.
Lemma nth_mid {A} (pre : list A) x post d : nth (length pre) (pre ++ x :: post) d = x.
Proof. rewrite app_nth2 by lia. rewrite Nat.sub_diag. reflexivity. Qed.

Lemma il_single {A} (L : list (list A)) l i : interleaving L l -> single i L -> l = nth i L [].
Proof.
  induction 1 as [ths Hall|pre x t post l Hil IH]; intros Hs.
  - destruct (nth_error ths i) eqn:E.
    + rewrite (nth_error_nth _ _ _ E). rewrite Forall_forall in Hall. symmetry. apply Hall. eapply nth_error_In; eauto.
    + apply nth_error_None in E. rewrite nth_overflow by lia. reflexivity.
  - assert (i = length pre) as ->.
    { destruct (Nat.eq_dec i (length pre)) as [|N]; [assumption|].
      exfalso. assert (X := Hs (length pre) (x :: t) (fun e => N (eq_sym e)) (nth_error_mid _ _ _)). discriminate. }
    rewrite nth_mid. f_equal. rewrite IH; [apply nth_mid|].
    intros j y Hj Hy. apply (Hs j y Hj). rewrite (nth_error_replace_other pre (x :: t) t post j Hj). exact Hy.
Qed.

Lemma concat_single {A} (L : list (list A)) i : single i L -> concat L = nth i L [].
Proof.
  revert i; induction L as [|a L IH]; intros i Hs; [destruct i; reflexivity|].
  destruct i as [|i]; cbn.
  - rewrite (IH (length L)); [rewrite nth_overflow by lia; apply app_nil_r|].
    intros j x _ Hx. apply (Hs (S j) x); [lia|exact Hx].
  - rewrite (Hs 0 a); [|lia|reflexivity]. cbn. apply IH.
    intros j x Hj Hx. apply (Hs (S j) x); [lia|exact Hx].
Qed.

(* an interleaving with a single non-empty thread is that thread = the concatenation *)
Lemma il_concat_single {A} (L : list (list A)) l i : interleaving L l -> single i L -> l = concat L.
Proof. intros H Hs. rewrite (concat_single L i Hs). apply il_single; assumption. Qed.

(* projections that keep at most one item per element preserve interleavings *)
Lemma il_flat_map {A B} (f : A -> list B) (ths : list (list A)) l :
  (forall x, f x = [] \/ exists y, f x = [y]) ->
  interleaving ths l -> interleaving (map (flat_map f) ths) (flat_map f l).
Proof.
  intros Hf. induction 1 as [ths Hall|pre x t post l Hil IH].
  - constructor. apply Forall_map. eapply Forall_impl; [|exact Hall]. intros t ->. reflexivity.
  - rewrite map_app in *. cbn [map flat_map] in *. destruct (Hf x) as [E|[y E]]; rewrite E; cbn [app].
    + exact IH.
    + apply il_step. exact IH.
Qed.
Lemma filter_as_flat_map {A} (p : A -> bool) l : filter p l = flat_map (fun x => if p x then [x] else []) l.
Proof. induction l as [|a l IH]; [reflexivity|]. cbn. destruct (p a); cbn; rewrite IH; reflexivity. Qed.
Lemma il_filter {A} (p : A -> bool) (ths : list (list A)) l :
  interleaving ths l -> interleaving (map (filter p) ths) (filter p l).
Proof.
  intros H. rewrite filter_as_flat_map.
  rewrite (map_ext (filter p) (flat_map (fun x => if p x then [x] else [])) (filter_as_flat_map p)).
  apply il_flat_map; [|exact H]. intros x. destruct (p x); eauto.
Qed.
Lemma il_map {A B} (g : A -> B) (ths : list (list A)) l :
  interleaving ths l -> interleaving (map (map g) ths) (map g l).
Proof.
  induction 1 as [ths Hall|pre x t post l Hil IH].
  - constructor. apply Forall_map. eapply Forall_impl; [|exact Hall]. intros t ->. reflexivity.
  - rewrite map_app in *. cbn [map] in *. apply il_step. exact IH.
Qed.

(* ------------------------------------------------------------------ the discipline of the threads *)
Lemma threads_ok_nth {V} (ths : list (list (op V))) : forall k i t,
  threads_ok k ths = true -> nth_error ths i = Some t -> forallb (thread_op_ok (k + i)) t = true.
Proof.
  induction ths as [|a ths IH]; intros k i t H E; [destruct i; discriminate|].
  cbn in H. apply andb_true_iff in H as [H1 H2]. destruct i as [|i]; cbn in E.
  - injection E as <-. rewrite Nat.add_0_r. exact H1.
  - replace (k + S i) with (S k + i) by lia. eapply IH; eauto.
Qed.

Lemma b2n_n2b n : (n < 256)%N -> b2n (n2b n) = n.
Proof.
  intros H. unfold b2n, n2b. destruct (Byte.of_N n) as [b|] eqn:E.
  - apply Byte.to_of_N. exact E.
  - apply Byte.of_N_None_iff in E. lia.
Qed.
(* the thread a key / event name belongs to *)
Definition owner_idx (s : bytes) : nat := match s with b :: _ => N.to_nat (b2n b - 48) | [] => 0 end.
Lemma owned_by_idx j s : j < 10 -> owned_by j s = true -> owner_idx s = j.
Proof.
  intros Hj. destruct s as [|b s]; [discriminate|]. cbn. intros H. apply byte_eqb_eq in H. subst b.
  unfold digit. rewrite b2n_n2b by lia. lia.
Qed.

Lemma flat_map_app' {A B} (f : A -> list B) l1 l2 : flat_map f (l1 ++ l2) = flat_map f l1 ++ flat_map f l2.
Proof. induction l1; cbn; [reflexivity|]. rewrite IHl1, app_assoc. reflexivity. Qed.
Lemma flat_map_concat {A B} (f : A -> list B) L : flat_map f (concat L) = concat (map (flat_map f) L).
Proof. induction L as [|a L IH]; [reflexivity|]. cbn. rewrite flat_map_app', IH. reflexivity. Qed.
Lemma filter_flat_map {A B} (p : B -> bool) (g : A -> list B) l : filter p (flat_map g l) = flat_map (fun o => filter p (g o)) l.
Proof. induction l as [|a l IH]; [reflexivity|]. cbn. rewrite filter_app, IH. reflexivity. Qed.

Section Threads.
Variable ths : list (list (op oval)).
Hypothesis Hok : threads_ok 0 ths = true.
Hypothesis Hn : length ths <= 4.

Lemma thread_ops i t : nth_error ths i = Some t -> Forall (fun o => thread_op_ok i o = true) t /\ i < 10.
Proof.
  intros E. split.
  - apply Forall_forall. intros o Ho. pose proof (threads_ok_nth ths 0 i t Hok E) as F. cbn in F.
    rewrite forallb_forall in F. apply F. exact Ho.
  - assert (i < length ths) by (apply nth_error_Some; congruence). lia.
Qed.

Lemma single_proj {B} (f : op oval -> list B) i :
  (forall j o, j < 10 -> j <> i -> thread_op_ok j o = true -> f o = []) ->
  single i (map (flat_map f) ths).
Proof.
  intros Hf j x Hj Hx. rewrite nth_error_map in Hx. destruct (nth_error ths j) as [t|] eqn:E; [|discriminate].
  injection Hx as <-. destruct (thread_ops j t E) as [F L]. clear E.
  induction F as [|o t Ho Ht IH]; [reflexivity|]. cbn. rewrite (Hf j o L Hj Ho). exact IH.
Qed.

Variable l : list (op oval).
Hypothesis Hil : interleaving ths l.

Lemma proj_same {B} (f : op oval -> list B) i :
  (forall x, f x = [] \/ exists y, f x = [y]) ->
  (forall j o, j < 10 -> j <> i -> thread_op_ok j o = true -> f o = []) ->
  flat_map f l = flat_map f (concat ths).
Proof.
  intros H1 H2. rewrite flat_map_concat.
  eapply il_concat_single; [apply il_flat_map; eassumption | apply single_proj; exact H2].
Qed.

(* name and status: only thread 0 touches them *)
Lemma names_same : names_of l = names_of (concat ths).
Proof.
  unfold names_of. apply (proj_same _ 0).
  - intros o; destruct o; eauto.
  - intros j o _ Hj H. destruct o; try reflexivity. cbn in H. apply Nat.eqb_eq in H. contradiction.
Qed.
Lemma statuses_same : statuses_of l = statuses_of (concat ths).
Proof.
  unfold statuses_of. apply (proj_same _ 0).
  - intros o; destruct o; eauto.
  - intros j o _ Hj H. destruct o; try reflexivity. cbn in H. apply Nat.eqb_eq in H. contradiction.
Qed.

(* nobody ends the span, IsRecording is asked by thread 0 only *)
Lemma no_end_in_threads : Forall (fun o => is_end o = false) (concat ths).
Proof.
  apply Forall_forall. intros o Ho. apply in_concat in Ho as (t & Ht & Ho).
  apply In_nth_error in Ht as [i Ei]. destruct (thread_ops i t Ei) as [F _].
  rewrite Forall_forall in F. specialize (F o Ho). destruct o; try reflexivity. discriminate.
Qed.
Lemma il_in {A} (L : list (list A)) (m : list A) x : interleaving L m -> In x m -> exists t, In t L /\ In x t.
Proof.
  induction 1 as [L0 Hall|pre y t post m Hm IH]; [intros []|].
  intros [<-|Hin].
  - exists (y :: t). split; [apply in_elt | left; reflexivity].
  - destruct (IH Hin) as (t' & Ht' & Hx). apply in_app_or in Ht' as [Ht'|[<-|Ht']].
    + exists t'. split; [apply in_or_app; left; exact Ht' | exact Hx].
    + exists (y :: t). split; [apply in_elt | right; exact Hx].
    + exists t'. split; [apply in_or_app; right; right; exact Ht' | exact Hx].
Qed.
Lemma no_end_in_interleaving : Forall (fun o => is_end o = false) l.
Proof.
  apply Forall_forall. intros o Ho. destruct (il_in _ _ _ Hil Ho) as (t & Ht & Hot).
  pose proof no_end_in_threads as F. rewrite Forall_forall in F. apply F. apply in_concat. eauto.
Qed.

(* attributes: for every key, the writes of that key all come from one thread, in that thread's order *)
Lemma key_writes_same k :
  filter (fun kv => bytes_eqb (fst kv) k) (writes_of l) = filter (fun kv => bytes_eqb (fst kv) k) (writes_of (concat ths)).
Proof.
  unfold writes_of. rewrite !filter_flat_map. apply (proj_same _ (owner_idx k)).
  - intros o; destruct o; cbn; eauto. destruct (bytes_eqb (fst kv) k); eauto.
  - intros j o Lj Hj H. destruct o; try reflexivity. cbn in *.
    destruct (bytes_eqb (fst kv) k) eqn:E; [|reflexivity]. apply bytes_eqb_eq in E. subst k.
    exfalso. apply Hj. symmetry. apply owned_by_idx; assumption.
Qed.

(* events: the events owned by thread i are, in the export, exactly thread i's events in call order *)
Definition ev_owned (i : nat) (e : bytes * option Z * option (attrs oval)) : bool := owned_by i (fst (fst e)).
Lemma thread_events_same i : i < 10 ->
  filter (ev_owned i) (events_of l) = filter (ev_owned i) (events_of (concat ths)).
Proof.
  intros Li. unfold events_of. rewrite !filter_flat_map. apply (proj_same _ i).
  - intros o; destruct o; cbn; eauto. destruct (ev_owned i (name, ts, a)); eauto.
  - intros j o Lj Hj H. destruct o; try reflexivity. cbn in *. unfold ev_owned. cbn.
    destruct (owned_by i name) eqn:E; [|reflexivity].
    exfalso. apply Hj. rewrite <- (owned_by_idx j name Lj H). apply owned_by_idx; assumption.
Qed.
Lemma events_interleave : interleaving (map events_of ths) (events_of l).
Proof. unfold events_of. apply il_flat_map; [|exact Hil]. intros o; destruct o; eauto. Qed.

Lemma rec_answers_as_proj r (m : list (op oval)) : Forall (fun o => is_end o = false) m ->
  rec_answers r m = flat_map (fun o => match o with IsRec => [r] | _ => [] end) m.
Proof. induction 1 as [|o m Ho Hm IH]; [reflexivity|]. destruct o; cbn in *; try exact IH; try discriminate. rewrite IH; reflexivity. Qed.
Lemma rec_answers_same r : rec_answers r l = rec_answers r (concat ths).
Proof.
  rewrite (rec_answers_as_proj r l no_end_in_interleaving), (rec_answers_as_proj r _ no_end_in_threads).
  apply (proj_same _ 0).
  - intros o; destruct o; eauto.
  - intros j o _ Hj H. destruct o; try reflexivity. cbn in H. apply Nat.eqb_eq in H. contradiction.
Qed.

End Threads.

(* ------------------------------------------------------------------ maps with the same reads are the same map *)
Lemma canonical_ext m1 : forall m2, canonical m1 -> canonical m2 ->
  (forall k, alookup k m1 = alookup k m2) -> m1 = m2.
Proof.
  induction m1 as [|[k1 v1] m1 IH]; intros m2 C1 C2 H.
  - destruct m2 as [|[k2 v2] m2]; [reflexivity|]. specialize (H k2). unfold alookup in H. cbn in H.
    rewrite bytes_eqb_refl in H. discriminate.
  - inversion C1 as [|? ? ? A1 C1']; subst.
    destruct m2 as [|[k2 v2] m2].
    { specialize (H k1). unfold alookup in H. cbn in H. rewrite bytes_eqb_refl in H. discriminate. }
    inversion C2 as [|? ? ? A2 C2']; subst.
    assert (K : k1 = k2).
    { destruct (bytes_cmp k1 k2) eqn:C; [apply bytes_cmp_eq; exact C| |].
      - exfalso. pose proof (H k1) as H1.
        rewrite (alookup_in _ k1 v1 C1 (or_introl eq_refl)) in H1. symmetry in H1. apply alookup_some_in in H1.
        destruct H1 as [[= -> ->]|Hin]; [rewrite bytes_cmp_refl in C; discriminate|].
        specialize (A2 k1 v1 Hin). apply bytes_cmp_gt_lt in A2. congruence.
      - exfalso. pose proof (H k2) as H2.
        rewrite (alookup_in _ k2 v2 C2 (or_introl eq_refl)) in H2. apply alookup_some_in in H2.
        destruct H2 as [[= -> ->]|Hin]; [rewrite bytes_cmp_refl in C; discriminate|].
        specialize (A1 k2 v2 Hin). congruence. }
    subst k2. pose proof (H k1) as Hk. unfold alookup in Hk. cbn in Hk. rewrite bytes_eqb_refl in Hk. cbn in Hk.
    injection Hk as <-. f_equal. apply IH; [assumption|assumption|].
    intros k. destruct (bytes_eqb k1 k) eqn:E.
    + apply bytes_eqb_eq in E. subst k. rewrite (alookup_above _ _ A1), (alookup_above _ _ A2). reflexivity.
    + specialize (H k). unfold alookup in H. cbn in H. rewrite E in H. exact H.
Qed.

Lemma find_filter {A} (p : A -> bool) l : find p l = find p (filter p l).
Proof. induction l as [|a l IH]; [reflexivity|]. cbn. destruct (p a) eqn:E; cbn; [rewrite E; reflexivity|exact IH]. Qed.
Lemma filter_rev' {A} (p : A -> bool) l : filter p (rev l) = rev (filter p l).
Proof. induction l as [|a l IH]; [reflexivity|]. cbn. rewrite filter_app, IH. cbn. destruct (p a); cbn; [reflexivity|apply app_nil_r]. Qed.
Lemma olast_by_filter k ws1 ws2 :
  filter (fun kv : bytes * oval => bytes_eqb (fst kv) k) ws1 = filter (fun kv => bytes_eqb (fst kv) k) ws2 ->
  olast k ws1 = olast k ws2.
Proof. intros H. unfold olast. rewrite (find_filter _ (rev ws1)), (find_filter _ (rev ws2)), !filter_rev', H. reflexivity. Qed.

(* ------------------------------------------------------------------ the theorem *)
Definition ev_name_owned (i : nat) (e : event) : bool := owned_by i (e_name e).

Theorem every_interleaving_same_export_lemma (ths : list (list (op oval))) (l : list (op oval)) (d : sdata) :
  threads_ok 0 ths = true -> length ths <= 4 -> interleaving ths l -> canonical (d_attrs d) ->
  let a := apply_ops d l in let b := apply_ops d (concat ths) in
  d_name a = d_name b /\ d_status a = d_status b /\ d_desc a = d_desc b /\ d_attrs a = d_attrs b /\
  d_kind a = d_kind b /\ d_start a = d_start b /\ d_dur a = d_dur b /\ d_ctx a = d_ctx b /\
  d_links a = d_links b /\ d_res a = d_res b /\ d_scope a = d_scope b /\
  exists ea, d_events a = d_events d ++ ea /\
             d_events b = d_events d ++ concat (map (fun t => map event_of (events_of t)) ths) /\
             interleaving (map (fun t => map event_of (events_of t)) ths) ea /\
             (forall i, i < 10 -> filter (ev_name_owned i) ea =
                                  filter (ev_name_owned i) (concat (map (fun t => map event_of (events_of t)) ths))) /\
  rec_answers true l = rec_answers true (concat ths).
Proof.
  intros Hok Hn Hil Hc. cbn zeta.
  destruct (apply_ops_fields l d) as (A1 & A2 & A3 & A4 & A5 & A6 & A7 & A8 & A9 & A10 & A11).
  destruct (apply_ops_fields (concat ths) d) as (B1 & B2 & B3 & B4 & B5 & B6 & B7 & B8 & B9 & B10 & B11).
  rewrite A1, B1, A3, B3, A5, B5, A6, B6, A7, B7, A8, B8, A9, B9, A10, B10, A11, B11.
  assert (S : (d_status (apply_ops d l), d_desc (apply_ops d l)) = (d_status (apply_ops d (concat ths)), d_desc (apply_ops d (concat ths))))
    by (rewrite A2, B2, (statuses_same ths Hok Hn l Hil); reflexivity).
  injection S as S1 S2.
  rewrite (names_same ths Hok Hn l Hil).
  repeat split; try assumption.
  - apply canonical_ext; try (apply fold_canonical; exact Hc).
    intros k. rewrite !fold_lookup by exact Hc.
    rewrite (olast_by_filter k _ _ (key_writes_same ths Hok Hn l Hil k)). reflexivity.
  - exists (map event_of (events_of l)). split; [exact A4|]. split.
    + rewrite B4. f_equal. unfold events_of at 1. rewrite flat_map_concat, concat_map, map_map. reflexivity.
    + split; [|split].
      * rewrite <- (map_map events_of (map event_of)). apply il_map. apply (events_interleave ths l Hil).
      * intros i Li. unfold ev_name_owned.
        assert (F : forall es, filter (fun e => owned_by i (e_name e)) (map event_of es) = map event_of (filter (ev_owned i) es)).
        { induction es as [|e es IH]; [reflexivity|]. cbn. unfold ev_owned at 1. destruct (owned_by i (fst (fst e))); cbn; rewrite IH; reflexivity. }
        rewrite F. rewrite (thread_events_same ths Hok Hn l Hil i Li), <- F.
        f_equal. unfold events_of at 1. rewrite flat_map_concat, concat_map, map_map. reflexivity.
      * apply (rec_answers_same ths Hok Hn l Hil).
Qed.

(* on the span machine: a recording span hammered by the threads in ANY interleaving ends up recording what the
   sequential run thread 0, thread 1, ... records - same answers to IsRecording, nothing exported yet *)
Corollary run_ops_interleaved {P} (procs : list P) st G q (ths : list (list (op oval))) l d :
  threads_ok 0 ths = true -> length ths <= 4 -> interleaving ths l ->
  run_ops (mk_w (Some (uni procs d)) false st G q) l =
    mk_w (Some (uni procs (apply_ops d l))) false st G (q ++ rec_answers true (concat ths)) /\
  run_ops (mk_w (Some (uni procs d)) false st G q) (concat ths) =
    mk_w (Some (uni procs (apply_ops d (concat ths)))) false st G (q ++ rec_answers true (concat ths)).
Proof.
  intros Hok Hn Hil. split.
  - rewrite (run_ops_recording procs st G l (no_end_in_interleaving ths Hok Hn l Hil)).
    rewrite (rec_answers_same ths Hok Hn l Hil). reflexivity.
  - apply run_ops_recording. apply (no_end_in_threads ths Hok Hn).
Qed.

(* non-vacuity: two threads, one interleaving *)
Example interleaving_example :
  let t0 := [SetAttr ([x30; x61], OSc TI32 1); UpdateName [x6e]; Event [x30] None None] in
  let t1 := [Event [x31] (Some 5%Z) None; SetAttr ([x31; x61], OSc TI32 2)] in
  threads_ok 0 [t0; t1] = true /\
  interleaving [t0; t1] [Event [x31] (Some 5%Z) None; SetAttr ([x30; x61], OSc TI32 1); UpdateName [x6e];
                         SetAttr ([x31; x61], OSc TI32 2); Event [x30] None None].
Proof.
  cbn zeta. split; [reflexivity|].
  apply (il_step [[SetAttr ([x30; x61], OSc TI32 1); UpdateName [x6e]; Event [x30] None None]] _ _ []).
  apply (il_step [] _ _ [[SetAttr ([x31; x61], OSc TI32 2)]]).
  apply (il_step [] _ _ [[SetAttr ([x31; x61], OSc TI32 2)]]).
  apply (il_step [[Event [x30] None None]] _ _ []).
  apply (il_step [] _ _ [[]]).
  constructor. repeat constructor.
Qed.
