(* SPEC for C04 under concurrency (SRACE cases): several threads operate on ONE span, one or more of
   them end it while the others keep mutating it.  The observation is the real-time history of the
   calls (begin / return events in the order they happened) and what every processor's exporter
   received.  Nothing here runs the span machine: the checker says which outcomes are allowed.

   ALLOWED OUTCOMES.  Let the End calls be the End operations of the threads plus the final End of
   the controller, and let min_ret be the position of the earliest return of any End call.
   (a) every processor has received exactly one span;
   (b) all processors have received the same content;
   (c) there are an End call e whose begin is not after min_ret (e can be the first End to take
       effect) and, for every thread t, a number n_t (the first n_t operations of t are "included":
       a prefix-consistent cut of the thread's operation list) such that
         - every operation whose call RETURNED before e BEGAN is included
           (in particular every operation that returned before the first End call began),
         - no operation whose call BEGAN after min_ret (after the first End call returned) is included;
           operations overlapping End are in or out as a whole,
         - the duration is e's end time minus the start time,
         - the name is the name of an included UpdateName that no other included UpdateName
           really-follows (began after it returned) - StartSpan's name if none is included;
           likewise the status,
         - for every key the value is the owned copy of an included SetAttribute of that key that no
           other included SetAttribute of the key really-follows - of StartSpan's last write of the key
           if none is included - and exactly the written keys are present,
         - the events are exactly the included AddEvent operations, each with its own time stamp and
           attribute map, in an order that never puts an event before one whose call had returned
           before its own call began,
       and kind, start time, links, resource, scope and span context are StartSpan's / the provider's;
   (d) IsRecording() returned true if its call returned before the first End call began and false if
       its call began after min_ret.
   Because (b) compares the processors with each other and (c) is asked of that one content, an
   operation that reached some processors' copies but not others' is never allowed. *)
From V Require Export C04.Spec.
From Coq Require Import String.
Local Open Scope Z_scope.

(* one event of the history: begin (true) / return (false) of operation [h_idx] of thread [h_tid];
   [h_res] = the answer of IsRecording on its return event, 0 otherwise *)
Record hev := mk_hev { h_begin : bool; h_tid : nat; h_idx : nat; h_res : Z }.

Fixpoint pos_of (b : bool) (t i : nat) (h : list hev) (n : nat) : option nat :=
  match h with
  | [] => None
  | e :: r => if Bool.eqb (h_begin e) b && Nat.eqb (h_tid e) t && Nat.eqb (h_idx e) i then Some n else pos_of b t i r (S n)
  end.
(* positions of the begin / return of a call; a call that is not in the history never began / never returned *)
Definition pb (h : list hev) (ti : nat * nat) : nat := match pos_of true (fst ti) (snd ti) h 0 with Some n => n | None => List.length h end.
Definition pr (h : list hev) (ti : nat * nat) : nat := match pos_of false (fst ti) (snd ti) h 0 with Some n => n | None => List.length h end.
(* call x really-precedes call y *)
Definition before (h : list hev) (x y : nat * nat) : bool := Nat.ltb (pr h x) (pb h y).

(* a thread's operations with their call ids *)
Fixpoint number_ops {A} (t : nat) (i : nat) (ops : list A) : list ((nat * nat) * A) :=
  match ops with [] => [] | o :: r => ((t, i), o) :: number_ops t (S i) r end.
Fixpoint number_threads {A} (t : nat) (ths : list (list A)) : list (list ((nat * nat) * A)) :=
  match ths with [] => [] | ops :: r => number_ops t 0 ops :: number_threads (S t) r end.

Definition rcall := ((nat * nat) * op aval)%type.

(* the End calls: (call id, end_steady_time) *)
Definition ends_of (calls : list rcall) : list ((nat * nat) * Z) :=
  flat_map (fun c => match snd c with End t => [(fst c, t)] | _ => [] end) calls.

Fixpoint min_list (l : list nat) (d : nat) : nat :=
  match l with [] => d | x :: r => Nat.min x (min_list r d) end.

(* how many operations of a thread satisfy [p]: used on prefixes (operations of one thread are sequential) *)
Definition count_while {A} (p : A -> bool) (l : list A) : nat :=
  (fix go l := match l with [] => O | x :: r => if p x then S (go r) else O end) l.

(* all lists of per-thread prefix lengths within the bounds *)
Fixpoint range (lo n : nat) : list nat := match n with O => [] | S k => lo :: range (S lo) k end.
Fixpoint cuts (bounds : list (nat * nat)) : list (list nat) :=
  match bounds with
  | [] => [[]]
  | (lo, hi) :: r => flat_map (fun n => map (cons n) (cuts r)) (range lo (S hi - lo))
  end.

Fixpoint included (ths : list (list rcall)) (cut : list nat) : list rcall :=
  match ths, cut with
  | t :: r, n :: c => firstn n t ++ included r c
  | _, _ => []
  end.

(* [x] is not really-followed by another call of [l] *)
Definition maximal (h : list hev) (l : list rcall) (x : rcall) : bool :=
  forallb (fun y => negb (before h (fst x) (fst y))) l.

Definition un_calls (l : list rcall) : list (rcall * bytes) :=
  flat_map (fun c => match snd c with UpdateName n => [(c, n)] | _ => [] end) l.
Definition ss_calls (l : list rcall) : list (rcall * (Z * bytes)) :=
  flat_map (fun c => match snd c with Status k d => [(c, (k, d))] | _ => [] end) l.
Definition sa_calls (l : list rcall) : list (rcall * (bytes * aval)) :=
  flat_map (fun c => match snd c with SetAttr kv => [(c, kv)] | _ => [] end) l.
Definition ev_calls (l : list rcall) : list (rcall * (bytes * option Z * option (attrs aval))) :=
  flat_map (fun c => match snd c with Event n ts a => [(c, (n, ts, a))] | _ => [] end) l.

Definition name_ok (h : list hev) (s : start aval) (inc : list rcall) (d : sdata) : bool :=
  match un_calls inc with
  | [] => bytes_eqb (d_name d) (s_name s)
  | uns => existsb (fun u => bytes_eqb (snd u) (d_name d) && maximal h (map fst uns) (fst u)) uns
  end.
Definition status_ok (h : list hev) (inc : list rcall) (d : sdata) : bool :=
  match ss_calls inc with
  | [] => (d_status d =? 0) && bytes_eqb (d_desc d) []
  | sss => existsb (fun u => (fst (snd u) =? d_status d) && bytes_eqb (snd (snd u)) (d_desc d) && maximal h (map fst sss) (fst u)) sss
  end.
Definition attr_ok (h : list hev) (s : start aval) (inc : list rcall) (kv : bytes * oval) : bool :=
  match filter (fun w => bytes_eqb (fst (snd w)) (fst kv)) (sa_calls inc) with
  | [] => match last_write (fst kv) (s_attrs s) with Some v => oval_eqb (owned v) (snd kv) | None => false end
  | ws => existsb (fun w => oval_eqb (owned (snd (snd w))) (snd kv) && maximal h (map fst ws) (fst w)) ws
  end.
Definition attrs_ok (h : list hev) (s : start aval) (inc : list rcall) (m : amap) : bool :=
  strictly_sorted (map fst m) &&
  forallb (attr_ok h s inc) m &&
  forallb (fun kv => existsb (fun kv' => bytes_eqb (fst kv') (fst kv)) m) (s_attrs s ++ map snd (sa_calls inc)).

Definition event_matches (e : event) (c : rcall * (bytes * option Z * option (attrs aval))) : bool :=
  let '(n, ts, a) := snd c in
  bytes_eqb n (e_name e) && tstamp_eqb (match ts with Some z => TExact z | None => TNow end) (e_ts e) &&
  (let '(x, y, z) := amap_ok (match a with Some l => l | None => [] end) (e_attrs e) in x && y && z).
(* the call of an exported event (event names are distinct within a case) *)
Definition event_call (evs : list (rcall * (bytes * option Z * option (attrs aval)))) (e : event) : option rcall :=
  option_map fst (find (event_matches e) evs).
Fixpoint order_ok (h : list hev) (cs : list rcall) : bool :=
  match cs with
  | [] => true
  | c :: r => forallb (fun c' => negb (before h (fst c') (fst c))) r && order_ok h r
  end.
Fixpoint all_some {A} (l : list (option A)) : option (list A) :=
  match l with
  | [] => Some []
  | Some x :: r => option_map (cons x) (all_some r)
  | None :: _ => None
  end.
Fixpoint nodup_names (l : list bytes) : bool :=
  match l with [] => true | x :: r => negb (existsb (bytes_eqb x) r) && nodup_names r end.
Definition events_ok (h : list hev) (inc : list rcall) (evs : list event) : bool :=
  let ecs := ev_calls inc in
  Nat.eqb (List.length evs) (List.length ecs) && nodup_names (map e_name evs) &&
  match all_some (map (event_call ecs) evs) with
  | Some cs => order_ok h cs
  | None => false
  end.

(* the content that depends on the cut and on the End that took effect *)
Definition cut_ok (h : list hev) (s : start aval) (ths : list (list rcall)) (d : sdata) (e : (nat * nat) * Z) (cut : list nat) : bool :=
  let inc := filter (fun c => match snd c with End _ | IsRec => false | _ => true end) (included ths cut) in
  tstamp_eqb (d_dur d) (if (s_steady s =? 0) || (snd e =? 0) then TNow else TExact (snd e - s_steady s)) &&
  name_ok h s inc d && status_ok h inc d && attrs_ok h s inc (d_attrs d) && events_ok h inc (d_events d).

Definition race_cut_exists (h : list hev) (s : start aval) (ths : list (list rcall)) (d : sdata) : bool :=
  let es := ends_of (List.concat ths) in
  let min_ret := min_list (map (fun e => pr h (fst e)) es) (List.length h) in
  existsb (fun e =>
    Nat.leb (pb h (fst e)) min_ret &&
    (let bounds := map (fun t => (count_while (fun c => Nat.ltb (pr h (fst c)) (pb h (fst e))) t,
                                  count_while (fun c => Nat.leb (pb h (fst c)) min_ret) t)) ths in
     existsb (cut_ok h s ths d e) (cuts bounds))) es.

Definition isrec_ok (h : list hev) (ths : list (list rcall)) : bool :=
  let calls := List.concat ths in
  let es := ends_of calls in
  let min_ret := min_list (map (fun e => pr h (fst e)) es) (List.length h) in
  let min_beg := min_list (map (fun e => pb h (fst e)) es) (List.length h) in
  forallb (fun c => match snd c with
                    | IsRec =>
                        let res := match nth_error h (pr h (fst c)) with Some ev => h_res ev | None => 0 end in
                        (if Nat.ltb (pr h (fst c)) min_beg then res =? 1 else true) &&
                        (if Nat.ltb min_ret (pb h (fst c)) then res =? 0 else true)
                    | _ => true
                    end) calls.

(* [ths]: the threads' operations, the controller's final End appended as one more thread *)
Definition race_check (c : cfg aval) (s : start aval) (ths : list (list (op aval))) (h : list hev) (got : list (list sdata)) : list tok :=
  let calls := number_threads 0 ths in
  check (Nat.eqb (List.length got) (List.length (c_procs c))) "srace_fanout:processor_count" ++
  check (forallb (fun g => Nat.leb (List.length g) 1) got) "srace_end_once:exported_more_than_once" ++
  check (forallb (fun g => Nat.leb 1 (List.length g)) got) "srace_end_once:not_exported" ++
  match got with
  | [] => []
  | g :: r => check (forallb (list_eqb sdata_eqb g) r) "srace_fanout:copies_differ"
  end ++
  match got with
  | (d :: _) :: _ =>
      check (d_kind d =? s_kind s) "srace:kind" ++
      check (tstamp_eqb (d_start d) (expect_time (s_sys s))) "srace:start_time" ++
      check (d_ctx d) "srace:span_context" ++
      links_check (s_links s) (d_links d) ++
      amap_check "srace_resource" (c_res c) (d_res d) ++
      check (scope_eqb (d_scope d) (c_scope c)) "srace:scope" ++
      check (race_cut_exists h s calls d) "srace_cut:no_consistent_cut_of_the_threads_operations"
  | _ => []
  end ++
  check (isrec_ok h calls) "srace_isrecording:until_end".
