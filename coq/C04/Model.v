(* MODEL for C04: sdk::trace::Span (span.cc) over MultiRecordable / SpanData (multi_recordable.h,
   span_data.h), AttributeConverter / AttributeMap (attribute_utils.h), MultiSpanProcessor::OnEnd
   (multi_span_processor.h), and the caller's memory the API only borrows during a call.

   Two levels:
   * level 1 ([op], [step], [run1]): the span machine on operations that carry their data inline -
     what the SDK has *after* it copied its arguments;
   * level 0 ([hop], [hstep], [run0]): the same machine driven through NON-OWNING views into a heap of
     caller blocks, which the caller may overwrite or free between calls.  A call resolves its views
     against the heap as it is *during the call* (AttributeConverter, std::string(name), ...) and the
     state of the machine contains owned bytes only.

   std::unordered_map<std::string, OwnedAttributeValue> is modelled by its canonical form: an
   association list sorted by key (the drivers print attribute maps sorted by key).
   Definitions only - no proofs in this file. *)
From V Require Export Base.Bytes.
Local Open Scope Z_scope.

(* ------------------------------------------------------------------ attribute values *)
(* element types of common::AttributeValue / sdk::common::OwnedAttributeValue.  Numbers are carried as
   the mathematical value (doubles: the IEEE bit pattern as an unsigned 64 bit number, bools: 0/1). *)
Inductive sty := TBool | TI32 | TU32 | TI64 | TDbl | TU64 | TU8.

(* what the caller passes (after the views are resolved): the 16 alternatives of AttributeValue *)
Inductive aval :=
| ASc (t : sty) (z : Z)               (* bool, int32_t, int64_t, uint32_t, double, uint64_t *)
| ACStr (s : bytes)                   (* const char *: [s] = the bytes at the pointer (up to the end of the block) *)
| AStr (s : bytes)                    (* nostd::string_view *)
| AArr (t : sty) (l : list Z)         (* nostd::span<const T>, T in bool,int32,int64,uint32,double,uint64,uint8 *)
| AAStr (l : list bytes).             (* nostd::span<const nostd::string_view> *)

(* what the SDK keeps: the alternatives of OwnedAttributeValue *)
Inductive oval :=
| OSc (t : sty) (z : Z)
| OStr (s : bytes)                    (* std::string *)
| OArr (t : sty) (l : list Z)         (* std::vector<T> *)
| OAStr (l : list bytes).             (* std::vector<std::string> *)

Definition is_nul (b : byte) : bool := Byte.eqb b x00.
(* std::string from a C string: the bytes before the first NUL *)
Fixpoint until_nul (s : bytes) : bytes :=
  match s with
  | [] => []
  | b :: s' => if is_nul b then [] else b :: until_nul s'
  end.

(* AttributeConverter *)
Definition conv (v : aval) : oval :=
  match v with
  | ASc t z => OSc t z
  | ACStr s => OStr (until_nul s)
  | AStr s => OStr s
  | AArr t l => OArr t l
  | AAStr l => OAStr l
  end.

(* ------------------------------------------------------------------ AttributeMap *)
(* std::string operator< : lexicographic on unsigned bytes *)
Fixpoint bytes_cmp (a b : bytes) : comparison :=
  match a, b with
  | [], [] => Eq
  | [], _ :: _ => Lt
  | _ :: _, [] => Gt
  | x :: a', y :: b' =>
      match N.compare (b2n x) (b2n y) with
      | Eq => bytes_cmp a' b'
      | c => c
      end
  end.

Definition amap := list (bytes * oval).

(* operator[] (std::string(key)) = value, on the canonical (sorted) form *)
Fixpoint ains (k : bytes) (v : oval) (m : amap) : amap :=
  match m with
  | [] => [(k, v)]
  | (k', v') :: m' =>
      match bytes_cmp k k' with
      | Lt => (k, v) :: m
      | Eq => (k, v) :: m'
      | Gt => (k', v') :: ains k v m'
      end
  end.

(* a KeyValueIterable, in iteration order.  [V] = aval: as the caller wrote it down (a case);
   [V] = oval: after AttributeConverter copied every value (what the span machine works on) *)
Definition attrs (V : Type) := list (bytes * V).
Definition map_attrs {A B} (f : A -> B) (l : attrs A) : attrs B := map (fun kv => (fst kv, f (snd kv))) l.

(* AttributeMap::SetAttribute, after the conversion of the value *)
Definition set_attribute (m : amap) (kv : bytes * oval) : amap := ains (fst kv) (snd kv) m.
(* AttributeMap(const KeyValueIterable &) *)
Definition amap_of (l : attrs oval) : amap := fold_left set_attribute l [].

(* ------------------------------------------------------------------ SpanData *)
(* a time value is either exactly known or was read from a clock by the SDK *)
Inductive tstamp := TExact (z : Z) | TNow.

Record lctx := mk_lctx {          (* the SpanContext of a link *)
  l_tid : bytes; l_sid : bytes; l_flags : Z; l_remote : bool; l_ts : bytes (* TraceState::ToHeader *)
}.

Record event := mk_event { e_name : bytes; e_ts : tstamp; e_attrs : amap }.
Record link := mk_link { k_ctx : lctx; k_attrs : amap }.
Definition scope := (bytes * bytes * bytes)%type.      (* name, version, schema url *)

Record sdata := mk_sd {
  d_name : bytes;
  d_kind : Z;
  d_start : tstamp;
  d_dur : tstamp;
  d_status : Z;
  d_desc : bytes;
  d_ctx : bool;                    (* span_context_ is the context of the Span that owns the recordable *)
  d_attrs : amap;
  d_events : list event;
  d_links : list link;
  d_res : amap;                    (* *resource_ *)
  d_scope : scope                  (* *instrumentation_scope_ *)
}.

(* SpanData() *)
Definition empty_sd : sdata :=
  mk_sd [] 0 (TExact 0) (TExact 0) 0 [] false [] [] [] [] ([], [], []).

Definition sd_set_name (n : bytes) (d : sdata) : sdata :=
  mk_sd n (d_kind d) (d_start d) (d_dur d) (d_status d) (d_desc d) (d_ctx d) (d_attrs d) (d_events d) (d_links d) (d_res d) (d_scope d).
Definition sd_set_kind (k : Z) (d : sdata) : sdata :=
  mk_sd (d_name d) k (d_start d) (d_dur d) (d_status d) (d_desc d) (d_ctx d) (d_attrs d) (d_events d) (d_links d) (d_res d) (d_scope d).
Definition sd_set_start (t : tstamp) (d : sdata) : sdata :=
  mk_sd (d_name d) (d_kind d) t (d_dur d) (d_status d) (d_desc d) (d_ctx d) (d_attrs d) (d_events d) (d_links d) (d_res d) (d_scope d).
Definition sd_set_dur (t : tstamp) (d : sdata) : sdata :=
  mk_sd (d_name d) (d_kind d) (d_start d) t (d_status d) (d_desc d) (d_ctx d) (d_attrs d) (d_events d) (d_links d) (d_res d) (d_scope d).
Definition sd_set_status (c : Z) (s : bytes) (d : sdata) : sdata :=
  mk_sd (d_name d) (d_kind d) (d_start d) (d_dur d) c s (d_ctx d) (d_attrs d) (d_events d) (d_links d) (d_res d) (d_scope d).
Definition sd_set_identity (d : sdata) : sdata :=
  mk_sd (d_name d) (d_kind d) (d_start d) (d_dur d) (d_status d) (d_desc d) true (d_attrs d) (d_events d) (d_links d) (d_res d) (d_scope d).
Definition sd_set_attr (kv : bytes * oval) (d : sdata) : sdata :=
  mk_sd (d_name d) (d_kind d) (d_start d) (d_dur d) (d_status d) (d_desc d) (d_ctx d) (set_attribute (d_attrs d) kv) (d_events d) (d_links d) (d_res d) (d_scope d).
(* events_.push_back(SpanDataEvent(name, timestamp, attributes)) *)
Definition sd_add_event (n : bytes) (t : tstamp) (a : attrs oval) (d : sdata) : sdata :=
  mk_sd (d_name d) (d_kind d) (d_start d) (d_dur d) (d_status d) (d_desc d) (d_ctx d) (d_attrs d) (d_events d ++ [mk_event n t (amap_of a)]) (d_links d) (d_res d) (d_scope d).
Definition sd_add_link (l : lctx * attrs oval) (d : sdata) : sdata :=
  mk_sd (d_name d) (d_kind d) (d_start d) (d_dur d) (d_status d) (d_desc d) (d_ctx d) (d_attrs d) (d_events d) (d_links d ++ [mk_link (fst l) (amap_of (snd l))]) (d_res d) (d_scope d).
Definition sd_set_res (r : amap) (d : sdata) : sdata :=
  mk_sd (d_name d) (d_kind d) (d_start d) (d_dur d) (d_status d) (d_desc d) (d_ctx d) (d_attrs d) (d_events d) (d_links d) r (d_scope d).
Definition sd_set_scope (s : scope) (d : sdata) : sdata :=
  mk_sd (d_name d) (d_kind d) (d_start d) (d_dur d) (d_status d) (d_desc d) (d_ctx d) (d_attrs d) (d_events d) (d_links d) (d_res d) s.

(* ------------------------------------------------------------------ configuration, operations *)
Inductive pkind := PSimple | PBatch.       (* SimpleSpanProcessor / BatchSpanProcessor in front of the exporter *)

Record cfg (V : Type) := mk_cfg {
  c_procs : list pkind;            (* the processors given to the TracerProvider, in order *)
  c_sampled : bool;                (* AlwaysOnSampler / AlwaysOffSampler *)
  c_scope : scope;                 (* GetTracer(name, version, schema_url) *)
  c_res : attrs V                  (* the attributes the provider's Resource was built from *)
}.
Arguments mk_cfg {V}. Arguments c_procs {V}. Arguments c_sampled {V}. Arguments c_scope {V}. Arguments c_res {V}.

Record start (V : Type) := mk_start {   (* Tracer::StartSpan(name, attributes, links, options) *)
  s_name : bytes;
  s_kind : Z;
  s_sys : Z;                       (* options.start_system_time, 0 = SystemTimestamp() = not given *)
  s_steady : Z;                    (* options.start_steady_time, 0 = not given *)
  s_attrs : attrs V;
  s_links : list (lctx * attrs V)
}.
Arguments mk_start {V}. Arguments s_name {V}. Arguments s_kind {V}. Arguments s_sys {V}. Arguments s_steady {V}.
Arguments s_attrs {V}. Arguments s_links {V}.

Inductive op (V : Type) :=
| SetAttr (kv : bytes * V)
| Event (name : bytes) (ts : option Z) (a : option (attrs V))    (* the four AddEvent overloads *)
| Status (code : Z) (desc : bytes)
| UpdateName (n : bytes)
| End (t : Z)                      (* EndSpanOptions::end_steady_time, 0 = not given *)
| IsRec.                           (* IsRecording(): observation only *)
Arguments SetAttr {V}. Arguments Event {V}. Arguments Status {V}. Arguments UpdateName {V}. Arguments End {V}. Arguments IsRec {V}.

Definition map_cfg {A B} (f : A -> B) (c : cfg A) : cfg B :=
  mk_cfg (c_procs c) (c_sampled c) (c_scope c) (map_attrs f (c_res c)).
Definition map_start {A B} (f : A -> B) (s : start A) : start B :=
  mk_start (s_name s) (s_kind s) (s_sys s) (s_steady s) (map_attrs f (s_attrs s))
           (map (fun l => (fst l, map_attrs f (snd l))) (s_links s)).
Definition map_op {A B} (f : A -> B) (o : op A) : op B :=
  match o with
  | SetAttr kv => SetAttr (fst kv, f (snd kv))
  | Event n ts a => Event n ts (option_map (map_attrs f) a)
  | Status c d => Status c d
  | UpdateName n => UpdateName n
  | End t => End t
  | IsRec => IsRec
  end.

(* NowOr *)
Definition now_or (z : Z) : tstamp := if z =? 0 then TNow else TExact z.

(* ------------------------------------------------------------------ MultiRecordable, Span, processors *)
(* MultiRecordable: one child SpanData per processor (position i belongs to processor i); every setter
   is fanned out to every child *)
Definition fan (f : sdata -> sdata) (cs : list sdata) : list sdata := map f cs.

(* Span::Span for a recording span: the sequence of Recordable calls of the constructor *)
Definition span_ctor (c : cfg oval) (s : start oval) : list sdata :=
  let cs := map (fun _ => empty_sd) (c_procs c) in                       (* MultiSpanProcessor::MakeRecordable *)
  let cs := fan (sd_set_name (s_name s)) cs in
  let cs := fan (sd_set_scope (c_scope c)) cs in
  let cs := fan sd_set_identity cs in
  let cs := fold_left (fun cs kv => fan (sd_set_attr kv) cs) (s_attrs s) cs in
  let cs := fold_left (fun cs l => fan (sd_add_link l) cs) (s_links s) cs in
  let cs := fan (sd_set_kind (s_kind s)) cs in
  let cs := fan (sd_set_start (now_or (s_sys s))) cs in
  fan (sd_set_res (amap_of (c_res c))) cs.

Record world := mk_w {
  w_rec : option (list sdata);     (* Span::recordable_ (None = nullptr) *)
  w_ended : bool;                  (* Span::has_ended_ *)
  w_steady : Z;                    (* Span::start_steady_time as given (0 = read from the clock) *)
  w_got : list (list sdata);       (* what the exporter behind processor i has received so far *)
  w_q : list bool                  (* answers of IsRecording() so far *)
}.

(* Tracer::StartSpan: a Span for a sampled span, a NoopSpan otherwise *)
Definition start_span (c : cfg oval) (s : start oval) : world :=
  mk_w (if c_sampled c then Some (span_ctor c s) else None) false (s_steady s) (map (fun _ => []) (c_procs c)) [].

(* MultiSpanProcessor::OnEnd: processor i gets child i *)
Fixpoint deliver (got : list (list sdata)) (cs : list sdata) : list (list sdata) :=
  match got, cs with
  | g :: got', c :: cs' => (g ++ [c]) :: deliver got' cs'
  | _, _ => got
  end.

Definition duration (start_steady end_steady : Z) : tstamp :=
  if (start_steady =? 0) || (end_steady =? 0) then TNow else TExact (end_steady - start_steady).

(* "if (recordable_ == nullptr) return; recordable_->F(...)" *)
Definition on_rec (f : sdata -> sdata) (w : world) : world :=
  match w_rec w with
  | Some cs => mk_w (Some (fan f cs)) (w_ended w) (w_steady w) (w_got w) (w_q w)
  | None => w
  end.

Definition ev_time (ts : option Z) : tstamp := match ts with Some z => TExact z | None => TNow end.
Definition ev_attrs (a : option (attrs oval)) : attrs oval := match a with Some l => l | None => [] end.

Definition step (w : world) (o : op oval) : world :=
  match o with
  | SetAttr kv => on_rec (sd_set_attr kv) w
  | Event n ts a => on_rec (sd_add_event n (ev_time ts) (ev_attrs a)) w
  | Status c d => on_rec (sd_set_status c d) w
  | UpdateName n => on_rec (sd_set_name n) w
  | End t =>
      if w_ended w then w
      else match w_rec w with
           | None => mk_w None true (w_steady w) (w_got w) (w_q w)
           | Some cs =>
               mk_w None true (w_steady w) (deliver (w_got w) (fan (sd_set_dur (duration (w_steady w) t)) cs)) (w_q w)
           end
  | IsRec => mk_w (w_rec w) (w_ended w) (w_steady w) (w_got w)
                  (w_q w ++ [match w_rec w with Some _ => true | None => false end])
  end.

Definition run_ops (w : world) (ops : list (op oval)) : world := fold_left step ops w.

(* one case: start a span, apply the operations, drop the last reference (~Span calls End()) *)
Definition run1 (c : cfg oval) (s : start oval) (ops : list (op oval)) : world :=
  step (run_ops (start_span c s) ops) (End 0).

(* ================================================================== level 0: caller memory *)
Local Open Scope nat_scope.
Definition addr := nat.
Definition sview := (addr * nat)%type.        (* (block, number of elements): the first n elements of the block *)

Inductive blob :=
| BBytes (l : bytes)                 (* char[] *)
| BNums (l : list Z)                 (* T[] of a numeric element type *)
| BViews (l : list sview).           (* nostd::string_view[] *)

(* the heap: slot a holds the block with address a; None = freed (addresses are never reused, like
   under AddressSanitizer's quarantine) *)
Definition heap := list (option blob).
Definition hread (h : heap) (a : addr) : option blob := match nth_error h a with Some (Some b) => Some b | _ => None end.
Fixpoint hset (h : heap) (a : addr) (v : option blob) : heap :=
  match h, a with
  | [], _ => []
  | _ :: r, O => v :: r
  | x :: r, S a' => x :: hset r a' v
  end.
Definition halloc (h : heap) (b : blob) : heap := h ++ [Some b].

Definition has_nul (s : bytes) : bool := existsb is_nul s.

(* a value as the caller hands it over: scalars by value, everything else by reference *)
Inductive vval :=
| VSc (t : sty) (z : Z)
| VCStr (a : addr)
| VStr (v : sview)
| VArr (t : sty) (v : sview)
| VAStr (v : sview).

Definition read_str (h : heap) (v : sview) : option bytes :=
  match hread h (fst v) with
  | Some (BBytes l) => if Nat.leb (snd v) (length l) then Some (firstn (snd v) l) else None
  | _ => None
  end.
Fixpoint read_strs (h : heap) (vs : list sview) : option (list bytes) :=
  match vs with
  | [] => Some []
  | v :: r => match read_str h v, read_strs h r with
              | Some s, Some l => Some (s :: l)
              | _, _ => None
              end
  end.

(* AttributeConverter on a value whose storage is the caller's: the owned copy, made from the heap as
   it is during the call.  None = the call would read memory that is not (any more) there *)
Definition resolve_val (h : heap) (v : vval) : option oval :=
  match v with
  | VSc t z => Some (OSc t z)
  | VCStr a => match hread h a with
               | Some (BBytes l) => if has_nul l then Some (OStr (until_nul l)) else None
               | _ => None
               end
  | VStr v => option_map OStr (read_str h v)
  | VArr t v => match hread h (fst v) with
                | Some (BNums l) => if Nat.leb (snd v) (length l) then Some (OArr t (firstn (snd v) l)) else None
                | _ => None
                end
  | VAStr v => match hread h (fst v) with
               | Some (BViews l) => if Nat.leb (snd v) (length l) then option_map OAStr (read_strs h (firstn (snd v) l)) else None
               | _ => None
               end
  end.

Definition vattrs := list (sview * vval).
Fixpoint resolve_attrs (h : heap) (l : vattrs) : option (attrs oval) :=
  match l with
  | [] => Some []
  | (k, v) :: r => match read_str h k, resolve_val h v, resolve_attrs h r with
                   | Some k', Some v', Some r' => Some ((k', v') :: r')
                   | _, _, _ => None
                   end
  end.

Inductive hop :=
| HSetAttr (k : sview) (v : vval)
| HEvent (name : sview) (ts : option Z) (a : option vattrs)
| HStatus (code : Z) (desc : sview)
| HUpdateName (n : sview)
| HEnd (t : Z)
| HIsRec.

Definition resolve_op (h : heap) (o : hop) : option (op oval) :=
  match o with
  | HSetAttr k v => match read_str h k, resolve_val h v with
                    | Some k', Some v' => Some (SetAttr (k', v'))
                    | _, _ => None
                    end
  | HEvent n ts a => match read_str h n, (match a with Some l => option_map Some (resolve_attrs h l) | None => Some None end) with
                     | Some n', Some a' => Some (Event n' ts a')
                     | _, _ => None
                     end
  | HStatus c d => option_map (Status c) (read_str h d)
  | HUpdateName n => option_map UpdateName (read_str h n)
  | HEnd t => Some (End t)
  | HIsRec => Some IsRec
  end.

Definition touches_memory (o : hop) : bool :=
  match o with HEnd _ | HIsRec => false | _ => true end.

Record hstart := mk_hstart {
  hs_name : sview; hs_kind : Z; hs_sys : Z; hs_steady : Z; hs_attrs : vattrs; hs_links : list (lctx * vattrs)
}.
Fixpoint resolve_links (h : heap) (l : list (lctx * vattrs)) : option (list (lctx * attrs oval)) :=
  match l with
  | [] => Some []
  | (c, a) :: r => match resolve_attrs h a, resolve_links h r with
                   | Some a', Some r' => Some ((c, a') :: r')
                   | _, _ => None
                   end
  end.
Definition resolve_start (h : heap) (s : hstart) : option (start oval) :=
  match read_str h (hs_name s), resolve_attrs h (hs_attrs s), resolve_links h (hs_links s) with
  | Some n, Some a, Some l => Some (mk_start n (hs_kind s) (hs_sys s) (hs_steady s) a l)
  | _, _, _ => None
  end.

(* what a program does between/around the API calls *)
Inductive hstep :=
| HCall (o : hop)
| HAlloc (b : blob)                  (* a new block; its address is the number of blocks allocated before *)
| HWrite (a : addr) (b : blob)       (* overwrite a block *)
| HFree (a : addr).

Definition mem_step (h : heap) (s : hstep) : heap :=
  match s with
  | HCall _ => h
  | HAlloc b => halloc h b
  | HWrite a b => hset h a (Some b)
  | HFree a => hset h a None
  end.

(* a mutator on a span that is not recording returns before looking at its arguments *)
Definition call (h : heap) (w : world) (o : hop) : option world :=
  match w_rec w with
  | None => if touches_memory o then Some w else option_map (step w) (resolve_op h o)
  | Some _ => option_map (step w) (resolve_op h o)
  end.

Fixpoint run_steps (h : heap) (w : world) (p : list hstep) : option (heap * world) :=
  match p with
  | [] => Some (h, w)
  | HCall o :: p' => match call h w o with Some w' => run_steps h w' p' | None => None end
  | s :: p' => run_steps (mem_step h s) w p'
  end.

(* a whole program: memory set-up, StartSpan, the rest, ~Span.  None = some call read dead memory *)
Definition run0 (c : cfg oval) (pre : list hstep) (s : hstart) (p : list hstep) : option world :=
  let h := fold_left mem_step pre [] in
  match resolve_start h s with
  | None => None
  | Some s' => match run_steps h (start_span c s') p with
               | Some (_, w) => Some (step w (End 0))
               | None => None
               end
  end.

(* ------------------------------------------------------------------ the caller the C++ driver plays *)
(* every argument lives in its own fresh block; right after the call returns every block is
   overwritten and then freed *)
Definition trash (b : blob) : blob :=
  match b with
  | BBytes l => BBytes (map (fun _ => xdd) l)
  | BNums l => BNums (map (fun _ => (-1)%Z) l)
  | BViews l => BViews (map (fun _ => (0, 9)) l)
  end.

(* allocation of one argument: (blocks appended so far in reverse order, next free address) *)
Definition ast := (list blob * addr)%type.
Definition a_new (st : ast) (b : blob) : ast * addr := ((b :: fst st, S (snd st)), snd st).

Definition a_str (st : ast) (s : bytes) : ast * sview :=
  let (st', a) := a_new st (BBytes s) in (st', (a, length s)).
Fixpoint a_strs (st : ast) (l : list bytes) : ast * list sview :=
  match l with
  | [] => (st, [])
  | s :: r => let (st1, v) := a_str st s in let (st2, vs) := a_strs st1 r in (st2, v :: vs)
  end.
Definition a_val (st : ast) (v : aval) : ast * vval :=
  match v with
  | ASc t z => (st, VSc t z)
  | ACStr s => let (st', a) := a_new st (BBytes (s ++ [x00])) in (st', VCStr a)
  | AStr s => let (st', v) := a_str st s in (st', VStr v)
  | AArr t l => let (st', a) := a_new st (BNums l) in (st', VArr t (a, length l))
  | AAStr l => let (st1, vs) := a_strs st l in
               let (st2, a) := a_new st1 (BViews vs) in (st2, VAStr (a, length l))
  end.
Fixpoint a_attrs (st : ast) (l : attrs aval) : ast * vattrs :=
  match l with
  | [] => (st, [])
  | (k, v) :: r => let (st1, k') := a_str st k in
                   let (st2, v') := a_val st1 v in
                   let (st3, r') := a_attrs st2 r in (st3, (k', v') :: r')
  end.
Definition a_op (st : ast) (o : op aval) : ast * hop :=
  match o with
  | SetAttr (k, v) => let (st1, k') := a_str st k in let (st2, v') := a_val st1 v in (st2, HSetAttr k' v')
  | Event n ts a => let (st1, n') := a_str st n in
                    match a with
                    | Some l => let (st2, l') := a_attrs st1 l in (st2, HEvent n' ts (Some l'))
                    | None => (st1, HEvent n' ts None)
                    end
  | Status c d => let (st1, d') := a_str st d in (st1, HStatus c d')
  | UpdateName n => let (st1, n') := a_str st n in (st1, HUpdateName n')
  | End t => (st, HEnd t)
  | IsRec => (st, HIsRec)
  end.
Fixpoint a_links (st : ast) (l : list (lctx * attrs aval)) : ast * list (lctx * vattrs) :=
  match l with
  | [] => (st, [])
  | (c, a) :: r => let (st1, a') := a_attrs st a in let (st2, r') := a_links st1 r in (st2, (c, a') :: r')
  end.
Definition a_start (st : ast) (s : start aval) : ast * hstart :=
  let (st1, n) := a_str st (s_name s) in
  let (st2, a) := a_attrs st1 (s_attrs s) in
  let (st3, l) := a_links st2 (s_links s) in
  (st3, mk_hstart n (s_kind s) (s_sys s) (s_steady s) a l).

(* the blocks of one call, oldest first, with their addresses (first address = n0) *)
Fixpoint number_from (n0 : addr) (bs : list blob) : list (addr * blob) :=
  match bs with [] => [] | b :: r => (n0, b) :: number_from (S n0) r end.
Definition after_call (n0 : addr) (bs : list blob) : list hstep :=
  map (fun ab => HWrite (fst ab) (trash (snd ab))) (number_from n0 bs) ++
  map (fun ab => HFree (fst ab)) (number_from n0 bs).

(* steps for one operation when [n0] blocks have been allocated before; returns the next free address *)
Definition compile_op (n0 : addr) (o : op aval) : list hstep * addr :=
  let '((rbs, n1), ho) := a_op ([], n0) o in
  (map HAlloc (rev rbs) ++ [HCall ho] ++ after_call n0 (rev rbs), n1).
Fixpoint compile_ops (n0 : addr) (ops : list (op aval)) : list hstep :=
  match ops with
  | [] => []
  | o :: r => let (p, n1) := compile_op n0 o in p ++ compile_ops n1 r
  end.
(* (memory set-up before StartSpan, the start call's arguments, everything after it) *)
Definition compile (s : start aval) (ops : list (op aval)) : list hstep * hstart * list hstep :=
  let '((rbs, n1), hs) := a_start ([], 0) s in
  (map HAlloc (rev rbs), hs, after_call 0 (rev rbs) ++ compile_ops n1 ops).

(* the provider's Resource is built (and its attributes converted) before the span exists; the memory of
   that call is not modelled *)
Definition run_compiled (c : cfg aval) (s : start aval) (ops : list (op aval)) : option world :=
  let '(pre, hs, p) := compile s ops in run0 (map_cfg conv c) pre hs p.
