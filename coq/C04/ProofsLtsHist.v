(* C04 proofs, part 12: what [history_ok] (Glue.v) checks on every SRACE run is the [complete_history] hypothesis of
   ProofsLtsCut.v: exactly the scripted calls begin, every one returns, and the calls of one thread do not overlap. *)
From V Require Import C04.Glue C04.ProofsMap C04.ProofsLtsOrder C04.ProofsLtsCut.
From Coq Require Import Lia.
Local Open Scope nat_scope.

Definition key := (bool * nat * nat)%type.
(* index of the first occurrence, or the length *)
Fixpoint kidx (k : key) (K : list key) : nat :=
  match K with [] => 0 | a :: r => if key_eqb a k then 0 else S (kidx k r) end.

Lemma key_eqb_eq a b : key_eqb a b = true <-> a = b.
Proof.
  destruct a as [[a1 a2] a3], b as [[b1 b2] b3]. unfold key_eqb. cbn. rewrite !andb_true_iff, !Nat.eqb_eq. split.
  - intros [[H1 ->] ->]. apply eqb_prop in H1. subst. reflexivity.
  - intros [= -> -> ->]. repeat split. apply eqb_reflx.
Qed.
Lemma key_eqb_refl a : key_eqb a a = true. Proof. apply key_eqb_eq; reflexivity. Qed.

Lemma pos_of_kidx b t i h : forall n,
  pos_of b t i h n = if Nat.ltb (kidx (b, t, i) (map hev_key h)) (length h) then Some (n + kidx (b, t, i) (map hev_key h)) else None.
Proof.
  induction h as [|e h IH]; intros n; [reflexivity|]. cbn [pos_of map kidx length].
  assert (E : key_eqb (hev_key e) (b, t, i) = Bool.eqb (h_begin e) b && Nat.eqb (h_tid e) t && Nat.eqb (h_idx e) i) by reflexivity.
  rewrite E. destruct (Bool.eqb (h_begin e) b && Nat.eqb (h_tid e) t && Nat.eqb (h_idx e) i).
  - cbn. rewrite Nat.add_0_r. reflexivity.
  - rewrite IH. change (S (kidx (b, t, i) (map hev_key h)) <? S (length h)) with (kidx (b, t, i) (map hev_key h) <? length h).
    destruct (kidx (b, t, i) (map hev_key h) <? length h); [f_equal; lia|reflexivity].
Qed.
Lemma kidx_le k K : kidx k K <= length K.
Proof. induction K as [|a K IH]; [reflexivity|]. cbn. destruct (key_eqb a k); lia. Qed.
Lemma kidx_in k K : kidx k K < length K <-> In k K.
Proof.
  induction K as [|a K IH]; cbn; [split; [lia|intros []]|]. destruct (key_eqb a k) eqn:E.
  - apply key_eqb_eq in E. split; [intros _; left; exact E|lia].
  - split.
    + intros H. right. apply IH. lia.
    + intros [->|H]; [rewrite key_eqb_refl in E; discriminate|]. apply IH in H. lia.
Qed.
Lemma pb_kidx h x : pb h x = kidx (true, fst x, snd x) (map hev_key h).
Proof.
  unfold pb. rewrite pos_of_kidx. pose proof (kidx_le (true, fst x, snd x) (map hev_key h)) as L. rewrite map_length in L.
  destruct (Nat.ltb_spec (kidx (true, fst x, snd x) (map hev_key h)) (length h)); [reflexivity|lia].
Qed.
Lemma pr_kidx h x : pr h x = kidx (false, fst x, snd x) (map hev_key h).
Proof.
  unfold pr. rewrite pos_of_kidx. pose proof (kidx_le (false, fst x, snd x) (map hev_key h)) as L. rewrite map_length in L.
  destruct (Nat.ltb_spec (kidx (false, fst x, snd x) (map hev_key h)) (length h)); [reflexivity|lia].
Qed.
Lemma has_in b x h : has b x h <-> In (b, fst x, snd x) (map hev_key h).
Proof.
  unfold has. rewrite pos_of_kidx, <- kidx_in, map_length.
  destruct (Nat.ltb_spec (kidx (b, fst x, snd x) (map hev_key h)) (length h)) as [L|L]; split; intros G; try discriminate; try lia. contradiction.
Qed.

(* order is kept by filtering *)
Lemma kidx_filter_order (p : key -> bool) a b : p a = true -> p b = true -> a <> b -> forall K F1 F2,
  filter p K = F1 ++ a :: F2 -> ~ In a F1 -> ~ In b F1 -> kidx a K < kidx b K.
Proof.
  intros Pa Pb Nab. induction K as [|k K IH]; intros F1 F2 E Na Nb; [destruct F1; discriminate|].
  cbn [filter] in E. cbn [kidx]. destruct (p k) eqn:Pk.
  - destruct F1 as [|f F1]; cbn in E; injection E as -> E.
    + rewrite key_eqb_refl. destruct (key_eqb a b) eqn:Eab; [apply key_eqb_eq in Eab; contradiction|lia].
    + destruct (key_eqb f a) eqn:E1; [apply key_eqb_eq in E1; subst; exfalso; apply Na; left; reflexivity|].
      destruct (key_eqb f b) eqn:E2; [apply key_eqb_eq in E2; subst; exfalso; apply Nb; left; reflexivity|].
      apply -> Nat.succ_lt_mono. apply (IH F1 F2 E); intros H; [apply Na|apply Nb]; right; exact H.
  - destruct (key_eqb k a) eqn:E1; [apply key_eqb_eq in E1; subst; congruence|].
    destruct (key_eqb k b) eqn:E2; [apply key_eqb_eq in E2; subst; congruence|].
    apply -> Nat.succ_lt_mono. apply (IH F1 F2 E Na Nb).
Qed.

(* the expected events of a thread *)
Lemma expected_in b t i : forall i0 n, In (b, t, i) (expected_events t i0 n) <-> i0 <= i < i0 + n.
Proof.
  intros i0 n. revert i0. induction n as [|n IH]; intros i0; cbn [expected_events]; [split; [intros []|lia]|]. split.
  - intros [[= <- <-]|[[= <- <-]|H]]; try lia. apply IH in H. lia.
  - intros H. destruct (Nat.eq_dec i i0) as [->|N].
    + destruct b; [left; reflexivity|right; left; reflexivity].
    + right; right. apply IH. lia.
Qed.
Lemma expected_split t i : forall i0 n, i0 <= i < i0 + n ->
  exists F1 F2, expected_events t i0 n = F1 ++ (false, t, i) :: F2 /\ ~ In (false, t, i) F1 /\
                forall j, i < j -> ~ In (true, t, j) F1.
Proof.
  intros i0 n. revert i0. induction n as [|n IH]; intros i0 H; [lia|]. cbn [expected_events].
  destruct (Nat.eq_dec i i0) as [->|N].
  - exists [(true, t, i0)], (expected_events t (S i0) n). repeat split.
    + intros [[=]|[]].
    + intros j Hj [[= E]|[]]. lia.
  - destruct (IH (S i0)) as (F1 & F2 & E & N1 & N2); [lia|]. exists ((true, t, i0) :: (false, t, i0) :: F1), F2. repeat split.
    + cbn. rewrite E. reflexivity.
    + intros [[=]|[[= E']|H']]; [lia|exact (N1 H')].
    + intros j Hj [[= E']|[[=]|H']]; [lia|exact (N2 j Hj H')].
Qed.

Lemma list_eqb_key_eq a b : list_eqb key_eqb a b = true -> a = b.
Proof.
  revert b; induction a as [|x a IH]; destruct b as [|y b]; cbn; try discriminate; [reflexivity|].
  intros H. apply andb_true_iff in H as [H1 H2]. apply key_eqb_eq in H1. rewrite (IH b H2), H1. reflexivity.
Qed.
Lemma filter_keys t h : map hev_key (filter (fun e => Nat.eqb (h_tid e) t) h) = filter (fun k : key => Nat.eqb (snd (fst k)) t) (map hev_key h).
Proof. induction h as [|e h IH]; [reflexivity|]. cbn. destruct (Nat.eqb (h_tid e) t); cbn; rewrite IH; reflexivity. Qed.

Lemma thread_hist_ok_nth ths : forall t0 h k ops, thread_hist_ok ths t0 h = true -> nth_error ths k = Some ops ->
  filter (fun kk : key => Nat.eqb (snd (fst kk)) (t0 + k)) (map hev_key h) = expected_events (t0 + k) 0 (length ops).
Proof.
  induction ths as [|o ths IH]; intros t0 h k ops H E; [destruct k; discriminate|].
  cbn [thread_hist_ok] in H. apply andb_true_iff in H as [H1 H2]. destruct k as [|k]; cbn in E.
  - injection E as <-. rewrite Nat.add_0_r. rewrite <- filter_keys. apply list_eqb_key_eq. exact H1.
  - replace (t0 + S k) with (S t0 + k) by lia. apply IH; assumption.
Qed.

Theorem history_ok_complete (ths : list (list (op aval))) h :
  thread_hist_ok ths 0 h = true -> forallb (fun e => Nat.ltb (h_tid e) (length ths)) h = true ->
  complete_history ths h.
Proof.
  intros Ht Hb.
  assert (Hf : forall t ops, nth_error ths t = Some ops ->
               filter (fun kk : key => Nat.eqb (snd (fst kk)) t) (map hev_key h) = expected_events t 0 (length ops))
    by (intros t ops E; exact (thread_hist_ok_nth ths 0 h t ops Ht E)).
  assert (Hnth : forall t, t < length ths -> nth_error ths t = Some (nth t ths [])).
  { intros t L. destruct (nth_error ths t) eqn:E; [rewrite (nth_error_nth _ _ _ E); reflexivity|apply nth_error_None in E; lia]. }
  constructor.
  - intros [t i] Hh. apply has_in in Hh. cbn [fst snd] in Hh.
    assert (Lt : t < length ths).
    { apply in_map_iff in Hh as (ev & Ek & Hin). rewrite forallb_forall in Hb. specialize (Hb ev Hin). apply Nat.ltb_lt in Hb.
      unfold hev_key in Ek. injection Ek as _ E2 _. lia. }
    split; [exact Lt|]. cbn [fst snd].
    assert (Hin : In (true, t, i) (filter (fun kk : key => Nat.eqb (snd (fst kk)) t) (map hev_key h)))
      by (apply filter_In; split; [exact Hh|cbn; apply Nat.eqb_refl]).
    rewrite (Hf t _ (Hnth t Lt)) in Hin. apply expected_in in Hin. lia.
  - intros [t i] [Lt Li]. cbn [fst snd] in *. apply has_in. cbn [fst snd].
    assert (Hin : In (false, t, i) (expected_events t 0 (length (nth t ths [])))) by (apply expected_in; lia).
    rewrite <- (Hf t _ (Hnth t Lt)) in Hin. apply filter_In in Hin as [Hin _]. exact Hin.
  - intros t i j Hij [Lt Lj]. cbn [fst snd] in *. unfold before. apply Nat.ltb_lt. rewrite pr_kidx, pb_kidx. cbn [fst snd].
    destruct (expected_split t i 0 (length (nth t ths []))) as (F1 & F2 & E & N1 & N2); [lia|].
    apply (kidx_filter_order (fun kk : key => Nat.eqb (snd (fst kk)) t) (false, t, i) (true, t, j)) with (F1 := F1) (F2 := F2);
      try (cbn; apply Nat.eqb_refl); [discriminate| |exact N1|exact (N2 j Hij)].
    rewrite (Hf t _ (Hnth t Lt)). exact E.
Qed.

(* ------------------------------------------------------------------ what ./check runs *)
From V Require Import C04.ProofsLts C04.ProofsLtsRace.

Lemma controller_end rc :
  let xe := (length (rc_threads rc), 0) in
  valid (race_threads rc) xe /\ opa (race_threads rc) xe = End final_end.
Proof.
  cbn zeta. unfold valid, opa, race_threads. cbn [fst snd].
  rewrite app_nth2, Nat.sub_diag by lia. cbn. rewrite app_length. cbn. repeat split; lia.
Qed.

(* an SRACE run whose logged trace the acceptor accepts (./check compares the exports the acceptor derives with the ones the
   processors really received) passes every clause of SpecRace except, possibly, (d) - PARTIAL: for scripts without AddEvent *)
Theorem accepted_srace_run_meets_spec_partial rc evs s' :
  c_sampled (rc_cfg rc) = true ->
  history_ok rc (hist_of evs) = true ->
  replay (race_lts_threads rc) (linit (map_cfg conv (rc_cfg rc)) (map_start conv (rc_start rc))) (fun _ => O) evs 0 = inl s' ->
  l_mu s' = None ->
  (forall x, valid (race_threads rc) x -> match opa (race_threads rc) x with Event _ _ _ => False | _ => True end) ->
  race_check (rc_cfg rc) (rc_start rc) (race_threads rc) (hist_of evs) (l_got s') =
  check (isrec_ok (hist_of evs) (number_threads 0 (race_threads rc))) isrec_tag.
Proof.
  intros Hs Hh Hr Hmu Hnoev. unfold history_ok in Hh. apply andb_true_iff in Hh as [Hh _]. apply andb_true_iff in Hh as [H1 H2].
  pose proof (history_ok_complete (race_threads rc) (hist_of evs) H1 H2) as Hc.
  destruct (controller_end rc) as [Vx Ex]. set (xe := (length (rc_threads rc), 0)) in *.
  assert (Hret : has false xe (hist_of evs)) by (apply (ch_returned _ _ Hc); exact Vx).
  assert (Hend : is_end (op_at (conv_threads (race_threads rc)) xe) = true) by (rewrite op_at_conv, Ex; reflexivity).
  destruct (accepted_trace_race_clauses_ab (rc_cfg rc) (rc_start rc) (race_threads rc) evs s' xe Hs Hr Hmu Hret Hend) as [_ E].
  rewrite E.
  assert (Hee : is_end (opa (race_threads rc) xe) = true) by (rewrite Ex; reflexivity).
  rewrite (accepted_trace_passes_cut_partial (rc_cfg rc) (rc_start rc) (race_threads rc) evs s' xe Hr Hc Vx Hee Hnoev).
  destruct (c_procs (rc_cfg rc)); reflexivity.
Qed.
