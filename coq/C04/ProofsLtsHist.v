(* C04 proofs, part 12: what [history_ok] (Glue.v) checks on every SRACE run is the [complete_history] hypothesis of
   ProofsLtsCut.v: exactly the scripted calls begin, every one returns, and the calls of one thread do not overlap. *)
From V Require Import C04.Glue C04.ProofsMap C04.ProofsLtsOrder C04.ProofsLtsCut.
From Coq Require Import Lia.
Local Open Scope nat_scope.

Definition key := (bool * nat * nat)%type.
(* index of the first occurrence, or the length *)
Fixpoint kidx (k : key) (K : list key) : nat :=
  match K with [] => 0 | a :: r => if key_eqb a k then 0 else S (kidx k r) end.

Lemma key_eqb_eq a b : key_eqb a b = true <-> a = b.
Proof.
  destruct a as [[a1 a2] a3], b as [[b1 b2] b3]. unfold key_eqb. cbn. rewrite !andb_true_iff, !Nat.eqb_eq. split.
  - intros [[H1 ->] ->]. apply eqb_prop in H1. subst. reflexivity.
  - intros [= -> -> ->]. repeat split. apply eqb_reflx.
Qed.
Lemma key_eqb_refl a : key_eqb a a = true. Proof. apply key_eqb_eq; reflexivity. Qed.

Lemma pos_of_kidx b t i h : forall n,
  pos_of b t i h n = if Nat.ltb (kidx (b, t, i) (map hev_key h)) (length h) then Some (n + kidx (b, t, i) (map hev_key h)) else None.
Proof.
  induction h as [|e h IH]; intros n; [reflexivity|]. cbn [pos_of map kidx length].
  assert (E : key_eqb (hev_key e) (b, t, i) = Bool.eqb (h_begin e) b && Nat.eqb (h_tid e) t && Nat.eqb (h_idx e) i) by reflexivity.
  rewrite E. destruct (Bool.eqb (h_begin e) b && Nat.eqb (h_tid e) t && Nat.eqb (h_idx e) i).
  - cbn. rewrite Nat.add_0_r. reflexivity.
  - rewrite IH. change (S (kidx (b, t, i) (map hev_key h)) <? S (length h)) with (kidx (b, t, i) (map hev_key h) <? length h).
    destruct (kidx (b, t, i) (map hev_key h) <? length h); [f_equal; lia|reflexivity].
Qed.
Lemma kidx_le k K : kidx k K <= length K.
Proof. induction K as [|a K IH]; [reflexivity|]. cbn. destruct (key_eqb a k); lia. Qed.
Lemma kidx_in k K : kidx k K < length K <-> In k K.
Proof.
  induction K as [|a K IH]; cbn; [split; [lia|intros []]|]. destruct (key_eqb a k) eqn:E.
  - apply key_eqb_eq in E. split; [intros _; left; exact E|lia].
  - split.
    + intros H. right. apply IH. lia.
    + intros [->|H]; [rewrite key_eqb_refl in E; discriminate|]. apply IH in H. lia.
Qed.
Lemma pb_kidx h x : pb h x = kidx (true, fst x, snd x) (map hev_key h).
Proof.
  unfold pb. rewrite pos_of_kidx. pose proof (kidx_le (true, fst x, snd x) (map hev_key h)) as L. rewrite map_length in L.
  destruct (Nat.ltb_spec (kidx (true, fst x, snd x) (map hev_key h)) (length h)); [reflexivity|lia].
Qed.
Lemma pr_kidx h x : pr h x = kidx (false, fst x, snd x) (map hev_key h).
Proof.
  unfold pr. rewrite pos_of_kidx. pose proof (kidx_le (false, fst x, snd x) (map hev_key h)) as L. rewrite map_length in L.
  destruct (Nat.ltb_spec (kidx (false, fst x, snd x) (map hev_key h)) (length h)); [reflexivity|lia].
Qed.
Lemma has_in b x h : has b x h <-> In (b, fst x, snd x) (map hev_key h).
Proof.
  unfold has. rewrite pos_of_kidx, <- kidx_in, map_length.
  destruct (Nat.ltb_spec (kidx (b, fst x, snd x) (map hev_key h)) (length h)) as [L|L]; split; intros G; try discriminate; try lia. contradiction.
Qed.

(* order is kept by filtering *)
Lemma kidx_filter_order (p : key -> bool) a b : p a = true -> p b = true -> a <> b -> forall K F1 F2,
  filter p K = F1 ++ a :: F2 -> ~ In a F1 -> ~ In b F1 -> kidx a K < kidx b K.
Proof.
  intros Pa Pb Nab. induction K as [|k K IH]; intros F1 F2 E Na Nb; [destruct F1; discriminate|].
  cbn [filter] in E. cbn [kidx]. destruct (p k) eqn:Pk.
  - destruct F1 as [|f F1]; cbn in E; injection E as -> E.
    + rewrite key_eqb_refl. destruct (key_eqb a b) eqn:Eab; [apply key_eqb_eq in Eab; contradiction|lia].
    + destruct (key_eqb f a) eqn:E1; [apply key_eqb_eq in E1; subst; exfalso; apply Na; left; reflexivity|].
      destruct (key_eqb f b) eqn:E2; [apply key_eqb_eq in E2; subst; exfalso; apply Nb; left; reflexivity|].
      apply -> Nat.succ_lt_mono. apply (IH F1 F2 E); intros H; [apply Na|apply Nb]; right; exact H.
  - destruct (key_eqb k a) eqn:E1; [apply key_eqb_eq in E1; subst; congruence|].
    destruct (key_eqb k b) eqn:E2; [apply key_eqb_eq in E2; subst; congruence|].
    apply -> Nat.succ_lt_mono. apply (IH F1 F2 E Na Nb).
Qed.

(* the expected events of a thread *)
Lemma expected_in b t i : forall i0 n, In (b, t, i) (expected_events t i0 n) <-> i0 <= i < i0 + n.
Proof.
  intros i0 n. revert i0. induction n as [|n IH]; intros i0; cbn [expected_events]; [split; [intros []|lia]|]. split.
  - intros [[= <- <-]|[[= <- <-]|H]]; try lia. apply IH in H. lia.
  - intros H. destruct (Nat.eq_dec i i0) as [->|N].
    + destruct b; [left; reflexivity|right; left; reflexivity].
    + right; right. apply IH. lia.
Qed.
Lemma expected_split t i : forall i0 n, i0 <= i < i0 + n ->
  exists F1 F2, expected_events t i0 n = F1 ++ (false, t, i) :: F2 /\ ~ In (false, t, i) F1 /\
                forall j, i < j -> ~ In (true, t, j) F1.
Proof.
  intros i0 n. revert i0. induction n as [|n IH]; intros i0 H; [lia|]. cbn [expected_events].
  destruct (Nat.eq_dec i i0) as [->|N].
  - exists [(true, t, i0)], (expected_events t (S i0) n). repeat split.
    + intros [[=]|[]].
    + intros j Hj [[= E]|[]]. lia.
  - destruct (IH (S i0)) as (F1 & F2 & E & N1 & N2); [lia|]. exists ((true, t, i0) :: (false, t, i0) :: F1), F2. repeat split.
    + cbn. rewrite E. reflexivity.
    + intros [[=]|[[= E']|H']]; [lia|exact (N1 H')].
    + intros j Hj [[= E']|[[=]|H']]; [lia|exact (N2 j Hj H')].
Qed.

Lemma list_eqb_key_eq a b : list_eqb key_eqb a b = true -> a = b.
Proof.
  revert b; induction a as [|x a IH]; destruct b as [|y b]; cbn; try discriminate; [reflexivity|].
  intros H. apply andb_true_iff in H as [H1 H2]. apply key_eqb_eq in H1. rewrite (IH b H2), H1. reflexivity.
Qed.
Lemma filter_keys t h : map hev_key (filter (fun e => Nat.eqb (h_tid e) t) h) = filter (fun k : key => Nat.eqb (snd (fst k)) t) (map hev_key h).
Proof. induction h as [|e h IH]; [reflexivity|]. cbn. destruct (Nat.eqb (h_tid e) t); cbn; rewrite IH; reflexivity. Qed.

Lemma thread_hist_ok_nth ths : forall t0 h k ops, thread_hist_ok ths t0 h = true -> nth_error ths k = Some ops ->
  filter (fun kk : key => Nat.eqb (snd (fst kk)) (t0 + k)) (map hev_key h) = expected_events (t0 + k) 0 (length ops).
Proof.
  induction ths as [|o ths IH]; intros t0 h k ops H E; [destruct k; discriminate|].
  cbn [thread_hist_ok] in H. apply andb_true_iff in H as [H1 H2]. destruct k as [|k]; cbn in E.
  - injection E as <-. rewrite Nat.add_0_r. rewrite <- filter_keys. apply list_eqb_key_eq. exact H1.
  - replace (t0 + S k) with (S t0 + k) by lia. apply IH; assumption.
Qed.

Theorem history_ok_complete (ths : list (list (op aval))) h :
  thread_hist_ok ths 0 h = true -> forallb (fun e => Nat.ltb (h_tid e) (length ths)) h = true ->
  complete_history ths h.
Proof.
  intros Ht Hb.
  assert (Hf : forall t ops, nth_error ths t = Some ops ->
               filter (fun kk : key => Nat.eqb (snd (fst kk)) t) (map hev_key h) = expected_events t 0 (length ops))
    by (intros t ops E; exact (thread_hist_ok_nth ths 0 h t ops Ht E)).
  assert (Hnth : forall t, t < length ths -> nth_error ths t = Some (nth t ths [])).
  { intros t L. destruct (nth_error ths t) eqn:E; [rewrite (nth_error_nth _ _ _ E); reflexivity|apply nth_error_None in E; lia]. }
  constructor.
  - intros [t i] Hh. apply has_in in Hh. cbn [fst snd] in Hh.
    assert (Lt : t < length ths).
    { apply in_map_iff in Hh as (ev & Ek & Hin). rewrite forallb_forall in Hb. specialize (Hb ev Hin). apply Nat.ltb_lt in Hb.
      unfold hev_key in Ek. injection Ek as _ E2 _. lia. }
    split; [exact Lt|]. cbn [fst snd].
    assert (Hin : In (true, t, i) (filter (fun kk : key => Nat.eqb (snd (fst kk)) t) (map hev_key h)))
      by (apply filter_In; split; [exact Hh|cbn; apply Nat.eqb_refl]).
    rewrite (Hf t _ (Hnth t Lt)) in Hin. apply expected_in in Hin. lia.
  - intros [t i] [Lt Li]. cbn [fst snd] in *. apply has_in. cbn [fst snd].
    assert (Hin : In (false, t, i) (expected_events t 0 (length (nth t ths [])))) by (apply expected_in; lia).
    rewrite <- (Hf t _ (Hnth t Lt)) in Hin. apply filter_In in Hin as [Hin _]. exact Hin.
  - intros t i j Hij [Lt Lj]. cbn [fst snd] in *. unfold before. apply Nat.ltb_lt. rewrite pr_kidx, pb_kidx. cbn [fst snd].
    destruct (expected_split t i 0 (length (nth t ths []))) as (F1 & F2 & E & N1 & N2); [lia|].
    apply (kidx_filter_order (fun kk : key => Nat.eqb (snd (fst kk)) t) (false, t, i) (true, t, j)) with (F1 := F1) (F2 := F2);
      try (cbn; apply Nat.eqb_refl); [discriminate| |exact N1|exact (N2 j Hij)].
    rewrite (Hf t _ (Hnth t Lt)). exact E.
Qed.

(* ------------------------------------------------------------------ distinct event names, as [parse_rcase] checks them *)
Lemma concat_number_threads {A} (ths : list (list A)) : forall t0, map snd (concat (number_threads t0 ths)) = concat ths.
Proof.
  assert (N : forall t (ops : list A) i, map snd (number_ops t i ops) = ops).
  { intros t ops. induction ops as [|a ops IH]; intros i; [reflexivity|]. cbn. rewrite IH. reflexivity. }
  induction ths as [|ops ths IH]; intros t0; [reflexivity|]. cbn [number_threads concat]. rewrite map_app, N, IH. reflexivity.
Qed.

Definition ev_name_of (o : op aval) : list bytes := match o with Event n _ _ => [n] | _ => [] end.
Lemma event_names_flat (l : list (op aval)) : map (fun e => fst (fst e)) (events_of l) = flat_map ev_name_of l.
Proof. unfold events_of. induction l as [|o l IH]; [reflexivity|]. cbn [flat_map]. rewrite map_app, IH. destruct o; reflexivity. Qed.

Theorem names_checked_distinct (ths : list (list (op aval))) :
  nodup_names (map (fun e => fst (fst e)) (events_of (concat ths))) = true -> names_distinct ths.
Proof.
  intros H x y n ts a ts' a' Vx Vy Ox Oy.
  rewrite event_names_flat, <- (concat_number_threads ths 0), flat_map_map' in H.
  assert (Nd : NoDup (concat (number_threads 0 ths))).
  { apply (NoDup_map_inv fst). pose proof (nodup_threads (fun tc : list (nat * nat * op aval) => tc) (fun _ _ H0 => H0) (fun _ H0 => H0) ths 0) as K.
    rewrite map_id in K. exact K. }
  assert (E : (x, opa ths x) = (y, opa ths y)).
  { apply (nodup_names_inj (fun cl : nat * nat * op aval => ev_name_of (snd cl)) _ H Nd (x, opa ths x) (y, opa ths y) n).
    - apply call_in. split; [exact Vx|reflexivity].
    - apply call_in. split; [exact Vy|reflexivity].
    - cbn. rewrite Ox. reflexivity.
    - cbn. rewrite Oy. reflexivity. }
  injection E as E _. exact E.
Qed.

(* ------------------------------------------------------------------ what ./check runs *)
From V Require Import C04.ProofsLts C04.ProofsLtsRace C04.ProofsLtsRec.

Lemma controller_end rc :
  let xe := (length (rc_threads rc), 0) in
  valid (race_threads rc) xe /\ opa (race_threads rc) xe = End final_end.
Proof.
  cbn zeta. unfold valid, opa, race_threads. cbn [fst snd].
  rewrite app_nth2, Nat.sub_diag by lia. cbn. rewrite app_length. cbn. repeat split; lia.
Qed.

(* ACCEPTED TRACE MEETS SPEC (race): an SRACE run whose logged trace the acceptor accepts (./check also compares the exports
   the acceptor derives with the ones the processors really received) passes EVERY clause of SpecRace.
   Hypotheses, all checked by ./check on every run: the span is sampled, the B / R history is well-formed ([history_ok]), the
   replay ends with mu_ free, the scripts' event names are pairwise distinct ([parse_rcase]). *)
Theorem accepted_srace_run_meets_spec rc evs s' :
  c_sampled (rc_cfg rc) = true ->
  history_ok rc (hist_of evs) = true ->
  replay (race_lts_threads rc) (linit (map_cfg conv (rc_cfg rc)) (map_start conv (rc_start rc))) (fun _ => O) evs 0 = inl s' ->
  l_mu s' = None ->
  nodup_names (map (fun e => fst (fst e)) (events_of (concat (race_threads rc)))) = true ->
  race_check (rc_cfg rc) (rc_start rc) (race_threads rc) (hist_of evs) (l_got s') = [].
Proof.
  intros Hs Hh Hr Hmu Hnm. unfold history_ok in Hh. apply andb_true_iff in Hh as [Hh _]. apply andb_true_iff in Hh as [H1 H2].
  pose proof (history_ok_complete (race_threads rc) (hist_of evs) H1 H2) as Hc.
  destruct (controller_end rc) as [Vx Ex]. set (xe := (length (rc_threads rc), 0)) in *.
  assert (Hret : has false xe (hist_of evs)) by (apply (ch_returned _ _ Hc); exact Vx).
  assert (Hend : is_end (op_at (conv_threads (race_threads rc)) xe) = true) by (rewrite op_at_conv, Ex; reflexivity).
  destruct (accepted_trace_race_clauses_ab (rc_cfg rc) (rc_start rc) (race_threads rc) evs s' xe Hs Hr Hmu Hret Hend) as [_ E].
  rewrite E.
  assert (Hee : is_end (opa (race_threads rc) xe) = true) by (rewrite Ex; reflexivity).
  rewrite (accepted_trace_passes_cut (rc_cfg rc) (rc_start rc) (race_threads rc) evs s' xe Hr Hc Vx Hee (names_checked_distinct _ Hnm)).
  destruct (lock_order_is_linearization _ _ _ _ _ Hr) as (_ & Hnd & Hrt & Hbeg & Hord).
  assert (Hval : forall x, In x (ids_of (fun _ => O) evs) <-> valid (race_threads rc) x).
  { intros x. split; [intros H; apply (ch_begun _ _ Hc); apply Hbeg; exact H|intros H; apply Hrt; apply (ch_returned _ _ Hc); exact H]. }
  assert (Hans : forall ev, In ev (hist_of evs) -> h_begin ev = false -> opa (race_threads rc) (h_tid ev, h_idx ev) = IsRec ->
           exists l1 l2, ids_of (fun _ => O) evs = l1 ++ (h_tid ev, h_idx ev) :: l2 /\ h_res ev = flag (conv_threads (race_threads rc)) l1).
  { intros ev Hin Hb Ho. apply (isrecording_answers _ _ _ _ _ (Hs : c_sampled (map_cfg conv (rc_cfg rc)) = true) Hr ev Hin Hb).
    change (race_lts_threads rc) with (conv_threads (race_threads rc)). rewrite op_at_conv, Ho. reflexivity. }
  rewrite (isrec_ok_lin (race_threads rc) (hist_of evs) _ Hnd Hval Hord (ch_returned _ _ Hc) Hans).
  destruct (c_procs (rc_cfg rc)); reflexivity.
Qed.

(* the controller's thread adds no event: the names checked by [parse_rcase] (those of the scripted threads) are all the names *)
Lemma race_threads_events rc : events_of (concat (race_threads rc)) = events_of (concat (rc_threads rc)).
Proof.
  unfold race_threads. rewrite concat_app. unfold events_of. rewrite flat_map_app. cbn. rewrite app_nil_r. reflexivity.
Qed.

Corollary accepted_srace_run_meets_spec' rc evs s' :
  c_sampled (rc_cfg rc) = true ->
  history_ok rc (hist_of evs) = true ->
  replay (race_lts_threads rc) (linit (map_cfg conv (rc_cfg rc)) (map_start conv (rc_start rc))) (fun _ => O) evs 0 = inl s' ->
  l_mu s' = None ->
  nodup_names (map (fun e => fst (fst e)) (events_of (concat (rc_threads rc)))) = true ->
  race_check (rc_cfg rc) (rc_start rc) (race_threads rc) (hist_of evs) (l_got s') = [].
Proof. intros Hs Hh Hr Hmu Hn. apply accepted_srace_run_meets_spec; try assumption. rewrite race_threads_events. exact Hn. Qed.
