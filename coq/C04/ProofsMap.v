(* C04 proofs, part 1: byte-string order, the canonical attribute map, last write wins. *)
From V Require Import C04.Spec.
From Coq Require Import Lia.
Local Open Scope Z_scope.

(* ------------------------------------------------------------------ equality tests are equality *)
Lemma byte_eqb_eq a b : Byte.eqb a b = true <-> a = b.
Proof. split; [apply Byte.byte_dec_bl | intros ->; apply Byte.byte_dec_lb; reflexivity]. Qed.

Lemma bytes_eqb_eq a b : bytes_eqb a b = true <-> a = b.
Proof.
  revert b; induction a as [|x a IH]; destruct b as [|y b]; cbn; split; try congruence; try reflexivity.
  - intros H. apply andb_true_iff in H as [H1 H2]. apply byte_eqb_eq in H1. apply IH in H2. congruence.
  - intros [= -> ->]. apply andb_true_iff; split; [apply byte_eqb_eq; reflexivity | apply IH; reflexivity].
Qed.
Lemma bytes_eqb_refl a : bytes_eqb a a = true.
Proof. apply bytes_eqb_eq; reflexivity. Qed.
Lemma bytes_eqb_neq a b : a <> b -> bytes_eqb a b = false.
Proof. intros H. destruct (bytes_eqb a b) eqn:E; [apply bytes_eqb_eq in E; contradiction | reflexivity]. Qed.
Lemma bytes_eqb_sym a b : bytes_eqb a b = bytes_eqb b a.
Proof.
  destruct (bytes_eqb a b) eqn:E.
  - apply bytes_eqb_eq in E; subst. symmetry; apply bytes_eqb_refl.
  - destruct (bytes_eqb b a) eqn:E2; [apply bytes_eqb_eq in E2; subst; rewrite bytes_eqb_refl in E; discriminate | reflexivity].
Qed.

Lemma b2n_inj x y : b2n x = b2n y -> x = y.
Proof.
  unfold b2n; intros H.
  assert (Some x = Some y) as [= ->]; [|reflexivity].
  rewrite <- (Byte.of_to_N x), <- (Byte.of_to_N y), H; reflexivity.
Qed.

(* ------------------------------------------------------------------ the order of std::string *)
Lemma bytes_cmp_eq a b : bytes_cmp a b = Eq <-> a = b.
Proof.
  revert b; induction a as [|x a IH]; destruct b as [|y b]; cbn; split; try congruence; try reflexivity.
  - destruct (N.compare (b2n x) (b2n y)) eqn:C; try discriminate.
    intros H. apply N.compare_eq in C. apply b2n_inj in C. apply IH in H. congruence.
  - intros [= -> ->]. rewrite N.compare_refl. apply IH; reflexivity.
Qed.
Lemma bytes_cmp_refl a : bytes_cmp a a = Eq.
Proof. apply bytes_cmp_eq; reflexivity. Qed.

Lemma bytes_cmp_antisym a b : bytes_cmp b a = CompOpp (bytes_cmp a b).
Proof.
  revert b; induction a as [|x a IH]; destruct b as [|y b]; cbn; try reflexivity.
  rewrite (N.compare_antisym (b2n x) (b2n y)).
  destruct (N.compare (b2n x) (b2n y)); cbn; [apply IH | reflexivity | reflexivity].
Qed.
Lemma bytes_cmp_gt_lt a b : bytes_cmp a b = Gt <-> bytes_cmp b a = Lt.
Proof. rewrite (bytes_cmp_antisym a b). destruct (bytes_cmp a b); cbn; split; congruence. Qed.

Lemma bytes_cmp_trans a b c : bytes_cmp a b = Lt -> bytes_cmp b c = Lt -> bytes_cmp a c = Lt.
Proof.
  revert b c; induction a as [|x a IH]; destruct b as [|y b]; destruct c as [|z c]; cbn; try congruence.
  destruct (N.compare (b2n x) (b2n y)) eqn:C1; try discriminate;
  destruct (N.compare (b2n y) (b2n z)) eqn:C2; try discriminate; intros H1 H2.
  - apply N.compare_eq in C1, C2. rewrite C1, C2, N.compare_refl. eapply IH; eauto.
  - apply N.compare_eq in C1. rewrite C1, C2. reflexivity.
  - apply N.compare_eq in C2. rewrite <- C2, C1. reflexivity.
  - rewrite N.compare_lt_iff in C1, C2. assert (b2n x < b2n z)%N as L by lia. apply N.compare_lt_iff in L. rewrite L. reflexivity.
Qed.

(* ------------------------------------------------------------------ the canonical map *)
Definition alookup (k : bytes) (m : amap) : option oval :=
  option_map snd (find (fun kv => bytes_eqb (fst kv) k) m).

(* every key of [m] is above [k] *)
Definition above (k : bytes) (m : amap) : Prop := forall k' v', In (k', v') m -> bytes_cmp k k' = Lt.
Inductive canonical : amap -> Prop :=
| can_nil : canonical []
| can_cons k v m : above k m -> canonical m -> canonical ((k, v) :: m).

Lemma strictly_sorted_canonical m : canonical m -> strictly_sorted (map fst m) = true.
Proof.
  induction 1 as [|k v m Hab Hc IH]; [reflexivity|].
  destruct m as [|[k' v'] m']; [reflexivity|].
  cbn [map fst strictly_sorted]. rewrite (Hab k' v' (or_introl eq_refl)). exact IH.
Qed.
Lemma canonical_strictly_sorted m : strictly_sorted (map fst m) = true -> canonical m.
Proof.
  induction m as [|[k v] m IH]; [constructor|].
  intros H. destruct m as [|[k' v'] m'].
  - constructor; [intros ? ? []|constructor].
  - cbn [map fst strictly_sorted] in H. destruct (bytes_cmp k k') eqn:C; try discriminate. cbn in H.
    specialize (IH H). constructor; [|exact IH].
    inversion IH as [|? ? ? Hab' Hc']; subst.
    intros k2 v2 [[= <- <-]|Hin]; [exact C|]. eapply bytes_cmp_trans; [exact C|]. eapply Hab'; eauto.
Qed.

Lemma ains_in k v m k' v' : In (k', v') (ains k v m) -> (k' = k /\ v' = v) \/ In (k', v') m.
Proof.
  induction m as [|[k1 v1] m IH]; cbn.
  - intros [[= <- <-]|[]]; auto.
  - destruct (bytes_cmp k k1) eqn:C; cbn.
    + intros [[= <- <-]|H]; auto.
    + intros [[= <- <-]|H]; auto.
    + intros [[= <- <-]|H]; auto. destruct (IH H) as [?|?]; auto.
Qed.

Lemma ains_canonical k v m : canonical m -> canonical (ains k v m).
Proof.
  induction 1 as [|k1 v1 m Hab Hc IH]; cbn.
  - constructor; [intros ? ? []|constructor].
  - destruct (bytes_cmp k k1) eqn:C.
    + apply bytes_cmp_eq in C; subst. constructor; assumption.
    + constructor; [|constructor; assumption].
      intros k' v' [[= <- <-]|Hin]; [exact C|]. eapply bytes_cmp_trans; [exact C|]. eapply Hab; eauto.
    + constructor; [|exact IH].
      intros k' v' Hin. apply ains_in in Hin as [[-> ->]|Hin]; [apply bytes_cmp_gt_lt; exact C|eapply Hab; eauto].
Qed.

Lemma alookup_above k m : above k m -> alookup k m = None.
Proof.
  unfold alookup. induction m as [|[k1 v1] m IH]; [reflexivity|]. intros Hab. cbn.
  destruct (bytes_eqb k1 k) eqn:E.
  - apply bytes_eqb_eq in E; subst. specialize (Hab k v1 (or_introl eq_refl)).
    rewrite bytes_cmp_refl in Hab; discriminate.
  - apply IH. intros k' v' Hin. eapply Hab; right; eauto.
Qed.

(* reading back after a write: the written key gives the new value, every other key what it gave before *)
Lemma alookup_ains k v m k' : canonical m ->
  alookup k' (ains k v m) = if bytes_eqb k k' then Some v else alookup k' m.
Proof.
  unfold alookup. induction 1 as [|k1 v1 m Hab Hc IH]; cbn.
  - destruct (bytes_eqb k k'); reflexivity.
  - destruct (bytes_cmp k k1) eqn:C; cbn.
    + apply bytes_cmp_eq in C; subst k1. destruct (bytes_eqb k k') eqn:E; reflexivity.
    + destruct (bytes_eqb k k') eqn:E; reflexivity.
    + destruct (bytes_eqb k1 k') eqn:E1.
      * apply bytes_eqb_eq in E1; subst k'. rewrite bytes_eqb_neq; [reflexivity|].
        intros ->. rewrite bytes_cmp_refl in C; discriminate.
      * exact IH.
Qed.

Lemma fold_canonical (l : attrs oval) m : canonical m -> canonical (fold_left set_attribute l m).
Proof. revert m; induction l as [|[k v] l IH]; cbn; intros m H; [exact H|]. apply IH. apply ains_canonical; exact H. Qed.

(* the last write of a key among owned writes *)
Definition olast (k : bytes) (ws : attrs oval) : option oval :=
  option_map snd (find (fun kv => bytes_eqb (fst kv) k) (rev ws)).

Lemma find_app {A} (f : A -> bool) l1 l2 :
  find f (l1 ++ l2) = match find f l1 with Some x => Some x | None => find f l2 end.
Proof. induction l1 as [|a l1 IH]; cbn; [reflexivity|]. destruct (f a); [reflexivity|exact IH]. Qed.

Lemma olast_snoc k ws kv : olast k (ws ++ [kv]) = if bytes_eqb (fst kv) k then Some (snd kv) else olast k ws.
Proof. unfold olast. rewrite rev_app_distr. cbn. destruct (bytes_eqb (fst kv) k); reflexivity. Qed.
Lemma olast_cons k ws kv : olast k (kv :: ws) = match olast k ws with Some v => Some v | None => if bytes_eqb (fst kv) k then Some (snd kv) else None end.
Proof.
  unfold olast. cbn [rev]. rewrite find_app. destruct (find _ (rev ws)); [reflexivity|]. cbn.
  destruct (bytes_eqb (fst kv) k); reflexivity.
Qed.

(* LAST WRITE WINS, on the map the code builds: after any sequence of writes on top of [m], key k holds the
   value of the last write of k, or what [m] had when k was not written *)
Lemma fold_lookup (l : attrs oval) m k : canonical m ->
  alookup k (fold_left set_attribute l m) = match olast k l with Some v => Some v | None => alookup k m end.
Proof.
  revert m; induction l as [|[k1 v1] l IH]; intros m Hc; [reflexivity|].
  cbn [fold_left]. rewrite IH by (apply ains_canonical; exact Hc).
  rewrite olast_cons. destruct (olast k l); [reflexivity|].
  unfold set_attribute; cbn [fst snd]. rewrite alookup_ains by exact Hc. destruct (bytes_eqb k1 k); reflexivity.
Qed.

Lemma fold_keys (l : attrs oval) m k v : In (k, v) (fold_left set_attribute l m) ->
  (exists v', In (k, v') l) \/ In (k, v) m.
Proof.
  revert m; induction l as [|[k1 v1] l IH]; intros m H; [right; exact H|].
  cbn [fold_left] in H. apply IH in H as [[v' H]|H].
  - left; exists v'; right; exact H.
  - apply ains_in in H as [[-> ->]|H]; [left; exists v1; left; reflexivity | right; exact H].
Qed.

Lemma alookup_in m k v : canonical m -> In (k, v) m -> alookup k m = Some v.
Proof.
  unfold alookup. induction 1 as [|k1 v1 m Hab Hc IH]; [intros []|].
  intros [[= -> ->]|Hin]; cbn.
  - rewrite bytes_eqb_refl; reflexivity.
  - rewrite bytes_eqb_neq; [apply IH; exact Hin|].
    intros ->. specialize (Hab k v Hin). rewrite bytes_cmp_refl in Hab; discriminate.
Qed.
Lemma alookup_some_in m k v : alookup k m = Some v -> In (k, v) m.
Proof.
  unfold alookup. induction m as [|[k1 v1] m IH]; cbn; [discriminate|].
  destruct (bytes_eqb k1 k) eqn:E; cbn.
  - intros [= <-]. apply bytes_eqb_eq in E; subst. left; reflexivity.
  - intros H; right; apply IH; exact H.
Qed.

(* ------------------------------------------------------------------ the owned copy of every alternative *)
Lemma until_nul_c_string s : until_nul s = c_string s.
Proof.
  unfold c_string, index_of.
  assert (G : forall i, match index_of_from x00 s i with
                        | Some j => (i <= j)%nat /\ until_nul s = firstn (j - i) s
                        | None => until_nul s = s end).
  { induction s as [|b s IH]; intros i; cbn; [reflexivity|].
    unfold is_nul. destruct (Byte.eqb b x00) eqn:E.
    - split; [lia|]. rewrite Nat.sub_diag. reflexivity.
    - specialize (IH (S i)). destruct (index_of_from x00 s (S i)) as [j|].
      + destruct IH as [L IH]. split; [lia|]. replace (j - i)%nat with (S (j - S i)) by lia. cbn. rewrite IH; reflexivity.
      + rewrite IH; reflexivity. }
  specialize (G 0%nat). destruct (index_of_from x00 s 0) as [j|]; [|exact G].
  destruct G as [_ G]. rewrite Nat.sub_0_r in G. exact G.
Qed.

(* AttributeConverter produces the owned copy the property speaks of, for all 16 alternatives *)
Lemma conv_owned v : conv v = owned v.
Proof. destruct v; cbn; try reflexivity. rewrite until_nul_c_string; reflexivity. Qed.

(* ------------------------------------------------------------------ reflexivity of the remaining tests *)
Lemma sty_eqb_refl t : sty_eqb t t = true.
Proof. destruct t; reflexivity. Qed.
Lemma zs_eqb_refl l : zs_eqb l l = true.
Proof. induction l; cbn; [reflexivity|]. rewrite Z.eqb_refl; exact IHl. Qed.
Lemma strs_eqb_refl l : strs_eqb l l = true.
Proof. induction l; cbn; [reflexivity|]. rewrite bytes_eqb_refl; exact IHl. Qed.
Lemma oval_eqb_refl v : oval_eqb v v = true.
Proof.
  destruct v; cbn; rewrite ?sty_eqb_refl, ?Z.eqb_refl, ?bytes_eqb_refl, ?zs_eqb_refl, ?strs_eqb_refl; reflexivity.
Qed.
Lemma amap_eqb_refl m : amap_eqb m m = true.
Proof. induction m as [|[k v] m IH]; cbn; [reflexivity|]. rewrite bytes_eqb_refl, oval_eqb_refl; exact IH. Qed.
Lemma tstamp_eqb_refl t : tstamp_eqb t t = true.
Proof. destruct t; cbn; [apply Z.eqb_refl|reflexivity]. Qed.
Lemma lctx_eqb_refl c : lctx_eqb c c = true.
Proof. unfold lctx_eqb. rewrite !bytes_eqb_refl, Z.eqb_refl, eqb_reflx; reflexivity. Qed.
Lemma event_eqb_refl e : event_eqb e e = true.
Proof. unfold event_eqb. rewrite bytes_eqb_refl, tstamp_eqb_refl, amap_eqb_refl; reflexivity. Qed.
Lemma link_eqb_refl l : link_eqb l l = true.
Proof. unfold link_eqb. rewrite lctx_eqb_refl, amap_eqb_refl; reflexivity. Qed.
Lemma list_eqb_refl {A} (eqb : A -> A -> bool) : (forall x, eqb x x = true) -> forall l, list_eqb eqb l l = true.
Proof. intros H l; induction l; cbn; [reflexivity|]. rewrite H; exact IHl. Qed.
Lemma scope_eqb_refl s : scope_eqb s s = true.
Proof. unfold scope_eqb. rewrite !bytes_eqb_refl; reflexivity. Qed.
Lemma sdata_eqb_refl d : sdata_eqb d d = true.
Proof.
  unfold sdata_eqb.
  rewrite !bytes_eqb_refl, !Z.eqb_refl, !tstamp_eqb_refl, eqb_reflx, !amap_eqb_refl,
    (list_eqb_refl event_eqb event_eqb_refl), (list_eqb_refl link_eqb link_eqb_refl), scope_eqb_refl.
  reflexivity.
Qed.
Lemma bools_eqb_refl l : bools_eqb l l = true.
Proof. induction l; cbn; [reflexivity|]. rewrite eqb_reflx; exact IHl. Qed.

(* ------------------------------------------------------------------ the map check of the SPEC holds for the fold *)
Lemma last_write_map k (ws : attrs aval) :
  olast k (map_attrs conv ws) = option_map owned (last_write k ws).
Proof.
  unfold olast, last_write, map_attrs. rewrite <- map_rev.
  induction (rev ws) as [|[k1 v1] l IH]; cbn; [reflexivity|].
  destruct (bytes_eqb k1 k); cbn; [rewrite conv_owned; reflexivity | exact IH].
Qed.

Lemma amap_ok_fold (ws : attrs aval) :
  amap_ok ws (amap_of (map_attrs conv ws)) = (true, true, true).
Proof.
  unfold amap_ok, amap_of.
  assert (Hc : canonical (fold_left set_attribute (map_attrs conv ws) [])) by (apply fold_canonical; constructor).
  rewrite (strictly_sorted_canonical _ Hc).
  match goal with |- (_, ?a, ?b) = _ => assert (a = true) as ->; [|assert (b = true) as ->; [|reflexivity]] end.
  - apply forallb_forall. intros [k v] Hin. cbn [fst snd].
    pose proof (alookup_in _ _ _ Hc Hin) as L. rewrite fold_lookup in L by constructor.
    rewrite last_write_map in L. destruct (last_write k ws) as [v0|]; cbn in L.
    + injection L as <-. apply oval_eqb_refl.
    + discriminate.
  - apply forallb_forall. intros [k v] Hin. cbn [fst]. apply existsb_exists.
    assert (exists v', alookup k (fold_left set_attribute (map_attrs conv ws) []) = Some v') as [v' L].
    { rewrite fold_lookup by constructor. rewrite last_write_map.
      destruct (last_write k ws) as [v0|] eqn:E; cbn; [eauto|].
      exfalso. unfold last_write in E.
      destruct (find (fun kv => bytes_eqb (fst kv) k) (rev ws)) eqn:F; [discriminate|].
      assert (X : bytes_eqb (fst (k, v)) k = false) by (apply (find_none _ _ F (k, v)); apply in_rev; rewrite rev_involutive; exact Hin).
      cbn in X. rewrite bytes_eqb_refl in X. discriminate. }
    exists (k, v'). split; [apply alookup_some_in; exact L | apply bytes_eqb_refl].
Qed.

Lemma amap_check_fold what (ws : attrs aval) : amap_check what ws (amap_of (map_attrs conv ws)) = [].
Proof. unfold amap_check. rewrite amap_ok_fold. reflexivity. Qed.

(* non-vacuity: a map with a duplicate key, an embedded NUL and a C string *)
Example amap_example :
  amap_of (map_attrs conv [(bs "b", ASc TI32 1); (bs "a", ACStr [x61; x00; x62]); (bs "b", AAStr [[]; [x00]])])
  = [(bs "a", OStr [x61]); (bs "b", OAStr [[]; [x00]])].
Proof. reflexivity. Qed.
