(* C04, MRACE cases (several spans, one thread each, ended concurrently on the same processors): what the model prints - for every
   processor one slot per thread holding the export of the sequential machine on that thread's operations - passes the SPEC
   [mrace_check].  (Each span is used by one thread only, so its content does not depend on the interleaving; that the processors
   hand every span to their exporter exactly once under concurrency is checked on the explored schedules, not proved.) *)
From V Require Import C04.Glue C04.ProofsMap C04.ProofsStep C04.ProofsMeets.
From Coq Require Import Lia.
Local Open Scope nat_scope.

Definition mrace_model_procs (mc : mcase) : list (list (list sdata)) :=
  map (fun p => map (fun w => nth p (w_got w) []) (map (mthread_world (mc_cfg mc)) (mc_threads mc)))
      (nat_seq (length (c_procs (mc_cfg mc)))).

Lemma nat_seq_in n p : In p (nat_seq n) -> p < n.
Proof. induction n as [|n IH]; [intros []|]. cbn. intros H. apply in_app_or in H as [H|[<-|[]]]; [specialize (IH H); lia|lia]. Qed.
Lemma nat_seq_length n : length (nat_seq n) = n.
Proof. induction n as [|n IH]; [reflexivity|]. cbn. rewrite app_length, IH. cbn. lia. Qed.

Lemma slots_check_model c ths p : c_sampled c = true -> p < length (c_procs c) ->
  slots_check c ths (map (fun w => nth p (w_got w) []) (map (mthread_world c) ths)) = [].
Proof.
  intros Hs Hp. induction ths as [|t ths IH]; [reflexivity|]. cbn [map slots_check].
  unfold mthread_world at 1. rewrite run1_sampled by exact Hs. cbn [w_got map_cfg c_procs].
  destruct (nth_error (c_procs c) p) as [k|] eqn:E; [|apply nth_error_None in E; lia].
  assert (N : nth p (map (fun _ : pkind => [export (map_cfg conv c) (map_start conv (mt_start t)) (map (map_op conv) (mt_ops t))]) (c_procs c)) []
              = [export (map_cfg conv c) (map_start conv (mt_start t)) (map (map_op conv) (mt_ops t))]).
  { apply nth_error_nth with (d := []). rewrite (map_nth_error _ _ _ E). reflexivity. }
  rewrite N. pose proof (span_check_export c (mt_start t) (mt_ops t)) as K. unfold conv_case_ops in K. rewrite K. exact IH.
Qed.

Theorem mrace_model_meets_spec mc : c_sampled (mc_cfg mc) = true -> mrace_check mc 0 0 (mrace_model_procs mc) = [].
Proof.
  intros Hs. unfold mrace_check, mrace_model_procs. cbn [Z.eqb check app]. rewrite map_length, nat_seq_length, Nat.eqb_refl. cbn [check app].
  rewrite flat_map_concat_map, map_map.
  assert (E : forall l, (forall p, In p l -> p < length (c_procs (mc_cfg mc))) ->
    concat (map (fun p => slots_check (mc_cfg mc) (mc_threads mc)
                  (map (fun w => nth p (w_got w) []) (map (mthread_world (mc_cfg mc)) (mc_threads mc)))) l) = []).
  { induction l as [|p l IH]; intros H; [reflexivity|]. cbn. rewrite slots_check_model; [|exact Hs|apply H; left; reflexivity].
    apply IH. intros q Hq. apply H; right; exact Hq. }
  apply E. intros p Hp. apply nat_seq_in. exact Hp.
Qed.
