(* C04 proofs, part 11: the race SPEC's search for a cut (SpecRace.v, clause (c)) succeeds on every outcome that
   has a linearization - a total order of the calls that respects the real-time order of the history and whose
   sequential export is what the processors received. *)
From V Require Import C04.Glue C04.ProofsMap C04.ProofsStep C04.ProofsMeets C04.ProofsLts C04.ProofsLtsOrder C04.ProofsLtsRace.
From Coq Require Import Lia.
Local Open Scope nat_scope.

(* ------------------------------------------------------------------ lists *)
Definition take_while {A} (p : A -> bool) (l : list A) : list A := firstn (count_while p l) l.
Lemma count_while_cons {A} (p : A -> bool) a l : count_while p (a :: l) = if p a then S (count_while p l) else 0.
Proof. reflexivity. Qed.
Lemma take_while_cons {A} (p : A -> bool) a l : take_while p (a :: l) = if p a then a :: take_while p l else [].
Proof. unfold take_while. rewrite count_while_cons. destruct (p a); reflexivity. Qed.
Lemma take_while_sat {A} (p : A -> bool) l x : In x (take_while p l) -> p x = true /\ In x l.
Proof.
  induction l as [|a l IH]; [intros []|]. rewrite take_while_cons. destruct (p a) eqn:E; [|intros []].
  intros [<-|H]; [split; [exact E|left; reflexivity]|]. destruct (IH H). split; [assumption|right; assumption].
Qed.
Lemma take_while_in {A} (p : A -> bool) l1 x l2 : (forall a, In a l1 -> p a = true) -> p x = true -> In x (take_while p (l1 ++ x :: l2)).
Proof.
  induction l1 as [|a l1 IH]; intros H Hx; cbn [app]; rewrite take_while_cons.
  - rewrite Hx. left; reflexivity.
  - rewrite (H a (or_introl eq_refl)). right. apply IH; [intros b Hb; apply H; right; exact Hb|exact Hx].
Qed.
Lemma count_while_mono {A} (p q : A -> bool) l : (forall a, In a l -> p a = true -> q a = true) -> count_while p l <= count_while q l.
Proof.
  induction l as [|a l IH]; intros H; [reflexivity|]. rewrite !count_while_cons. destruct (p a) eqn:E; [|lia].
  rewrite (H a (or_introl eq_refl) E). apply le_n_S. apply IH. intros b Hb. apply H; right; exact Hb.
Qed.
Lemma count_while_le {A} (p : A -> bool) l : count_while p l <= length l.
Proof. induction l as [|a l IH]; [reflexivity|]. rewrite count_while_cons. cbn [length]. destruct (p a); lia. Qed.

Lemma range_in lo n x : lo <= x < lo + n -> In x (range lo n).
Proof. revert lo; induction n as [|n IH]; intros lo H; [lia|]. cbn. destruct (Nat.eq_dec lo x); [left; assumption|right; apply IH; lia]. Qed.
Lemma cuts_map_in {A} (f : A -> nat * nat) (g : A -> nat) l :
  (forall a, In a l -> fst (f a) <= g a <= snd (f a)) -> In (map g l) (cuts (map f l)).
Proof.
  induction l as [|a l IH]; intros H; [left; reflexivity|]. cbn [map cuts].
  destruct (f a) as [lo hi] eqn:E. apply in_flat_map. exists (g a). split.
  - apply range_in. specialize (H a (or_introl eq_refl)). rewrite E in H. cbn in H. lia.
  - apply in_map. apply IH. intros b Hb. apply H; right; exact Hb.
Qed.
Lemma included_map (ths : list (list rcall)) (g : list rcall -> nat) :
  included ths (map g ths) = concat (map (fun t => firstn (g t) t) ths).
Proof. induction ths as [|t r IH]; [reflexivity|]. cbn. rewrite IH. reflexivity. Qed.

Lemma min_list_ge l d a : (forall v, In v l -> a <= v) -> a <= d -> a <= min_list l d.
Proof. induction l as [|x l IH]; intros H Hd; cbn; [exact Hd|]. apply Nat.min_glb; [apply H; left; reflexivity|apply IH; [intros v Hv; apply H; right; exact Hv|exact Hd]]. Qed.
Lemma min_list_le l d v : In v l -> min_list l d <= v.
Proof. induction l as [|x l IH]; [intros []|]. intros [->|H]; cbn; [apply Nat.le_min_l|]. etransitivity; [apply Nat.le_min_r|apply IH; exact H]. Qed.

(* the first element satisfying q *)
Lemma first_split {A} (q : A -> bool) l : existsb q l = true ->
  exists P e R, l = P ++ e :: R /\ q e = true /\ forall a, In a P -> q a = false.
Proof.
  induction l as [|a l IH]; [discriminate|]. cbn. destruct (q a) eqn:E.
  - intros _. exists [], a, l. repeat split; [exact E|intros ? []].
  - intros H. destruct (IH H) as (P & e & R & -> & He & Hp). exists (a :: P), e, R. repeat split; [exact He|].
    intros b [<-|Hb]; [exact E|apply Hp; exact Hb].
Qed.
(* the last element satisfying q *)
Lemma last_split {A} (q : A -> bool) l : existsb q l = true ->
  exists P e R, l = P ++ e :: R /\ q e = true /\ forall a, In a R -> q a = false.
Proof.
  induction l as [|a l IH]; [discriminate|]. cbn. destruct (existsb q l) eqn:El.
  - intros _. destruct (IH eq_refl) as (P & e & R & -> & He & Hr). exists (a :: P), e, R. repeat split; assumption.
  - rewrite orb_false_r. intros Ha. exists [], a, l. repeat split; [exact Ha|].
    intros b Hb. destruct (q b) eqn:Eb; [|reflexivity].
    assert (existsb q l = true) by (apply existsb_exists; exists b; split; assumption). congruence.
Qed.

Definition cid_eqb (a b : cid) : bool := Nat.eqb (fst a) (fst b) && Nat.eqb (snd a) (snd b).
Lemma cid_eqb_eq a b : cid_eqb a b = true <-> a = b.
Proof.
  destruct a as [a1 a2], b as [b1 b2]. unfold cid_eqb. cbn. rewrite andb_true_iff, !Nat.eqb_eq. split; [intros [-> ->]; reflexivity|intros [= -> ->]; auto].
Qed.
Definition mem (P : list cid) (x : cid) : bool := existsb (cid_eqb x) P.
Lemma mem_in P x : mem P x = true <-> In x P.
Proof.
  unfold mem. rewrite existsb_exists. split.
  - intros (y & Hy & E). apply cid_eqb_eq in E. subst. exact Hy.
  - intros H. exists x. split; [exact H|apply cid_eqb_eq; reflexivity].
Qed.

(* ------------------------------------------------------------------ order in duplicate-free lists *)
Lemma precedes_tail (A B : list cid) x y : NoDup (A ++ B) -> In x B -> precedes x y (A ++ B) -> In y B.
Proof.
  induction A as [|a A IH]; intros Hn Hx (l1 & l2 & E & Hy).
  - cbn in E. subst B. apply in_or_app; right; right; exact Hy.
  - destruct l1 as [|b l1]; cbn in E; injection E as E1 E2.
    + subst a. inversion Hn as [|? ? Hna _]; subst. exfalso. apply Hna. apply in_or_app; right; exact Hx.
    + inversion Hn; subst. apply IH; [assumption|exact Hx|]. exists l1, l2. split; [exact E2|exact Hy].
Qed.
Lemma precedes_irrefl (l : list cid) x : NoDup l -> ~ precedes x x l.
Proof.
  intros Hn (l1 & l2 & -> & Hx). apply NoDup_remove_2 in Hn. apply Hn. apply in_or_app; right; exact Hx.
Qed.
Lemma precedes_in (l : list cid) x y : precedes x y l -> In x l /\ In y l.
Proof. intros (l1 & l2 & -> & Hy). split; apply in_or_app; right; [left; reflexivity|right; exact Hy]. Qed.
Lemma precedes_asym (l : list cid) x y : NoDup l -> precedes x y l -> ~ precedes y x l.
Proof.
  intros Hn (l1 & l2 & -> & Hy) Hyx.
  assert (Hn2 : NoDup ((l1 ++ [x]) ++ l2)) by (rewrite <- app_assoc; exact Hn).
  assert (Hp2 : precedes y x ((l1 ++ [x]) ++ l2)) by (rewrite <- app_assoc; exact Hyx).
  pose proof (precedes_tail (l1 ++ [x]) l2 y x Hn2 Hy Hp2) as K.
  apply NoDup_remove_2 in Hn. apply Hn. apply in_or_app; right; exact K.
Qed.
(* with l = P ++ e :: R: whatever precedes an element of P ++ [e] is in P *)
Lemma precedes_prefix (P R : list cid) e x y : NoDup (P ++ e :: R) -> precedes x y (P ++ e :: R) -> In y P \/ y = e -> In x P.
Proof.
  intros Hn Hp Hy. destruct (precedes_in _ _ _ Hp) as [Hx _].
  apply in_app_or in Hx as [Hx|Hx]; [exact Hx|exfalso].
  pose proof (precedes_tail P (e :: R) x y Hn Hx Hp) as K.
  destruct Hy as [Hy| ->].
  - (* y in P and in e :: R *)
    clear Hp. induction P as [|a P IH]; [contradiction|]. inversion Hn as [|? ? Hna Hn']; subst.
    destruct Hy as [<-|Hy]; [apply Hna; apply in_or_app; right; exact K|apply IH; assumption].
  - destruct Hx as [<-|Hx].
    + exact (precedes_irrefl _ _ Hn Hp).
    + assert (Hn2 : NoDup ((P ++ [e]) ++ R)) by (rewrite <- app_assoc; exact Hn).
      assert (Hp2 : precedes x e ((P ++ [e]) ++ R)) by (rewrite <- app_assoc; exact Hp).
      pose proof (precedes_tail (P ++ [e]) R x e Hn2 Hx Hp2) as K2.
      apply NoDup_remove_2 in Hn. apply Hn. apply in_or_app; right; exact K2.
Qed.

(* ------------------------------------------------------------------ numbered calls *)
Lemma number_ops_in {A} t (ops : list A) : forall i x o,
  In (x, o) (number_ops t i ops) <-> fst x = t /\ i <= snd x /\ nth_error ops (snd x - i) = Some o.
Proof.
  induction ops as [|a ops IH]; intros i x o; cbn [number_ops].
  - split; [intros []|]. intros (_ & _ & H). destruct (snd x - i); discriminate.
  - split.
    + intros [[= <- <-]|H].
      * cbn. rewrite Nat.sub_diag. auto.
      * apply IH in H as (H1 & H2 & H3). repeat split; [exact H1|lia|].
        replace (snd x - i) with (S (snd x - S i)) by lia. exact H3.
    + intros (H1 & H2 & H3). destruct (Nat.eq_dec (snd x) i) as [E|N].
      * left. rewrite E, Nat.sub_diag in H3. cbn in H3. injection H3 as <-. destruct x; cbn in *; subst; reflexivity.
      * right. apply IH. repeat split; [exact H1|lia|]. replace (snd x - i) with (S (snd x - S i)) in H3 by lia. exact H3.
Qed.
Lemma number_ops_split {A} t (ops : list A) : forall i l1 x o l2, number_ops t i ops = l1 ++ (x, o) :: l2 ->
  forall a, In a l1 -> fst (fst a) = t /\ snd (fst a) < snd x.
Proof.
  induction ops as [|a0 ops IH]; intros i l1 x o l2 E a Ha; cbn [number_ops] in E.
  - destruct l1; discriminate.
  - destruct l1 as [|b l1]; [contradiction|]. cbn in E. injection E as <- E.
    assert (Hx : In (x, o) (number_ops t (S i) ops)) by (rewrite E; apply in_or_app; right; left; reflexivity).
    apply number_ops_in in Hx as (_ & Hx & _).
    destruct Ha as [<-|Ha]; [cbn; split; [reflexivity|lia]|]. eapply IH; eauto.
Qed.
Lemma number_threads_in {A} (ths : list (list A)) : forall t0 tc, In tc (number_threads t0 ths) ->
  exists t, t0 <= t /\ tc = number_ops t 0 (nth (t - t0) ths []) /\ t - t0 < length ths.
Proof.
  induction ths as [|ops ths IH]; intros t0 tc; cbn [number_threads]; [intros []|].
  intros [<-|H].
  - exists t0. rewrite Nat.sub_diag. cbn. repeat split; lia.
  - destruct (IH _ _ H) as (t & L & E & B). exists t. repeat split; [lia| |cbn; lia].
    replace (t - t0) with (S (t - S t0)) by lia. exact E.
Qed.
Lemma number_threads_all {A} (ths : list (list A)) : forall t0 t, t < length ths ->
  In (number_ops (t0 + t) 0 (nth t ths [])) (number_threads t0 ths).
Proof.
  induction ths as [|ops ths IH]; intros t0 t L; cbn in L; [lia|]. cbn [number_threads].
  destruct t as [|t]; [left; rewrite Nat.add_0_r; reflexivity|]. right.
  replace (t0 + S t) with (S t0 + t) by lia. apply IH. lia.
Qed.

Lemma before_end_noend {V} (l : list (op V)) : (forall o, In o l -> is_end o = false) -> before_end l = l.
Proof. induction l as [|o l IH]; intros H; [reflexivity|]. cbn. rewrite (H o (or_introl eq_refl)). f_equal. apply IH. intros x Hx; apply H; right; exact Hx. Qed.
Lemma end_time_first {V} (A : list (op V)) t B : (forall o, In o A -> is_end o = false) -> end_time (A ++ End t :: B) = t.
Proof.
  unfold end_time. induction A as [|o A IH]; intros H; [reflexivity|]. cbn. rewrite (H o (or_introl eq_refl)). apply IH.
  intros x Hx; apply H; right; exact Hx.
Qed.


(* ------------------------------------------------------------------ duplicate-free lists of call ids *)
Lemma nodup_app' {A} (a b : list A) : NoDup a -> NoDup b -> (forall x, In x a -> ~ In x b) -> NoDup (a ++ b).
Proof.
  induction 1 as [|x a Hx Ha IH]; intros Hb Hd; [exact Hb|]. cbn. constructor.
  - intros Hin. apply in_app_or in Hin as [Hin|Hin]; [contradiction|]. exact (Hd x (or_introl eq_refl) Hin).
  - apply IH; [exact Hb|]. intros y Hy. apply Hd. right; exact Hy.
Qed.
Lemma nodup_app_l {A} (a b : list A) : NoDup (a ++ b) -> NoDup a.
Proof. induction a as [|x a IH]; intros H; [constructor|]. inversion H; subst. constructor; [intros Hin; apply H2; apply in_or_app; left; exact Hin|apply IH; assumption]. Qed.
Lemma nodup_map_filter {A B} (f : A -> B) (p : A -> bool) l : NoDup (map f l) -> NoDup (map f (filter p l)).
Proof.
  induction l as [|a l IH]; intros H; [constructor|]. cbn in *. inversion H; subst. destruct (p a); [|apply IH; assumption].
  cbn. constructor; [|apply IH; assumption]. intros Hin. apply H2. apply in_map_iff in Hin as (x & E & Hx). apply filter_In in Hx as [Hx _].
  apply in_map_iff. exists x. split; assumption.
Qed.
Lemma firstn_subset' {A} n : forall (l : list A) x, In x (firstn n l) -> In x l.
Proof. induction n as [|n IH]; intros l x H; [contradiction|]. destruct l as [|a l]; [contradiction|]. destruct H as [->|H]; [left; reflexivity|right; apply IH; exact H]. Qed.
Lemma nodup_map_firstn {A B} (f : A -> B) n (l : list A) : NoDup (map f l) -> NoDup (map f (firstn n l)).
Proof.
  revert l; induction n as [|n IH]; intros l H; [constructor|]. destruct l as [|a l]; [constructor|]. cbn in *. inversion H; subst.
  constructor; [|apply IH; assumption]. intros Hin. apply H2. apply in_map_iff in Hin as (x & E & Hx). apply in_map_iff. exists x. split; [exact E|].
  eapply (firstn_subset' n); exact Hx.
Qed.
Lemma nodup_number_ops {A} t (ops : list A) : forall i, NoDup (map fst (number_ops t i ops)).
Proof.
  induction ops as [|a ops IH]; intros i; [constructor|]. cbn. constructor; [|apply IH].
  intros Hin. apply in_map_iff in Hin as ([x o] & E & Hx). cbn in E. subst x. apply number_ops_in in Hx as (_ & L & _). cbn in L. lia.
Qed.
(* any per-thread selection of the numbered calls that keeps sub-lists duplicate-free *)
Lemma nodup_threads {A} (g : list (nat * nat * A) -> list (nat * nat * A)) :
  (forall tc x, In x (g tc) -> In x tc) -> (forall tc, NoDup (map fst tc) -> NoDup (map fst (g tc))) ->
  forall (ths : list (list A)) t0, NoDup (map fst (concat (map g (number_threads t0 ths)))).
Proof.
  intros G1 G2. induction ths as [|ops ths IH]; intros t0; [constructor|]. cbn [number_threads map concat]. rewrite map_app.
  apply nodup_app'; [apply G2; apply nodup_number_ops|apply IH|].
  intros x Hx Hy. apply in_map_iff in Hx as ([x1 o1] & E1 & H1). apply in_map_iff in Hy as ([x2 o2] & E2 & H2). cbn in E1, E2. subst x1 x2.
  apply G1 in H1. apply number_ops_in in H1 as (F1 & _).
  apply in_concat in H2 as (l & Hl & H2). apply in_map_iff in Hl as (tc & <- & Htc). apply G1 in H2.
  apply number_threads_in in Htc as (t & Lt & -> & _). apply number_ops_in in H2 as (F2 & _). cbn in *. lia.
Qed.

(* names of a duplicate-free family with at most one name each *)
Lemma nodup_names_flat {A} (f : A -> list bytes) l : NoDup l ->
  (forall x, f x = [] \/ exists n, f x = [n]) ->
  (forall x y n, In x l -> In y l -> f x = [n] -> f y = [n] -> x = y) ->
  nodup_names (flat_map f l) = true.
Proof.
  induction 1 as [|a l Ha Hl IH]; intros H1 Hinj; [reflexivity|]. cbn [flat_map].
  assert (IH' : nodup_names (flat_map f l) = true).
  { apply IH; [exact H1|]. intros x y n Hx Hy. apply Hinj; right; assumption. }
  destruct (H1 a) as [E|[n E]]; rewrite E; cbn [app nodup_names]; [exact IH'|]. rewrite IH', andb_true_r.
  apply negb_true_iff. destruct (existsb (bytes_eqb n) (flat_map f l)) eqn:Ex; [exfalso|reflexivity].
  apply existsb_exists in Ex as (m & Hm & Em). apply bytes_eqb_eq in Em. subst m.
  apply in_flat_map in Hm as (y & Hy & Hn). destruct (H1 y) as [Ey|[n' Ey]]; rewrite Ey in Hn; [contradiction|].
  destruct Hn as [->|[]]. assert (a = y) by (apply (Hinj a y n); [left; reflexivity|right; exact Hy|exact E|exact Ey]). subst y. contradiction.
Qed.
Lemma nodup_names_inj {A} (f : A -> list bytes) l : nodup_names (flat_map f l) = true -> NoDup l ->
  forall x y n, In x l -> In y l -> f x = [n] -> f y = [n] -> x = y.
Proof.
  induction l as [|a l IH]; intros H Hn x y n Hx Hy Fx Fy; [contradiction|]. cbn [flat_map] in H. inversion Hn as [|? ? Ha Hl]; subst.
  assert (Hrest : nodup_names (flat_map f l) = true).
  { clear -H. induction (f a) as [|b r IHr]; [exact H|]. cbn in H. apply andb_true_iff in H as [_ H]. apply IHr; exact H. }
  assert (Hhead : forall z, In z l -> f a = [n] -> f z = [n] -> False).
  { intros z Hz Fa Fz. rewrite Fa in H. cbn in H. apply andb_true_iff in H as [H _]. apply negb_true_iff in H.
    assert (existsb (bytes_eqb n) (flat_map f l) = true); [|congruence].
    apply existsb_exists. exists n. split; [apply in_flat_map; exists z; split; [exact Hz|rewrite Fz; left; reflexivity]|apply bytes_eqb_refl]. }
  destruct Hx as [<-|Hx], Hy as [<-|Hy]; [reflexivity|exfalso; eapply Hhead; eauto|exfalso; eapply Hhead; eauto|eapply IH; eauto].
Qed.

Lemma find_unique {A} (p : A -> bool) l a : In a l -> p a = true -> (forall b, In b l -> p b = true -> b = a) -> find p l = Some a.
Proof.
  induction l as [|x l IH]; intros Hin Pa Hu; [contradiction|]. cbn. destruct (p x) eqn:Px.
  - f_equal. apply Hu; [left; reflexivity|exact Px].
  - destruct Hin as [->|Hin]; [congruence|]. apply IH; [exact Hin|exact Pa|]. intros b Hb. apply Hu. right; exact Hb.
Qed.
Lemma filter_split {A} (p : A -> bool) l : forall l1 x l2, filter p l = l1 ++ x :: l2 ->
  exists p1 p2, l = p1 ++ x :: p2 /\ forall y, In y l2 -> In y p2.
Proof.
  induction l as [|a l IH]; intros l1 x l2 E; [destruct l1; discriminate|]. cbn in E. destruct (p a) eqn:Pa.
  - destruct l1 as [|b l1]; cbn in E; injection E as -> E.
    + exists [], l. split; [reflexivity|]. intros y Hy. assert (In y (filter p l)) by (rewrite E; exact Hy). apply filter_In in H as [H _]. exact H.
    + destruct (IH _ _ _ E) as (p1 & p2 & -> & H). exists (b :: p1), p2. split; [reflexivity|exact H].
  - destruct (IH _ _ _ E) as (p1 & p2 & -> & H). exists (a :: p1), p2. split; [reflexivity|exact H].
Qed.

Lemma flat_map_map' {A B C} (g : A -> B) (f : B -> list C) l : flat_map f (map g l) = flat_map (fun x => f (g x)) l.
Proof. induction l; cbn; [reflexivity|]. rewrite IHl. reflexivity. Qed.
Lemma flat_map_mapped {A B C} (f : A -> list C) (hh : A -> list B) (g : B -> C) l : (forall x, f x = map g (hh x)) -> flat_map f l = map g (flat_map hh l).
Proof. intros H. induction l as [|a l IH]; cbn; [reflexivity|]. rewrite H, IH, map_app. reflexivity. Qed.
Lemma flat_map_nil {A B} (f : A -> list B) l : (forall x, In x l -> f x = []) -> flat_map f l = [].
Proof. induction l as [|a l IH]; intros H; [reflexivity|]. cbn. rewrite (H a (or_introl eq_refl)). apply IH. intros x Hx; apply H; right; exact Hx. Qed.

Section Cut.
Variables (ths : list (list (op aval))) (h : list hev) (ids : list cid).
Definition opa (x : cid) : op aval := nth (snd x) (nth (fst x) ths []) IsRec.
Definition valid (x : cid) : Prop := fst x < length ths /\ snd x < length (nth (fst x) ths []).
Notation calls := (number_threads 0 ths).

Hypothesis Hnd : NoDup ids.
Hypothesis Hval : forall x, In x ids <-> valid x.
Hypothesis Hord : forall x y, In y ids -> before h x y = true -> precedes x y ids.
Hypothesis Hseq : forall t i j, i < j -> valid (t, j) -> before h (t, i) (t, j) = true.
Variables (P R : list cid) (e : cid) (te : Z).
Hypothesis Hsplit : ids = P ++ e :: R.
Hypothesis He : opa e = End te.
Hypothesis HP : forall a, In a P -> is_end (opa a) = false.

Lemma call_in x o : In (x, o) (concat calls) <-> valid x /\ o = opa x.
Proof.
  split.
  - intros H. apply in_concat in H as (tc & Htc & Hin). apply number_threads_in in Htc as (t & _ & -> & L).
    rewrite Nat.sub_0_r in *. apply number_ops_in in Hin as (E1 & _ & E3). rewrite Nat.sub_0_r in E3. subst t.
    split; [split; [exact L|apply nth_error_Some; congruence]|]. unfold opa. symmetry. apply nth_error_nth. exact E3.
  - intros [[L1 L2] ->]. apply in_concat. exists (number_ops (fst x) 0 (nth (fst x) ths [])). split.
    + exact (number_threads_all ths 0 (fst x) L1).
    + apply number_ops_in. repeat split; [lia|]. rewrite Nat.sub_0_r. unfold opa.
      destruct (nth_error (nth (fst x) ths []) (snd x)) eqn:E; [rewrite (nth_error_nth _ _ _ E); reflexivity|].
      apply nth_error_None in E. lia.
Qed.

Lemma in_P_ids x : In x P -> In x ids.
Proof. intros H. rewrite Hsplit. apply in_or_app; left; exact H. Qed.
Lemma e_in_ids : In e ids.
Proof. rewrite Hsplit. apply in_or_app; right; left; reflexivity. Qed.
Lemma before_in_P x y : before h x y = true -> In y P \/ y = e -> In x P.
Proof.
  intros Hb Hy. assert (Hyi : In y ids) by (destruct Hy as [Hy| ->]; [apply in_P_ids; exact Hy|exact e_in_ids]).
  pose proof (Hord x y Hyi Hb) as Hp. rewrite Hsplit in Hp, Hnd. eapply precedes_prefix; eauto.
Qed.

Definition inP (cl : rcall) : bool := mem P (fst cl).
Definition the_cut : list nat := map (count_while inP) calls.
Definition inc_all : list rcall := included calls the_cut.

Lemma inc_all_in x o : In (x, o) inc_all <-> In x P /\ o = opa x.
Proof.
  unfold inc_all, the_cut. rewrite included_map. split.
  - intros H. apply in_concat in H as (l & Hl & Hin). apply in_map_iff in Hl as (tc & <- & Htc).
    apply (take_while_sat inP tc) in Hin as [Hp Hin]. split; [apply mem_in; exact Hp|].
    apply (call_in x o). apply in_concat. exists tc. split; assumption.
  - intros [Hx ->]. pose proof (proj1 (Hval x) (in_P_ids x Hx)) as [L1 L2].
    apply in_concat. exists (firstn (count_while inP (number_ops (fst x) 0 (nth (fst x) ths []))) (number_ops (fst x) 0 (nth (fst x) ths []))).
    split; [apply in_map_iff; eexists; split; [reflexivity|exact (number_threads_all ths 0 (fst x) L1)]|].
    assert (Hin : In (x, opa x) (number_ops (fst x) 0 (nth (fst x) ths []))).
    { apply number_ops_in. repeat split; [lia|]. rewrite Nat.sub_0_r. unfold opa.
      destruct (nth_error (nth (fst x) ths []) (snd x)) eqn:E; [rewrite (nth_error_nth _ _ _ E); reflexivity|].
      apply nth_error_None in E. lia. }
    apply in_split in Hin as (l1 & l2 & E). rewrite E. apply (take_while_in inP).
    + intros a Ha. destruct (number_ops_split _ _ _ _ _ _ _ E a Ha) as [A1 A2]. unfold inP. apply mem_in.
      apply (before_in_P (fst a) x); [|left; exact Hx].
      destruct a as [[at_ ai] ao]. cbn in *. subst at_. destruct x as [xt xi]. cbn in *. apply Hseq; [exact A2|split; assumption].
    + unfold inP. apply mem_in. exact Hx.
Qed.

Definition mutator (o : op aval) : bool := match o with End _ | IsRec => false | _ => true end.
Definition inc : list rcall := filter (fun c => mutator (snd c)) inc_all.
Lemma inc_in x o : In (x, o) inc <-> In x P /\ o = opa x /\ mutator o = true.
Proof. unfold inc. rewrite filter_In, inc_all_in. cbn. tauto. Qed.

(* ---- the last writer, for any kind of write *)
Section Writer.
Context {B : Type} (sel : op aval -> option B).
Hypothesis sel_mut : forall o b, sel o = Some b -> mutator o = true.
Definition selc (l : list rcall) : list (rcall * B) := flat_map (fun c => match sel (snd c) with Some b => [(c, b)] | None => [] end) l.
Definition vals : list B := flat_map (fun x => match sel (opa x) with Some b => [b] | None => [] end) P.

Lemma selc_in c b l : In (c, b) (selc l) <-> In c l /\ sel (snd c) = Some b.
Proof.
  unfold selc. rewrite in_flat_map. split.
  - intros (c' & Hc & Hin). destruct (sel (snd c')) eqn:E; [|contradiction]. destruct Hin as [[= <- <-]|[]]. auto.
  - intros [Hc E]. exists c. split; [exact Hc|]. rewrite E. left; reflexivity.
Qed.

Lemma last_writer :
  (vals = [] /\ selc inc = []) \/
  (exists x b, In x P /\ sel (opa x) = Some b /\ (exists vs, vals = vs ++ [b]) /\ In ((x, opa x), b) (selc inc) /\
               forall c' b', In (c', b') (selc inc) -> before h x (fst c') = false).
Proof.
  destruct (existsb (fun x => match sel (opa x) with Some _ => true | None => false end) P) eqn:Ex.
  - right. apply last_split in Ex as (A & x & Bl & EP & Hx & HB).
    destruct (sel (opa x)) as [b|] eqn:Sx; [|discriminate]. exists x, b.
    assert (HxP : In x P) by (rewrite EP; apply in_or_app; right; left; reflexivity).
    repeat split; [exact HxP|exact Sx| | |].
    + exists (flat_map (fun x0 => match sel (opa x0) with Some b0 => [b0] | None => [] end) A).
      unfold vals. rewrite EP, flat_map_app. cbn [flat_map]. rewrite Sx.
      assert (Z : flat_map (fun x0 => match sel (opa x0) with Some b0 => [b0] | None => [] end) Bl = []).
      { apply flat_map_nil. intros y Hy. specialize (HB y Hy). destruct (sel (opa y)); [discriminate|reflexivity]. }
      rewrite Z. reflexivity.
    + apply selc_in. split; [apply inc_in; repeat split; [exact HxP|eapply sel_mut; exact Sx]|exact Sx].
    + intros [y o] b' Hin. apply selc_in in Hin as [Hin Sy]. apply inc_in in Hin as (HyP & -> & _). cbn [fst snd] in *.
      destruct (before h x y) eqn:Bf; [exfalso|reflexivity].
      pose proof (Hord x y (in_P_ids y HyP) Bf) as Hp.
      rewrite EP in HyP. apply in_app_or in HyP as [HyA|[<-|HyB]].
      * (* y in front of x in P: y precedes x in ids *)
        apply in_split in HyA as (A1 & A2 & ->).
        assert (Hq : precedes y x ids).
        { rewrite Hsplit, EP. exists A1, (A2 ++ x :: Bl ++ e :: R). split; [rewrite <- !app_assoc; reflexivity|].
          apply in_or_app; right; left; reflexivity. }
        exact (precedes_asym _ _ _ Hnd Hq Hp).
      * exact (precedes_irrefl _ _ Hnd Hp).
      * specialize (HB y HyB). rewrite Sy in HB. discriminate.
  - left. assert (None_ : forall x, In x P -> sel (opa x) = None).
    { intros x Hx. destruct (sel (opa x)) eqn:E; [|reflexivity]. exfalso.
      assert (existsb (fun x => match sel (opa x) with Some _ => true | None => false end) P = true)
        by (apply existsb_exists; exists x; split; [exact Hx|rewrite E; reflexivity]). congruence. }
    split.
    + unfold vals. apply flat_map_nil. intros x Hx. rewrite (None_ x Hx). reflexivity.
    + destruct (selc inc) as [|[[y o] b] l] eqn:E; [reflexivity|exfalso].
      assert (Hin : In ((y, o), b) (selc inc)) by (rewrite E; left; reflexivity).
      apply selc_in in Hin as [Hin Sy]. apply inc_in in Hin as (HyP & -> & _). cbn in Sy. rewrite (None_ y HyP) in Sy. discriminate.
Qed.
End Writer.

(* ---- the export of the calls in the order [ids] *)
Variables (c : cfg aval) (s : start aval).
Definition cop (x : cid) : op oval := map_op conv (opa x).
Definition pre : list (op oval) := map cop P.
Definition lin : list (op oval) := map cop ids.
Definition dx : sdata := export (map_cfg conv c) (map_start conv s) lin.

Lemma pre_noend o : In o pre -> is_end o = false.
Proof. unfold pre. intros H. apply in_map_iff in H as (x & <- & Hx). unfold cop. rewrite is_end_map. apply HP; exact Hx. Qed.
Lemma lin_split : lin = (pre ++ End te :: map cop R)%list.
Proof. unfold lin, pre. rewrite Hsplit, map_app. cbn [map]. unfold cop at 2. rewrite He. reflexivity. Qed.
Lemma before_end_lin : before_end lin = pre.
Proof. rewrite lin_split, before_end_app_end. apply before_end_noend. exact pre_noend. Qed.
Lemma end_time_lin : end_time lin = te.
Proof. rewrite lin_split. apply end_time_first. exact pre_noend. Qed.

Lemma dx_fields :
  d_name dx = last (names_of pre) (s_name s) /\
  d_dur dx = duration (s_steady s) te /\
  (d_status dx, d_desc dx) = last (statuses_of pre) (0%Z, []) /\
  d_attrs dx = fold_left set_attribute (writes_of pre) (amap_of (map_attrs conv (s_attrs s))) /\
  d_events dx = map event_of (events_of pre).
Proof.
  destruct (export_fields (map_cfg conv c) (map_start conv s) lin) as (F1 & _ & _ & F4 & F5 & _ & F7 & F8 & _).
  cbn zeta in *. fold dx in F1, F4, F5, F7, F8. rewrite before_end_lin in *. rewrite end_time_lin in F4.
  cbn [map_start s_name s_steady s_attrs] in *. repeat split; try assumption.
  rewrite F7. unfold amap_of. rewrite fold_left_app. reflexivity.
Qed.

(* projections of [pre] are the [vals] of the matching selector *)
Lemma proj_pre {B} (f : op oval -> list B) (sel : op aval -> option B) :
  (forall o, f (map_op conv o) = match sel o with Some b => [b] | None => [] end) ->
  flat_map f pre = vals sel.
Proof. intros H. unfold pre, vals. rewrite flat_map_map'. apply flat_map_ext. intros x. apply H. Qed.

Definition sel_name (o : op aval) : option bytes := match o with UpdateName n => Some n | _ => None end.
Definition sel_status (o : op aval) : option (Z * bytes) := match o with Status k d => Some (k, d) | _ => None end.
Definition sel_key (k : bytes) (o : op aval) : option (bytes * aval) :=
  match o with SetAttr kv => if bytes_eqb (fst kv) k then Some kv else None | _ => None end.

Lemma un_calls_selc l : un_calls l = selc sel_name l.
Proof. unfold un_calls, selc. apply flat_map_ext. intros [x o]. destruct o; reflexivity. Qed.
Lemma ss_calls_selc l : ss_calls l = selc sel_status l.
Proof. unfold ss_calls, selc. apply flat_map_ext. intros [x o]. destruct o; reflexivity. Qed.

Lemma maximal_of {B} (x : rcall) (ws : list (rcall * B)) :
  (forall c' b', In (c', b') ws -> before h (fst x) (fst c') = false) -> maximal h (map fst ws) x = true.
Proof.
  intros H. unfold maximal. apply forallb_forall. intros y Hy. apply in_map_iff in Hy as ([c' b'] & <- & Hin).
  cbn [fst]. rewrite (H c' b' Hin). reflexivity.
Qed.

Lemma name_ok_dx : name_ok h s inc dx = true.
Proof.
  unfold name_ok. rewrite un_calls_selc. destruct dx_fields as (F1 & _).
  assert (Hn : names_of pre = vals sel_name) by (apply proj_pre; intros o; destruct o; reflexivity).
  rewrite Hn in F1.
  destruct (last_writer sel_name) as [[V S0]|(x & b & HxP & Sx & Hl & Hin & Hmax)]; [intros o b; destruct o; discriminate || reflexivity| |].
  - rewrite S0, F1, V. cbn. apply bytes_eqb_refl.
  - destruct (selc sel_name inc) as [|w ws] eqn:E; [contradiction|]. rewrite <- E in *.
    apply existsb_exists. exists ((x, opa x), b). split; [exact Hin|]. cbn [fst snd]. destruct Hl as [vs Hl].
    rewrite F1, Hl, last_app_default, bytes_eqb_refl. cbn [last andb]. apply maximal_of. exact Hmax.
Qed.

Lemma status_ok_dx : status_ok h inc dx = true.
Proof.
  unfold status_ok. rewrite ss_calls_selc. destruct dx_fields as (_ & _ & F5 & _).
  assert (Hn : statuses_of pre = vals sel_status) by (apply proj_pre; intros o; destruct o; reflexivity).
  rewrite Hn in F5.
  destruct (last_writer sel_status) as [[V S0]|(x & b & HxP & Sx & Hl & Hin & Hmax)]; [intros o b; destruct o; discriminate || reflexivity| |].
  - rewrite S0. assert (F5' : (d_status dx, d_desc dx) = (0%Z, [])) by (rewrite F5, V; reflexivity).
    pose proof (f_equal fst F5') as E1. pose proof (f_equal snd F5') as E2. cbn [fst snd] in E1, E2. rewrite E1, E2. reflexivity.
  - destruct (selc sel_status inc) as [|w ws] eqn:E; [contradiction|]. rewrite <- E in *.
    apply existsb_exists. exists ((x, opa x), b). split; [exact Hin|]. cbn [fst snd].
    destruct Hl as [vs Hl]. rewrite Hl, last_app_default in F5. cbn [last] in F5. pose proof (f_equal fst F5) as E1. pose proof (f_equal snd F5) as E2. cbn [fst snd] in E1, E2. rewrite E1, E2, Z.eqb_refl, bytes_eqb_refl. cbn [andb]. apply maximal_of. exact Hmax.
Qed.

(* ---- attributes *)
Lemma olast_last k (ws : attrs oval) :
  olast k ws = last (map (fun kv => Some (snd kv)) (filter (fun kv => bytes_eqb (fst kv) k) ws)) None.
Proof.
  induction ws as [|kv ws IH] using rev_ind; [reflexivity|].
  rewrite olast_snoc, filter_app, map_app. cbn [filter]. destruct (bytes_eqb (fst kv) k).
  - cbn [map]. rewrite last_app_default. reflexivity.
  - cbn [map]. rewrite app_nil_r. exact IH.
Qed.
Lemma filter_flat_map' {A B} (p : B -> bool) (g : A -> list B) l : filter p (flat_map g l) = flat_map (fun o => filter p (g o)) l.
Proof. induction l as [|a l IH]; [reflexivity|]. cbn. rewrite filter_app, IH. reflexivity. Qed.

Definition gconv (kv : bytes * aval) : bytes * oval := (fst kv, conv (snd kv)).
Lemma key_writes_pre k : filter (fun kv => bytes_eqb (fst kv) k) (writes_of pre) = map gconv (vals (sel_key k)).
Proof.
  unfold writes_of, pre, vals. rewrite filter_flat_map', flat_map_map'. apply flat_map_mapped.
  intros x. unfold cop. destruct (opa x) as [kv| | | | |]; try reflexivity. cbn [map_op filter fst snd sel_key].
  destruct (bytes_eqb (fst kv) k); reflexivity.
Qed.
Lemma olast_pre k : olast k (writes_of pre) = last (map (fun kv => Some (conv (snd kv))) (vals (sel_key k))) None.
Proof. rewrite olast_last, key_writes_pre, map_map. reflexivity. Qed.

Lemma sa_filter_selc k l : filter (fun w : rcall * (bytes * aval) => bytes_eqb (fst (snd w)) k) (sa_calls l) = selc (sel_key k) l.
Proof.
  unfold sa_calls, selc. rewrite filter_flat_map'. apply flat_map_ext. intros [x o]. destruct o as [kv| | | | |]; try reflexivity.
  cbn [snd filter fst sel_key]. destruct (bytes_eqb (fst kv) k); reflexivity.
Qed.

Lemma dx_attrs_canonical : canonical (d_attrs dx).
Proof. destruct dx_fields as (_ & _ & _ & F7 & _). rewrite F7. apply fold_canonical. apply fold_canonical. constructor. Qed.

Lemma dx_lookup k : alookup k (d_attrs dx) =
  match olast k (writes_of pre) with Some v => Some v | None => option_map owned (last_write k (s_attrs s)) end.
Proof.
  destruct dx_fields as (_ & _ & _ & F7 & _). rewrite F7. rewrite fold_lookup by (apply fold_canonical; constructor).
  destruct (olast k (writes_of pre)); [reflexivity|]. unfold amap_of. rewrite fold_lookup by constructor. rewrite last_write_map.
  destruct (last_write k (s_attrs s)); reflexivity.
Qed.

Lemma sel_key_mut k o b : sel_key k o = Some b -> mutator o = true.
Proof. destruct o; try discriminate. reflexivity. Qed.

Lemma attr_ok_dx kv : In kv (d_attrs dx) -> attr_ok h s inc kv = true.
Proof.
  intros Hin. destruct kv as [k v]. pose proof (alookup_in _ _ _ dx_attrs_canonical Hin) as L. rewrite dx_lookup, olast_pre in L.
  unfold attr_ok. cbn [fst snd]. rewrite sa_filter_selc.
  destruct (last_writer (sel_key k) (sel_key_mut k)) as [[V S0]|(x & b & HxP & Sx & [vs Hl] & Hi & Hmax)].
  - rewrite S0. rewrite V in L. cbn in L. destruct (last_write k (s_attrs s)) as [v0|]; [|discriminate].
    cbn in L. injection L as <-. apply oval_eqb_refl.
  - destruct (selc (sel_key k) inc) as [|w ws] eqn:E; [contradiction|]. rewrite <- E in *.
    apply existsb_exists. exists ((x, opa x), b). split; [exact Hi|]. cbn [fst snd].
    rewrite Hl, map_app, last_app_default in L. cbn in L. injection L as <-.
    rewrite <- conv_owned, oval_eqb_refl. cbn [andb]. apply maximal_of. exact Hmax.
Qed.

Lemma olast_some_of_in k v (ws : attrs oval) : In (k, v) ws -> olast k ws <> None.
Proof.
  intros H. rewrite olast_last.
  assert (Hf : In (k, v) (filter (fun kv => bytes_eqb (fst kv) k) ws)) by (apply filter_In; split; [exact H|apply bytes_eqb_refl]).
  destruct (filter (fun kv => bytes_eqb (fst kv) k) ws) as [|a l] using rev_ind; [contradiction|].
  rewrite map_app, last_app_default. discriminate.
Qed.

Lemma key_present k : (exists v, In (k, v) (s_attrs s)) \/ (exists v, In (k, v) (writes_of pre)) ->
  existsb (fun kv' => bytes_eqb (fst kv') k) (d_attrs dx) = true.
Proof.
  intros H. assert (L : alookup k (d_attrs dx) <> None).
  { rewrite dx_lookup. destruct H as [[v Hv]|[v Hv]].
    - destruct (olast k (writes_of pre)); [discriminate|].
      assert (X : olast k (map_attrs conv (s_attrs s)) <> None).
      { apply (olast_some_of_in k (conv v)). unfold map_attrs. apply in_map_iff. exists (k, v). split; [reflexivity|exact Hv]. }
      rewrite last_write_map in X. destruct (last_write k (s_attrs s)); [discriminate|]. exact X.
    - pose proof (olast_some_of_in k v _ Hv) as X. destruct (olast k (writes_of pre)); [discriminate|contradiction]. }
  destruct (alookup k (d_attrs dx)) as [v|] eqn:E; [|contradiction]. apply alookup_some_in in E.
  apply existsb_exists. exists (k, v). split; [exact E|apply bytes_eqb_refl].
Qed.

Lemma attrs_ok_dx : attrs_ok h s inc (d_attrs dx) = true.
Proof.
  unfold attrs_ok. rewrite (strictly_sorted_canonical _ dx_attrs_canonical). cbn [andb].
  apply andb_true_iff. split.
  - apply forallb_forall. intros kv Hkv. apply attr_ok_dx. exact Hkv.
  - apply forallb_forall. intros [k v] Hkv. cbn [fst]. apply key_present. apply in_app_or in Hkv as [Hkv|Hkv].
    + left. exists v. exact Hkv.
    + right. apply in_map_iff in Hkv as ([[x o] kv'] & E & Hin). cbn in E. subst kv'.
      unfold sa_calls in Hin. apply in_flat_map in Hin as ([x' o'] & Hc & Hin). cbn [snd] in Hin.
      destruct o' as [kv0| | | | |]; try contradiction. destruct Hin as [[= E1 E2 E3]|[]]. subst x' o kv0.
      apply inc_in in Hc as (HxP & Eo & _). exists (conv v).
      unfold writes_of, pre. rewrite flat_map_map'. apply in_flat_map. exists x. split; [exact HxP|].
      unfold cop. rewrite <- Eo. cbn. left; reflexivity.
Qed.

(* ---- events.  Hypothesis: the event names of the scripts are pairwise distinct (the generator numbers them; [parse_rcase]
   rejects a case in which they are not) *)
Hypothesis Hnames : forall x y n ts a ts' a', valid x -> valid y -> opa x = Event n ts a -> opa y = Event n ts' a' -> x = y.

Definition sel_ev (o : op aval) : option (bytes * option Z * option (attrs aval)) :=
  match o with Event n ts a => Some (n, ts, a) | _ => None end.
Definition isEv (x : cid) : bool := match sel_ev (opa x) with Some _ => true | None => false end.
Definition evP : list cid := filter isEv P.
Definition payload (x : cid) : bytes * option Z * option (attrs aval) :=
  match sel_ev (opa x) with Some pl => pl | None => ([], None, None) end.
Definition exported (x : cid) : event := event_of (map_ev conv (payload x)).

Lemma sel_ev_some o n ts a : sel_ev o = Some (n, ts, a) -> o = Event n ts a.
Proof. destruct o; try discriminate. cbn. intros [= -> -> ->]. reflexivity. Qed.
Lemma ev_calls_selc l : ev_calls l = selc sel_ev l.
Proof. unfold ev_calls, selc. apply flat_map_ext. intros [x o]. destruct o; reflexivity. Qed.

Lemma nodup_P : NoDup P.
Proof. rewrite Hsplit in Hnd. exact (nodup_app_l _ _ Hnd). Qed.
Lemma nodup_evP : NoDup evP.
Proof. unfold evP. apply NoDup_filter. exact nodup_P. Qed.
Lemma evP_in x : In x evP <-> In x P /\ exists pl, sel_ev (opa x) = Some pl.
Proof.
  unfold evP, isEv. rewrite filter_In. split; intros [H1 H2]; split; try exact H1.
  - destruct (sel_ev (opa x)) as [pl|]; [exists pl; reflexivity|discriminate].
  - destruct H2 as [pl ->]. reflexivity.
Qed.
Lemma valid_P x : In x P -> valid x.
Proof. intros H. apply Hval. apply in_P_ids. exact H. Qed.

Lemma dx_events : d_events dx = map exported evP.
Proof.
  assert (G : forall l, flat_map (fun x => match cop x with Event n ts a => [(n, ts, a)] | _ => [] end) l =
                        map (fun x => map_ev conv (payload x)) (filter isEv l)).
  { induction l as [|x l IH]; [reflexivity|]. cbn [flat_map filter]. rewrite IH. unfold isEv at 2. unfold cop.
    destruct (opa x) eqn:Ox; cbn [map_op sel_ev app]; try reflexivity.
    cbn [map]. f_equal. unfold payload. rewrite Ox. reflexivity. }
  destruct dx_fields as (_ & _ & _ & _ & F8). rewrite F8. unfold events_of, pre. rewrite flat_map_map', G.
  unfold exported, evP. rewrite map_map. reflexivity.
Qed.

Lemma nodup_inc_all : NoDup (map fst inc_all).
Proof.
  unfold inc_all, the_cut. rewrite included_map.
  apply (nodup_threads (fun t => firstn (count_while inP t) t)).
  - intros tc x. apply firstn_subset'.
  - intros tc. apply nodup_map_firstn.
Qed.
Lemma selc_ids {B} (sel : op aval -> option B) l :
  map (fun w => fst (fst w)) (selc sel l) = map fst (filter (fun cl => match sel (snd cl) with Some _ => true | None => false end) l).
Proof. unfold selc. induction l as [|cl l IH]; [reflexivity|]. cbn. destruct (sel (snd cl)); cbn; rewrite IH; reflexivity. Qed.

Lemma ecs_in w : In w (ev_calls inc) <-> In (fst (fst w)) P /\ snd (fst w) = opa (fst (fst w)) /\ sel_ev (opa (fst (fst w))) = Some (snd w).
Proof.
  rewrite ev_calls_selc. destruct w as [[x o] pl]. rewrite selc_in, inc_in. cbn [fst snd]. split.
  - intros [(H1 & -> & _) H2]. auto.
  - intros (H1 & -> & H2). repeat split; auto. destruct (opa x); try discriminate. reflexivity.
Qed.

Lemma events_length : length (d_events dx) = length (ev_calls inc).
Proof.
  rewrite dx_events, map_length.
  rewrite <- (map_length (fun w : rcall * (bytes * option Z * option (attrs aval)) => fst (fst w)) (ev_calls inc)).
  assert (N2 : NoDup (map (fun w : rcall * (bytes * option Z * option (attrs aval)) => fst (fst w)) (ev_calls inc))).
  { rewrite ev_calls_selc, selc_ids. apply nodup_map_filter. unfold inc. apply nodup_map_filter. exact nodup_inc_all. }
  apply Nat.le_antisymm.
  - apply NoDup_incl_length; [exact nodup_evP|]. intros x Hx. apply evP_in in Hx as [HxP [pl Hpl]].
    apply in_map_iff. exists ((x, opa x), pl). split; [reflexivity|]. apply ecs_in. cbn. auto.
  - apply NoDup_incl_length; [exact N2|]. intros x Hx. apply in_map_iff in Hx as (w & <- & Hw). apply ecs_in in Hw as (H1 & _ & H3).
    apply evP_in. split; [exact H1|]. eexists; exact H3.
Qed.

Lemma events_names : nodup_names (map e_name (d_events dx)) = true.
Proof.
  rewrite dx_events, map_map.
  assert (E : forall l, map (fun x => e_name (exported x)) l = flat_map (fun x => [fst (fst (payload x))]) l).
  { induction l as [|x l IH]; [reflexivity|]. cbn [map flat_map app]. rewrite IH. reflexivity. }
  rewrite E. apply nodup_names_flat; [exact nodup_evP|intros x; right; eexists; reflexivity|].
  intros x y n Hx Hy [= Ex] [= Ey]. apply evP_in in Hx as [HxP [[[nx tx] ax] Sx]]. apply evP_in in Hy as [HyP [[[ny ty] ay] Sy]].
  unfold payload in Ex, Ey. rewrite Sx in Ex. rewrite Sy in Ey. cbn in Ex, Ey. subst nx ny.
  eapply (Hnames x y n); [apply valid_P; exact HxP|apply valid_P; exact HyP|exact (sel_ev_some _ _ _ _ Sx)|exact (sel_ev_some _ _ _ _ Sy)].
Qed.

Lemma event_call_own x : In x evP -> event_call (ev_calls inc) (exported x) = Some (x, opa x).
Proof.
  intros Hx. apply evP_in in Hx as [HxP [[[n ts] a] Sx]]. unfold event_call.
  rewrite (find_unique (event_matches (exported x)) (ev_calls inc) ((x, opa x), (n, ts, a))); [reflexivity| | |].
  - apply ecs_in. cbn. auto.
  - unfold event_matches, exported, payload. rewrite Sx. cbn [snd map_ev event_of fst e_name e_ts e_attrs option_map].
    rewrite bytes_eqb_refl. assert (T : tstamp_eqb (match ts with Some z => TExact z | None => TNow end) (ev_time ts) = true) by (destruct ts; cbn; [apply Z.eqb_refl|reflexivity]).
    rewrite T. destruct a as [l|]; cbn [option_map ev_attrs]; [rewrite amap_ok_fold; reflexivity|].
    pose proof (amap_ok_fold []) as K. cbn [map_attrs map] in K. rewrite K. reflexivity.
  - intros [[y o] [[n' ts'] a']] Hb Hm. apply ecs_in in Hb as (HyP & Eo & Sy). cbn [fst snd] in *.
    unfold event_matches, exported, payload in Hm. rewrite Sx in Hm. cbn [snd map_ev event_of fst e_name] in Hm.
    apply andb_true_iff in Hm as [Hm _]. apply andb_true_iff in Hm as [Hm _]. apply bytes_eqb_eq in Hm. subst n'.
    pose proof (sel_ev_some _ _ _ _ Sx) as Ox. pose proof (sel_ev_some _ _ _ _ Sy) as Oy.
    assert (y = x) by (eapply (Hnames y x n); [apply valid_P; exact HyP|apply valid_P; exact HxP|exact Oy|exact Ox]). subst y.
    rewrite Ox in Oy. injection Oy as <- <-. subst o. reflexivity.
Qed.

Lemma all_some_map_some {A} (l : list A) : all_some (map Some l) = Some l.
Proof. induction l as [|a l IH]; [reflexivity|]. cbn. rewrite IH. reflexivity. Qed.

Lemma order_ok_precedes (l : list cid) :
  (forall l1 x l2, l = l1 ++ x :: l2 -> forall y, In y l2 -> precedes x y ids) ->
  order_ok h (map (fun x => (x, opa x)) l) = true.
Proof.
  induction l as [|x l IH]; intros H; [reflexivity|]. cbn [map order_ok]. apply andb_true_iff. split.
  - apply forallb_forall. intros c' Hc. apply in_map_iff in Hc as (y & <- & Hy). cbn [fst].
    destruct (before h y x) eqn:Bf; [exfalso|reflexivity].
    pose proof (H [] x l eq_refl y Hy) as Pxy. destruct (precedes_in _ _ _ Pxy) as [Hxi _].
    exact (precedes_asym _ _ _ Hnd Pxy (Hord y x Hxi Bf)).
  - apply IH. intros l1 z l2 E y Hy. apply (H (x :: l1) z l2); [rewrite E; reflexivity|exact Hy].
Qed.

Lemma events_ok_dx : events_ok h inc (d_events dx) = true.
Proof.
  unfold events_ok. rewrite events_length, Nat.eqb_refl, events_names. cbn [andb].
  rewrite dx_events, map_map.
  rewrite (map_ext_in (fun x => event_call (ev_calls inc) (exported x)) (fun x => Some (x, opa x))) by (intros x Hx; apply event_call_own; exact Hx).
  rewrite <- (map_map (fun x => (x, opa x)) Some), all_some_map_some.
  apply order_ok_precedes. intros l1 x l2 E y Hy. unfold evP in E. apply filter_split in E as (p1 & p2 & EP & Hsub).
  exists p1, (p2 ++ e :: R). split; [rewrite Hsplit, EP, <- app_assoc; reflexivity|apply in_or_app; left; apply Hsub; exact Hy].
Qed.

Lemma cut_ok_dx : cut_ok h s calls dx (e, te) the_cut = true.
Proof.
  unfold cut_ok. fold inc_all.
  assert (Ei : filter (fun c0 : nat * nat * op aval => match snd c0 with End _ | IsRec => false | _ => true end) inc_all = inc) by reflexivity.
  rewrite Ei.
  destruct dx_fields as (_ & F4 & _). cbn [snd]. rewrite F4. unfold duration at 1.
  rewrite tstamp_eqb_refl, name_ok_dx, status_ok_dx, attrs_ok_dx, events_ok_dx. reflexivity.
Qed.

Lemma end_calls_after x t : In (x, t) (ends_of (concat calls)) -> forall y, In y P \/ y = e -> pb h y <= pr h x.
Proof.
  intros Hx y Hy. unfold ends_of in Hx. apply in_flat_map in Hx as ([x' o] & Hc & Hin). cbn [snd fst] in Hin.
  destruct o; try contradiction. destruct Hin as [[= -> ->]|[]]. apply call_in in Hc as [_ Eo].
  destruct (Nat.le_gt_cases (pb h y) (pr h x)) as [|G]; [assumption|exfalso].
  assert (Bf : before h x y = true) by (unfold before; apply Nat.ltb_lt; exact G).
  pose proof (before_in_P x y Bf Hy) as HxP. specialize (HP x HxP). rewrite <- Eo in HP. discriminate.
Qed.

Lemma race_cut_exists_dx : race_cut_exists h s calls dx = true.
Proof.
  unfold race_cut_exists. apply existsb_exists. exists (e, te). split.
  - unfold ends_of. apply in_flat_map. exists (e, opa e). split.
    + apply call_in. split; [apply Hval; exact e_in_ids|reflexivity].
    + cbn [snd fst]. rewrite He. left; reflexivity.
  - cbn [fst]. set (mr := min_list (map (fun e0 => pr h (fst e0)) (ends_of (concat calls))) (Datatypes.length h)).
    assert (Hmr : forall y, In y P \/ y = e -> pb h y <= mr).
    { intros y Hy. apply min_list_ge; [|apply pb_le_length].
      intros v Hv. apply in_map_iff in Hv as ([x t] & <- & Hx). cbn [fst]. eapply end_calls_after; eauto. }
    apply andb_true_iff. split; [apply Nat.leb_le; apply Hmr; right; reflexivity|].
    apply existsb_exists. exists the_cut. split; [|exact cut_ok_dx].
    unfold the_cut. apply cuts_map_in. intros tc Htc. cbn [fst snd]. split.
    + apply count_while_mono. intros a Ha Hlt. unfold inP. apply mem_in. apply (before_in_P (fst a) e); [exact Hlt|right; reflexivity].
    + apply count_while_mono. intros a Ha Hin. unfold inP in Hin. apply mem_in in Hin. apply Nat.leb_le. apply Hmr. left; exact Hin.
Qed.
End Cut.

(* ------------------------------------------------------------------ accepted traces *)
(* the history is the history of a complete run of the threads' scripts: exactly the scripted calls begin, every one returns,
   and a thread's calls do not overlap *)
Record complete_history (ths : list (list (op aval))) (h : list hev) : Prop := {
  ch_begun : forall x, has true x h -> valid ths x;
  ch_returned : forall x, valid ths x -> has false x h;
  ch_seq : forall t i j, i < j -> valid ths (t, j) -> before h (t, i) (t, j) = true
}.

Lemma op_at_conv ths x : op_at (conv_threads ths) x = map_op conv (opa ths x).
Proof.
  unfold op_at, conv_threads, opa.
  change (@nil (op oval)) with (map (map_op conv) (@nil (op aval))). rewrite map_nth.
  change (@IsRec oval) with (map_op conv (@IsRec aval)). rewrite map_nth. reflexivity.
Qed.

Definition names_distinct (ths : list (list (op aval))) : Prop :=
  forall x y n ts a ts' a', valid ths x -> valid ths y -> opa ths x = Event n ts a -> opa ths y = Event n ts' a' -> x = y.

(* EVERY ACCEPTED TRACE PASSES CLAUSE (c) of SpecRace *)
Theorem accepted_trace_passes_cut (c : cfg aval) (s : start aval) (ths : list (list (op aval))) evs s' xe :
  replay (conv_threads ths) (linit (map_cfg conv c) (map_start conv s)) (fun _ => O) evs 0 = inl s' ->
  complete_history ths (hist_of evs) ->
  valid ths xe -> is_end (opa ths xe) = true ->
  names_distinct ths ->
  race_cut_exists (hist_of evs) s (number_threads 0 ths) (export (map_cfg conv c) (map_start conv s) (l_lin s')) = true.
Proof.
  intros Hr [HB HR HS] Hxe Hee Hnames.
  destruct (lock_order_is_linearization _ _ _ _ _ Hr) as (Hlin & Hnd & Hret & Hbeg & Hord).
  set (ids := ids_of (fun _ => O) evs) in *. set (h := hist_of evs) in *.
  assert (Hval : forall x, In x ids <-> valid ths x).
  { intros x. split; [intros H; apply HB; apply Hbeg; exact H|intros H; apply Hret; apply HR; exact H]. }
  assert (Ex : existsb (fun x => is_end (opa ths x)) ids = true).
  { apply existsb_exists. exists xe. split; [apply Hval; exact Hxe|exact Hee]. }
  apply first_split in Ex as (P & e & R & Hsplit & He & HP).
  destruct (opa ths e) as [| | | |te|] eqn:Eo; try discriminate.
  assert (Hl : l_lin s' = lin ths ids).
  { rewrite Hlin. unfold lin. apply map_ext. intros x. apply op_at_conv. }
  rewrite Hl.
  exact (race_cut_exists_dx ths h ids Hnd Hval Hord HS P R e te Hsplit Eo HP c s Hnames).
Qed.
