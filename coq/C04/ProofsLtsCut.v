(* C04 proofs, part 11: the race SPEC's search for a cut (SpecRace.v, clause (c)) succeeds on every outcome that
   has a linearization - a total order of the calls that respects the real-time order of the history and whose
   sequential export is what the processors received. *)
From V Require Import C04.Glue C04.ProofsMap C04.ProofsStep C04.ProofsMeets C04.ProofsLts C04.ProofsLtsOrder C04.ProofsLtsRace.
From Coq Require Import Lia.
Local Open Scope nat_scope.

(* ------------------------------------------------------------------ lists *)
Definition take_while {A} (p : A -> bool) (l : list A) : list A := firstn (count_while p l) l.
Lemma count_while_cons {A} (p : A -> bool) a l : count_while p (a :: l) = if p a then S (count_while p l) else 0.
Proof. reflexivity. Qed.
Lemma take_while_cons {A} (p : A -> bool) a l : take_while p (a :: l) = if p a then a :: take_while p l else [].
Proof. unfold take_while. rewrite count_while_cons. destruct (p a); reflexivity. Qed.
Lemma take_while_sat {A} (p : A -> bool) l x : In x (take_while p l) -> p x = true /\ In x l.
Proof.
  induction l as [|a l IH]; [intros []|]. rewrite take_while_cons. destruct (p a) eqn:E; [|intros []].
  intros [<-|H]; [split; [exact E|left; reflexivity]|]. destruct (IH H). split; [assumption|right; assumption].
Qed.
Lemma take_while_in {A} (p : A -> bool) l1 x l2 : (forall a, In a l1 -> p a = true) -> p x = true -> In x (take_while p (l1 ++ x :: l2)).
Proof.
  induction l1 as [|a l1 IH]; intros H Hx; cbn [app]; rewrite take_while_cons.
  - rewrite Hx. left; reflexivity.
  - rewrite (H a (or_introl eq_refl)). right. apply IH; [intros b Hb; apply H; right; exact Hb|exact Hx].
Qed.
Lemma count_while_mono {A} (p q : A -> bool) l : (forall a, In a l -> p a = true -> q a = true) -> count_while p l <= count_while q l.
Proof.
  induction l as [|a l IH]; intros H; [reflexivity|]. rewrite !count_while_cons. destruct (p a) eqn:E; [|lia].
  rewrite (H a (or_introl eq_refl) E). apply le_n_S. apply IH. intros b Hb. apply H; right; exact Hb.
Qed.
Lemma count_while_le {A} (p : A -> bool) l : count_while p l <= length l.
Proof. induction l as [|a l IH]; [reflexivity|]. rewrite count_while_cons. cbn [length]. destruct (p a); lia. Qed.

Lemma range_in lo n x : lo <= x < lo + n -> In x (range lo n).
Proof. revert lo; induction n as [|n IH]; intros lo H; [lia|]. cbn. destruct (Nat.eq_dec lo x); [left; assumption|right; apply IH; lia]. Qed.
Lemma cuts_map_in {A} (f : A -> nat * nat) (g : A -> nat) l :
  (forall a, In a l -> fst (f a) <= g a <= snd (f a)) -> In (map g l) (cuts (map f l)).
Proof.
  induction l as [|a l IH]; intros H; [left; reflexivity|]. cbn [map cuts].
  destruct (f a) as [lo hi] eqn:E. apply in_flat_map. exists (g a). split.
  - apply range_in. specialize (H a (or_introl eq_refl)). rewrite E in H. cbn in H. lia.
  - apply in_map. apply IH. intros b Hb. apply H; right; exact Hb.
Qed.
Lemma included_map (ths : list (list rcall)) (g : list rcall -> nat) :
  included ths (map g ths) = concat (map (fun t => firstn (g t) t) ths).
Proof. induction ths as [|t r IH]; [reflexivity|]. cbn. rewrite IH. reflexivity. Qed.

Lemma min_list_ge l d a : (forall v, In v l -> a <= v) -> a <= d -> a <= min_list l d.
Proof. induction l as [|x l IH]; intros H Hd; cbn; [exact Hd|]. apply Nat.min_glb; [apply H; left; reflexivity|apply IH; [intros v Hv; apply H; right; exact Hv|exact Hd]]. Qed.
Lemma min_list_le l d v : In v l -> min_list l d <= v.
Proof. induction l as [|x l IH]; [intros []|]. intros [->|H]; cbn; [apply Nat.le_min_l|]. etransitivity; [apply Nat.le_min_r|apply IH; exact H]. Qed.

(* the first element satisfying q *)
Lemma first_split {A} (q : A -> bool) l : existsb q l = true ->
  exists P e R, l = P ++ e :: R /\ q e = true /\ forall a, In a P -> q a = false.
Proof.
  induction l as [|a l IH]; [discriminate|]. cbn. destruct (q a) eqn:E.
  - intros _. exists [], a, l. repeat split; [exact E|intros ? []].
  - intros H. destruct (IH H) as (P & e & R & -> & He & Hp). exists (a :: P), e, R. repeat split; [exact He|].
    intros b [<-|Hb]; [exact E|apply Hp; exact Hb].
Qed.
(* the last element satisfying q *)
Lemma last_split {A} (q : A -> bool) l : existsb q l = true ->
  exists P e R, l = P ++ e :: R /\ q e = true /\ forall a, In a R -> q a = false.
Proof.
  induction l as [|a l IH]; [discriminate|]. cbn. destruct (existsb q l) eqn:El.
  - intros _. destruct (IH eq_refl) as (P & e & R & -> & He & Hr). exists (a :: P), e, R. repeat split; assumption.
  - rewrite orb_false_r. intros Ha. exists [], a, l. repeat split; [exact Ha|].
    intros b Hb. destruct (q b) eqn:Eb; [|reflexivity].
    assert (existsb q l = true) by (apply existsb_exists; exists b; split; assumption). congruence.
Qed.

Definition cid_eqb (a b : cid) : bool := Nat.eqb (fst a) (fst b) && Nat.eqb (snd a) (snd b).
Lemma cid_eqb_eq a b : cid_eqb a b = true <-> a = b.
Proof.
  destruct a as [a1 a2], b as [b1 b2]. unfold cid_eqb. cbn. rewrite andb_true_iff, !Nat.eqb_eq. split; [intros [-> ->]; reflexivity|intros [= -> ->]; auto].
Qed.
Definition mem (P : list cid) (x : cid) : bool := existsb (cid_eqb x) P.
Lemma mem_in P x : mem P x = true <-> In x P.
Proof.
  unfold mem. rewrite existsb_exists. split.
  - intros (y & Hy & E). apply cid_eqb_eq in E. subst. exact Hy.
  - intros H. exists x. split; [exact H|apply cid_eqb_eq; reflexivity].
Qed.

(* ------------------------------------------------------------------ order in duplicate-free lists *)
Lemma precedes_tail (A B : list cid) x y : NoDup (A ++ B) -> In x B -> precedes x y (A ++ B) -> In y B.
Proof.
  induction A as [|a A IH]; intros Hn Hx (l1 & l2 & E & Hy).
  - cbn in E. subst B. apply in_or_app; right; right; exact Hy.
  - destruct l1 as [|b l1]; cbn in E; injection E as E1 E2.
    + subst a. inversion Hn as [|? ? Hna _]; subst. exfalso. apply Hna. apply in_or_app; right; exact Hx.
    + inversion Hn; subst. apply IH; [assumption|exact Hx|]. exists l1, l2. split; [exact E2|exact Hy].
Qed.
Lemma precedes_irrefl (l : list cid) x : NoDup l -> ~ precedes x x l.
Proof.
  intros Hn (l1 & l2 & -> & Hx). apply NoDup_remove_2 in Hn. apply Hn. apply in_or_app; right; exact Hx.
Qed.
Lemma precedes_in (l : list cid) x y : precedes x y l -> In x l /\ In y l.
Proof. intros (l1 & l2 & -> & Hy). split; apply in_or_app; right; [left; reflexivity|right; exact Hy]. Qed.
Lemma precedes_asym (l : list cid) x y : NoDup l -> precedes x y l -> ~ precedes y x l.
Proof.
  intros Hn (l1 & l2 & -> & Hy) Hyx.
  assert (Hn2 : NoDup ((l1 ++ [x]) ++ l2)) by (rewrite <- app_assoc; exact Hn).
  assert (Hp2 : precedes y x ((l1 ++ [x]) ++ l2)) by (rewrite <- app_assoc; exact Hyx).
  pose proof (precedes_tail (l1 ++ [x]) l2 y x Hn2 Hy Hp2) as K.
  apply NoDup_remove_2 in Hn. apply Hn. apply in_or_app; right; exact K.
Qed.
(* with l = P ++ e :: R: whatever precedes an element of P ++ [e] is in P *)
Lemma precedes_prefix (P R : list cid) e x y : NoDup (P ++ e :: R) -> precedes x y (P ++ e :: R) -> In y P \/ y = e -> In x P.
Proof.
  intros Hn Hp Hy. destruct (precedes_in _ _ _ Hp) as [Hx _].
  apply in_app_or in Hx as [Hx|Hx]; [exact Hx|exfalso].
  pose proof (precedes_tail P (e :: R) x y Hn Hx Hp) as K.
  destruct Hy as [Hy| ->].
  - (* y in P and in e :: R *)
    clear Hp. induction P as [|a P IH]; [contradiction|]. inversion Hn as [|? ? Hna Hn']; subst.
    destruct Hy as [<-|Hy]; [apply Hna; apply in_or_app; right; exact K|apply IH; assumption].
  - destruct Hx as [<-|Hx].
    + exact (precedes_irrefl _ _ Hn Hp).
    + assert (Hn2 : NoDup ((P ++ [e]) ++ R)) by (rewrite <- app_assoc; exact Hn).
      assert (Hp2 : precedes x e ((P ++ [e]) ++ R)) by (rewrite <- app_assoc; exact Hp).
      pose proof (precedes_tail (P ++ [e]) R x e Hn2 Hx Hp2) as K2.
      apply NoDup_remove_2 in Hn. apply Hn. apply in_or_app; right; exact K2.
Qed.

(* ------------------------------------------------------------------ numbered calls *)
Lemma number_ops_in {A} t (ops : list A) : forall i x o,
  In (x, o) (number_ops t i ops) <-> fst x = t /\ i <= snd x /\ nth_error ops (snd x - i) = Some o.
Proof.
  induction ops as [|a ops IH]; intros i x o; cbn [number_ops].
  - split; [intros []|]. intros (_ & _ & H). destruct (snd x - i); discriminate.
  - split.
    + intros [[= <- <-]|H].
      * cbn. rewrite Nat.sub_diag. auto.
      * apply IH in H as (H1 & H2 & H3). repeat split; [exact H1|lia|].
        replace (snd x - i) with (S (snd x - S i)) by lia. exact H3.
    + intros (H1 & H2 & H3). destruct (Nat.eq_dec (snd x) i) as [E|N].
      * left. rewrite E, Nat.sub_diag in H3. cbn in H3. injection H3 as <-. destruct x; cbn in *; subst; reflexivity.
      * right. apply IH. repeat split; [exact H1|lia|]. replace (snd x - i) with (S (snd x - S i)) in H3 by lia. exact H3.
Qed.
Lemma number_ops_split {A} t (ops : list A) : forall i l1 x o l2, number_ops t i ops = l1 ++ (x, o) :: l2 ->
  forall a, In a l1 -> fst (fst a) = t /\ snd (fst a) < snd x.
Proof.
  induction ops as [|a0 ops IH]; intros i l1 x o l2 E a Ha; cbn [number_ops] in E.
  - destruct l1; discriminate.
  - destruct l1 as [|b l1]; [contradiction|]. cbn in E. injection E as <- E.
    assert (Hx : In (x, o) (number_ops t (S i) ops)) by (rewrite E; apply in_or_app; right; left; reflexivity).
    apply number_ops_in in Hx as (_ & Hx & _).
    destruct Ha as [<-|Ha]; [cbn; split; [reflexivity|lia]|]. eapply IH; eauto.
Qed.
Lemma number_threads_in {A} (ths : list (list A)) : forall t0 tc, In tc (number_threads t0 ths) ->
  exists t, t0 <= t /\ tc = number_ops t 0 (nth (t - t0) ths []) /\ t - t0 < length ths.
Proof.
  induction ths as [|ops ths IH]; intros t0 tc; cbn [number_threads]; [intros []|].
  intros [<-|H].
  - exists t0. rewrite Nat.sub_diag. cbn. repeat split; lia.
  - destruct (IH _ _ H) as (t & L & E & B). exists t. repeat split; [lia| |cbn; lia].
    replace (t - t0) with (S (t - S t0)) by lia. exact E.
Qed.
Lemma number_threads_all {A} (ths : list (list A)) : forall t0 t, t < length ths ->
  In (number_ops (t0 + t) 0 (nth t ths [])) (number_threads t0 ths).
Proof.
  induction ths as [|ops ths IH]; intros t0 t L; cbn in L; [lia|]. cbn [number_threads].
  destruct t as [|t]; [left; rewrite Nat.add_0_r; reflexivity|]. right.
  replace (t0 + S t) with (S t0 + t) by lia. apply IH. lia.
Qed.

Lemma before_end_noend {V} (l : list (op V)) : (forall o, In o l -> is_end o = false) -> before_end l = l.
Proof. induction l as [|o l IH]; intros H; [reflexivity|]. cbn. rewrite (H o (or_introl eq_refl)). f_equal. apply IH. intros x Hx; apply H; right; exact Hx. Qed.
Lemma end_time_first {V} (A : list (op V)) t B : (forall o, In o A -> is_end o = false) -> end_time (A ++ End t :: B) = t.
Proof.
  unfold end_time. induction A as [|o A IH]; intros H; [reflexivity|]. cbn. rewrite (H o (or_introl eq_refl)). apply IH.
  intros x Hx; apply H; right; exact Hx.
Qed.

Lemma flat_map_map' {A B C} (g : A -> B) (f : B -> list C) l : flat_map f (map g l) = flat_map (fun x => f (g x)) l.
Proof. induction l; cbn; [reflexivity|]. rewrite IHl. reflexivity. Qed.
Lemma flat_map_mapped {A B C} (f : A -> list C) (hh : A -> list B) (g : B -> C) l : (forall x, f x = map g (hh x)) -> flat_map f l = map g (flat_map hh l).
Proof. intros H. induction l as [|a l IH]; cbn; [reflexivity|]. rewrite H, IH, map_app. reflexivity. Qed.
Lemma flat_map_nil {A B} (f : A -> list B) l : (forall x, In x l -> f x = []) -> flat_map f l = [].
Proof. induction l as [|a l IH]; intros H; [reflexivity|]. cbn. rewrite (H a (or_introl eq_refl)). apply IH. intros x Hx; apply H; right; exact Hx. Qed.

Section Cut.
Variables (ths : list (list (op aval))) (h : list hev) (ids : list cid).
Definition opa (x : cid) : op aval := nth (snd x) (nth (fst x) ths []) IsRec.
Definition valid (x : cid) : Prop := fst x < length ths /\ snd x < length (nth (fst x) ths []).
Notation calls := (number_threads 0 ths).

Hypothesis Hnd : NoDup ids.
Hypothesis Hval : forall x, In x ids <-> valid x.
Hypothesis Hord : forall x y, In y ids -> before h x y = true -> precedes x y ids.
Hypothesis Hseq : forall t i j, i < j -> valid (t, j) -> before h (t, i) (t, j) = true.
Variables (P R : list cid) (e : cid) (te : Z).
Hypothesis Hsplit : ids = P ++ e :: R.
Hypothesis He : opa e = End te.
Hypothesis HP : forall a, In a P -> is_end (opa a) = false.

Lemma call_in x o : In (x, o) (concat calls) <-> valid x /\ o = opa x.
Proof.
  split.
  - intros H. apply in_concat in H as (tc & Htc & Hin). apply number_threads_in in Htc as (t & _ & -> & L).
    rewrite Nat.sub_0_r in *. apply number_ops_in in Hin as (E1 & _ & E3). rewrite Nat.sub_0_r in E3. subst t.
    split; [split; [exact L|apply nth_error_Some; congruence]|]. unfold opa. symmetry. apply nth_error_nth. exact E3.
  - intros [[L1 L2] ->]. apply in_concat. exists (number_ops (fst x) 0 (nth (fst x) ths [])). split.
    + exact (number_threads_all ths 0 (fst x) L1).
    + apply number_ops_in. repeat split; [lia|]. rewrite Nat.sub_0_r. unfold opa.
      destruct (nth_error (nth (fst x) ths []) (snd x)) eqn:E; [rewrite (nth_error_nth _ _ _ E); reflexivity|].
      apply nth_error_None in E. lia.
Qed.

Lemma in_P_ids x : In x P -> In x ids.
Proof. intros H. rewrite Hsplit. apply in_or_app; left; exact H. Qed.
Lemma e_in_ids : In e ids.
Proof. rewrite Hsplit. apply in_or_app; right; left; reflexivity. Qed.
Lemma before_in_P x y : before h x y = true -> In y P \/ y = e -> In x P.
Proof.
  intros Hb Hy. assert (Hyi : In y ids) by (destruct Hy as [Hy| ->]; [apply in_P_ids; exact Hy|exact e_in_ids]).
  pose proof (Hord x y Hyi Hb) as Hp. rewrite Hsplit in Hp, Hnd. eapply precedes_prefix; eauto.
Qed.

Definition inP (cl : rcall) : bool := mem P (fst cl).
Definition the_cut : list nat := map (count_while inP) calls.
Definition inc_all : list rcall := included calls the_cut.

Lemma inc_all_in x o : In (x, o) inc_all <-> In x P /\ o = opa x.
Proof.
  unfold inc_all, the_cut. rewrite included_map. split.
  - intros H. apply in_concat in H as (l & Hl & Hin). apply in_map_iff in Hl as (tc & <- & Htc).
    apply (take_while_sat inP tc) in Hin as [Hp Hin]. split; [apply mem_in; exact Hp|].
    apply (call_in x o). apply in_concat. exists tc. split; assumption.
  - intros [Hx ->]. pose proof (proj1 (Hval x) (in_P_ids x Hx)) as [L1 L2].
    apply in_concat. exists (firstn (count_while inP (number_ops (fst x) 0 (nth (fst x) ths []))) (number_ops (fst x) 0 (nth (fst x) ths []))).
    split; [apply in_map_iff; eexists; split; [reflexivity|exact (number_threads_all ths 0 (fst x) L1)]|].
    assert (Hin : In (x, opa x) (number_ops (fst x) 0 (nth (fst x) ths []))).
    { apply number_ops_in. repeat split; [lia|]. rewrite Nat.sub_0_r. unfold opa.
      destruct (nth_error (nth (fst x) ths []) (snd x)) eqn:E; [rewrite (nth_error_nth _ _ _ E); reflexivity|].
      apply nth_error_None in E. lia. }
    apply in_split in Hin as (l1 & l2 & E). rewrite E. apply (take_while_in inP).
    + intros a Ha. destruct (number_ops_split _ _ _ _ _ _ _ E a Ha) as [A1 A2]. unfold inP. apply mem_in.
      apply (before_in_P (fst a) x); [|left; exact Hx].
      destruct a as [[at_ ai] ao]. cbn in *. subst at_. destruct x as [xt xi]. cbn in *. apply Hseq; [exact A2|split; assumption].
    + unfold inP. apply mem_in. exact Hx.
Qed.

Definition mutator (o : op aval) : bool := match o with End _ | IsRec => false | _ => true end.
Definition inc : list rcall := filter (fun c => mutator (snd c)) inc_all.
Lemma inc_in x o : In (x, o) inc <-> In x P /\ o = opa x /\ mutator o = true.
Proof. unfold inc. rewrite filter_In, inc_all_in. cbn. tauto. Qed.

(* ---- the last writer, for any kind of write *)
Section Writer.
Context {B : Type} (sel : op aval -> option B).
Hypothesis sel_mut : forall o b, sel o = Some b -> mutator o = true.
Definition selc (l : list rcall) : list (rcall * B) := flat_map (fun c => match sel (snd c) with Some b => [(c, b)] | None => [] end) l.
Definition vals : list B := flat_map (fun x => match sel (opa x) with Some b => [b] | None => [] end) P.

Lemma selc_in c b l : In (c, b) (selc l) <-> In c l /\ sel (snd c) = Some b.
Proof.
  unfold selc. rewrite in_flat_map. split.
  - intros (c' & Hc & Hin). destruct (sel (snd c')) eqn:E; [|contradiction]. destruct Hin as [[= <- <-]|[]]. auto.
  - intros [Hc E]. exists c. split; [exact Hc|]. rewrite E. left; reflexivity.
Qed.

Lemma last_writer :
  (vals = [] /\ selc inc = []) \/
  (exists x b, In x P /\ sel (opa x) = Some b /\ (exists vs, vals = vs ++ [b]) /\ In ((x, opa x), b) (selc inc) /\
               forall c' b', In (c', b') (selc inc) -> before h x (fst c') = false).
Proof.
  destruct (existsb (fun x => match sel (opa x) with Some _ => true | None => false end) P) eqn:Ex.
  - right. apply last_split in Ex as (A & x & Bl & EP & Hx & HB).
    destruct (sel (opa x)) as [b|] eqn:Sx; [|discriminate]. exists x, b.
    assert (HxP : In x P) by (rewrite EP; apply in_or_app; right; left; reflexivity).
    repeat split; [exact HxP|exact Sx| | |].
    + exists (flat_map (fun x0 => match sel (opa x0) with Some b0 => [b0] | None => [] end) A).
      unfold vals. rewrite EP, flat_map_app. cbn [flat_map]. rewrite Sx.
      assert (Z : flat_map (fun x0 => match sel (opa x0) with Some b0 => [b0] | None => [] end) Bl = []).
      { apply flat_map_nil. intros y Hy. specialize (HB y Hy). destruct (sel (opa y)); [discriminate|reflexivity]. }
      rewrite Z. reflexivity.
    + apply selc_in. split; [apply inc_in; repeat split; [exact HxP|eapply sel_mut; exact Sx]|exact Sx].
    + intros [y o] b' Hin. apply selc_in in Hin as [Hin Sy]. apply inc_in in Hin as (HyP & -> & _). cbn [fst snd] in *.
      destruct (before h x y) eqn:Bf; [exfalso|reflexivity].
      pose proof (Hord x y (in_P_ids y HyP) Bf) as Hp.
      rewrite EP in HyP. apply in_app_or in HyP as [HyA|[<-|HyB]].
      * (* y in front of x in P: y precedes x in ids *)
        apply in_split in HyA as (A1 & A2 & ->).
        assert (Hq : precedes y x ids).
        { rewrite Hsplit, EP. exists A1, (A2 ++ x :: Bl ++ e :: R). split; [rewrite <- !app_assoc; reflexivity|].
          apply in_or_app; right; left; reflexivity. }
        exact (precedes_asym _ _ _ Hnd Hq Hp).
      * exact (precedes_irrefl _ _ Hnd Hp).
      * specialize (HB y HyB). rewrite Sy in HB. discriminate.
  - left. assert (None_ : forall x, In x P -> sel (opa x) = None).
    { intros x Hx. destruct (sel (opa x)) eqn:E; [|reflexivity]. exfalso.
      assert (existsb (fun x => match sel (opa x) with Some _ => true | None => false end) P = true)
        by (apply existsb_exists; exists x; split; [exact Hx|rewrite E; reflexivity]). congruence. }
    split.
    + unfold vals. apply flat_map_nil. intros x Hx. rewrite (None_ x Hx). reflexivity.
    + destruct (selc inc) as [|[[y o] b] l] eqn:E; [reflexivity|exfalso].
      assert (Hin : In ((y, o), b) (selc inc)) by (rewrite E; left; reflexivity).
      apply selc_in in Hin as [Hin Sy]. apply inc_in in Hin as (HyP & -> & _). cbn in Sy. rewrite (None_ y HyP) in Sy. discriminate.
Qed.
End Writer.

(* ---- the export of the calls in the order [ids] *)
Variables (c : cfg aval) (s : start aval).
Definition cop (x : cid) : op oval := map_op conv (opa x).
Definition pre : list (op oval) := map cop P.
Definition lin : list (op oval) := map cop ids.
Definition dx : sdata := export (map_cfg conv c) (map_start conv s) lin.

Lemma pre_noend o : In o pre -> is_end o = false.
Proof. unfold pre. intros H. apply in_map_iff in H as (x & <- & Hx). unfold cop. rewrite is_end_map. apply HP; exact Hx. Qed.
Lemma lin_split : lin = (pre ++ End te :: map cop R)%list.
Proof. unfold lin, pre. rewrite Hsplit, map_app. cbn [map]. unfold cop at 2. rewrite He. reflexivity. Qed.
Lemma before_end_lin : before_end lin = pre.
Proof. rewrite lin_split, before_end_app_end. apply before_end_noend. exact pre_noend. Qed.
Lemma end_time_lin : end_time lin = te.
Proof. rewrite lin_split. apply end_time_first. exact pre_noend. Qed.

Lemma dx_fields :
  d_name dx = last (names_of pre) (s_name s) /\
  d_dur dx = duration (s_steady s) te /\
  (d_status dx, d_desc dx) = last (statuses_of pre) (0%Z, []) /\
  d_attrs dx = fold_left set_attribute (writes_of pre) (amap_of (map_attrs conv (s_attrs s))) /\
  d_events dx = map event_of (events_of pre).
Proof.
  destruct (export_fields (map_cfg conv c) (map_start conv s) lin) as (F1 & _ & _ & F4 & F5 & _ & F7 & F8 & _).
  cbn zeta in *. fold dx in F1, F4, F5, F7, F8. rewrite before_end_lin in *. rewrite end_time_lin in F4.
  cbn [map_start s_name s_steady s_attrs] in *. repeat split; try assumption.
  rewrite F7. unfold amap_of. rewrite fold_left_app. reflexivity.
Qed.

(* projections of [pre] are the [vals] of the matching selector *)
Lemma proj_pre {B} (f : op oval -> list B) (sel : op aval -> option B) :
  (forall o, f (map_op conv o) = match sel o with Some b => [b] | None => [] end) ->
  flat_map f pre = vals sel.
Proof. intros H. unfold pre, vals. rewrite flat_map_map'. apply flat_map_ext. intros x. apply H. Qed.

Definition sel_name (o : op aval) : option bytes := match o with UpdateName n => Some n | _ => None end.
Definition sel_status (o : op aval) : option (Z * bytes) := match o with Status k d => Some (k, d) | _ => None end.
Definition sel_key (k : bytes) (o : op aval) : option (bytes * aval) :=
  match o with SetAttr kv => if bytes_eqb (fst kv) k then Some kv else None | _ => None end.

Lemma un_calls_selc l : un_calls l = selc sel_name l.
Proof. unfold un_calls, selc. apply flat_map_ext. intros [x o]. destruct o; reflexivity. Qed.
Lemma ss_calls_selc l : ss_calls l = selc sel_status l.
Proof. unfold ss_calls, selc. apply flat_map_ext. intros [x o]. destruct o; reflexivity. Qed.

Lemma maximal_of {B} (x : rcall) (ws : list (rcall * B)) :
  (forall c' b', In (c', b') ws -> before h (fst x) (fst c') = false) -> maximal h (map fst ws) x = true.
Proof.
  intros H. unfold maximal. apply forallb_forall. intros y Hy. apply in_map_iff in Hy as ([c' b'] & <- & Hin).
  cbn [fst]. rewrite (H c' b' Hin). reflexivity.
Qed.

Lemma name_ok_dx : name_ok h s inc dx = true.
Proof.
  unfold name_ok. rewrite un_calls_selc. destruct dx_fields as (F1 & _).
  assert (Hn : names_of pre = vals sel_name) by (apply proj_pre; intros o; destruct o; reflexivity).
  rewrite Hn in F1.
  destruct (last_writer sel_name) as [[V S0]|(x & b & HxP & Sx & Hl & Hin & Hmax)]; [intros o b; destruct o; discriminate || reflexivity| |].
  - rewrite S0, F1, V. cbn. apply bytes_eqb_refl.
  - destruct (selc sel_name inc) as [|w ws] eqn:E; [contradiction|]. rewrite <- E in *.
    apply existsb_exists. exists ((x, opa x), b). split; [exact Hin|]. cbn [fst snd]. destruct Hl as [vs Hl].
    rewrite F1, Hl, last_app_default, bytes_eqb_refl. cbn [last andb]. apply maximal_of. exact Hmax.
Qed.

Lemma status_ok_dx : status_ok h inc dx = true.
Proof.
  unfold status_ok. rewrite ss_calls_selc. destruct dx_fields as (_ & _ & F5 & _).
  assert (Hn : statuses_of pre = vals sel_status) by (apply proj_pre; intros o; destruct o; reflexivity).
  rewrite Hn in F5.
  destruct (last_writer sel_status) as [[V S0]|(x & b & HxP & Sx & Hl & Hin & Hmax)]; [intros o b; destruct o; discriminate || reflexivity| |].
  - rewrite S0. assert (F5' : (d_status dx, d_desc dx) = (0%Z, [])) by (rewrite F5, V; reflexivity).
    pose proof (f_equal fst F5') as E1. pose proof (f_equal snd F5') as E2. cbn [fst snd] in E1, E2. rewrite E1, E2. reflexivity.
  - destruct (selc sel_status inc) as [|w ws] eqn:E; [contradiction|]. rewrite <- E in *.
    apply existsb_exists. exists ((x, opa x), b). split; [exact Hin|]. cbn [fst snd].
    destruct Hl as [vs Hl]. rewrite Hl, last_app_default in F5. cbn [last] in F5. pose proof (f_equal fst F5) as E1. pose proof (f_equal snd F5) as E2. cbn [fst snd] in E1, E2. rewrite E1, E2, Z.eqb_refl, bytes_eqb_refl. cbn [andb]. apply maximal_of. exact Hmax.
Qed.

(* ---- attributes *)
Lemma olast_last k (ws : attrs oval) :
  olast k ws = last (map (fun kv => Some (snd kv)) (filter (fun kv => bytes_eqb (fst kv) k) ws)) None.
Proof.
  induction ws as [|kv ws IH] using rev_ind; [reflexivity|].
  rewrite olast_snoc, filter_app, map_app. cbn [filter]. destruct (bytes_eqb (fst kv) k).
  - cbn [map]. rewrite last_app_default. reflexivity.
  - cbn [map]. rewrite app_nil_r. exact IH.
Qed.
Lemma filter_flat_map' {A B} (p : B -> bool) (g : A -> list B) l : filter p (flat_map g l) = flat_map (fun o => filter p (g o)) l.
Proof. induction l as [|a l IH]; [reflexivity|]. cbn. rewrite filter_app, IH. reflexivity. Qed.

Definition gconv (kv : bytes * aval) : bytes * oval := (fst kv, conv (snd kv)).
Lemma key_writes_pre k : filter (fun kv => bytes_eqb (fst kv) k) (writes_of pre) = map gconv (vals (sel_key k)).
Proof.
  unfold writes_of, pre, vals. rewrite filter_flat_map', flat_map_map'. apply flat_map_mapped.
  intros x. unfold cop. destruct (opa x) as [kv| | | | |]; try reflexivity. cbn [map_op filter fst snd sel_key].
  destruct (bytes_eqb (fst kv) k); reflexivity.
Qed.
Lemma olast_pre k : olast k (writes_of pre) = last (map (fun kv => Some (conv (snd kv))) (vals (sel_key k))) None.
Proof. rewrite olast_last, key_writes_pre, map_map. reflexivity. Qed.

Lemma sa_filter_selc k l : filter (fun w : rcall * (bytes * aval) => bytes_eqb (fst (snd w)) k) (sa_calls l) = selc (sel_key k) l.
Proof.
  unfold sa_calls, selc. rewrite filter_flat_map'. apply flat_map_ext. intros [x o]. destruct o as [kv| | | | |]; try reflexivity.
  cbn [snd filter fst sel_key]. destruct (bytes_eqb (fst kv) k); reflexivity.
Qed.

Lemma dx_attrs_canonical : canonical (d_attrs dx).
Proof. destruct dx_fields as (_ & _ & _ & F7 & _). rewrite F7. apply fold_canonical. apply fold_canonical. constructor. Qed.

Lemma dx_lookup k : alookup k (d_attrs dx) =
  match olast k (writes_of pre) with Some v => Some v | None => option_map owned (last_write k (s_attrs s)) end.
Proof.
  destruct dx_fields as (_ & _ & _ & F7 & _). rewrite F7. rewrite fold_lookup by (apply fold_canonical; constructor).
  destruct (olast k (writes_of pre)); [reflexivity|]. unfold amap_of. rewrite fold_lookup by constructor. rewrite last_write_map.
  destruct (last_write k (s_attrs s)); reflexivity.
Qed.

Lemma sel_key_mut k o b : sel_key k o = Some b -> mutator o = true.
Proof. destruct o; try discriminate. reflexivity. Qed.

Lemma attr_ok_dx kv : In kv (d_attrs dx) -> attr_ok h s inc kv = true.
Proof.
  intros Hin. destruct kv as [k v]. pose proof (alookup_in _ _ _ dx_attrs_canonical Hin) as L. rewrite dx_lookup, olast_pre in L.
  unfold attr_ok. cbn [fst snd]. rewrite sa_filter_selc.
  destruct (last_writer (sel_key k) (sel_key_mut k)) as [[V S0]|(x & b & HxP & Sx & [vs Hl] & Hi & Hmax)].
  - rewrite S0. rewrite V in L. cbn in L. destruct (last_write k (s_attrs s)) as [v0|]; [|discriminate].
    cbn in L. injection L as <-. apply oval_eqb_refl.
  - destruct (selc (sel_key k) inc) as [|w ws] eqn:E; [contradiction|]. rewrite <- E in *.
    apply existsb_exists. exists ((x, opa x), b). split; [exact Hi|]. cbn [fst snd].
    rewrite Hl, map_app, last_app_default in L. cbn in L. injection L as <-.
    rewrite <- conv_owned, oval_eqb_refl. cbn [andb]. apply maximal_of. exact Hmax.
Qed.

Lemma olast_some_of_in k v (ws : attrs oval) : In (k, v) ws -> olast k ws <> None.
Proof.
  intros H. rewrite olast_last.
  assert (Hf : In (k, v) (filter (fun kv => bytes_eqb (fst kv) k) ws)) by (apply filter_In; split; [exact H|apply bytes_eqb_refl]).
  destruct (filter (fun kv => bytes_eqb (fst kv) k) ws) as [|a l] using rev_ind; [contradiction|].
  rewrite map_app, last_app_default. discriminate.
Qed.

Lemma key_present k : (exists v, In (k, v) (s_attrs s)) \/ (exists v, In (k, v) (writes_of pre)) ->
  existsb (fun kv' => bytes_eqb (fst kv') k) (d_attrs dx) = true.
Proof.
  intros H. assert (L : alookup k (d_attrs dx) <> None).
  { rewrite dx_lookup. destruct H as [[v Hv]|[v Hv]].
    - destruct (olast k (writes_of pre)); [discriminate|].
      assert (X : olast k (map_attrs conv (s_attrs s)) <> None).
      { apply (olast_some_of_in k (conv v)). unfold map_attrs. apply in_map_iff. exists (k, v). split; [reflexivity|exact Hv]. }
      rewrite last_write_map in X. destruct (last_write k (s_attrs s)); [discriminate|]. exact X.
    - pose proof (olast_some_of_in k v _ Hv) as X. destruct (olast k (writes_of pre)); [discriminate|contradiction]. }
  destruct (alookup k (d_attrs dx)) as [v|] eqn:E; [|contradiction]. apply alookup_some_in in E.
  apply existsb_exists. exists (k, v). split; [exact E|apply bytes_eqb_refl].
Qed.

Lemma attrs_ok_dx : attrs_ok h s inc (d_attrs dx) = true.
Proof.
  unfold attrs_ok. rewrite (strictly_sorted_canonical _ dx_attrs_canonical). cbn [andb].
  apply andb_true_iff. split.
  - apply forallb_forall. intros kv Hkv. apply attr_ok_dx. exact Hkv.
  - apply forallb_forall. intros [k v] Hkv. cbn [fst]. apply key_present. apply in_app_or in Hkv as [Hkv|Hkv].
    + left. exists v. exact Hkv.
    + right. apply in_map_iff in Hkv as ([[x o] kv'] & E & Hin). cbn in E. subst kv'.
      unfold sa_calls in Hin. apply in_flat_map in Hin as ([x' o'] & Hc & Hin). cbn [snd] in Hin.
      destruct o' as [kv0| | | | |]; try contradiction. destruct Hin as [[= E1 E2 E3]|[]]. subst x' o kv0.
      apply inc_in in Hc as (HxP & Eo & _). exists (conv v).
      unfold writes_of, pre. rewrite flat_map_map'. apply in_flat_map. exists x. split; [exact HxP|].
      unfold cop. rewrite <- Eo. cbn. left; reflexivity.
Qed.

(* ---- events: here only for runs whose included calls add no event (see the partial theorem below) *)
Hypothesis Hnoev : forall x, In x P -> match opa x with Event _ _ _ => False | _ => True end.
Lemma events_ok_dx : events_ok h inc (d_events dx) = true.
Proof.
  destruct dx_fields as (_ & _ & _ & _ & F8).
  assert (E1 : events_of pre = []).
  { unfold events_of, pre. rewrite flat_map_map'. apply flat_map_nil. intros x Hx. specialize (Hnoev x Hx). unfold cop.
    destruct (opa x); try reflexivity. contradiction. }
  assert (E2 : ev_calls inc = []).
  { unfold ev_calls. apply flat_map_nil. intros [x o] Hc. apply inc_in in Hc as (HxP & -> & _). specialize (Hnoev x HxP).
    cbn [snd]. destruct (opa x); try reflexivity. contradiction. }
  unfold events_ok. rewrite F8, E1, E2. reflexivity.
Qed.

Lemma cut_ok_dx : cut_ok h s calls dx (e, te) the_cut = true.
Proof.
  unfold cut_ok. fold inc_all.
  assert (Ei : filter (fun c0 : nat * nat * op aval => match snd c0 with End _ | IsRec => false | _ => true end) inc_all = inc) by reflexivity.
  rewrite Ei.
  destruct dx_fields as (_ & F4 & _). cbn [snd]. rewrite F4. unfold duration at 1.
  rewrite tstamp_eqb_refl, name_ok_dx, status_ok_dx, attrs_ok_dx, events_ok_dx. reflexivity.
Qed.

Lemma end_calls_after x t : In (x, t) (ends_of (concat calls)) -> forall y, In y P \/ y = e -> pb h y <= pr h x.
Proof.
  intros Hx y Hy. unfold ends_of in Hx. apply in_flat_map in Hx as ([x' o] & Hc & Hin). cbn [snd fst] in Hin.
  destruct o; try contradiction. destruct Hin as [[= -> ->]|[]]. apply call_in in Hc as [_ Eo].
  destruct (Nat.le_gt_cases (pb h y) (pr h x)) as [|G]; [assumption|exfalso].
  assert (Bf : before h x y = true) by (unfold before; apply Nat.ltb_lt; exact G).
  pose proof (before_in_P x y Bf Hy) as HxP. specialize (HP x HxP). rewrite <- Eo in HP. discriminate.
Qed.

Lemma race_cut_exists_dx : race_cut_exists h s calls dx = true.
Proof.
  unfold race_cut_exists. apply existsb_exists. exists (e, te). split.
  - unfold ends_of. apply in_flat_map. exists (e, opa e). split.
    + apply call_in. split; [apply Hval; exact e_in_ids|reflexivity].
    + cbn [snd fst]. rewrite He. left; reflexivity.
  - cbn [fst]. set (mr := min_list (map (fun e0 => pr h (fst e0)) (ends_of (concat calls))) (Datatypes.length h)).
    assert (Hmr : forall y, In y P \/ y = e -> pb h y <= mr).
    { intros y Hy. apply min_list_ge; [|apply pb_le_length].
      intros v Hv. apply in_map_iff in Hv as ([x t] & <- & Hx). cbn [fst]. eapply end_calls_after; eauto. }
    apply andb_true_iff. split; [apply Nat.leb_le; apply Hmr; right; reflexivity|].
    apply existsb_exists. exists the_cut. split; [|exact cut_ok_dx].
    unfold the_cut. apply cuts_map_in. intros tc Htc. cbn [fst snd]. split.
    + apply count_while_mono. intros a Ha Hlt. unfold inP. apply mem_in. apply (before_in_P (fst a) e); [exact Hlt|right; reflexivity].
    + apply count_while_mono. intros a Ha Hin. unfold inP in Hin. apply mem_in in Hin. apply Nat.leb_le. apply Hmr. left; exact Hin.
Qed.
End Cut.

(* ------------------------------------------------------------------ accepted traces *)
(* the history is the history of a complete run of the threads' scripts: exactly the scripted calls begin, every one returns,
   and a thread's calls do not overlap *)
Record complete_history (ths : list (list (op aval))) (h : list hev) : Prop := {
  ch_begun : forall x, has true x h -> valid ths x;
  ch_returned : forall x, valid ths x -> has false x h;
  ch_seq : forall t i j, i < j -> valid ths (t, j) -> before h (t, i) (t, j) = true
}.

Lemma op_at_conv ths x : op_at (conv_threads ths) x = map_op conv (opa ths x).
Proof.
  unfold op_at, conv_threads, opa.
  change (@nil (op oval)) with (map (map_op conv) (@nil (op aval))). rewrite map_nth.
  change (@IsRec oval) with (map_op conv (@IsRec aval)). rewrite map_nth. reflexivity.
Qed.

(* EVERY ACCEPTED TRACE PASSES CLAUSE (c) of SpecRace - here for runs in which no thread adds events *)
Theorem accepted_trace_passes_cut_partial (c : cfg aval) (s : start aval) (ths : list (list (op aval))) evs s' xe :
  replay (conv_threads ths) (linit (map_cfg conv c) (map_start conv s)) (fun _ => O) evs 0 = inl s' ->
  complete_history ths (hist_of evs) ->
  valid ths xe -> is_end (opa ths xe) = true ->
  (forall x, valid ths x -> match opa ths x with Event _ _ _ => False | _ => True end) ->
  race_cut_exists (hist_of evs) s (number_threads 0 ths) (export (map_cfg conv c) (map_start conv s) (l_lin s')) = true.
Proof.
  intros Hr [HB HR HS] Hxe Hee Hnoev.
  destruct (lock_order_is_linearization _ _ _ _ _ Hr) as (Hlin & Hnd & Hret & Hbeg & Hord).
  set (ids := ids_of (fun _ => O) evs) in *. set (h := hist_of evs) in *.
  assert (Hval : forall x, In x ids <-> valid ths x).
  { intros x. split; [intros H; apply HB; apply Hbeg; exact H|intros H; apply Hret; apply HR; exact H]. }
  assert (Ex : existsb (fun x => is_end (opa ths x)) ids = true).
  { apply existsb_exists. exists xe. split; [apply Hval; exact Hxe|exact Hee]. }
  apply first_split in Ex as (P & e & R & Hsplit & He & HP).
  destruct (opa ths e) as [| | | |te|] eqn:Eo; try discriminate.
  assert (Hl : l_lin s' = lin ths ids).
  { rewrite Hlin. unfold lin. apply map_ext. intros x. apply op_at_conv. }
  rewrite Hl.
  apply (race_cut_exists_dx ths h ids Hnd Hval Hord HS P R e te Hsplit Eo HP c s).
  intros x Hx. apply Hnoev. apply Hval. rewrite Hsplit. apply in_or_app; left; exact Hx.
Qed.
