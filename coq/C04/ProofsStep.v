(* C04 proofs, part 2: the span machine.  What the exporters have at the end of a case, for every
   configuration, every start and EVERY sequence of operations. *)
From V Require Import C04.Spec C04.ProofsMap.
From Coq Require Import Lia.
Local Open Scope Z_scope.

(* ------------------------------------------------------------------ one SpanData *)
(* the effect of one operation on one recordable *)
Definition apply_op (d : sdata) (o : op oval) : sdata :=
  match o with
  | SetAttr kv => sd_set_attr kv d
  | Event n ts a => sd_add_event n (ev_time ts) (ev_attrs a) d
  | Status c s => sd_set_status c s d
  | UpdateName n => sd_set_name n d
  | End _ | IsRec => d
  end.
Definition apply_ops (d : sdata) (ops : list (op oval)) : sdata := fold_left apply_op ops d.

(* the recordable after Span::Span *)
Definition ctor_sd (c : cfg oval) (s : start oval) : sdata :=
  sd_set_res (amap_of (c_res c))
    (sd_set_start (now_or (s_sys s))
      (sd_set_kind (s_kind s)
        (fold_left (fun d l => sd_add_link l d) (s_links s)
          (fold_left (fun d kv => sd_set_attr kv d) (s_attrs s)
            (sd_set_identity (sd_set_scope (c_scope c) (sd_set_name (s_name s) empty_sd))))))).

(* THE EXPORT: the constructor's recordable, folded over the operations in front of the first End,
   with the duration given by that End (or by the destructor) *)
Definition export (c : cfg oval) (s : start oval) (ops : list (op oval)) : sdata :=
  sd_set_dur (duration (s_steady s) (end_time ops)) (apply_ops (ctor_sd c s) (before_end ops)).

Definition uni {A} (P : list A) (d : sdata) : list sdata := map (fun _ => d) P.

Lemma fan_uni {A} (P : list A) f d : fan f (uni P d) = uni P (f d).
Proof. unfold fan, uni. rewrite map_map. reflexivity. Qed.

Lemma fold_fan_uni {A X} (P : list A) (g : X -> sdata -> sdata) (l : list X) d :
  fold_left (fun cs x => fan (g x) cs) l (uni P d) = uni P (fold_left (fun d x => g x d) l d).
Proof. revert d; induction l as [|x l IH]; intros d; cbn; [reflexivity|]. rewrite fan_uni. apply IH. Qed.

Lemma span_ctor_uniform c s : span_ctor c s = uni (c_procs c) (ctor_sd c s).
Proof.
  unfold span_ctor, ctor_sd. change (map (fun _ => empty_sd) (c_procs c)) with (uni (c_procs c) empty_sd).
  rewrite !fan_uni, !fold_fan_uni, !fan_uni. reflexivity.
Qed.

Lemma deliver_uni {A} (P : list A) d : deliver (map (fun _ => []) P) (uni P d) = map (fun _ => [d]) P.
Proof. induction P; cbn; [reflexivity|]. unfold uni in IHP. rewrite IHP. reflexivity. Qed.

(* ------------------------------------------------------------------ the three phases of a span *)
Lemma rec_answers_app {V} r (a b : list (op V)) :
  Forall (fun o => is_end o = false) a -> rec_answers r (a ++ b) = rec_answers r a ++ rec_answers r b.
Proof.
  induction 1 as [|o a Ho Ha IH]; [reflexivity|]. cbn [app].
  destruct o; cbn in *; try exact IH; try discriminate. rewrite IH. reflexivity.
Qed.

(* recording: operations other than End reach every child recordable; nothing is exported yet *)
Lemma run_ops_recording {A} (P : list A) st G ops : Forall (fun o => is_end o = false) ops -> forall d q,
  run_ops (mk_w (Some (uni P d)) false st G q) ops =
  mk_w (Some (uni P (apply_ops d ops))) false st G (q ++ rec_answers true ops).
Proof.
  induction 1 as [|o ops Ho Hops IH]; intros d q; cbn [run_ops fold_left apply_ops rec_answers].
  - rewrite app_nil_r. reflexivity.
  - unfold run_ops, apply_ops in IH. destruct o; try discriminate;
      cbn [step on_rec w_rec w_ended w_steady w_got w_q fold_left apply_op rec_answers]; rewrite ?fan_uni.
    + apply IH.
    + apply IH.
    + apply IH.
    + apply IH.
    + rewrite IH. rewrite <- app_assoc. reflexivity.
Qed.

(* not recording (never sampled, or ended): nothing changes any more except the has_ended_ flag *)
Lemma run_ops_not_recording ops : forall e st G q,
  run_ops (mk_w None e st G q) ops = mk_w None (e || existsb is_end ops) st G (q ++ rec_answers false ops).
Proof.
  induction ops as [|o ops IH]; intros e st G q; cbn [run_ops fold_left existsb rec_answers].
  - rewrite orb_false_r, app_nil_r. reflexivity.
  - unfold run_ops in IH. destruct o; cbn [step on_rec w_rec w_ended w_steady w_got w_q is_end]; try (rewrite IH; cbn; reflexivity).
    + destruct e; cbn; rewrite IH; cbn; rewrite ?orb_true_r; reflexivity.
    + rewrite IH. rewrite <- app_assoc. cbn. reflexivity.
Qed.

(* the first End splits the operations *)
Lemma ops_split {V} (ops : list (op V)) :
  (Forall (fun o => is_end o = false) ops /\ before_end ops = ops /\ find is_end ops = None) \/
  (exists t rest, ops = before_end ops ++ End t :: rest /\ find is_end ops = Some (End t) /\
                  Forall (fun o => is_end o = false) (before_end ops)).
Proof.
  induction ops as [|o ops IH]; [left; repeat split; constructor|].
  destruct (is_end o) eqn:E.
  - right. destruct o; try discriminate. exists t, ops. cbn. repeat split. constructor.
  - cbn [before_end find]. rewrite E. destruct IH as [(F & B & N)|(t & rest & S & N & F)].
    + left. repeat split; [constructor; assumption | rewrite B; reflexivity | exact N].
    + right. exists t, rest. repeat split; [cbn; rewrite <- S; reflexivity | exact N | constructor; assumption].
Qed.

(* THE WHOLE RUN of a sampled span, for every operation sequence *)
Theorem run1_sampled c s ops : c_sampled c = true ->
  run1 c s ops = mk_w None true (s_steady s) (map (fun _ => [export c s ops]) (c_procs c)) (rec_answers true ops).
Proof.
  intros Hs. unfold run1, start_span, export. rewrite Hs, span_ctor_uniform.
  destruct (ops_split ops) as [(F & B & N)|(t & rest & S & N & F)].
  - rewrite (run_ops_recording _ _ _ _ F). unfold end_time. rewrite N, B.
    cbn [step w_ended w_rec w_steady w_got w_q app]. rewrite fan_uni, deliver_uni. reflexivity.
  - rewrite S at 1. unfold run_ops. rewrite fold_left_app. fold (run_ops (mk_w (Some (uni (c_procs c) (ctor_sd c s))) false (s_steady s) (map (fun _ => []) (c_procs c)) []) (before_end ops)).
    rewrite (run_ops_recording _ _ _ _ F). cbn [fold_left].
    cbn [step w_ended w_rec w_steady w_got w_q app]. rewrite fan_uni, deliver_uni.
    fold (run_ops (mk_w None true (s_steady s) (map (fun _ => [sd_set_dur (duration (s_steady s) t) (apply_ops (ctor_sd c s) (before_end ops))]) (c_procs c)) (rec_answers true (before_end ops))) rest).
    rewrite run_ops_not_recording. cbn [step w_ended orb].
    unfold end_time. rewrite N. f_equal.
    rewrite S at 2. rewrite (rec_answers_app true _ _ F). reflexivity.
Qed.

(* ... and of a span the sampler dropped (a NoopSpan): nothing is exported, IsRecording is false *)
Theorem run1_unsampled c s ops : c_sampled c = false ->
  run1 c s ops = mk_w None true (s_steady s) (map (fun _ => []) (c_procs c)) (rec_answers false ops).
Proof.
  intros Hs. unfold run1, start_span. rewrite Hs, run_ops_not_recording. cbn [orb app].
  destruct (existsb is_end ops); reflexivity.
Qed.

(* ------------------------------------------------------------------ the fields of the export *)
Lemma last_cons {A} (a : A) l d : last (a :: l) d = last l a.
Proof.
  revert a d; induction l as [|b l IH]; intros a d; [reflexivity|].
  change (last (a :: b :: l) d) with (last (b :: l) d). rewrite (IH b d), (IH b a). reflexivity.
Qed.
Lemma last_app_default {A} (l1 l2 : list A) d : last (l1 ++ l2) d = last l2 (last l1 d).
Proof. revert d; induction l1 as [|a l1 IH]; intros d; [reflexivity|]. cbn [app]. rewrite !last_cons. apply IH. Qed.

Definition event_of (e : bytes * option Z * option (attrs oval)) : event :=
  mk_event (fst (fst e)) (ev_time (snd (fst e))) (amap_of (ev_attrs (snd e))).
Definition link_of (l : lctx * attrs oval) : link := mk_link (fst l) (amap_of (snd l)).

Lemma apply_ops_fields ops : forall d,
  d_name (apply_ops d ops) = last (names_of ops) (d_name d) /\
  (d_status (apply_ops d ops), d_desc (apply_ops d ops)) = last (statuses_of ops) (d_status d, d_desc d) /\
  d_attrs (apply_ops d ops) = fold_left set_attribute (writes_of ops) (d_attrs d) /\
  d_events (apply_ops d ops) = d_events d ++ map event_of (events_of ops) /\
  d_kind (apply_ops d ops) = d_kind d /\ d_start (apply_ops d ops) = d_start d /\ d_dur (apply_ops d ops) = d_dur d /\
  d_ctx (apply_ops d ops) = d_ctx d /\ d_links (apply_ops d ops) = d_links d /\ d_res (apply_ops d ops) = d_res d /\
  d_scope (apply_ops d ops) = d_scope d.
Proof.
  induction ops as [|o ops IH]; intros d.
  - cbn. rewrite app_nil_r. repeat split; reflexivity.
  - unfold apply_ops in *. cbn [fold_left]. specialize (IH (apply_op d o)).
    destruct IH as (I1 & I2 & I3 & I4 & I5 & I6 & I7 & I8 & I9 & I10 & I11).
    rewrite I1, I2, I3, I4, I5, I6, I7, I8, I9, I10, I11.
    unfold names_of, statuses_of, writes_of, events_of. cbn [flat_map].
    destruct o; cbn [apply_op sd_set_attr sd_add_event sd_set_status sd_set_name d_name d_status d_desc d_attrs d_events d_kind d_start d_dur d_ctx d_links d_res d_scope app fold_left];
      rewrite ?last_cons; repeat split; try reflexivity.
    rewrite <- app_assoc. reflexivity.
Qed.

Lemma fold_attr_fields (l : attrs oval) : forall d,
  let d' := fold_left (fun d kv => sd_set_attr kv d) l d in
  d_attrs d' = fold_left set_attribute l (d_attrs d) /\ d_name d' = d_name d /\ d_kind d' = d_kind d /\ d_start d' = d_start d /\
  d_dur d' = d_dur d /\ d_status d' = d_status d /\ d_desc d' = d_desc d /\ d_ctx d' = d_ctx d /\ d_events d' = d_events d /\
  d_links d' = d_links d /\ d_res d' = d_res d /\ d_scope d' = d_scope d.
Proof.
  induction l as [|kv l IH]; intros d; cbn; [repeat split; reflexivity|].
  specialize (IH (sd_set_attr kv d)). cbn in IH. exact IH.
Qed.
Lemma fold_link_fields (l : list (lctx * attrs oval)) : forall d,
  let d' := fold_left (fun d l => sd_add_link l d) l d in
  d_links d' = d_links d ++ map link_of l /\ d_name d' = d_name d /\ d_kind d' = d_kind d /\ d_start d' = d_start d /\
  d_dur d' = d_dur d /\ d_status d' = d_status d /\ d_desc d' = d_desc d /\ d_ctx d' = d_ctx d /\ d_events d' = d_events d /\
  d_attrs d' = d_attrs d /\ d_res d' = d_res d /\ d_scope d' = d_scope d.
Proof.
  induction l as [|x l IH]; intros d; cbn; [rewrite app_nil_r; repeat split; reflexivity|].
  specialize (IH (sd_add_link x d)). cbn in IH. destruct IH as (I1 & IH). rewrite I1, <- app_assoc. split; [reflexivity|exact IH].
Qed.

Lemma ctor_fields c s :
  d_name (ctor_sd c s) = s_name s /\ d_kind (ctor_sd c s) = s_kind s /\ d_start (ctor_sd c s) = now_or (s_sys s) /\
  d_status (ctor_sd c s) = 0 /\ d_desc (ctor_sd c s) = [] /\ d_ctx (ctor_sd c s) = true /\
  d_attrs (ctor_sd c s) = amap_of (s_attrs s) /\ d_events (ctor_sd c s) = [] /\
  d_links (ctor_sd c s) = map link_of (s_links s) /\ d_res (ctor_sd c s) = amap_of (c_res c) /\ d_scope (ctor_sd c s) = c_scope c.
Proof.
  unfold ctor_sd.
  set (d0 := sd_set_identity (sd_set_scope (c_scope c) (sd_set_name (s_name s) empty_sd))).
  destruct (fold_attr_fields (s_attrs s) d0) as (A1 & A2 & A3 & A4 & A5 & A6 & A7 & A8 & A9 & A10 & A11 & A12).
  destruct (fold_link_fields (s_links s) (fold_left (fun d kv => sd_set_attr kv d) (s_attrs s) d0)) as (L1 & L2 & L3 & L4 & L5 & L6 & L7 & L8 & L9 & L10 & L11 & L12).
  cbn [sd_set_res sd_set_start sd_set_kind d_name d_kind d_start d_status d_desc d_ctx d_attrs d_events d_links d_res d_scope].
  rewrite L2, L6, L7, L8, L10, L9, L1, L12, A2, A6, A7, A8, A1, A9, A10, A12.
  repeat split; reflexivity.
Qed.

(* every field of the export, said directly in terms of the operation list *)
Theorem export_fields c s ops :
  let d := export c s ops in let pre := before_end ops in
  d_name d = last (names_of pre) (s_name s) /\
  d_kind d = s_kind s /\
  d_start d = now_or (s_sys s) /\
  d_dur d = duration (s_steady s) (end_time ops) /\
  (d_status d, d_desc d) = last (statuses_of pre) (0, []) /\
  d_ctx d = true /\
  d_attrs d = amap_of (s_attrs s ++ writes_of pre) /\
  d_events d = map event_of (events_of pre) /\
  d_links d = map link_of (s_links s) /\
  d_res d = amap_of (c_res c) /\
  d_scope d = c_scope c.
Proof.
  cbn zeta. unfold export.
  destruct (apply_ops_fields (before_end ops) (ctor_sd c s)) as (I1 & I2 & I3 & I4 & I5 & I6 & I7 & I8 & I9 & I10 & I11).
  destruct (ctor_fields c s) as (C1 & C2 & C3 & C4 & C5 & C6 & C7 & C8 & C9 & C10 & C11).
  cbn [sd_set_dur d_name d_kind d_start d_dur d_status d_desc d_ctx d_attrs d_events d_links d_res d_scope].
  rewrite I1, I2, I3, I4, I5, I6, I8, I9, I10, I11, C1, C2, C3, C4, C5, C6, C7, C8, C9, C10, C11.
  unfold amap_of. rewrite fold_left_app. repeat split; reflexivity.
Qed.

(* ------------------------------------------------------------------ End once, operations after End *)
(* once the span has ended, no operation - a second End included - changes what has been exported,
   what is being recorded, or the ended flag *)
Theorem step_after_end_inert w o : w_ended w = true -> w_rec w = None ->
  let w' := step w o in w_got w' = w_got w /\ w_rec w' = None /\ w_ended w' = true.
Proof.
  intros He Hr. destruct w as [r e st G q]. cbn in He, Hr. subst. destruct o; cbn; repeat split; reflexivity.
Qed.

Lemma before_end_app_end {V} (pre : list (op V)) t r : before_end (pre ++ End t :: r) = before_end pre.
Proof. induction pre as [|o pre IH]; [reflexivity|]. cbn. destruct (is_end o); [reflexivity|]. rewrite IH; reflexivity. Qed.
Lemma end_time_app_end {V} (pre : list (op V)) t r : end_time (pre ++ End t :: r) = end_time (pre ++ [End t]).
Proof. unfold end_time. induction pre as [|o pre IH]; [reflexivity|]. cbn. destruct (is_end o); [reflexivity|exact IH]. Qed.

(* after the first End nothing that follows matters for the export *)
Theorem end_latches c s pre t rest1 rest2 : c_sampled c = true ->
  w_got (run1 c s (pre ++ End t :: rest1)) = w_got (run1 c s (pre ++ End t :: rest2)).
Proof.
  intros Hs. rewrite !run1_sampled by exact Hs. cbn [w_got].
  assert (E : forall rest, export c s (pre ++ End t :: rest) = export c s (pre ++ [End t])).
  { intros rest. unfold export.
    rewrite (before_end_app_end pre t rest), (before_end_app_end pre t []), (end_time_app_end pre t rest). reflexivity. }
  rewrite (E rest1), (E rest2). reflexivity.
Qed.

(* non-vacuity *)
Example run1_example :
  let c := mk_cfg [PSimple; PBatch] true (bs "lib", [], []) [] in
  let s := mk_start (bs "n") 1 0 5 [(bs "a", OSc TI32 1)] [] in
  map (map d_name) (w_got (run1 c s [UpdateName (bs "m"); End 9; UpdateName (bs "late"); End 11])) = [[bs "m"]; [bs "m"]] /\
  map (map d_dur) (w_got (run1 c s [UpdateName (bs "m"); End 9; UpdateName (bs "late"); End 11])) = [[TExact 4]; [TExact 4]].
Proof. split; reflexivity. Qed.
