(* C04 proofs, part 4: caller memory.  The state of the span machine contains owned bytes only; a call
   reads the heap as it is during the call; whatever the caller does to its memory afterwards -
   overwrite, free, anything - cannot change what is exported. *)
From V Require Import C04.Spec C04.ProofsMap C04.ProofsStep C04.ProofsMeets.
From Coq Require Import Lia.
Local Open Scope nat_scope.

(* ------------------------------------------------------------------ programs as sequences of resolved operations *)
(* the operations a program performs, each with the bytes its views denoted AT THE TIME OF ITS CALL *)
Fixpoint trace (h : heap) (w : world) (p : list hstep) : option (list (op oval)) :=
  match p with
  | [] => Some []
  | HCall o :: p' =>
      if (match w_rec w with None => touches_memory o | Some _ => false end) then trace h w p'
      else match resolve_op h o with
           | Some o' => option_map (cons o') (trace h (step w o') p')
           | None => None
           end
  | s :: p' => trace (mem_step h s) w p'
  end.

Lemma call_unfold h w o :
  call h w o = if (match w_rec w with None => touches_memory o | Some _ => false end) then Some w
               else option_map (step w) (resolve_op h o).
Proof. unfold call. destruct (w_rec w); [reflexivity|]. destruct (touches_memory o); reflexivity. Qed.

(* running a program = running the span machine on its trace *)
Theorem run_steps_is_run_ops p : forall h w,
  option_map snd (run_steps h w p) = option_map (run_ops w) (trace h w p).
Proof.
  induction p as [|s p IH]; intros h w; [reflexivity|].
  destruct s as [o|b|a b|a]; cbn [run_steps trace]; try apply IH.
  rewrite call_unfold.
  destruct (match w_rec w with None => touches_memory o | Some _ => false end); [apply IH|].
  destruct (resolve_op h o) as [o'|]; cbn [option_map]; [|reflexivity].
  rewrite IH. destruct (trace h (step w o') p); reflexivity.
Qed.

(* OWNERSHIP, general form: two programs - different heaps, different memory traffic between the calls -
   whose calls saw the same bytes leave the span machine in the same state *)
Theorem same_bytes_at_call_time_same_result p1 p2 h1 h2 w ops :
  trace h1 w p1 = Some ops -> trace h2 w p2 = Some ops ->
  option_map snd (run_steps h1 w p1) = option_map snd (run_steps h2 w p2).
Proof. intros T1 T2. rewrite !run_steps_is_run_ops, T1, T2. reflexivity. Qed.

Definition is_call (s : hstep) : bool := match s with HCall _ => true | _ => false end.

Lemma run_steps_app p q : forall h w,
  run_steps h w (p ++ q) = match run_steps h w p with Some (h', w') => run_steps h' w' q | None => None end.
Proof.
  induction p as [|s p IH]; intros h w; [reflexivity|].
  destruct s; cbn [app run_steps]; try apply IH.
  destruct (call h w o); [apply IH|reflexivity].
Qed.
Lemma run_steps_memory_only q : Forall (fun s => is_call s = false) q -> forall h w,
  run_steps h w q = Some (fold_left mem_step q h, w).
Proof.
  induction 1 as [|s q Hs Hq IH]; intros h w; [reflexivity|].
  destruct s; try discriminate; cbn [run_steps fold_left]; apply IH.
Qed.

(* OWNERSHIP, the property's form: whatever the caller does to its memory after the calls
   (overwrite, free, allocate - any memory traffic at all) the outcome is the same *)
Theorem later_mutation_irrelevant c pre s p muts : Forall (fun s => is_call s = false) muts ->
  run0 c pre s (p ++ muts) = run0 c pre s p.
Proof.
  intros Hm. unfold run0. destruct (resolve_start (fold_left mem_step pre []) s) as [s'|]; [|reflexivity].
  rewrite run_steps_app. destruct (run_steps (fold_left mem_step pre []) (start_span c s') p) as [[h' w']|]; [|reflexivity].
  rewrite (run_steps_memory_only _ Hm). reflexivity.
Qed.

(* a mutator on a span that is not recording (never sampled, or ended) does not read its arguments: it
   succeeds, and changes nothing, even when every view it is given is dangling *)
Theorem ended_span_never_reads_memory h w o : w_rec w = None -> touches_memory o = true -> call h w o = Some w.
Proof. intros Hr Ht. unfold call. rewrite Hr, Ht. reflexivity. Qed.

(* ------------------------------------------------------------------ the allocator of the compiled caller *)
Definition ext (H H' : heap) : Prop := exists e, H' = H ++ e.
Lemma ext_refl H : ext H H. Proof. exists []. rewrite app_nil_r; reflexivity. Qed.
Lemma ext_trans A B C : ext A B -> ext B C -> ext A C.
Proof. intros [e1 ->] [e2 ->]. exists (e1 ++ e2). rewrite app_assoc; reflexivity. Qed.

Lemma hread_ext H H' a b : ext H H' -> hread H a = Some b -> hread H' a = Some b.
Proof.
  intros [e ->]. unfold hread. destruct (nth_error H a) as [[x|]|] eqn:E; try discriminate.
  intros [= <-]. rewrite nth_error_app1; [rewrite E; reflexivity|]. apply nth_error_Some. congruence.
Qed.
Lemma read_str_ext H H' v s : ext H H' -> read_str H v = Some s -> read_str H' v = Some s.
Proof.
  intros Hx. unfold read_str. destruct (hread H (fst v)) as [[l|l|l]|] eqn:E; try discriminate.
  rewrite (hread_ext _ _ _ _ Hx E). auto.
Qed.
Lemma read_strs_ext H H' vs l : ext H H' -> read_strs H vs = Some l -> read_strs H' vs = Some l.
Proof.
  intros Hx. revert l; induction vs as [|v vs IH]; intros l; cbn; [auto|].
  destruct (read_str H v) as [s|] eqn:E; [|discriminate]. destruct (read_strs H vs) as [r|]; [|discriminate].
  intros [= <-]. rewrite (read_str_ext _ _ _ _ Hx E), (IH r eq_refl). reflexivity.
Qed.
Lemma resolve_val_ext H H' v x : ext H H' -> resolve_val H v = Some x -> resolve_val H' v = Some x.
Proof.
  intros Hx. destruct v as [t z|a|v|t v|v]; cbn.
  - auto.
  - destruct (hread H a) as [[l|l|l]|] eqn:E; try discriminate. rewrite (hread_ext _ _ _ _ Hx E). auto.
  - destruct (read_str H v) as [s|] eqn:E; [|discriminate]. rewrite (read_str_ext _ _ _ _ Hx E). auto.
  - destruct (hread H (fst v)) as [[l|l|l]|] eqn:E; try discriminate. rewrite (hread_ext _ _ _ _ Hx E). auto.
  - destruct (hread H (fst v)) as [[l|l|l]|] eqn:E; try discriminate. rewrite (hread_ext _ _ _ _ Hx E).
    destruct (Nat.leb (snd v) (length l)); [|discriminate].
    destruct (read_strs H (firstn (snd v) l)) as [r|] eqn:E2; [|discriminate].
    rewrite (read_strs_ext _ _ _ _ Hx E2). auto.
Qed.
Lemma resolve_attrs_ext H H' l x : ext H H' -> resolve_attrs H l = Some x -> resolve_attrs H' l = Some x.
Proof.
  intros Hx. revert x; induction l as [|[k v] l IH]; intros x; cbn; [auto|].
  destruct (read_str H k) as [k'|] eqn:E1; [|discriminate].
  destruct (resolve_val H v) as [v'|] eqn:E2; [|discriminate].
  destruct (resolve_attrs H l) as [r|]; [|discriminate].
  intros [= <-]. rewrite (read_str_ext _ _ _ _ Hx E1), (resolve_val_ext _ _ _ _ Hx E2), (IH r eq_refl). reflexivity.
Qed.

(* the heap after the blocks recorded in [st] have been allocated on top of [h] *)
Definition hp (h : heap) (st : ast) : heap := h ++ map Some (rev (fst st)).
Definition inv (h : heap) (st : ast) : Prop := snd st = length h + length (fst st).

Lemma hp_length h st : length (hp h st) = length h + length (fst st).
Proof. unfold hp. rewrite app_length, map_length, rev_length. reflexivity. Qed.

Lemma a_new_ok h st b : inv h st ->
  let st' := fst (a_new st b) in let a := snd (a_new st b) in
  inv h st' /\ hp h st' = hp h st ++ [Some b] /\ hread (hp h st') a = Some b.
Proof.
  intros Hi. unfold a_new, inv, hp in *. cbn [fst snd rev length]. repeat split.
  - lia.
  - rewrite map_app, app_assoc. reflexivity.
  - unfold hread. rewrite map_app, app_assoc, nth_error_app2; rewrite app_length, map_length, rev_length; [|lia].
    rewrite Hi, Nat.sub_diag. reflexivity.
Qed.

Lemma firstn_length_all {A} (l : list A) : firstn (length l) l = l.
Proof. apply firstn_all. Qed.

Lemma a_str_ok h st s : inv h st ->
  let st' := fst (a_str st s) in let v := snd (a_str st s) in
  inv h st' /\ ext (hp h st) (hp h st') /\ read_str (hp h st') v = Some s.
Proof.
  intros Hi. destruct (a_new_ok h st (BBytes s) Hi) as (I & E & R).
  unfold a_str. destruct (a_new st (BBytes s)) as [st1 a] eqn:N. cbn [fst snd] in *.
  repeat split; [exact I | exists [Some (BBytes s)]; exact E |].
  unfold read_str. cbn [fst snd]. rewrite R, Nat.leb_refl, firstn_length_all. reflexivity.
Qed.

Lemma a_strs_ok h l : forall st, inv h st ->
  let st' := fst (a_strs st l) in let vs := snd (a_strs st l) in
  inv h st' /\ ext (hp h st) (hp h st') /\ read_strs (hp h st') vs = Some l /\ length vs = length l.
Proof.
  induction l as [|s l IH]; intros st Hi; cbn [a_strs].
  - cbn. repeat split; [exact Hi | apply ext_refl].
  - destruct (a_str_ok h st s Hi) as (I1 & E1 & R1). destruct (a_str st s) as [st1 v] eqn:A1. cbn [fst snd] in *.
    destruct (IH st1 I1) as (I2 & E2 & R2 & L2). destruct (a_strs st1 l) as [st2 vs] eqn:A2. cbn [fst snd] in *.
    repeat split; [exact I2 | eapply ext_trans; eauto | | cbn; rewrite L2; reflexivity].
    cbn [read_strs]. rewrite (read_str_ext _ _ _ _ E2 R1), R2. reflexivity.
Qed.

Lemma until_nul_app_nul s : until_nul (s ++ [x00]) = until_nul s.
Proof. induction s as [|b s IH]; [reflexivity|]. cbn. destruct (is_nul b); [reflexivity|]. rewrite IH; reflexivity. Qed.
Lemma has_nul_app_nul s : has_nul (s ++ [x00]) = true.
Proof. unfold has_nul. rewrite existsb_app. cbn. rewrite orb_true_r. reflexivity. Qed.

(* the view handed to the SDK denotes, during the call, exactly the owned copy of the value *)
Lemma a_val_ok h st v : inv h st ->
  let st' := fst (a_val st v) in let vv := snd (a_val st v) in
  inv h st' /\ ext (hp h st) (hp h st') /\ resolve_val (hp h st') vv = Some (conv v).
Proof.
  intros Hi. destruct v as [t z|s|s|t l|l]; cbn [a_val conv].
  - cbn. repeat split; [exact Hi | apply ext_refl].
  - destruct (a_new_ok h st (BBytes (s ++ [x00])) Hi) as (I & E & R).
    destruct (a_new st (BBytes (s ++ [x00]))) as [st1 a]. cbn [fst snd] in *.
    repeat split; [exact I | eexists; exact E |]. cbn [resolve_val]. rewrite R, has_nul_app_nul, until_nul_app_nul. reflexivity.
  - destruct (a_str_ok h st s Hi) as (I & E & R). destruct (a_str st s) as [st1 v]. cbn [fst snd] in *.
    repeat split; [exact I | exact E |]. cbn [resolve_val]. rewrite R. reflexivity.
  - destruct (a_new_ok h st (BNums l) Hi) as (I & E & R). destruct (a_new st (BNums l)) as [st1 a]. cbn [fst snd] in *.
    repeat split; [exact I | eexists; exact E |]. cbn [resolve_val fst snd]. rewrite R, Nat.leb_refl, firstn_length_all. reflexivity.
  - destruct (a_strs_ok h l st Hi) as (I1 & E1 & R1 & L1). destruct (a_strs st l) as [st1 vs]. cbn [fst snd] in *.
    destruct (a_new_ok h st1 (BViews vs) I1) as (I2 & E2 & R2). destruct (a_new st1 (BViews vs)) as [st2 a]. cbn [fst snd] in *.
    assert (X : ext (hp h st1) (hp h st2)) by (eexists; exact E2).
    repeat split; [exact I2 | eapply ext_trans; eauto |]. cbn [resolve_val fst snd].
    rewrite R2, <- L1, Nat.leb_refl, firstn_length_all, (read_strs_ext _ _ _ _ X R1). reflexivity.
Qed.

Lemma a_attrs_ok h l : forall st, inv h st ->
  let st' := fst (a_attrs st l) in let l' := snd (a_attrs st l) in
  inv h st' /\ ext (hp h st) (hp h st') /\ resolve_attrs (hp h st') l' = Some (map_attrs conv l).
Proof.
  induction l as [|[k v] l IH]; intros st Hi; cbn [a_attrs].
  - cbn. repeat split; [exact Hi | apply ext_refl].
  - destruct (a_str_ok h st k Hi) as (I1 & E1 & R1). destruct (a_str st k) as [st1 k']. cbn [fst snd] in *.
    destruct (a_val_ok h st1 v I1) as (I2 & E2 & R2). destruct (a_val st1 v) as [st2 v']. cbn [fst snd] in *.
    destruct (IH st2 I2) as (I3 & E3 & R3). destruct (a_attrs st2 l) as [st3 r']. cbn [fst snd] in *.
    repeat split; [exact I3 | eapply ext_trans; [exact E1|eapply ext_trans; eauto] |].
    cbn [resolve_attrs map_attrs map fst snd].
    rewrite (read_str_ext _ _ _ _ (ext_trans _ _ _ E2 E3) R1), (resolve_val_ext _ _ _ _ E3 R2).
    unfold map_attrs in R3. rewrite R3. reflexivity.
Qed.

Lemma a_op_ok h st o : inv h st ->
  let st' := fst (a_op st o) in let ho := snd (a_op st o) in
  inv h st' /\ ext (hp h st) (hp h st') /\ resolve_op (hp h st') ho = Some (map_op conv o) /\
  touches_memory ho = negb (match o with End _ | IsRec => true | _ => false end).
Proof.
  intros Hi. destruct o as [[k v]|n ts a|c d|n|t|]; cbn [a_op].
  - destruct (a_str_ok h st k Hi) as (I1 & E1 & R1). destruct (a_str st k) as [st1 k']. cbn [fst snd] in *.
    destruct (a_val_ok h st1 v I1) as (I2 & E2 & R2). destruct (a_val st1 v) as [st2 v']. cbn [fst snd] in *.
    repeat split; [exact I2 | eapply ext_trans; eauto | ].
    cbn [resolve_op map_op fst snd]. rewrite (read_str_ext _ _ _ _ E2 R1), R2. reflexivity.
  - destruct (a_str_ok h st n Hi) as (I1 & E1 & R1). destruct (a_str st n) as [st1 n']. cbn [fst snd] in *.
    destruct a as [l|].
    + destruct (a_attrs_ok h l st1 I1) as (I2 & E2 & R2). destruct (a_attrs st1 l) as [st2 l']. cbn [fst snd] in *.
      repeat split; [exact I2 | eapply ext_trans; eauto |].
      cbn [resolve_op map_op option_map]. rewrite (read_str_ext _ _ _ _ E2 R1), R2. reflexivity.
    + cbn [fst snd]. repeat split; [exact I1 | exact E1 |]. cbn [resolve_op map_op option_map]. rewrite R1. reflexivity.
  - destruct (a_str_ok h st d Hi) as (I1 & E1 & R1). destruct (a_str st d) as [st1 d']. cbn [fst snd] in *.
    repeat split; [exact I1 | exact E1 |]. cbn [resolve_op map_op]. rewrite R1. reflexivity.
  - destruct (a_str_ok h st n Hi) as (I1 & E1 & R1). destruct (a_str st n) as [st1 n']. cbn [fst snd] in *.
    repeat split; [exact I1 | exact E1 |]. cbn [resolve_op map_op]. rewrite R1. reflexivity.
  - cbn. repeat split; [exact Hi | apply ext_refl].
  - cbn. repeat split; [exact Hi | apply ext_refl].
Qed.

Lemma a_links_ok h l : forall st, inv h st ->
  let st' := fst (a_links st l) in let l' := snd (a_links st l) in
  inv h st' /\ ext (hp h st) (hp h st') /\
  resolve_links (hp h st') l' = Some (map (fun x => (fst x, map_attrs conv (snd x))) l).
Proof.
  induction l as [|[c a] l IH]; intros st Hi; cbn [a_links].
  - cbn. repeat split; [exact Hi | apply ext_refl].
  - destruct (a_attrs_ok h a st Hi) as (I1 & E1 & R1). destruct (a_attrs st a) as [st1 a']. cbn [fst snd] in *.
    destruct (IH st1 I1) as (I2 & E2 & R2). destruct (a_links st1 l) as [st2 r']. cbn [fst snd] in *.
    repeat split; [exact I2 | eapply ext_trans; eauto |].
    cbn [resolve_links map fst snd]. rewrite (resolve_attrs_ext _ _ _ _ E2 R1), R2. reflexivity.
Qed.

Lemma a_start_ok h st s : inv h st ->
  let st' := fst (a_start st s) in let hs := snd (a_start st s) in
  inv h st' /\ ext (hp h st) (hp h st') /\ resolve_start (hp h st') hs = Some (map_start conv s).
Proof.
  intros Hi. unfold a_start.
  destruct (a_str_ok h st (s_name s) Hi) as (I1 & E1 & R1). destruct (a_str st (s_name s)) as [st1 n]. cbn [fst snd] in *.
  destruct (a_attrs_ok h (s_attrs s) st1 I1) as (I2 & E2 & R2). destruct (a_attrs st1 (s_attrs s)) as [st2 a]. cbn [fst snd] in *.
  destruct (a_links_ok h (s_links s) st2 I2) as (I3 & E3 & R3). destruct (a_links st2 (s_links s)) as [st3 l]. cbn [fst snd] in *.
  repeat split; [exact I3 | eapply ext_trans; [exact E1|eapply ext_trans; eauto] |].
  unfold resolve_start. cbn [hs_name hs_attrs hs_links hs_kind hs_sys hs_steady].
  rewrite (read_str_ext _ _ _ _ (ext_trans _ _ _ E2 E3) R1), (resolve_attrs_ext _ _ _ _ E3 R2), R3. reflexivity.
Qed.

(* ------------------------------------------------------------------ the compiled caller, with ANY behaviour after each call *)
Definition is_mutation (s : hstep) : bool := match s with HWrite _ _ | HFree _ => true | _ => false end.

Lemma hset_length h a v : length (hset h a v) = length h.
Proof. revert a; induction h as [|x h IH]; intros a; [reflexivity|]. destruct a; cbn; [reflexivity|]. rewrite IH; reflexivity. Qed.
Lemma mutations_keep_length q : Forall (fun s => is_mutation s = true) q -> forall h, length (fold_left mem_step q h) = length h.
Proof.
  induction 1 as [|s q Hs Hq IH]; intros h; [reflexivity|]. cbn [fold_left]. rewrite IH.
  destruct s; try discriminate; cbn; apply hset_length.
Qed.
Lemma mutations_are_memory_only q : Forall (fun s => is_mutation s = true) q -> Forall (fun s => is_call s = false) q.
Proof. induction 1 as [|s q Hs Hq IH]; constructor; [destruct s; try discriminate; reflexivity | exact IH]. Qed.

Lemma allocs_run bs : forall h, fold_left mem_step (map HAlloc bs) h = h ++ map Some bs.
Proof.
  induction bs as [|b bs IH]; intros h; cbn; [rewrite app_nil_r; reflexivity|].
  rewrite IH. unfold halloc. rewrite <- app_assoc. reflexivity.
Qed.
Lemma allocs_memory_only bs : Forall (fun s => is_call s = false) (map HAlloc bs).
Proof. induction bs; constructor; [reflexivity|assumption]. Qed.

(* what the caller does after call number i, given the address of the call's first block and its blocks *)
Definition behaviour := nat -> addr -> list blob -> list hstep.
Definition harmless (J : behaviour) : Prop := forall i n bs, Forall (fun s => is_mutation s = true) (J i n bs).

Definition compile_op_J (J : behaviour) (i : nat) (n0 : addr) (o : op aval) : list hstep * addr :=
  let '((rbs, n1), ho) := a_op ([], n0) o in
  (map HAlloc (rev rbs) ++ [HCall ho] ++ J i n0 (rev rbs), n1).
Fixpoint compile_ops_J (J : behaviour) (i : nat) (n0 : addr) (ops : list (op aval)) : list hstep :=
  match ops with
  | [] => []
  | o :: r => let (p, n1) := compile_op_J J i n0 o in p ++ compile_ops_J J (S i) n1 r
  end.
Definition compile_J (J : behaviour) (s : start aval) (ops : list (op aval)) : list hstep * hstart * list hstep :=
  let '((rbs, n1), hs) := a_start ([], 0) s in
  (map HAlloc (rev rbs), hs, J 0 0 (rev rbs) ++ compile_ops_J J 1 n1 ops).

(* the driver's behaviour: complement and free every block of the call *)
Definition driver_behaviour : behaviour := fun _ n bs => after_call n bs.
Lemma driver_harmless : harmless driver_behaviour.
Proof.
  intros i n bs. unfold driver_behaviour, after_call. apply Forall_app. split; apply Forall_map; apply Forall_forall; intros; reflexivity.
Qed.
Lemma compile_ops_is_J ops : forall i n0, compile_ops n0 ops = compile_ops_J driver_behaviour i n0 ops.
Proof.
  induction ops as [|o ops IH]; intros i n0; [reflexivity|].
  cbn [compile_ops compile_ops_J]. unfold compile_op, compile_op_J.
  destruct (a_op ([], n0) o) as [[rbs n1] ho]. rewrite (IH (S i) n1). reflexivity.
Qed.
Lemma compile_is_J s ops : compile s ops = compile_J driver_behaviour s ops.
Proof.
  unfold compile, compile_J. destruct (a_start ([], 0) s) as [[rbs n1] hs]. rewrite (compile_ops_is_J ops 1 n1). reflexivity.
Qed.

Lemma step_not_recording_mutator w o : w_rec w = None ->
  (match o with End _ | IsRec => false | _ => true end) = true -> step w o = w.
Proof. intros Hr Hm. destruct w as [r e st G q]. cbn in Hr; subst. destruct o; try discriminate; reflexivity. Qed.

Lemma compile_ops_J_run J : harmless J -> forall ops i h w,
  exists h', run_steps h w (compile_ops_J J i (length h) ops) = Some (h', run_ops w (conv_case_ops ops)).
Proof.
  intros HJ. induction ops as [|o ops IH]; intros i h w; [exists h; reflexivity|].
  cbn [compile_ops_J]. unfold compile_op_J.
  assert (Hi : inv h ([], length h)) by (unfold inv; cbn; lia).
  destruct (a_op_ok h ([], length h) o Hi) as (I & _ & R & T). unfold addr in *.
  destruct (a_op ([], length h) o) as [[rbs n1] ho]. cbn [fst snd] in *. cbv beta iota.
  rewrite <- !app_assoc, run_steps_app, (run_steps_memory_only _ (allocs_memory_only _)), allocs_run.
  change (h ++ map Some (rev rbs)) with (hp h (rbs, n1)).
  cbn [app run_steps]. rewrite call_unfold.
  assert (C : (if (match w_rec w with None => touches_memory ho | Some _ => false end) then Some w
               else option_map (step w) (resolve_op (hp h (rbs, n1)) ho)) = Some (step w (map_op conv o))).
  { rewrite R. cbn [option_map]. destruct (w_rec w) eqn:Hr; [reflexivity|].
    rewrite T. destruct o; cbn [negb]; try reflexivity; rewrite step_not_recording_mutator; auto. }
  rewrite C. rewrite run_steps_app, (run_steps_memory_only _ (mutations_are_memory_only _ (HJ i (length h) (rev rbs)))).
  set (h2 := fold_left mem_step (J i (length h) (rev rbs)) (hp h (rbs, n1))).
  assert (L : n1 = length h2).
  { unfold h2. rewrite (mutations_keep_length _ (HJ i (length h) (rev rbs))), hp_length. exact I. }
  rewrite L. destruct (IH (S i) h2 (step w (map_op conv o))) as [h' Hh']. exists h'. rewrite Hh'. reflexivity.
Qed.

(* OWNERSHIP, on the compiled caller: every argument of every call lives in a block of its own, and after
   each call the caller does ANYTHING to the memory it owns (any sequence of overwrites and frees, of any
   block, with any content) - the outcome is the run of the span machine on the owned copies, no call ever
   reads dead memory, and the export does not depend on what the caller did *)
Theorem export_independent_of_what_the_caller_does J c s ops : harmless J ->
  (let '(pre, hs, p) := compile_J J s ops in run0 (map_cfg conv c) pre hs p)
  = Some (run1 (map_cfg conv c) (map_start conv s) (conv_case_ops ops)).
Proof.
  intros HJ. unfold compile_J.
  assert (Hi : inv [] ([], 0)) by reflexivity.
  destruct (a_start_ok [] ([], 0) s Hi) as (I & _ & R).
  destruct (a_start ([], 0) s) as [[rbs n1] hs]. cbn [fst snd] in *.
  unfold run0. rewrite allocs_run. change ([] ++ map Some (rev rbs)) with (hp [] (rbs, n1)). rewrite R.
  rewrite run_steps_app, (run_steps_memory_only _ (mutations_are_memory_only _ (HJ 0 0 (rev rbs)))).
  set (h2 := fold_left mem_step (J 0 0 (rev rbs)) (hp [] (rbs, n1))).
  assert (L : n1 = length h2).
  { unfold h2. rewrite (mutations_keep_length _ (HJ 0 0 (rev rbs))), hp_length. exact I. }
  rewrite L.
  destruct (compile_ops_J_run J HJ ops 1 h2 (start_span (map_cfg conv c) (map_start conv s))) as [h' Hh'].
  rewrite Hh'. reflexivity.
Qed.

(* the instance the C++ driver plays (and the extracted model runs) *)
Theorem run_compiled_correct c s ops :
  run_compiled c s ops = Some (run1 (map_cfg conv c) (map_start conv s) (conv_case_ops ops)).
Proof.
  unfold run_compiled. rewrite compile_is_J.
  exact (export_independent_of_what_the_caller_does driver_behaviour c s ops driver_harmless).
Qed.

(* two different callers: one trashes and frees, one leaves its buffers alone - same export *)
Corollary any_two_callers_agree J1 J2 c s ops : harmless J1 -> harmless J2 ->
  (let '(pre, hs, p) := compile_J J1 s ops in run0 (map_cfg conv c) pre hs p) =
  (let '(pre, hs, p) := compile_J J2 s ops in run0 (map_cfg conv c) pre hs p).
Proof. intros H1 H2. rewrite !export_independent_of_what_the_caller_does by assumption. reflexivity. Qed.

(* non-vacuity: a program whose buffer is overwritten between two calls - each call sees the bytes of its
   time; and a call that reads a freed block is a fault of the CALLER's program, not an export *)
Example trace_example :
  let w := start_span (mk_cfg [PSimple] true ([], [], []) []) (mk_start [] 0 0 0 [] []) in
  let p := [HAlloc (BBytes [x61]); HAlloc (BBytes [x31]); HCall (HSetAttr (0, 1) (VStr (1, 1)));
            HWrite 1 (BBytes [x32]); HWrite 0 (BBytes [x62]); HCall (HSetAttr (0, 1) (VStr (1, 1))); HFree 0; HFree 1] in
  trace [] w p = Some [SetAttr ([x61], OStr [x31]); SetAttr ([x62], OStr [x32])] /\
  trace [] w (p ++ [HCall (HUpdateName (0, 1))]) = None /\
  trace [] w (p ++ [HCall (HEnd 0); HCall (HUpdateName (0, 1))]) =
    Some [SetAttr ([x61], OStr [x31]); SetAttr ([x62], OStr [x32]); End 0].
Proof. cbn zeta. repeat split; reflexivity. Qed.
