(* placeholder: theorems are added below as the proof files land *)
From V Require Import C11.Model.
Theorem c11_placeholder : True. Proof. exact I. Qed.
Print Assumptions c11_placeholder.
