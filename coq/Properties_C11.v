(* C11 - The lock-free queue and spin lock are correct under every interleaving.
   Every theorem is about the interleaving transition system of coq/C11/Ring.v (relation [step], any number of producers,
   any capacity_ = max_size + 1 >= 2, any elements, one consumer, every interleaving of the atomic operations, weak
   compare-exchange may fail spuriously) resp. of coq/C11/Model.v ([sstep], any number of threads, any scripts).
   Assumptions: sequentially consistent interleaving (memory_order ignored), no wrap of the 64-bit counters.
   The tie to the C++: every trace of the real headers under the scheduler shim is replayed by the executable acceptor;
   [acceptor_simulation] / [accepted_trace_reachable] show that an accepted trace stays inside the reachable states. *)
From Coq Require Import List Arith PeanoNat Permutation.
From V Require Import C11.Glue C11.Ring C11.Ghost C11.Proofs C11.Sim C11.SpinProofs C11.Meets C11.Meets2 C11.ProofsSpec2 C11.Examples.
Import ListNotations.
Local Open Scope nat_scope.

(* ---- the invariant RingInv (DESIGN.md A.1) is inductive and holds initially *)
Theorem ring_inv_init : forall max_size nprod, 1 <= max_size -> Inv (init max_size nprod).
Proof. exact inv_init. Qed.
Print Assumptions ring_inv_init.

Theorem ring_step_preserves_inv : forall s s', Inv s -> step s s' -> Inv s'.
Proof. exact step_preserves_inv. Qed.
Print Assumptions ring_step_preserves_inv.

Theorem ring_reachable_invariants : forall max_size nprod s, 1 <= max_size -> reachable (init max_size nprod) s -> AllInv s.
Proof. exact reachable_all. Qed.
Print Assumptions ring_reachable_invariants.

(* ---- the acceptor only makes steps of the transition system *)
Theorem acceptor_simulation : forall a t o a', accept_ring a (Thr t, o) = Accepted a' -> step (core a) (core a').
Proof. exact accept_ring_is_step. Qed.
Print Assumptions acceptor_simulation.

Theorem accepted_trace_reachable : forall max_size scripts chunks trace a,
  replay_ring max_size scripts chunks trace = RDone a -> RP (init max_size (length scripts)) a.
Proof. exact Meets.accepted_trace_reachable. Qed.
Print Assumptions accepted_trace_reachable.

(* ---- "consumes every element whose Add reported success exactly once" *)
Theorem ring_exactly_once : forall max_size nprod s, 1 <= max_size -> reachable (init max_size nprod) s ->
  (exists rest, log s = got s ++ rest) /\
  log s = map (elt_of (gh s)) (logid (gh s)) /\
  NoDup (logid (gh s)) /\
  (forall c, In (c, true) (rets (gh s)) -> In c (logid (gh s))) /\
  (forall c, In (c, false) (rets (gh s)) -> ~ In c (logid (gh s))) /\
  (NoDup (given_elts s) -> NoDup (got s) /\ NoDup (log s)).
Proof. exact exactly_once. Qed.
Print Assumptions ring_exactly_once.

(* ---- "in each producer's own order" *)
Theorem ring_per_producer_fifo : forall max_size nprod s, 1 <= max_size -> reachable (init max_size nprod) s ->
  forall i j ci cj, i < j -> nth_error (logid (gh s)) i = Some ci -> nth_error (logid (gh s)) j = Some cj ->
    owner (gh s) ci = owner (gh s) cj -> ci < cj.
Proof. exact per_producer_fifo. Qed.
Print Assumptions ring_per_producer_fifo.

(* ---- "the number of queued elements never exceeds the capacity" *)
Theorem ring_bounded : forall max_size nprod s, 1 <= max_size -> reachable (init max_size nprod) s ->
  head s - tail s <= max_size /\ Forall (fun z => z <= max_size) (sizes (gh s)) /\
  length (slot_elts s) <= S max_size + length (owned_elts s) /\ head s - low s <= S max_size.
Proof. exact bounded. Qed.
Print Assumptions ring_bounded.

(* ---- "no element is leaked or freed twice" *)
Theorem ring_no_leak_no_double_free : forall max_size nprod s, 1 <= max_size -> reachable (init max_size nprod) s ->
  Permutation (given_elts s) (held s ++ got s ++ slot_elts s ++ in_hand_elts s).
Proof. exact conservation. Qed.
Print Assumptions ring_no_leak_no_double_free.

Theorem ring_destruction_frees_rest_once : forall max_size nprod s, 1 <= max_size -> reachable (init max_size nprod) s -> all_idle s ->
  Permutation (slot_elts s) (skipn (low s) (log s)) /\
  Permutation (given_elts s) (held s ++ got s ++ destroy_list s).
Proof. exact destruction. Qed.
Print Assumptions ring_destruction_frees_rest_once.

(* ---- "an Add that reports failure leaves its element with the caller" *)
Theorem ring_fail_leaves_element : forall max_size nprod s, 1 <= max_size -> reachable (init max_size nprod) s ->
  held s = map rf_x (refusals (gh s)) /\
  (NoDup (given_elts s) -> forall r, In r (refusals (gh s)) ->
     ~ In (rf_x r) (log s) /\ ~ In (rf_x r) (got s) /\ ~ In (rf_x r) (slot_elts s)).
Proof. exact fail_leaves_element. Qed.
Print Assumptions ring_fail_leaves_element.

(* ---- "... and happens only if the producers that had started before it finished, minus what was consumed before it
        started, already fill the capacity" (exact counting form: first conjunct) *)
Theorem ring_fail_legit : forall max_size nprod s, 1 <= max_size -> reachable (init max_size nprod) s ->
  forall r, In r (refusals (gh s)) ->
    max_size + rf_consumed r <= rf_started r /\
    (rf_consumed r <= rf_t r /\ max_size <= rf_h r - rf_t r /\ rf_h r <= rf_started r).
Proof. exact fail_legit. Qed.
Print Assumptions ring_fail_legit.

Theorem ring_undo_returns_own_element : forall max_size nprod s p x h, 1 <= max_size -> reachable (init max_size nprod) s ->
  prod s p = PUndo x h -> slots s (h mod cap s) = Some x.
Proof. exact undo_returns_own_element. Qed.
Print Assumptions ring_undo_returns_own_element.

(* ---- model_meets_spec (summary-level clauses) on every complete accepted trace *)
Theorem ring_model_meets_spec_no_leak : forall max_size scripts chunks trace a, 1 <= max_size ->
  replay_ring max_size scripts chunks trace = RDone a -> ph a = Dead ->
  sL (ring_summary a) = 0 /\
  Permutation (given_elts (core a)) (held (core a) ++ got (core a) ++ freed a) /\
  Forall (fun z => z <= max_size) (sZ (ring_summary a)).
Proof. exact model_meets_spec_no_leak. Qed.
Print Assumptions ring_model_meets_spec_no_leak.

Theorem ring_model_meets_spec_checks : forall max_size scripts chunks trace a, 1 <= max_size ->
  replay_ring max_size scripts chunks trace = RDone a -> ph a = Dead ->
  check (forallb (fun z => z <=? max_size) (sZ (ring_summary a))) "bounded:size" = [] /\
  check (Nat.eqb (sL (ring_summary a)) 0) "no_leak:alive" = [].
Proof. exact model_meets_spec_bounded_size. Qed.
Print Assumptions ring_model_meets_spec_checks.

(* ---- spin lock: "admits at most one holder at a time" *)
Theorem spin_mutex : forall scripts s, sreach (spin_init scripts) s ->
  (forall t1 t2, holder (spc s t1) = true -> holder (spc s t2) = true -> t1 = t2) /\ maxin s <= 1 /\ incs s <= 1.
Proof. exact mutex. Qed.
Print Assumptions spin_mutex.

(* ---- "try_lock succeeds only on a free lock" *)
Theorem spin_trylock_only_free : forall scripts s t s' o, sreach (spin_init scripts) s -> sstep s t = Some (s', o) ->
  holder (spc s t) = false -> holder (spc s' t) = true ->
  flag s = false /\ (forall t', holder (spc s t') = false).
Proof. exact trylock_only_free. Qed.
Print Assumptions spin_trylock_only_free.

Theorem spin_trylock_fails_on_held : forall s t, spc s t = TLd \/ spc s t = TX -> flag s = true ->
  exists s' o, sstep s t = Some (s', o) /\ spc s' t = TRet false.
Proof. exact trylock_fails_on_held. Qed.
Print Assumptions spin_trylock_fails_on_held.

(* ---- "every lock() returns once the holder unlocks" (solo progress; full starvation freedom is false of any spin lock) *)
Theorem spin_lock_solo_progress : forall s t, flag s = false -> in_lock (spc s t) = true ->
  exists k s', k <= 3 /\ solo s t k = Some s' /\ spc s' t = LAcq /\ flag s' = true.
Proof. exact lock_solo_progress. Qed.
Print Assumptions spin_lock_solo_progress.

Theorem spin_lock_blocked_while_held : forall s t k s', flag s = true -> in_lock (spc s t) = true -> solo s t k = Some s' ->
  flag s' = true /\ in_lock (spc s' t) = true.
Proof. exact lock_blocked_while_held. Qed.
Print Assumptions spin_lock_blocked_while_held.

Theorem spin_acceptor_simulation : forall scripts trace s, replay_spin scripts trace = RDone s -> sreach (spin_init scripts) s.
Proof. exact accepted_spin_reachable. Qed.
Print Assumptions spin_acceptor_simulation.

Theorem spin_model_meets_spec_mutex : forall scripts trace s, replay_spin scripts trace = RDone s ->
  check (maxin s <=? 1) "spin_mutex:max_in_cs" = [].
Proof. exact model_meets_spec_spin_mutex. Qed.
Print Assumptions spin_model_meets_spec_mutex.

Theorem spin_model_meets_spec_history : forall scripts trace s, replay_spin scripts trace = RDone s ->
  holder_scan None (events_of trace) = [].
Proof. exact model_meets_spec_spin_history. Qed.
Print Assumptions spin_model_meets_spec_history.

(* ---- model_meets_spec for the whole clause "no element is leaked or freed twice" of the SPEC *)
Theorem ring_model_meets_spec_no_leak_clause : forall max_size scripts chunks trace a, 1 <= max_size -> NoDup (concat scripts) ->
  replay_ring max_size scripts chunks trace = RDone a -> ph a = Dead ->
  check_no_leak (ring_summary a) = [].
Proof. exact model_meets_spec_check_no_leak. Qed.
Print Assumptions ring_model_meets_spec_no_leak_clause.

(* ---- model_meets_spec at checker level for the remaining clauses of the ring SPEC: every complete trace the acceptor
        accepts (well-formed case: element ids pairwise distinct) passes the history checkers *)
Theorem ring_model_meets_spec_exactly_once : forall max_size scripts chunks trace a, 1 <= max_size -> NoDup (concat scripts) ->
  replay_ring max_size scripts chunks trace = RDone a -> ph a = Dead ->
  check_exactly_once (concat (split_results scripts (sR (ring_summary a)))) (ring_summary a) = [].
Proof. exact model_meets_spec_exactly_once. Qed.
Print Assumptions ring_model_meets_spec_exactly_once.

Theorem ring_model_meets_spec_fifo : forall max_size scripts chunks trace a, 1 <= max_size -> NoDup (concat scripts) ->
  replay_ring max_size scripts chunks trace = RDone a -> ph a = Dead ->
  check_fifo (split_results scripts (sR (ring_summary a))) (ring_summary a) = [].
Proof. exact model_meets_spec_fifo. Qed.
Print Assumptions ring_model_meets_spec_fifo.

Theorem ring_model_meets_spec_fail_keeps : forall max_size scripts chunks trace a, 1 <= max_size -> NoDup (concat scripts) ->
  replay_ring max_size scripts chunks trace = RDone a -> ph a = Dead ->
  check_fail_keeps (concat (split_results scripts (sR (ring_summary a)))) = [].
Proof. exact model_meets_spec_fail_keeps. Qed.
Print Assumptions ring_model_meets_spec_fail_keeps.

Theorem ring_model_meets_spec_fail_legit : forall max_size scripts chunks trace a, 1 <= max_size -> NoDup (concat scripts) ->
  replay_ring max_size scripts chunks trace = RDone a -> check_fail_legit max_size (events_of trace) = [].
Proof. exact model_meets_spec_fail_legit. Qed.
Print Assumptions ring_model_meets_spec_fail_legit.

Theorem ring_model_meets_spec_bounded_queued : forall max_size scripts chunks trace a, 1 <= max_size -> NoDup (concat scripts) ->
  replay_ring max_size scripts chunks trace = RDone a -> check (queued_scan max_size 0 0 (events_of trace)) "bounded:queued" = [].
Proof. exact model_meets_spec_queued. Qed.
Print Assumptions ring_model_meets_spec_bounded_queued.

Theorem ring_model_meets_spec_history : forall max_size scripts chunks trace a, 1 <= max_size -> NoDup (concat scripts) ->
  replay_ring max_size scripts chunks trace = RDone a -> ph a = Dead ->
  check_history (split_results scripts (sR (ring_summary a))) (events_of trace) = [].
Proof. exact model_meets_spec_history. Qed.
Print Assumptions ring_model_meets_spec_history.

(* ---- the central theorem: the whole ring SPEC on every complete accepted trace *)
Theorem ring_model_meets_spec : forall max_size scripts chunks trace a, 1 <= max_size -> NoDup (concat scripts) ->
  replay_ring max_size scripts chunks trace = RDone a -> ph a = Dead ->
  spec_ring max_size scripts (events_of trace) (ring_summary a) = [].
Proof. exact model_meets_spec_ring. Qed.
Print Assumptions ring_model_meets_spec.

(* ---- undo on accepted traces: the only exchange the acceptor accepts from a producer that lost the head CAS takes back
        that producer's own element *)
Theorem ring_accepted_undo_returns_own_element : forall max_size scripts chunks trace a t x h o a', 1 <= max_size ->
  replay_ring max_size scripts chunks trace = RDone a -> ph a = Running -> t < np (core a) -> prod (core a) t = PUndo x h ->
  accept_ring a (Thr t, o) = Accepted a' ->
  o = OXchg (OSlot (h mod cap (core a))) 0 x /\ prod (core a') t = PCalled x.
Proof. exact accepted_undo_returns_own_element. Qed.
Print Assumptions ring_accepted_undo_returns_own_element.
