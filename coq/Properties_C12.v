(* placeholder until C12/Proofs*.v land: nothing is claimed proved yet *)
From V Require Import C12.Glue.
Theorem c12_placeholder : True. Proof. exact I. Qed.
Print Assumptions c12_placeholder.
