(* C12 - Sampling is consistent.  Every theorem is about the executable model coq/C12/{Ratio,Model}.v
   (a bit-exact Flocq binary64 transcription of CalculateThreshold, the four built-in samplers, the
   sampling part of Tracer::StartSpan); the model is tied to the C++ by ./check C12.
   [float] is an IEEE-754 binary64 value; [fle a b] is the C++ comparison a <= b (false if either is NaN).
   NaN ratios are outside the property's domain: the C++ converts NaN to uint64_t (undefined behaviour);
   statements that need it say [is_nan r = false]; [fle _ _ = true] implies it. *)
From Coq Require Import ZArith List.
From V Require Import C12.Glue C12.ProofsRatio C12.Proofs Gen.Consts.
Local Open Scope Z_scope.

(* --- the threshold: monotone in the ratio over all non-NaN doubles (adjacent doubles, subnormals, +-0, infinities, out of range) *)
Theorem threshold_monotone : forall r1 r2 : float,
  is_nan r1 = false -> is_nan r2 = false -> fle r1 r2 = true -> calc_threshold r1 <= calc_threshold r2.
Proof. exact ProofsRatio.threshold_monotone. Qed.
Print Assumptions threshold_monotone.

Theorem threshold_range : forall r : float, 0 <= calc_threshold r <= uint64_max.
Proof. exact calc_threshold_range. Qed.
Print Assumptions threshold_range.

(* in the computed branch both double -> uint64_t casts are in range, the shift loses no bits and the unsigned sum does not wrap *)
Theorem threshold_no_wrap : forall r : float,
  is_nan r = false -> fle r f_zero = false -> fle f_one r = false ->
  let product := fmul f_u32max r in
  let hi_bits := modf_int product in
  let lo_bits := fadd (fldexp (modf_frac product) 32) product in
  0 <= Btrunc hi_bits < two64 /\
  0 <= Btrunc lo_bits < two64 /\
  Z.shiftl (Btrunc hi_bits) 32 < two64 /\
  Z.shiftl (Btrunc hi_bits) 32 + Btrunc lo_bits < two64 /\
  calc_threshold r = Z.shiftl (Btrunc hi_bits) 32 + Btrunc lo_bits.
Proof. exact ProofsRatio.threshold_no_wrap. Qed.
Print Assumptions threshold_no_wrap.

Theorem threshold_depends_on_value_only : forall r1 r2 : float,
  fle r1 r2 = true -> fle r2 r1 = true -> calc_threshold r1 = calc_threshold r2.
Proof. exact Proofs.threshold_depends_on_value_only. Qed.
Print Assumptions threshold_depends_on_value_only.

(* the factor 2^32-1, the shift 32 and the flag masks the theorems compute with are the ones tools/extract_consts.py reads from /repo *)
Theorem constants_match_source :
  uint32_max = c12_threshold_factor /\ 32 = c12_threshold_shift /\
  c12_kIsSampled = 1 /\ c12_kIsRandom = 2 /\ c12_kAllW3CTraceContext1Flags = 1.
Proof. exact Proofs.constants_match_source. Qed.
Print Assumptions constants_match_source.

(* --- "ratio <= 0 samples nothing, ratio >= 1 samples everything" (for every parent, id and other argument) *)
Theorem ratio_le0_none : forall (r : float) (p : span_ctx) (tid : bytes) (x : extra),
  fle r f_zero = true -> should_sample (SRatio r) p tid x = (Drop, None).
Proof. exact Proofs.ratio_le0_none. Qed.
Print Assumptions ratio_le0_none.

Theorem ratio_ge1_all : forall (r : float) (p : span_ctx) (tid : bytes) (x : extra),
  fle f_one r = true -> should_sample (SRatio r) p tid x = (RecordAndSample, None).
Proof. exact Proofs.ratio_ge1_all. Qed.
Print Assumptions ratio_ge1_all.

(* --- "any trace sampled at a ratio is also sampled at every larger ratio" *)
Theorem ratio_monotone : forall (r1 r2 : float) (p1 p2 : span_ctx) (tid : bytes) (x1 x2 : extra),
  is_nan r1 = false -> is_nan r2 = false -> fle r1 r2 = true ->
  is_sampled (fst (should_sample (SRatio r1) p1 tid x1)) = true ->
  is_sampled (fst (should_sample (SRatio r2) p2 tid x2)) = true.
Proof. exact Proofs.ratio_monotone. Qed.
Print Assumptions ratio_monotone.

(* the integer-level half of it, independent of floating point *)
Theorem decide_monotone_in_threshold : forall (t1 t2 : Z) (tid : bytes),
  0 <= t1 <= t2 -> is_sampled (ratio_decide t1 tid) = true -> is_sampled (ratio_decide t2 tid) = true.
Proof. exact Proofs.decide_monotone_in_threshold. Qed.
Print Assumptions decide_monotone_in_threshold.

(* --- "the decision depends only on the trace id and the configured ratio" *)
Theorem decision_depends_only_on_id_and_ratio : forall (r : float) (p1 p2 : span_ctx) (tid1 tid2 : bytes) (x1 x2 : extra),
  firstn 8 tid1 = firstn 8 tid2 ->
  should_sample (SRatio r) p1 tid1 x1 = should_sample (SRatio r) p2 tid2 x2.
Proof. exact Proofs.decision_depends_only_on_id_and_ratio. Qed.
Print Assumptions decision_depends_only_on_id_and_ratio.

(* the title: the decision is monotone in the trace id (the little-endian integer of its first eight bytes) *)
Theorem id_threshold_monotone : forall a b : bytes,
  tid_prefix a <= tid_prefix b -> id_threshold a <= id_threshold b.
Proof. exact ProofsRatio.id_threshold_monotone. Qed.
Print Assumptions id_threshold_monotone.

Theorem ratio_sampled_ids_downward_closed : forall (r : float) (p : span_ctx) (tid1 tid2 : bytes) (x : extra),
  tid_prefix tid1 <= tid_prefix tid2 ->
  is_sampled (fst (should_sample (SRatio r) p tid2 x)) = true ->
  is_sampled (fst (should_sample (SRatio r) p tid1 x)) = true.
Proof. exact Proofs.ratio_sampled_ids_downward_closed. Qed.
Print Assumptions ratio_sampled_ids_downward_closed.

(* --- the parent-based four-way table, for every delegate, flags byte, local or remote parent *)
Theorem parent_based_spec : forall (d : sampler) (p : span_ctx) (tid : bytes) (x : extra),
  (ctx_valid p = true ->
     should_sample (SParent d) p tid x = ((if ctx_sampled p then RecordAndSample else Drop), Some (c_ts p)) /\
     delegate_calls p = 0) /\
  (ctx_valid p = false ->
     should_sample (SParent d) p tid x = should_sample d p tid x /\ delegate_calls p = 1).
Proof. exact Proofs.parent_based_spec. Qed.
Print Assumptions parent_based_spec.

Theorem parent_based_ignores_remote : forall (d : sampler) (tid sid : bytes) (fl : byte) (ts : bytes) (rem1 rem2 : bool) (tr : bytes) (x : extra),
  ctx_valid (mk_ctx tid sid fl rem1 ts) = true ->
  should_sample (SParent d) (mk_ctx tid sid fl rem1 ts) tr x = should_sample (SParent d) (mk_ctx tid sid fl rem2 ts) tr x.
Proof. exact Proofs.parent_based_ignores_remote. Qed.
Print Assumptions parent_based_ignores_remote.

(* --- "always-on and always-off are constant" *)
Theorem always_on_constant : forall (p : span_ctx) (tid : bytes) (x : extra), fst (should_sample SAlwaysOn p tid x) = RecordAndSample.
Proof. exact Proofs.always_on_constant. Qed.
Print Assumptions always_on_constant.
Theorem always_off_constant : forall (p : span_ctx) (tid : bytes) (x : extra), fst (should_sample SAlwaysOff p tid x) = Drop.
Proof. exact Proofs.always_off_constant. Qed.
Print Assumptions always_off_constant.

(* --- spans started through a Tracer: the sampled flag is the sampler's decision on (the parent the tracer chose, the trace id it chose) *)
Theorem span_sampled_flag_is_decision : forall (s : sampler) (e : span_ctx) (g : bytes) (rnd : bool) (x : extra),
  let parent := effective_parent e in
  let st := start_span s e g rnd x in
  st_flags st = (if is_sampled (fst (should_sample s parent (st_tid st) x)) then 1 else 0) /\
  st_tid st = (if ctx_valid e then c_tid e else g).
Proof. exact Proofs.span_sampled_flag_is_decision. Qed.
Print Assumptions span_sampled_flag_is_decision.

(* "so all participants in a trace agree" *)
Theorem participants_agree : forall (r : float) (e1 e2 : span_ctx) (g1 g2 : bytes) (rnd1 rnd2 : bool) (x1 x2 : extra),
  firstn 8 (if ctx_valid e1 then c_tid e1 else g1) = firstn 8 (if ctx_valid e2 then c_tid e2 else g2) ->
  st_flags (start_span (SRatio r) e1 g1 rnd1 x1) = st_flags (start_span (SRatio r) e2 g2 rnd2 x2).
Proof. exact Proofs.participants_agree. Qed.
Print Assumptions participants_agree.

Theorem parent_based_span_inherits : forall (d : sampler) (e : span_ctx) (g : bytes) (rnd : bool) (x : extra),
  ctx_valid e = true ->
  let st := start_span (SParent d) e g rnd x in
  st_tid st = c_tid e /\ st_flags st = (if ctx_sampled e then 1 else 0) /\ st_ts st = c_ts e.
Proof. exact Proofs.parent_based_span_inherits. Qed.
Print Assumptions parent_based_span_inherits.

(* --- the parent arrives through the contexts (options.parent a SpanContext / a context::Context, the current context):
       a valid span held by the given context is the parent whether or not the context is marked is_root_span *)
Theorem context_span_is_parent_regardless_of_marker : forall (active c : span_ctx) (marker : bool),
  ctx_valid c = true -> tracer_parent active (PaContext (Some c) marker) = c.
Proof. exact Proofs.context_span_is_parent_regardless_of_marker. Qed.
Print Assumptions context_span_is_parent_regardless_of_marker.

Theorem tracer_parent_is_documented_parent : forall (active : span_ctx) (a : parent_arg),
  documented_parent active a =
  (if ctx_valid (tracer_parent active a) then Some (tracer_parent active a) else None).
Proof. exact Proofs.tracer_parent_is_documented_parent. Qed.
Print Assumptions tracer_parent_is_documented_parent.

Theorem parent_based_span_cx_inherits : forall (d : sampler) (cs : option span_ctx) (a : parent_arg) (g : bytes) (rnd : bool) (x : extra) (p : span_ctx),
  documented_parent (span_in cs) a = Some p ->
  let st := start_span_cx (SParent d) cs a g rnd x in
  st_tid st = c_tid p /\ st_flags st = (if ctx_sampled p then 1 else 0) /\ st_ts st = c_ts p /\
  root_sampler_calls (SParent d) cs a = 0.
Proof. exact Proofs.parent_based_span_cx_inherits. Qed.
Print Assumptions parent_based_span_cx_inherits.

Theorem root_sampler_only_without_parent : forall (d : sampler) (cs : option span_ctx) (a : parent_arg) (g : bytes) (rnd : bool) (x : extra),
  documented_parent (span_in cs) a = None ->
  root_sampler_calls (SParent d) cs a = 1 /\ st_tid (start_span_cx (SParent d) cs a g rnd x) = g.
Proof. exact Proofs.root_sampler_only_without_parent. Qed.
Print Assumptions root_sampler_only_without_parent.

(* --- the SPEC checkers that ./check runs on the implementation's observations accept every answer of the model *)
Theorem model_meets_spec : forall (l : list tok) (c : case), parse_case l = Some c -> run_spec l (run_model l) = [].
Proof. exact Proofs.model_meets_spec. Qed.
Print Assumptions model_meets_spec.
