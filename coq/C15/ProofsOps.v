(* C15 proofs, part 2: KeyValueProperties / Baggage::Set / Baggage::Delete refine the abstract
   ordered map (sp_set, sp_delete); well-formedness (entries are C strings) is invariant. *)
From V Require Import C15.Glue C15.ProofsBase.
From Coq Require Import Lia ZifyBool ZifyNat ZifyN.

Definition entry_nf (e : entry) : bool := nul_free (fst e) && nul_free (snd e).
Definition bag_wf (b : bag) : Prop := forallb entry_nf (kv_list b) = true.

Lemma bag_wf_new n : bag_wf (kv_new n).
Proof. reflexivity. Qed.

Lemma forallb_app {A} (p : A -> bool) l1 l2 : forallb p (l1 ++ l2) = forallb p l1 && forallb p l2.
Proof. induction l1 as [|a l1 IH]; cbn; [reflexivity|]. rewrite IH, andb_assoc; reflexivity. Qed.

Lemma kv_add_wf p k v : bag_wf p -> bag_wf (kv_add p k v).
Proof.
  unfold bag_wf, kv_add. intros H. destruct (Nat.ltb (kv_size p) (kv_cap p)); [|exact H].
  cbn [kv_list]. rewrite forallb_app, H. cbn. unfold entry_nf. cbn.
  rewrite !cstr_nul_free. reflexivity.
Qed.

Lemma kv_add_cap p k v : kv_cap (kv_add p k v) = kv_cap p.
Proof. unfold kv_add. destruct (Nat.ltb (kv_size p) (kv_cap p)); reflexivity. Qed.

Lemma kv_add_fits p k v :
  kv_size p < kv_cap p -> kv_add p k v = mk_kvp (kv_cap p) (kv_list p ++ [(cstr k, cstr v)]).
Proof. intros H. unfold kv_add. apply Nat.ltb_lt in H. rewrite H. reflexivity. Qed.

Lemma kv_add_full p k v : kv_cap p <= kv_size p -> kv_add p k v = p.
Proof. intros H. unfold kv_add. destruct (Nat.ltb (kv_size p) (kv_cap p)) eqn:E; [apply Nat.ltb_lt in E; lia | reflexivity]. Qed.

(* the GetAllEntries loop that copies the entries selected by [f] into a large enough array *)
Lemma fold_add_filter (f : entry -> bool) l acc :
  kv_size acc + length l <= kv_cap acc ->
  forallb entry_nf l = true ->
  fold_left (fun a e => if f e then kv_add a (fst e) (snd e) else a) l acc =
  mk_kvp (kv_cap acc) (kv_list acc ++ filter f l).
Proof.
  revert acc. induction l as [|e l IH]; intros acc Hsz Hnf.
  - cbn. rewrite app_nil_r. destruct acc; reflexivity.
  - cbn [fold_left filter length forallb] in *.
    apply andb_true_iff in Hnf; destruct Hnf as [He Hl].
    destruct (f e) eqn:Ef.
    + rewrite kv_add_fits by lia.
      unfold entry_nf in He. apply andb_true_iff in He; destruct He as [Hk Hv].
      rewrite (cstr_id _ Hk), (cstr_id _ Hv). rewrite <- surjective_pairing.
      rewrite IH; unfold kv_size in *; cbn [kv_cap kv_list]; [ | rewrite app_length; cbn [length]; lia | exact Hl].
      rewrite <- app_assoc. reflexivity.
    + apply IH; [lia | exact Hl].
Qed.

Lemma fold_add_wf (f : entry -> bool) l acc :
  bag_wf acc -> bag_wf (fold_left (fun a e => if f e then kv_add a (fst e) (snd e) else a) l acc).
Proof.
  revert acc. induction l as [|e l IH]; intros acc H; [exact H|].
  cbn [fold_left]. apply IH. destruct (f e); [apply kv_add_wf|]; exact H.
Qed.

Lemma remove_key_filter k l :
  filter (fun e => negb (bytes_eqb k (fst e))) l = remove_key k l.
Proof. unfold remove_key. apply filter_ext. intros e. rewrite bytes_eqb_sym. reflexivity. Qed.

Lemma filter_true {A} (l : list A) : filter (fun _ => true) l = l.
Proof. induction l as [|a l IH]; cbn; [reflexivity | rewrite IH; reflexivity]. Qed.

(* ---- Set *)
Lemma bg_set_entries k v b :
  bag_wf b -> kv_list (bg_set k v b) = sp_set k v (kv_list b).
Proof.
  intros Hwf. unfold bg_set, sp_set.
  change (sp_valid_key k) with (bg_valid_key k). change (sp_valid_value v) with (bg_valid_value v).
  destruct (bg_valid_key k && bg_valid_value v) eqn:Ev.
  - cbn [negb orb].
    rewrite kv_add_fits by (cbn; lia). cbn [kv_new kv_cap kv_list app].
    apply andb_true_iff in Ev; destruct Ev as [Hk Hv].
    unfold bg_valid_key in Hk. apply andb_true_iff in Hk; destruct Hk as [_ Hk].
    unfold bg_valid_value in Hv.
    rewrite (cstr_printable _ Hk), (cstr_printable _ Hv).
    rewrite (fold_add_filter (fun e => negb (bytes_eqb k (fst e)))); cbn [kv_cap kv_list kv_size length];
      [ | unfold kv_size; lia | exact Hwf].
    cbn [app]. rewrite remove_key_filter. reflexivity.
  - cbn [negb orb].
    rewrite (fold_add_filter (fun _ => true)); cbn [kv_new kv_cap kv_list kv_size length];
      [ | unfold kv_size; lia | exact Hwf].
    cbn [app]. apply filter_true.
Qed.

Lemma bg_set_wf k v b : bag_wf (bg_set k v b).
Proof.
  unfold bg_set.
  set (f := fun e : entry => negb (bg_valid_key k && bg_valid_value v) || negb (bytes_eqb k (fst e))).
  apply (fold_add_wf f).
  destruct (bg_valid_key k && bg_valid_value v); [apply kv_add_wf|]; apply bag_wf_new.
Qed.

(* ---- Delete *)
Lemma bg_delete_entries k b :
  bag_wf b -> kv_list (bg_delete k b) = sp_delete k (kv_list b).
Proof.
  intros Hwf. unfold bg_delete, sp_delete.
  rewrite (fold_add_filter (fun e => negb (bytes_eqb k (fst e)))); cbn [kv_new kv_cap kv_list kv_size length];
    [ | unfold kv_size; lia | exact Hwf].
  cbn [app]. apply remove_key_filter.
Qed.

Lemma bg_delete_wf k b : bag_wf (bg_delete k b).
Proof. unfold bg_delete. apply (fold_add_wf (fun e => negb (bytes_eqb k (fst e)))). apply bag_wf_new. Qed.

(* ---- consequences on the abstract map *)
Lemma lookup_remove_same k l : lookup k (remove_key k l) = None.
Proof.
  induction l as [|[k' v'] l IH]; [reflexivity|]. unfold remove_key in *. cbn [filter fst].
  destruct (bytes_eqb k' k) eqn:E; cbn [negb]; [exact IH|].
  cbn [lookup]. rewrite E. exact IH.
Qed.

Lemma lookup_remove_other k k' l : bytes_eqb k' k = false -> lookup k' (remove_key k l) = lookup k' l.
Proof.
  intros Hne. induction l as [|[k2 v2] l IH]; [reflexivity|]. unfold remove_key in *. cbn [filter fst].
  destruct (bytes_eqb k2 k) eqn:E; cbn [negb].
  - cbn [lookup]. apply bytes_eqb_eq in E; subst k2. rewrite bytes_eqb_sym, Hne. exact IH.
  - cbn [lookup]. rewrite IH. reflexivity.
Qed.

Lemma remove_key_idem k l : remove_key k (remove_key k l) = remove_key k l.
Proof.
  unfold remove_key. induction l as [|e l IH]; [reflexivity|]. cbn [filter].
  destruct (negb (bytes_eqb (fst e) k)) eqn:E; [|exact IH]. cbn [filter]. rewrite E, IH. reflexivity.
Qed.

Lemma has_key_remove k l : has_key_b k (remove_key k l) = false.
Proof.
  unfold has_key_b, remove_key. induction l as [|e l IH]; [reflexivity|]. cbn [filter].
  destruct (bytes_eqb (fst e) k) eqn:E; cbn [negb]; [exact IH|]. cbn [existsb]. rewrite E, IH. reflexivity.
Qed.

(* number of entries carrying key k *)
Definition key_count (k : bytes) (l : list entry) : nat := length (filter (fun e => bytes_eqb (fst e) k) l).

Lemma key_count_remove k l : key_count k (remove_key k l) = 0.
Proof.
  unfold key_count, remove_key. induction l as [|e l IH]; [reflexivity|]. cbn [filter].
  destruct (bytes_eqb (fst e) k) eqn:E; cbn [negb]; [exact IH|]. cbn [filter]. rewrite E. exact IH.
Qed.

(* Set replaces: stated on the model *)
Theorem set_replaces_model k v b :
  bag_wf b -> sp_valid_key k = true -> sp_valid_value v = true ->
  bg_entries (bg_set k v b) = (k, v) :: remove_key k (bg_entries b) /\
  bg_get k (bg_set k v b) = Some v /\
  key_count k (bg_entries (bg_set k v b)) = 1 /\
  (forall k', bytes_eqb k' k = false -> bg_get k' (bg_set k v b) = bg_get k' b) /\
  remove_key k (bg_entries (bg_set k v b)) = remove_key k (bg_entries b).
Proof.
  intros Hwf Hk Hv. unfold bg_entries, bg_get. rewrite bg_set_entries by exact Hwf.
  unfold sp_set. rewrite Hk, Hv. cbn [andb].
  split; [reflexivity|]. split.
  { cbn [lookup]. rewrite bytes_eqb_refl. reflexivity. }
  split.
  { unfold key_count. cbn [filter fst]. rewrite bytes_eqb_refl. cbn [length].
    fold (key_count k (remove_key k (kv_list b))). rewrite key_count_remove. reflexivity. }
  split.
  { intros k' Hne. cbn [lookup]. rewrite bytes_eqb_sym, Hne. apply lookup_remove_other. exact Hne. }
  unfold remove_key at 1. cbn [filter fst]. rewrite bytes_eqb_refl. cbn [negb].
  apply remove_key_idem.
Qed.

Theorem set_invalid_copies_model k v b :
  bag_wf b -> sp_valid_key k && sp_valid_value v = false -> bg_entries (bg_set k v b) = bg_entries b.
Proof.
  intros Hwf H. unfold bg_entries. rewrite bg_set_entries by exact Hwf. unfold sp_set. rewrite H. reflexivity.
Qed.

Theorem delete_removes_model k b :
  bag_wf b ->
  bg_entries (bg_delete k b) = remove_key k (bg_entries b) /\
  bg_get k (bg_delete k b) = None /\
  key_count k (bg_entries (bg_delete k b)) = 0 /\
  (forall k', bytes_eqb k' k = false -> bg_get k' (bg_delete k b) = bg_get k' b).
Proof.
  intros Hwf. unfold bg_entries, bg_get. rewrite bg_delete_entries by exact Hwf. unfold sp_delete.
  split; [reflexivity|]. split; [apply lookup_remove_same|]. split; [apply key_count_remove|].
  intros k' Hne. apply lookup_remove_other. exact Hne.
Qed.

(* non-vacuity: a well-formed baggage holding the key, a valid key and value *)
Example set_replaces_nonvacuous :
  let b := bg_set (bs "k") (bs "old") (bg_set (bs "a b") (bs "1;m") (kv_new 0)) in
  bag_wf b /\ sp_valid_key (bs "k") = true /\ sp_valid_value (bs "new=,%") = true /\
  bg_entries (bg_set (bs "k") (bs "new=,%") b) = [(bs "k", bs "new=,%"); (bs "a b", bs "1;m")] /\
  bg_entries (bg_delete (bs "k") b) = [(bs "a b", bs "1;m")] /\
  sp_valid_key (bs "") && sp_valid_value (bs "v") = false.
Proof. vm_compute. repeat split; reflexivity. Qed.

(* ---- baggages built through Set / Delete only: valid entries, no duplicate key *)
Inductive built_by_set : bag -> Prop :=
| BuiltNew : built_by_set (kv_new 0)
| BuiltSet k v b : built_by_set b -> built_by_set (bg_set k v b)
| BuiltDel k b : built_by_set b -> built_by_set (bg_delete k b).

Definition kv_valid (e : entry) : bool := sp_valid_key (fst e) && sp_valid_value (snd e).

Lemma forallb_filter {A} (p f : A -> bool) l : forallb p l = true -> forallb p (filter f l) = true.
Proof.
  induction l as [|a l IH]; [reflexivity|]. cbn. intros H. apply andb_true_iff in H; destruct H as [Ha Hl].
  destruct (f a); cbn; [rewrite Ha|]; auto.
Qed.

Lemma NoDup_filter_keys (f : entry -> bool) l : NoDup (map fst l) -> NoDup (map fst (filter f l)).
Proof.
  induction l as [|e l IH]; [intros; constructor|]. cbn [map filter]. intros H. inversion H as [|? ? Hn Hd]; subst.
  destruct (f e); [|auto]. cbn [map]. constructor; [|auto].
  intros Hin. apply Hn. apply in_map_iff in Hin. destruct Hin as [x [Hx Hin]].
  apply filter_In in Hin. destruct Hin as [Hin _]. apply in_map_iff. exists x; auto.
Qed.

Lemma not_in_remove_key k l : ~ In k (map fst (remove_key k l)).
Proof.
  intros Hin. apply in_map_iff in Hin. destruct Hin as [e [He Hin]]. unfold remove_key in Hin.
  apply filter_In in Hin. destruct Hin as [_ Hf]. subst k. rewrite bytes_eqb_refl in Hf. discriminate.
Qed.

Theorem built_by_set_invariant b :
  built_by_set b ->
  bag_wf b /\ forallb kv_valid (bg_entries b) = true /\ NoDup (map fst (bg_entries b)).
Proof.
  induction 1 as [|k v b Hb [Hwf [Hval Hnd]]|k b Hb [Hwf [Hval Hnd]]].
  - split; [apply bag_wf_new|]. split; [reflexivity | constructor].
  - split; [apply bg_set_wf|]. unfold bg_entries in *. rewrite bg_set_entries by exact Hwf.
    unfold sp_set. destruct (sp_valid_key k && sp_valid_value v) eqn:E; [|auto].
    split.
    + cbn [forallb]. unfold kv_valid at 1. cbn [fst snd]. rewrite E. cbn [andb].
      apply forallb_filter. exact Hval.
    + cbn [map fst]. constructor; [apply not_in_remove_key | apply NoDup_filter_keys; exact Hnd].
  - split; [apply bg_delete_wf|]. unfold bg_entries in *. rewrite bg_delete_entries by exact Hwf.
    unfold sp_delete. split; [apply forallb_filter; exact Hval | apply NoDup_filter_keys; exact Hnd].
Qed.
