(* MODEL of baggage::Baggage (api/include/opentelemetry/baggage/baggage.h) on top of
   common::KeyValueProperties / KeyValueStringTokenizer (common/kv_properties.h; the
   tokenizer as abstracted in C14.Model: num_tokens, members, split_kv, trim_ws),
   baggage::propagation::BaggagePropagator, context::propagation::CompositePropagator and,
   as parts of a composite, HttpTraceContext (C09.Model), B3Propagator,
   B3PropagatorMultiHeader and JaegerPropagator.  Executable definitions only, no proofs. *)
From V Require Export C09.Model.

Definition semicolon : byte := x3b.
Definition percent : byte := x25.
Definition plus : byte := x2b.
Definition space : byte := x20.
Definition colon : byte := x3a.

(* --- StringUtil::Trim, linear time (C14.trim_ws reverses twice with the quadratic List.rev;
   C15/ProofsBase.v proves  trim = trim_ws ) *)
Fixpoint trim_end (s : bytes) : bytes :=
  match s with
  | [] => []
  | b :: s' => match trim_end s' with
               | [] => if isspace b then [] else [b]
               | r => b :: r
               end
  end.
Definition trim (s : bytes) : bytes := trim_end (drop_while isspace s).

(* the non-empty list members KeyValueStringTokenizer::next() yields (= C14.members) *)
Definition bg_members (h : bytes) : list bytes :=
  filter (fun m => negb (is_nil m)) (map trim (split_on comma h)).

(* --- Baggage::IsPrintableString / IsValidKey / IsValidValue  (ch < ' ' || ch > '~' on char) *)
Definition is_printable (s : bytes) : bool := forallb isprint s.
Definition bg_valid_key (k : bytes) : bool := negb (is_nil k) && is_printable k.
Definition bg_valid_value (v : bytes) : bool := is_printable v.

(* --- Baggage::UrlEncode *)
Definition unreserved (c : byte) : bool :=
  isalnum c || Byte.eqb c x2d || Byte.eqb c x5f || Byte.eqb c x2e || Byte.eqb c x7e.

Definition url_encode_byte (c : byte) : bytes :=
  if unreserved c then [c]
  else if Byte.eqb c space then [plus]
  else [percent; upper_hex_digit (b2n c / 16); upper_hex_digit (b2n c mod 16)].

Definition url_encode (s : bytes) : bytes := flat_map url_encode_byte s.

(* --- Baggage::UrlDecode; None = "err = 1, return empty".
   A '%' needs two more characters (the code's  i + 2 >= size  test) that are both hex digits. *)
Definition from_hex (a b : byte) : byte :=
  match hexval a, hexval b with
  | Some x, Some y => n2b (16 * x + y)%N
  | _, _ => x00
  end.

Fixpoint url_decode (s : bytes) : option bytes :=
  match s with
  | [] => Some []
  | c :: r =>
      if Byte.eqb c percent then
        match r with
        | a :: b :: r' =>
            if ishex a && ishex b then
              match url_decode r' with Some d => Some (from_hex a b :: d) | None => None end
            else None
        | _ => None
        end
      else if Byte.eqb c plus then
        match url_decode r with Some d => Some (space :: d) | None => None end
      else if unreserved c then
        match url_decode r with Some d => Some (c :: d) | None => None end
      else None
  end.

(* UrlDecode(str, err): err is only ever set, never cleared *)
Definition url_decode_err (s : bytes) (err : bool) : bytes * bool :=
  match url_decode s with Some r => (r, err) | None => ([], true) end.

(* --- common::KeyValueProperties: a fixed-capacity array of entries whose key and value are
   stored as C strings (CopyStringToPointer) and read back with strlen (GetKey/GetValue) *)
Fixpoint cstr (s : bytes) : bytes :=
  match s with
  | [] => []
  | b :: s' => if Byte.eqb b x00 then [] else b :: cstr s'
  end.

Record kvp := mk_kvp { kv_cap : nat; kv_list : list entry }.
Definition kv_new (n : nat) : kvp := mk_kvp n [].
Definition kv_size (p : kvp) : nat := length (kv_list p).
(* AddEntry *)
Definition kv_add (p : kvp) (k v : bytes) : kvp :=
  if Nat.ltb (kv_size p) (kv_cap p) then mk_kvp (kv_cap p) (kv_list p ++ [(cstr k, cstr v)]) else p.

(* a Baggage is its kv_properties_ *)
Definition bag := kvp.
Definition bg_entries (b : bag) : list entry := kv_list b.

(* Baggage::Set *)
Definition bg_set (k v : bytes) (b : bag) : bag :=
  let valid_kv := bg_valid_key k && bg_valid_value v in
  let nb := kv_new (kv_size b + 1) in
  let nb := if valid_kv then kv_add nb k v else nb in
  fold_left (fun acc e => if negb valid_kv || negb (bytes_eqb k (fst e)) then kv_add acc (fst e) (snd e) else acc)
            (kv_list b) nb.

(* Baggage::Delete *)
Definition bg_delete (k : bytes) (b : bag) : bag :=
  fold_left (fun acc e => if negb (bytes_eqb k (fst e)) then kv_add acc (fst e) (snd e) else acc)
            (kv_list b) (kv_new (kv_size b)).

(* Baggage::GetValue *)
Definition bg_get (k : bytes) (b : bag) : option bytes := lookup k (kv_list b).

(* value.find(';'):  (value before it, metadata starting at it) *)
Definition split_meta (v : bytes) : bytes * bytes :=
  match index_of semicolon v with
  | None => (v, [])
  | Some i => (firstn i v, skipn i v)
  end.

(* body of the FromHeader loop for one list member the tokenizer returned *)
Definition fh_member (m : bytes) (acc : bag) : bag :=
  match split_kv m with
  | None => acc                                                      (* !kv_valid *)
  | Some (key, value) =>
      if Nat.ltb kMaxKeyValueSize (length key + length value) then acc
      else
        let (value', metadata) := split_meta value in
        let (key_str, err1) := url_decode_err (trim key) false in
        let (value_str, err2) := url_decode_err (trim value') err1 in
        if negb err2 && bg_valid_key key_str && bg_valid_value value_str then
          kv_add acc key_str (if is_nil metadata then value_str else value_str ++ metadata)
        else acc
  end.

(* while (tokenizer.next(...) && Size() < cnt) *)
Fixpoint fh_loop (cnt : nat) (ms : list bytes) (acc : bag) : bag :=
  match ms with
  | [] => acc
  | m :: ms' => if Nat.ltb (kv_size acc) cnt then fh_loop cnt ms' (fh_member m acc) else acc
  end.

(* Baggage::FromHeader *)
Definition bg_from_header (h : bytes) : bag :=
  if Nat.ltb kMaxSizeBaggage (length h) then kv_new 0
  else
    let cnt := Nat.min (num_tokens h) kMaxKeyValuePairsBaggage in
    fh_loop cnt (bg_members h) (kv_new cnt).

(* Baggage::ToHeader *)
Definition bg_member (e : entry) : bytes :=
  url_encode (fst e) ++ [equals] ++
  (let (v, md) := split_meta (snd e) in url_encode v ++ md).

Fixpoint th_loop (first : bool) (l : list entry) : bytes :=
  match l with
  | [] => []
  | e :: l' => (if first then [] else [comma]) ++ bg_member e ++ th_loop false l'
  end.
Definition bg_to_header (b : bag) : bytes := th_loop true (kv_list b).

(* ------------------------------------------------------------------------------------------
   Carriers, contexts, propagators *)

(* the driver's TextMapCarrier: a std::map<std::string, value>; Get of a missing key is "" *)
Definition carrier := list (bytes * bytes).

Fixpoint bytes_ltb (a b : bytes) : bool :=
  match a, b with
  | _, [] => false
  | [], _ :: _ => true
  | x :: a', y :: b' => N.ltb (b2n x) (b2n y) || (N.eqb (b2n x) (b2n y) && bytes_ltb a' b')
  end.

Fixpoint car_set (k v : bytes) (c : carrier) : carrier :=
  match c with
  | [] => [(k, v)]
  | (k', v') :: c' =>
      if bytes_eqb k' k then (k, v) :: c'
      else if bytes_ltb k k' then (k, v) :: c
      else (k', v') :: car_set k v c'
  end.
Definition car_get (k : bytes) (c : carrier) : bytes :=
  match lookup k c with Some v => v | None => [] end.

(* context::Context: the linked list of (key, value) nodes; SetValue prepends.  Only the two
   keys the propagators use occur: "active_span" and "baggage". *)
Inductive cx_item := CxSpan (c : span_ctx) | CxBag (b : bag).
Definition context := list cx_item.

Fixpoint cx_span (c : context) : option span_ctx :=
  match c with
  | [] => None
  | CxSpan s :: _ => Some s
  | _ :: c' => cx_span c'
  end.
Fixpoint cx_bag (c : context) : option bag :=
  match c with
  | [] => None
  | CxBag b :: _ => Some b
  | _ :: c' => cx_bag c'
  end.

Record propagator := mk_prop {
  p_inject : context -> carrier -> carrier;
  p_extract : carrier -> context -> context
}.

Definition h_traceparent := bs "traceparent".
Definition h_tracestate := bs "tracestate".
Definition h_baggage := bs "baggage".
Definition h_b3 := bs "b3".
Definition h_b3_trace := bs "X-B3-TraceId".
Definition h_b3_span := bs "X-B3-SpanId".
Definition h_b3_sampled := bs "X-B3-Sampled".
Definition h_jaeger := bs "uber-trace-id".

(* trace::GetSpan(context)->GetContext() when it IsValid() *)
Definition cx_valid_span (ctx : context) : option span_ctx :=
  match cx_span ctx with
  | Some c => if ctx_valid c then Some c else None
  | None => None
  end.

Definition set_span_if (o : option span_ctx) (ctx : context) : context :=
  match o with Some c => CxSpan c :: ctx | None => ctx end.

(* BaggagePropagator *)
Definition bag_of_ctx (ctx : context) : bag :=
  match cx_bag ctx with Some b => b | None => kv_new 0 end.
Definition baggage_inject (ctx : context) (car : carrier) : carrier :=
  let h := bg_to_header (bag_of_ctx ctx) in
  if is_nil h then car else car_set h_baggage h car.
Definition baggage_extract (car : carrier) (ctx : context) : context :=
  let b := bg_from_header (car_get h_baggage car) in
  if is_nil (bg_to_header b) then ctx else CxBag b :: ctx.
Definition baggage_prop := mk_prop baggage_inject baggage_extract.

(* HttpTraceContext *)
Definition w3c_inject (ctx : context) (car : carrier) : carrier :=
  match cx_span ctx with
  | Some c =>
      match inject c with
      | Some (tp, ts) =>
          let car := car_set h_traceparent tp car in
          match ts with Some h => car_set h_tracestate h car | None => car end
      | None => car
      end
  | None => car
  end.
Definition w3c_extract (car : carrier) (ctx : context) : context :=
  set_span_if (extract (car_get h_traceparent car) (car_get h_tracestate car)) ctx.
Definition w3c_prop := mk_prop w3c_inject w3c_extract.

Definition sampled_digit (c : span_ctx) : byte :=
  if N.testbit (b2n (c_flags c)) 0 then x31 else x30.

(* B3PropagatorExtractor::ExtractImpl *)
Definition b3_flags (s : bytes) : byte :=
  match s with
  | [c] => if Byte.eqb c x31 || Byte.eqb c x64 then x01 else x00
  | _ => x00
  end.
Definition b3_fields (car : carrier) : option (bytes * bytes * bytes) :=
  let single := car_get h_b3 car in
  if negb (is_nil single) then
    let f := split_string single dash 3 in
    if Nat.ltb (length f) 2 then None else Some (nth 0 f [], nth 1 f [], nth 2 f [])
  else Some (car_get h_b3_trace car, car_get h_b3_span car, car_get h_b3_sampled car).
Definition b3_extract_ctx (car : carrier) : option span_ctx :=
  match b3_fields car with
  | None => None
  | Some (t, s, f) =>
      if negb (is_valid_hex t && is_valid_hex s) then None
      else
        let tid := hex_to_binary t 16 in
        let sid := hex_to_binary s 8 in
        if all_zero tid || all_zero sid then None
        else Some (mk_ctx tid sid (b3_flags f) true [])
  end.
Definition b3_extract (car : carrier) (ctx : context) : context := set_span_if (b3_extract_ctx car) ctx.

Definition b3_inject (ctx : context) (car : carrier) : carrier :=
  match cx_valid_span ctx with
  | Some c => car_set h_b3 (to_lower_hex (c_tid c) ++ [dash] ++ to_lower_hex (c_sid c) ++ [dash; sampled_digit c]) car
  | None => car
  end.
Definition b3_prop := mk_prop b3_inject b3_extract.

Definition b3m_inject (ctx : context) (car : carrier) : carrier :=
  match cx_valid_span ctx with
  | Some c => car_set h_b3_sampled [sampled_digit c]
                (car_set h_b3_span (to_lower_hex (c_sid c)) (car_set h_b3_trace (to_lower_hex (c_tid c)) car))
  | None => car
  end.
Definition b3m_prop := mk_prop b3m_inject b3_extract.

(* JaegerPropagator *)
Definition jaeger_inject (ctx : context) (car : carrier) : carrier :=
  match cx_valid_span ctx with
  | Some c => car_set h_jaeger (to_lower_hex (c_tid c) ++ [colon] ++ to_lower_hex (c_sid c) ++
                                [colon; x30; colon; x30; sampled_digit c]) car
  | None => car
  end.
Definition jaeger_extract_ctx (car : carrier) : option span_ctx :=
  match split_string (car_get h_jaeger car) colon 4 with
  | [t; s; _; f] =>
      if negb (is_valid_hex t && is_valid_hex s && is_valid_hex f) then None
      else if Nat.ltb 32 (length t) || Nat.ltb 16 (length s) || Nat.ltb 2 (length f) then None
      else
        let tid := hex_to_binary t 16 in
        let sid := hex_to_binary s 8 in
        if all_zero tid || all_zero sid then None
        else Some (mk_ctx tid sid (if N.testbit (b2n (hd x00 (hex_to_binary f 1))) 0 then x01 else x00) true [])
  | _ => None
  end.
Definition jaeger_extract (car : carrier) (ctx : context) : context := set_span_if (jaeger_extract_ctx car) ctx.
Definition jaeger_prop := mk_prop jaeger_inject jaeger_extract.

(* CompositePropagator::Inject: every part, in order, on the one carrier *)
Fixpoint comp_inject (ps : list propagator) (ctx : context) (car : carrier) : carrier :=
  match ps with
  | [] => car
  | p :: ps' => comp_inject ps' ctx (p_inject p ctx car)
  end.

(* CompositePropagator::Extract: the loop with its [first] flag and [tmp_context] *)
Fixpoint comp_extract_loop (ps : list propagator) (car : carrier) (first : bool) (ctx tmp : context) : context :=
  match ps with
  | [] => tmp
  | p :: ps' =>
      let tmp' := if first then p_extract p car ctx else p_extract p car tmp in
      comp_extract_loop ps' car false ctx tmp'
  end.
Definition comp_extract (ps : list propagator) (car : carrier) (ctx : context) : context :=
  let tmp := comp_extract_loop ps car true ctx [] in
  if is_nil ps then ctx else tmp.
Definition composite (ps : list propagator) : propagator := mk_prop (comp_inject ps) (comp_extract ps).

(* ------------------------------------------------------------------------------------------
   A store of Baggage objects driven by an operation sequence: every operation creates a new
   object from an earlier one (index taken modulo the number of objects so far). *)
Inductive bop :=
| OSet (i : nat) (k v : bytes)
| ODel (i : nat) (k : bytes)
| OFrom (h : bytes).

Definition nth_bag (st : list bag) (i : nat) : bag := nth (Nat.modulo i (length st)) st (kv_new 0).

Definition step_op (st : list bag) (o : bop) : list bag :=
  st ++ [match o with
         | OSet i k v => bg_set k v (nth_bag st i)
         | ODel i k => bg_delete k (nth_bag st i)
         | OFrom h => bg_from_header h
         end].
Definition run_ops (ops : list bop) (st : list bag) : list bag := fold_left step_op ops st.
