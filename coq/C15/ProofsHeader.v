(* C15 proofs, part 3: Baggage::FromHeader refines the declarative extraction sp_from_header
   (for every byte string), ToHeader refines sp_to_header; validity and limits of what is kept. *)
From V Require Import C15.Glue C15.ProofsBase C15.ProofsOps.
From Coq Require Import Lia ZifyBool ZifyNat ZifyN.

Lemma filter_len_le {A} (f : A -> bool) l : length (filter f l) <= length l.
Proof. induction l as [|a l IH]; cbn; [lia|]. destruct (f a); cbn; lia. Qed.
Lemma In_firstn {A} n (l : list A) x : In x (firstn n l) -> In x l.
Proof.
  revert n; induction l as [|a l IH]; intros n H; [destruct n; exact H|].
  destruct n; cbn in H; [destruct H|]. destruct H as [->|H]; [left; reflexivity | right; eapply IH; exact H].
Qed.

(* ---- the member grammar without the outer trim *)
Definition sp_member_t (m : bytes) : option entry :=
  match cut equals m with
  | None => None
  | Some (rk, rv) =>
      if Nat.ltb kMaxKeyValueSize (length rk + length rv) then None
      else
        let (rval, meta) := cut_keep semicolon rv in
        match sp_decode (trim rk), sp_decode (trim rval) with
        | Some k, Some v =>
            if sp_valid_key k && sp_valid_value v then Some (k, c_string (v ++ meta)) else None
        | _, _ => None
        end
  end.

Lemma sp_member_trim seg : sp_member seg = sp_member_t (trim seg).
Proof. reflexivity. Qed.

Lemma sp_member_t_nil : sp_member_t [] = None.
Proof. reflexivity. Qed.

Definition kv_push (p : kvp) (e : entry) : kvp :=
  if Nat.ltb (kv_size p) (kv_cap p) then mk_kvp (kv_cap p) (kv_list p ++ [e]) else p.

Lemma split_meta_cut v : split_meta v = cut_keep semicolon v.
Proof. unfold split_meta, cut_keep. destruct (index_of semicolon v); reflexivity. Qed.

Lemma fh_member_spec m acc :
  fh_member m acc = match sp_member_t m with Some e => kv_push acc e | None => acc end.
Proof.
  unfold fh_member, sp_member_t, split_kv, cut.
  destruct (index_of equals m) as [i|]; [|reflexivity].
  destruct (Nat.ltb kMaxKeyValueSize (length (firstn i m) + length (skipn (S i) m))); [reflexivity|].
  rewrite split_meta_cut. destruct (cut_keep semicolon (skipn (S i) m)) as [rval meta].
  rewrite !sp_decode_eq. unfold url_decode_err.
  destruct (url_decode (trim (firstn i m))) as [k|]; destruct (url_decode (trim rval)) as [v|]; cbn [negb andb]; try reflexivity.
  change (sp_valid_key k) with (bg_valid_key k). change (sp_valid_value v) with (bg_valid_value v).
  destruct (bg_valid_key k) eqn:Hk; cbn [andb]; [|reflexivity].
  destruct (bg_valid_value v) eqn:Hv; [|reflexivity].
  unfold kv_add, kv_push, c_string.
  unfold bg_valid_key in Hk. apply andb_true_iff in Hk; destruct Hk as [_ Hk].
  rewrite (cstr_printable _ Hk).
  destruct meta as [|c meta]; cbn [is_nil]; [rewrite app_nil_r|]; rewrite ?cstr_idem; reflexivity.
Qed.

Lemma firstn_all_le {A} n (l : list A) : length l <= n -> firstn n l = l.
Proof.
  revert n; induction l as [|a l IH]; intros n H; [destruct n; reflexivity|].
  destruct n; cbn in *; [lia|]. rewrite IH by lia. reflexivity.
Qed.

Lemma fh_loop_spec cnt ms acc :
  kv_cap acc = cnt -> kv_size acc <= cnt ->
  kv_cap (fh_loop cnt ms acc) = cnt /\
  kv_list (fh_loop cnt ms acc) = firstn cnt (kv_list acc ++ filter_map sp_member_t ms).
Proof.
  revert acc. induction ms as [|m ms IH]; intros acc Hcap Hsz.
  - cbn. split; [exact Hcap|]. rewrite app_nil_r. symmetry. apply firstn_all_le. exact Hsz.
  - cbn [fh_loop filter_map].
    destruct (Nat.ltb (kv_size acc) cnt) eqn:Elt.
    + apply Nat.ltb_lt in Elt. rewrite fh_member_spec.
      destruct (sp_member_t m) as [e|].
      * unfold kv_push. rewrite Hcap. apply Nat.ltb_lt in Elt. rewrite Elt. apply Nat.ltb_lt in Elt.
        destruct (IH (mk_kvp cnt (kv_list acc ++ [e]))) as [H1 H2]; [reflexivity | unfold kv_size in *; cbn [kv_list]; rewrite app_length; cbn; lia |].
        split; [exact H1|]. rewrite H2. cbn [kv_list]. rewrite <- app_assoc. reflexivity.
      * apply IH; assumption.
    + apply Nat.ltb_ge in Elt. split; [exact Hcap|].
      rewrite firstn_app. unfold kv_size in *.
      replace (cnt - length (kv_list acc)) with 0 by lia. cbn [firstn]. rewrite app_nil_r.
      symmetry. apply firstn_all_le. lia.
Qed.

Lemma filter_map_members segs :
  filter_map sp_member_t (filter (fun m => negb (is_nil m)) (map trim segs)) = filter_map sp_member segs.
Proof.
  induction segs as [|s segs IH]; [reflexivity|].
  cbn [map filter filter_map]. rewrite sp_member_trim.
  destruct (trim s) as [|c t] eqn:E; cbn [is_nil negb].
  - rewrite sp_member_t_nil. exact IH.
  - cbn [filter_map]. rewrite IH. reflexivity.
Qed.

Lemma trim_nil : trim [] = [].
Proof. reflexivity. Qed.

Lemma members_le_tokens h : length (bg_members h) <= num_tokens h.
Proof.
  unfold bg_members, num_tokens.
  set (p := split_on comma h).
  assert (G : forall q : list bytes, length (filter (fun m => negb (is_nil m)) (map trim q)) <= length q).
  { intros q. rewrite <- (map_length trim q). apply filter_len_le. }
  destruct (is_nil (last p [x00])) eqn:E; [|apply G].
  destruct p as [|a p'] eqn:Ep; [cbn; lia|].
  destruct (exists_last (l := a :: p')) as [q [l Hq]]; [discriminate|].
  rewrite Hq in *. rewrite last_last in E. destruct l; [|discriminate].
  rewrite map_app, filter_app, !app_length. cbn [map filter length trim_nil]. rewrite trim_nil. cbn.
  rewrite Nat.add_0_r, Nat.add_sub. exact (G q).
Qed.

(* ---- FromHeader = the declarative extraction, for every byte string *)
Theorem bg_from_header_entries h : bg_entries (bg_from_header h) = sp_from_header h.
Proof.
  unfold bg_entries, bg_from_header, sp_from_header.
  destruct (Nat.ltb kMaxSizeBaggage (length h)); [reflexivity|].
  set (cnt := Nat.min (num_tokens h) kMaxKeyValuePairsBaggage).
  destruct (fh_loop_spec cnt (bg_members h) (kv_new cnt)) as [_ H]; [reflexivity | cbn; lia |].
  rewrite H. cbn [kv_new kv_list app].
  unfold bg_members. rewrite filter_map_members.
  set (X := filter_map sp_member (split_on comma h)).
  assert (HX : length X <= num_tokens h).
  { unfold X. rewrite <- filter_map_members.
    etransitivity; [apply filter_map_length|]. apply (members_le_tokens h). }
  destruct (Nat.le_gt_cases kMaxKeyValuePairsBaggage (num_tokens h)) as [Hle|Hgt].
  - unfold cnt. rewrite Nat.min_r by exact Hle. reflexivity.
  - unfold cnt. rewrite Nat.min_l by lia.
    rewrite !firstn_all_le by lia. reflexivity.
Qed.

Lemma fh_member_wf m acc : bag_wf acc -> bag_wf (fh_member m acc).
Proof.
  intros H. unfold fh_member.
  destruct (split_kv m) as [[key value]|]; [|exact H].
  destruct (Nat.ltb kMaxKeyValueSize (length key + length value)); [exact H|].
  destruct (split_meta value) as [v' md].
  destruct (url_decode_err (trim key) false) as [ks e1].
  destruct (url_decode_err (trim v') e1) as [vs e2].
  destruct (negb e2 && bg_valid_key ks && bg_valid_value vs); [apply kv_add_wf|]; exact H.
Qed.

Lemma fh_loop_wf cnt ms acc : bag_wf acc -> bag_wf (fh_loop cnt ms acc).
Proof.
  revert acc. induction ms as [|m ms IH]; intros acc H; [exact H|].
  cbn [fh_loop]. destruct (Nat.ltb (kv_size acc) cnt); [|exact H].
  apply IH. apply fh_member_wf. exact H.
Qed.

Lemma bg_from_header_wf h : bag_wf (bg_from_header h).
Proof.
  unfold bg_from_header. destruct (Nat.ltb kMaxSizeBaggage (length h)); [apply bag_wf_new|].
  apply fh_loop_wf. apply bag_wf_new.
Qed.

(* ---- ToHeader *)
Lemma bg_member_str e : bg_member e = sp_member_str e.
Proof.
  unfold bg_member, sp_member_str. rewrite split_meta_cut.
  destruct (cut_keep semicolon (snd e)) as [v md]. rewrite !sp_encode_eq. reflexivity.
Qed.

Lemma th_loop_spec first l :
  th_loop first l =
  match l with
  | [] => []
  | _ => (if first then [] else [comma]) ++ intercalate comma (map sp_member_str l)
  end.
Proof.
  revert first. induction l as [|e l IH]; intros first; [reflexivity|].
  cbn [th_loop map intercalate]. rewrite IH, bg_member_str.
  destruct l as [|e' l']; [cbn [map]; rewrite app_nil_r; reflexivity|].
  cbn [map]. reflexivity.
Qed.

Theorem bg_to_header_spec b : bg_to_header b = sp_to_header (bg_entries b).
Proof.
  unfold bg_to_header, sp_to_header, bg_entries. rewrite th_loop_spec.
  destruct (kv_list b); reflexivity.
Qed.

Lemma sp_member_str_nonempty e : sp_member_str e <> [].
Proof.
  unfold sp_member_str. destruct (cut_keep semicolon (snd e)) as [v md].
  destruct (sp_encode (fst e)); discriminate.
Qed.

Lemma sp_to_header_nil l : is_nil (sp_to_header l) = is_nil l.
Proof.
  destruct l as [|e l]; [reflexivity|]. unfold sp_to_header. cbn [map intercalate is_nil].
  pose proof (sp_member_str_nonempty e) as H.
  destruct l; [destruct (sp_member_str e); [congruence|reflexivity]|].
  destruct (sp_member_str e); [congruence|reflexivity].
Qed.

(* ---- what extraction keeps: only valid members *)
(* index_of through an offset-free search *)
Fixpoint find_idx (c : byte) (s : bytes) : option nat :=
  match s with
  | [] => None
  | b :: s' => if Byte.eqb b c then Some 0 else option_map S (find_idx c s')
  end.

Lemma index_of_from_find c s n : index_of_from c s n = option_map (fun i => i + n) (find_idx c s).
Proof.
  revert n. induction s as [|b s IH]; intros n; [reflexivity|].
  cbn [index_of_from find_idx]. destruct (Byte.eqb b c); [reflexivity|].
  rewrite IH. destruct (find_idx c s); cbn; [f_equal; lia | reflexivity].
Qed.

Lemma index_of_find c s : index_of c s = find_idx c s.
Proof.
  unfold index_of. rewrite index_of_from_find. destruct (find_idx c s); cbn; [f_equal; lia | reflexivity].
Qed.

Lemma find_idx_app_l c a b i : find_idx c a = Some i -> find_idx c (a ++ b) = Some i.
Proof.
  revert i. induction a as [|x a IH]; intros i H; [discriminate|].
  cbn [app find_idx] in *. destruct (Byte.eqb x c); [exact H|].
  destruct (find_idx c a) as [j|]; [|discriminate]. rewrite (IH j eq_refl). exact H.
Qed.

Lemma find_idx_app_r c a b : find_idx c a = None -> find_idx c (a ++ b) = option_map (fun i => length a + i) (find_idx c b).
Proof.
  induction a as [|x a IH]; intros H.
  - cbn. destruct (find_idx c b); reflexivity.
  - cbn [app find_idx length] in *. destruct (Byte.eqb x c); [discriminate|].
    destruct (find_idx c a) as [j|]; [discriminate|]. rewrite IH by reflexivity.
    destruct (find_idx c b); reflexivity.
Qed.

Lemma find_idx_lt c s i : find_idx c s = Some i -> i < length s.
Proof.
  revert i. induction s as [|b s IH]; intros i H; [discriminate|].
  cbn [find_idx length] in *. destruct (Byte.eqb b c); [inversion H; lia|].
  destruct (find_idx c s) as [j|]; [|discriminate]. inversion H; subst. specialize (IH j eq_refl). lia.
Qed.

Lemma find_idx_nth c s i : find_idx c s = Some i -> nth i s x00 = c.
Proof.
  revert i. induction s as [|b s IH]; intros i H; [discriminate|].
  cbn [find_idx] in H. destruct (Byte.eqb b c) eqn:E; [inversion H; subst; apply beqb_eq in E; exact E|].
  destruct (find_idx c s) as [j|]; [|discriminate]. inversion H; subst. cbn. apply IH. reflexivity.
Qed.

Lemma find_idx_none c s : find_idx c s = None <-> existsb (Byte.eqb c) s = false.
Proof.
  induction s as [|b s IH]; [split; reflexivity|].
  cbn [find_idx existsb]. rewrite (beqb_sym c b). destruct (Byte.eqb b c); cbn [orb].
  - split; discriminate.
  - destruct (find_idx c s); cbn; [split; [discriminate | intros H; apply IH in H; discriminate] | tauto].
Qed.

Lemma cut_keep_fst_app c a b :
  (b = [] \/ exists t, b = c :: t) -> fst (cut_keep c (a ++ b)) = fst (cut_keep c a).
Proof.
  intros Hb. unfold cut_keep. rewrite !index_of_find.
  destruct (find_idx c a) as [i|] eqn:E.
  - rewrite (find_idx_app_l c a b i E). cbn [fst]. pose proof (find_idx_lt _ _ _ E).
    rewrite firstn_app. replace (i - length a) with 0 by lia. cbn [firstn]. apply app_nil_r.
  - rewrite (find_idx_app_r c a b E). destruct Hb as [->|[t ->]].
    + cbn. apply app_nil_r.
    + cbn [find_idx]. rewrite beqb_refl. cbn [option_map fst]. rewrite Nat.add_0_r.
      rewrite firstn_app, Nat.sub_diag, firstn_all. cbn [firstn]. apply app_nil_r.
Qed.

Lemma cut_keep_snd_shape c s : snd (cut_keep c s) = [] \/ exists t, snd (cut_keep c s) = c :: t.
Proof.
  unfold cut_keep. rewrite index_of_find. destruct (find_idx c s) as [i|] eqn:E; [|left; reflexivity].
  right. cbn [snd]. pose proof (find_idx_lt _ _ _ E) as Hlt. pose proof (find_idx_nth _ _ _ E) as Hn.
  clear E. revert i Hlt Hn. induction s as [|b s IH]; intros i Hlt Hn; [cbn in Hlt; lia|].
  destruct i; cbn in *; [exists s; subst; reflexivity|]. apply IH; [lia | exact Hn].
Qed.

Lemma cut_keep_app c s : fst (cut_keep c s) ++ snd (cut_keep c s) = s.
Proof. unfold cut_keep. destruct (index_of c s); cbn; [apply firstn_skipn | apply app_nil_r]. Qed.

Lemma cstr_app_nf a b : nul_free a = true -> cstr (a ++ b) = a ++ cstr b.
Proof.
  induction a as [|x a IH]; [reflexivity|]. unfold nul_free in *. cbn [forallb app cstr]. intros H.
  apply andb_true_iff in H; destruct H as [Hx Ha]. apply negb_true_iff in Hx. rewrite Hx, IH by exact Ha. reflexivity.
Qed.

Lemma cstr_shape c b : Byte.eqb c x00 = false -> (b = [] \/ exists t, b = c :: t) -> (cstr b = [] \/ exists t, cstr b = c :: t).
Proof. intros Hc [->|[t ->]]; [left; reflexivity|]. right. cbn. rewrite Hc. eexists; reflexivity. Qed.

Lemma printable_firstn n s : is_printable s = true -> is_printable (firstn n s) = true.
Proof.
  unfold is_printable. revert n; induction s as [|b s IH]; intros n H; [destruct n; reflexivity|].
  destruct n; [reflexivity|]. cbn in *. apply andb_true_iff in H; destruct H as [Hb Hs]. rewrite Hb, IH; auto.
Qed.

Lemma printable_cut_fst c s : is_printable s = true -> is_printable (fst (cut_keep c s)) = true.
Proof. intros H. unfold cut_keep. destruct (index_of c s); cbn [fst]; [apply printable_firstn|]; exact H. Qed.

Lemma sp_member_valid seg e : sp_member seg = Some e -> entry_valid e = true.
Proof.
  unfold sp_member. destruct (cut equals (trim seg)) as [[rk rv]|]; [|discriminate].
  destruct (Nat.ltb kMaxKeyValueSize (length rk + length rv)); [discriminate|].
  pose proof (cut_keep_snd_shape semicolon rv) as Hshape.
  destruct (cut_keep semicolon rv) as [rval meta]. cbn [snd] in Hshape.
  destruct (sp_decode (trim rk)) as [k|]; [|discriminate].
  destruct (sp_decode (trim rval)) as [v|]; [|discriminate].
  destruct (sp_valid_key k) eqn:Hk; cbn [andb]; [|discriminate].
  destruct (sp_valid_value v) eqn:Hv; [|discriminate].
  intros H; inversion H; subst e; clear H. unfold entry_valid. cbn [fst snd]. rewrite Hk. cbn [andb].
  unfold c_string. change (sp_valid_value v) with (is_printable v) in Hv.
  rewrite cstr_app_nf by (apply printable_nul_free; exact Hv).
  rewrite cut_keep_fst_app by (apply cstr_shape; [reflexivity | exact Hshape]).
  change (sp_valid_value ?x) with (is_printable x). apply printable_cut_fst. exact Hv.
Qed.

Theorem sp_from_header_sound h e :
  In e (sp_from_header h) ->
  entry_valid e = true /\ exists seg, In seg (split_on comma h) /\ sp_member seg = Some e.
Proof.
  unfold sp_from_header. destruct (Nat.ltb kMaxSizeBaggage (length h)); [intros []|].
  intros Hin. apply In_firstn in Hin. apply filter_map_in in Hin. destruct Hin as [seg [Hs Hm]].
  split; [eapply sp_member_valid; exact Hm | exists seg; auto].
Qed.

Theorem sp_from_header_complete h seg e :
  length h <= kMaxSizeBaggage ->
  length (filter_map sp_member (split_on comma h)) <= kMaxKeyValuePairsBaggage ->
  In seg (split_on comma h) -> sp_member seg = Some e -> In e (sp_from_header h).
Proof.
  intros Hlen Hcnt Hin Hm. unfold sp_from_header.
  destruct (Nat.ltb kMaxSizeBaggage (length h)) eqn:E; [apply Nat.ltb_lt in E; lia|].
  rewrite firstn_all_le by exact Hcnt. apply filter_map_in. exists seg; auto.
Qed.

(* order: what is kept is a prefix of the valid members in header order *)
Theorem sp_from_header_prefix h :
  length h <= kMaxSizeBaggage ->
  exists rest, filter_map sp_member (split_on comma h) = sp_from_header h ++ rest.
Proof.
  intros Hlen. unfold sp_from_header.
  destruct (Nat.ltb kMaxSizeBaggage (length h)) eqn:E; [apply Nat.ltb_lt in E; lia|].
  exists (skipn kMaxKeyValuePairsBaggage (filter_map sp_member (split_on comma h))).
  symmetry. apply firstn_skipn.
Qed.

(* ---- limits *)
Lemma url_decode_length s d : url_decode s = Some d -> length d <= length s.
Proof.
  remember (length s) as n eqn:Hn. revert s d Hn.
  induction n as [n IH] using lt_wf_ind. intros s d Hn H.
  destruct s as [|c r]; [inversion H; cbn; lia|].
  cbn [url_decode] in H. cbn [length] in Hn.
  destruct (Byte.eqb c percent).
  - destruct r as [|a [|b r']]; try discriminate.
    destruct (ishex a && ishex b); [|discriminate].
    destruct (url_decode r') as [d'|] eqn:E; [|discriminate]. inversion H; subst.
    specialize (IH (length r') ltac:(cbn; lia) r' d' eq_refl E). cbn [length] in *. lia.
  - destruct (Byte.eqb c plus).
    + destruct (url_decode r) as [d'|] eqn:E; [|discriminate]. inversion H; subst.
      specialize (IH (length r) ltac:(lia) r d' eq_refl E). cbn [length]. lia.
    + destruct (unreserved c); [|discriminate].
      destruct (url_decode r) as [d'|] eqn:E; [|discriminate]. inversion H; subst.
      specialize (IH (length r) ltac:(lia) r d' eq_refl E). cbn [length]. lia.
Qed.

Lemma trim_end_length s : length (trim_end s) <= length s.
Proof.
  induction s as [|b s IH]; [cbn; lia|]. cbn [trim_end].
  destruct (trim_end s) eqn:E; [destruct (isspace b); cbn; lia|]. cbn [length] in *. lia.
Qed.
Lemma drop_while_length p s : length (drop_while p s) <= length s.
Proof. induction s as [|b s IH]; [cbn; lia|]. cbn [drop_while]. destruct (p b); cbn [length]; lia. Qed.
Lemma trim_length s : length (trim s) <= length s.
Proof. unfold trim. etransitivity; [apply trim_end_length | apply drop_while_length]. Qed.
Lemma cstr_length s : length (cstr s) <= length s.
Proof. induction s as [|b s IH]; [cbn; lia|]. cbn [cstr]. destruct (Byte.eqb b x00); cbn [length]; lia. Qed.

Lemma sp_member_size seg e :
  sp_member seg = Some e -> length (fst e) + length (snd e) <= kMaxKeyValueSize.
Proof.
  unfold sp_member. destruct (cut equals (trim seg)) as [[rk rv]|]; [|discriminate].
  destruct (Nat.ltb kMaxKeyValueSize (length rk + length rv)) eqn:E; [discriminate|].
  apply Nat.ltb_ge in E.
  pose proof (cut_keep_app semicolon rv) as Happ.
  destruct (cut_keep semicolon rv) as [rval meta]. cbn [fst snd] in Happ.
  destruct (sp_decode (trim rk)) as [k|] eqn:Ek; [|discriminate].
  destruct (sp_decode (trim rval)) as [v|] eqn:Ev; [|discriminate].
  destruct (sp_valid_key k && sp_valid_value v); [|discriminate].
  intros H; inversion H; subst e; clear H. cbn [fst snd]. unfold c_string.
  rewrite sp_decode_eq in Ek, Ev. apply url_decode_length in Ek, Ev.
  pose proof (trim_length rk). pose proof (trim_length rval).
  pose proof (cstr_length (v ++ meta)) as Hc. rewrite app_length in Hc.
  assert (length rv = length rval + length meta) by (rewrite <- Happ, app_length; reflexivity).
  lia.
Qed.

Theorem sp_from_header_limits h :
  length (sp_from_header h) <= kMaxKeyValuePairsBaggage /\
  (kMaxSizeBaggage < length h -> sp_from_header h = []) /\
  (forall e, In e (sp_from_header h) -> length (fst e) + length (snd e) <= kMaxKeyValueSize) /\
  (forall e, In e (sp_from_header h) ->
     exists rk rv, (exists seg, In seg (split_on comma h) /\ cut equals (trim seg) = Some (rk, rv)) /\
                   length rk + length rv <= kMaxKeyValueSize).
Proof.
  split; [|split; [|split]].
  - unfold sp_from_header. destruct (Nat.ltb kMaxSizeBaggage (length h)); [cbn; lia|].
    apply firstn_le_length.
  - intros H. unfold sp_from_header. apply Nat.ltb_lt in H. rewrite H. reflexivity.
  - intros e Hin. apply sp_from_header_sound in Hin. destruct Hin as [_ [seg [_ Hm]]].
    eapply sp_member_size; exact Hm.
  - intros e Hin. apply sp_from_header_sound in Hin. destruct Hin as [_ [seg [Hs Hm]]].
    unfold sp_member in Hm. destruct (cut equals (trim seg)) as [[rk rv]|] eqn:Ec; [|discriminate].
    destruct (Nat.ltb kMaxKeyValueSize (length rk + length rv)) eqn:E; [discriminate|]. apply Nat.ltb_ge in E.
    exists rk, rv. split; [exists seg; auto | exact E].
Qed.

(* non-vacuity: a header with valid, invalid and over-long members *)
Example from_header_nonvacuous :
  sp_from_header (bs " k%201 = v%2C+w ;m=1 , bad,=x,q=%G1,,p%3D=, a=b=c, z=1;x, y=%7e") =
  [(bs "k 1", bs "v, w;m=1"); (bs "p=", bs ""); (bs "z", bs "1;x"); (bs "y", bs "~")].
Proof. vm_compute. reflexivity. Qed.
