(* Glue between the token wire format and the C15 model/spec.  Extracted.  No proofs.

   case lines
     OPS <NEW|x<header>> ; S <i> x<key> x<value> ; D <i> x<key> ; F x<header> ; ...
     HDR <NONE|x<header>> <NOBAG|BAG x<header>>
     COMP <names...> ; INJ <ctx>                      names: W3C BAG B3 B3M JAEGER
     COMP <names...> ; EXT <ctx> ; x<key> x<value> ...  (carrier contents)
     PURITY <entries> <threads> <rounds> <iters>        (ThreadSanitizer purity probe; observation PURE,
                                                         DIFFERS x.., RACE x.., HARNESSRACE x.., HANG, CRASH ..)
       <ctx> = <NOSPAN|SPAN x<tid16> x<sid8> <flags> x<tracestate>> <NOBAG|BAG x<header>>
   observation lines
     OPS : <obj0> ; <obj1> ; ... | <re-read obj0> ; ... | PURE <b> | HDR x<header> | RT <SAME|BAG <entries>>
     HDR : <entries of FromHeader> | SAME <b> | <NOBAG|BAG <entries>>
     INJ : <carrier of the composite> | <carrier after the parts one by one>
     EXT : <ctxobs of the composite> | <ctxobs after the parts one by one>
       <ctxobs> = SAME <b> ; <NOSPAN|SPAN x<tid> x<sid> <flags> <remote> x<tracestate>> ; <NOBAG|BAG <entries>>
     <entries> = x<key> x<value> ...                                                        *)
From V Require Export C15.Spec.
Local Open Scope Z_scope.

Inductive pname := PW3C | PBag | PB3 | PB3M | PJaeger.

Definition prop_of_name (n : pname) : propagator :=
  match n with
  | PW3C => w3c_prop
  | PBag => baggage_prop
  | PB3 => b3_prop
  | PB3M => b3m_prop
  | PJaeger => jaeger_prop
  end.

Inductive case :=
| COps (init : option bytes) (ops : list bop)
| CHdr (h : option bytes) (init : option bytes)
| CInj (ps : list pname) (ctx : context)
| CExt (ps : list pname) (ctx : context) (car : carrier)
| CPur.     (* PURITY <entries> <threads> <rounds> <iters> : purity probe (harness/c15_purity.cc) *)

(* ---- parsing *)
Fixpoint parse_entries (l : list tok) : option (list entry) :=
  match l with
  | [] => Some []
  | TB k :: TB v :: l' => match parse_entries l' with Some r => Some ((k, v) :: r) | None => None end
  | _ => None
  end.

Fixpoint all_some {A} (l : list (option A)) : option (list A) :=
  match l with
  | [] => Some []
  | Some a :: l' => match all_some l' with Some r => Some (a :: r) | None => None end
  | None :: _ => None
  end.

Definition parse_op (l : list tok) : option bop :=
  match l with
  | [t; TZ i; TB k; TB v] => if is_tag "S" t && (0 <=? i) then Some (OSet (Z.to_nat i) k v) else None
  | [t; TZ i; TB k] => if is_tag "D" t && (0 <=? i) then Some (ODel (Z.to_nat i) k) else None
  | [t; TB h] => if is_tag "F" t then Some (OFrom h) else None
  | _ => None
  end.

Definition parse_name (t : tok) : option pname :=
  if is_tag "W3C" t then Some PW3C
  else if is_tag "BAG" t then Some PBag
  else if is_tag "B3" t then Some PB3
  else if is_tag "B3M" t then Some PB3M
  else if is_tag "JAEGER" t then Some PJaeger
  else None.

Definition opt_hdr (none : string) (t : tok) : option (option bytes) :=
  match t with
  | TB b => Some (Some b)
  | _ => if is_tag none t then Some None else None
  end.

Definition parse_span (l : list tok) : option (option span_ctx * list tok) :=
  match l with
  | t :: TB tid :: TB sid :: TZ f :: TB tsh :: rest =>
      if is_tag "SPAN" t && Nat.eqb (length tid) 16 && Nat.eqb (length sid) 8 && (0 <=? f) && (f <? 256)
      then Some (Some (mk_ctx tid sid (n2b (Z.to_N f)) false (from_header tsh)), rest) else None
  | t :: rest => if is_tag "NOSPAN" t then Some (None, rest) else None
  | [] => None
  end.

Definition mk_context (sp : option span_ctx) (bg : option bytes) : context :=
  match bg with Some h => [CxBag (bg_from_header h)] | None => [] end ++
  match sp with Some c => [CxSpan c] | None => [] end.

Definition parse_context (l : list tok) : option context :=
  match parse_span l with
  | Some (sp, [t]) => if is_tag "NOBAG" t then Some (mk_context sp None) else None
  | Some (sp, [t; TB h]) => if is_tag "BAG" t then Some (mk_context sp (Some h)) else None
  | _ => None
  end.

Definition parse_case (l : list tok) : option case :=
  match l with
  | t :: rest =>
      if is_tag "OPS" t then
        match split_toks ";" rest with
        | [i] :: ops =>
            match opt_hdr "NEW" i, all_some (map parse_op ops) with
            | Some init, Some o => Some (COps init o)
            | _, _ => None
            end
        | _ => None
        end
      else if is_tag "HDR" t then
        match rest with
        | [h; n] => match opt_hdr "NONE" h with
                    | Some hh => if is_tag "NOBAG" n then Some (CHdr hh None) else None
                    | None => None
                    end
        | [h; b; TB i] => match opt_hdr "NONE" h with
                          | Some hh => if is_tag "BAG" b then Some (CHdr hh (Some i)) else None
                          | None => None
                          end
        | _ => None
        end
      else if is_tag "PURITY" t then
        match rest with
        | [TZ _; TZ _; TZ _; TZ _] => Some CPur
        | _ => None
        end
      else if is_tag "COMP" t then
        match split_toks ";" rest with
        | [names; k :: ctx] =>
            match all_some (map parse_name names), parse_context ctx with
            | Some ps, Some c => if is_tag "INJ" k then Some (CInj ps c) else None
            | _, _ => None
            end
        | [names; k :: ctx; car] =>
            match all_some (map parse_name names), parse_context ctx, parse_entries car with
            | Some ps, Some c, Some cr =>
                if is_tag "EXT" k then Some (CExt ps c (fold_left (fun a e => car_set (fst e) (snd e) a) cr [])) else None
            | _, _, _ => None
            end
        | _ => None
        end
      else None
  | [] => None
  end.

(* ---- the model's observations *)
Definition init_bag (init : option bytes) : bag :=
  match init with Some h => bg_from_header h | None => kv_new 0 end.

Definition bag_obs_of (ctx0 out : context) : option (list entry) :=
  option_map kv_list (cx_bag out).
Definition same_ctx (ctx0 out : context) : bool := Nat.eqb (length out) (length ctx0).

Definition model_ops_obs (init : option bytes) (ops : list bop) : ops_obs :=
  let st := run_ops ops [init_bag init] in
  let objs := map kv_list st in
  let b := last st (kv_new 0) in
  let car := baggage_inject [CxBag b] [] in
  let out := baggage_extract car [] in
  mk_ops_obs objs objs true (car_get h_baggage car)
             (if same_ctx [] out then None else bag_obs_of [] out).

Definition model_hdr_obs (h : option bytes) (init : option bytes) : hdr_obs :=
  let ctx0 := mk_context None init in
  let car := match h with Some x => [(h_baggage, x)] | None => [] end in
  let out := baggage_extract car ctx0 in
  mk_hdr_obs (kv_list (bg_from_header (car_get h_baggage car))) (same_ctx ctx0 out) (bag_obs_of ctx0 out).

Definition span_obs_of (c : span_ctx) : span_obs :=
  mk_span_obs (c_tid c) (c_sid c) (c_flags c) (c_remote c) (to_header (c_ts c)).
Definition obs_of_ctx (ctx0 out : context) : ctx_obs :=
  mk_ctx_obs (same_ctx ctx0 out) (option_map span_obs_of (cx_span out)) (bag_obs_of ctx0 out).

(* the parts applied one after the other by hand *)
Definition parts_inject (ps : list propagator) (ctx : context) (car : carrier) : carrier :=
  fold_left (fun c p => p_inject p ctx c) ps car.
Definition parts_extract (ps : list propagator) (car : carrier) (ctx : context) : context :=
  fold_left (fun c p => p_extract p car c) ps ctx.

(* ---- printing *)
Definition print_entries (l : list entry) : list tok := flat_map (fun e => [TB (fst e); TB (snd e)]) l.

Fixpoint join_toks (sep : string) (l : list (list tok)) : list tok :=
  match l with
  | [] => []
  | [x] => x
  | x :: l' => x ++ [tag sep] ++ join_toks sep l'
  end.

Definition print_opt_bag (o : option (list entry)) : list tok :=
  match o with Some l => tag "BAG" :: print_entries l | None => [tag "NOBAG"] end.

Definition print_ops_obs (o : ops_obs) : list tok :=
  join_toks "|" [join_toks ";" (map print_entries (oo_objs o));
                 join_toks ";" (map print_entries (oo_final o));
                 [tag "PURE"; tbool (oo_pure o)];
                 [tag "HDR"; TB (oo_header o)];
                 tag "RT" :: match oo_rt o with Some l => tag "BAG" :: print_entries l | None => [tag "SAME"] end].

Definition print_hdr_obs (o : hdr_obs) : list tok :=
  join_toks "|" [print_entries (ho_direct o); [tag "SAME"; tbool (ho_same o)]; print_opt_bag (ho_bag o)].

Definition print_ctx_obs (o : ctx_obs) : list tok :=
  join_toks ";" [[tag "SAME"; tbool (co_same o)];
                 match co_span o with
                 | Some s => [tag "SPAN"; TB (so_tid s); TB (so_sid s); TZ (Z.of_N (b2n (so_flags s))); tbool (so_remote s); TB (so_ts s)]
                 | None => [tag "NOSPAN"]
                 end;
                 print_opt_bag (co_bag o)].

(* ---- parsing observations *)
Definition parse_bool (t : tok) : option bool :=
  match t with TZ 1 => Some true | TZ 0 => Some false | _ => None end.

Definition parse_opt_bag (l : list tok) : option (option (list entry)) :=
  match l with
  | t :: rest =>
      if is_tag "NOBAG" t then (match rest with [] => Some None | _ => None end)
      else if is_tag "BAG" t then option_map Some (parse_entries rest) else None
  | [] => None
  end.

Definition parse_ops_obs (l : list tok) : option ops_obs :=
  match split_toks "|" l with
  | [objs; fin; [_; p]; [_; TB h]; _ :: k :: rt] =>
      match all_some (map parse_entries (split_toks ";" objs)), all_some (map parse_entries (split_toks ";" fin)), parse_bool p with
      | Some o, Some f, Some pb =>
          if is_tag "SAME" k then (match rt with [] => Some (mk_ops_obs o f pb h None) | _ => None end)
          else if is_tag "BAG" k then
            match parse_entries rt with Some r => Some (mk_ops_obs o f pb h (Some r)) | None => None end
          else None
      | _, _, _ => None
      end
  | _ => None
  end.

Definition parse_hdr_obs (l : list tok) : option hdr_obs :=
  match split_toks "|" l with
  | [d; [_; s]; b] =>
      match parse_entries d, parse_bool s, parse_opt_bag b with
      | Some dd, Some ss, Some bb => Some (mk_hdr_obs dd ss bb)
      | _, _, _ => None
      end
  | _ => None
  end.

Definition parse_span_obs (l : list tok) : option (option span_obs) :=
  match l with
  | [t] => if is_tag "NOSPAN" t then Some None else None
  | [_; TB tid; TB sid; TZ f; r; TB ts] =>
      match parse_bool r with
      | Some rb => Some (Some (mk_span_obs tid sid (n2b (Z.to_N f)) rb ts))
      | None => None
      end
  | _ => None
  end.

Definition parse_ctx_obs (l : list tok) : option ctx_obs :=
  match split_toks ";" l with
  | [[_; s]; sp; b] =>
      match parse_bool s, parse_span_obs sp, parse_opt_bag b with
      | Some ss, Some sps, Some bb => Some (mk_ctx_obs ss sps bb)
      | _, _, _ => None
      end
  | _ => None
  end.

(* ---- entry points *)
Definition run_model (l : list tok) : list tok :=
  match parse_case l with
  | Some (COps init ops) => print_ops_obs (model_ops_obs init ops)
  | Some (CHdr h init) => print_hdr_obs (model_hdr_obs h init)
  | Some (CInj ps ctx) =>
      let pl := map prop_of_name ps in
      join_toks "|" [print_entries (p_inject (composite pl) ctx []); print_entries (parts_inject pl ctx [])]
  | Some (CExt ps ctx car) =>
      let pl := map prop_of_name ps in
      join_toks "|" [print_ctx_obs (obs_of_ctx ctx (p_extract (composite pl) car ctx));
                     print_ctx_obs (obs_of_ctx ctx (parts_extract pl car ctx))]
  | Some CPur => [tag "PURE"]
  | None => bad_case
  end.

Definition count_kept (h : bytes) : nat := length (filter_map sp_member (split_on comma h)).

Definition run_tag (l : list tok) : list tok :=
  match parse_case l with
  | Some (COps init ops) =>
      let st := run_ops ops [init_bag init] in
      let e := kv_list (last st (kv_new 0)) in
      [tag (if is_nil e then "ops_empty" else if rt_ok e then "ops_rt" else "ops_no_rt")]
  | Some (CHdr h init) =>
      let hh := match h with Some x => x | None => [] end in
      [tag (if Nat.ltb kMaxSizeBaggage (length hh) then "hdr_too_long"
            else if Nat.ltb kMaxKeyValuePairsBaggage (count_kept hh) then "hdr_capped"
            else if Nat.eqb (count_kept hh) 0 then "hdr_nothing_valid"
            else if Nat.ltb (count_kept hh) (num_tokens hh) then "hdr_some_dropped"
            else "hdr_all_kept")]
  | Some (CInj ps ctx) => [tag (if is_nil ps then "inj_empty_composite"
                               else if is_nil (p_inject (composite (map prop_of_name ps)) ctx []) then "inj_nothing" else "inj_some")]
  | Some (CExt ps ctx car) => [tag (if is_nil ps then "ext_empty_composite"
                                   else if same_ctx ctx (p_extract (composite (map prop_of_name ps)) car ctx) then "ext_same" else "ext_changed")]
  | Some CPur => [tag "purity_probe"]
  | None => bad_case
  end.

Definition run_spec (l obs : list tok) : list tok :=
  match parse_case l with
  | Some (COps init ops) =>
      match parse_ops_obs obs with
      | Some o => spec_ops_ok (match init with Some h => sp_from_header h | None => [] end) ops o
      | None => fail "obs:unparsable"
      end
  | Some (CHdr h init) =>
      match parse_hdr_obs obs with
      | Some o => spec_hdr_ok (match h with Some x => x | None => [] end) (option_map sp_from_header init) o
      | None => fail "obs:unparsable"
      end
  | Some (CInj _ _) =>
      match split_toks "|" obs with
      | [a; b] => match parse_entries a, parse_entries b with
                  | Some x, Some y => spec_comp_inject_ok x y
                  | _, _ => fail "obs:unparsable"
                  end
      | _ => fail "obs:unparsable"
      end
  | Some (CExt _ _ _) =>
      match split_toks "|" obs with
      | [a; b] => match parse_ctx_obs a, parse_ctx_obs b with
                  | Some x, Some y => spec_comp_extract_ok x y
                  | _, _ => fail "obs:unparsable"
                  end
      | _ => fail "obs:unparsable"
      end
  | Some CPur => spec_purity_ok obs
  | None => bad_case
  end.
