(* SPEC for C15, sentence by sentence of the property statement, written over the abstract
   view of a baggage (an ordered list of (key, value) entries) and independently of the
   code's mechanics (no capacity-bounded arrays, no tokenizer state, no err flag, no first
   flag).  bool / list tok valued so that it runs on the implementation's observations. *)
From V Require Export C15.Model.

(* ---- characters *)
Definition sp_token_chars : bytes := bs "ABCDEFGHIJKLMNOPQRSTUVWXYZabcdefghijklmnopqrstuvwxyz0123456789-_.~".
Definition sp_hex_upper : bytes := bs "0123456789ABCDEF".
Definition sp_hex_lower : bytes := bs "0123456789abcdef".
Definition sp_is_token (c : byte) : bool := existsb (Byte.eqb c) sp_token_chars.
Definition sp_hexval (c : byte) : option nat :=
  match index_of c sp_hex_upper with Some i => Some i | None => index_of c sp_hex_lower end.
Definition sp_printable (s : bytes) : bool := forallb (fun c => (32 <=? b2n c)%N && (b2n c <=? 126)%N) s.
Definition sp_valid_key (k : bytes) : bool := negb (is_nil k) && sp_printable k.
Definition sp_valid_value (v : bytes) : bool := sp_printable v.

(* ---- percent-encoding: token characters stand for themselves, space is '+', everything else
   is %XX with upper-case digits; decoding accepts either case and nothing else *)
Definition sp_encode_byte (c : byte) : bytes :=
  if sp_is_token c then [c]
  else if Byte.eqb c space then [plus]
  else [percent; nth (N.to_nat (b2n c / 16)) sp_hex_upper x00; nth (N.to_nat (b2n c mod 16)) sp_hex_upper x00].
Definition sp_encode (s : bytes) : bytes := flat_map sp_encode_byte s.

Fixpoint sp_decode (s : bytes) : option bytes :=
  match s with
  | [] => Some []
  | c :: r =>
      if Byte.eqb c percent then
        match r with
        | a :: b :: r' =>
            match sp_hexval a, sp_hexval b, sp_decode r' with
            | Some x, Some y, Some d => Some (n2b (N.of_nat (16 * x + y)) :: d)
            | _, _, _ => None
            end
        | _ => None
        end
      else if Byte.eqb c plus then option_map (cons space) (sp_decode r)
      else if sp_is_token c then option_map (cons c) (sp_decode r)
      else None
  end.

(* ---- the abstract baggage *)
Definition sp_set (k v : bytes) (l : list entry) : list entry :=
  if sp_valid_key k && sp_valid_value v then (k, v) :: remove_key k l else l.
Definition sp_delete (k : bytes) (l : list entry) : list entry := remove_key k l.

(* first occurrence of [c]: (before, from c on) ; and (before, after c) *)
Definition cut_keep (c : byte) (s : bytes) : bytes * bytes :=
  match index_of c s with Some i => (firstn i s, skipn i s) | None => (s, []) end.
Definition cut (c : byte) (s : bytes) : option (bytes * bytes) :=
  match index_of c s with Some i => Some (firstn i s, skipn (S i) s) | None => None end.

(* what is observable of a stored string: it is kept as a C string *)
Definition c_string (s : bytes) : bytes := cstr s.

(* ---- header -> entries.  One list member  OWS key OWS "=" OWS value OWS [";" metadata] OWS :
   kept iff key and value (without '=') are within the member size limit, both percent-decode,
   the decoded key is non-empty printable and the decoded value printable; the metadata
   (from the first ';' of the raw value on) is appended to the decoded value verbatim. *)
Definition sp_member (seg : bytes) : option entry :=
  match cut equals (trim seg) with
  | None => None
  | Some (rk, rv) =>
      if Nat.ltb kMaxKeyValueSize (length rk + length rv) then None
      else
        let (rval, meta) := cut_keep semicolon rv in
        match sp_decode (trim rk), sp_decode (trim rval) with
        | Some k, Some v =>
            if sp_valid_key k && sp_valid_value v then Some (k, c_string (v ++ meta)) else None
        | _, _ => None
        end
  end.

Fixpoint filter_map {A B} (f : A -> option B) (l : list A) : list B :=
  match l with
  | [] => []
  | a :: l' => match f a with Some b => b :: filter_map f l' | None => filter_map f l' end
  end.

Definition sp_from_header (h : bytes) : list entry :=
  if Nat.ltb kMaxSizeBaggage (length h) then []
  else firstn kMaxKeyValuePairsBaggage (filter_map sp_member (split_on comma h)).

(* ---- entries -> header *)
Definition sp_member_str (e : entry) : bytes :=
  let (v, meta) := cut_keep semicolon (snd e) in
  sp_encode (fst e) ++ [equals] ++ sp_encode v ++ meta.
Fixpoint intercalate (sep : byte) (l : list bytes) : bytes :=
  match l with
  | [] => []
  | [m] => m
  | m :: l' => m ++ [sep] ++ intercalate sep l'
  end.
Definition sp_to_header (l : list entry) : bytes := intercalate comma (map sp_member_str l).

(* ---- the exact hypotheses of the header round trip (stated, not hidden) *)
Definition last_byte (s : bytes) : byte := last s x00.
Definition rt_entry_ok (e : entry) : bool :=
  sp_valid_key (fst e) && sp_valid_value (snd e) &&
  (let (v, meta) := cut_keep semicolon (snd e) in
   negb (existsb (Byte.eqb comma) meta) &&                 (* no unescaped member separator after ';' *)
   (is_nil meta || negb (isspace (last_byte meta))) &&      (* trailing OWS belongs to the separator *)
   Nat.leb (length (sp_encode (fst e)) + length (sp_encode v ++ meta)) kMaxKeyValueSize).
Definition rt_ok (l : list entry) : bool :=
  forallb rt_entry_ok l && Nat.leb (length l) kMaxKeyValuePairsBaggage &&
  Nat.leb (length (sp_to_header l)) kMaxSizeBaggage.

(* ---- equality of observations *)
Definition entry_eqb (a b : entry) : bool := bytes_eqb (fst a) (fst b) && bytes_eqb (snd a) (snd b).
Fixpoint entries_eqb (a b : list entry) : bool :=
  match a, b with
  | [], [] => true
  | x :: a', y :: b' => entry_eqb x y && entries_eqb a' b'
  | _, _ => false
  end.
Definition opt_entries_eqb (a b : option (list entry)) : bool :=
  match a, b with
  | None, None => true
  | Some x, Some y => entries_eqb x y
  | _, _ => false
  end.

(* an entry whose key and value (the part in front of any metadata) are valid *)
Definition entry_valid (e : entry) : bool :=
  sp_valid_key (fst e) && sp_valid_value (fst (cut_keep semicolon (snd e))).

(* ------------------------------------------------------------------------------------------
   Observation of FromHeader / BaggagePropagator::Extract on header [h] in a context that holds
   baggage [init] (None: holds none) *)
Record hdr_obs := mk_hdr_obs {
  ho_direct : list entry;            (* Baggage::FromHeader(h)->GetAllEntries *)
  ho_same : bool;                    (* Extract returned the caller's context object *)
  ho_bag : option (list entry)       (* entries of the baggage in the returned context *)
}.

Definition spec_from_header_ok (h : bytes) (got : list entry) : list tok :=
  check (forallb entry_valid got) "from_header_keeps_only_valid:invalid_kept" ++
  check (Nat.leb (length got) kMaxKeyValuePairsBaggage) "limits_honoured:count" ++
  check (Nat.leb (length h) kMaxSizeBaggage || is_nil got) "limits_honoured:header_size" ++
  check (forallb (fun e => Nat.leb (length (fst e) + length (snd e)) kMaxKeyValueSize) got) "limits_honoured:member_size" ++
  check (entries_eqb got (sp_from_header h))
        (if Nat.ltb (length got) (length (sp_from_header h)) then "from_header_keeps_only_valid:valid_dropped"
         else "from_header:differs_from_spec").

Definition spec_hdr_ok (h : bytes) (init : option (list entry)) (o : hdr_obs) : list tok :=
  spec_from_header_ok h (ho_direct o) ++
  (if is_nil (sp_from_header h)
   then check (ho_same o && opt_entries_eqb (ho_bag o) init) "nothing_valid_leaves_context:context_changed"
   else check (negb (ho_same o) && opt_entries_eqb (ho_bag o) (Some (sp_from_header h))) "extract:baggage_not_installed").

(* ------------------------------------------------------------------------------------------
   Observation of an operation sequence on a store of Baggage objects *)
Record ops_obs := mk_ops_obs {
  oo_objs : list (list entry);       (* entries of each object read right after its creation *)
  oo_final : list (list entry);      (* entries of every object re-read after the last operation *)
  oo_pure : bool;                    (* after every operation all earlier objects still read the same *)
  oo_header : bytes;                 (* what the propagator injected for the last object ("" = nothing) *)
  oo_rt : option (list entry)        (* baggage extracted from that carrier; None = context untouched *)
}.

Fixpoint all_eqb (a b : list (list entry)) : bool :=
  match a, b with
  | [], [] => true
  | x :: a', y :: b' => entries_eqb x y && all_eqb a' b'
  | _, _ => false
  end.

Definition has_key_b (k : bytes) (l : list entry) : bool := existsb (fun e => bytes_eqb (fst e) k) l.

(* object n+1 was created by [o] from the objects observed so far *)
Definition spec_op_ok (objs : list (list entry)) (n : nat) (o : bop) : list tok :=
  let prev := firstn (S n) objs in
  let src i := nth (Nat.modulo i (length prev)) prev [] in
  let got := nth (S n) objs [] in
  match o with
  | OSet i k v =>
      check (entries_eqb got (sp_set k v (src i)))
            (if negb (sp_valid_key k && sp_valid_value v) then "set_replaces:invalid_kv_must_copy"
             else if has_key_b k (src i) then "set_replaces:existing_key" else "set_replaces:new_key")
  | ODel i k =>
      check (entries_eqb got (sp_delete k (src i)))
            (if has_key_b k (src i) then "delete_removes:present" else "delete_removes:absent")
  | OFrom h => spec_from_header_ok h got
  end.

Fixpoint spec_ops_from (objs : list (list entry)) (n : nat) (ops : list bop) : list tok :=
  match ops with
  | [] => []
  | o :: ops' => spec_op_ok objs n o ++ spec_ops_from objs (S n) ops'
  end.

(* only token characters, '+', '%XX' in front of the metadata of every member *)
Definition header_chars_ok (l : list entry) (h : bytes) : bool :=
  if forallb (fun e => negb (existsb (Byte.eqb semicolon) (snd e))) l
  then forallb (fun c => sp_is_token c || Byte.eqb c plus || Byte.eqb c percent || Byte.eqb c equals || Byte.eqb c comma) h
  else true.

Definition spec_ops_ok (init : list entry) (ops : list bop) (o : ops_obs) : list tok :=
  check (Nat.eqb (length (oo_objs o)) (S (length ops))) "obs:object_count" ++
  check (entries_eqb (hd [] (oo_objs o)) init) "obs:initial_object" ++
  spec_ops_from (oo_objs o) 0 ops ++
  check (oo_pure o && all_eqb (oo_final o) (oo_objs o)) "set_delete_pure:earlier_object_changed" ++
  (let l := last (oo_objs o) [] in
   check (header_chars_ok l (oo_header o)) "inject_encodes:char_outside_token_set" ++
   check (Bool.eqb (is_nil (oo_header o)) (is_nil l)) "inject:header_presence" ++
   (if rt_ok l
    then check (opt_entries_eqb (oo_rt o) (if is_nil l then None else Some l)) "baggage_roundtrip:entries_differ"
    else []) ++
   (* whatever was written, extraction of it obeys the extraction clauses *)
   check (opt_entries_eqb (oo_rt o) (if is_nil (sp_from_header (oo_header o)) then None else Some (sp_from_header (oo_header o))))
         "extract:differs_from_spec_on_injected_header").

(* ------------------------------------------------------------------------------------------
   Composite propagators.  An observation of a context: did the call return the caller's context
   object, the span context in it (None: no span), the baggage in it (None: no baggage). *)
Record span_obs := mk_span_obs { so_tid : bytes; so_sid : bytes; so_flags : byte; so_remote : bool; so_ts : bytes }.
Record ctx_obs := mk_ctx_obs { co_same : bool; co_span : option span_obs; co_bag : option (list entry) }.

Definition span_obs_eqb (a b : span_obs) : bool :=
  bytes_eqb (so_tid a) (so_tid b) && bytes_eqb (so_sid a) (so_sid b) && Byte.eqb (so_flags a) (so_flags b) &&
  Bool.eqb (so_remote a) (so_remote b) && bytes_eqb (so_ts a) (so_ts b).
Definition ctx_obs_eqb (a b : ctx_obs) : bool :=
  Bool.eqb (co_same a) (co_same b) &&
  match co_span a, co_span b with
  | None, None => true
  | Some x, Some y => span_obs_eqb x y
  | _, _ => false
  end && opt_entries_eqb (co_bag a) (co_bag b).

(* The composite's result against the result of applying the configured parts one after the
   other by hand (fresh propagator objects, the context threaded / the one carrier shared) *)
Definition spec_comp_inject_ok (composite_carrier parts_carrier : list entry) : list tok :=
  check (entries_eqb composite_carrier parts_carrier) "composite_inject_all:differs_from_parts_in_order".
Definition spec_comp_extract_ok (composite_ctx threaded_ctx : ctx_obs) : list tok :=
  check (ctx_obs_eqb composite_ctx threaded_ctx) "composite_extract_threads_in_order:differs_from_manual_fold".

(* ------------------------------------------------------------------------------------------
   Purity probe (harness/c15_purity.cc, ThreadSanitizer build).  The model's operations are functions of
   immutable values, so whatever several threads compute from shared objects is what one thread computes:
   the only observation the model predicts is PURE.  This is a run-time probe of that modelling
   assumption on the real code, not a theorem; the probe's other observations name the failed clause. *)
Definition spec_purity_ok (obs : list tok) : list tok :=
  match obs with
  | [t] => if is_tag "PURE" t then [] else fail "obs:unparsable"
  | t :: _ => if is_tag "RACE" t then fail "purity:data_race"
              else if is_tag "DIFFERS" t then fail "purity:result_differs"
              else if is_tag "HARNESSRACE" t then fail "harness:probe_race"
              else if is_tag "HANG" t then fail "purity:hang"
              else if is_tag "CRASH" t then fail "purity:crash"
              else fail "obs:unparsable"
  | [] => fail "obs:unparsable"
  end.
