(* C15 proofs, part 5: CompositePropagator = the parts applied in order (for every list of
   propagators, modelled or not), and for the built-in parts: every part's headers are in the carrier. *)
From V Require Import C15.Glue C15.ProofsBase.
From Coq Require Import Lia ZifyBool ZifyNat ZifyN.

(* ---- generic: any list of propagators (a propagator is any pair of functions) *)
Theorem comp_inject_fold ps ctx car :
  comp_inject ps ctx car = fold_left (fun c p => p_inject p ctx c) ps car.
Proof. revert car. induction ps as [|p ps IH]; intros car; [reflexivity|]. cbn. apply IH. Qed.

(* with no part at all the loop is not entered and the caller's context comes back *)
Lemma comp_extract_loop_fold ps car first ctx tmp :
  ps <> [] \/ first = false ->
  comp_extract_loop ps car first ctx tmp =
  fold_left (fun c p => p_extract p car c) ps (if first then ctx else tmp).
Proof.
  revert first tmp. induction ps as [|p ps IH]; intros first tmp H.
  - destruct H as [H|H]; [congruence|]. subst first. reflexivity.
  - cbn [comp_extract_loop fold_left]. rewrite IH by (right; reflexivity).
    destruct first; reflexivity.
Qed.

Theorem comp_extract_fold ps car ctx :
  comp_extract ps car ctx = fold_left (fun c p => p_extract p car c) ps ctx.
Proof.
  unfold comp_extract. destruct ps as [|p ps]; [reflexivity|]. cbn [is_nil].
  rewrite comp_extract_loop_fold by (left; discriminate). reflexivity.
Qed.

(* every configured part is applied, at its place *)
Theorem comp_inject_each ps1 p ps2 ctx car :
  comp_inject (ps1 ++ p :: ps2) ctx car = comp_inject ps2 ctx (p_inject p ctx (comp_inject ps1 ctx car)).
Proof. rewrite !comp_inject_fold, fold_left_app. reflexivity. Qed.

Theorem comp_extract_each ps1 p ps2 car ctx :
  comp_extract (ps1 ++ p :: ps2) car ctx = comp_extract ps2 car (p_extract p car (comp_extract ps1 car ctx)).
Proof. rewrite !comp_extract_fold, fold_left_app. reflexivity. Qed.

Example composite_nonvacuous :
  let ctx := [CxBag (bg_set (bs "k") (bs "v 1") (kv_new 0));
              CxSpan (mk_ctx (repeat x01 16) (repeat x02 8) x01 false [])] in
  comp_inject [w3c_prop; baggage_prop; jaeger_prop] ctx [] =
    [(bs "baggage", bs "k=v+1");
     (bs "traceparent", bs "00-01010101010101010101010101010101-0202020202020202-01");
     (bs "uber-trace-id", bs "01010101010101010101010101010101:0202020202020202:0:01")] /\
  cx_bag (comp_extract [w3c_prop; baggage_prop] (comp_inject [w3c_prop; baggage_prop] ctx []) []) = cx_bag ctx /\
  option_map c_tid (cx_span (comp_extract [w3c_prop; baggage_prop] (comp_inject [w3c_prop; baggage_prop] ctx []) [])) = Some (repeat x01 16).
Proof. vm_compute. repeat split; reflexivity. Qed.

(* ---- carriers *)
Lemma car_get_set_same k v c : car_get k (car_set k v c) = v.
Proof.
  unfold car_get. induction c as [|[k' v'] c IH]; cbn [car_set lookup].
  - rewrite bytes_eqb_refl. reflexivity.
  - destruct (bytes_eqb k' k) eqn:E; [cbn [lookup]; rewrite bytes_eqb_refl; reflexivity|].
    destruct (bytes_ltb k k'); cbn [lookup]; [rewrite bytes_eqb_refl; reflexivity|].
    rewrite E. exact IH.
Qed.

Lemma car_get_set_other k k' v c : bytes_eqb k' k = false -> car_get k (car_set k' v c) = car_get k c.
Proof.
  intros Hne. unfold car_get. induction c as [|[k2 v2] c IH]; cbn [car_set lookup].
  - rewrite Hne. reflexivity.
  - destruct (bytes_eqb k2 k') eqn:E.
    + cbn [lookup]. apply bytes_eqb_eq in E; subst k2. rewrite Hne. reflexivity.
    + destruct (bytes_ltb k' k2); cbn [lookup]; [rewrite Hne; reflexivity|].
      destruct (bytes_eqb k2 k); [reflexivity | exact IH].
Qed.

(* the built-in parts write a list of (key, value) pairs that depends on the context only *)
Definition set_all (ws : list (bytes * bytes)) (car : carrier) : carrier :=
  fold_left (fun c w => car_set (fst w) (snd w) c) ws car.

Definition writes_of (n : pname) (ctx : context) : list (bytes * bytes) :=
  match n with
  | PW3C => match cx_span ctx with
            | Some c => match inject c with
                        | Some (tp, ts) => (h_traceparent, tp) :: match ts with Some h => [(h_tracestate, h)] | None => [] end
                        | None => []
                        end
            | None => []
            end
  | PBag => let h := bg_to_header (bag_of_ctx ctx) in if is_nil h then [] else [(h_baggage, h)]
  | PB3 => match cx_valid_span ctx with
           | Some c => [(h_b3, to_lower_hex (c_tid c) ++ [dash] ++ to_lower_hex (c_sid c) ++ [dash; sampled_digit c])]
           | None => []
           end
  | PB3M => match cx_valid_span ctx with
            | Some c => [(h_b3_trace, to_lower_hex (c_tid c)); (h_b3_span, to_lower_hex (c_sid c)); (h_b3_sampled, [sampled_digit c])]
            | None => []
            end
  | PJaeger => match cx_valid_span ctx with
               | Some c => [(h_jaeger, to_lower_hex (c_tid c) ++ [colon] ++ to_lower_hex (c_sid c) ++
                                       [colon; x30; colon; x30; sampled_digit c])]
               | None => []
               end
  end.

Lemma inject_writes n ctx car : p_inject (prop_of_name n) ctx car = set_all (writes_of n ctx) car.
Proof.
  destruct n; cbn [prop_of_name p_inject w3c_prop baggage_prop b3_prop b3m_prop jaeger_prop writes_of].
  - unfold w3c_inject. destruct (cx_span ctx) as [c|]; [|reflexivity].
    destruct (inject c) as [[tp [h|]]|]; reflexivity.
  - unfold baggage_inject. destruct (is_nil (bg_to_header (bag_of_ctx ctx))); reflexivity.
  - unfold b3_inject. destruct (cx_valid_span ctx); reflexivity.
  - unfold b3m_inject. destruct (cx_valid_span ctx); reflexivity.
  - unfold jaeger_inject. destruct (cx_valid_span ctx); reflexivity.
Qed.

Lemma set_all_app a b car : set_all (a ++ b) car = set_all b (set_all a car).
Proof. unfold set_all. apply fold_left_app. Qed.

Lemma comp_inject_writes ns ctx car :
  comp_inject (map prop_of_name ns) ctx car = set_all (flat_map (fun n => writes_of n ctx) ns) car.
Proof.
  revert car. induction ns as [|n ns IH]; intros car; [reflexivity|].
  cbn [map comp_inject flat_map]. rewrite set_all_app, IH, inject_writes. reflexivity.
Qed.

(* the value finally stored under k: the last write to k, else what was there *)
Fixpoint last_write (k : bytes) (ws : list (bytes * bytes)) : option bytes :=
  match ws with
  | [] => None
  | (k', v) :: ws' => match last_write k ws' with
                      | Some v' => Some v'
                      | None => if bytes_eqb k' k then Some v else None
                      end
  end.

Lemma car_get_set_all k ws car :
  car_get k (set_all ws car) = match last_write k ws with Some v => v | None => car_get k car end.
Proof.
  revert car. induction ws as [|[k' v] ws IH]; intros car; [reflexivity|].
  unfold set_all in *. cbn [fold_left fst snd last_write]. rewrite IH.
  destruct (last_write k ws); [reflexivity|].
  destruct (bytes_eqb k' k) eqn:E.
  - apply bytes_eqb_eq in E; subst. apply car_get_set_same.
  - apply car_get_set_other. exact E.
Qed.

Lemma last_write_app k a b :
  last_write k (a ++ b) = match last_write k b with Some v => Some v | None => last_write k a end.
Proof.
  induction a as [|[k' v] a IH]; cbn [app last_write]; [destruct (last_write k b); reflexivity|].
  rewrite IH. destruct (last_write k b); reflexivity.
Qed.

(* the key sets of the five built-in propagators are pairwise disjoint *)
Definition keys_of (n : pname) : list bytes :=
  match n with
  | PW3C => [h_traceparent; h_tracestate]
  | PBag => [h_baggage]
  | PB3 => [h_b3]
  | PB3M => [h_b3_trace; h_b3_span; h_b3_sampled]
  | PJaeger => [h_jaeger]
  end.

Lemma last_write_key k ws v : last_write k ws = Some v -> existsb (fun w => bytes_eqb (fst w) k) ws = true.
Proof.
  revert v. induction ws as [|[k' v'] ws IH]; intros v; [discriminate|]. cbn [last_write existsb fst].
  destruct (last_write k ws) as [v2|]; [intros _; rewrite (IH v2 eq_refl); apply orb_true_r|].
  destruct (bytes_eqb k' k); [reflexivity | discriminate].
Qed.

Lemma writes_keys n ctx k v :
  last_write k (writes_of n ctx) = Some v -> existsb (fun k' => bytes_eqb k' k) (keys_of n) = true.
Proof.
  intros H. apply last_write_key in H.
  destruct n; cbn [writes_of keys_of] in *.
  - destruct (cx_span ctx) as [c|]; [|discriminate]. destruct (inject c) as [[tp [h|]]|]; cbn in *; try discriminate.
    + exact H.
    + rewrite orb_false_r in H. rewrite H. reflexivity.
  - destruct (is_nil (bg_to_header (bag_of_ctx ctx))); [discriminate | exact H].
  - destruct (cx_valid_span ctx); [exact H | discriminate].
  - destruct (cx_valid_span ctx); [exact H | discriminate].
  - destruct (cx_valid_span ctx); [exact H | discriminate].
Qed.

Definition pname_eqb (a b : pname) : bool :=
  match a, b with
  | PW3C, PW3C | PBag, PBag | PB3, PB3 | PB3M, PB3M | PJaeger, PJaeger => true
  | _, _ => false
  end.

Lemma keys_disjoint n n' k :
  existsb (fun k' => bytes_eqb k' k) (keys_of n) = true ->
  existsb (fun k' => bytes_eqb k' k) (keys_of n') = true -> n = n'.
Proof.
  intros H H'.
  assert (G : forall a (b : pname), existsb (fun k' => bytes_eqb k' k) (keys_of a) = true -> In k (keys_of a)).
  { intros a _ Ha. apply existsb_exists in Ha. destruct Ha as [x [Hin Hx]]. apply bytes_eqb_eq in Hx. subst. exact Hin. }
  apply (G n n) in H. apply (G n' n') in H'. clear G.
  destruct n, n'; try reflexivity; cbn in H, H';
    repeat (destruct H as [H|H]; [subst k|]); try contradiction;
    repeat (destruct H' as [H'|H']; [try discriminate H'|]); try contradiction.
Qed.

Lemma last_write_flat ns ctx k v :
  last_write k (flat_map (fun n => writes_of n ctx) ns) = Some v ->
  exists m, In m ns /\ last_write k (writes_of m ctx) = Some v.
Proof.
  induction ns as [|a ns IH]; [discriminate|]. cbn [flat_map]. rewrite last_write_app.
  destruct (last_write k (flat_map (fun n => writes_of n ctx) ns)) as [v2|] eqn:E; intros H.
  - inversion H; subst v2. destruct (IH eq_refl) as [m [Hin Hm]]. exists m. split; [right; exact Hin | exact Hm].
  - exists a. split; [left; reflexivity | exact H].
Qed.

Lemma last_write_flat_some ns ctx k n v :
  In n ns -> last_write k (writes_of n ctx) = Some v ->
  exists v2, last_write k (flat_map (fun n => writes_of n ctx) ns) = Some v2.
Proof.
  induction ns as [|a ns IH]; [intros []|]. intros Hin Hw. cbn [flat_map]. rewrite last_write_app.
  destruct (last_write k (flat_map (fun n0 => writes_of n0 ctx) ns)) as [v2|] eqn:E; [exists v2; reflexivity|].
  destruct Hin as [->|Hin]; [exists v; exact Hw|].
  destruct (IH Hin Hw) as [v2 H2]. congruence.
Qed.

(* A composite of built-in propagators injects with every configured part: whatever a configured
   part writes on its own is what the carrier holds under that key afterwards (a later part that
   writes the same key is the same kind of propagator and writes the same value). *)
Theorem composite_inject_all_builtin ns ctx car n k v :
  In n ns -> last_write k (writes_of n ctx) = Some v ->
  car_get k (comp_inject (map prop_of_name ns) ctx car) = v.
Proof.
  intros Hin Hw. rewrite comp_inject_writes, car_get_set_all.
  destruct (last_write_flat_some ns ctx k n v Hin Hw) as [v2 H2]. rewrite H2.
  destruct (last_write_flat ns ctx k v2 H2) as [m [_ Hm]].
  assert (m = n) as -> by (eapply keys_disjoint; eapply writes_keys; eassumption).
  congruence.
Qed.

Example composite_inject_all_nonvacuous :
  let ctx := [CxSpan (mk_ctx (repeat x01 16) (repeat x02 8) x01 false [])] in
  In PB3 [PJaeger; PB3; PW3C] /\
  last_write h_b3 (writes_of PB3 ctx) = Some (bs "01010101010101010101010101010101-0202020202020202-1").
Proof. split; [right; left; reflexivity | vm_compute; reflexivity]. Qed.
