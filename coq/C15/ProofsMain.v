(* C15 proofs, part 7: the property theorems in the form quoted by Properties_C15.v. *)
From V Require Import C15.Glue C15.ProofsBase C15.ProofsOps C15.ProofsHeader C15.ProofsRoundtrip
                      C15.ProofsComposite C15.ProofsSpec.
From Coq Require Import Lia ZifyBool ZifyNat ZifyN.

(* what the round trip needs beyond "built through Set" (which gives valid keys and values) *)
Definition rt_extra (e : entry) : bool :=
  let (v, meta) := cut_keep semicolon (snd e) in
  negb (existsb (Byte.eqb comma) meta) &&
  (is_nil meta || negb (isspace (last_byte meta))) &&
  Nat.leb (length (sp_encode (fst e)) + length (sp_encode v ++ meta)) kMaxKeyValueSize.

Lemma rt_entry_ok_split e : rt_entry_ok e = kv_valid e && rt_extra e.
Proof. unfold rt_entry_ok, kv_valid, rt_extra. destruct (cut_keep semicolon (snd e)). reflexivity. Qed.

Lemma rt_entry_ok_all l :
  forallb kv_valid l = true -> forallb rt_extra l = true -> forallb rt_entry_ok l = true.
Proof.
  induction l as [|a l IH]; [reflexivity|]. cbn [forallb]. intros Hp Hq.
  apply andb_true_iff in Hp; destruct Hp as [Hpa Hpl]. apply andb_true_iff in Hq; destruct Hq as [Hqa Hql].
  rewrite rt_entry_ok_split, Hpa, Hqa, IH; auto.
Qed.

Theorem baggage_roundtrip_built b :
  built_by_set b ->
  forallb rt_extra (bg_entries b) = true ->
  length (bg_entries b) <= kMaxKeyValuePairsBaggage ->
  length (bg_to_header b) <= kMaxSizeBaggage ->
  bg_entries (bg_from_header (bg_to_header b)) = bg_entries b.
Proof.
  intros Hb Hex Hcnt Hlen. apply model_roundtrip.
  destruct (built_by_set_invariant b Hb) as [_ [Hval _]].
  unfold rt_ok. rewrite <- bg_to_header_spec.
  apply Nat.leb_le in Hcnt, Hlen. rewrite Hcnt, Hlen, !andb_true_r.
  apply rt_entry_ok_all; assumption.
Qed.

Theorem from_header_keeps_only_valid_model h :
  (forall e, In e (bg_entries (bg_from_header h)) ->
     entry_valid e = true /\ exists seg, In seg (split_on comma h) /\ sp_member seg = Some e) /\
  (length h <= kMaxSizeBaggage ->
   length (filter_map sp_member (split_on comma h)) <= kMaxKeyValuePairsBaggage ->
   forall seg e, In seg (split_on comma h) -> sp_member seg = Some e -> In e (bg_entries (bg_from_header h))) /\
  (length h <= kMaxSizeBaggage ->
   exists rest, filter_map sp_member (split_on comma h) = bg_entries (bg_from_header h) ++ rest).
Proof.
  rewrite bg_from_header_entries. split; [|split].
  - intros e. apply sp_from_header_sound.
  - intros H1 H2 seg e. apply sp_from_header_complete; assumption.
  - apply sp_from_header_prefix.
Qed.

Theorem limits_honoured_model h :
  length (bg_entries (bg_from_header h)) <= kMaxKeyValuePairsBaggage /\
  (kMaxSizeBaggage < length h -> bg_entries (bg_from_header h) = []) /\
  (forall e, In e (bg_entries (bg_from_header h)) -> length (fst e) + length (snd e) <= kMaxKeyValueSize) /\
  (forall e, In e (bg_entries (bg_from_header h)) ->
     exists rk rv, (exists seg, In seg (split_on comma h) /\ cut equals (trim seg) = Some (rk, rv)) /\
                   length rk + length rv <= kMaxKeyValueSize).
Proof. rewrite bg_from_header_entries. apply sp_from_header_limits. Qed.

Theorem nothing_valid_leaves_context_model car ctx :
  (bg_entries (bg_from_header (car_get h_baggage car)) = [] -> baggage_extract car ctx = ctx) /\
  (bg_entries (bg_from_header (car_get h_baggage car)) <> [] ->
     baggage_extract car ctx = CxBag (bg_from_header (car_get h_baggage car)) :: ctx).
Proof.
  rewrite baggage_extract_spec, bg_from_header_entries.
  destruct (sp_from_header (car_get h_baggage car)); split; intros H; try reflexivity; congruence.
Qed.

Example nothing_valid_nonvacuous :
  bg_entries (bg_from_header (car_get h_baggage [(h_baggage, bs "k=%zz, =v,novalue,,;m")])) = [] /\
  bg_entries (bg_from_header (car_get h_baggage [(h_baggage, bs "k=%7a")])) <> [].
Proof. split; vm_compute; [reflexivity | discriminate]. Qed.

Example limits_nonvacuous :
  kMaxKeyValuePairsBaggage = 180 /\ kMaxKeyValueSize = N.to_nat 4096%N /\ kMaxSizeBaggage = N.to_nat 8192%N.
Proof. repeat split; reflexivity. Qed.
