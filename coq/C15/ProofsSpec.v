(* C15 proofs, part 6: the model's observations pass every SPEC checker (model_meets_spec),
   for every header, every operation sequence on the object store, every composite. *)
From V Require Import C15.Glue C15.ProofsBase C15.ProofsOps C15.ProofsHeader C15.ProofsRoundtrip C15.ProofsComposite.
From Coq Require Import Lia ZifyBool ZifyNat ZifyN.

(* ---- reflexivity of the observation equalities *)
Lemma entries_eqb_refl l : entries_eqb l l = true.
Proof.
  induction l as [|e l IH]; [reflexivity|]. cbn. unfold entry_eqb. rewrite !bytes_eqb_refl, IH. reflexivity.
Qed.
Lemma all_eqb_refl l : all_eqb l l = true.
Proof. induction l as [|e l IH]; [reflexivity|]. cbn. rewrite entries_eqb_refl, IH. reflexivity. Qed.
Lemma opt_entries_eqb_refl o : opt_entries_eqb o o = true.
Proof. destruct o; [apply entries_eqb_refl | reflexivity]. Qed.
Lemma bool_eqb_refl b : Bool.eqb b b = true.
Proof. destruct b; reflexivity. Qed.
Lemma ctx_obs_eqb_refl o : ctx_obs_eqb o o = true.
Proof.
  unfold ctx_obs_eqb. rewrite bool_eqb_refl, opt_entries_eqb_refl.
  destruct (co_span o) as [s|]; [|reflexivity].
  unfold span_obs_eqb. rewrite !bytes_eqb_refl, beqb_refl, bool_eqb_refl. reflexivity.
Qed.

Lemma check_true s : check true s = [].
Proof. reflexivity. Qed.

(* ---- extraction clauses on what the model extracts *)
Lemma spec_from_header_ok_model h : spec_from_header_ok h (sp_from_header h) = [].
Proof.
  unfold spec_from_header_ok.
  destruct (sp_from_header_limits h) as [Hcnt [Hlong [Hsz _]]].
  assert (H1 : forallb entry_valid (sp_from_header h) = true).
  { apply forallb_forall. intros e Hin. apply sp_from_header_sound in Hin. tauto. }
  assert (H2 : Nat.leb (length (sp_from_header h)) kMaxKeyValuePairsBaggage = true) by (apply Nat.leb_le; exact Hcnt).
  assert (H3 : Nat.leb (length h) kMaxSizeBaggage || is_nil (sp_from_header h) = true).
  { destruct (Nat.leb (length h) kMaxSizeBaggage) eqn:E; [reflexivity|]. apply Nat.leb_gt in E.
    rewrite (Hlong E). reflexivity. }
  assert (H4 : forallb (fun e => Nat.leb (length (fst e) + length (snd e)) kMaxKeyValueSize) (sp_from_header h) = true).
  { apply forallb_forall. intros e Hin. apply Nat.leb_le. apply Hsz. exact Hin. }
  rewrite H1, H2, H3, H4, entries_eqb_refl. reflexivity.
Qed.

Lemma to_header_nil_model b : is_nil (bg_to_header b) = is_nil (bg_entries b).
Proof. rewrite bg_to_header_spec. apply sp_to_header_nil. Qed.

Lemma car_get_single x : car_get h_baggage [(h_baggage, x)] = x.
Proof. reflexivity. Qed.

Definition hdr_bytes (h : option bytes) : bytes := match h with Some x => x | None => [] end.

Lemma baggage_extract_spec car ctx :
  baggage_extract car ctx =
  if is_nil (sp_from_header (car_get h_baggage car)) then ctx
  else CxBag (bg_from_header (car_get h_baggage car)) :: ctx.
Proof. unfold baggage_extract. rewrite to_header_nil_model, bg_from_header_entries. reflexivity. Qed.

Theorem model_meets_spec_hdr h init :
  spec_hdr_ok (hdr_bytes h) (option_map sp_from_header init) (model_hdr_obs h init) = [].
Proof.
  unfold spec_hdr_ok, model_hdr_obs. cbn [ho_direct ho_same ho_bag].
  set (car := match h with Some x => [(h_baggage, x)] | None => [] end).
  assert (Hc : car_get h_baggage car = hdr_bytes h) by (subst car; destruct h; reflexivity).
  rewrite Hc. fold (bg_entries (bg_from_header (hdr_bytes h))). rewrite bg_from_header_entries.
  rewrite spec_from_header_ok_model. cbn [app].
  rewrite baggage_extract_spec, Hc.
  assert (Hinit : bag_obs_of (mk_context None init) (mk_context None init) = option_map sp_from_header init).
  { unfold bag_obs_of, mk_context. destruct init as [h0|]; cbn; [|reflexivity].
    fold (bg_entries (bg_from_header h0)). rewrite bg_from_header_entries. reflexivity. }
  destruct (is_nil (sp_from_header (hdr_bytes h))) eqn:E.
  - unfold same_ctx. rewrite Nat.eqb_refl. cbn [andb]. rewrite Hinit, opt_entries_eqb_refl. reflexivity.
  - unfold same_ctx. cbn [length].
    assert (Nat.eqb (S (length (mk_context None init))) (length (mk_context None init)) = false) as Hne
      by (apply Nat.eqb_neq; lia).
    rewrite Hne. cbn [negb andb]. unfold bag_obs_of. cbn [cx_bag option_map].
    fold (bg_entries (bg_from_header (hdr_bytes h))). rewrite bg_from_header_entries, opt_entries_eqb_refl. reflexivity.
Qed.

(* ---- the object store *)
Lemma run_ops_extends ops st : exists tail, run_ops ops st = st ++ tail /\ length tail = length ops.
Proof.
  revert st. induction ops as [|o ops IH]; intros st.
  - exists []. cbn. rewrite app_nil_r. auto.
  - cbn [run_ops fold_left]. destruct (IH (step_op st o)) as [tail [H1 H2]]. unfold run_ops in H1. rewrite H1.
    unfold step_op. rewrite <- app_assoc. eexists; split; [reflexivity|]. cbn [app length]. lia.
Qed.

(* Set and Delete never change an object that already exists: the store only grows *)
Theorem store_append_only ops1 ops2 st :
  firstn (length (run_ops ops1 st)) (run_ops (ops1 ++ ops2) st) = run_ops ops1 st.
Proof.
  unfold run_ops at 2. rewrite fold_left_app. fold (run_ops ops1 st). fold (run_ops ops2 (run_ops ops1 st)).
  destruct (run_ops_extends ops2 (run_ops ops1 st)) as [tail [H _]]. rewrite H.
  rewrite firstn_app, Nat.sub_diag, firstn_all. cbn [firstn]. apply app_nil_r.
Qed.

Lemma nth_bag_wf st i : Forall bag_wf st -> bag_wf (nth_bag st i).
Proof.
  intros H. unfold nth_bag. destruct (nth_in_or_default (Nat.modulo i (length st)) st (kv_new 0)) as [Hin|Hd].
  - rewrite Forall_forall in H. apply H. exact Hin.
  - rewrite Hd. apply bag_wf_new.
Qed.

Lemma step_op_wf st o : Forall bag_wf st -> Forall bag_wf (step_op st o).
Proof.
  intros H. unfold step_op. apply Forall_app. split; [exact H|]. constructor; [|constructor].
  destruct o; [apply bg_set_wf | apply bg_delete_wf | apply bg_from_header_wf].
Qed.

Lemma run_ops_wf ops st : Forall bag_wf st -> Forall bag_wf (run_ops ops st).
Proof.
  revert st. induction ops as [|o ops IH]; intros st H; [exact H|].
  cbn [run_ops fold_left]. apply IH. apply step_op_wf. exact H.
Qed.

Lemma nth_map_entries (st : list bag) j : nth j (map kv_list st) [] = kv_list (nth j st (kv_new 0)).
Proof. change (@nil entry) with (kv_list (kv_new 0)). apply map_nth. Qed.

Lemma spec_ops_from_model ops st :
  Forall bag_wf st -> st <> [] ->
  spec_ops_from (map kv_list (run_ops ops st)) (length st - 1) ops = [].
Proof.
  revert st. induction ops as [|o ops IH]; intros st Hwf Hne; [reflexivity|].
  cbn [spec_ops_from run_ops fold_left]. fold (run_ops ops (step_op st o)).
  assert (Hlen : S (length st - 1) = length st) by (destruct st; [congruence | cbn; lia]).
  specialize (IH (step_op st o) (step_op_wf st o Hwf)).
  assert (Hl2 : length (step_op st o) - 1 = S (length st - 1)).
  { unfold step_op. rewrite app_length. cbn [length]. rewrite Nat.add_sub. symmetry. exact Hlen. }
  rewrite Hl2 in IH. rewrite IH by (unfold step_op; destruct st; discriminate). rewrite app_nil_r.
  (* the head operation *)
  destruct (run_ops_extends ops (step_op st o)) as [tail [Hext _]]. rewrite Hext.
  set (new := match o with
              | OSet i k v => bg_set k v (nth_bag st i)
              | ODel i k => bg_delete k (nth_bag st i)
              | OFrom h => bg_from_header h
              end).
  assert (Hobjs : map kv_list (step_op st o ++ tail) = map kv_list st ++ kv_list new :: map kv_list tail).
  { unfold step_op. fold new. rewrite <- app_assoc, map_app. reflexivity. }
  rewrite Hobjs. unfold spec_op_ok. rewrite Hlen.
  assert (Hprev : firstn (length st) (map kv_list st ++ kv_list new :: map kv_list tail) = map kv_list st).
  { rewrite <- (map_length kv_list st) at 1. rewrite firstn_app, Nat.sub_diag, firstn_all. cbn [firstn]. apply app_nil_r. }
  assert (Hgot : nth (length st) (map kv_list st ++ kv_list new :: map kv_list tail) [] = kv_list new).
  { rewrite app_nth2 by (rewrite map_length; apply le_n). rewrite map_length, Nat.sub_diag. reflexivity. }
  rewrite Hprev, Hgot, map_length.
  destruct o as [i k v|i k|h]; subst new.
  - rewrite nth_map_entries. fold (nth_bag st i).
    rewrite bg_set_entries by (apply nth_bag_wf; exact Hwf). rewrite entries_eqb_refl. reflexivity.
  - rewrite nth_map_entries. fold (nth_bag st i).
    rewrite bg_delete_entries by (apply nth_bag_wf; exact Hwf). rewrite entries_eqb_refl. reflexivity.
  - fold (bg_entries (bg_from_header h)). rewrite bg_from_header_entries. apply spec_from_header_ok_model.
Qed.

(* ---- characters of an injected header *)
Definition allowed (c : byte) : bool :=
  sp_is_token c || Byte.eqb c plus || Byte.eqb c percent || Byte.eqb c equals || Byte.eqb c comma.

Lemma enc_byte_allowed c : forallb allowed (url_encode_byte c) = true.
Proof. destruct c; vm_compute; reflexivity. Qed.

Lemma sp_encode_allowed s : forallb allowed (sp_encode s) = true.
Proof.
  rewrite sp_encode_eq. unfold url_encode. induction s as [|c s IH]; [reflexivity|].
  cbn [flat_map]. rewrite forallb_app, enc_byte_allowed, IH. reflexivity.
Qed.

Lemma intercalate_allowed ms :
  forallb (forallb allowed) ms = true -> forallb allowed (intercalate comma ms) = true.
Proof.
  induction ms as [|m ms IH]; [reflexivity|]. cbn [forallb]. intros H.
  apply andb_true_iff in H; destruct H as [Hm Hms].
  destruct ms as [|m' ms']; [exact Hm|].
  change (intercalate comma (m :: m' :: ms')) with (m ++ [comma] ++ intercalate comma (m' :: ms')).
  rewrite !forallb_app, Hm, (IH Hms). reflexivity.
Qed.

Lemma header_chars_ok_model l : header_chars_ok l (sp_to_header l) = true.
Proof.
  unfold header_chars_ok.
  destruct (forallb (fun e => negb (existsb (Byte.eqb semicolon) (snd e))) l) eqn:E; [|reflexivity].
  change (forallb (fun c => sp_is_token c || Byte.eqb c plus || Byte.eqb c percent || Byte.eqb c equals || Byte.eqb c comma))
    with (forallb allowed).
  unfold sp_to_header. apply intercalate_allowed.
  induction l as [|e l IH]; [reflexivity|]. cbn [forallb map] in *.
  apply andb_true_iff in E; destruct E as [He El]. rewrite (IH El), andb_true_r.
  apply negb_true_iff in He. destruct e as [ek ev]. unfold sp_member_str, cut_keep. cbn [fst snd] in *. rewrite index_of_find.
  apply find_idx_none in He. rewrite He.
  rewrite !forallb_app, !sp_encode_allowed. reflexivity.
Qed.

Lemma last_map_entries (st : list bag) : last (map kv_list st) [] = kv_list (last st (kv_new 0)).
Proof.
  induction st as [|b st IH]; [reflexivity|]. cbn [map]. destruct st as [|b' st']; [reflexivity|].
  cbn [map] in *. exact IH.
Qed.

Definition init_entries (init : option bytes) : list entry :=
  match init with Some h => sp_from_header h | None => [] end.

Lemma init_bag_entries init : kv_list (init_bag init) = init_entries init.
Proof.
  destruct init as [h|]; [|reflexivity]. cbn. fold (bg_entries (bg_from_header h)). apply bg_from_header_entries.
Qed.

Lemma init_bag_wf init : bag_wf (init_bag init).
Proof. destruct init; [apply bg_from_header_wf | apply bag_wf_new]. Qed.

Theorem model_meets_spec_ops init ops :
  spec_ops_ok (init_entries init) ops (model_ops_obs init ops) = [].
Proof.
  unfold spec_ops_ok, model_ops_obs. cbn [oo_objs oo_final oo_pure oo_header oo_rt].
  set (st := run_ops ops [init_bag init]).
  destruct (run_ops_extends ops [init_bag init]) as [tail [Hext Htl]]. fold st in Hext.
  (* object count, initial object *)
  assert (H1 : Nat.eqb (length (map kv_list st)) (S (length ops)) = true).
  { rewrite map_length, Hext. cbn [app length]. apply Nat.eqb_eq. f_equal. exact Htl. }
  assert (H2 : entries_eqb (hd [] (map kv_list st)) (init_entries init) = true).
  { rewrite Hext. cbn [app map hd]. rewrite init_bag_entries. apply entries_eqb_refl. }
  rewrite H1, H2, !check_true. cbn [app].
  (* every operation *)
  pose proof (spec_ops_from_model ops [init_bag init]) as H3. cbn [length Nat.sub] in H3. fold st in H3.
  rewrite H3 by (try (constructor; [apply init_bag_wf | constructor]); discriminate). cbn [app].
  rewrite all_eqb_refl. cbn [andb]. rewrite check_true. cbn [app].
  (* the last object through the propagator *)
  rewrite last_map_entries. set (b := last st (kv_new 0)). set (l := kv_list b).
  assert (Hhdr : car_get h_baggage (baggage_inject [CxBag b] []) = sp_to_header l).
  { unfold baggage_inject, bag_of_ctx. cbn [cx_bag]. rewrite bg_to_header_spec. change (bg_entries b) with l.
    destruct (sp_to_header l) eqn:E; [reflexivity|]. cbn [is_nil]. apply car_get_set_same. }
  rewrite Hhdr, header_chars_ok_model, sp_to_header_nil, bool_eqb_refl, !check_true. cbn [app].
  rewrite baggage_extract_spec, Hhdr.
  assert (Hrt : (if same_ctx [] (if is_nil (sp_from_header (sp_to_header l)) then []
                                 else [CxBag (bg_from_header (sp_to_header l))])
                 then None
                 else bag_obs_of [] (if is_nil (sp_from_header (sp_to_header l)) then []
                                     else [CxBag (bg_from_header (sp_to_header l))])) =
                if is_nil (sp_from_header (sp_to_header l)) then None else Some (sp_from_header (sp_to_header l))).
  { destruct (is_nil (sp_from_header (sp_to_header l))); [reflexivity|].
    cbn. fold (bg_entries (bg_from_header (sp_to_header l))). rewrite bg_from_header_entries. reflexivity. }
  rewrite Hrt, opt_entries_eqb_refl, check_true, app_nil_r.
  destruct (rt_ok l) eqn:Ert; [|reflexivity].
  rewrite (sp_roundtrip l Ert), opt_entries_eqb_refl. reflexivity.
Qed.

(* ---- composites *)
Theorem model_meets_spec_comp_inject ps ctx car :
  spec_comp_inject_ok (p_inject (composite ps) ctx car) (parts_inject ps ctx car) = [].
Proof.
  unfold spec_comp_inject_ok, parts_inject. cbn [composite p_inject].
  rewrite comp_inject_fold, entries_eqb_refl. reflexivity.
Qed.

Theorem model_meets_spec_comp_extract ps ctx car :
  spec_comp_extract_ok (obs_of_ctx ctx (p_extract (composite ps) car ctx)) (obs_of_ctx ctx (parts_extract ps car ctx)) = [].
Proof.
  unfold spec_comp_extract_ok, parts_extract. cbn [composite p_extract].
  rewrite comp_extract_fold, ctx_obs_eqb_refl. reflexivity.
Qed.

(* ---- purity probe lines: the model predicts PURE, which the clause accepts (the probe itself is a
   run-time check of the purity assumption on the C++, not a theorem) *)
Theorem model_meets_spec_purity l : parse_case l = Some CPur -> run_spec l (run_model l) = [].
Proof. intros H. unfold run_spec, run_model. rewrite H. reflexivity. Qed.

Example purity_case_parses : parse_case [tag "PURITY"; TZ 8; TZ 4; TZ 100; TZ 3] = Some CPur.
Proof. reflexivity. Qed.
Example purity_fires_race : run_spec [tag "PURITY"; TZ 8; TZ 4; TZ 100; TZ 3] [tag "RACE"; TB []] = fail "purity:data_race".
Proof. reflexivity. Qed.
Example purity_fires_differs : run_spec [tag "PURITY"; TZ 8; TZ 4; TZ 100; TZ 3] [tag "DIFFERS"; TB []] = fail "purity:result_differs".
Proof. reflexivity. Qed.

(* non-vacuity of the checkers: they do reject wrong observations *)
Example spec_rejects_wrong_observations :
  spec_hdr_ok (bs "a=1") None (mk_hdr_obs [] true None) <> [] /\
  spec_hdr_ok (bs "a=%") None (mk_hdr_obs [(bs "a", bs "%")] false (Some [(bs "a", bs "%")])) <> [] /\
  spec_ops_ok [] [OSet 0 (bs "a") (bs "2")]
     (mk_ops_obs [[(bs "a", bs "1")]; [(bs "a", bs "2"); (bs "a", bs "1")]] [[(bs "a", bs "1")]; [(bs "a", bs "2"); (bs "a", bs "1")]]
                 true (bs "a=2,a=1") (Some [(bs "a", bs "2"); (bs "a", bs "1")])) <> [] /\
  spec_comp_inject_ok [(bs "b3", bs "x")] [(bs "b3", bs "x"); (bs "baggage", bs "a=1")] <> [].
Proof. vm_compute. repeat split; discriminate. Qed.
