(* C15 proofs, part 1: byte-level facts (256-sweeps), percent codec, trimming, small list lemmas. *)
From V Require Import C15.Glue.
From Coq Require Import Lia ZifyBool ZifyNat ZifyN.

(* ---- Byte.eqb *)
Lemma beqb_refl c : Byte.eqb c c = true.
Proof. apply Byte.byte_dec_lb; reflexivity. Qed.
Lemma beqb_eq a b : Byte.eqb a b = true <-> a = b.
Proof. split; [apply Byte.byte_dec_bl | apply Byte.byte_dec_lb]. Qed.
Lemma beqb_sym a b : Byte.eqb a b = Byte.eqb b a.
Proof.
  destruct (Byte.eqb a b) eqn:E.
  - apply beqb_eq in E; subst; symmetry; apply beqb_refl.
  - destruct (Byte.eqb b a) eqn:E'; [|reflexivity].
    apply beqb_eq in E'; subst; rewrite beqb_refl in E; discriminate.
Qed.

Lemma bytes_eqb_refl s : bytes_eqb s s = true.
Proof. induction s as [|b s IH]; cbn; [reflexivity|]. rewrite beqb_refl, IH; reflexivity. Qed.
Lemma bytes_eqb_eq a b : bytes_eqb a b = true <-> a = b.
Proof.
  split.
  - revert b; induction a as [|x a IH]; intros [|y b] H; cbn in H; try discriminate; [reflexivity|].
    apply andb_true_iff in H; destruct H as [H1 H2]. apply beqb_eq in H1; subst; f_equal; auto.
  - intros ->; apply bytes_eqb_refl.
Qed.
Lemma bytes_eqb_sym a b : bytes_eqb a b = bytes_eqb b a.
Proof.
  destruct (bytes_eqb a b) eqn:E.
  - apply bytes_eqb_eq in E; subst; symmetry; apply bytes_eqb_refl.
  - destruct (bytes_eqb b a) eqn:E'; [|reflexivity].
    apply bytes_eqb_eq in E'; subst; rewrite bytes_eqb_refl in E; discriminate.
Qed.

(* ---- sweeps over all 256 bytes *)
Lemma unreserved_token c : unreserved c = sp_is_token c.
Proof. destruct c; vm_compute; reflexivity. Qed.

Lemma sp_hexval_hexval c : sp_hexval c = option_map N.to_nat (hexval c).
Proof. destruct c; vm_compute; reflexivity. Qed.

Lemma encode_byte_eq c : sp_encode_byte c = url_encode_byte c.
Proof. destruct c; vm_compute; reflexivity. Qed.

Lemma isprint_sp c : isprint c = ((32 <=? b2n c)%N && (b2n c <=? 126)%N).
Proof. reflexivity. Qed.

(* how one byte is encoded: itself (a token character, not '%' nor '+'), '+' for a space,
   or '%' and two hex digits that denote it *)
Definition enc_ok (c : byte) : bool :=
  match url_encode_byte c with
  | [x] => (unreserved x && negb (Byte.eqb x percent) && negb (Byte.eqb x plus) && Byte.eqb x c)
           || (Byte.eqb x plus && Byte.eqb c space)
  | [p; a; b] => Byte.eqb p percent && ishex a && ishex b && Byte.eqb (from_hex a b) c
  | _ => false
  end.
Lemma enc_ok_all c : enc_ok c = true.
Proof. destruct c; vm_compute; reflexivity. Qed.

(* no encoded character is white space, a separator or NUL *)
Definition enc_chars_ok (c : byte) : bool :=
  forallb (fun x => negb (isspace x) && negb (Byte.eqb x comma) && negb (Byte.eqb x equals) &&
                    negb (Byte.eqb x semicolon) && negb (Byte.eqb x x00)) (url_encode_byte c).
Lemma enc_chars_ok_all c : enc_chars_ok c = true.
Proof. destruct c; vm_compute; reflexivity. Qed.

Lemma isprint_not_nul c : isprint c = true -> Byte.eqb c x00 = false.
Proof. destruct c; vm_compute; congruence. Qed.

Lemma percent_not_plus : Byte.eqb percent plus = false.
Proof. reflexivity. Qed.

(* ---- the codec *)
Lemma url_decode_enc_byte c r :
  url_decode (url_encode_byte c ++ r) =
  match url_decode r with Some d => Some (c :: d) | None => None end.
Proof.
  pose proof (enc_ok_all c) as H. unfold enc_ok in H.
  destruct (url_encode_byte c) as [|x [|a [|b [|? ?]]]]; try discriminate.
  - apply orb_true_iff in H. destruct H as [H|H].
    + apply andb_true_iff in H; destruct H as [H Hc].
      apply andb_true_iff in H; destruct H as [H Hpl].
      apply andb_true_iff in H; destruct H as [Hu Hpc].
      apply beqb_eq in Hc; subst x.
      apply negb_true_iff in Hpl, Hpc.
      cbn [app url_decode]. rewrite Hpc, Hpl, Hu. reflexivity.
    + apply andb_true_iff in H; destruct H as [Hx Hc].
      apply beqb_eq in Hx, Hc; subst.
      cbn [app url_decode]. reflexivity.
  - apply andb_true_iff in H; destruct H as [H Hc].
    apply andb_true_iff in H; destruct H as [H Hb].
    apply andb_true_iff in H; destruct H as [Hp Ha].
    apply beqb_eq in Hp, Hc; subst.
    cbn [app url_decode]. rewrite beqb_refl, Ha, Hb. cbn [andb]. reflexivity.
Qed.

Theorem url_decode_encode s : url_decode (url_encode s) = Some s.
Proof.
  induction s as [|c s IH]; [reflexivity|].
  unfold url_encode in *; cbn [flat_map]. rewrite url_decode_enc_byte, IH. reflexivity.
Qed.

Lemma sp_encode_eq s : sp_encode s = url_encode s.
Proof.
  unfold sp_encode, url_encode. induction s as [|c s IH]; [reflexivity|].
  cbn [flat_map]. rewrite encode_byte_eq, IH; reflexivity.
Qed.

Lemma from_hex_sp a b x y :
  hexval a = Some x -> hexval b = Some y -> from_hex a b = n2b (N.of_nat (16 * N.to_nat x + N.to_nat y)).
Proof. intros Ha Hb. unfold from_hex. rewrite Ha, Hb. f_equal. lia. Qed.

Lemma sp_decode_eq s : sp_decode s = url_decode s.
Proof.
  remember (length s) as n eqn:Hn. revert s Hn.
  induction n as [n IH] using lt_wf_ind. intros s Hn.
  destruct s as [|c r]; [reflexivity|].
  cbn [sp_decode url_decode].
  destruct (Byte.eqb c percent) eqn:Ep.
  - destruct r as [|a [|b r']]; try reflexivity.
    rewrite !sp_hexval_hexval. unfold ishex.
    destruct (hexval a) as [x|] eqn:Ha; cbn [option_map andb]; [|reflexivity].
    destruct (hexval b) as [y|] eqn:Hb; cbn [option_map andb]; [|reflexivity].
    rewrite (IH (length r')) by (cbn in Hn; lia || reflexivity).
    rewrite (from_hex_sp a b x y Ha Hb). reflexivity.
  - destruct (Byte.eqb c plus) eqn:Epl.
    + rewrite (IH (length r)) by (cbn in Hn; lia || reflexivity).
      destruct (url_decode r); reflexivity.
    + rewrite <- unreserved_token. destruct (unreserved c); [|reflexivity].
      rewrite (IH (length r)) by (cbn in Hn; lia || reflexivity).
      destruct (url_decode r); reflexivity.
Qed.

Theorem sp_decode_encode s : sp_decode (sp_encode s) = Some s.
Proof. rewrite sp_decode_eq, sp_encode_eq. apply url_decode_encode. Qed.

(* ---- printable strings *)
Lemma sp_printable_eq s : sp_printable s = is_printable s.
Proof. reflexivity. Qed.
Lemma sp_valid_key_eq k : sp_valid_key k = bg_valid_key k.
Proof. reflexivity. Qed.
Lemma sp_valid_value_eq v : sp_valid_value v = bg_valid_value v.
Proof. reflexivity. Qed.

Lemma cstr_printable s : is_printable s = true -> cstr s = s.
Proof.
  induction s as [|b s IH]; [reflexivity|]. cbn. intros H.
  apply andb_true_iff in H; destruct H as [Hb Hs].
  rewrite (isprint_not_nul b Hb), IH by assumption. reflexivity.
Qed.

Definition nul_free (s : bytes) : bool := forallb (fun c => negb (Byte.eqb c x00)) s.
Lemma cstr_nul_free s : nul_free (cstr s) = true.
Proof.
  unfold nul_free. induction s as [|b s IH]; [reflexivity|]. cbn [cstr].
  destruct (Byte.eqb b x00) eqn:E; [reflexivity|]. cbn [forallb]. rewrite E, IH. reflexivity.
Qed.
Lemma cstr_id s : nul_free s = true -> cstr s = s.
Proof.
  induction s as [|b s IH]; [reflexivity|]. cbn. intros H.
  apply andb_true_iff in H; destruct H as [Hb Hs]. apply negb_true_iff in Hb.
  rewrite Hb, IH by assumption. reflexivity.
Qed.
Lemma cstr_idem s : cstr (cstr s) = cstr s.
Proof. apply cstr_id, cstr_nul_free. Qed.
Lemma printable_nul_free s : is_printable s = true -> nul_free s = true.
Proof.
  unfold nul_free, is_printable. induction s as [|b s IH]; [reflexivity|]. cbn [forallb]. intros H.
  apply andb_true_iff in H; destruct H as [Hb Hs].
  rewrite (isprint_not_nul b Hb), IH by assumption. reflexivity.
Qed.

(* ---- trim = C14.trim_ws *)
Lemma trim_end_snoc s b :
  trim_end (s ++ [b]) = if isspace b then trim_end s else s ++ [b].
Proof.
  induction s as [|a s IH]; cbn [app trim_end].
  - destruct (isspace b); reflexivity.
  - rewrite IH. destruct (isspace b) eqn:Eb; [reflexivity|].
    destruct (s ++ [b]) eqn:E; [destruct s; discriminate | reflexivity].
Qed.

Lemma trim_end_rev s : trim_end s = rev (drop_while isspace (rev s)).
Proof.
  rewrite <- (rev_involutive s) at 1. generalize (rev s) as t. clear s.
  induction t as [|b t IH]; [reflexivity|].
  cbn [rev drop_while]. rewrite trim_end_snoc. destruct (isspace b); [exact IH|].
  cbn [rev]. reflexivity.
Qed.

Lemma trim_eq s : trim s = trim_ws s.
Proof. unfold trim, trim_ws. apply trim_end_rev. Qed.

Lemma bg_members_eq h : bg_members h = members h.
Proof.
  unfold bg_members, members. f_equal. apply map_ext. exact trim_eq.
Qed.

(* a string without white space is not changed by trimming *)
Lemma drop_while_nospace s : forallb (fun c => negb (isspace c)) s = true -> drop_while isspace s = s.
Proof.
  destruct s as [|b s]; [reflexivity|]. cbn. intros H.
  apply andb_true_iff in H; destruct H as [Hb _]. apply negb_true_iff in Hb. rewrite Hb. reflexivity.
Qed.

Lemma trim_end_last s : s <> [] -> isspace (last s x00) = false -> trim_end s = s.
Proof.
  intros Hne Hl. destruct (exists_last Hne) as [t [b ->]].
  rewrite last_last in Hl. rewrite trim_end_snoc, Hl. reflexivity.
Qed.

Lemma trim_nospace s : forallb (fun c => negb (isspace c)) s = true -> trim s = s.
Proof.
  intros H. unfold trim. rewrite drop_while_nospace by assumption.
  destruct s as [|b s]; [reflexivity|].
  apply trim_end_last; [discriminate|].
  rewrite forallb_forall in H.
  assert (In (last (b :: s) x00) (b :: s)) as Hin.
  { destruct (exists_last (l := b :: s)) as [t [c E]]; [discriminate|].
    rewrite E, last_last. apply in_or_app; right; left; reflexivity. }
  apply H in Hin. apply negb_true_iff in Hin. exact Hin.
Qed.

(* ---- filter_map *)
Lemma filter_map_app {A B} (f : A -> option B) l1 l2 :
  filter_map f (l1 ++ l2) = filter_map f l1 ++ filter_map f l2.
Proof.
  induction l1 as [|a l1 IH]; [reflexivity|]. cbn. destruct (f a); cbn; rewrite IH; reflexivity.
Qed.
Lemma filter_map_length {A B} (f : A -> option B) l : length (filter_map f l) <= length l.
Proof. induction l as [|a l IH]; cbn; [lia|]. destruct (f a); cbn; lia. Qed.
Lemma filter_map_in {A B} (f : A -> option B) l b :
  In b (filter_map f l) <-> exists a, In a l /\ f a = Some b.
Proof.
  induction l as [|a l IH]; cbn.
  - split; [tauto | intros [? [[] _]]].
  - destruct (f a) eqn:E; cbn; rewrite IH; split.
    + intros [->|[a' [Hin Hf]]]; [exists a; auto | exists a'; auto].
    + intros [a' [[->|Hin] Hf]]; [left; congruence | right; exists a'; auto].
    + intros [a' [Hin Hf]]; exists a'; auto.
    + intros [a' [[->|Hin] Hf]]; [congruence | exists a'; auto].
Qed.
