(* C15 proofs, part 4: the header round trip  sp_from_header (sp_to_header l) = l  under rt_ok,
   lifted to the model (Baggage::ToHeader / FromHeader) and to the BaggagePropagator. *)
From V Require Import C15.Glue C15.ProofsBase C15.ProofsOps C15.ProofsHeader.
From Coq Require Import Lia ZifyBool ZifyNat ZifyN.

Definition has (c : byte) (s : bytes) : bool := existsb (Byte.eqb c) s.

Lemma has_app c a b : has c (a ++ b) = has c a || has c b.
Proof. apply existsb_app. Qed.

(* characters of an encoded string *)
Definition enc_char_ok (x : byte) : bool :=
  negb (isspace x) && negb (Byte.eqb x comma) && negb (Byte.eqb x equals) &&
  negb (Byte.eqb x semicolon) && negb (Byte.eqb x x00).

Lemma sp_encode_chars s : forallb enc_char_ok (sp_encode s) = true.
Proof.
  rewrite sp_encode_eq. unfold url_encode. induction s as [|c s IH]; [reflexivity|].
  cbn [flat_map]. rewrite forallb_app, IH, andb_true_r. exact (enc_chars_ok_all c).
Qed.

Lemma forallb_impl {A} (p q : A -> bool) l : (forall x, p x = true -> q x = true) -> forallb p l = true -> forallb q l = true.
Proof.
  intros Hpq. induction l as [|a l IH]; [reflexivity|]. cbn. intros H.
  apply andb_true_iff in H; destruct H as [Ha Hl]. rewrite (Hpq _ Ha), IH; auto.
Qed.

Lemma lacks_of_forall c s : forallb (fun x => negb (Byte.eqb x c)) s = true -> has c s = false.
Proof.
  unfold has. induction s as [|b s IH]; [reflexivity|]. cbn. intros H.
  apply andb_true_iff in H; destruct H as [Hb Hs]. apply negb_true_iff in Hb.
  rewrite beqb_sym, Hb, IH; auto.
Qed.

Lemma enc_lacks_comma s : has comma (sp_encode s) = false.
Proof.
  apply lacks_of_forall. eapply forallb_impl; [|apply sp_encode_chars].
  intros x H. unfold enc_char_ok in H. repeat (apply andb_true_iff in H; destruct H as [H ?]). assumption.
Qed.
Lemma enc_lacks_equals s : has equals (sp_encode s) = false.
Proof.
  apply lacks_of_forall. eapply forallb_impl; [|apply sp_encode_chars].
  intros x H. unfold enc_char_ok in H. repeat (apply andb_true_iff in H; destruct H as [H ?]). assumption.
Qed.
Lemma enc_lacks_semicolon s : has semicolon (sp_encode s) = false.
Proof.
  apply lacks_of_forall. eapply forallb_impl; [|apply sp_encode_chars].
  intros x H. unfold enc_char_ok in H. repeat (apply andb_true_iff in H; destruct H as [H ?]). assumption.
Qed.
Lemma enc_nospace s : forallb (fun c => negb (isspace c)) (sp_encode s) = true.
Proof.
  eapply forallb_impl; [|apply sp_encode_chars].
  intros x H. unfold enc_char_ok in H. repeat (apply andb_true_iff in H; destruct H as [H ?]). assumption.
Qed.

Lemma sp_encode_nonempty s : s <> [] -> sp_encode s <> [].
Proof.
  destruct s as [|c s]; [congruence|]. intros _. unfold sp_encode. cbn [flat_map].
  rewrite encode_byte_eq. pose proof (enc_ok_all c) as H. unfold enc_ok in H.
  destruct (url_encode_byte c); [discriminate|]. discriminate.
Qed.

(* ---- find / cut on concatenations *)
Lemma find_idx_has c s : find_idx c s = None <-> has c s = false.
Proof. apply find_idx_none. Qed.

Lemma cut_at c a b : has c a = false -> cut c (a ++ c :: b) = Some (a, b).
Proof.
  intros H. unfold cut. rewrite index_of_find.
  apply find_idx_has in H. rewrite (find_idx_app_r c a (c :: b) H). cbn [find_idx]. rewrite beqb_refl.
  cbn [option_map]. rewrite Nat.add_0_r.
  rewrite firstn_app, Nat.sub_diag, firstn_all. cbn [firstn]. rewrite app_nil_r.
  f_equal. f_equal.
  replace (S (length a)) with (length (a ++ [c])) by (rewrite app_length; cbn; lia).
  replace (a ++ c :: b) with ((a ++ [c]) ++ b) by (rewrite <- app_assoc; reflexivity).
  rewrite skipn_app, skipn_all, Nat.sub_diag. reflexivity.
Qed.

Lemma cut_keep_at c a b : has c a = false -> (b = [] \/ exists t, b = c :: t) -> cut_keep c (a ++ b) = (a, b).
Proof.
  intros H Hb. unfold cut_keep. rewrite index_of_find. apply find_idx_has in H.
  rewrite (find_idx_app_r c a b H). destruct Hb as [->|[t ->]].
  - cbn. rewrite app_nil_r. reflexivity.
  - cbn [find_idx]. rewrite beqb_refl. cbn [option_map]. rewrite Nat.add_0_r.
    rewrite firstn_app, Nat.sub_diag, firstn_all. cbn [firstn]. rewrite app_nil_r.
    rewrite skipn_app, skipn_all, Nat.sub_diag. reflexivity.
Qed.

(* ---- splitting a joined list *)
Lemma split_on_nosep c a : has c a = false -> split_on c a = [a].
Proof.
  unfold has. induction a as [|x a IH]; [reflexivity|]. cbn [existsb split_on]. intros H.
  apply orb_false_iff in H; destruct H as [Hx Ha]. rewrite beqb_sym, Hx, (IH Ha). reflexivity.
Qed.

Lemma split_on_sep c a rest : has c a = false -> split_on c (a ++ c :: rest) = a :: split_on c rest.
Proof.
  unfold has. induction a as [|x a IH]; cbn [existsb app split_on]; intros H.
  - rewrite beqb_refl. reflexivity.
  - apply orb_false_iff in H; destruct H as [Hx Ha]. rewrite beqb_sym, Hx, (IH Ha). reflexivity.
Qed.

Lemma split_intercalate c ms :
  ms <> [] -> forallb (fun m => negb (has c m)) ms = true -> split_on c (intercalate c ms) = ms.
Proof.
  induction ms as [|m ms IH]; [congruence|]. intros _ H. cbn [forallb] in H.
  apply andb_true_iff in H; destruct H as [Hm Hms]. apply negb_true_iff in Hm.
  destruct ms as [|m' ms'].
  - cbn [intercalate]. apply split_on_nosep. exact Hm.
  - cbn [intercalate]. cbn [app]. rewrite split_on_sep by exact Hm. f_equal.
    apply IH; [discriminate | exact Hms].
Qed.

(* ---- one member *)
Lemma last_app_ne {A} (a b : list A) d : b <> [] -> last (a ++ b) d = last b d.
Proof.
  intros Hb. induction a as [|x a IH]; [reflexivity|]. cbn [app].
  destruct (a ++ b) eqn:E; [destruct a; [cbn in E; congruence | discriminate]|].
  cbn [last]. exact IH.
Qed.

Lemma forallb_last {A} (p : A -> bool) l d : l <> [] -> forallb p l = true -> p (last l d) = true.
Proof.
  intros Hne H. destruct (exists_last Hne) as [t [x ->]]. rewrite last_last.
  rewrite forallb_app in H. apply andb_true_iff in H; destruct H as [_ H]. cbn in H.
  apply andb_true_iff in H; tauto.
Qed.

Lemma drop_while_head p x s : p x = false -> drop_while p (x :: s) = x :: s.
Proof. intros H. cbn. rewrite H. reflexivity. Qed.

Section Member.
  Variable e : entry.
  Hypothesis Hok : rt_entry_ok e = true.

  Let k := fst e.
  Let v := fst (cut_keep semicolon (snd e)).
  Let meta := snd (cut_keep semicolon (snd e)).

  Lemma rt_parts :
    sp_valid_key k = true /\ sp_valid_value (snd e) = true /\ has comma meta = false /\
    (is_nil meta = true \/ isspace (last_byte meta) = false) /\
    length (sp_encode k) + length (sp_encode v ++ meta) <= kMaxKeyValueSize.
  Proof.
    unfold rt_entry_ok in Hok. subst k v meta.
    destruct (cut_keep semicolon (snd e)) as [v0 m0]. cbn [fst snd].
    apply andb_true_iff in Hok; destruct Hok as [H1 H2].
    apply andb_true_iff in H1; destruct H1 as [Hk Hv].
    apply andb_true_iff in H2; destruct H2 as [H2 Hsz].
    apply andb_true_iff in H2; destruct H2 as [Hc Hsp].
    apply negb_true_iff in Hc. apply Nat.leb_le in Hsz.
    repeat split; try assumption.
    apply orb_true_iff in Hsp. destruct Hsp as [H|H]; [left; exact H | right; apply negb_true_iff in H; exact H].
  Qed.

  Lemma member_str_eq : sp_member_str e = sp_encode k ++ [equals] ++ sp_encode v ++ meta.
  Proof. unfold sp_member_str. subst k v meta. destruct (cut_keep semicolon (snd e)); reflexivity. Qed.

  Lemma meta_shape : meta = [] \/ exists t, meta = semicolon :: t.
  Proof. subst meta. apply cut_keep_snd_shape. Qed.

  Lemma v_meta : v ++ meta = snd e.
  Proof. subst v meta. apply cut_keep_app. Qed.

  Lemma member_no_comma : has comma (sp_member_str e) = false.
  Proof.
    destruct rt_parts as [_ [_ [Hc _]]].
    rewrite member_str_eq, !has_app, !enc_lacks_comma, Hc. reflexivity.
  Qed.

  Lemma k_nonempty : k <> [].
  Proof.
    destruct rt_parts as [Hk _]. unfold sp_valid_key in Hk. apply andb_true_iff in Hk; destruct Hk as [Hk _].
    destruct k; [discriminate | discriminate].
  Qed.

  Lemma member_trim : trim (sp_member_str e) = sp_member_str e.
  Proof.
    rewrite member_str_eq. unfold trim.
    pose proof (sp_encode_nonempty k k_nonempty) as Hne.
    pose proof (enc_nospace k) as Hns.
    set (R := [equals] ++ sp_encode v ++ meta).
    assert (HR : R <> []) by (subst R; discriminate).
    destruct (sp_encode k) as [|x ek] eqn:Ek; [congruence|].
    cbn [forallb] in Hns. apply andb_true_iff in Hns; destruct Hns as [Hx Hek]. apply negb_true_iff in Hx.
    change ((x :: ek) ++ R) with (x :: (ek ++ R)). rewrite drop_while_head by exact Hx.
    apply trim_end_last; [discriminate|].
    change (x :: (ek ++ R)) with ((x :: ek) ++ R).
    rewrite last_app_ne by exact HR. subst R. clear HR.
    destruct rt_parts as [_ [_ [_ [Hsp _]]]].
    destruct meta as [|c mt] eqn:Em.
    - rewrite app_nil_r.
      assert (forallb (fun c => negb (isspace c)) ([equals] ++ sp_encode v) = true) as Hall.
      { cbn [app forallb]. rewrite enc_nospace. reflexivity. }
      apply (forallb_last _ _ x00) in Hall; [|discriminate]. apply negb_true_iff in Hall. exact Hall.
    - destruct Hsp as [Hsp|Hsp]; [discriminate|].
      replace ([equals] ++ sp_encode v ++ c :: mt) with (([equals] ++ sp_encode v) ++ c :: mt) by (rewrite <- app_assoc; reflexivity).
      rewrite last_app_ne by discriminate. exact Hsp.
  Qed.

  Lemma member_parses : sp_member (sp_member_str e) = Some e.
  Proof.
    rewrite sp_member_trim, member_trim. unfold sp_member_t. rewrite member_str_eq.
    cbn [app]. rewrite cut_at by apply enc_lacks_equals.
    destruct rt_parts as [Hk [Hv [_ [_ Hsz]]]].
    destruct (Nat.ltb kMaxKeyValueSize (length (sp_encode k) + length (sp_encode v ++ meta))) eqn:E;
      [apply Nat.ltb_lt in E; lia|].
    rewrite cut_keep_at by (apply enc_lacks_semicolon || apply meta_shape).
    rewrite !trim_nospace by apply enc_nospace.
    rewrite !sp_decode_encode.
    assert (sp_valid_value v = true) as Hvv.
    { subst v. change (sp_valid_value ?x) with (is_printable x). apply printable_cut_fst. exact Hv. }
    rewrite Hk, Hvv. cbn [andb]. unfold c_string. rewrite v_meta.
    rewrite cstr_printable by exact Hv. subst k. destruct e; reflexivity.
  Qed.
End Member.

Lemma filter_map_members_str l :
  forallb rt_entry_ok l = true -> filter_map sp_member (map sp_member_str l) = l.
Proof.
  induction l as [|e l IH]; [reflexivity|]. cbn [forallb map filter_map]. intros H.
  apply andb_true_iff in H; destruct H as [He Hl].
  rewrite (member_parses e He), (IH Hl). reflexivity.
Qed.

(* ---- the round trip on the abstract level *)
Theorem sp_roundtrip l : rt_ok l = true -> sp_from_header (sp_to_header l) = l.
Proof.
  unfold rt_ok. intros H.
  apply andb_true_iff in H; destruct H as [H Hlen].
  apply andb_true_iff in H; destruct H as [Hall Hcnt].
  apply Nat.leb_le in Hlen, Hcnt.
  unfold sp_from_header.
  destruct (Nat.ltb kMaxSizeBaggage (length (sp_to_header l))) eqn:E; [apply Nat.ltb_lt in E; lia|].
  destruct l as [|e l'] eqn:El; [reflexivity|]. rewrite <- El in *. clear E.
  unfold sp_to_header. rewrite split_intercalate.
  - rewrite filter_map_members_str by exact Hall. apply firstn_all_le. exact Hcnt.
  - subst l; discriminate.
  - clear - Hall. induction l as [|x l IH]; [reflexivity|]. cbn [forallb map] in *.
    apply andb_true_iff in Hall; destruct Hall as [Hx Hl].
    rewrite (member_no_comma x Hx), (IH Hl). reflexivity.
Qed.

(* ---- on the model: Baggage::FromHeader (b.ToHeader()) *)
Theorem model_roundtrip b :
  rt_ok (bg_entries b) = true -> bg_entries (bg_from_header (bg_to_header b)) = bg_entries b.
Proof.
  intros H. rewrite bg_from_header_entries, bg_to_header_spec. apply sp_roundtrip. exact H.
Qed.

(* ---- through BaggagePropagator: Inject into an empty carrier, Extract into any context *)
Lemma car_get_set k v : car_get k (car_set k v []) = v.
Proof. unfold car_get. cbn. rewrite bytes_eqb_refl. reflexivity. Qed.

Theorem propagator_roundtrip b ctx ctx0 :
  cx_bag ctx = Some b -> rt_ok (bg_entries b) = true ->
  let car := baggage_inject ctx [] in
  let out := baggage_extract car ctx0 in
  (bg_entries b <> [] ->
     car = [(h_baggage, bg_to_header b)] /\
     exists b', out = CxBag b' :: ctx0 /\ bg_entries b' = bg_entries b) /\
  (bg_entries b = [] -> car = [] /\ out = ctx0).
Proof.
  intros Hb Hrt. cbn zeta. unfold baggage_inject, bag_of_ctx. rewrite Hb.
  pose proof (sp_to_header_nil (bg_entries b)) as Hnil. rewrite <- bg_to_header_spec in Hnil.
  split; intros He.
  - destruct (bg_entries b) as [|e0 l0] eqn:El; [congruence|]. cbn [is_nil] in Hnil. rewrite Hnil.
    split; [reflexivity|]. unfold baggage_extract. rewrite car_get_set.
    pose proof (model_roundtrip b) as Hr. rewrite El in Hr. specialize (Hr Hrt).
    pose proof (sp_to_header_nil (bg_entries (bg_from_header (bg_to_header b)))) as Hn2.
    rewrite <- bg_to_header_spec in Hn2. rewrite Hr in Hn2. cbn [is_nil] in Hn2. rewrite Hn2.
    eexists; split; [reflexivity | exact Hr].
  - rewrite He in Hnil. cbn [is_nil] in Hnil. rewrite Hnil. split; [reflexivity|].
    unfold baggage_extract. cbn [car_get lookup].
    reflexivity.
Qed.

(* non-vacuity: a baggage built by Set with spaces, '=', ',', '%', '+', ';' in keys and values and
   a metadata part meets the hypotheses; two of the excluded shapes do not round trip *)
Example roundtrip_nonvacuous :
  let b := bg_set (bs "k;1 =,%+") (bs " v=,%+ ;m=1;n") (bg_set (bs "a") (bs "") (kv_new 0)) in
  built_by_set b /\ rt_ok (bg_entries b) = true /\ bg_entries b <> [] /\
  bg_to_header b = bs "k%3B1+%3D%2C%25%2B=+v%3D%2C%25%2B+;m=1;n,a=".
Proof.
  split; [repeat constructor|]. split; [vm_compute; reflexivity|]. split; [vm_compute; discriminate|].
  vm_compute. reflexivity.
Qed.

(* the two excluded shapes really do not round trip (the hypotheses are needed) *)
Example roundtrip_needs_no_comma_in_metadata :
  sp_from_header (sp_to_header [(bs "k", bs "a;b,c")]) = [(bs "k", bs "a;b")].
Proof. vm_compute. reflexivity. Qed.
Example roundtrip_needs_no_trailing_space_in_metadata :
  sp_from_header (sp_to_header [(bs "k", bs "a;b ")]) = [(bs "k", bs "a;b")].
Proof. vm_compute. reflexivity. Qed.
