(* placeholder until C14/Proofs*.v land: nothing is claimed proved yet *)
From V Require Import C14.Glue.
Theorem c14_placeholder : True. Proof. exact I. Qed.
Print Assumptions c14_placeholder.
