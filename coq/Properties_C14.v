(* C14 - TraceState stays a valid, duplicate-free W3C list under every update.
   Every theorem is about the executable Gallina models of trace_state.h / kv_properties.h /
   string_util.h:  C14/Impl.v (index- and capacity-level, the one diffed against the C++ on every
   run) and C14/Model.v (list-level).  Statements only; the proofs are in C14/Proofs*.v.
   wf l              := every key passes IsValidKey, every value IsValidValue, at most 32 members
   reachable_from a l:= l is obtained from a by any finite sequence of Set / Delete
   keys l            := the keys in order;  a_count k l := how many members have key k
   members_from h i  := the non-empty trimmed comma-separated fields of h[i..]                  *)
From V Require Import C14.Glue C14.ProofsBase C14.ProofsRx C14.Proofs C14.ProofsImpl C14.ProofsSpec C14.ProofsGlue.

(* ---- the validators are the W3C grammar (regex literals re-translated from trace_state.h on every run) *)
Theorem valid_key_iff_grammar : forall k : bytes, is_valid_key k = g_valid_key k.
Proof. exact ProofsRx.valid_key_iff_grammar. Qed.
Print Assumptions valid_key_iff_grammar.

Theorem valid_value_iff_grammar : forall v : bytes, is_valid_value v = g_valid_value v.
Proof. exact ProofsRx.valid_value_iff_grammar. Qed.
Print Assumptions valid_value_iff_grammar.

(* ---- sentence 1: every state obtained by parsing or by Set/Delete has only grammatical members, at most 32 *)
Theorem ts_wf_invariant : forall (h : bytes) (l : tstate), reachable_from (from_header h) l -> wf l.
Proof. exact Proofs.ts_wf_invariant. Qed.
Print Assumptions ts_wf_invariant.

Theorem ts_wf_invariant_from : forall l0 l : tstate, wf l0 -> reachable_from l0 l -> wf l.
Proof. exact Proofs.ts_wf_invariant_from. Qed.
Print Assumptions ts_wf_invariant_from.

Theorem ts_wf_invariant_seq : forall (h : bytes) (us : list upd), wf (fold_left apply_upd us (from_header h)).
Proof. exact Proofs.ts_wf_invariant_seq. Qed.
Print Assumptions ts_wf_invariant_seq.

Theorem wf_is_the_grammar : forall l : tstate, wf l <-> wf_state l = true.
Proof. exact Proofs.wf_iff. Qed.
Print Assumptions wf_is_the_grammar.

(* duplicate-freedom is preserved by every update (FromHeader itself keeps a repeated key: the
   property text does not ask it to reject one; see Proofs.from_header_keeps_repeated_key) *)
Theorem ts_nodup_invariant : forall l0 l : tstate, NoDup (keys l0) -> reachable_from l0 l -> NoDup (keys l).
Proof. exact Proofs.ts_nodup_invariant. Qed.
Print Assumptions ts_nodup_invariant.

(* ---- sentence 2: Set *)
Theorem set_spec : forall (k v : bytes) (l : tstate),
  (is_valid_key k = true -> is_valid_value v = true -> (has_key k l = true \/ length l < kMaxKeyValuePairs) ->
     ts_set k v l = (k, v) :: filter (fun e => negb (bytes_eqb (fst e) k)) l) /\
  (is_valid_key k = true -> is_valid_value v = true -> has_key k l = false -> kMaxKeyValuePairs <= length l ->
     ts_set k v l = l) /\
  (is_valid_key k = false \/ is_valid_value v = false -> ts_set k v l = []).
Proof. exact Proofs.set_spec. Qed.
Print Assumptions set_spec.

Theorem set_no_duplicate : forall (k v : bytes) (l : tstate),
  a_count k (ts_set k v l) <= 1 /\ (forall k', k' <> k -> a_count k' (ts_set k v l) <= a_count k' l).
Proof. exact Proofs.set_no_duplicate. Qed.
Print Assumptions set_no_duplicate.

Theorem set_is_abstract_set : forall (k v : bytes) (l : tstate), ts_set k v l = spec_set k v l.
Proof. exact Proofs.set_refines. Qed.
Print Assumptions set_is_abstract_set.

(* ---- sentence 3: Delete removes exactly the given key *)
Theorem delete_spec : forall (k : bytes) (l : tstate),
  (is_valid_key k = true -> ts_delete k l = filter (fun e => negb (bytes_eqb (fst e) k)) l) /\
  (is_valid_key k = true -> has_key k (ts_delete k l) = false) /\
  (is_valid_key k = true -> forall k', k' <> k -> ts_get k' (ts_delete k l) = ts_get k' l) /\
  (is_valid_key k = false -> ts_delete k l = []).
Proof. exact Proofs.delete_spec. Qed.
Print Assumptions delete_spec.

(* ---- sentence 4: Get returns the value most recently set (and the frame rules around it) *)
Theorem get_after_set : forall (k v : bytes) (l : tstate),
  is_valid_key k = true -> is_valid_value v = true -> (has_key k l = true \/ length l < kMaxKeyValuePairs) ->
  ts_get k (ts_set k v l) = Some v.
Proof. exact Proofs.get_after_set. Qed.
Print Assumptions get_after_set.

Theorem get_after_set_other : forall (k v : bytes) (l : tstate) (k' : bytes),
  k' <> k -> ts_set k v l <> [] -> ts_get k' (ts_set k v l) = ts_get k' l.
Proof. exact Proofs.get_after_set_other. Qed.
Print Assumptions get_after_set_other.

Theorem get_after_refused_set : forall (k v : bytes) (l : tstate) (k' : bytes),
  is_valid_key k = true -> is_valid_value v = true -> has_key k l = false -> kMaxKeyValuePairs <= length l ->
  ts_get k' (ts_set k v l) = ts_get k' l.
Proof. exact Proofs.get_after_refused_set. Qed.
Print Assumptions get_after_refused_set.

Theorem get_after_delete : forall (k : bytes) (l : tstate), ts_get k (ts_delete k l) = None.
Proof. exact Proofs.get_after_delete. Qed.
Print Assumptions get_after_delete.

(* over whole histories: after a successful Set(k,v), later valid updates of other keys never change Get(k) *)
Theorem get_most_recent_set : forall (k v : bytes) (l : tstate) (us : list upd),
  is_valid_key k = true -> is_valid_value v = true -> (has_key k l = true \/ length l < kMaxKeyValuePairs) ->
  Forall (other_valid_upd k) us ->
  ts_get k (fold_left apply_upd us (ts_set k v l)) = Some v.
Proof. exact Proofs.get_most_recent_set. Qed.
Print Assumptions get_most_recent_set.

(* ---- sentence 5: the original object is never modified; invalid / over-long => empty, never partial; round trip *)
Theorem original_unchanged : forall (objs : list tstate) (o : op) (r : opobs) (newobj : option tstate),
  model_step objs o = Some (r, newobj) ->
  forall j l, nth_error objs j = Some l ->
  nth_error (match newobj with Some n => objs ++ [n] | None => objs end) j = Some l.
Proof. exact ProofsSpec.original_unchanged. Qed.
Print Assumptions original_unchanged.

Theorem invalid_yields_empty_not_partial : forall h : bytes,
  (kMaxKeyValuePairs < num_tokens h -> from_header h = []) /\
  ((exists m, In m (members h) /\
              match split_kv m with
              | None => True
              | Some (k, v) => is_valid_key k = false \/ is_valid_value v = false
              end) -> from_header h = []) /\
  (from_header h = [] \/ Forall2 (fun m e => split_kv m = Some e) (members h) (from_header h)).
Proof. exact Proofs.invalid_yields_empty_not_partial. Qed.
Print Assumptions invalid_yields_empty_not_partial.

Theorem from_header_is_declarative_parse : forall h : bytes, from_header h = spec_parse h.
Proof. exact Proofs.from_header_refines. Qed.
Print Assumptions from_header_is_declarative_parse.

Theorem header_roundtrip : forall l : tstate, wf l -> from_header (to_header l) = l.
Proof. exact Proofs.header_roundtrip. Qed.
Print Assumptions header_roundtrip.

Theorem reachable_roundtrip : forall (h : bytes) (l : tstate),
  reachable_from (from_header h) l -> from_header (to_header l) = l.
Proof. exact Proofs.reachable_roundtrip. Qed.
Print Assumptions reachable_roundtrip.

(* ---- the code-shaped model (index arithmetic, fixed-capacity arrays) computes the list-level functions *)
Theorem tokenizer_refines_split : forall h : bytes,
  num_tokens_ix h = num_tokens h /\
  (forall i, match tok_next h i with
             | None => members_from h i = []
             | Some (kv, i') => exists m, members_from h i = m :: members_from h i' /\ kv = split_kv m /\ i < i'
             end) /\
  members_from h 0 = members h /\
  from_header_ix h = from_header h.
Proof. exact ProofsImpl.tokenizer_refines_split. Qed.
Print Assumptions tokenizer_refines_split.

Theorem trim_ix_spec : forall (s : bytes) (left right : nat),
  left <= S right -> right < length s -> trim_ix s left right = trim_ws (substr s left (S right - left)).
Proof. exact ProofsImpl.trim_ix_spec. Qed.
Print Assumptions trim_ix_spec.

Theorem set_ix_refines : forall (k v : bytes) (l : tstate), set_ix k v l = ts_set k v l.
Proof. exact ProofsImpl.set_ix_refines. Qed.
Print Assumptions set_ix_refines.

Theorem delete_ix_refines : forall (k : bytes) (l : tstate), delete_ix k l = ts_delete k l.
Proof. exact ProofsImpl.delete_ix_refines. Qed.
Print Assumptions delete_ix_refines.

Theorem get_ix_refines : forall (k : bytes) (l : tstate), get_ix k l = ts_get k l.
Proof. exact ProofsImpl.get_ix_refines. Qed.
Print Assumptions get_ix_refines.

Theorem to_header_ix_refines : forall l : tstate, to_header_ix l = to_header l.
Proof. exact ProofsImpl.to_header_ix_refines. Qed.
Print Assumptions to_header_ix_refines.

(* ---- the central theorem: the executable SPEC accepts the model's observation of every case *)
Theorem model_meets_spec : forall (h : bytes) (ops : list op) (o0 : objobs) (rs : list stepobs),
  model_case h ops = Some (o0, rs) -> spec_case h ops o0 rs = [].
Proof. exact ProofsSpec.model_meets_spec. Qed.
Print Assumptions model_meets_spec.

(* ... down to the token lines the runner compares: whenever the extracted model prints an observation
   for a case line, the extracted SPEC entry point accepts exactly that line *)
Theorem run_spec_accepts_run_model : forall (c : list tok) (h : bytes) (ops : list op),
  parse_case c = Some (h, ops) -> model_case h ops <> None -> run_spec c (run_model c) = [].
Proof. exact ProofsGlue.run_spec_accepts_run_model. Qed.
Print Assumptions run_spec_accepts_run_model.

(* purity-probe lines (PURITY ...): the model, whose operations are functions of values, predicts PURE, and the
   SPEC entry point accepts exactly that; the probe itself (real threads on shared objects under ThreadSanitizer)
   is a run-time check of the model's purity assumption on the implementation, not a theorem *)
Theorem purity_line_meets_spec : forall c : list tok, is_purity_case c = true -> run_spec c (run_model c) = [].
Proof. exact ProofsGlue.purity_line_meets_spec. Qed.
Print Assumptions purity_line_meets_spec.
