(* PROOFS for the batch-processor acceptor: the protocol invariant InvB (flush tickets seen by callers,
   the shutdown mutex/latch/join/exporter-shutdown phases) is preserved by every accepted event. *)
From V Require Import Batch.Model Batch.ProofsA.
From Coq Require Import Lia List Arith Bool.
Import ListNotations.

Definition holds (a : apc) : bool :=
  match a with AShutLocked _ | AShutX _ _ | AShutJoined _ _ | AShutExp _ _ => true | _ => false end.

Definition thr_inv (s : st) (t : nat) (a : apc) : Prop :=
  match a with
  | AFlushWait k last => 1 <= k <= pending s /\ (forall v, last = Some v -> v <= notified s)
  | AShutLocked _ => holder s = Some t
  | AShutX _ old => holder s = Some t /\ is_shut s = true /\ joined s = false /\
                    (if old then False else expshut s = 0)
  | AShutJoined _ old => holder s = Some t /\ is_shut s = true /\ joined s = true /\
                         (if old then expshut s = 1 else expshut s = 0)
  | AShutExp _ _ => holder s = Some t /\ is_shut s = true /\ joined s = true /\ expshut s = 1
  | AShutOut _ _ => is_shut s = true /\ joined s = true /\ expshut s = 1
  | _ => True
  end.

Record InvB (s : st) : Prop := {
  b_thr : forall t, thr_inv s t (ap s t);
  b_holder : forall t, holder s = Some t -> holds (ap s t) = true;
  b_fldone : forall t k, In (t, k, true) (fl_done s) -> 1 <= k <= notified s;
  b_joined : joined s = true -> wp s = WDone;
  b_phase : is_shut s = true ->
            (joined s = true /\ expshut s = 1) \/
            (exists t dd, holder s = Some t /\ (ap s t = AShutX dd false \/ ap s t = AShutJoined dd false));
  b_pre : is_shut s = false -> expshut s = 0 /\ joined s = false;
  b_expshut : expshut s <= 1;
  b_shdone : sh_done s <> [] -> is_shut s = true /\ joined s = true /\ expshut s = 1
}.

Lemma InvB_init q b : InvB (init q b).
Proof.
  constructor; simpl; auto; try discriminate; try lia; try tauto.
Qed.

Lemma worker_preserves_B s e s' : InvA s -> InvB s -> accept_worker s e = Some s' -> InvB s'.
Proof.
  intros IA I H.
  destruct I as [Ithr Ihold Ifl Ijoin Iph Ipre Iexp Ish].
  assert (NJ : joined s = false).
  { destruct (joined s) eqn:J; auto. specialize (Ijoin eq_refl). unfold accept_worker in H. rewrite Ijoin in H. destruct e; discriminate. }
  pose proof (a_wp s IA) as Iwp. pose proof (a_notified s IA) as Inot.
  unfold accept_worker in H.
  destruct (wp s) eqn:W; destruct e; try discriminate H;
    repeat match goal with o : option nat |- _ => destruct o end; simpl in H;
    repeat break_if; try discriminate H; inv_some; bools.
  all: unfold wp_inv, covers in Iwp; rewrite W in Iwp.
  all: constructor; unfold set_wp in *; simpl in *; auto; try congruence.
  all: try (intros t0 k0 Hin; specialize (Ifl t0 k0 Hin); lia).
  all: try (intros t0; specialize (Ithr t0); unfold thr_inv in *; destruct (ap _ t0); simpl in *; auto;
            repeat match goal with H : _ /\ _ |- _ => destruct H end; repeat split; auto; try lia;
            try (intros v0 Hv; match goal with H : forall v, _ = Some v -> _ |- _ => specialize (H v0 Hv) end; lia)).
Qed.

Lemma upd_same {A} (f : nat -> A) t v : upd f t v t = v.
Proof. unfold upd. rewrite Nat.eqb_refl. reflexivity. Qed.
Lemma upd_other {A} (f : nat -> A) t v t' : t' <> t -> upd f t v t' = f t'.
Proof. unfold upd. intros H. apply Nat.eqb_neq in H. rewrite H. reflexivity. Qed.

Lemma app_preserves_B s t e s' : t <> 0 -> InvA s -> InvB s -> accept_app s t e = Some s' -> InvB s'.
Proof.
  intros T0 IA I H.
  destruct I as [Ithr Ihold Ifl Ijoin Iph Ipre Iexp Ish].
  pose proof (a_wp s IA) as Iwp. pose proof (a_notified s IA) as Inot.
  pose proof (Ithr t) as It.
  unfold accept_app, with_ap in H.
  destruct (ap s t) eqn:A; destruct e; try discriminate H;
    repeat match goal with o : option nat |- _ => destruct o end; simpl in H;
    repeat break_if; try discriminate H;
    repeat match goal with
           | H : match ?x with _ => _ end = Some _ |- _ => destruct x eqn:?; try discriminate H
           end; inv_some; bools.
  all: unfold thr_inv in It; simpl in It.
  all: constructor; unfold set_ap in *; simpl in *; auto; try congruence; try lia.
  (* fl_done *)
  all: try (intros t0 k0 Hin; first [ specialize (Ifl t0 k0 Hin); lia
                                    | apply in_app_or in Hin; destruct Hin as [Hin|[Hin|[]]];
                                      [ specialize (Ifl t0 k0 Hin); lia
                                      | inversion Hin; subst; repeat match goal with H : _ /\ _ |- _ => destruct H end;
                                        match goal with H : forall v, Some ?a = Some v -> _ |- _ => specialize (H _ eq_refl) end; lia ] ]).
  (* holder *)
  all: try (intros t0 Hh; destruct (Nat.eq_dec t0 t) as [->|N];
            [ rewrite upd_same; simpl; first [ reflexivity | specialize (Ihold t); rewrite A in Ihold; simpl in Ihold;
                                               repeat match goal with H : _ /\ _ |- _ => destruct H end; try congruence; auto ]
            | rewrite upd_other by auto; first [ apply Ihold; congruence
                                               | repeat match goal with H : _ /\ _ |- _ => destruct H end; congruence ] ]).
  (* per-thread *)
  all: try (intros t0; destruct (Nat.eq_dec t0 t) as [->|N];
            [ rewrite upd_same; unfold thr_inv; simpl;
              repeat match goal with H : _ /\ _ |- _ => destruct H end; repeat split; auto; try lia; try congruence
            | rewrite upd_other by auto; specialize (Ithr t0); unfold thr_inv in *; destruct (ap s t0) eqn:A0; simpl in *; auto;
              repeat match goal with H : _ /\ _ |- _ => destruct H end; repeat split; auto; try lia; try congruence;
              try (intros v0 Hv; match goal with H : forall v, _ = Some v -> _ |- _ => specialize (H v0 Hv) end; lia) ]).
  all: try (intros v0 Hv; inversion Hv; subst; lia).
  all: try (intros t0 k0 Hin; apply in_app_or in Hin; destruct Hin as [Hin|[Hin|[]]];
            [ specialize (Ifl t0 k0 Hin); lia
            | inversion Hin; subst; bools; repeat match goal with H : _ /\ _ |- _ => destruct H end;
              match goal with H : forall v, Some ?a = Some v -> _ |- _ => specialize (H _ eq_refl) end; lia ]).
  all: try (intros Hs; destruct (Iph Hs) as [[J E']|[t0 [dd [Hh X]]]];
            [ left; auto
            | right; exists t0, dd; split; [assumption|];
              destruct (Nat.eq_dec t0 t) as [->|N];
              [ rewrite A in X; destruct X; discriminate | rewrite upd_other by auto; assumption ] ]).
  all: intros; repeat match goal with
                      | H : _ /\ _ |- _ => destruct H
                      | b : bool |- _ => destruct b
                      end; simpl in *; bools;
       repeat match goal with
              | H : ?p -> _, H' : ?p |- _ => specialize (H H')
              | H : true = true -> _ |- _ => specialize (H eq_refl)
              end;
       repeat match goal with
              | H : _ /\ _ |- _ => destruct H
              | H : _ \/ _ |- _ => destruct H
              | H : exists _, _ |- _ => destruct H
              end; try congruence; try lia; try tauto.
  all: try match goal with
           | H1 : holder ?s = Some ?a, H2 : holder ?s = Some ?b |- _ =>
               assert (a = b) by congruence; subst
           end; try congruence.
  all: try (first [ left; split; first [congruence | lia | reflexivity]
                  | right; exists t; eexists; split; [eassumption|]; rewrite upd_same; eauto ]).
Qed.
