(* PROOFS for Batch/Simple.v: in every reachable state of the simple-processor acceptor (any number of threads,
   any interleaving of OnEnd/ForceFlush/Shutdown, spurious spinning) at most one thread is between a successful
   exchange of the spin lock and its unlock, hence exporter->Export never overlaps; the exporter is shut down at
   most once. *)
From V Require Import Batch.Simple.
From Coq Require Import Lia List Arith Bool.
Import ListNotations.

Definition holds (p : spc) : bool := match p with PHold _ | PExp _ | PDone _ => true | _ => false end.
Definition is_exp (p : spc) : bool := match p with PExp _ => true | _ => false end.
Definition pend (p : spc) : bool := match p with PShut1 | PDestroyExp => true | _ => false end.

Lemma exp_holds p : is_exp p = true -> holds p = true.
Proof. destruct p; simpl; auto. Qed.

Record SInv (s : sst) : Prop := {
  i_flag : flag s = true <-> owner s <> None;
  i_owner : forall t, owner s = Some t <-> holds (spc_of s t) = true;
  i_fly : forall t, sfly s = Some t <-> is_exp (spc_of s t) = true;
  i_nshut : nshut s <= 1;
  i_pend_uniq : forall t1 t2, pend (spc_of s t1) = true -> pend (spc_of s t2) = true -> t1 = t2;
  i_pend_zero : forall t, pend (spc_of s t) = true -> nshut s = 0 /\ latch s = true;
  i_latch : latch s = false -> nshut s = 0
}.

Lemma SInv_init : SInv sinit.
Proof. constructor; simpl; try lia; auto; intros; try discriminate; split; intros; try discriminate; try congruence. Qed.

Lemma supd_same f t v : supd f t v t = v.
Proof. unfold supd. rewrite Nat.eqb_refl. reflexivity. Qed.
Lemma supd_other f t v t' : t' <> t -> supd f t v t' = f t'.
Proof. unfold supd. intros H. apply Nat.eqb_neq in H. rewrite H. reflexivity. Qed.

Ltac sbreak :=
  repeat match goal with
  | H : context [if ?c then _ else _] |- _ => let E := fresh "E" in destruct c eqn:E
  | H : context [match ?x with _ => _ end] |- _ => destruct x eqn:?
  end.

Lemma saccept_preserves s te s' : SInv s -> saccept s te = Some s' -> SInv s'.
Proof.
  intros I H. destruct te as [t e]. unfold saccept in H; simpl in H.
  destruct I as [If Io Ifl In Ipu Ipz Il].
  pose proof (Io t) as Iot. pose proof (Ifl t) as Iflt. pose proof (Ipz t) as Ipzt.
  destruct (spc_of s t) eqn:P; destruct e; try discriminate H; simpl in *;
    sbreak; try discriminate H; inversion H; subst; clear H; unfold set_pc; simpl.
  all: repeat match goal with
              | H : Bool.eqb _ _ = true |- _ => apply Bool.eqb_prop in H
              | H : Nat.eqb _ _ = true |- _ => apply Nat.eqb_eq in H
              end; subst.
  all: try (constructor; simpl; auto; fail).
  all: constructor; simpl; auto; try lia.
  (* two-thread clause first, then the per-thread clauses: split on whether a quantified thread is the acting one *)
  all: try (intros t1 t2; destruct (Nat.eq_dec t1 t) as [->|N1]; destruct (Nat.eq_dec t2 t) as [->|N2];
            rewrite ?supd_same, ?supd_other by auto; simpl; intros; try discriminate; auto; fail).
  all: try (intros t0; destruct (Nat.eq_dec t0 t) as [->|N];
            [ rewrite supd_same; simpl | rewrite supd_other by auto ]).
  all: try assumption; try apply Io; try apply Ifl; try apply Ipz; try apply Ipu; auto.
  all: rewrite ?P in *; simpl in *.
  all: try (intros t2; destruct (Nat.eq_dec t2 t) as [->|N2]; rewrite ?supd_same, ?supd_other by auto; simpl; intros).
  all: repeat match goal with
           | N : ?a <> ?b |- _ =>
               pose proof (Io a); pose proof (Ifl a); pose proof (Ipz a); pose proof (Ipu a b); pose proof (Ipu b a);
               pose proof (exp_holds (spc_of s a));
               revert N
           end; intros.
  all: rewrite ?P in *; simpl in *.
  all: destruct (owner s) eqn:Ow; destruct (sfly s) eqn:Fl; destruct (latch s) eqn:La; destruct (flag s) eqn:Fg.
  all: try (timeout 60 (intuition (try congruence; try discriminate; try lia)); fail).

Qed.

Lemma srun_preserves tr : forall s s', SInv s -> srun s tr = Some s' -> SInv s'.
Proof.
  induction tr as [|te tr IH]; intros s s' I H; simpl in H.
  - inversion H; subst; exact I.
  - destruct (saccept s te) as [s1|] eqn:A; [|discriminate]. eapply IH; [eapply saccept_preserves; eauto | exact H].
Qed.

Definition sreachable (s : sst) : Prop := exists tr, srun sinit tr = Some s.
Theorem sreachable_inv s : sreachable s -> SInv s.
Proof. intros [tr H]. eapply srun_preserves; [apply SInv_init | exact H]. Qed.

(* the spin lock is a mutex: at most one thread is between its successful exchange and its unlock *)
Theorem simple_lock_is_mutex s t1 t2 :
  sreachable s -> holds (spc_of s t1) = true -> holds (spc_of s t2) = true -> t1 = t2.
Proof.
  intros R H1 H2. pose proof (sreachable_inv s R) as I.
  apply (i_owner s I) in H1. apply (i_owner s I) in H2. congruence.
Qed.

(* Export is never invoked while a previous Export on the exporter is still running *)
Theorem simple_export_never_overlaps s t ids s' :
  sreachable s -> saccept s (t, SExpBegin ids) = Some s' -> sfly s = None /\ sfly s' = Some t.
Proof.
  intros R H. pose proof (sreachable_inv s R) as I. unfold saccept in H; simpl in H.
  destruct (spc_of s t) eqn:P; try discriminate H.
  destruct ids as [|i [|j ids]]; try discriminate H. destruct (Nat.eqb i id) eqn:E; [|discriminate H].
  inversion H; subst; simpl. split; auto.
  destruct (sfly s) as [t2|] eqn:F; auto. exfalso.
  pose proof F as F'. apply (i_fly s I) in F. pose proof (exp_holds _ F) as Hh.
  assert (Ht : holds (spc_of s t) = true) by (rewrite P; reflexivity).
  assert (t2 = t) by (eapply simple_lock_is_mutex; eauto). subst. rewrite P in F. discriminate.
Qed.

Theorem simple_exporter_shutdown_at_most_once s : sreachable s -> nshut s <= 1.
Proof. intros R. apply (i_nshut s (sreachable_inv s R)). Qed.

Example simple_demo :
  exists s, srun sinit [(1, SCallOnEnd 7); (2, SCallOnEnd 8); (1, SXchgFlag false); (2, SXchgFlag true); (2, SLdFlag true);
                        (1, SExpBegin [7]); (2, SSpin); (1, SExpEnd true); (1, SStFlag0); (2, SLdFlag false);
                        (2, SXchgFlag false); (2, SExpBegin [8]); (1, SRetOnEnd 7)] = Some s /\ sexported s = [7; 8].
Proof. eexists. split; [vm_compute; reflexivity | reflexivity]. Qed.
