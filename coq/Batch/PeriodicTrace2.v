(* MODEL |= SPEC for the periodic exporting metric reader, C02: every event trace the acceptor of Batch/Periodic.v accepts
   from [rinit] passes the history checker periodic_spec2 (the [pw] walker, [pw_step]) that ./check runs on the
   implementation's traces.  (Batch/PeriodicTrace.v has the C03 checker periodic_walk3.)

     accepted_trace_meets_periodic_spec2      rrun rinit tr = Some s -> pw_fail (fold_left pw_step (rpevs tr) pw_init) = []
     accepted_tokens_meet_periodic_spec2      the same for a raw token trace whose parse is rpevs tr
     accepted_trace_simulates_periodic_spec2  the walker state describes the model state reached (relation PR)

   No side condition is needed (the model as tightened for F30: the caller flushes the exporter only after it has read its
   ticket as published).  Simulation relation: PA (nrec, shutret -> a Shutdown returned, cur = the collection being
   exported), PB (every thread inside ForceFlush has a walker entry (r0, c0, cov, flw) with r0 <= nrec; for a waiter with
   ticket k: r0 <= rmark k, cov holds once k <= rdone s, flw holds once the model's fl is set), pw_fail = [], where
   [rdone s] = max of `notified` and the ticket of the current cycle once its Export has completed and the cycle is not
   cancelled.  At the collect thread's RExpEnd the walker sets cov for every entry with r0 <= n; the cycle's ticket kc has
   rcov s kc (r_cyc s) and n = r_cyc s, so every waiter with k <= kc becomes covered; rdone never grows otherwise. *)
From Coq Require Import Lia List Arith Bool.
From V Require Import Batch.Periodic Batch.PeriodicProofs Batch.PeriodicTrace.
Import ListNotations.
Local Arguments Nat.sub : simpl never.

Definition pw_init : pw := mk_pw 0 false 0 [] None [].
Definition periodic_demo_trace : list (nat * Periodic.rev) :=
  [(1, RRec 1); (1, RCallFlush); (1, RLdShut false); (1, RFaddPending 0);
   (0, RLdPending 1); (0, RSpawn 3); (3, RLdShut false); (3, RCollect 1); (3, RLdCancel false);
   (3, RExpBegin 1); (3, RExpEnd true); (3, RSetValue); (0, RFutReady); (0, RJoin 3); (0, RLdCancel false);
   (0, RLdNotified 0); (0, RCasNotified 0 1 0 true); (0, RCasNotified 0 1 1 false);
   (1, RLdNotified 1); (1, RExpFlush true); (1, RLdNotified 1); (1, RRetFlush true)].
Example periodic_demo_passes_spec2 :
  (exists s, rrun rinit periodic_demo_trace = Some s) /\ pw_fail (fold_left pw_step (rpevs periodic_demo_trace) pw_init) = [].
Proof. split; [eexists; vm_compute; reflexivity | vm_compute; reflexivity]. Qed.
Definition periodic_early_true_trace : list (nat * Periodic.rev) :=
  [(1, RRec 1); (1, RCallFlush); (1, RLdShut false); (1, RFaddPending 0); (1, RLdNotified 0); (1, RRetFlush true)].
Example periodic_early_true_fails_spec2 :
  pw_fail (fold_left pw_step (rpevs periodic_early_true_trace) pw_init) = fail "flush_true_complete:missing_periodic" /\
  rrun rinit periodic_early_true_trace = None.
Proof. split; vm_compute; reflexivity. Qed.

(* ---------------------------------------------------------------- who accepts the event *)
Lemma raccept_cases s t e s' : raccept s (t, e) = Some s' ->
  (t = 0 /\ r_joined s = false /\ raccept_worker s e = Some s') \/
  (exists p, t <> 0 /\ r_coll s = Some (t, p) /\ raccept_coll s t p e = Some s') \/
  (t <> 0 /\ raccept_app s t e = Some s').
Proof.
  intros H. unfold raccept in H. destruct t as [|t]; cbn [fst snd] in H.
  - left. destruct (r_joined s); [discriminate | auto].
  - right. destruct (r_coll s) as [[c p]|] eqn:C; [|right; auto].
    destruct (Nat.eqb (S t) c) eqn:E; [|right; auto].
    apply Nat.eqb_eq in E. subst c. left. exists p. auto.
Qed.

Ltac rwcases H W e :=
  unfold raccept_worker in H;
  match type of H with context [r_wp ?s] => destruct (r_wp s) eqn:W end;
  destruct e; try discriminate H; rbreak H; inversion H; subst; clear H; rbools; subst.
Ltac rccases H p e :=
  unfold raccept_coll in H;
  destruct p; destruct e; try discriminate H; rbreak H; inversion H; subst; clear H; rbools; subst.
Ltac racases H A e :=
  unfold raccept_app in H;
  match type of H with context [r_ap ?s ?t] => destruct (r_ap s t) eqn:A end;
  destruct e; try discriminate H; rbreak H; inversion H; subst; clear H; rbools; subst.

Lemma no_export_after_shutdown_inv s t n : RInv s -> 0 < r_sh_done s -> raccept s (t, RExpBegin n) = None.
Proof.
  intros I D. pose proof (q_shdone s I D) as J. destruct (q_joined s I J) as (C & W & S1).
  unfold raccept; cbn [fst snd]. destruct t as [|t].
  - rewrite J. reflexivity.
  - rewrite C. unfold raccept_app. destruct (r_ap s (S t)); try reflexivity. destruct last; destruct fl; reflexivity.
Qed.

(* ---------------------------------------------------------------- walker-only facts *)
Definition pent := (nat * nat * bool * bool)%type.

Lemma pw_get_del_other t t' l : t' <> t -> pw_get t' (pw_del t l) = pw_get t' l.
Proof.
  intros N. induction l as [|[u v] l IH]; simpl; auto.
  destruct (Nat.eqb_spec u t) as [->|M]; simpl.
  - destruct (Nat.eqb_spec t' t); [contradiction | exact IH].
  - rewrite IH. reflexivity.
Qed.

Lemma pw_get_map_end n t l :
  pw_get t (map (fun x : nat * pent => let '(t, (r0, c0, cov, fl)) := x in (t, (r0, c0, cov || Nat.leb r0 n, fl))) l) =
  option_map (fun v : pent => let '(r0, c0, cov, fl) := v in (r0, c0, cov || Nat.leb r0 n, fl)) (pw_get t l).
Proof. induction l as [|[u [[[r0 c0] cov] fl]] l IH]; simpl; auto. destruct (Nat.eqb t u); auto. Qed.

Lemma pw_get_map_flush t t0 l :
  pw_get t0 (map (fun x : nat * pent => let '(t', (r0, c0, cov, fl)) := x in (t', (r0, c0, cov, fl || (Nat.eqb t t' && cov)))) l) =
  option_map (fun v : pent => let '(r0, c0, cov, fl) := v in (r0, c0, cov, fl || (Nat.eqb t t0 && cov))) (pw_get t0 l).
Proof.
  induction l as [|[u [[[r0 c0] cov] fl]] l IH]; simpl; auto.
  destruct (Nat.eqb_spec t0 u) as [->|N]; auto.
Qed.

Lemma pw_fl_other w t e t0 : t0 <> t -> (forall r, e <> RExpEnd r) ->
  pw_get t0 (pw_fl (pw_step w (RPEv t e))) = pw_get t0 (pw_fl w).
Proof.
  intros N NE. destruct e; simpl; try reflexivity.
  - apply Nat.eqb_neq in N. rewrite N. apply Nat.eqb_neq in N. apply pw_get_del_other; exact N.
  - destruct r; simpl; apply pw_get_del_other; exact N.
  - exfalso. eapply NE; reflexivity.
  - rewrite pw_get_map_flush. destruct (pw_get t0 (pw_fl w)) as [[[[r0 c0] cov] fl]|]; simpl; auto.
    assert (X : Nat.eqb t t0 = false) by (apply Nat.eqb_neq; auto). rewrite X. simpl. rewrite orb_false_r. reflexivity.
Qed.

(* ---------------------------------------------------------------- part A: data *)
Record PA (w : pw) (s : rst) : Prop := {
  pa_nrec : pw_nrec w = r_nrec s;
  pa_shut : pw_shutret w = true -> 0 < r_sh_done s;
  pa_cur : forall c n, r_coll s = Some (c, RCExpEnd n) -> pw_cur w = Some n
}.

Lemma PA_step w s t e s' : PA w s -> raccept s (t, e) = Some s' -> PA (pw_step w (RPEv t e)) s'.
Proof.
  intros [Hn Hs Hc] H.
  destruct (raccept_cases _ _ _ _ H) as [(-> & J & H1)|[(p & N & C & H1)|(N & H1)]]; clear H.
  - rwcases H1 W e; constructor; simpl; auto.
    all: try (intros cx nx X; rewrite X in *; discriminate).
    all: intros cx nx X; discriminate X.
  - rccases H1 p e; constructor; simpl; auto.
    all: intros cx nx X; inversion X; subst; try reflexivity.
  - racases H1 A e.
    all: try match goal with |- context [pw_step _ (RPEv _ (RRetFlush ?r))] => destruct r eqn:? end.
    all: constructor; simpl; auto; try lia.
Qed.

(* ---------------------------------------------------------------- part B: ForceFlush callers *)
(* the ticket of the current cycle once its Export has completed and the cycle is not cancelled (0 = none).  The cancel
   flag is reset only when a cycle starts and only ever set afterwards, so "not cancelled now" implies that the collect
   thread read it false and took the Export path *)
Definition done_k (s : rst) : nat :=
  match r_wp s with
  | RWWait k _ | RWTimedOut k _ | RWJoin k _ =>
      match r_coll s with Some (_, p) => if coll_done p && negb (r_cancel s) then k else 0 | None => 0 end
  | RWJoined k => if r_cancel s then 0 else k
  | RWNotify k | RWCas k _ => k
  | _ => 0
  end.
(* tickets up to [rdone s] are covered by a completed Export: published ones and the one about to be published *)
Definition rdone (s : rst) : nat := Nat.max (r_notified s) (done_k s).

Definition in_flush (a : rapc) : bool := match a with RAFlush0 | RAFlush1 | RAFlushWait _ _ _ => true | _ => false end.

Definition PB (w : pw) (s : rst) : Prop :=
  forall t, in_flush (r_ap s t) = true ->
    exists r0 c0 cov flw, pw_get t (pw_fl w) = Some (r0, c0, cov, flw) /\ r0 <= r_nrec s /\
      forall k last fl, r_ap s t = RAFlushWait k last fl ->
        r0 <= rmark s k /\ (k <= rdone s -> cov = true) /\ (fl <> None -> flw = true).

Lemma rdone_le_pending s : RInv s -> rdone s <= r_pending s.
Proof.
  intros I. pose proof (q_wp s I) as Iwp. pose proof (q_notified s I) as N. unfold rwp_inv, rcov in Iwp. unfold rdone, done_k.
  destruct (r_wp s); repeat match goal with H : _ /\ _ |- _ => destruct H | H : exists _, _ |- _ => destruct H end;
    try lia.
  all: try (destruct (r_coll s) as [[c0 p0]|]; try lia; destruct (coll_done p0 && negb (r_cancel s)); lia).
  all: destruct (r_cancel s); lia.
Qed.

Lemma rdone_worker s e s' : RInv s -> raccept_worker s e = Some s' -> rdone s' <= rdone s.
Proof.
  intros I H. pose proof (q_wp s I) as Iwp. unfold rwp_inv in Iwp. unfold rdone, done_k.
  rwcases H W e; simpl; rewrite ?W; simpl.
  all: repeat match goal with H : _ /\ _ |- _ => destruct H | H : exists _, _ |- _ => destruct H end.
  all: repeat match goal with H : r_coll _ = _ |- _ => rewrite H in * end; simpl.
  all: try (destruct (r_cancel s); simpl; lia).
  all: try lia.
  rewrite andb_false_r. lia.
Qed.

Lemma rdone_coll s c p e s' : r_coll s = Some (c, p) -> raccept_coll s c p e = Some s' -> (forall r, e <> RExpEnd r) ->
  rdone s' <= rdone s.
Proof.
  intros C H NE. unfold rdone, done_k. rewrite C.
  rccases H p e; simpl; try lia.
  all: try (exfalso; eapply NE; reflexivity).
  all: destruct (r_wp s); simpl; try lia.
  all: destruct (r_cancel s); simpl; try discriminate; lia.
Qed.

Lemma rapp_frame s u e s' : raccept_app s u e = Some s' ->
  r_wp s' = r_wp s /\ r_coll s' = r_coll s /\ r_cancel s' = r_cancel s /\ r_notified s' = r_notified s /\
  r_nrec s <= r_nrec s' /\ (exists m, r_marks s' = r_marks s ++ m) /\ (forall t0, t0 <> u -> r_ap s' t0 = r_ap s t0).
Proof.
  intros H. racases H A e; simpl; repeat split; auto; try lia.
  all: try (exists []; rewrite app_nil_r; reflexivity).
  all: try (eexists; reflexivity).
  all: intros t0 N; apply rupd_other; exact N.
Qed.

Lemma rdone_app s u e s' : raccept_app s u e = Some s' -> rdone s' = rdone s.
Proof.
  intros H. destruct (rapp_frame _ _ _ _ H) as (W & C & Ca & N & _). unfold rdone, done_k. rewrite W, C, Ca, N. reflexivity.
Qed.

Lemma PB_frame w w' s s' : PB w s -> r_ap s' = r_ap s -> r_nrec s' = r_nrec s -> r_marks s' = r_marks s ->
  rdone s' <= rdone s -> pw_fl w' = pw_fl w -> PB w' s'.
Proof.
  intros HB E1 E2 E3 E4 E5 t F. rewrite E1 in F. destruct (HB t F) as (r0 & c0 & cov & flw & G & L & P).
  exists r0, c0, cov, flw. rewrite E5, E2. split; [exact G|]. split; [exact L|].
  intros k last fl A. rewrite E1 in A. destruct (P k last fl A) as (P1 & P2 & P3). unfold rmark in *. rewrite E3.
  repeat split; auto. intros X. apply P2. lia.
Qed.

Lemma PB_gen w w' s s' t : RInv s -> PB w s ->
  (forall t0, t0 <> t -> r_ap s' t0 = r_ap s t0) ->
  (forall t0, t0 <> t -> pw_get t0 (pw_fl w') = pw_get t0 (pw_fl w)) ->
  r_nrec s <= r_nrec s' -> (exists m, r_marks s' = r_marks s ++ m) -> rdone s' <= rdone s ->
  (in_flush (r_ap s' t) = true ->
     exists r0 c0 cov flw, pw_get t (pw_fl w') = Some (r0, c0, cov, flw) /\ r0 <= r_nrec s' /\
       forall k last fl, r_ap s' t = RAFlushWait k last fl ->
         r0 <= rmark s' k /\ (k <= rdone s' -> cov = true) /\ (fl <> None -> flw = true)) ->
  PB w' s'.
Proof.
  intros I HB F1 F2 Nr [m Em] Ed Own t0 F.
  destruct (Nat.eq_dec t0 t) as [->|N]; [exact (Own F)|].
  rewrite (F1 t0 N) in F. destruct (HB t0 F) as (r0 & c0 & cov & flw & G & L & P).
  exists r0, c0, cov, flw. rewrite (F2 t0 N). split; [exact G|]. split; [lia|].
  intros k last fl A. rewrite (F1 t0 N) in A. destruct (P k last fl A) as (P1 & P2 & P3).
  pose proof (q_thr s I t0) as T. unfold rthr_inv in T. rewrite A in T. destruct T as [Tk _].
  pose proof (q_marks_len s I) as ML.
  repeat split; auto.
  - unfold rmark in *. rewrite Em, app_nth1 by lia. exact P1.
  - intros X. apply P2. lia.
Qed.


Lemma PB_step w s t e s' : RInv s -> PA w s -> PB w s -> raccept s (t, e) = Some s' -> PB (pw_step w (RPEv t e)) s'.
Proof.
  intros I HA HB H.
  destruct (raccept_cases _ _ _ _ H) as [(-> & J & H1)|[(p & N & C & H1)|(N & H1)]]; clear H.
  - (* the worker *)
    pose proof (rdone_worker s e s' I H1) as RD.
    rwcases H1 W e.
    all: eapply (PB_frame w); [exact HB | reflexivity | reflexivity | reflexivity | exact RD | reflexivity].
  - (* the collect thread *)
    destruct (match e with RExpEnd _ => true | _ => false end) eqn:IsEnd.
    + destruct e; try discriminate IsEnd. clear IsEnd.
      pose proof (q_wp s I) as Iwp. unfold rwp_inv in Iwp.
      unfold raccept_coll in H1. destruct p; try discriminate H1. inversion H1; subst; clear H1.
      intros t0 F. simpl in F. destruct (HB t0 F) as (r0 & c0 & cov & flw & G & L & P).
      simpl pw_fl. rewrite pw_get_map_end, G. simpl.
      rewrite (pa_cur w s HA t n C).
      exists r0, c0, (cov || (r0 <=? n)), flw. split; [reflexivity|]. split; [exact L|].
      intros k last fl A. simpl in A. destruct (P k last fl A) as (P1 & P2 & P3).
      split; [exact P1|]. split; [|exact P3].
      intros X. destruct (le_lt_dec k (r_notified s)) as [L1|L1].
      { rewrite P2; [reflexivity | unfold rdone; lia]. }
      apply orb_true_iff. right. apply Nat.leb_le.
      pose proof (q_thr s I t0) as T. unfold rthr_inv in T. rewrite A in T. destruct T as [Tk _].
      unfold rdone, done_k in X. simpl in X.
      destruct (r_wp s) eqn:W; simpl in X;
        repeat match goal with Hx : _ /\ _ |- _ => destruct Hx | Hx : exists _, _ |- _ => destruct Hx end; try congruence; try lia.
      all: match goal with Hc : r_coll _ = Some (_, ?x) |- _ => rewrite C in Hc; inversion Hc; subst x end.
      all: match goal with Hr : after_collect _ = true -> _ |- _ => destruct (Hr eq_refl) as [_ Cov] end.
      all: match goal with Hn : coll_n_ok _ _ |- _ => simpl in Hn; subst n end.
      all: destruct (r_cancel s); simpl in X; try lia.
      all: assert (Y : rmark s k <= r_cyc s) by (apply Cov; lia); lia.
    + assert (NE : forall r0, e <> RExpEnd r0) by (intros r0 ->; discriminate IsEnd).
      pose proof (rdone_coll s t p e s' C H1 NE) as RD.
      rccases H1 p e; try discriminate IsEnd.
      all: eapply (PB_frame w); [exact HB | reflexivity | reflexivity | reflexivity | exact RD | reflexivity].
  - (* an application thread *)
    destruct (rapp_frame _ _ _ _ H1) as (_ & _ & _ & _ & Nr & Mk & Fr).
    pose proof (rdone_app _ _ _ _ H1) as RD. pose proof (rdone_le_pending s I) as RP.
    pose proof (q_marks_len s I) as ML. pose proof (q_thr s I t) as T. unfold rthr_inv in T.
    assert (NE : forall r0, e <> RExpEnd r0).
    { intros r0 ->. unfold raccept_app in H1. destruct (r_ap s t); try discriminate H1. destruct last; destruct fl; discriminate H1. }
    apply (PB_gen w _ s s' t I HB Fr); [intros t0 N0; apply pw_fl_other; auto | exact Nr | exact Mk | lia |].
    rewrite RD. clear Fr Nr Mk NE RD.
    racases H1 A e; simpl r_ap; rewrite ?rupd_same; simpl in_flush; intros F; try discriminate F.
    all: try (rewrite A in F; discriminate F).
    all: try (simpl; exact (HB t F)).
    (* ForceFlush is called: a fresh entry *)
    { simpl. rewrite Nat.eqb_refl. exists (pw_nrec w), (pw_cancels w), false, false.
      split; [reflexivity|]. split; [rewrite (pa_nrec w s HA); lia|]. intros k last fl X; discriminate X. }
    all: assert (F0 : in_flush (r_ap s t) = true) by (rewrite A; reflexivity).
    all: destruct (HB t F0) as (r0 & c0 & cov & flw & G & L & P).
    + exists r0, c0, cov, flw. split; [exact G|]. split; [exact L|]. intros k last fl X; discriminate X.
    + (* the ticket *)
      exists r0, c0, cov, flw. split; [exact G|]. split; [exact L|]. intros k last fl X. inversion X; subst; clear X.
      unfold rmark. simpl. replace (S (r_pending s) - 1) with (length (r_marks s)) by lia. rewrite nth_middle.
      split; [exact L|]. split; [intros X; lia | intros X; contradiction].
    + exists r0, c0, cov, flw. split; [exact G|]. split; [exact L|]. intros k0 last fl X. inversion X; subst; clear X.
      destruct (P _ _ _ A) as (P1 & P2 & P3). auto.
    + exists r0, c0, cov, flw. split; [exact G|]. split; [exact L|]. intros k0 last fl X. inversion X; subst; clear X.
      destruct (P _ _ _ A) as (P1 & P2 & P3). auto.
    + exists r0, c0, cov, flw. split; [exact G|]. split; [exact L|]. intros k0 last fl0 X. inversion X; subst; clear X.
      destruct (P _ _ _ A) as (P1 & P2 & P3). auto.
    + (* exporter->ForceFlush: the caller has read its ticket as published *)
      destruct (P _ _ _ A) as (P1 & P2 & P3). simpl in T. destruct T as [Tk Tv]. specialize (Tv _ eq_refl).
      assert (Cv : cov = true) by (apply P2; unfold rdone; lia).
      simpl. rewrite pw_get_map_flush, G. simpl. rewrite Nat.eqb_refl, Cv. simpl.
      exists r0, c0, true, (flw || true). split; [reflexivity|]. split; [exact L|].
      intros k0 last fl X. inversion X; subst; clear X. split; [exact P1|]. split; [reflexivity | intros _; apply orb_true_r].
Qed.

(* ---------------------------------------------------------------- part D: no clause of the checker fails *)
Lemma ret_flush_true_pstate s t s' : RInv s -> raccept s (t, RRetFlush true) = Some s' ->
  exists k v, r_ap s t = RAFlushWait k (Some v) (Some true) /\ k <= v /\ v <= r_notified s /\ 1 <= k.
Proof.
  intros I H. pose proof (q_thr s I t) as T. unfold rthr_inv in T.
  destruct (raccept_cases _ _ _ _ H) as [(-> & J & H1)|[(p & N & C & H1)|(N & H1)]]; clear H.
  - unfold raccept_worker in H1. destruct (r_wp s); try discriminate H1. destruct lastshut; discriminate H1.
  - unfold raccept_coll in H1. destruct p; discriminate H1.
  - unfold raccept_app in H1. destruct (r_ap s t) as [| | |k last fl| | | | |r0]; try discriminate H1.
    destruct fl as [[|]|]; destruct last as [v|]; simpl in H1; try discriminate H1.
    destruct (k <=? v) eqn:E; simpl in H1; [|discriminate H1]. apply Nat.leb_le in E.
    destruct T as [Tk Tv]. specialize (Tv v eq_refl). exists k, v. repeat split; auto; lia.
Qed.

Lemma PD_step w s t e s' : RInv s -> PA w s -> PB w s -> pw_fail w = [] -> raccept s (t, e) = Some s' ->
  pw_fail (pw_step w (RPEv t e)) = [].
Proof.
  intros I HA HB HF H. destruct e; simpl; try exact HF.
  - (* ForceFlush returns *)
    destruct r; simpl; [|exact HF]. rewrite HF. simpl.
    destruct (ret_flush_true_pstate s t s' I H) as (k & v & A & L1 & L2 & L3).
    assert (F0 : in_flush (r_ap s t) = true) by (rewrite A; reflexivity).
    destruct (HB t F0) as (r0 & c0 & cov & flw & G & L & P). destruct (P _ _ _ A) as (P1 & P2 & P3).
    rewrite G, P2, P3; [reflexivity | discriminate | unfold rdone; lia].
  - (* Export begins: not after a returned Shutdown *)
    rewrite HF. simpl. destruct (pw_shutret w) eqn:SR; [|reflexivity]. exfalso.
    rewrite (no_export_after_shutdown_inv s t n I (pa_shut w s HA SR)) in H. discriminate H.
Qed.

(* ---------------------------------------------------------------- the relation and the fold *)
Record PR (w : pw) (s : rst) : Prop := { pr_a : PA w s; pr_b : PB w s; pr_f : pw_fail w = [] }.

Lemma PR_init : PR pw_init rinit.
Proof.
  constructor; [constructor; simpl; auto; discriminate | intros t F; discriminate F | reflexivity].
Qed.

Lemma PR_step w s t e s' : RInv s -> PR w s -> raccept s (t, e) = Some s' -> PR (pw_step w (RPEv t e)) s'.
Proof.
  intros I [HA HB HF] H. constructor.
  - exact (PA_step w s t e s' HA H).
  - exact (PB_step w s t e s' I HA HB H).
  - exact (PD_step w s t e s' I HA HB HF H).
Qed.

Lemma PR_run : forall tr w s s', RInv s -> PR w s -> rrun s tr = Some s' -> PR (fold_left pw_step (rpevs tr) w) s'.
Proof.
  induction tr as [|[t e] tr IH]; intros w s s' I HR H; simpl in H.
  - inversion H; subst. exact HR.
  - destruct (raccept s (t, e)) as [s1|] eqn:A; [|discriminate].
    simpl. apply (IH _ s1 s'); [exact (raccept_preserves _ _ _ I A) | exact (PR_step w s t e s1 I HR A) | exact H].
Qed.

(* every accepted trace is simulated by the checker's walker ... *)
Theorem accepted_trace_simulates_periodic_spec2 tr s :
  rrun rinit tr = Some s -> PR (fold_left pw_step (rpevs tr) pw_init) s.
Proof. intros H. exact (PR_run tr pw_init rinit s RInv_init PR_init H). Qed.

(* ... hence passes the C02 history checker of the periodic reader *)
Theorem accepted_trace_meets_periodic_spec2 tr s :
  rrun rinit tr = Some s -> pw_fail (fold_left pw_step (rpevs tr) (mk_pw 0 false 0 [] None [])) = [].
Proof. intros H. exact (pr_f _ _ (accepted_trace_simulates_periodic_spec2 tr s H)). Qed.

(* token level: a raw trace whose parse is the event list of an accepted trace passes periodic_spec2 *)
Corollary accepted_tokens_meet_periodic_spec2 toks tr s :
  rparse_trace toks = rpevs tr -> rrun rinit tr = Some s -> periodic_spec2 toks = [].
Proof. intros P H. unfold periodic_spec2. rewrite P. exact (accepted_trace_meets_periodic_spec2 tr s H). Qed.
