(* PROOFS for the batch-processor acceptor (Batch/Model.v): the data invariant InvA is preserved by every
   accepted event of every thread.  See Batch/Theorems.v for the property statements. *)
From V Require Import Batch.Model.
From Coq Require Import Lia List Arith Bool.
Import ListNotations.

Definition pb (s : st) : list nat :=
  match wp s with WExpBegin _ _ _ b => b | WExpEnd _ _ _ b => b | _ => [] end.
Definition mark (s : st) (j : nat) : nat := nth (j - 1) (marks s) 0.
(* tickets 1..k were issued when at most x records had been accepted *)
Definition covers (s : st) (k x : nat) : Prop := k <= pending s /\ forall j, 1 <= j <= k -> mark s j <= x.
Definition batch_ok (s : st) (b : list nat) : Prop := 1 <= length b <= Bsz s.

Definition wp_d (w : wpc) : bool :=
  match w with
  | WTop d | WTicket d _ | WBatch d _ _ | WExpBegin d _ _ _ | WExpEnd d _ _ _ | WNotify d _ _
  | WFlushCall d _ _ | WLd2 d _ _ | WCas d _ _ _ => d
  | _ => false
  end.

Definition wp_inv (s : st) : Prop :=
  match wp s with
  | WIdle | WTop _ => True
  | WTicket _ k => k <= pending s
  | WBatch _ k rem => covers s k (deq s + rem) /\ 0 < rem /\ deq s + rem <= length (enq s)
  | WExpBegin _ k rem b | WExpEnd _ k rem b => covers s k (deq s + rem) /\ deq s + rem <= length (enq s) /\ batch_ok s b
  | WNotify _ k _ | WFlushCall _ k _ => covers s k (nexported s)
  | WLd2 _ k _ => covers s k (flushed s)
  | WCas _ k v _ => covers s k (flushed s) /\ v < k
  | WDrain0 => is_shut s = true
  | WDrainLd p n => is_shut s = true /\ (forall l, latch s = Some l -> l <= nexported s) /\ (p = None \/ n = None)
  | WDone => is_shut s = true /\ forall l, latch s = Some l -> l <= nexported s
  end.

Record InvA (s : st) : Prop := {
  a_prefix : firstn (deq s) (enq s) = concat (exported s) ++ pb s;
  a_deq : deq s <= length (enq s);
  a_bound : length (enq s) - deq s <= Qsz s;
  a_marks_len : length (marks s) = pending s;
  a_marks_le : forall j, 1 <= j <= pending s -> mark s j <= length (enq s);
  a_notified : notified s <= pending s;
  a_published : forall j, 1 <= j <= notified s -> mark s j <= flushed s;
  a_flushed : flushed s <= nexported s;
  a_batches : Forall (batch_ok s) (exported s);
  a_inflight : inflight s = match wp s with WExpEnd _ _ _ b => Some b | _ => None end;
  a_wp : wp_inv s;
  a_drain : wp_d (wp s) = true -> is_shut s = true;
  a_latch : (is_shut s = true <-> latch s <> None) /\ (forall l, latch s = Some l -> l <= length (enq s))
}.

Lemma nexp_deq s : InvA s -> deq s = nexported s + length (pb s).
Proof.
  intros I. pose proof (f_equal (@length nat) (a_prefix s I)) as H.
  rewrite firstn_length, app_length in H. pose proof (a_deq s I). unfold nexported. lia.
Qed.

Lemma InvA_init q b : InvA (init q b).
Proof.
  constructor; simpl; auto; try lia.
  all: try (intros j Hj; lia).
  - exact I.
  - split; [split; [discriminate | intros H; exfalso; apply H; reflexivity ] | discriminate ].
Qed.


Ltac break_if :=
  match goal with
  | H : context [if ?c then _ else _] |- _ => let E := fresh "E" in destruct c eqn:E
  end.
Ltac inv_some :=
  match goal with
  | H : Some _ = Some _ |- _ => inversion H; subst; clear H
  | H : None = Some _ |- _ => discriminate H
  end.
Ltac bools :=
  repeat match goal with
  | H : true = ?x |- _ => lazymatch x with true => fail | false => fail | _ => symmetry in H end
  | H : false = ?x |- _ => lazymatch x with true => fail | false => fail | _ => symmetry in H end
  | H : andb _ _ = true |- _ => apply andb_prop in H; destruct H
  | H : Nat.eqb _ _ = true |- _ => apply Nat.eqb_eq in H
  | H : Nat.eqb _ _ = false |- _ => apply Nat.eqb_neq in H
  | H : Nat.leb _ _ = true |- _ => apply Nat.leb_le in H
  | H : Nat.leb _ _ = false |- _ => apply Nat.leb_gt in H
  | H : Nat.ltb _ _ = true |- _ => apply Nat.ltb_lt in H
  | H : Nat.ltb _ _ = false |- _ => apply Nat.ltb_ge in H
  | H : Bool.eqb _ _ = true |- _ => apply Bool.eqb_prop in H
  end.

Lemma covers_mono s k x y : covers s k x -> x <= y -> covers s k y.
Proof. intros [H1 H2] L; split; auto. intros j Hj. specialize (H2 j Hj). lia. Qed.

Lemma covers_le s k k' x : covers s k x -> k' <= k -> covers s k' x.
Proof. intros [H1 H2] L; split; [lia|]. intros j Hj. apply H2. lia. Qed.

Lemma queue_len s : deq s <= length (enq s) -> length (queue s) = length (enq s) - deq s.
Proof. intros. unfold queue. rewrite skipn_length. lia. Qed.

Lemma firstn_queue s m : firstn (deq s + m) (enq s) = firstn (deq s) (enq s) ++ firstn m (queue s).
Proof.
  unfold queue. rewrite <- (firstn_skipn (deq s) (enq s)) at 1.
  rewrite firstn_app. rewrite firstn_length.
  destruct (Nat.le_gt_cases (deq s) (length (enq s))) as [L|L].
  - rewrite Nat.min_l by lia. replace (deq s + m - deq s) with m by lia.
    rewrite (firstn_all2 (n := deq s + m)); [reflexivity| rewrite firstn_length; lia].
  - rewrite Nat.min_r by lia. rewrite (skipn_all2 (n := deq s)) by lia. rewrite !firstn_nil, !app_nil_r.
    rewrite firstn_firstn. f_equal. lia.
Qed.


Ltac use_marks j :=
  repeat match goal with
  | H : forall i : nat, 1 <= i <= ?b -> _ |- _ =>
      first [ (let P := fresh in assert (P : 1 <= j <= b) by lia; specialize (H j P); clear P) | clear H ]
  end.
Ltac marks_goal := let j := fresh "j" in let Hj := fresh "Hj" in intros j Hj; use_marks j; lia.

Lemma worker_preserves s e s' : InvA s -> accept_worker s e = Some s' -> InvA s'.
Proof.
  intros I H. pose proof (nexp_deq s I) as ND.
  destruct I as [Ipre Ideq Ibound Imlen Imle Inot Ipub Iflu Ibat Iinf Iwp Idr Ilat].
  pose proof (queue_len s Ideq) as QL.
  unfold accept_worker in H.
  destruct (wp s) eqn:W; destruct e; try discriminate H;
    repeat match goal with o : option nat |- _ => destruct o end; simpl in H;
    repeat break_if; try discriminate H; inv_some; bools.
  all: unfold wp_inv in Iwp; rewrite W in Iwp.
  all: unfold pb in *; rewrite ?W in *; simpl in Idr.
  all: repeat match goal with b : bool |- _ => destruct b end.
  all: unfold wp_inv, pb, nexported, covers, mark, batch_ok, after_notify in *; simpl in *.
  all: repeat match goal with H : _ /\ _ |- _ => destruct H end.
  all: constructor; unfold wp_inv, pb, nexported, covers, mark, batch_ok, after_notify in *; simpl in *; rewrite ?W; auto.
  all: rewrite ?concat_app, ?app_length in *; simpl in *; rewrite ?app_nil_r in *; simpl in *.
  all: rewrite ?firstn_length; try (rewrite firstn_queue, Ipre; reflexivity).
  all: try lia; try congruence.
  all: try (apply Forall_app; split; [assumption | constructor; [lia | constructor]]).
  all: repeat match goal with |- _ /\ _ => split end; try lia; try congruence; try marks_goal.
  all: bools.
  all: try (intros l Hl; match goal with H : forall l, latch _ = Some l -> _ |- _ => specialize (H l Hl) end; lia).
  all: auto.
Qed.


Lemma nth_app_marks (l : list nat) x j : 1 <= j <= length l -> nth (j - 1) (l ++ [x]) 0 = nth (j - 1) l 0.
Proof. intros H. apply app_nth1. lia. Qed.

Lemma firstn_app_le (l : list nat) x n : n <= length l -> firstn n (l ++ [x]) = firstn n l.
Proof. intros H. rewrite firstn_app. replace (n - length l) with 0 by lia. simpl. apply app_nil_r. Qed.

Lemma app_preserves s t e s' : InvA s -> accept_app s t e = Some s' -> InvA s'.
Proof.
  intros I H. pose proof (nexp_deq s I) as ND.
  destruct I as [Ipre Ideq Ibound Imlen Imle Inot Ipub Iflu Ibat Iinf Iwp Idr Ilat].
  pose proof (queue_len s Ideq) as QL.
  unfold accept_app, with_ap in H.
  destruct (ap s t) eqn:A; destruct e; try discriminate H;
    repeat match goal with o : option nat |- _ => destruct o end; simpl in H;
    repeat break_if; try discriminate H;
    repeat match goal with
           | H : match ?x with _ => _ end = Some _ |- _ => destruct x eqn:?; try discriminate H
           end; inv_some; bools.
  all: try match goal with W : wp _ = WDone |- _ => unfold wp_inv, pb in *; rewrite W in * end.
  all: constructor; unfold wp_inv, wp_d, pb, nexported, covers, mark, batch_ok, set_ap, opt_or in *; simpl in *; auto.
  all: rewrite ?app_length in *; simpl in *; try lia.
  all: try (rewrite firstn_app_le by lia; assumption).
  all: try (match goal with |- context [wp ?x] => destruct (wp x) eqn:W end; simpl in *; auto;
            repeat match goal with H : _ /\ _ |- _ => destruct H end; repeat split; try lia; try congruence).
  all: try (let j := fresh "j" in let Hj := fresh "Hj" in intros j Hj;
            first [ rewrite nth_app_marks by lia; use_marks j; lia
                  | match goal with Hj' : _ <= _ <= S (pending ?x) |- _ => destruct (Nat.eq_dec j (S (pending x))) as [->|];
                    [ replace (S (pending x) - 1) with (length (marks x)) by lia; rewrite nth_middle; lia
                    | rewrite nth_app_marks by lia; use_marks j; lia ] end
                  | use_marks j; lia ]).
  all: bools; try lia.
  all: repeat match goal with H : _ /\ _ |- _ => destruct H end.
  all: try (destruct (latch _) eqn:L; simpl in * ).
  all: repeat split; intros; try congruence; try discriminate.
  all: try (match goal with H : Some _ = Some _ |- _ => inversion H; subst; clear H end).
  all: repeat match goal with H : forall l, Some ?a = Some l -> _ |- _ => specialize (H _ eq_refl) end; try lia.
  all: try (exfalso; match goal with H : _ <-> None <> None |- _ => destruct H as [H _]; apply H; auto end).
  all: try (match goal with H : _ <-> _ |- _ => apply H; congruence end).
Qed.
