(* THEOREMS about the batch-processor acceptor (C01, C02, C03).  A state is reachable when some event trace
   (any number of threads, any interleaving, any queue size and batch size) is accepted from [init q b].
   Every statement below is for all reachable states / all accepted steps. *)
From V Require Import Batch.Model Batch.ProofsA Batch.ProofsB.
From Coq Require Import Lia List Arith Bool.
Import ListNotations.

Ltac split_matches H :=
  repeat match type of H with
         | context [match ?x with _ => _ end] => destruct x eqn:?; try discriminate H
         end.

Definition Inv (s : st) : Prop := InvA s /\ InvB s.

Lemma Inv_init q b : Inv (init q b).
Proof. split; [apply InvA_init | apply InvB_init]. Qed.

Lemma accept_preserves s te s' : Inv s -> accept s te = Some s' -> Inv s'.
Proof.
  intros [IA IB] H. destruct te as [t e]. unfold accept in H; simpl in H.
  destruct t as [|t].
  - split; [eapply worker_preserves; eauto | eapply worker_preserves_B; eauto].
  - split; [eapply app_preserves; eauto | eapply (app_preserves_B s (S t)); eauto].
Qed.

Lemma run_preserves tr : forall s s', Inv s -> run s tr = Some s' -> Inv s'.
Proof.
  induction tr as [|te tr IH]; intros s s' I H; simpl in H.
  - inversion H; subst; exact I.
  - destruct (accept s te) as [s1|] eqn:A; [|discriminate]. eapply IH; [eapply accept_preserves; eauto | exact H].
Qed.

Definition reachable (q b : nat) (s : st) : Prop := exists tr, run (init q b) tr = Some s.

Theorem reachable_inv q b s : reachable q b s -> Inv s.
Proof. intros [tr H]. eapply run_preserves; [apply Inv_init | exact H]. Qed.

(* ------------------------------------------------------------------ C01 *)

(* What the exporter has been handed (completed batches, then the batch in hand) is exactly the first [deq]
   records the queue accepted, in the order it accepted them: nothing twice, nothing out of order, nothing
   that was not accepted. *)
Theorem batch_exactly_once_fifo q b s :
  reachable q b s -> concat (exported s) ++ pb s = firstn (deq s) (enq s) /\ deq s <= length (enq s).
Proof. intros R. destruct (reachable_inv _ _ _ R) as [IA _]. split; [symmetry; apply (a_prefix s IA) | apply (a_deq s IA)]. Qed.

Lemma In_firstn {A} (x : A) (l : list A) n : In x (firstn n l) -> In x l.
Proof. revert n; induction l as [|y l IH]; intros [|n] H; simpl in *; try tauto. destruct H; eauto. Qed.

Lemma NoDup_firstn {A} (l : list A) n : NoDup l -> NoDup (firstn n l).
Proof.
  revert n; induction l as [|x l IH]; intros n H; destruct n; simpl; try constructor.
  - inversion H; subst. intros Hin. apply H2. eapply In_firstn; eauto.
  - inversion H; subst. apply IH; auto.
Qed.

Theorem batch_no_duplicate q b s :
  reachable q b s -> NoDup (enq s) -> NoDup (concat (exported s) ++ pb s).
Proof. intros R N. destruct (batch_exactly_once_fifo _ _ _ R) as [E _]. rewrite E. apply NoDup_firstn; exact N. Qed.

Theorem batch_queue_bounded q b s : reachable q b s -> length (queue s) <= Qsz s.
Proof.
  intros R. destruct (reachable_inv _ _ _ R) as [IA _].
  rewrite queue_len by apply (a_deq s IA). apply (a_bound s IA).
Qed.

(* a record is refused only when the queue holds max_queue_size records *)
Theorem batch_drop_only_when_full q b s t id s' :
  reachable q b s -> accept s (t, EBufAdd id false) = Some s' -> length (queue s) = Qsz s.
Proof.
  intros R H. pose proof (batch_queue_bounded _ _ _ R) as Bd.
  unfold accept in H; simpl in H. destruct t as [|t].
  - unfold accept_worker in H. destruct (wp s); discriminate.
  - unfold accept_app in H. destruct (ap s (S t)) as [| | | | | | | |k last| | | | |dd old|dd old| |dd r]; try discriminate H;
      try (destruct last; discriminate H); try (destruct old; discriminate H); try (destruct dd; discriminate H).
    match type of H with (if ?c then _ else _) = _ => destruct c eqn:E; [|discriminate H] end.
    apply andb_prop in E. destruct E as [_ E]. apply Bool.eqb_prop in E. symmetry in E. apply Nat.ltb_ge in E. lia.
Qed.

(* ... in particular never when fewer than max_queue_size records were accepted since the ticket of a completed
   flush was taken: a refusal implies that at least max_queue_size records were accepted after every published ticket *)
Theorem batch_no_drop_after_completed_flush q b s t id s' :
  reachable q b s -> accept s (t, EBufAdd id false) = Some s' ->
  forall j, 1 <= j <= notified s -> Qsz s <= length (enq s) - mark s j.
Proof.
  intros R H j Hj. pose proof (batch_drop_only_when_full _ _ _ _ _ _ R H) as F.
  destruct (reachable_inv _ _ _ R) as [IA _].
  pose proof (a_published s IA j Hj). pose proof (a_flushed s IA). pose proof (nexp_deq s IA).
  rewrite queue_len in F by apply (a_deq s IA). pose proof (a_deq s IA). lia.
Qed.

(* producers never wait: at every program point of OnEnd/OnEmit the thread's next event is accepted whatever the
   worker, the exporter and every other thread are doing *)
Theorem batch_producer_never_blocks s t :
  t <> 0 ->
  match ap s t with
  | AOnEnd id => accept s (t, ELdShut (is_shut s)) <> None
  | AOnEndChecked id => accept s (t, EBufAdd id (length (queue s) <? Qsz s)) <> None
  | AOnEndAdded id => accept s (t, EBufSize (length (queue s))) <> None
  | AOnEndOut id => accept s (t, ERetOnEnd id) <> None
  | _ => True
  end.
Proof.
  intros T. destruct t as [|t]; [congruence|].
  destruct (ap s (S t)) eqn:A; auto; unfold accept, accept_app, with_ap; simpl; rewrite A.
  - rewrite Bool.eqb_reflx. destruct (is_shut s); discriminate.
  - rewrite Nat.eqb_refl, Bool.eqb_reflx. simpl. destruct (length (queue s) <? Qsz s); discriminate.
  - rewrite Nat.eqb_refl. discriminate.
  - rewrite Nat.eqb_refl. discriminate.
Qed.

(* ------------------------------------------------------------------ C02 *)

Lemma firstn_of_prefix {A} (l a b : list A) d m : firstn d l = a ++ b -> m <= length a -> firstn m l = firstn m a.
Proof.
  intros H L.
  assert (D : m <= d). { pose proof (f_equal (@length A) H) as E. rewrite firstn_length, app_length in E. lia. }
  replace (firstn m l) with (firstn m (firstn d l)) by (rewrite firstn_firstn; f_equal; lia).
  rewrite H, firstn_app. replace (m - length a) with 0 by lia. simpl. apply app_nil_r.
Qed.

(* taking a ticket records how many records the queue had accepted at that moment *)
Theorem ticket_mark s t old s' :
  t <> 0 -> accept s (t, EFaddPending old) = Some s' -> length (marks s) = pending s ->
  ap s' t = AFlushWait (S old) None /\ mark s' (S old) = length (enq s) /\ pending s' = S old.
Proof.
  intros T H L. destruct t as [|t]; [congruence|]. unfold accept, accept_app in H; simpl in H.
  split_matches H. bools. inversion H; subst; clear H. simpl. unfold mark; simpl.
  rewrite upd_same. repeat split; auto.
  replace (pending s - 0) with (length (marks s)) by lia. apply nth_middle.
Qed.

(* a ForceFlush that returned true with ticket k: every record accepted before the ticket was taken has been
   exported (its Export call has returned), and the exporter's ForceFlush was called after that *)
Theorem flush_true_complete q b s t k :
  reachable q b s -> In (t, k, true) (fl_done s) ->
  mark s k <= flushed s /\ flushed s <= nexported s /\
  firstn (mark s k) (enq s) = firstn (mark s k) (concat (exported s)).
Proof.
  intros R Hin. destruct (reachable_inv _ _ _ R) as [IA IB].
  pose proof (b_fldone s IB t k Hin) as Hk.
  pose proof (a_published s IA k Hk) as P. pose proof (a_flushed s IA) as F.
  repeat split; auto.
  pose proof (a_prefix s IA) as Pre.
  eapply firstn_of_prefix; [exact Pre | unfold nexported in F; lia].
Qed.

(* after any Shutdown call has returned: the worker has exited, the exporter was shut down exactly once, and every
   record accepted before the processor was shut down (the first exchange of is_shutdown) has been exported *)
Theorem shutdown_complete q b s :
  reachable q b s -> sh_done s <> [] ->
  wp s = WDone /\ expshut s = 1 /\ is_shut s = true /\
  exists l, latch s = Some l /\ l <= nexported s /\ firstn l (enq s) = firstn l (concat (exported s)).
Proof.
  intros R Hs. destruct (reachable_inv _ _ _ R) as [IA IB].
  destruct (b_shdone s IB Hs) as (S1 & J & E1).
  pose proof (b_joined s IB J) as W. repeat split; auto.
  pose proof (a_wp s IA) as Iwp. unfold wp_inv in Iwp. rewrite W in Iwp. destruct Iwp as [_ Hl].
  destruct (a_latch s IA) as [[L1 _] _]. destruct (latch s) as [l|] eqn:La; [|exfalso; apply (L1 S1); reflexivity].
  exists l. pose proof (Hl l eq_refl) as Hle. repeat split; auto.
  pose proof (a_prefix s IA) as Pre.
  eapply firstn_of_prefix; [exact Pre | unfold nexported in Hle; lia].
Qed.

Theorem exporter_shutdown_at_most_once q b s : reachable q b s -> expshut s <= 1.
Proof. intros R. destruct (reachable_inv _ _ _ R) as [_ IB]. apply (b_expshut s IB). Qed.

Definition exporter_call (e : ev) : bool :=
  match e with EExpBegin _ | EExpEnd _ | EExpFlush _ | EExpShutdown _ => true | _ => false end.

(* once the exporter has been shut down nobody calls it again *)
Theorem no_exporter_call_after_shutdown q b s t e :
  reachable q b s -> expshut s = 1 -> exporter_call e = true -> accept s (t, e) = None.
Proof.
  intros R E1 X. destruct (reachable_inv _ _ _ R) as [IA IB].
  assert (S1 : is_shut s = true).
  { destruct (is_shut s) eqn:S; auto. destruct (b_pre s IB S) as [E0 _]. lia. }
  assert (J : joined s = true).
  { destruct (b_phase s IB S1) as [[J _]|[t0 [dd [Hh Hx]]]]; auto.
    pose proof (b_thr s IB t0) as T. unfold thr_inv in T. destruct Hx as [Hx|Hx]; rewrite Hx in T; simpl in T; lia. }
  pose proof (b_joined s IB J) as W.
  unfold accept; simpl. destruct t as [|t].
  - unfold accept_worker. rewrite W. destruct e; reflexivity.
  - unfold accept_app. pose proof (b_thr s IB (S t)) as T. unfold thr_inv in T.
    destruct (ap s (S t)) as [| | | | | | | |k0 last| | | | |dd old|dd old| |dd r] eqn:A; destruct e; try discriminate X; try reflexivity;
      try (destruct last; reflexivity); try (destruct dd; reflexivity).
    all: destruct old; try reflexivity. simpl in T. destruct T as (_ & _ & _ & T). lia.
Qed.

(* once the processor is shut down, OnEnd/OnEmit discards its record and ForceFlush reports failure *)
Theorem after_shutdown_calls_inert s t v s' :
  t <> 0 -> is_shut s = true -> accept s (t, ELdShut v) = Some s' ->
  match ap s t with
  | AOnEnd id => enq s' = enq s /\ ap s' t = AOnEndOut id /\ discarded s' = discarded s ++ [id]
  | AFlush0 => ap s' t = AFlushFail /\ pending s' = pending s
  | _ => True
  end.
Proof.
  intros T S1 H. destruct t as [|t]; [congruence|]. unfold accept, accept_app, with_ap in H; simpl in H.
  destruct (ap s (S t)) eqn:A; auto; rewrite S1 in H; destruct v; simpl in H; try discriminate; inversion H; subst; simpl;
    rewrite ?upd_same; auto.
Qed.

Theorem is_shut_stable s te s' : accept s te = Some s' -> is_shut s = true -> is_shut s' = true.
Proof.
  intros H S1. destruct te as [[|t] e]; unfold accept in H; simpl in H.
  - unfold accept_worker in H.
    destruct (wp s); destruct e; try discriminate H;
      repeat match goal with o : option nat |- _ => destruct o end; simpl in H;
      repeat break_if; try discriminate H; inv_some; simpl; auto.
  - unfold accept_app, with_ap in H.
    destruct (ap s (S t)); destruct e; try discriminate H;
      repeat match goal with o : option nat |- _ => destruct o end; simpl in H;
      repeat break_if; try discriminate H;
      repeat match goal with
             | H : match ?x with _ => _ end = Some _ |- _ => destruct x eqn:?; try discriminate H
             end; inv_some; simpl; auto.
Qed.

(* ------------------------------------------------------------------ C03 *)

(* every batch handed to the exporter is non-empty and has at most max_export_batch_size records *)
Theorem batch_size_bounds q b s :
  reachable q b s ->
  Forall (fun x => 1 <= length x <= Bsz s) (exported s) /\
  (forall x, inflight s = Some x -> 1 <= length x <= Bsz s).
Proof.
  intros R. destruct (reachable_inv _ _ _ R) as [IA _]. split; [apply (a_batches s IA)|].
  intros x Hx. pose proof (a_inflight s IA) as I. pose proof (a_wp s IA) as W. unfold wp_inv in W.
  rewrite Hx in I. destruct (wp s); try discriminate I. inversion I; subst. destruct W as (_ & _ & Hb). exact Hb.
Qed.

(* exporter calls never overlap: any exporter call is accepted only when no Export call is in flight, Export/ForceFlush
   come from the worker only, and the exporter's Shutdown only after the worker has exited *)
Theorem export_never_overlaps q b s t e s' :
  reachable q b s -> accept s (t, e) = Some s' ->
  match e with
  | EExpBegin _ | EExpFlush _ => t = 0 /\ inflight s = None
  | EExpEnd _ => t = 0 /\ inflight s <> None /\ inflight s' = None
  | EExpShutdown _ => inflight s = None /\ wp s = WDone
  | _ => True
  end.
Proof.
  intros R H. destruct (reachable_inv _ _ _ R) as [IA IB]. pose proof (a_inflight s IA) as I.
  destruct e; auto; unfold accept in H; simpl in H; destruct t as [|t];
    [unfold accept_worker in H | unfold accept_app in H | unfold accept_worker in H | unfold accept_app in H
    |unfold accept_worker in H | unfold accept_app in H | unfold accept_worker in H | unfold accept_app in H];
    split_matches H.
  all: try match goal with W : wp _ = _ |- _ => rewrite W in I end.
  all: try (inversion H; subst; simpl; repeat split; auto; congruence).
  (* the exporter's Shutdown: called by a thread that has joined the worker *)
  pose proof (b_thr s IB (S t)) as T. unfold thr_inv in T.
  match goal with A : ap s (S t) = _ |- _ => rewrite A in T end.
  destruct T as (_ & _ & J & _). pose proof (b_joined s IB J) as W. rewrite W in I. auto.
Qed.

(* ------------------------------------------------------------------ non-vacuity: a reachable state with a completed
   flush, a refused record and a completed shutdown *)
Definition demo_trace : list (nat * ev) :=
  [(1, ECallOnEnd 11); (1, ELdShut false); (1, EBufAdd 11 true); (1, EBufSize 1); (1, ERetOnEnd 11);
   (1, ECallOnEnd 12); (1, ELdShut false); (1, EBufAdd 12 false); (1, ERetOnEnd 12);
   (2, ECallFlush); (2, ELdShut false); (2, EFaddPending 0);
   (0, ELdShut false); (0, ELdPending 1); (0, EBufSize 1); (0, EBufConsume 1); (0, EExpBegin [11]); (0, EExpEnd true);
   (0, ELdNotified 0); (0, EExpFlush true); (0, ELdNotified 0); (0, ECasNotified 0 1 0 true); (0, ECasNotified 0 1 1 false);
   (2, ELdNotified 1); (2, ERetFlush true);
   (0, ELdPending 1); (0, EBufSize 0); (0, ELdNotified 1);
   (3, ECallShutdown); (3, ELockShut); (3, EXchgShut false);
   (0, ELdShut true); (0, EBufEmpty true); (0, ELdPending 1); (0, ELdNotified 1);
   (3, EJoin 0); (3, EExpShutdown true); (3, EUnlockShut); (3, ERetShutdown true)].

Example demo_reachable :
  exists s, run (init 1 1) demo_trace = Some s /\ In (2, 1, true) (fl_done s) /\ sh_done s <> [] /\ dropped s = [12] /\
            exported s = [[11]].
Proof. eexists. split; [vm_compute; reflexivity|]. simpl. repeat split; auto; discriminate. Qed.
