(* Every trace the periodic-reader acceptor accepts passes the history checkers that are run on the implementation's
   traces (Batch/Periodic.v): periodic_spec3 (C03: Export never overlaps) here; periodic_spec2 (C02) below. *)
From V Require Import Batch.Periodic Batch.PeriodicProofs.
From Coq Require Import Lia List Arith Bool.
Import ListNotations.

Definition rpevs (tr : list (nat * Periodic.rev)) : list rpev := map (fun te => RPEv (fst te) (snd te)) tr.
Definition rflying (s : rst) : bool := match r_fly s with Some _ => true | None => false end.

Lemma rfly_step s t e s' : RInv s -> raccept s (t, e) = Some s' ->
  match e with
  | RExpBegin _ => rflying s = false /\ rflying s' = true
  | RExpEnd _ => rflying s = true /\ rflying s' = false
  | _ => rflying s' = rflying s
  end.
Proof.
  intros I H. unfold raccept in H. destruct t as [|t]; cbn [fst snd] in H.
  - destruct (r_joined s); [discriminate|]. unfold raccept_worker in H. unfold rflying.
    destruct (r_wp s) eqn:W; destruct e; try discriminate H; rbreak H; inversion H; subst; clear H; simpl; auto.
  - assert (App : raccept_app s (S t) e = Some s' ->
                  match e with
                  | RExpBegin _ => rflying s = false /\ rflying s' = true
                  | RExpEnd _ => rflying s = true /\ rflying s' = false
                  | _ => rflying s' = rflying s
                  end).
    { intros A. unfold raccept_app in A. unfold rflying.
      destruct (r_ap s (S t)) eqn:P; destruct e; try discriminate A; rbreak A; inversion A; subst; clear A; simpl; auto. }
    destruct (r_coll s) as [[c p]|] eqn:C; [|exact (App H)].
    destruct (Nat.eqb (S t) c) eqn:E; [|exact (App H)].
    unfold raccept_coll in H. unfold rflying.
    destruct p; destruct e; try discriminate H; rbreak H; inversion H; subst; clear H; simpl; auto.
    + (* RExpBegin: nothing in flight, by q_fly *)
      destruct (r_fly s) as [c'|] eqn:F; auto. apply (q_fly s I) in F. destruct F as [m F]. congruence.
    + (* RExpEnd: this thread's Export is the one in flight *)
      assert (F : r_fly s = Some c) by (apply (q_fly s I); eauto). rewrite F. auto.
Qed.

Lemma periodic_walk3_accepts : forall tr s s', RInv s -> rrun s tr = Some s' -> periodic_walk3 (rflying s) (rpevs tr) = [].
Proof.
  induction tr as [|[t e] tr IH]; intros s s' I H; simpl in *; auto.
  destruct (raccept s (t, e)) as [s1|] eqn:A; [|discriminate].
  pose proof (rfly_step s t e s1 I A) as St. pose proof (raccept_preserves s (t, e) s1 I A) as I1.
  specialize (IH s1 s' I1 H).
  destruct e; simpl; try (rewrite <- St; exact IH).
  - destruct St as (F & F'). rewrite F. simpl. rewrite F' in IH. exact IH.
  - destruct St as (F & F'). rewrite F. simpl. rewrite F' in IH. exact IH.
Qed.

Theorem accepted_trace_meets_periodic_spec3 tr s : rrun rinit tr = Some s -> periodic_walk3 false (rpevs tr) = [].
Proof. intros H. exact (periodic_walk3_accepts tr rinit s RInv_init H). Qed.

Example periodic_walk3_rejects_overlap : periodic_walk3 false (rpevs [(3, RExpBegin 1); (4, RExpBegin 1)]) <> [].
Proof. vm_compute. discriminate. Qed.

(* ... and the join-once checker (C02): the acceptor never accepts a second join of the worker *)
Lemma rjoin_step s t e s' : RInv s -> raccept s (t, e) = Some s' ->
  match e with
  | RJoin 0 => r_joined s = false /\ r_joined s' = true
  | _ => r_joined s' = r_joined s
  end.
Proof.
  intros I H. pose proof (q_wp s I) as Iwp. unfold rwp_inv in Iwp.
  unfold raccept in H. destruct t as [|t]; cbn [fst snd] in H.
  - destruct (r_joined s) eqn:J; [discriminate|]. unfold raccept_worker in H.
    destruct (r_wp s) eqn:W; destruct e; try discriminate H; rbreak H; inversion H; subst; clear H; rbools; subst; simpl; auto.
    (* the worker joins its collect thread, whose id is not 0 *)
    destruct Iwp as (_ & p & _ & Nz & _). match goal with |- match ?x with _ => _ end => destruct x end; [congruence | simpl; congruence].
  - assert (App : raccept_app s (S t) e = Some s' ->
                  match e with
                  | RJoin 0 => r_joined s = false /\ r_joined s' = true
                  | _ => r_joined s' = r_joined s
                  end).
    { intros A. unfold raccept_app in A.
      destruct (r_ap s (S t)) eqn:P; destruct e; try discriminate A; rbreak A; inversion A; subst; clear A; simpl; auto. }
    destruct (r_coll s) as [[c p]|] eqn:C; [|exact (App H)].
    destruct (Nat.eqb (S t) c) eqn:E; [|exact (App H)].
    unfold raccept_coll in H.
    destruct p; destruct e; try discriminate H; rbreak H; inversion H; subst; clear H; simpl; auto.
Qed.

Lemma periodic_join_walk_accepts : forall tr s s', RInv s -> rrun s tr = Some s' -> periodic_join_walk (r_joined s) (rpevs tr) = [].
Proof.
  induction tr as [|[t e] tr IH]; intros s s' I H; simpl in *; auto.
  destruct (raccept s (t, e)) as [s1|] eqn:A; [|discriminate].
  pose proof (rjoin_step s t e s1 I A) as St. specialize (IH s1 s' (raccept_preserves s (t, e) s1 I A) H).
  destruct e; simpl; try (rewrite <- St; exact IH).
  destruct c as [|c]; [|rewrite <- St; exact IH].
  destruct St as (J & J'). rewrite J. simpl. rewrite J' in IH. exact IH.
Qed.

Theorem accepted_trace_meets_periodic_spec_join tr s : rrun rinit tr = Some s -> periodic_join_walk false (rpevs tr) = [].
Proof. intros H. exact (periodic_join_walk_accepts tr rinit s RInv_init H). Qed.

Example periodic_join_walk_rejects_second_join : periodic_join_walk false (rpevs [(1, RJoin 0); (2, RJoin 0)]) <> [].
Proof. vm_compute. discriminate. Qed.
