(* PROGRESS UNDER EVERY INTERLEAVING (C02 "ForceFlush and Shutdown always return"), batch processors.

   Batch/Progress.v shows what the worker does when it runs alone.  Here the application threads keep running:
   the continuation [tr] is ANY accepted trace - producers keep adding, flushers keep taking tickets, shutdown may
   arrive - and the only assumption is fairness towards the worker, stated as a count: [wprog tr] is the number of
   worker events in [tr] other than evaluations of the wait predicate (EBufEmpty; the worker's waits are timed, so it
   is never blocked: Progress.worker_never_stuck).

   (a) flush_fair_progress: a ForceFlush caller holding ticket t (t <= pending) finds its exit condition
       (t <= notified, or the processor shut down) true once the worker has made [rankF t s] <= 16 + 6*Q steps,
       whatever the other threads do in between.  Potential: remaining steps of the worker's current Export pass, plus a
       whole further pass when the ticket read by the current pass is older than t.  Application events do not change it.
   (b) shutdown_fair_progress: once is_shutdown is set the worker exits (so the Shutdown caller's join returns) after
       [phi s + 32 * adds tr] of its own steps, where [adds tr] counts the late arrivals in tr (records added by
       producers that had already passed the shutdown test, tickets taken by flushers that had); phi <= 16*(queue
       length + unpublished tickets) + 13.  Potential: 16 per queued record and per unpublished ticket (each batch and
       each publication pays for the control steps around it) plus the control steps to the next payment or to the exit.
       The exit decision of DrainQueue needs that the value of `notified` it read is still current: InvF (only the
       worker writes it).
   Exporter calls are assumed to return (they are worker events). *)
From V Require Import Batch.Model Batch.ProofsA Batch.ProofsB Batch.Theorems.
From Coq Require Import Lia List Arith Bool.
Import ListNotations.

Definition is_bufempty (e : ev) : bool := match e with EBufEmpty _ => true | _ => false end.
Definition wcnt (te : nat * ev) : nat :=
  match fst te with 0 => if is_bufempty (snd te) then 0 else 1 | _ => 0 end.
Fixpoint wprog (tr : list (nat * ev)) : nat :=
  match tr with [] => 0 | te :: tr' => wcnt te + wprog tr' end.

Ltac dest_cmp :=
  repeat match goal with
  | |- context [Nat.ltb ?a ?b] => destruct (Nat.ltb_spec a b)
  | |- context [Nat.leb ?a ?b] => destruct (Nat.leb_spec a b)
  | |- context [Nat.eqb ?a ?b] => destruct (Nat.eqb_spec a b)
  | H : context [Nat.ltb ?a ?b] |- _ => destruct (Nat.ltb_spec a b)
  | H : context [Nat.leb ?a ?b] |- _ => destruct (Nat.leb_spec a b)
  | H : context [Nat.eqb ?a ?b] |- _ => destruct (Nat.eqb_spec a b)
  end.

(* ---------------------------------------------------------------- monotone facts about single steps *)
Lemma app_frame s t e s' : accept_app s t e = Some s' ->
  wp s' = wp s /\ Qsz s' = Qsz s /\ Bsz s' = Bsz s /\ notified s' = notified s /\ deq s' = deq s /\
  pending s <= pending s' /\ (is_shut s = true -> is_shut s' = true).
Proof.
  intros H. unfold accept_app, with_ap in H.
  destruct (ap s t) eqn:A; destruct e; try discriminate H;
    repeat match goal with o : option nat |- _ => destruct o end; simpl in H;
    repeat break_if; try discriminate H;
    repeat match goal with
           | H : match ?x with _ => _ end = Some _ |- _ => destruct x eqn:?; try discriminate H
           end; inv_some; simpl; repeat split; auto; lia.
Qed.

Lemma worker_frame s e s' : accept_worker s e = Some s' ->
  Qsz s' = Qsz s /\ Bsz s' = Bsz s /\ pending s' = pending s /\ is_shut s' = is_shut s /\ enq s' = enq s.
Proof.
  intros H. unfold accept_worker in H.
  destruct (wp s) eqn:W; destruct e; try discriminate H;
    repeat match goal with o : option nat |- _ => destruct o end; simpl in H;
    repeat break_if; try discriminate H; inv_some; simpl; repeat split; auto.
Qed.

(* ================================================================ (a) ForceFlush *)
Section Flush.
Variable t : nat.

Definition fgoal (s : st) : Prop := t <= notified s \/ is_shut s = true.

Definition full (s : st) : nat := 7 + 3 * Qsz s.
Definition bad (s : st) (k : nat) : nat := if t <=? k then 0 else 2 + full s.
Definition castail (s : st) (k v : nat) : nat :=
  if notified s <? k then (if notified s =? v then 2 else 3) else 1.

Definition rankF (s : st) : nat :=
  match wp s with
  | WIdle => 1 + full s
  | WTop _ => full s
  | WTicket _ k => 6 + 3 * Qsz s + bad s k
  | WBatch _ k rem => 3 * rem + 5 + bad s k
  | WExpBegin _ k rem _ => 7 + 3 * rem + bad s k
  | WExpEnd _ k rem _ => 6 + 3 * rem + bad s k
  | WNotify _ k _ => 5 + bad s k
  | WFlushCall _ k _ => 4 + bad s k
  | WLd2 _ k _ => 3 + bad s k
  | WCas _ k v _ => castail s k v + bad s k
  | _ => 0
  end.

Lemma rankF_bound s : InvA s -> rankF s <= 16 + 6 * Qsz s.
Proof.
  intros I. pose proof (a_wp s I) as W. pose proof (a_bound s I) as B. unfold wp_inv in W.
  unfold rankF, bad, castail, full.
  destruct (wp s); repeat match goal with H : _ /\ _ |- _ => destruct H end; dest_cmp; lia.
Qed.

Lemma fgoal_dec s : {fgoal s} + {~ fgoal s}.
Proof.
  unfold fgoal. destruct (le_dec t (notified s)); [left; auto|]. destruct (is_shut s); [left; auto|].
  right. intros [X|X]; [lia | discriminate].
Qed.

Lemma fgoal_app s u e s' : accept_app s u e = Some s' -> fgoal s -> fgoal s'.
Proof.
  intros H [G|G]; destruct (app_frame _ _ _ _ H) as (_ & _ & _ & N & _ & _ & Sh); [left; lia | right; auto].
Qed.

Lemma rankF_app s u e s' : accept_app s u e = Some s' -> rankF s' = rankF s.
Proof.
  intros H. destruct (app_frame _ _ _ _ H) as (W & Q & _ & N & _).
  unfold rankF, bad, castail, full. rewrite W, Q, N. reflexivity.
Qed.

Lemma rankF_zero s : InvA s -> rankF s = 0 -> is_shut s = true.
Proof.
  intros I R. pose proof (a_wp s I) as W. unfold wp_inv in W. unfold rankF, castail, full in R.
  destruct (wp s) eqn:Wp; try lia; try tauto.
  dest_cmp; lia.
Qed.

Lemma flush_worker_step s e s' :
  InvA s -> accept_worker s e = Some s' -> t <= pending s -> ~ fgoal s ->
  fgoal s' \/ rankF s' + wcnt (0, e) <= rankF s.
Proof.
  intros I H Tp NG.
  assert (NS : is_shut s = false) by (destruct (is_shut s) eqn:X; auto; exfalso; apply NG; right; auto).
  assert (NN : notified s < t) by (unfold fgoal in NG; lia).
  destruct I as [Ipre Ideq Ibound Imlen Imle Inot Ipub Iflu Ibat Iinf Iwp Idr Ilat].
  pose proof (queue_len s Ideq) as QL.
  unfold accept_worker in H. unfold wcnt; simpl.
  destruct (wp s) eqn:W; destruct e; try discriminate H;
    repeat match goal with o : option nat |- _ => destruct o end; simpl in H;
    repeat break_if; try discriminate H; inv_some; bools.
  all: unfold wp_inv in Iwp; rewrite W in Iwp; simpl in Idr.
  all: try (rewrite Iwp in NS; discriminate NS).
  all: try (destruct Iwp as [Iwp ?]; rewrite Iwp in NS; discriminate NS).
  all: try (rewrite (Idr eq_refl) in NS; discriminate NS).
  all: unfold fgoal, rankF, bad, castail, full, after_notify, covers in *; simpl in *; rewrite ?W; simpl.
  all: repeat match goal with b : bool |- _ => destruct b end; simpl in *; try discriminate.
  all: repeat match goal with H : _ /\ _ |- _ => destruct H end.
  all: try (right; dest_cmp; lia).
  all: try (dest_cmp; lia).
  all: try (destruct (Nat.leb_spec t k); [left; left; lia | right; dest_cmp; lia]).
Qed.

Lemma flush_step s te s' :
  Inv s -> accept s te = Some s' -> t <= pending s -> ~ fgoal s ->
  fgoal s' \/ rankF s' + wcnt te <= rankF s.
Proof.
  intros [IA IB] H Tp NG. destruct te as [u e]. unfold accept in H; simpl in H. destruct u as [|u].
  - eapply flush_worker_step; eauto.
  - right. rewrite (rankF_app _ _ _ _ H). unfold wcnt; simpl. lia.
Qed.

Lemma fgoal_stable s te s' : Inv s -> accept s te = Some s' -> fgoal s -> fgoal s'.
Proof.
  intros [IA _] H G. pose proof (a_wp s IA) as Iwp. unfold wp_inv in Iwp. destruct te as [u e]. unfold accept in H; simpl in H. destruct u as [|u].
  - destruct (worker_frame _ _ _ H) as (_ & _ & _ & Sh & _). destruct G as [G|G]; [|right; congruence].
    left. unfold accept_worker in H.
    destruct (wp s) eqn:W; destruct e; try discriminate H;
      repeat match goal with o : option nat |- _ => destruct o end; simpl in H;
      repeat break_if; try discriminate H; inv_some; bools; simpl; try lia.
  - eapply fgoal_app; eauto.
Qed.

Lemma pending_mono s te s' : accept s te = Some s' -> pending s <= pending s'.
Proof.
  intros H. destruct te as [u e]. unfold accept in H; simpl in H. destruct u as [|u].
  - destruct (worker_frame _ _ _ H) as (_ & _ & P & _). lia.
  - destruct (app_frame _ _ _ _ H) as (_ & _ & _ & _ & _ & P & _). exact P.
Qed.

Lemma fgoal_run tr : forall s s', Inv s -> run s tr = Some s' -> fgoal s -> fgoal s'.
Proof.
  induction tr as [|te tr IH]; intros s s' I H G; simpl in H.
  - inversion H; subst; exact G.
  - destruct (accept s te) as [s1|] eqn:A; [|discriminate].
    eapply IH; [eapply accept_preserves; eauto | exact H | eapply fgoal_stable; eauto].
Qed.

(* whatever the other threads do, rankF t s worker steps make the flush caller's exit condition true *)
Theorem flush_fair_progress tr : forall s s',
  Inv s -> t <= pending s -> run s tr = Some s' -> rankF s <= wprog tr -> fgoal s'.
Proof.
  induction tr as [|te tr IH]; intros s s' I Tp H R; simpl in H, R.
  - inversion H; subst. right. apply rankF_zero; [exact (proj1 I) | lia].
  - destruct (accept s te) as [s1|] eqn:A; [|discriminate].
    destruct (fgoal_dec s) as [G|NG].
    + eapply fgoal_run; [eapply accept_preserves; eauto | exact H | eapply fgoal_stable; eauto].
    + destruct (flush_step s te s1 I A Tp NG) as [G1|D].
      * eapply fgoal_run; [eapply accept_preserves; eauto | exact H | exact G1].
      * eapply IH; [eapply accept_preserves; eauto | pose proof (pending_mono _ _ _ A); lia | exact H | lia].
Qed.

End Flush.

(* ================================================================ (b) Shutdown *)

(* what DrainQueue's exit test has read is still meaningful: only the worker writes `notified`, `pending` only grows *)
Definition InvF (s : st) : Prop :=
  match wp s with
  | WDrainLd p n => (forall pv, p = Some pv -> pv <= pending s) /\ (forall nv, n = Some nv -> nv = notified s)
  | _ => True
  end.

Lemma InvF_init q b : InvF (init q b).
Proof. exact I. Qed.

Lemma InvF_step s te s' : InvF s -> accept s te = Some s' -> InvF s'.
Proof.
  intros F H. destruct te as [u e]. unfold accept in H; simpl in H. destruct u as [|u].
  - unfold accept_worker in H. unfold InvF in *.
    destruct (wp s) eqn:W; destruct e; try discriminate H;
      repeat match goal with o : option nat |- _ => destruct o end; simpl in H;
      repeat break_if; try discriminate H; inv_some; bools; simpl; auto.
    all: try (destruct more; [|destruct d]; exact I).
    all: try (split; intros ? X; inversion X; subst; auto; lia).
    all: try (split; intros ? X; discriminate X).
    all: try (rewrite W; exact I).
  - destruct (app_frame _ _ _ _ H) as (W & _ & _ & N & _ & P & _). unfold InvF in *. rewrite W, N.
    destruct (wp s); auto. destruct F as [F1 F2]. split; auto. intros pv X. specialize (F1 pv X). lia.
Qed.

Lemma InvF_run tr : forall s s', InvF s -> run s tr = Some s' -> InvF s'.
Proof.
  induction tr as [|te tr IH]; intros s s' F H; simpl in H.
  - inversion H; subst; exact F.
  - destruct (accept s te) as [s1|] eqn:A; [|discriminate]. eapply IH; [eapply InvF_step; eauto | exact H].
Qed.

Definition qpos (s : st) : bool := 0 <? length (queue s).
Definition ppos (s : st) : bool := notified s <? pending s.
Definition fresh (s : st) (k : nat) : bool := notified s <? k.

Definition LTop (s : st) : nat := if qpos s then 3 else if ppos s then 6 else 7.
Definition LDL1 (s : st) : nat := if ppos s then 1 + LTop s else 1.
Definition LDrain0 (s : st) : nat := 1 + (if qpos s then LTop s else 1 + LDL1 s).
Definition LIdle (s : st) : nat := 1 + LDrain0 s.
Definition LAfter (s : st) (d more : bool) : nat := if more then LTop s else if d then LDrain0 s else LIdle s.
Definition LNotify (s : st) (d : bool) (k : nat) (more : bool) : nat := if fresh s k then 4 else 1 + LAfter s d more.

(* control steps of the worker up to its next payment (a batch taken from the queue, a ticket published) or its exit *)
Definition Lw (s : st) : nat :=
  match wp s with
  | WIdle => LIdle s
  | WTop _ => LTop s
  | WTicket d k => 1 + (if qpos s then 1 else LNotify s d k false)
  | WBatch _ _ _ => 1
  | WExpBegin d k rem _ => 2 + (if rem =? 0 then LNotify s d k true else 1)
  | WExpEnd d k rem _ => 1 + (if rem =? 0 then LNotify s d k true else 1)
  | WNotify d k more => LNotify s d k more
  | WFlushCall d k more => if fresh s k then 3 else 2 + LAfter s d more
  | WLd2 d k more => if fresh s k then 2 else 1 + LAfter s d more
  | WCas d k v more => if fresh s k then (if notified s =? v then 1 else 2) else 1 + LAfter s d more
  | WDrain0 => LDrain0 s
  | WDrainLd None None => 1 + LDL1 s
  | WDrainLd _ _ => LDL1 s
  | WDone => 0
  end.

Definition phi (s : st) : nat := 16 * length (queue s) + 16 * (pending s - notified s) + Lw s.

Ltac unfold_L := unfold phi, Lw, LNotify, LAfter, LIdle, LDrain0, LDL1, LTop, qpos, ppos, fresh, after_notify in *.

Lemma Lw_bound s : Lw s <= 13.
Proof. unfold_L. destruct (wp s); repeat match goal with o : option nat |- _ => destruct o end; repeat match goal with b : bool |- _ => destruct b end; dest_cmp; lia. Qed.

Lemma phi_bound s : phi s <= 16 * (length (queue s) + (pending s - notified s)) + 13.
Proof. pose proof (Lw_bound s). unfold phi. lia. Qed.

Lemma Lw_zero s : Lw s = 0 -> wp s = WDone.
Proof.
  unfold_L. destruct (wp s); auto; repeat match goal with o : option nat |- _ => destruct o end;
    repeat match goal with b : bool |- _ => destruct b end; dest_cmp; lia.
Qed.

Definition is_add (e : ev) : nat :=
  match e with EBufAdd _ true => 1 | EFaddPending _ => 1 | _ => 0 end.
Fixpoint adds (tr : list (nat * ev)) : nat :=
  match tr with [] => 0 | te :: tr' => is_add (snd te) + adds tr' end.

Lemma shutdown_worker_step s e s' :
  InvA s -> InvF s -> is_shut s = true -> accept_worker s e = Some s' -> phi s' + wcnt (0, e) <= phi s.
Proof.
  intros I F Sh H.
  destruct I as [Ipre Ideq Ibound Imlen Imle Inot Ipub Iflu Ibat Iinf Iwp Idr Ilat].
  pose proof (queue_len s Ideq) as QL.
  unfold accept_worker in H. unfold wcnt; simpl.
  destruct (wp s) eqn:W; destruct e; try discriminate H;
    repeat match goal with o : option nat |- _ => destruct o end; simpl in H;
    repeat break_if; try discriminate H; inv_some; bools.
  all: unfold wp_inv in Iwp; rewrite W in Iwp; unfold InvF in F; rewrite W in F.
  all: try congruence.
  all: unfold covers in *; repeat match goal with H : _ /\ _ |- _ => destruct H end.
  all: repeat match goal with H : forall x : nat, Some ?n = Some x -> _ |- _ => specialize (H _ eq_refl) end.
  all: unfold phi, Lw; simpl; rewrite ?W; simpl.
  all: unfold queue in *; simpl in *; rewrite ?skipn_length in *.
  all: unfold LNotify, LAfter, LIdle, LDrain0, LDL1, LTop, qpos, ppos, fresh, after_notify, queue in *; simpl in *; rewrite ?skipn_length in *.
  all: repeat match goal with b : bool |- _ => destruct b end; simpl in *; try discriminate.
  all: try (dest_cmp; lia).
Qed.

Lemma Lw_ext s s' : wp s' = wp s -> length (queue s') = length (queue s) -> pending s' = pending s ->
  notified s' = notified s -> Lw s' = Lw s.
Proof. intros W Q P N. unfold_L. rewrite W, Q, P, N. reflexivity. Qed.

Local Arguments Nat.sub : simpl never.
Local Arguments Nat.mul : simpl never.

Lemma shutdown_app_step s u e s' : InvA s -> accept_app s u e = Some s' -> phi s' <= phi s + 32 * is_add e.
Proof.
  intros I H. pose proof (Lw_bound s') as LB. pose proof (a_notified s I) as Inot. pose proof (a_deq s I) as Ideq.
  unfold accept_app, with_ap in H.
  destruct (ap s u) eqn:A; destruct e; try discriminate H;
    repeat match goal with o : option nat |- _ => destruct o end; simpl in H;
    repeat break_if; try discriminate H;
    repeat match goal with
           | H : match ?x with _ => _ end = Some _ |- _ => destruct x eqn:?; try discriminate H
           end; inv_some; bools.
  all: try (unfold phi;
            match goal with |- context [Lw ?x] => tryif constr_eq x s then fail else rewrite (Lw_ext s x) by reflexivity end;
            simpl; unfold queue; simpl; lia).
  all: unfold phi in *; unfold queue in *; simpl in *; rewrite ?skipn_length, ?app_length in *; simpl in *; try lia.
  all: unfold Lw; simpl; match goal with H : wp _ = WDone |- _ => rewrite H end; lia.
Qed.

(* whatever the other threads do, the worker exits once it has made phi s steps plus 32 for every late arrival *)
Theorem shutdown_fair_progress tr : forall s s',
  Inv s -> InvF s -> is_shut s = true -> run s tr = Some s' -> phi s + 32 * adds tr <= wprog tr -> wp s' = WDone.
Proof.
  induction tr as [|te tr IH]; intros s s' I F Sh H R; simpl in H, R.
  - inversion H; subst. apply Lw_zero. unfold phi in R. lia.
  - destruct (accept s te) as [s1|] eqn:A; [|discriminate].
    assert (D : phi s1 + wcnt te <= phi s + 32 * is_add (snd te)).
    { destruct te as [u e]. unfold accept in A; simpl in A. destruct u as [|u].
      - pose proof (shutdown_worker_step s e s1 (proj1 I) F Sh A). simpl. lia.
      - pose proof (shutdown_app_step s (S u) e s1 (proj1 I) A). unfold wcnt; simpl. lia. }
    assert (Sh1 : is_shut s1 = true).
    { destruct te as [u e]. unfold accept in A; simpl in A. destruct u as [|u].
      - destruct (worker_frame _ _ _ A) as (_ & _ & _ & X & _). congruence.
      - destruct (app_frame _ _ _ _ A) as (_ & _ & _ & _ & _ & _ & X). auto. }
    eapply IH; [eapply accept_preserves; eauto | eapply InvF_step; eauto | exact Sh1 | exact H | lia].
Qed.

(* ---------------------------------------------------------------- for every reachable state *)
Theorem reachable_InvF q b s : reachable q b s -> InvF s.
Proof. intros [tr H]. eapply InvF_run; [apply InvF_init | exact H]. Qed.

(* a ForceFlush caller that took ticket t: in every continuation in which the worker makes 16 + 6*Q steps (it is never
   blocked, Progress.worker_never_stuck) the caller's exit condition holds at the end *)
Theorem flush_returns_under_fair_worker q b s tr s' t :
  reachable q b s -> t <= pending s -> run s tr = Some s' -> 16 + 6 * q <= wprog tr ->
  t <= notified s' \/ is_shut s' = true.
Proof.
  intros R Tp H W. pose proof (reachable_inv _ _ _ R) as I.
  assert (Q : Qsz s = q).
  { destruct R as [tr0 R]. clear - R. assert (G : forall tr s0 s1, run s0 tr = Some s1 -> Qsz s1 = Qsz s0).
    { induction tr as [|te tr IH]; intros s0 s1 X; simpl in X; [inversion X; auto|].
      destruct (accept s0 te) as [s2|] eqn:A; [|discriminate]. rewrite (IH _ _ X).
      destruct te as [u e]. unfold accept in A; simpl in A. destruct u.
      - destruct (worker_frame _ _ _ A) as (X1 & _). exact X1.
      - destruct (app_frame _ _ _ _ A) as (_ & X1 & _). exact X1. }
    rewrite (G _ _ _ R). reflexivity. }
  eapply (flush_fair_progress t tr s s' I Tp H). pose proof (rankF_bound t s (proj1 I)). lia.
Qed.

Theorem shutdown_worker_exits_under_fair_worker q b s tr s' :
  reachable q b s -> is_shut s = true -> run s tr = Some s' ->
  16 * (length (queue s) + (pending s - notified s)) + 13 + 32 * adds tr <= wprog tr -> wp s' = WDone.
Proof.
  intros R Sh H W. eapply shutdown_fair_progress; eauto using reachable_inv, reachable_InvF.
  pose proof (phi_bound s). lia.
Qed.

(* ---------------------------------------------------------------- late arrivals are bounded by the threads in flight
   After is_shutdown is set, a record can still be added only by a producer that had already passed OnEnd's shutdown
   test, and a ticket taken only by a flusher that had; each such thread does it once (its next call sees the latch). *)
Definition late (s : st) (u : nat) : bool :=
  match ap s u with AOnEndChecked _ | AFlush1 => true | _ => false end.

Lemma filter_len_le {A} (f g : A -> bool) l :
  (forall x, In x l -> f x = true -> g x = true) -> length (filter f l) <= length (filter g l).
Proof.
  induction l as [|a l IH]; intros H; simpl; [lia|].
  assert (IH' := IH (fun x Hx => H x (or_intror Hx))).
  destruct (f a) eqn:Fa; destruct (g a) eqn:Ga; simpl; try lia.
  rewrite (H a (or_introl eq_refl) Fa) in Ga. discriminate.
Qed.

Lemma filter_len_lt {A} (f g : A -> bool) l u :
  (forall x, In x l -> f x = true -> g x = true) -> In u l -> f u = false -> g u = true ->
  length (filter f l) + 1 <= length (filter g l).
Proof.
  induction l as [|a l IH]; intros H Hin Fu Gu; simpl; [destruct Hin|].
  assert (H' : forall x, In x l -> f x = true -> g x = true) by (intros x Hx; apply H; right; exact Hx).
  destruct Hin as [->|Hin].
  - rewrite Fu, Gu. simpl. pose proof (filter_len_le f g l H'). lia.
  - specialize (IH H' Hin Fu Gu). destruct (f a) eqn:Fa; destruct (g a) eqn:Ga; simpl; try lia.
    rewrite (H a (or_introl eq_refl) Fa) in Ga. discriminate.
Qed.

Lemma late_app_step s u e s' : u <> 0 -> is_shut s = true -> accept_app s u e = Some s' ->
  (forall x, late s' x = true -> late s x = true) /\ (is_add e = 1 -> late s u = true /\ late s' u = false) /\ is_add e <= 1.
Proof.
  intros Hu Sh H. unfold accept_app, with_ap in H. unfold late.
  destruct (ap s u) eqn:A; destruct e; try discriminate H;
    repeat match goal with o : option nat |- _ => destruct o end; simpl in H;
    repeat break_if; try discriminate H;
    repeat match goal with
           | H : match ?x with _ => _ end = Some _ |- _ => destruct x eqn:?; try discriminate H
           end; inv_some; bools; try congruence.
  all: simpl; unfold upd; rewrite ?A.
  all: repeat split; try (intros x; destruct (Nat.eqb_spec x u); [subst; rewrite ?A; try discriminate; auto | auto]).
  all: try discriminate; try lia; auto.
  all: try (rewrite Nat.eqb_refl; reflexivity).
  all: try (intros; rewrite Nat.eqb_refl; auto).
Qed.

Lemma worker_no_add s e s' : accept_worker s e = Some s' -> is_add e = 0 /\ ap s' = ap s.
Proof.
  intros H. unfold accept_worker in H.
  destruct (wp s) eqn:W; destruct e; try discriminate H;
    repeat match goal with o : option nat |- _ => destruct o end; simpl in H;
    repeat break_if; try discriminate H; inv_some; simpl; auto.
Qed.

Theorem late_adds_bounded ts tr : forall s s',
  is_shut s = true -> (forall u, late s u = true -> In u ts) -> run s tr = Some s' ->
  adds tr <= length (filter (late s) ts).
Proof.
  induction tr as [|te tr IH]; intros s s' Sh Cov H; simpl in H |- *; [lia|].
  destruct (accept s te) as [s1|] eqn:A; [|discriminate].
  destruct te as [u e]. unfold accept in A; simpl in A. simpl.
  destruct u as [|u].
  - destruct (worker_no_add _ _ _ A) as (Z & Ap). destruct (worker_frame _ _ _ A) as (_ & _ & _ & Sh1 & _).
    assert (L : forall x, late s1 x = late s x) by (intros x; unfold late; rewrite Ap; reflexivity).
    rewrite Z. simpl. rewrite (filter_ext _ _ (fun x => eq_sym (L x))).
    eapply IH; [congruence | intros x Hx; apply Cov; rewrite <- L; exact Hx | exact H].
  - destruct (late_app_step s (S u) e s1 ltac:(discriminate) Sh A) as (Mono & Add & Le).
    destruct (app_frame _ _ _ _ A) as (_ & _ & _ & _ & _ & _ & Sh1).
    assert (IH1 := IH s1 s' (Sh1 Sh) (fun x Hx => Cov x (Mono x Hx)) H).
    destruct (Nat.eq_dec (is_add e) 1) as [E1|E1].
    + destruct (Add E1) as (L0 & L1). rewrite E1.
      pose proof (filter_len_lt (late s1) (late s) ts (S u) (fun x _ => Mono x) (Cov _ L0) L1 L0). lia.
    + assert (E0 : is_add e = 0) by lia. rewrite E0.
      pose proof (filter_len_le (late s1) (late s) ts (fun x _ => Mono x)). lia.
Qed.

Lemma filter_len_all {A} (f : A -> bool) l : length (filter f l) <= length l.
Proof. induction l as [|a l IH]; simpl; [lia|]. destruct (f a); simpl; lia. Qed.

(* shutdown: with [ts] listing the threads that are past their shutdown test when the latch is set, the worker exits
   after 16*(queued records + unpublished tickets) + 13 + 32*|ts| steps of its own, under every interleaving *)
Theorem shutdown_worker_exits_bound q b s tr s' ts :
  reachable q b s -> is_shut s = true -> (forall u, late s u = true -> In u ts) -> run s tr = Some s' ->
  16 * (length (queue s) + (pending s - notified s)) + 13 + 32 * length ts <= wprog tr -> wp s' = WDone.
Proof.
  intros R Sh Cov H W. eapply shutdown_worker_exits_under_fair_worker; eauto.
  pose proof (late_adds_bounded ts tr s s' Sh Cov H). pose proof (filter_len_all (late s) ts). lia.
Qed.

(* ---------------------------------------------------------------- the hypotheses are satisfiable (non-vacuity)
   flush: a flusher holds ticket 1 while a producer keeps adding; 14 worker steps interleaved with the producer's *)
Definition fair_prefix : list (nat * ev) :=
  [(1, ECallOnEnd 11); (1, ELdShut false); (1, EBufAdd 11 true); (1, EBufSize 1); (1, ERetOnEnd 11);
   (2, ECallFlush); (2, ELdShut false); (2, EFaddPending 0)].
Definition fair_cont : list (nat * ev) :=
  [(0, ELdShut false); (1, ECallOnEnd 12); (0, ELdPending 1); (1, ELdShut false); (0, EBufSize 1); (1, EBufAdd 12 true);
   (0, EBufConsume 1); (0, EExpBegin [11]); (1, EBufSize 1); (0, EExpEnd true); (1, ERetOnEnd 12);
   (0, ELdNotified 0); (0, EExpFlush true); (0, ELdNotified 0); (0, ECasNotified 0 1 0 true); (2, ELdNotified 1);
   (0, ECasNotified 0 1 1 false); (0, ELdPending 1); (0, EBufSize 1); (0, EBufConsume 1); (0, EExpBegin [12]); (2, ERetFlush true)].

Example fair_flush_demo :
  exists s s', run (init 2 1) fair_prefix = Some s /\ 1 <= pending s /\ ~ fgoal 1 s /\
               run s fair_cont = Some s' /\ rankF 1 s <= wprog fair_cont /\ fgoal 1 s' /\ In (2, 1, true) (fl_done s').
Proof.
  eexists. eexists. split; [vm_compute; reflexivity|]. split; [vm_compute; lia|].
  split; [unfold fgoal; simpl; intros [X|X]; [lia | discriminate]|].
  split; [vm_compute; reflexivity|]. split; [vm_compute; lia|]. split; [left; simpl; lia | simpl; auto].
Qed.

(* shutdown: the latch is set while a producer is past its shutdown test (a late arrival); the worker drains and exits *)
Definition late_prefix : list (nat * ev) :=
  [(1, ECallOnEnd 11); (1, ELdShut false); (3, ECallShutdown); (3, ELockShut); (3, EXchgShut false)].
Example late_state_demo :
  exists s, run (init 2 1) late_prefix = Some s /\ is_shut s = true /\ late s 1 = true /\ (forall u, late s u = true -> In u [1]) /\
            16 * (length (queue s) + (pending s - notified s)) + 13 + 32 * length [1] = 45.
Proof.
  eexists. split; [vm_compute; reflexivity|]. split; [reflexivity|]. split; [reflexivity|]. split; [|reflexivity].
  intros u. unfold late; simpl. unfold upd. simpl.
  destruct u as [|[|[|[|u]]]]; simpl; try discriminate; auto.
Qed.
