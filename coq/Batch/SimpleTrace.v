(* Every trace the simple-processor acceptor accepts passes the history checker that is run on the implementation's
   traces (Batch/Simple.v: simple_walk / simple_spec): the link MODEL |= SPEC for the SIMPLE cases of C03 / C02. *)
From V Require Import Batch.Simple Batch.SimpleProofs.
From Coq Require Import Lia List Arith Bool.
Import ListNotations.

Definition spevs (tr : list (nat * sev)) : list spev := map (fun te => SPEv (fst te) (snd te)) tr.
Definition sflying (s : sst) : bool := match sfly s with Some _ => true | None => false end.

Lemma begin_not_flying s t ids s' : SInv s -> saccept s (t, SExpBegin ids) = Some s' ->
  sfly s = None /\ sfly s' = Some t /\ length ids = 1 /\ nshut s' = nshut s.
Proof.
  intros I H. unfold saccept in H; simpl in H.
  destruct (spc_of s t) eqn:P; try discriminate H.
  destruct ids as [|i [|j ids]]; try discriminate H. destruct (Nat.eqb i id) eqn:E; [|discriminate H].
  inversion H; subst; simpl. repeat split; auto.
  destruct (sfly s) as [t2|] eqn:F; auto. exfalso.
  pose proof F as F'. apply (i_fly s I) in F. pose proof (exp_holds _ F) as Hh.
  assert (Ht : holds (spc_of s t) = true) by (rewrite P; reflexivity).
  apply (i_owner s I) in Hh. apply (i_owner s I) in Ht. assert (t2 = t) by congruence. subst.
  rewrite P in F. discriminate.
Qed.

Lemma simple_step s t e s' : SInv s -> saccept s (t, e) = Some s' ->
  match e with
  | SExpBegin ids => sflying s = false /\ sflying s' = true /\ length ids = 1 /\ nshut s' = nshut s
  | SExpEnd _ => sflying s = true /\ sflying s' = false /\ nshut s' = nshut s
  | SExpShut _ => nshut s = 0 /\ nshut s' = 1 /\ sflying s' = sflying s
  | _ => sflying s' = sflying s /\ nshut s' = nshut s
  end.
Proof.
  intros I H. destruct e; try (unfold saccept in H; simpl in H; unfold sflying;
    destruct (spc_of s t) eqn:P; try discriminate H;
    repeat match type of H with
           | context [if ?c then _ else _] => destruct c eqn:?; try discriminate H
           end; inversion H; subst; simpl; auto; fail).
  - (* SExpBegin *) destruct (begin_not_flying s t ids s' I H) as (F & F' & L & N). unfold sflying. rewrite F, F'. auto.
  - (* SExpEnd *) unfold saccept in H; simpl in H. destruct (spc_of s t) eqn:P; try discriminate H.
    inversion H; subst; simpl. unfold sflying; simpl.
    assert (F : sfly s = Some t) by (apply (i_fly s I); rewrite P; reflexivity). rewrite F. auto.
  - (* SExpShut *) pose proof (saccept_preserves s (t, SExpShut r) s' I H) as I'. pose proof (i_nshut s' I') as N.
    unfold saccept in H; simpl in H. destruct (spc_of s t) eqn:P; try discriminate H; inversion H; subst; simpl in *;
      unfold sflying; simpl; repeat split; auto; lia.
Qed.

(* the checker's per-thread "record being ended" agrees with the program counters *)
Definition cur_ok (cur : list (nat * nat)) (s : sst) : Prop :=
  forall t id, (spc_of s t = PWant id \/ spc_of s t = PHold id) -> cur_get t cur = Some id.

Lemma cur_get_set_same t v l : cur_get t (cur_set t v l) = Some v.
Proof. unfold cur_set; simpl. rewrite Nat.eqb_refl. reflexivity. Qed.

Lemma cur_get_filter_other t t' l : t' <> t -> cur_get t' (filter (fun x => negb (Nat.eqb (fst x) t)) l) = cur_get t' l.
Proof.
  intros N. induction l as [|[a v] l IH]; simpl; auto.
  destruct (Nat.eqb_spec a t) as [->|Na]; simpl.
  - destruct (Nat.eqb_spec t' t); [contradiction | exact IH].
  - destruct (Nat.eqb_spec t' a); [reflexivity | exact IH].
Qed.

Lemma cur_get_set_other t t' v l : t' <> t -> cur_get t' (cur_set t v l) = cur_get t' l.
Proof.
  intros N. unfold cur_set; simpl. destruct (Nat.eqb_spec t' t); [contradiction|]. apply cur_get_filter_other; exact N.
Qed.

Lemma cur_step cur s t e s' : cur_ok cur s -> saccept s (t, e) = Some s' ->
  cur_ok (match e with SCallOnEnd id => cur_set t id cur | _ => cur end) s' /\
  match e with SExpBegin ids => ids_are ids (cur_get t cur) = true | _ => True end.
Proof.
  intros C H. unfold saccept in H; simpl in H.
  destruct (spc_of s t) eqn:P; destruct e; try discriminate H;
    repeat match type of H with
           | context [if ?c then _ else _] => destruct c eqn:?; try discriminate H
           | context [match ?x with _ => _ end] => destruct x eqn:?; try discriminate H
           end; inversion H; subst; clear H; simpl.
  all: split; try exact I.
  all: try (intros tq iq Hp; unfold cur_ok in C; simpl in Hp; unfold supd in Hp;
            destruct (Nat.eqb_spec tq t) as [->|Nt];
            [ try (rewrite cur_get_set_same); destruct Hp as [Hp|Hp]; try discriminate Hp; try (inversion Hp; subst);
              try reflexivity; try (apply C; rewrite P; auto; fail)
            | try (rewrite cur_get_set_other by exact Nt); apply C; exact Hp ]; fail).
  all: try (intros tq iq Hp; apply C; exact Hp).
  (* SExpBegin: the thread holds the lock for exactly the record it is ending *)
  all: try (match goal with E : Nat.eqb _ _ = true |- _ => apply Nat.eqb_eq in E; subst end;
            rewrite (C t _ (or_intror P)); simpl; apply Nat.eqb_refl).
Qed.

Lemma simple_walk_accepts : forall tr cur s s', SInv s -> cur_ok cur s -> srun s tr = Some s' ->
  simple_walk_cur cur (sflying s) (nshut s) (spevs tr) = [].
Proof.
  induction tr as [|[t e] tr IH]; intros cur s s' I C H; simpl in *; auto.
  destruct (saccept s (t, e)) as [s1|] eqn:A; [|discriminate].
  pose proof (simple_step s t e s1 I A) as St. pose proof (saccept_preserves s (t, e) s1 I A) as I1.
  destruct (cur_step cur s t e s1 C A) as [C1 Ids].
  specialize (IH _ s1 s' I1 C1 H).
  destruct e; simpl; try (destruct St as [E1 E2]; rewrite E1, E2 in IH; exact IH).
  - destruct St as (F & F' & L & N). rewrite F, L, Ids. simpl. rewrite F', N in IH. exact IH.
  - destruct St as (F & F' & N). rewrite F. simpl. rewrite F', N in IH. exact IH.
  - destruct St as (Z & O & F). rewrite Z. simpl. rewrite O, F in IH. exact IH.
Qed.

(* every accepted trace, from the initial state, passes the simple-processor history checker *)
Theorem accepted_trace_meets_simple_spec tr s : srun sinit tr = Some s -> simple_walk false 0 (spevs tr) = [].
Proof.
  intros H. unfold simple_walk. apply (simple_walk_accepts tr [] sinit s SInv_init); [|exact H].
  intros t id [Hp|Hp]; simpl in Hp; discriminate Hp.
Qed.

(* the statement is not vacuous: an overlapping Export is rejected by the checker *)
Example simple_walk_rejects_overlap :
  simple_walk false 0 (spevs [(1, SExpBegin [7]); (2, SExpBegin [8])]) <> [].
Proof. vm_compute. discriminate. Qed.

Example simple_walk_rejects_foreign_record :
  simple_walk false 0 (spevs [(1, SCallOnEnd 7); (2, SCallOnEnd 8); (1, SExpBegin [8])]) <> [].
Proof. vm_compute. discriminate. Qed.
