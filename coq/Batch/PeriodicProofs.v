(* PROOFS for the periodic-reader acceptor (Batch/Periodic.v): an inductive invariant preserved by every accepted
   event of every thread, and the C02/C03 theorems for the periodic exporting metric reader. *)
From V Require Import Batch.Periodic.
From Coq Require Import Lia List Arith Bool.
Import ListNotations.

Definition rmark (s : rst) (j : nat) : nat := nth (j - 1) (r_marks s) 0.
Definition rcov (s : rst) (k x : nat) : Prop := k <= r_pending s /\ forall j, 1 <= j <= k -> rmark s j <= x.

Definition after_collect (p : rcpc) : bool := match p with RC0 | RC1 => false | _ => true end.
Definition coll_done (p : rcpc) : bool := match p with RCSet | RCDone => true | _ => false end.
Definition coll_n_ok (s : rst) (p : rcpc) : Prop := match p with RCGot n | RCExp n | RCExpEnd n => n = r_cyc s | _ => True end.

(* what the worker's program counter says about the collect thread and the tickets *)
Definition rwp_inv (s : rst) : Prop :=
  match r_wp s with
  | RWIdle _ | RWEnd => r_coll s = None
  | RWTicket k => r_coll s = None /\ k <= r_pending s
  | RWWait k c | RWTimedOut k c | RWJoin k c =>
      k <= r_pending s /\ exists p, r_coll s = Some (c, p) /\ c <> 0 /\ coll_n_ok s p /\
        (after_collect p = true -> rcov s k (r_cyc s)) /\
        (coll_done p = true -> r_cancel s = true \/ r_cyc s <= r_covered s)
  | RWJoined k => r_coll s = None /\ rcov s k (r_cyc s) /\ (r_cancel s = true \/ r_cyc s <= r_covered s)
  | RWNotify k => r_coll s = None /\ rcov s k (r_covered s)
  | RWCas k v => r_coll s = None /\ rcov s k (r_covered s) /\ v < k
  end.

Definition rthr_inv (s : rst) (a : rapc) : Prop :=
  match a with
  | RAFlushWait k last _ => 1 <= k <= r_pending s /\ (forall v, last = Some v -> v <= r_notified s)
  | RAShut2 => r_shut s = true
  | RAShut3 | RAShut4 _ => r_joined s = true
  | _ => True
  end.

Record RInv (s : rst) : Prop := {
  q_marks_len : length (r_marks s) = r_pending s;
  q_marks_le : forall j, 1 <= j <= r_pending s -> rmark s j <= r_nrec s;
  q_notified : r_notified s <= r_pending s;
  q_published : forall j, 1 <= j <= r_notified s -> rmark s j <= r_covered s;
  q_wp : rwp_inv s;
  q_fly : forall c, r_fly s = Some c <-> exists n, r_coll s = Some (c, RCExpEnd n);
  q_thr : forall t, rthr_inv s (r_ap s t);
  q_fldone : forall t k, In (t, k, true) (r_fl_done s) -> 1 <= k <= r_notified s;
  q_joined : r_joined s = true -> r_coll s = None /\ r_wp s = RWIdle true /\ r_shut s = true;
  q_shdone : 0 < r_sh_done s -> r_joined s = true;
  q_cyc : r_cyc s <= r_nrec s
}.

Lemma RInv_init : RInv rinit.
Proof.
  constructor; simpl; auto; try lia; try discriminate; try (intros; lia); try (intros; contradiction).
  all: try (intros c; split; [discriminate | intros [n H]; discriminate]).
  all: try exact I.
  reflexivity.
Qed.


Ltac rbreak H :=
  repeat match type of H with
         | context [if ?c then _ else _] => let E := fresh "E" in destruct c eqn:E; try discriminate H
         | context [match ?x with _ => _ end] => destruct x eqn:?; try discriminate H
         end.
Ltac rbools :=
  repeat match goal with
  | H : true = ?x |- _ => lazymatch x with true => fail | false => fail | _ => symmetry in H end
  | H : false = ?x |- _ => lazymatch x with true => fail | false => fail | _ => symmetry in H end
  | H : andb _ _ = true |- _ => apply andb_prop in H; destruct H
  | H : Nat.eqb _ _ = true |- _ => apply Nat.eqb_eq in H
  | H : Nat.eqb _ _ = false |- _ => apply Nat.eqb_neq in H
  | H : Nat.leb _ _ = true |- _ => apply Nat.leb_le in H
  | H : Nat.leb _ _ = false |- _ => apply Nat.leb_gt in H
  | H : Nat.ltb _ _ = true |- _ => apply Nat.ltb_lt in H
  | H : Nat.ltb _ _ = false |- _ => apply Nat.ltb_ge in H
  | H : Bool.eqb _ _ = true |- _ => apply Bool.eqb_prop in H
  end.
Ltac ruse j :=
  repeat match goal with
  | H : forall i : nat, 1 <= i <= ?b -> _ |- _ =>
      first [ (let P := fresh in assert (P : 1 <= j <= b) by lia; specialize (H j P); clear P) | clear H ]
  end.
Ltac rmarks := let j := fresh "j" in let Hj := fresh "Hj" in intros j Hj; ruse j; lia.

Lemma rworker_preserves s e s' : RInv s -> r_joined s = false -> raccept_worker s e = Some s' -> RInv s'.
Proof.
  intros I NJ H.
  destruct I as [Iml Imle Inot Ipub Iwp Ifly Ithr Ifl Ijoin Ish Icyc].
  unfold raccept_worker in H.
  destruct (r_wp s) eqn:W; destruct e; try discriminate H; rbreak H; inversion H; subst; clear H; rbools; subst.
  all: unfold rwp_inv in Iwp; rewrite W in Iwp.
  all: unfold rcov, rmark, coll_n_ok in *; simpl in *.
  all: repeat match goal with H : _ /\ _ |- _ => destruct H | H : exists _, _ |- _ => destruct H end.
  all: constructor; unfold rwp_inv, rset_wp, rcov, rmark, coll_n_ok in *; simpl in *; auto; try congruence; try lia.
  all: try (intros c0; specialize (Ifly c0); split; intros HH; [apply Ifly in HH|]; destruct HH as [n0 Hn]; try congruence; try discriminate; fail).
  all: try (apply Ifly).
  all: try (split; [lia | eexists; repeat split; eauto; try lia; try congruence; fail]).
  all: try (intros t0; specialize (Ithr t0); unfold rthr_inv in *; destruct (r_ap s t0); simpl in *; auto;
            repeat match goal with H : _ /\ _ |- _ => destruct H end; repeat split; auto; try lia;
            try (intros v0 Hv; match goal with H : forall v, _ = Some v -> _ |- _ => specialize (H v0 Hv) end; lia); fail).
  all: try (intros t0 k0 Hin; specialize (Ifl t0 k0 Hin); lia).
  all: repeat split; auto; try lia; try rmarks.
  all: try (eexists; split; [first [reflexivity|eassumption]|]; split; [first [discriminate|assumption|lia]|]; simpl;
            repeat split; intros; try discriminate; auto; fail).
  all: repeat match goal with
              | H : r_coll _ = Some _, H' : r_coll _ = Some _ |- _ => rewrite H in H'; inversion H'; subst; clear H'
              end; simpl in *.
  all: repeat match goal with H : true = true -> _ |- _ => specialize (H eq_refl) end.
  all: repeat match goal with H : _ /\ _ |- _ => destruct H end.
  all: try rmarks; try tauto.
  all: try (match goal with H : _ \/ _ |- _ => destruct H end; try congruence; try rmarks; auto).
  all: try (eexists; split; [first [reflexivity|eassumption]|]; repeat split; simpl; intros; try discriminate; auto; try lia; fail).
  all: match goal with H : r_coll _ = Some (_, ?p) |- _ => exists p; repeat split; try assumption; try (intros; left; reflexivity) end.
  all: match goal with H : after_collect _ = true -> _ |- _ => apply H; assumption end.
Qed.


Lemma rcoll_preserves s c p e s' : RInv s -> r_coll s = Some (c, p) -> raccept_coll s c p e = Some s' -> RInv s'.
Proof.
  intros I HC H.
  destruct I as [Iml Imle Inot Ipub Iwp Ifly Ithr Ifl Ijoin Ish Icyc].
  assert (NJ : r_joined s = false).
  { destruct (r_joined s) eqn:J; auto. destruct (Ijoin eq_refl) as [X _]. congruence. }
  unfold raccept_coll in H.
  destruct p; destruct e; try discriminate H; rbreak H; inversion H; subst; clear H; rbools; subst.
  all: unfold rwp_inv in Iwp; rewrite HC in *.
  all: destruct (r_wp s) eqn:W; simpl in Iwp;
       repeat match goal with H : _ /\ _ |- _ => destruct H | H : exists _, _ |- _ => destruct H end; try discriminate.
  all: repeat match goal with H : Some _ = Some _ |- _ => inversion H; subst; clear H end.
  all: unfold rcov, rmark, coll_n_ok in *; simpl in *.
  all: repeat match goal with H : true = true -> _ |- _ => specialize (H eq_refl) end.
  all: repeat match goal with H : _ /\ _ |- _ => destruct H end.
  all: constructor; unfold rwp_inv, rset_coll, rcov, rmark, coll_n_ok in *; simpl in *; rewrite ?W; auto; try congruence; try lia.
  all: try (intros t0; specialize (Ithr t0); unfold rthr_inv in *; destruct (r_ap s t0); simpl in *; auto; fail).
  all: try (let c1 := fresh "c" in intros c1; specialize (Ifly c1); split; intros HH;
            [ first [ apply Ifly in HH; destruct HH as [? Hn]; inversion Hn
                    | inversion HH; subst; eexists; reflexivity
                    | discriminate ]
            | destruct HH as [? Hn]; inversion Hn; subst; first [reflexivity | discriminate] ]; fail).
  all: try rmarks.
  all: try (split; [lia|]; eexists; split; [reflexivity|]; split; [assumption|]; simpl; repeat split; intros; try discriminate;
            repeat split; auto; try lia; try rmarks; fail).
  all: try (split; [lia|]; eexists; split; [reflexivity|]; repeat split; simpl; try assumption; try lia; try discriminate;
            try rmarks; try (intros; discriminate); fail).
Qed.


Lemma rupd_same f t v : rupd f t v t = v.
Proof. unfold rupd. rewrite Nat.eqb_refl. reflexivity. Qed.
Lemma rupd_other f t v t' : t' <> t -> rupd f t v t' = f t'.
Proof. unfold rupd. intros H. apply Nat.eqb_neq in H. rewrite H. reflexivity. Qed.
Lemma rnth_app (l : list nat) x j : 1 <= j <= length l -> nth (j - 1) (l ++ [x]) 0 = nth (j - 1) l 0.
Proof. intros H. apply app_nth1. lia. Qed.

Lemma rapp_preserves s t e s' : RInv s -> raccept_app s t e = Some s' -> RInv s'.
Proof.
  intros I H.
  destruct I as [Iml Imle Inot Ipub Iwp Ifly Ithr Ifl Ijoin Ish Icyc].
  pose proof (Ithr t) as It.
  unfold raccept_app in H.
  destruct (r_ap s t) eqn:A; destruct e; try discriminate H; rbreak H; inversion H; subst; clear H; rbools; subst.
  all: unfold rthr_inv in It; simpl in It.
  all: constructor; unfold rset_ap in *; simpl in *; auto; try congruence; try lia.
  (* fl_done *)
  all: try (intros t0 k0 Hin; apply in_app_or in Hin; destruct Hin as [Hin|[Hin|[]]];
            [ specialize (Ifl t0 k0 Hin); lia
            | inversion Hin; subst; repeat match goal with b : bool |- _ => destruct b end; try discriminate;
              repeat match goal with o : option nat |- _ => destruct o end; try discriminate; rbools;
              repeat match goal with H : _ /\ _ |- _ => destruct H end;
              match goal with H : forall v, Some ?a = Some v -> _ |- _ => specialize (H _ eq_refl) end; lia ]; fail).
  (* per-thread *)
  all: try (intros t0; destruct (Nat.eq_dec t0 t) as [->|N];
            [ rewrite rupd_same; unfold rthr_inv; simpl;
              repeat match goal with H : _ /\ _ |- _ => destruct H end; repeat split; auto; try lia; try congruence;
              try (intros v0 Hv; inversion Hv; subst; lia)
            | rewrite ?rupd_other by auto; specialize (Ithr t0); unfold rthr_inv in *; destruct (r_ap s t0) eqn:A0; simpl in *; auto;
              repeat match goal with H : _ /\ _ |- _ => destruct H end; repeat split; auto; try lia; try congruence;
              try (intros v0 Hv; match goal with H : forall v, _ = Some v -> _ |- _ => specialize (H v0 Hv) end; lia) ]; fail).
  all: try (intros t0; specialize (Ithr t0); unfold rthr_inv in *; destruct (r_ap s t0) eqn:A0; simpl in *; auto;
            repeat match goal with H : _ /\ _ |- _ => destruct H end; repeat split; auto; try lia; try congruence; fail).
  all: unfold rmark, rwp_inv, rcov, coll_n_ok in *; simpl in *; rewrite ?app_length; simpl; try lia.
  all: try (intros j Hj; destruct (Nat.eq_dec j (S (r_pending s))) as [->|];
            [ replace (S (r_pending s) - 1) with (length (r_marks s)) by lia; rewrite nth_middle; lia
            | rewrite rnth_app by lia; ruse j; lia ]; fail).
  all: try (intros j Hj; first [rewrite rnth_app by lia | idtac]; ruse j; lia).
  all: try (intros _; match goal with H : r_joined _ = true -> _ |- _ => destruct (H ltac:(assumption)) as (?&?&?) end; auto; fail).
  all: try (destruct (r_wp s) eqn:W; simpl in *;
            repeat match goal with H : _ /\ _ |- _ => destruct H | H : exists _, _ |- _ => destruct H end;
            repeat split; auto; try lia;
            try (intros j Hj; rewrite rnth_app by lia; ruse j; lia);
            try (eexists; split; [eassumption|]; repeat split; auto; try lia;
                 intros Hx; match goal with H : _ = true -> _ |- _ => destruct (H Hx) as [? ?] end; split; [lia|];
                 intros j Hj; rewrite rnth_app by lia; ruse j; lia); fail).
  all: try (intros _; destruct Ijoin as (?&?&?); [first [assumption|reflexivity]|]; repeat split; auto; fail).
  destruct (r_wp s) eqn:W; simpl in *; unfold rmark in *; simpl in *;
    repeat match goal with H : _ /\ _ |- _ => destruct H | H : exists _, _ |- _ => destruct H end.
  all: repeat split; auto; try lia.
  all: try (intros j Hj; rewrite rnth_app by lia; ruse j; lia).
  all: try (match goal with
            | f : option bool, H : In (_, _, true) (_ ++ _) |- _ =>
                destruct f as [[|]|];
                (apply in_app_or in H; destruct H as [H|[H|[]]]; [ specialize (Ifl _ _ H); lia | inversion H ])
            end; fail).
  all: eexists; split; [eassumption|]; repeat split; auto; try lia.
  all: try (intros Hx; match goal with H : after_collect _ = true -> _ |- _ => destruct (H Hx) as [? ?] end; split; [lia|];
            intros j Hj; rewrite rnth_app by lia; ruse j; lia).
  all: try (intros j Hj; match goal with H : after_collect ?x = true -> _, H' : after_collect ?x = true |- _ => destruct (H H') as [? ?] end;
            rewrite rnth_app by lia; ruse j; lia).
Qed.

Lemma raccept_preserves s te s' : RInv s -> raccept s te = Some s' -> RInv s'.
Proof.
  intros I H. destruct te as [t e]. unfold raccept in H; cbn [fst snd] in H. destruct t as [|t].
  - destruct (r_joined s) eqn:J; [discriminate|]. eapply rworker_preserves; eauto.
  - destruct (r_coll s) as [[c p]|] eqn:C.
    + destruct (Nat.eqb (S t) c) eqn:E.
      * apply Nat.eqb_eq in E; subst c. eapply rcoll_preserves; eauto.
      * eapply rapp_preserves; eauto.
    + eapply rapp_preserves; eauto.
Qed.

Lemma rrun_preserves tr : forall s s', RInv s -> rrun s tr = Some s' -> RInv s'.
Proof.
  induction tr as [|te tr IH]; intros s s' I H; simpl in H.
  - inversion H; subst; exact I.
  - destruct (raccept s te) as [s1|] eqn:A; [|discriminate]. eapply IH; [eapply raccept_preserves; eauto | exact H].
Qed.

Definition rreachable (s : rst) : Prop := exists tr, rrun rinit tr = Some s.
Theorem rreachable_inv s : rreachable s -> RInv s.
Proof. intros [tr H]. eapply rrun_preserves; [apply RInv_init | exact H]. Qed.

(* C03: an Export never starts while a previous Export on the exporter is still running *)
Theorem periodic_export_never_overlaps s t n s' :
  rreachable s -> raccept s (t, RExpBegin n) = Some s' -> r_fly s = None.
Proof.
  intros R H. pose proof (rreachable_inv s R) as I. unfold raccept in H; cbn [fst snd] in H.
  destruct t as [|t].
  - destruct (r_joined s); [discriminate|]. unfold raccept_worker in H. destruct (r_wp s); try discriminate; destruct lastshut; discriminate.
  - destruct (r_coll s) as [[c p]|] eqn:C.
    + destruct (Nat.eqb (S t) c) eqn:E.
      * unfold raccept_coll in H. destruct p; try discriminate H.
        destruct (r_fly s) as [c'|] eqn:F; auto. apply (q_fly s I) in F. destruct F as [m F]. congruence.
      * unfold raccept_app in H. destruct (r_ap s (S t)); try discriminate H.
        all: try (destruct last; destruct fl; discriminate H).
    + unfold raccept_app in H. destruct (r_ap s (S t)); try discriminate H.
      all: try (destruct last; destruct fl; discriminate H).
Qed.

(* C02: once a Shutdown call has returned, no Export is ever started again *)
Theorem periodic_no_export_after_shutdown s t n :
  rreachable s -> 0 < r_sh_done s -> raccept s (t, RExpBegin n) = None.
Proof.
  intros R D. pose proof (rreachable_inv s R) as I.
  pose proof (q_shdone s I D) as J. destruct (q_joined s I J) as (C & W & S1).
  unfold raccept; cbn [fst snd]. destruct t as [|t].
  - rewrite J. reflexivity.
  - rewrite C. unfold raccept_app. destruct (r_ap s (S t)); try reflexivity. destruct last; destruct fl; reflexivity.
Qed.

(* C02: a ForceFlush that returned true with ticket k: an Export of a collection that saw at least everything recorded
   when the ticket was taken has completed (r_covered = the largest collection whose Export has returned) *)
Theorem periodic_flush_true_complete s t k :
  rreachable s -> In (t, k, true) (r_fl_done s) -> rmark s k <= r_covered s.
Proof.
  intros R Hin. pose proof (rreachable_inv s R) as I.
  pose proof (q_fldone s I t k Hin) as Hk. apply (q_published s I k Hk).
Qed.

Theorem periodic_ticket_mark s t old s' :
  t <> 0 -> r_coll s = None -> raccept s (t, RFaddPending old) = Some s' -> length (r_marks s) = r_pending s ->
  rmark s' (S old) = r_nrec s /\ r_pending s' = S old.
Proof.
  intros T C H L. destruct t as [|t]; [congruence|]. unfold raccept in H; cbn [fst snd] in H. rewrite C in H.
  unfold raccept_app in H. destruct (r_ap s (S t)); try discriminate H.
  - destruct (Nat.eqb old (r_pending s)) eqn:E; [|discriminate H]. apply Nat.eqb_eq in E. inversion H; subst; simpl.
    unfold rmark; simpl. split; auto. replace (r_pending s - 0) with (length (r_marks s)) by lia. apply nth_middle.
  - destruct last; destruct fl; discriminate H.
Qed.

Example periodic_demo :
  exists s, rrun rinit [(1, RRec 1); (1, RCallFlush); (1, RLdShut false); (1, RFaddPending 0);
                        (0, RLdPending 1); (0, RSpawn 3); (3, RLdShut false); (3, RCollect 1); (3, RLdCancel false);
                        (3, RExpBegin 1); (3, RExpEnd true); (3, RSetValue); (0, RFutReady); (0, RJoin 3); (0, RLdCancel false);
                        (0, RLdNotified 0); (0, RCasNotified 0 1 0 true); (0, RCasNotified 0 1 1 false);
                        (1, RLdNotified 1); (1, RExpFlush true); (1, RLdNotified 1); (1, RRetFlush true)] = Some s
            /\ In (1, 1, true) (r_fl_done s) /\ r_covered s = 1.
Proof. eexists. split; [vm_compute; reflexivity|]. simpl. auto. Qed.
