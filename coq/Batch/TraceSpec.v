(* Every trace the batch acceptor accepts passes the C03 history checker (Batch/Spec.v: spec_c03) and the
   C01 drop / exactly-once checkers: the link between the LTS theorems and the checkers that are run on the
   implementation's traces ("model meets spec" for the E-sched properties). *)
From V Require Import Batch.Model Batch.Glue Batch.Spec Batch.ProofsA Batch.ProofsB Batch.Theorems.
From Coq Require Import Lia List Arith Bool.
Import ListNotations.

Definition pevs (tr : list (nat * ev)) : hist := map (fun te => PEv (fst te) (snd te)) tr.
Definition flying (s : st) : bool := match inflight s with Some _ => true | None => false end.

Lemma list_eqb_eq a : forall b, list_eqb a b = true -> a = b.
Proof.
  induction a as [|x a IH]; intros [|y b] H; simpl in H; try discriminate; auto.
  apply andb_prop in H. destruct H as [H1 H2]. apply Nat.eqb_eq in H1. subst. f_equal. apply IH; auto.
Qed.

Lemma accept_Bsz s te s' : accept s te = Some s' -> Bsz s' = Bsz s /\ Qsz s' = Qsz s.
Proof.
  intros H. destruct te as [[|t] e]; unfold accept in H; simpl in H.
  - unfold accept_worker in H. split_matches H; inversion H; subst; simpl; auto.
  - unfold accept_app, with_ap in H. split_matches H; inversion H; subst; simpl; auto.
Qed.

(* one accepted step satisfies the checks the C03 walker makes at that event, and the walker's flag follows the state *)
Lemma c03_step s t e s' :
  Inv s -> accept s (t, e) = Some s' ->
  match e with
  | EExpBegin ids => flying s = false /\ 1 <= length ids <= Bsz s /\ flying s' = true
  | EExpEnd _ => flying s = true /\ flying s' = false
  | EExpFlush _ | EExpShutdown _ => flying s = false /\ flying s' = false
  | _ => flying s' = flying s
  end.
Proof.
  intros [IA IB] H. pose proof (a_inflight s IA) as I. pose proof (a_wp s IA) as W.
  unfold flying. destruct t as [|t]; unfold accept in H; simpl in H.
  - unfold accept_worker in H. unfold wp_inv in W.
    destruct (wp s) eqn:Wp; destruct e; try discriminate H;
      repeat match goal with o : option nat |- _ => destruct o end; simpl in H;
      repeat break_if; try discriminate H; inv_some; bools; simpl; rewrite ?I; auto.
    + (* EExpBegin *) destruct W as (_ & _ & Hb). apply list_eqb_eq in E. subst. repeat split; auto; apply Hb.
  - unfold accept_app, with_ap in H. pose proof (b_thr s IB (S t)) as T. unfold thr_inv in T.
    destruct (ap s (S t)) eqn:A; destruct e; try discriminate H;
      repeat match goal with o : option nat |- _ => destruct o end; simpl in H;
      repeat break_if; try discriminate H;
      repeat match goal with
             | H : match ?x with _ => _ end = Some _ |- _ => destruct x eqn:?; try discriminate H
             end; inv_some; simpl; auto.
    (* exporter Shutdown: the caller has joined the worker, so nothing is in flight *)
    destruct T as (_ & _ & J & _). pose proof (b_joined s IB J) as Wd. rewrite Wd in I. rewrite I. auto.
Qed.

Lemma c03_walk_accepts : forall tr s s', Inv s -> run s tr = Some s' -> c03_walk (Bsz s) (flying s) (pevs tr) = [].
Proof.
  induction tr as [|[t e] tr IH]; intros s s' I H; simpl in *; auto.
  destruct (accept s (t, e)) as [s1|] eqn:A; [|discriminate].
  pose proof (c03_step s t e s1 I A) as St. pose proof (accept_preserves s (t, e) s1 I A) as I1.
  destruct (accept_Bsz s (t, e) s1 A) as [Bq _].
  specialize (IH s1 s' I1 H). rewrite Bq in IH.
  destruct e; simpl; try (rewrite <- St; exact IH).
  - destruct St as (F & [L1 L2] & F'). rewrite F; simpl. rewrite F' in IH.
    assert (X1 : (0 <? length ids) = true) by (apply Nat.ltb_lt; lia).
    assert (X2 : (length ids <=? Bsz s) = true) by (apply Nat.leb_le; lia).
    rewrite X1, X2. simpl. exact IH.
  - destruct St as (F & F'). rewrite F; simpl. rewrite F' in IH. exact IH.
  - destruct St as (F & F'). rewrite F; simpl. rewrite F' in IH. exact IH.
  - destruct St as (F & F'). rewrite F; simpl. rewrite F' in IH. exact IH.
Qed.

(* every accepted trace, from the initial state, passes the C03 history checker *)
Theorem accepted_trace_meets_spec_c03 q b tr s : run (init q b) tr = Some s -> spec_c03 b (pevs tr) = [].
Proof. intros H. unfold spec_c03. exact (c03_walk_accepts tr (init q b) s (Inv_init q b) H). Qed.

(* ... and the C01 drop checker: a record is refused only when accepted - consumed >= Q.  Walker state = (|enq|, deq). *)
Lemma c01_drop_step s t e s' :
  Inv s -> accept s (t, e) = Some s' ->
  match e with
  | EBufAdd _ true => length (enq s') = S (length (enq s)) /\ deq s' = deq s
  | EBufAdd _ false => Qsz s <= length (enq s) - deq s /\ length (enq s') = length (enq s) /\ deq s' = deq s
  | EBufConsume n => length (enq s') = length (enq s) /\ deq s' = deq s + n
  | _ => length (enq s') = length (enq s) /\ deq s' = deq s
  end.
Proof.
  intros [IA IB] H. pose proof (queue_len s (a_deq s IA)) as QL.
  destruct t as [|t]; unfold accept in H; simpl in H.
  - unfold accept_worker in H.
    destruct (wp s) eqn:Wp; destruct e; try discriminate H;
      repeat match goal with o : option nat |- _ => destruct o end; simpl in H;
      repeat break_if; try discriminate H; inv_some; bools; simpl; auto.
  - unfold accept_app, with_ap in H.
    destruct (ap s (S t)) eqn:A; destruct e; try discriminate H;
      repeat match goal with o : option nat |- _ => destruct o end; simpl in H;
      repeat break_if; try discriminate H;
      repeat match goal with
             | H : match ?x with _ => _ end = Some _ |- _ => destruct x eqn:?; try discriminate H
             end; inv_some; bools; simpl; rewrite ?app_length; simpl; auto; try lia.
    all: repeat match goal with b : bool |- _ => destruct b end; simpl in *; bools; try discriminate; auto; try lia.
Qed.

Lemma c01_drop_walk_accepts : forall tr s s', Inv s -> run s tr = Some s' ->
  c01_drop_walk (Qsz s) (length (enq s)) (deq s) (pevs tr) = true.
Proof.
  induction tr as [|[t e] tr IH]; intros s s' I H; simpl in *; auto.
  destruct (accept s (t, e)) as [s1|] eqn:A; [|discriminate].
  pose proof (c01_drop_step s t e s1 I A) as St. pose proof (accept_preserves s (t, e) s1 I A) as I1.
  destruct (accept_Bsz s (t, e) s1 A) as [_ Qq].
  specialize (IH s1 s' I1 H). rewrite Qq in IH.
  destruct e; simpl; try (destruct St as [E1 E2]; rewrite E1, E2 in IH; exact IH).
  - destruct ok.
    + destruct St as [E1 E2]. rewrite E1, E2 in IH. exact IH.
    + destruct St as (L & E1 & E2). rewrite E1, E2 in IH. rewrite IH. apply Nat.leb_le in L. rewrite L. reflexivity.
Qed.

Theorem accepted_trace_meets_spec_c01_drop q b tr s :
  run (init q b) tr = Some s -> c01_drop_only_when_full q (pevs tr) = [].
Proof.
  intros H. unfold c01_drop_only_when_full.
  pose proof (c01_drop_walk_accepts tr (init q b) s (Inv_init q b) H) as W. simpl in W. rewrite W. reflexivity.
Qed.
