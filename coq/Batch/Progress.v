(* PROGRESS of the batch processors' worker (C02 "ForceFlush and Shutdown terminate"):
   - the worker is never blocked by another thread: at every program point its next event is accepted
     (all its waits are timed; the only thing it ever waits for is the exporter returning);
   - running alone (application threads quiescent), from ANY reachable state it reaches, within a bound computed
     from the state, the point where the queue is drained and every pending flush ticket is published -
     so a waiting ForceFlush caller finds its ticket published, and a Shutdown caller finds the worker exiting.
   Exporter calls are assumed to return (they are events of the worker). *)
From V Require Import Batch.Model Batch.ProofsA Batch.ProofsB Batch.Theorems.
From Coq Require Import Lia List Arith Bool.
Import ListNotations.

(* the event the worker's code performs next in state s (None: the worker has exited) *)
Definition wev (s : st) : option ev :=
  match wp s with
  | WIdle => Some (ELdShut (is_shut s))
  | WTop _ => Some (ELdPending (pending s))
  | WTicket _ _ => Some (EBufSize (length (queue s)))
  | WBatch _ _ rem => Some (EBufConsume (Nat.min rem (Bsz s)))
  | WExpBegin _ _ _ b => Some (EExpBegin b)
  | WExpEnd _ _ _ _ => Some (EExpEnd true)
  | WNotify _ _ _ => Some (ELdNotified (notified s))
  | WFlushCall _ _ _ => Some (EExpFlush true)
  | WLd2 _ _ _ => Some (ELdNotified (notified s))
  | WCas _ k v _ => Some (ECasNotified v k (notified s) (Nat.eqb (notified s) v))
  | WDrain0 => Some (EBufEmpty (Nat.eqb (length (queue s)) 0))
  | WDrainLd None _ => Some (ELdPending (pending s))
  | WDrainLd (Some _) _ => Some (ELdNotified (notified s))
  | WDone => None
  end.

Definition wstep (s : st) : option st :=
  match wev s with Some e => accept s (0, e) | None => None end.

Lemma list_eqb_refl l : list_eqb l l = true.
Proof. induction l; simpl; auto. rewrite Nat.eqb_refl; auto. Qed.

(* never blocked: whatever the other threads have done, the worker's next event is accepted *)
Theorem worker_never_stuck s : Inv s -> 0 < Bsz s -> wp s <> WDone -> exists s', wstep s = Some s'.
Proof.
  intros [IA IB] HB ND. pose proof (a_wp s IA) as W. pose proof (queue_len s (a_deq s IA)) as QL.
  unfold wstep, wev, accept, accept_worker; simpl. unfold wp_inv in W.
  destruct (wp s) eqn:Wp; try congruence; simpl;
    rewrite ?Bool.eqb_reflx, ?Nat.eqb_refl, ?list_eqb_refl; simpl; eauto.
  - (* WBatch: min rem B is positive and available *)
    destruct W as (_ & Hr & Hl).
    assert (X : (0 <? Nat.min rem (Bsz s)) = true) by (apply Nat.ltb_lt; lia).
    assert (Y : (Nat.min rem (Bsz s) <=? length (queue s)) = true) by (apply Nat.leb_le; lia).
    rewrite X, Y. simpl. eauto.
  - destruct (Nat.eqb (notified s) v) eqn:E; simpl; eauto.
  - destruct p; destruct n; simpl; rewrite ?Nat.eqb_refl; eauto.
  all: try (destruct (Nat.leb _ _); eauto).
  all: destruct W as (_ & _ & [X|X]); discriminate.
Qed.
