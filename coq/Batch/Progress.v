(* PROGRESS of the batch processors' worker (C02 "ForceFlush and Shutdown terminate"):
   - the worker is never blocked by another thread: at every program point its next event is accepted
     (all its waits are timed; the only thing it ever waits for is the exporter returning);
   - running alone (application threads quiescent), from ANY state satisfying the invariant it reaches, within a bound
     computed from the state, (a) when not shut down: the point where the queue is drained and every pending flush
     ticket is published, so a waiting ForceFlush caller finds its ticket published (worker_solo_flush_progress);
     (b) when shut down: its exit, so a Shutdown caller's join returns (worker_solo_shutdown_exit) - having drained
     every accepted record unless it was already past DrainQueue's empty test when a late record came in
     (worker_solo_shutdown_progress, late_record_left_behind).
   Exporter calls are assumed to return (they are events of the worker). *)
From V Require Import Batch.Model Batch.ProofsA Batch.ProofsB Batch.Theorems.
From Coq Require Import Lia List Arith Bool.
Import ListNotations.

(* the event the worker's code performs next in state s (None: the worker has exited) *)
Definition wev (s : st) : option ev :=
  match wp s with
  | WIdle => Some (ELdShut (is_shut s))
  | WTop _ => Some (ELdPending (pending s))
  | WTicket _ _ => Some (EBufSize (length (queue s)))
  | WBatch _ _ rem => Some (EBufConsume (Nat.min rem (Bsz s)))
  | WExpBegin _ _ _ b => Some (EExpBegin b)
  | WExpEnd _ _ _ _ => Some (EExpEnd true)
  | WNotify _ _ _ => Some (ELdNotified (notified s))
  | WFlushCall _ _ _ => Some (EExpFlush true)
  | WLd2 _ _ _ => Some (ELdNotified (notified s))
  | WCas _ k v _ => Some (ECasNotified v k (notified s) (Nat.eqb (notified s) v))
  | WDrain0 => Some (EBufEmpty (Nat.eqb (length (queue s)) 0))
  | WDrainLd None _ => Some (ELdPending (pending s))
  | WDrainLd (Some _) _ => Some (ELdNotified (notified s))
  | WDone => None
  end.

Definition wstep (s : st) : option st :=
  match wev s with Some e => accept s (0, e) | None => None end.

Lemma list_eqb_refl l : list_eqb l l = true.
Proof. induction l; simpl; auto. rewrite Nat.eqb_refl; auto. Qed.

(* never blocked: whatever the other threads have done, the worker's next event is accepted *)
Theorem worker_never_stuck s : Inv s -> 0 < Bsz s -> wp s <> WDone -> exists s', wstep s = Some s'.
Proof.
  intros [IA IB] HB ND. pose proof (a_wp s IA) as W. pose proof (queue_len s (a_deq s IA)) as QL.
  unfold wstep, wev, accept, accept_worker; simpl. unfold wp_inv in W.
  destruct (wp s) eqn:Wp; try congruence; simpl;
    rewrite ?Bool.eqb_reflx, ?Nat.eqb_refl, ?list_eqb_refl; simpl; eauto.
  - (* WBatch: min rem B is positive and available *)
    destruct W as (_ & Hr & Hl).
    assert (X : (0 <? Nat.min rem (Bsz s)) = true) by (apply Nat.ltb_lt; lia).
    assert (Y : (Nat.min rem (Bsz s) <=? length (queue s)) = true) by (apply Nat.leb_le; lia).
    rewrite X, Y. simpl. eauto.
  - destruct (Nat.eqb (notified s) v) eqn:E; simpl; eauto.
  - destruct p; destruct n; simpl; rewrite ?Nat.eqb_refl; eauto.
  all: try (destruct (Nat.leb _ _); eauto).
  all: destruct W as (_ & _ & [X|X]); discriminate.
Qed.

(* ------------------------------------------------------------------ solo progress
   Only the worker steps (the application threads are quiescent; exporter calls return - they are worker events).
   The solo worker is deterministic: [witer n s] is the state after n of its own steps. *)

Fixpoint witer (n : nat) (s : st) : option st :=
  match n with O => Some s | S n' => match wstep s with Some s1 => witer n' s1 | None => None end end.

(* s' is reached from s within b worker steps *)
Definition reach (b : nat) (s s' : st) : Prop := exists n, n <= b /\ witer n s = Some s'.

Lemma reach_refl s : reach 0 s s.
Proof. exists 0; split; [lia | reflexivity]. Qed.

Lemma reach_step b s s1 s' : wstep s = Some s1 -> reach b s1 s' -> reach (S b) s s'.
Proof. intros H (n & L & W). exists (S n); split; [lia|]. simpl. rewrite H. exact W. Qed.

Lemma witer_app n : forall m s s1 s2, witer n s = Some s1 -> witer m s1 = Some s2 -> witer (n + m) s = Some s2.
Proof.
  induction n as [|n IH]; intros m s s1 s2 H1 H2; simpl in *.
  - inversion H1; subst; exact H2.
  - destruct (wstep s) as [s0|] eqn:E; [|discriminate]. eapply IH; eauto.
Qed.

Lemma reach_trans a b s s1 s2 : reach a s s1 -> reach b s1 s2 -> reach (a + b) s s2.
Proof. intros (n & Ln & Wn) (m & Lm & Wm). exists (n + m); split; [lia|]. eapply witer_app; eauto. Qed.

Lemma reach_le a b s s' : a <= b -> reach a s s' -> reach b s s'.
Proof. intros L (n & Ln & W). exists n; split; [lia | exact W]. Qed.

(* what no worker step touches *)
Definition frame (s s' : st) : Prop :=
  enq s' = enq s /\ pending s' = pending s /\ is_shut s' = is_shut s /\ Bsz s' = Bsz s.

Lemma frame_refl s : frame s s.
Proof. unfold frame; auto. Qed.

Lemma frame_trans s s1 s2 : frame s s1 -> frame s1 s2 -> frame s s2.
Proof. unfold frame. intros (A & B & C & D) (A' & B' & C' & D'). repeat split; congruence. Qed.

Lemma wstep_frame s s' : wstep s = Some s' -> frame s s'.
Proof.
  unfold wstep. destruct (wev s) as [e|]; [|discriminate]. unfold accept; cbn [fst snd]. intros H.
  unfold accept_worker in H.
  destruct (wp s); destruct e; try discriminate H;
    repeat match goal with o : option nat |- _ => destruct o end; simpl in H;
    repeat break_if; try discriminate H; inv_some; unfold frame; simpl; auto.
Qed.

Lemma wstep_inv s s' : Inv s -> wstep s = Some s' -> Inv s'.
Proof. unfold wstep. intros I H. destruct (wev s); [|discriminate]. eapply accept_preserves; eauto. Qed.

Lemma witer_frame_inv n : forall s s', Inv s -> witer n s = Some s' -> Inv s' /\ frame s s'.
Proof.
  induction n as [|n IH]; intros s s' I H; simpl in H.
  - inversion H; subst. split; [exact I | apply frame_refl].
  - destruct (wstep s) as [s1|] eqn:E; [|discriminate].
    destruct (IH s1 s' (wstep_inv _ _ I E) H) as [I' F]. split; [exact I'|].
    eapply frame_trans; [eapply wstep_frame; eauto | exact F].
Qed.

Lemma reach_frame b s s' : reach b s s' -> frame s s'.
Proof.
  intros (n & _ & W). revert s W. induction n as [|n IH]; intros s W; simpl in W.
  - inversion W; subst; apply frame_refl.
  - destruct (wstep s) as [s0|] eqn:E; [|discriminate].
    eapply frame_trans; [eapply wstep_frame; eauto | apply IH; exact W].
Qed.

Lemma reach_frame_inv b s s' : Inv s -> reach b s s' -> Inv s' /\ frame s s'.
Proof. intros I (n & _ & W). eapply witer_frame_inv; eauto. Qed.

(* ---- the single steps, one lemma per program point *)
Ltac wstep_at Wp :=
  unfold wstep, wev; rewrite Wp; cbv beta iota; unfold accept; cbn [fst snd]; unfold accept_worker; rewrite Wp; cbv beta iota.
Ltac step_done := eexists; split; [reflexivity|]; repeat split; reflexivity.

Lemma step_idle s : wp s = WIdle ->
  exists s', wstep s = Some s' /\ wp s' = (if is_shut s then WDrain0 else WTop false) /\ deq s' = deq s /\ notified s' = notified s.
Proof. intros Wp. wstep_at Wp. rewrite Bool.eqb_reflx. step_done. Qed.

Lemma step_top s d : wp s = WTop d ->
  exists s', wstep s = Some s' /\ wp s' = WTicket d (pending s) /\ deq s' = deq s /\ notified s' = notified s.
Proof. intros Wp. wstep_at Wp. rewrite Nat.eqb_refl. step_done. Qed.

Lemma step_ticket s d k : wp s = WTicket d k ->
  exists s', wstep s = Some s' /\
             wp s' = (if Nat.eqb (length (queue s)) 0 then WNotify d k false else WBatch d k (length (queue s))) /\
             deq s' = deq s /\ notified s' = notified s.
Proof. intros Wp. wstep_at Wp. rewrite Nat.eqb_refl. step_done. Qed.

Lemma step_batch s d k rem : wp s = WBatch d k rem -> 0 < rem -> deq s + rem <= length (enq s) -> 0 < Bsz s ->
  exists s', wstep s = Some s' /\ wp s' = WExpBegin d k (rem - Nat.min rem (Bsz s)) (firstn (Nat.min rem (Bsz s)) (queue s)) /\
             deq s' = deq s + Nat.min rem (Bsz s) /\ notified s' = notified s.
Proof.
  intros Wp Hr Hl HB. wstep_at Wp.
  assert (QL : length (queue s) = length (enq s) - deq s) by (apply queue_len; lia).
  assert (X : (0 <? Nat.min rem (Bsz s)) = true) by (apply Nat.ltb_lt; lia).
  assert (Y : (Nat.min rem (Bsz s) <=? length (queue s)) = true) by (apply Nat.leb_le; lia).
  rewrite Nat.eqb_refl, X, Y. cbv beta iota delta [andb]. step_done.
Qed.

Lemma step_expbegin s d k rem b : wp s = WExpBegin d k rem b ->
  exists s', wstep s = Some s' /\ wp s' = WExpEnd d k rem b /\ deq s' = deq s /\ notified s' = notified s.
Proof. intros Wp. wstep_at Wp. rewrite list_eqb_refl. step_done. Qed.

Lemma step_expend s d k rem b : wp s = WExpEnd d k rem b ->
  exists s', wstep s = Some s' /\ wp s' = (if Nat.eqb rem 0 then WNotify d k true else WBatch d k rem) /\
             deq s' = deq s /\ notified s' = notified s.
Proof. intros Wp. wstep_at Wp. step_done. Qed.

Lemma step_notify s d k more : wp s = WNotify d k more ->
  exists s', wstep s = Some s' /\ wp s' = (if Nat.ltb (notified s) k then WFlushCall d k more else after_notify d more) /\
             deq s' = deq s /\ notified s' = notified s.
Proof. intros Wp. wstep_at Wp. rewrite Nat.eqb_refl. step_done. Qed.

Lemma step_flushcall s d k more : wp s = WFlushCall d k more ->
  exists s', wstep s = Some s' /\ wp s' = WLd2 d k more /\ deq s' = deq s /\ notified s' = notified s.
Proof. intros Wp. wstep_at Wp. step_done. Qed.

Lemma step_ld2 s d k more : wp s = WLd2 d k more ->
  exists s', wstep s = Some s' /\ wp s' = (if Nat.ltb (notified s) k then WCas d k (notified s) more else after_notify d more) /\
             deq s' = deq s /\ notified s' = notified s.
Proof. intros Wp. wstep_at Wp. rewrite Nat.eqb_refl. step_done. Qed.

Lemma step_cas s d k v more : wp s = WCas d k v more ->
  exists s', wstep s = Some s' /\ deq s' = deq s /\
             if Nat.eqb (notified s) v
             then wp s' = WCas d k v more /\ notified s' = k
             else wp s' = (if Nat.ltb (notified s) k then WCas d k (notified s) more else after_notify d more) /\
                  notified s' = notified s.
Proof.
  intros Wp. wstep_at Wp. rewrite !Nat.eqb_refl, Bool.eqb_reflx. cbv beta iota delta [andb].
  destruct (Nat.eqb (notified s) v); step_done.
Qed.

Lemma step_drain0 s : wp s = WDrain0 ->
  exists s', wstep s = Some s' /\ wp s' = (if Nat.eqb (length (queue s)) 0 then WDrainLd None None else WTop true) /\
             deq s' = deq s /\ notified s' = notified s.
Proof. intros Wp. wstep_at Wp. rewrite Bool.eqb_reflx. step_done. Qed.

Lemma step_drainld s p n : wp s = WDrainLd p n -> p = None \/ n = None ->
  exists s', wstep s = Some s' /\ deq s' = deq s /\ notified s' = notified s /\
             wp s' = match p, n with
                     | None, None => WDrainLd (Some (pending s)) None
                     | None, Some nv => if Nat.leb (pending s) nv then WDone else WTop true
                     | Some pv, _ => if Nat.leb pv (notified s) then WDone else WTop true
                     end.
Proof.
  intros Wp PN. destruct p as [pv|]; destruct n as [nv|]; try (destruct PN; discriminate);
    wstep_at Wp; rewrite Nat.eqb_refl; step_done.
Qed.

(* ---- (1) the batch loop: the snapshot [rem] is consumed in batches of min rem B >= 1, three steps each *)
Lemma batch_pass : forall rem s d k,
  wp s = WBatch d k rem -> 0 < rem -> deq s + rem <= length (enq s) -> 0 < Bsz s ->
  exists s', reach (3 * rem) s s' /\ wp s' = WNotify d k true /\ deq s' = deq s + rem /\ notified s' = notified s.
Proof.
  induction rem as [rem IH] using lt_wf_ind. intros s d k Wp Hr Hl HB.
  destruct (step_batch s d k rem Wp Hr Hl HB) as (s1 & S1 & W1 & D1 & N1).
  destruct (step_expbegin s1 _ _ _ _ W1) as (s2 & S2 & W2 & D2 & N2).
  destruct (step_expend s2 _ _ _ _ W2) as (s3 & S3 & W3 & D3 & N3).
  destruct (wstep_frame _ _ S1) as (E1 & _ & _ & B1).
  destruct (wstep_frame _ _ S2) as (E2 & _ & _ & B2).
  destruct (wstep_frame _ _ S3) as (E3 & _ & _ & B3).
  assert (R3 : reach 3 s s3).
  { eapply reach_step; [exact S1|]. eapply reach_step; [exact S2|]. eapply reach_step; [exact S3|]. apply reach_refl. }
  destruct (Nat.eqb (rem - Nat.min rem (Bsz s)) 0) eqn:Z.
  - apply Nat.eqb_eq in Z. exists s3. split; [eapply reach_le; [|exact R3]; lia|].
    split; [exact W3|]. split; lia.
  - apply Nat.eqb_neq in Z.
    destruct (IH (rem - Nat.min rem (Bsz s)) ltac:(lia) s3 d k W3 ltac:(lia)) as (s' & R & W' & D' & N'); try lia.
    { rewrite E3, E2, E1. lia. }
    exists s'. split; [eapply reach_le; [|eapply reach_trans; [exact R3 | exact R]]; lia|].
    split; [exact W'|]. split; lia.
Qed.

(* ---- (2) NotifyCompletion(k): at most five steps, notified becomes max notified k *)
Lemma cas_pass_eq s d k v more : wp s = WCas d k v more -> v < k -> notified s = v ->
  exists s', reach 2 s s' /\ wp s' = after_notify d more /\ deq s' = deq s /\ notified s' = k.
Proof.
  intros Wp Hv Hn. destruct (step_cas s d k v more Wp) as (s1 & S1 & D1 & X).
  rewrite (proj2 (Nat.eqb_eq _ _) Hn) in X. destruct X as [W1 N1].
  destruct (step_cas s1 d k v more W1) as (s2 & S2 & D2 & X).
  assert (E : Nat.eqb (notified s1) v = false) by (apply Nat.eqb_neq; lia).
  assert (L : Nat.ltb (notified s1) k = false) by (apply Nat.ltb_ge; lia).
  rewrite E, L in X. destruct X as [W2 N2].
  exists s2. split; [eapply reach_step; [exact S1|]; eapply reach_step; [exact S2|]; apply reach_refl|].
  split; [exact W2|]. split; lia.
Qed.

Lemma cas_pass s d k v more : wp s = WCas d k v more -> v < k ->
  exists s', reach 3 s s' /\ wp s' = after_notify d more /\ deq s' = deq s /\ notified s' = Nat.max (notified s) k.
Proof.
  intros Wp Hv. destruct (Nat.eqb (notified s) v) eqn:E.
  - apply Nat.eqb_eq in E. destruct (cas_pass_eq s d k v more Wp Hv E) as (s' & R & W & D & N).
    exists s'. split; [eapply reach_le; [|exact R]; lia|]. split; [exact W|]. split; lia.
  - destruct (step_cas s d k v more Wp) as (s1 & S1 & D1 & X). rewrite E in X. destruct X as [W1 N1].
    destruct (Nat.ltb (notified s) k) eqn:L.
    + apply Nat.ltb_lt in L.
      destruct (cas_pass_eq s1 d k (notified s) more W1 L N1) as (s' & R & W & D & N).
      exists s'. split; [eapply reach_step; [exact S1 | exact R]|]. split; [exact W|]. split; lia.
    + apply Nat.ltb_ge in L. exists s1.
      split; [eapply reach_le; [|eapply reach_step; [exact S1 | apply reach_refl]]; lia|]. split; [exact W1|]. split; lia.
Qed.

Lemma ld2_pass s d k more : wp s = WLd2 d k more ->
  exists s', reach 3 s s' /\ wp s' = after_notify d more /\ deq s' = deq s /\ notified s' = Nat.max (notified s) k.
Proof.
  intros Wp. destruct (step_ld2 s d k more Wp) as (s1 & S1 & W1 & D1 & N1).
  destruct (Nat.ltb (notified s) k) eqn:L.
  - apply Nat.ltb_lt in L.
    destruct (cas_pass_eq s1 d k (notified s) more W1 L N1) as (s' & R & W & D & N).
    exists s'. split; [eapply reach_step; [exact S1 | exact R]|]. split; [exact W|]. split; lia.
  - apply Nat.ltb_ge in L. exists s1.
    split; [eapply reach_le; [|eapply reach_step; [exact S1 | apply reach_refl]]; lia|]. split; [exact W1|]. split; lia.
Qed.

Lemma flushcall_pass s d k more : wp s = WFlushCall d k more ->
  exists s', reach 4 s s' /\ wp s' = after_notify d more /\ deq s' = deq s /\ notified s' = Nat.max (notified s) k.
Proof.
  intros Wp. destruct (step_flushcall s d k more Wp) as (s1 & S1 & W1 & D1 & N1).
  destruct (ld2_pass s1 d k more W1) as (s' & R & W & D & N).
  exists s'. split; [eapply reach_step; [exact S1 | exact R]|]. split; [exact W|]. split; lia.
Qed.

Lemma notify_pass s d k more : wp s = WNotify d k more ->
  exists s', reach 5 s s' /\ wp s' = after_notify d more /\ deq s' = deq s /\ notified s' = Nat.max (notified s) k.
Proof.
  intros Wp. destruct (step_notify s d k more Wp) as (s1 & S1 & W1 & D1 & N1).
  destruct (Nat.ltb (notified s) k) eqn:L.
  - destruct (flushcall_pass s1 d k more W1) as (s' & R & W & D & N).
    exists s'. split; [eapply reach_step; [exact S1 | exact R]|]. split; [exact W|]. split; lia.
  - apply Nat.ltb_ge in L. exists s1.
    split; [eapply reach_le; [|eapply reach_step; [exact S1 | apply reach_refl]]; lia|]. split; [exact W1|]. split; lia.
Qed.

(* ---- (3) the rest of a pass from inside the batch loop, from the size snapshot, and a full pass from the top *)
Lemma batch_notify_pass s d k rem :
  wp s = WBatch d k rem -> 0 < rem -> deq s + rem <= length (enq s) -> 0 < Bsz s ->
  exists s', reach (5 + 3 * rem) s s' /\ wp s' = after_notify d true /\ deq s' = deq s + rem /\
             notified s' = Nat.max (notified s) k.
Proof.
  intros Wp Hr Hl HB. destruct (batch_pass rem s d k Wp Hr Hl HB) as (s1 & R1 & W1 & D1 & N1).
  destruct (notify_pass s1 d k true W1) as (s' & R & W & D & N).
  exists s'. split; [eapply reach_le; [|eapply reach_trans; [exact R1 | exact R]]; lia|]. split; [exact W|]. split; lia.
Qed.

Lemma expend_pass s d k rem b : wp s = WExpEnd d k rem b -> deq s + rem <= length (enq s) -> 0 < Bsz s ->
  exists s', reach (6 + 3 * rem) s s' /\ wp s' = after_notify d true /\ deq s' = deq s + rem /\
             notified s' = Nat.max (notified s) k.
Proof.
  intros Wp Hl HB. destruct (step_expend s d k rem b Wp) as (s1 & S1 & W1 & D1 & N1).
  destruct (wstep_frame _ _ S1) as (E1 & _ & _ & B1).
  destruct (Nat.eqb rem 0) eqn:Z.
  - apply Nat.eqb_eq in Z. destruct (notify_pass s1 d k true W1) as (s' & R & W & D & N).
    exists s'. split; [eapply reach_le; [|eapply reach_step; [exact S1 | exact R]]; lia|]. split; [exact W|]. split; lia.
  - apply Nat.eqb_neq in Z.
    destruct (batch_notify_pass s1 d k rem W1) as (s' & R & W & D & N); try lia.
    { rewrite E1. lia. }
    exists s'. split; [eapply reach_le; [|eapply reach_step; [exact S1 | exact R]]; lia|]. split; [exact W|]. split; lia.
Qed.

Lemma ticket_pass s d k : wp s = WTicket d k -> deq s <= length (enq s) -> 0 < Bsz s ->
  exists s', reach (6 + 3 * (length (enq s) - deq s)) s s' /\
             wp s' = after_notify d (negb (Nat.eqb (length (enq s) - deq s) 0)) /\
             deq s' = length (enq s) /\ notified s' = Nat.max (notified s) k.
Proof.
  intros Wp Hd HB. destruct (step_ticket s d k Wp) as (s1 & S1 & W1 & D1 & N1).
  destruct (wstep_frame _ _ S1) as (E1 & _ & _ & B1).
  rewrite (queue_len s Hd) in W1.
  destruct (Nat.eqb (length (enq s) - deq s) 0) eqn:Z; cbn [negb].
  - apply Nat.eqb_eq in Z. destruct (notify_pass s1 d k false W1) as (s' & R & W & D & N).
    exists s'. split; [eapply reach_le; [|eapply reach_step; [exact S1 | exact R]]; lia|]. split; [exact W|]. split; lia.
  - apply Nat.eqb_neq in Z.
    destruct (batch_notify_pass s1 d k _ W1) as (s' & R & W & D & N); try lia.
    { rewrite E1. lia. }
    exists s'. split; [eapply reach_le; [|eapply reach_step; [exact S1 | exact R]]; lia|]. split; [exact W|]. split; lia.
Qed.

Lemma top_pass s d : wp s = WTop d -> deq s <= length (enq s) -> 0 < Bsz s ->
  exists s', reach (7 + 3 * (length (enq s) - deq s)) s s' /\
             wp s' = after_notify d (negb (Nat.eqb (length (enq s) - deq s) 0)) /\
             deq s' = length (enq s) /\ notified s' = Nat.max (notified s) (pending s).
Proof.
  intros Wp Hd HB. destruct (step_top s d Wp) as (s1 & S1 & W1 & D1 & N1).
  destruct (wstep_frame _ _ S1) as (E1 & _ & _ & B1).
  destruct (ticket_pass s1 d (pending s) W1) as (s' & R & W & D & N); try lia.
  { rewrite E1. lia. }
  rewrite E1, D1 in *.
  exists s'. split; [eapply reach_le; [|eapply reach_step; [exact S1 | exact R]]; lia|]. split; [exact W|]. split; lia.
Qed.

(* ---- from any point inside Export()/NotifyCompletion the worker finishes that pass *)
Definition in_pass (w : wpc) : bool :=
  match w with
  | WTicket _ _ | WBatch _ _ _ | WExpBegin _ _ _ _ | WExpEnd _ _ _ _ | WNotify _ _ _ | WFlushCall _ _ _ | WLd2 _ _ _
  | WCas _ _ _ _ => true
  | _ => false
  end.

Lemma mid_pass s : Inv s -> 0 < Bsz s -> in_pass (wp s) = true ->
  exists s' more, reach (7 + 3 * (deq s' - deq s)) s s' /\ wp s' = after_notify (wp_d (wp s)) more /\
                  deq s <= deq s' <= length (enq s).
Proof.
  intros [IA IB] HB P. pose proof (a_wp s IA) as W. pose proof (a_deq s IA) as Hd. unfold wp_inv in W.
  destruct (wp s) eqn:Wp; try discriminate P; cbn [wp_d].
  - (* WTicket *)
    destruct (ticket_pass s d k Wp Hd HB) as (s' & R & W' & D & _).
    exists s'; eexists. split; [eapply reach_le; [|exact R]; lia|]. split; [exact W'|]. lia.
  - (* WBatch *)
    destruct W as (_ & Hr & Hl).
    destruct (batch_notify_pass s d k rem Wp Hr Hl HB) as (s' & R & W' & D & _).
    exists s'; eexists. split; [eapply reach_le; [|exact R]; lia|]. split; [exact W'|]. lia.
  - (* WExpBegin *)
    destruct W as (_ & Hl & _).
    destruct (step_expbegin s d k rem b Wp) as (s1 & S1 & W1 & D1 & N1).
    destruct (wstep_frame _ _ S1) as (E1 & _ & _ & B1).
    destruct (expend_pass s1 d k rem b W1) as (s' & R & W' & D & _); try lia.
    { rewrite E1. lia. }
    exists s'; eexists. split; [eapply reach_le; [|eapply reach_step; [exact S1 | exact R]]; lia|]. split; [exact W'|]. lia.
  - (* WExpEnd *)
    destruct W as (_ & Hl & _).
    destruct (expend_pass s d k rem b Wp Hl HB) as (s' & R & W' & D & _).
    exists s'; eexists. split; [eapply reach_le; [|exact R]; lia|]. split; [exact W'|]. lia.
  - destruct (notify_pass s d k more Wp) as (s' & R & W' & D & _).
    exists s'; eexists. split; [eapply reach_le; [|exact R]; lia|]. split; [exact W'|]. lia.
  - destruct (flushcall_pass s d k more Wp) as (s' & R & W' & D & _).
    exists s'; eexists. split; [eapply reach_le; [|exact R]; lia|]. split; [exact W'|]. lia.
  - destruct (ld2_pass s d k more Wp) as (s' & R & W' & D & _).
    exists s'; eexists. split; [eapply reach_le; [|exact R]; lia|]. split; [exact W'|]. lia.
  - destruct W as (_ & Hv).
    destruct (cas_pass s d k v more Wp Hv) as (s' & R & W' & D & _).
    exists s'; eexists. split; [eapply reach_le; [|exact R]; lia|]. split; [exact W'|]. lia.
Qed.

(* ---- (a) not shut down: a full pass from the top drains the queue and publishes every pending ticket *)
Definition flush_goal (s s' : st) : Prop :=
  notified s' = pending s /\ pending s' = pending s /\ enq s' = enq s /\ deq s' = length (enq s) /\ inflight s' = None.

Lemma after_notify_inflight s d more : Inv s -> wp s = after_notify d more -> inflight s = None.
Proof.
  intros [IA _] W. rewrite (a_inflight s IA), W. unfold after_notify. destruct more; [|destruct d]; reflexivity.
Qed.

Lemma top_goal s d : Inv s -> 0 < Bsz s -> wp s = WTop d ->
  exists s', reach (7 + 3 * (length (enq s) - deq s)) s s' /\ flush_goal s s'.
Proof.
  intros I HB Wp. pose proof (a_deq s (proj1 I)) as Hd. pose proof (a_notified s (proj1 I)) as Hn.
  destruct (top_pass s d Wp Hd HB) as (s' & R & W & D & N).
  destruct (reach_frame_inv _ _ _ I R) as (I' & E & Pn & _ & _).
  exists s'. split; [exact R|]. unfold flush_goal. repeat split; auto; try lia.
  eapply after_notify_inflight; eauto.
Qed.

Lemma idle_goal s : Inv s -> 0 < Bsz s -> is_shut s = false -> wp s = WIdle ->
  exists s', reach (8 + 3 * (length (enq s) - deq s)) s s' /\ flush_goal s s'.
Proof.
  intros I HB Sh Wp. destruct (step_idle s Wp) as (s1 & S1 & W1 & D1 & N1). rewrite Sh in W1.
  pose proof (wstep_inv _ _ I S1) as I1. destruct (wstep_frame _ _ S1) as (E1 & P1 & _ & B1).
  destruct (top_goal s1 false I1 ltac:(lia) W1) as (s' & R & G).
  exists s'. split; [eapply reach_le; [|eapply reach_step; [exact S1 | exact R]]; rewrite E1, D1; lia|].
  unfold flush_goal in *. rewrite E1, P1 in G. exact G.
Qed.

Theorem worker_solo_flush_progress_bound : forall s, Inv s -> 0 < Bsz s -> is_shut s = false ->
  exists n s', n <= 15 + 3 * (length (enq s) - deq s) /\ witer n s = Some s' /\
               notified s' = pending s /\ pending s' = pending s /\
               enq s' = enq s /\ deq s' = length (enq s) /\ inflight s' = None.
Proof.
  intros s I HB Sh.
  assert (G : exists s', reach (15 + 3 * (length (enq s) - deq s)) s s' /\ flush_goal s s').
  { pose proof (a_wp s (proj1 I)) as W. pose proof (a_drain s (proj1 I)) as Dr. unfold wp_inv in W.
    destruct (in_pass (wp s)) eqn:P.
    - destruct (mid_pass s I HB P) as (s1 & more & R1 & W1 & D1).
      destruct (reach_frame_inv _ _ _ I R1) as (I1 & E1 & P1 & Sh1 & B1).
      destruct (wp_d (wp s)) eqn:Dd; [rewrite (Dr eq_refl) in Sh; discriminate|].
      assert (G1 : exists s', reach (8 + 3 * (length (enq s1) - deq s1)) s1 s' /\ flush_goal s1 s').
      { destruct more; cbn [after_notify] in W1.
        - destruct (top_goal s1 false I1 ltac:(lia) W1) as (s' & R & G). exists s'. split; [eapply reach_le; [|exact R]; lia | exact G].
        - apply idle_goal; auto; try lia. congruence. }
      destruct G1 as (s' & R & G). exists s'.
      split; [eapply reach_le; [|eapply reach_trans; [exact R1 | exact R]]; rewrite E1; lia|].
      unfold flush_goal in *. rewrite E1, P1 in G. exact G.
    - destruct (wp s) eqn:Wp; try discriminate P.
      + destruct (idle_goal s I HB Sh Wp) as (s' & R & G). exists s'. split; [eapply reach_le; [|exact R]; lia | exact G].
      + destruct (top_goal s d I HB Wp) as (s' & R & G). exists s'. split; [eapply reach_le; [|exact R]; lia | exact G].
      + congruence.
      + destruct W as [W _]. congruence.
      + destruct W as [W _]. congruence. }
  destruct G as (s' & (n & L & Wn) & G). exists n, s'. split; [exact L|]. split; [exact Wn | exact G].
Qed.

Theorem worker_solo_flush_progress : forall s, Inv s -> 0 < Bsz s -> is_shut s = false ->
  exists n s', witer n s = Some s' /\ notified s' = pending s /\ pending s' = pending s /\
               enq s' = enq s /\ deq s' = length (enq s) /\ inflight s' = None.
Proof.
  intros s I HB Sh. destruct (worker_solo_flush_progress_bound s I HB Sh) as (n & s' & _ & H). exists n, s'. exact H.
Qed.

(* ---- (b) shut down: the worker drains and exits *)
Lemma drain_quiet s : wp s = WDrain0 -> deq s = length (enq s) -> pending s <= notified s ->
  exists s', reach 3 s s' /\ wp s' = WDone /\ deq s' = deq s.
Proof.
  intros Wp Hd Hp. destruct (step_drain0 s Wp) as (s1 & S1 & W1 & D1 & N1).
  rewrite (queue_len s) in W1 by lia. replace (length (enq s) - deq s) with 0 in W1 by lia. cbn [Nat.eqb] in W1.
  destruct (wstep_frame _ _ S1) as (E1 & P1 & _ & _).
  destruct (step_drainld s1 None None W1 (or_introl eq_refl)) as (s2 & S2 & D2 & N2 & W2).
  destruct (wstep_frame _ _ S2) as (E2 & P2 & _ & _).
  destruct (step_drainld s2 _ None W2 (or_intror eq_refl)) as (s3 & S3 & D3 & N3 & W3).
  assert (L : Nat.leb (pending s1) (notified s2) = true) by (apply Nat.leb_le; lia).
  rewrite L in W3. exists s3.
  split; [eapply reach_step; [exact S1|]; eapply reach_step; [exact S2|]; eapply reach_step; [exact S3|]; apply reach_refl|].
  split; [exact W3 | lia].
Qed.

Lemma quiet_done s : 0 < Bsz s -> is_shut s = true -> deq s = length (enq s) -> pending s <= notified s ->
  (wp s = WIdle \/ wp s = WDrain0 \/ exists d, wp s = WTop d) ->
  exists s', reach 11 s s' /\ wp s' = WDone /\ deq s' = deq s.
Proof.
  intros HB Sh Hd Hp Hw.
  assert (Idle : forall s, is_shut s = true -> deq s = length (enq s) -> pending s <= notified s -> wp s = WIdle ->
                 exists s', reach 4 s s' /\ wp s' = WDone /\ deq s' = deq s).
  { clear. intros s Sh Hd Hp Wp. destruct (step_idle s Wp) as (s1 & S1 & W1 & D1 & N1). rewrite Sh in W1.
    destruct (wstep_frame _ _ S1) as (E1 & P1 & _ & _).
    destruct (drain_quiet s1 W1) as (s' & R & W & D); try lia. { rewrite E1; lia. }
    exists s'. split; [eapply reach_step; [exact S1 | exact R]|]. split; [exact W | lia]. }
  destruct Hw as [Wp|[Wp|[d Wp]]].
  - destruct (Idle s Sh Hd Hp Wp) as (s' & R & W & D). exists s'. split; [eapply reach_le; [|exact R]; lia|]. auto.
  - destruct (drain_quiet s Wp Hd Hp) as (s' & R & W & D). exists s'. split; [eapply reach_le; [|exact R]; lia|]. auto.
  - destruct (top_pass s d Wp ltac:(lia) HB) as (s1 & R1 & W1 & D1 & N1).
    replace (length (enq s) - deq s) with 0 in * by lia. cbn [Nat.eqb negb after_notify] in W1.
    pose proof (reach_frame _ _ _ R1) as F1.
    destruct F1 as (E1 & P1 & Sh1 & B1).
    destruct d.
    + destruct (drain_quiet s1 W1) as (s' & R & W & D); try lia. { rewrite E1; lia. }
      exists s'. split; [eapply reach_le; [|eapply reach_trans; [exact R1 | exact R]]; lia|]. split; [exact W | lia].
    + destruct (Idle s1) as (s' & R & W & D); try lia; try congruence.
      exists s'. split; [eapply reach_le; [|eapply reach_trans; [exact R1 | exact R]]; lia|]. split; [exact W | lia].
Qed.

Lemma top_done s d : Inv s -> 0 < Bsz s -> is_shut s = true -> wp s = WTop d ->
  exists s', reach (18 + 3 * (length (enq s) - deq s)) s s' /\ wp s' = WDone /\ deq s' = length (enq s).
Proof.
  intros I HB Sh Wp. pose proof (a_deq s (proj1 I)) as Hd. pose proof (a_notified s (proj1 I)) as Hn.
  destruct (top_pass s d Wp Hd HB) as (s1 & R1 & W1 & D1 & N1).
  destruct (reach_frame_inv _ _ _ I R1) as (I1 & E1 & P1 & Sh1 & B1).
  destruct (quiet_done s1) as (s' & R & W & D); try lia; try congruence.
  { unfold after_notify in W1. destruct (negb _); [right; right; eauto|]. destruct d; auto. }
  exists s'. split; [eapply reach_le; [|eapply reach_trans; [exact R1 | exact R]]; lia|]. split; [exact W | lia].
Qed.

Definition done_goal (s s' : st) : Prop := wp s' = WDone /\ deq s' = length (enq s).

Lemma drain0_done s : Inv s -> 0 < Bsz s -> is_shut s = true -> wp s = WDrain0 ->
  exists s', reach (21 + 3 * (length (enq s) - deq s)) s s' /\ done_goal s s'.
Proof.
  intros I HB Sh Wp. pose proof (a_deq s (proj1 I)) as Hd.
  destruct (step_drain0 s Wp) as (s1 & S1 & W1 & D1 & N1). rewrite (queue_len s Hd) in W1.
  pose proof (wstep_inv _ _ I S1) as I1. destruct (wstep_frame _ _ S1) as (E1 & P1 & Sh1 & B1).
  destruct (Nat.eqb (length (enq s) - deq s) 0) eqn:Z.
  - apply Nat.eqb_eq in Z.
    destruct (step_drainld s1 None None W1 (or_introl eq_refl)) as (s2 & S2 & D2 & N2 & W2).
    pose proof (wstep_inv _ _ I1 S2) as I2. destruct (wstep_frame _ _ S2) as (E2 & P2 & Sh2 & B2).
    destruct (step_drainld s2 _ None W2 (or_intror eq_refl)) as (s3 & S3 & D3 & N3 & W3).
    pose proof (wstep_inv _ _ I2 S3) as I3. destruct (wstep_frame _ _ S3) as (E3 & P3 & Sh3 & B3).
    assert (R3 : reach 3 s s3).
    { eapply reach_step; [exact S1|]. eapply reach_step; [exact S2|]. eapply reach_step; [exact S3|]. apply reach_refl. }
    destruct (Nat.leb (pending s1) (notified s2)).
    + exists s3. split; [eapply reach_le; [|exact R3]; lia|]. split; [exact W3 | lia].
    + destruct (top_done s3 true I3) as (s' & R & W & D); try lia; try congruence.
      exists s'. split; [eapply reach_le; [|eapply reach_trans; [exact R3 | exact R]]; rewrite E3, E2, E1; lia|].
      split; [exact W | congruence].
  - destruct (top_done s1 true I1) as (s' & R & W & D); try lia; try congruence.
    exists s'. split; [eapply reach_le; [|eapply reach_step; [exact S1 | exact R]]; rewrite E1, D1; lia|].
    split; [exact W | congruence].
Qed.

Lemma idle_done s : Inv s -> 0 < Bsz s -> is_shut s = true -> wp s = WIdle ->
  exists s', reach (22 + 3 * (length (enq s) - deq s)) s s' /\ done_goal s s'.
Proof.
  intros I HB Sh Wp. destruct (step_idle s Wp) as (s1 & S1 & W1 & D1 & N1). rewrite Sh in W1.
  pose proof (wstep_inv _ _ I S1) as I1. destruct (wstep_frame _ _ S1) as (E1 & P1 & Sh1 & B1).
  destruct (drain0_done s1 I1) as (s' & R & W & D); try lia; try congruence.
  exists s'. split; [eapply reach_le; [|eapply reach_step; [exact S1 | exact R]]; rewrite E1, D1; lia|].
  split; [exact W | congruence].
Qed.

(* The worker exits.  It has drained everything the queue ever accepted - unless it was already past DrainQueue's
   empty test (WDrainLd) with a record added behind its back (a producer that had passed the is_shutdown test before
   Shutdown set it): then it may exit without touching the queue again (late_record_left_behind below). *)
Theorem worker_solo_shutdown_exit : forall s, Inv s -> 0 < Bsz s -> is_shut s = true -> wp s <> WDone ->
  exists n s', n <= 29 + 3 * (length (enq s) - deq s) /\ witer n s = Some s' /\
               wp s' = WDone /\ enq s' = enq s /\ pending s' = pending s /\
               (deq s' = length (enq s) \/ (deq s' = deq s /\ exists p n, wp s = WDrainLd p n)).
Proof.
  intros s I HB Sh ND.
  assert (G : exists s', reach (29 + 3 * (length (enq s) - deq s)) s s' /\ wp s' = WDone /\
                         (deq s' = length (enq s) \/ (deq s' = deq s /\ exists p n, wp s = WDrainLd p n))).
  { pose proof (a_wp s (proj1 I)) as W. unfold wp_inv in W.
    destruct (in_pass (wp s)) eqn:P.
    - destruct (mid_pass s I HB P) as (s1 & more & R1 & W1 & D1).
      destruct (reach_frame_inv _ _ _ I R1) as (I1 & E1 & P1 & Sh1 & B1).
      assert (G1 : exists s', reach (22 + 3 * (length (enq s1) - deq s1)) s1 s' /\ done_goal s1 s').
      { unfold after_notify in W1. destruct more; [|destruct (wp_d (wp s))].
        - destruct (top_done s1 _ I1 ltac:(lia) ltac:(congruence) W1) as (s' & R & G).
          exists s'. split; [eapply reach_le; [|exact R]; lia | exact G].
        - destruct (drain0_done s1 I1 ltac:(lia) ltac:(congruence) W1) as (s' & R & G).
          exists s'. split; [eapply reach_le; [|exact R]; lia | exact G].
        - apply idle_done; auto; try lia; congruence. }
      destruct G1 as (s' & R & W' & D'). exists s'.
      split; [eapply reach_le; [|eapply reach_trans; [exact R1 | exact R]]; rewrite E1; lia|].
      split; [exact W'|]. left. congruence.
    - destruct (wp s) eqn:Wp; try discriminate P.
      + destruct (idle_done s I HB Sh Wp) as (s' & R & W' & D').
        exists s'. split; [eapply reach_le; [|exact R]; lia|]. split; auto.
      + destruct (top_done s d I HB Sh Wp) as (s' & R & W' & D').
        exists s'. split; [eapply reach_le; [|exact R]; lia|]. split; auto.
      + destruct (drain0_done s I HB Sh Wp) as (s' & R & W' & D').
        exists s'. split; [eapply reach_le; [|exact R]; lia|]. split; auto.
      + (* WDrainLd: the loads that decide between leaving and another pass *)
        destruct W as (_ & _ & PN).
        assert (Fin : forall s1 pv nv, Inv s1 -> 0 < Bsz s1 -> is_shut s1 = true -> wp s1 = WDrainLd pv nv ->
                      pv = None \/ nv = None -> pv <> None \/ nv <> None ->
                      exists s', reach (19 + 3 * (length (enq s1) - deq s1)) s1 s' /\ wp s' = WDone /\
                                 (deq s' = length (enq s1) \/ deq s' = deq s1)).
        { clear. intros s1 pv nv I1 HB1 Sh1 W1 PN NN.
          destruct (step_drainld s1 pv nv W1 PN) as (s2 & S2 & D2 & N2 & W2).
          pose proof (wstep_inv _ _ I1 S2) as I2. destruct (wstep_frame _ _ S2) as (E2 & P2 & Sh2 & B2).
          assert (R2 : reach 1 s1 s2) by (eapply reach_step; [exact S2 | apply reach_refl]).
          assert (C : wp s2 = WDone \/ wp s2 = WTop true).
          { destruct pv as [p|]; destruct nv as [n|].
            - destruct (Nat.leb p (notified s1)); auto.
            - destruct (Nat.leb p (notified s1)); auto.
            - destruct (Nat.leb (pending s1) n); auto.
            - exfalso. destruct NN as [X|X]; apply X; reflexivity. }
          destruct C as [C|C].
          - exists s2. split; [eapply reach_le; [|exact R2]; lia|]. split; [exact C | right; lia].
          - destruct (top_done s2 true I2) as (s' & R & W' & D'); try lia; try congruence.
            exists s'. split; [eapply reach_le; [|eapply reach_trans; [exact R2 | exact R]]; rewrite E2; lia|].
            split; [exact W' | left; congruence]. }
        destruct p as [pv|]; [|destruct n as [nv|]].
        * destruct (Fin s (Some pv) n I HB Sh Wp PN) as (s' & R & W' & D'); [left; discriminate|].
          exists s'. split; [eapply reach_le; [|exact R]; lia|]. split; [exact W'|]. destruct D'; [left|right]; eauto.
        * destruct (Fin s None (Some nv) I HB Sh Wp PN) as (s' & R & W' & D'); [right; discriminate|].
          exists s'. split; [eapply reach_le; [|exact R]; lia|]. split; [exact W'|]. destruct D'; [left|right]; eauto.
        * destruct (step_drainld s None None Wp PN) as (s1 & S1 & D1 & N1 & W1).
          pose proof (wstep_inv _ _ I S1) as I1. destruct (wstep_frame _ _ S1) as (E1 & P1 & Sh1 & B1).
          destruct (Fin s1 (Some (pending s)) None I1 ltac:(lia) ltac:(congruence) W1) as (s' & R & W' & D');
            [right; reflexivity | left; discriminate |].
          exists s'. split; [eapply reach_le; [|eapply reach_step; [exact S1 | exact R]]; rewrite E1; lia|].
          split; [exact W'|]. destruct D'; [left|right]; [congruence|]. split; [lia | eauto].
      + congruence. }
  destruct G as (s' & R & W' & D'). destruct (reach_frame_inv _ _ _ I R) as (_ & E & Pn & _ & _).
  destruct R as (n & L & Wn). exists n, s'. repeat split; auto.
Qed.

(* the statement asked for, with the one hypothesis it needs: a worker already past DrainQueue's empty test has
   nothing behind it *)
Theorem worker_solo_shutdown_progress : forall s, Inv s -> 0 < Bsz s -> is_shut s = true -> wp s <> WDone ->
  (forall p n, wp s = WDrainLd p n -> deq s = length (enq s)) ->
  exists n s', witer n s = Some s' /\ wp s' = WDone /\ enq s' = enq s /\ deq s' = length (enq s) /\ pending s' = pending s.
Proof.
  intros s I HB Sh ND H. destruct (worker_solo_shutdown_exit s I HB Sh ND) as (n & s' & _ & Wn & W & E & P & D).
  exists n, s'. repeat split; auto. destruct D as [D|(D & p & m & Wp)]; [exact D|]. rewrite D. eapply H; eauto.
Qed.

(* ------------------------------------------------------------------ non-vacuity *)
(* demo_trace up to the point where thread 2 has taken flush ticket 1 (one record queued, the worker idle): eleven
   solo steps of the worker export the record and publish the ticket *)
Example solo_flush_demo :
  exists s s', run (init 1 1) (firstn 12 demo_trace) = Some s /\ is_shut s = false /\ pending s = 1 /\ notified s = 0 /\
               queue s = [11] /\ witer 11 s = Some s' /\
               notified s' = 1 /\ deq s' = 1 /\ exported s' = [[11]] /\ inflight s' = None /\ wp s' = WTop false.
Proof. eexists; eexists. split; [vm_compute; reflexivity|]. vm_compute. repeat split; reflexivity. Qed.

(* demo_trace up to the point where thread 3's Shutdown has set is_shutdown: four solo steps and the worker has exited *)
Example solo_shutdown_demo :
  exists s s', run (init 1 1) (firstn 31 demo_trace) = Some s /\ is_shut s = true /\ wp s = WIdle /\
               witer 4 s = Some s' /\ wp s' = WDone /\ deq s' = length (enq s).
Proof. eexists; eexists. split; [vm_compute; reflexivity|]. vm_compute. repeat split; reflexivity. Qed.

(* why worker_solo_shutdown_progress needs its extra hypothesis: thread 1 passes OnEnd's is_shutdown test, thread 3
   shuts the processor down, the worker finds the queue empty, THEN thread 1's record is accepted by the queue.
   The worker (already past the empty test) loads pending and notified and exits; the record is never exported. *)
Definition late_record_trace : list (nat * ev) :=
  [(1, ECallOnEnd 11); (1, ELdShut false);
   (3, ECallShutdown); (3, ELockShut); (3, EXchgShut false);
   (0, ELdShut true); (0, EBufEmpty true);
   (1, EBufAdd 11 true)].

Example late_record_left_behind :
  exists s, reachable 1 1 s /\ is_shut s = true /\ wp s = WDrainLd None None /\ queue s = [11] /\
            (exists s', witer 2 s = Some s' /\ wp s' = WDone /\ queue s' = [11] /\ exported s' = []) /\
            (forall n s', witer n s = Some s' -> wp s' = WDone -> deq s' = 0 /\ length (enq s) = 1).
Proof.
  eexists. split; [exists late_record_trace; vm_compute; reflexivity|].
  split; [reflexivity|]. split; [reflexivity|]. split; [reflexivity|].
  split; [eexists; split; [vm_compute; reflexivity|]; repeat split; reflexivity|].
  intros n s' H W. destruct n as [|[|[|n]]].
  - vm_compute in H. inversion H; subst. discriminate W.
  - vm_compute in H. inversion H; subst. discriminate W.
  - vm_compute in H. inversion H; subst. split; reflexivity.
  - cbn in H. discriminate H.
Qed.
