(* MODEL (acceptor LTS) of sdk::trace::SimpleSpanProcessor (simple_processor.h) and
   sdk::logs::SimpleLogRecordProcessor (simple_log_record_processor.cc) called from any number of threads:
   OnEnd/OnEmit = lock the SpinLockMutex (exchange(true) until it returns false, with relaxed loads, yields and
   sleeps in between), exporter->Export on a batch of one, unlock (store false); ForceFlush = exporter->ForceFlush;
   Shutdown = test-and-set of the latch, exporter->Shutdown only for the caller that set it.
   Events carry thread ids shifted by one: thread 0 is the controller that destroys the processor at the end.
   Definitions only; proofs in Batch/SimpleProofs.v. *)
From V Require Export Base.Tok.
From Coq Require Export Arith.

Inductive sev :=
| SCallOnEnd (id : nat) | SRetOnEnd (id : nat)
| SXchgFlag (old : bool) | SLdFlag (v : bool) | SStFlag0 | SSpin
| SExpBegin (ids : list nat) | SExpEnd (r : bool)
| SCallFlush | SExpFlush (r : bool) | SRetFlush (r : bool)
| SCallShut | SLatch (old : bool) | SExpShut (r : bool) | SRetShut (r : bool)
| SCallDestroy | SRetDestroy.

Inductive spc :=
| PIdle
| PWant (id : nat) | PHold (id : nat) | PExp (id : nat) | PDone (id : nat) | POut (id : nat)
| PFlush0 | PFlush1 (r : bool)
| PShut0 | PShut1 | PShut2 (r : bool)
| PDestroy0 | PDestroyExp | PDestroy1.

Record sst := mk_sst {
  flag : bool;                 (* SpinLockMutex::flag_ *)
  owner : option nat;          (* ghost: the thread whose exchange found the flag clear *)
  latch : bool;                (* shutdown_latch_ / is_shutdown_ *)
  nshut : nat;                 (* exporter->Shutdown calls *)
  sfly : option nat;           (* thread inside exporter->Export *)
  sexported : list nat;
  spc_of : nat -> spc
}.

Definition sinit : sst := mk_sst false None false 0 None [] (fun _ => PIdle).
Definition supd (f : nat -> spc) (k : nat) (v : spc) : nat -> spc := fun j => if Nat.eqb j k then v else f j.
Definition set_pc (s : sst) (t : nat) (p : spc) : sst :=
  mk_sst (flag s) (owner s) (latch s) (nshut s) (sfly s) (sexported s) (supd (spc_of s) t p).

Definition saccept (s : sst) (te : nat * sev) : option sst :=
  let t := fst te in
  match spc_of s t, snd te with
  | PIdle, SCallOnEnd id => Some (set_pc s t (PWant id))
  (* SpinLockMutex::lock / try_lock *)
  | PWant id, SXchgFlag old =>
      if Bool.eqb old (flag s)
      then if old then Some s
           else Some (mk_sst true (Some t) (latch s) (nshut s) (sfly s) (sexported s) (supd (spc_of s) t (PHold id)))
      else None
  | PWant id, SLdFlag v => if Bool.eqb v (flag s) then Some s else None
  | PWant id, SSpin => Some s
  (* Export of a batch of one; the acceptor does NOT test that no other Export is in flight: that is the theorem *)
  | PHold id, SExpBegin ids =>
      match ids with
      | [i] => if Nat.eqb i id
               then Some (mk_sst (flag s) (owner s) (latch s) (nshut s) (Some t) (sexported s ++ [id]) (supd (spc_of s) t (PExp id)))
               else None
      | _ => None
      end
  | PExp id, SSpin => Some s                       (* the harness exporter's latency *)
  | PExp id, SExpEnd _ =>
      Some (mk_sst (flag s) (owner s) (latch s) (nshut s) None (sexported s) (supd (spc_of s) t (PDone id)))
  | PDone id, SStFlag0 =>
      Some (mk_sst false None (latch s) (nshut s) (sfly s) (sexported s) (supd (spc_of s) t (POut id)))
  | POut id, SRetOnEnd id' => if Nat.eqb id' id then Some (set_pc s t PIdle) else None
  (* ForceFlush *)
  | PIdle, SCallFlush => Some (set_pc s t PFlush0)
  | PFlush0, SExpFlush r => Some (set_pc s t (PFlush1 r))
  | PFlush1 r, SRetFlush r' => if Bool.eqb r r' then Some (set_pc s t PIdle) else None
  (* Shutdown *)
  | PIdle, SCallShut => Some (set_pc s t PShut0)
  | PShut0, SLatch old =>
      if Bool.eqb old (latch s)
      then Some (mk_sst (flag s) (owner s) true (nshut s) (sfly s) (sexported s) (supd (spc_of s) t (if old then PShut2 true else PShut1)))
      else None
  | PShut1, SExpShut r =>
      Some (mk_sst (flag s) (owner s) (latch s) (S (nshut s)) (sfly s) (sexported s) (supd (spc_of s) t (PShut2 r)))
  | PShut2 r, SRetShut r' => if Bool.eqb r r' then Some (set_pc s t PIdle) else None
  (* destruction: ~SimpleSpanProcessor calls Shutdown, ~SimpleLogRecordProcessor does nothing *)
  | PIdle, SCallDestroy => Some (set_pc s t PDestroy0)
  | PDestroy0, SLatch old =>
      if Bool.eqb old (latch s)
      then Some (mk_sst (flag s) (owner s) true (nshut s) (sfly s) (sexported s) (supd (spc_of s) t (if old then PDestroy1 else PDestroyExp)))
      else None
  | PDestroyExp, SExpShut r =>
      Some (mk_sst (flag s) (owner s) (latch s) (S (nshut s)) (sfly s) (sexported s) (supd (spc_of s) t PDestroy1))
  | PDestroy0, SRetDestroy => Some (set_pc s t PIdle)
  | PDestroy1, SRetDestroy => Some (set_pc s t PIdle)
  | _, _ => None
  end.

Fixpoint srun (s : sst) (tr : list (nat * sev)) : option sst :=
  match tr with
  | [] => Some s
  | te :: tr' => match saccept s te with Some s' => srun s' tr' | None => None end
  end.

(* ------------------------------------------------------------------ wire format *)
Local Open Scope Z_scope.
Definition szn (z : Z) : nat := Z.to_nat z.
Definition szb (z : Z) : bool := negb (Z.eqb z 0).

Inductive spev := SPEv (t : nat) (e : sev) | SPBad.

Definition sparse_event (l : list tok) : spev :=
  match l with
  | TZ z :: body =>
      let t := szn (z + 1) in
      match body with
      | [op] => if is_tag "yield" op || is_tag "sleep" op then SPEv t SSpin else SPBad
      | [op; what] =>
          if is_tag "call" op && is_tag "flush" what then SPEv t SCallFlush
          else if is_tag "call" op && is_tag "shutdown" what then SPEv t SCallShut
          else if is_tag "call" op && is_tag "destroy" what then SPEv t SCallDestroy
          else if is_tag "ret" op && is_tag "destroy" what then SPEv t SRetDestroy
          else match what with
               | TZ a =>
                   if is_tag "expbegin" op then SPEv t (SExpBegin [szn a])
                   else if is_tag "expend" op then SPEv t (SExpEnd (szb a))
                   else if is_tag "expflush" op then SPEv t (SExpFlush (szb a))
                   else if is_tag "expshutdown" op then SPEv t (SExpShut (szb a))
                   else SPBad
               | _ => SPBad
               end
      | [op; what; TZ a] =>
          if is_tag "call" op && is_tag "onend" what then SPEv t (SCallOnEnd (szn a))
          else if is_tag "ret" op && is_tag "onend" what then SPEv t (SRetOnEnd (szn a))
          else if is_tag "ret" op && is_tag "flush" what then SPEv t (SRetFlush (szb a))
          else if is_tag "ret" op && is_tag "shutdown" what then SPEv t (SRetShut (szb a))
          else if is_tag "ld" op && is_tag "flag" what then SPEv t (SLdFlag (szb a))
          else if is_tag "st" op && is_tag "flag" what && Z.eqb a 0 then SPEv t SStFlag0
          else if is_tag "tas" op && is_tag "latch" what then SPEv t (SLatch (szb a))
          else SPBad
      | [op; what; TZ a; TZ b] =>
          if is_tag "xchg" op && is_tag "flag" what && Z.eqb a 1 then SPEv t (SXchgFlag (szb b))
          else if is_tag "xchg" op && is_tag "is_shutdown" what && Z.eqb a 1 then SPEv t (SLatch (szb b))
          else SPBad
      | _ => SPBad
      end
  | _ => SPBad
  end.

Definition sparse_trace (l : list tok) : list spev :=
  match l with [] => [] | _ => map sparse_event (split_toks ";" l) end.

Inductive sverdict := SVOk (s : sst) | SVRej (i : nat).
Fixpoint sreplay (s : sst) (tr : list spev) (i : nat) : sverdict :=
  match tr with
  | [] => SVOk s
  | SPBad :: _ => SVRej i
  | SPEv t e :: tr' => match saccept s (t, e) with Some s' => sreplay s' tr' (S i) | None => SVRej i end
  end.

Definition simple_model (tr : list tok) : list tok :=
  match sreplay sinit (sparse_trace tr) 0 with
  | SVOk s => [tag "X"] ++ map tnat (sexported s) ++ [tag "S"; tnat (nshut s)]
  | SVRej i => [tag "REJECT"; tnat i]
  end.

(* SPEC on the history: Export is never invoked while a previous Export is still running; exporter shut down at most once;
   the batch a thread hands to the exporter is exactly the one record that thread is ending (cur: thread -> id of its OnEnd) *)
Fixpoint cur_get (t : nat) (l : list (nat * nat)) : option nat :=
  match l with [] => None | (t', v) :: l' => if Nat.eqb t t' then Some v else cur_get t l' end.
Definition cur_set (t v : nat) (l : list (nat * nat)) : list (nat * nat) :=
  (t, v) :: filter (fun x => negb (Nat.eqb (fst x) t)) l.
Definition ids_are (ids : list nat) (o : option nat) : bool :=
  match ids, o with [i], Some v => Nat.eqb i v | _, _ => false end.
Fixpoint simple_walk_cur (cur : list (nat * nat)) (fly : bool) (nsh : nat) (h : list spev) : list tok :=
  match h with
  | [] => []
  | SPEv t (SCallOnEnd id) :: h' => simple_walk_cur (cur_set t id cur) fly nsh h'
  | SPEv t (SExpBegin ids) :: h' =>
      check (negb fly) "export:overlap" ++ check (Nat.eqb (length ids) 1) "batch:not_single" ++
      check (ids_are ids (cur_get t cur)) "export:not_the_callers_record" ++ simple_walk_cur cur true nsh h'
  | SPEv _ (SExpEnd _) :: h' => check fly "export:end_without_begin" ++ simple_walk_cur cur false nsh h'
  | SPEv _ (SExpShut _) :: h' => check (Nat.eqb nsh 0) "exporter_shutdown:twice" ++ simple_walk_cur cur fly (S nsh) h'
  | SPBad :: h' => fail "obs:unknown_event" ++ simple_walk_cur cur fly nsh h'
  | _ :: h' => simple_walk_cur cur fly nsh h'
  end.
Definition simple_walk (fly : bool) (nsh : nat) (h : list spev) : list tok := simple_walk_cur [] fly nsh h.
Definition simple_spec (tr : list tok) : list tok := simple_walk false 0 (sparse_trace tr).
