(* PROGRESS OF Shutdown UNDER EVERY INTERLEAVING for the periodic exporting metric reader (C02 "Shutdown ... always return").

   MetricReader::Shutdown stores the latch (RStShut) and OnShutDown then joins the worker thread.  The join returns when the worker has
   left DoBackgroundWork, i.e. when its loop condition `while (IsShutdown() != true)` has read the latch as set while no collect
   thread is outstanding: in the acceptor that is the state [sgoal]: r_wp = RWIdle true /\ r_coll = None.

   periodic_shutdown_fair_progress: once the latch is set, in EVERY accepted continuation tr (recorders, flushers, further Shutdown
   callers keep running) [sgoal] holds at the end provided the worker and its collect thread together made at least
   rankS s <= 23 steps ([sprog tr]: EVERY worker event - polls of shutdown_ included, because with the latch set every poll ends the
   loop - and the collect-thread events Collect / Export begin / Export end / set_value).  A cycle cancelled by the export time-out
   costs nothing extra here: the worker does not start another one.  Potential: the steps left in the current cycle, plus one whole
   cycle when the worker last read the latch as clear (it may begin ONE more cycle: the code reads the latch only between cycles).
   That the worker re-reads the latch after every cycle before the next one begins is part of the acceptor (state RWEnd) and is
   therefore checked against the code on every scheduled run.

   shutdown_caller_steps_enabled: in a state where [sgoal] holds every later step of a Shutdown caller is enabled (join the worker,
   or find it joined; exporter->Shutdown; return), whatever result the exporter reports: nothing else can block the call.
   Exporter calls are assumed to return; `join` and condition-variable semantics are modelled. *)
From V Require Import Batch.Periodic Batch.PeriodicProofs Batch.PeriodicFair.
From Coq Require Import Lia List Arith Bool.
Import ListNotations.

Definition scnt (te : nat * Periodic.rev) : nat :=
  match fst te with
  | 0 => 1
  | _ => if coll_kind (snd te) then 1 else 0
  end.
Fixpoint sprog (tr : list (nat * Periodic.rev)) : nat := match tr with [] => 0 | te :: tr' => scnt te + sprog tr' end.

Definition sgoal (s : rst) : Prop := r_wp s = RWIdle true /\ r_coll s = None.

Definition scastail (s : rst) (k v : nat) : nat :=
  if r_notified s <? k then (if r_notified s =? v then 2 else 3) else 1.

Definition rankS (s : rst) : nat :=
  match r_wp s with
  | RWIdle true => 0
  | RWEnd => 1
  | RWCas k v => 1 + scastail s k v
  | RWNotify _ => 5
  | RWJoined _ => 6
  | RWJoin _ _ => 7
  | RWTimedOut _ _ => 8
  | RWWait _ _ => 9
  | RWTicket _ => 16
  | RWIdle false => 17
  end + cc s.

Lemma rankS_bound s : rankS s <= 23.
Proof.
  unfold rankS, scastail, cc, ccost.
  destruct (r_wp s) as [[|]| | | | | | | |]; destruct (r_coll s) as [[c0 p0]|]; try destruct p0; pdest_cmp; lia.
Qed.

Lemma sgoal_dec s : {sgoal s} + {~ sgoal s}.
Proof.
  unfold sgoal. destruct (r_wp s) as [[|]| | | | | | | |]; try (right; intros [X _]; discriminate).
  destruct (r_coll s); [right; intros [_ X]; discriminate | left; auto].
Qed.

Lemma sgoal_rank0 s : RInv s -> rankS s = 0 -> sgoal s.
Proof.
  intros I R. pose proof (q_wp s I) as Iwp. unfold rwp_inv in Iwp. unfold rankS, scastail in R. unfold sgoal.
  destruct (r_wp s) as [[|]| | | | | | | |]; try (exfalso; pdest_cmp; lia). split; [reflexivity | exact Iwp].
Qed.

Lemma sworker_step s e s' :
  RInv s -> r_shut s = true -> raccept_worker s e = Some s' -> ~ sgoal s -> rankS s' + 1 <= rankS s.
Proof.
  intros I Sh H NG.
  pose proof (q_wp s I) as Iwp. unfold rwp_inv in Iwp.
  unfold raccept_worker in H.
  destruct (r_wp s) eqn:W; destruct e; try discriminate H; rbreak H; inversion H; subst; clear H; rbools; subst.
  all: repeat match goal with H : _ /\ _ |- _ => destruct H | H : exists _, _ |- _ => destruct H end.
  all: try (exfalso; apply NG; unfold sgoal; split; [congruence | assumption]).
  all: try congruence.
  all: unfold rankS, scastail, cc, rset_wp in *; simpl in *; rewrite ?W; simpl.
  all: repeat match goal with H : r_coll _ = _ |- _ => rewrite H in * end; simpl in *.
  all: try (repeat match goal with H : r_shut _ = _ |- _ => rewrite H in * end; simpl; lia).
  all: try (repeat match goal with |- context [r_shut ?x] => destruct (r_shut x) eqn:? end; try congruence; pdest_cmp; simpl; lia).
  all: try (pdest_cmp; simpl; lia).
Qed.

Lemma shut_stable s te s' : raccept s te = Some s' -> r_shut s = true -> r_shut s' = true.
Proof.
  intros H Sh. destruct te as [u e]. unfold raccept in H. destruct u as [|u]; cbn [fst snd] in H.
  - destruct (r_joined s); [discriminate|]. unfold raccept_worker in H.
    destruct (r_wp s) eqn:W; destruct e; try discriminate H; rbreak H; inversion H; subst; clear H; simpl; auto.
  - assert (App : raccept_app s (S u) e = Some s' -> r_shut s' = true).
    { intros A. destruct (papp_frame _ _ _ _ A) as (_ & _ & _ & _ & _ & X). auto. }
    destruct (r_coll s) as [[c p]|] eqn:C; [|auto].
    destruct (Nat.eqb (S u) c) eqn:E; [|auto].
    destruct (pcoll_frame _ _ _ _ _ C H) as (_ & _ & _ & _ & X & _). congruence.
Qed.

Lemma sstep s te s' :
  RInv s -> r_shut s = true -> raccept s te = Some s' -> ~ sgoal s -> rankS s' + scnt te <= rankS s.
Proof.
  intros I Sh H NG. destruct te as [u e]. unfold raccept in H. destruct u as [|u]; cbn [fst snd] in H.
  - destruct (r_joined s); [discriminate|]. unfold scnt; simpl. eapply sworker_step; eauto.
  - assert (App : raccept_app s (S u) e = Some s' -> rankS s' + scnt (S u, e) <= rankS s).
    { intros A. destruct (papp_frame _ _ _ _ A) as (W & C & Ca & N & _).
      assert (K : coll_kind e = false).
      { destruct e; try reflexivity; exfalso; unfold raccept_app in A; rbreak A. }
      unfold scnt; simpl. rewrite K. unfold rankS, scastail, cc. rewrite W, C, N. lia. }
    destruct (r_coll s) as [[c p]|] eqn:C; [|auto].
    destruct (Nat.eqb (S u) c) eqn:E; [|auto].
    destruct (pcoll_frame _ _ _ _ _ C H) as (W & Ca & N & _ & _ & D).
    unfold scnt; simpl. unfold rankS, scastail. rewrite W, N.
    destruct (r_wp s) as [[|]| | | | | | | |]; destruct (coll_kind e); lia.
Qed.

Lemma sgoal_stable s te s' : RInv s -> r_shut s = true -> raccept s te = Some s' -> sgoal s -> sgoal s'.
Proof.
  intros I Sh H [GW GC]. destruct te as [u e]. unfold raccept in H. destruct u as [|u]; cbn [fst snd] in H.
  - destruct (r_joined s); [discriminate|]. unfold raccept_worker in H. rewrite GW in H.
    destruct e; try discriminate H. rbreak H. inversion H; subst; clear H. rbools. unfold sgoal, rset_wp; simpl.
    split; [congruence | exact GC].
  - rewrite GC in H. destruct (papp_frame _ _ _ _ H) as (W & C & _). unfold sgoal. rewrite W, C. auto.
Qed.

Lemma sgoal_run tr : forall s s', RInv s -> r_shut s = true -> rrun s tr = Some s' -> sgoal s -> sgoal s'.
Proof.
  induction tr as [|te tr IH]; intros s s' I Sh H G; simpl in H.
  - inversion H; subst; exact G.
  - destruct (raccept s te) as [s1|] eqn:A; [|discriminate].
    eapply IH; [eapply raccept_preserves; eauto | eapply shut_stable; eauto | exact H | eapply sgoal_stable; eauto].
Qed.

Theorem periodic_shutdown_fair_progress tr : forall s s',
  RInv s -> r_shut s = true -> rrun s tr = Some s' -> rankS s <= sprog tr -> sgoal s'.
Proof.
  induction tr as [|te tr IH]; intros s s' I Sh H R; simpl in H, R.
  - inversion H; subst. apply sgoal_rank0; [exact I | lia].
  - destruct (raccept s te) as [s1|] eqn:A; [|discriminate].
    destruct (sgoal_dec s) as [G|NG].
    + eapply sgoal_run; [eapply raccept_preserves; eauto | eapply shut_stable; eauto | exact H | eapply sgoal_stable; eauto].
    + pose proof (sstep s te s1 I Sh A NG) as D.
      eapply IH; [eapply raccept_preserves; eauto | eapply shut_stable; eauto | exact H | lia].
Qed.

Theorem periodic_shutdown_joinable_under_fair_worker s tr s' :
  rreachable s -> r_shut s = true -> rrun s tr = Some s' -> 23 <= sprog tr -> sgoal s'.
Proof.
  intros R Sh H W. eapply (periodic_shutdown_fair_progress tr s s'); eauto using rreachable_inv.
  pose proof (rankS_bound s). lia.
Qed.

(* a thread inside Shutdown has stored the latch, and the latch is never cleared *)
Theorem shutdown_caller_has_latched s t :
  rreachable s -> r_ap s t = RAShut2 -> r_shut s = true.
Proof.
  intros R A. pose proof (q_thr s (rreachable_inv s R) t) as X. rewrite A in X. exact X.
Qed.

(* once the worker has left its loop, nothing blocks a Shutdown caller: each of its remaining steps is enabled *)
Theorem shutdown_caller_steps_enabled s t :
  rreachable s -> sgoal s -> t <> 0 ->
  (r_ap s t = RAShut2 -> r_joined s = false -> exists s', raccept s (t, RJoin 0) = Some s' /\ r_ap s' t = RAShut3) /\
  (r_ap s t = RAShut2 -> r_joined s = true -> forall r, exists s', raccept s (t, RExpShutdown r) = Some s' /\ r_ap s' t = RAShut4 r) /\
  (r_ap s t = RAShut3 -> forall r, exists s', raccept s (t, RExpShutdown r) = Some s' /\ r_ap s' t = RAShut4 r) /\
  (forall r, r_ap s t = RAShut4 r -> exists s', raccept s (t, RRetShut r) = Some s' /\ r_ap s' t = RAIdle /\ r_sh_done s' = S (r_sh_done s)).
Proof.
  intros R [GW GC] T0. destruct t as [|t]; [congruence|].
  unfold raccept; cbn [fst snd]. rewrite GC. unfold raccept_app.
  repeat split.
  - intros A J. rewrite A, J, GW, GC. eexists; split; [reflexivity|]. simpl. unfold rupd. rewrite Nat.eqb_refl. reflexivity.
  - intros A J r. rewrite A, J. eexists; split; [reflexivity|]. simpl. unfold rupd. rewrite Nat.eqb_refl. reflexivity.
  - intros A r. rewrite A. eexists; split; [reflexivity|]. simpl. unfold rupd. rewrite Nat.eqb_refl. reflexivity.
  - intros r A. rewrite A. rewrite Bool.eqb_reflx. eexists; split; [reflexivity|]. simpl. unfold rupd. rewrite Nat.eqb_refl. auto.
Qed.

(* the hypotheses are satisfiable and the bound is met by a real run: a Shutdown caller latches while a cycle is in its export;
   the cycle finishes, the worker reads the latch and leaves; the caller joins, shuts the exporter down and returns *)
Definition sfair_prefix : list (nat * Periodic.rev) :=
  [(2, RRec 1); (0, RLdPending 0); (0, RSpawn 5); (5, RLdShut false); (5, RCollect 1); (5, RLdCancel false); (5, RExpBegin 1);
   (1, RCallShut); (1, RLdShut false); (1, RStShut)].
Definition sfair_cont : list (nat * Periodic.rev) :=
  [(5, RExpEnd true); (5, RSetValue); (0, RFutReady); (0, RJoin 5); (0, RLdCancel false); (0, RLdNotified 0); (0, RLdShut true);
   (0, RLdShut true); (0, RLdShut true); (0, RLdShut true); (0, RLdShut true)].   (* further polls of the wait predicate *)
Definition sfair_tail : list (nat * Periodic.rev) :=
  [(1, RJoin 0); (1, RExpShutdown true); (1, RRetShut true)].

Example sfair_demo :
  exists s s' s'', rrun rinit sfair_prefix = Some s /\ r_shut s = true /\ r_ap s 1 = RAShut2 /\ ~ sgoal s /\
               rrun s sfair_cont = Some s' /\ rankS s <= sprog sfair_cont /\ sgoal s' /\
               rrun s' sfair_tail = Some s'' /\ r_sh_done s'' = 1.
Proof.
  eexists. eexists. eexists. split; [vm_compute; reflexivity|]. split; [reflexivity|]. split; [reflexivity|].
  split; [intros [X _]; discriminate|].
  split; [vm_compute; reflexivity|]. split; [vm_compute; lia|]. split; [split; reflexivity|].
  split; vm_compute; reflexivity.
Qed.

(* the tightened acceptor rejects a worker that begins another cycle without re-reading the latch *)
Example worker_must_reread_latch :
  rrun rinit [(0, RLdPending 0); (0, RSpawn 5); (5, RLdShut false); (5, RCollect 0); (5, RLdCancel false); (5, RExpBegin 0);
              (5, RExpEnd true); (5, RSetValue); (0, RFutReady); (0, RJoin 5); (0, RLdCancel false); (0, RLdNotified 0);
              (0, RLdPending 0)] = None.
Proof. vm_compute. reflexivity. Qed.
