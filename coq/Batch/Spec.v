(* SPEC for the batch processors (C01, C02, C03): history checkers, written over the raw event history of a
   run (calls/returns of the public interface, queue calls, exporter calls) and independent of the
   acceptor's program counters.  They are run on the IMPLEMENTATION's traces; Batch/Proofs*.v prove that
   every trace the acceptor accepts passes them. *)
From V Require Export Batch.Glue.

Definition hist := list pev.

Fixpoint mem (x : nat) (l : list nat) : bool :=
  match l with [] => false | y :: l' => Nat.eqb x y || mem x l' end.
Definition subset (a b : list nat) : bool := forallb (fun x => mem x b) a.
Fixpoint nodup (l : list nat) : bool :=
  match l with [] => true | x :: l' => negb (mem x l') && nodup l' end.

(* --- projections of a history *)
Fixpoint exported_ids (h : hist) : list nat :=
  match h with
  | PEv _ (EExpBegin ids) :: h' => ids ++ exported_ids h'
  | _ :: h' => exported_ids h'
  | [] => []
  end.
Fixpoint added_ids (h : hist) : list nat :=
  match h with
  | PEv _ (EBufAdd id true) :: h' => id :: added_ids h'
  | _ :: h' => added_ids h'
  | [] => []
  end.
Fixpoint batch_sizes (h : hist) : list nat :=
  match h with
  | PEv _ (EExpBegin ids) :: h' => length ids :: batch_sizes h'
  | _ :: h' => batch_sizes h'
  | [] => []
  end.

Fixpoint is_prefix (a b : list nat) : bool :=
  match a, b with
  | [], _ => true
  | x :: a', y :: b' => Nat.eqb x y && is_prefix a' b'
  | _ :: _, [] => false
  end.

(* ------------------------------------------------------------------ C01 *)
(* nothing delivered twice; only what the queue accepted, in the order it accepted it *)
Definition c01_exactly_once (h : hist) : list tok :=
  check (nodup (exported_ids h)) "exactly_once:duplicate" ++
  check (subset (exported_ids h) (added_ids h)) "exactly_once:phantom" ++
  check (is_prefix (exported_ids h) (added_ids h)) "order:not_fifo".

(* a record is refused only when the queue holds Q records: accepted so far - consumed so far >= Q *)
Fixpoint c01_drop_walk (q adds cons : nat) (h : hist) : bool :=
  match h with
  | [] => true
  | PEv _ (EBufAdd _ true) :: h' => c01_drop_walk q (S adds) cons h'
  | PEv _ (EBufAdd _ false) :: h' => Nat.leb q (adds - cons) && c01_drop_walk q adds cons h'
  | PEv _ (EBufConsume n) :: h' => c01_drop_walk q adds (cons + n) h'
  | _ :: h' => c01_drop_walk q adds cons h'
  end.
Definition c01_drop_only_when_full (q : nat) (h : hist) : list tok :=
  check (c01_drop_walk q 0 0 h) "drop:queue_not_full".

(* records of one producer (id / 1000) reach the exporter in the order it produced them (ids grow per producer) *)
Fixpoint last_of (p : nat) (l : list (nat * nat)) : nat :=
  match l with [] => 0 | (p', v) :: l' => if Nat.eqb p p' then v else last_of p l' end.
Fixpoint c01_order_walk (seen : list (nat * nat)) (x : list nat) : bool :=
  match x with
  | [] => true
  | id :: x' => Nat.ltb (last_of (id / 1000) seen) id && c01_order_walk ((id / 1000, id) :: seen) x'
  end.
Definition c01_per_producer_order (h : hist) : list tok :=
  check (c01_order_walk [] (exported_ids h)) "order:per_producer".

(* every record whose OnEnd returned before the processor was shut down (first exchange of is_shutdown)
   and that the queue accepted has been exported when the history ends with the processor destroyed *)
Fixpoint returned_before_latch (h : hist) (acc : list nat) : list nat :=
  match h with
  | [] => acc
  | PEv _ (EXchgShut false) :: _ => acc
  | PEv _ (ERetOnEnd id) :: h' => returned_before_latch h' (id :: acc)
  | _ :: h' => returned_before_latch h' acc
  end.
Definition history_complete (h : hist) : bool :=
  existsb (fun e => match e with PEv _ ERetDestroy => true | _ => false end) h.
Definition c01_no_loss (h : hist) : list tok :=
  if history_complete h
  then check (forallb (fun id => negb (mem id (added_ids h)) || mem id (exported_ids h)) (returned_before_latch h []))
             "no_loss:lost_before_shutdown"
  else [].

(* producers never wait: no lock / condition-variable / join event of a thread inside OnEnd *)
Fixpoint c01_block_walk (inside : list nat) (h : hist) : bool :=
  match h with
  | [] => true
  | PEv t (ECallOnEnd _) :: h' => c01_block_walk (t :: inside) h'
  | PEv t (ERetOnEnd _) :: h' => c01_block_walk (filter (fun x => negb (Nat.eqb x t)) inside) h'
  | PBlock t :: h' => negb (mem t inside) && c01_block_walk inside h'
  | PEv t (EJoin _) :: h' => negb (mem t inside) && c01_block_walk inside h'
  | PEv t ELockShut :: h' => negb (mem t inside) && c01_block_walk inside h'
  | _ :: h' => c01_block_walk inside h'
  end.
Definition c01_producer_never_blocks (h : hist) : list tok :=
  check (c01_block_walk [] h) "producer:blocks".

(* "... in particular never when at most max_queue_size records are produced between two completed flushes":
   when a record is refused, more than Q records must have been offered to the queue since the ticket of the most recent
   ForceFlush that returned true was taken (walker: attempts so far, per-thread attempts at the ticket, best completed). *)
Fixpoint c01_budget_walk (q att : nat) (tk : list (nat * nat)) (done : option nat) (h : hist) : bool :=
  match h with
  | [] => true
  | PEv _ (EBufAdd _ true) :: h' => c01_budget_walk q (S att) tk done h'
  | PEv _ (EBufAdd _ false) :: h' =>
      match done with
      | Some a => Nat.ltb q (S att - a)
      | None => true
      end && c01_budget_walk q (S att) tk done h'
  | PEv t (EFaddPending _) :: h' => c01_budget_walk q att ((t, att) :: filter (fun x => negb (Nat.eqb (fst x) t)) tk) done h'
  | PEv t (ERetFlush true) :: h' =>
      let a := last_of t tk in
      c01_budget_walk q att tk (Some (match done with Some d => Nat.max d a | None => a end)) h'
  | _ :: h' => c01_budget_walk q att tk done h'
  end.
Definition c01_no_drop_between_flushes (q : nat) (h : hist) : list tok :=
  check (c01_budget_walk q 0 [] None h) "drop:within_flush_budget".

Definition spec_c01 (q : nat) (h : hist) : list tok :=
  c01_exactly_once h ++ c01_drop_only_when_full q h ++ c01_no_drop_between_flushes q h ++ c01_per_producer_order h ++
  c01_no_loss h ++ c01_producer_never_blocks h.

(* ------------------------------------------------------------------ C02 *)
(* walker state: records accepted so far, records whose Export call has returned, the batch in flight,
   per flusher (thread) the records it must see exported and whether an exporter ForceFlush happened
   after they all were; the latch set; exporter shutdown count; threads/ids after a returned Shutdown *)
Record w2 := mk_w2 {
  w_added : list nat; w_done : list nat; w_fly : list nat;
  w_fl : list (nat * (list nat * bool));
  w_latch : option (list nat);
  w_expshut : nat;
  w_shutret : bool;                (* some Shutdown / destructor has returned *)
  w_late : list nat;               (* ids whose OnEnd was called after that *)
  w_lateflush : list nat;          (* threads whose ForceFlush was called after that *)
  w_fail : list tok
}.
Definition w2_fail (w : w2) (f : list tok) : w2 :=
  mk_w2 (w_added w) (w_done w) (w_fly w) (w_fl w) (w_latch w) (w_expshut w) (w_shutret w) (w_late w) (w_lateflush w) (w_fail w ++ f).

Fixpoint fl_get (t : nat) (l : list (nat * (list nat * bool))) : option (list nat * bool) :=
  match l with [] => None | (t', v) :: l' => if Nat.eqb t t' then Some v else fl_get t l' end.
Definition fl_del (t : nat) (l : list (nat * (list nat * bool))) := filter (fun x => negb (Nat.eqb (fst x) t)) l.

Definition shutdown_ok (w : w2) : list tok :=
  check (match w_latch w with Some a => subset a (w_done w) | None => false end) "shutdown_complete:missing" ++
  check (Nat.eqb (w_expshut w) 1) "shutdown_complete:exporter_not_shutdown".

Definition c02_step (w : w2) (e : pev) : w2 :=
  match e with
  | PEv _ (EBufAdd id true) =>
      mk_w2 (w_added w ++ [id]) (w_done w) (w_fly w) (w_fl w) (w_latch w) (w_expshut w) (w_shutret w) (w_late w) (w_lateflush w) (w_fail w)
  | PEv _ (EExpBegin ids) =>
      let w' := mk_w2 (w_added w) (w_done w) ids (w_fl w) (w_latch w) (w_expshut w) (w_shutret w) (w_late w) (w_lateflush w) (w_fail w) in
      w2_fail w' (check (Nat.eqb (w_expshut w) 0) "after_shutdown:exporter_called" ++
                  check (forallb (fun id => negb (mem id (w_late w))) ids) "after_shutdown:onend_exported")
  | PEv _ (EExpEnd _) =>
      mk_w2 (w_added w) (w_done w ++ w_fly w) [] (w_fl w) (w_latch w) (w_expshut w) (w_shutret w) (w_late w) (w_lateflush w) (w_fail w)
  | PEv _ (EExpFlush _) =>
      let fl := map (fun x => let '(t, (a, b)) := x in (t, (a, b || subset a (w_done w)))) (w_fl w) in
      let w' := mk_w2 (w_added w) (w_done w) (w_fly w) fl (w_latch w) (w_expshut w) (w_shutret w) (w_late w) (w_lateflush w) (w_fail w) in
      w2_fail w' (check (Nat.eqb (w_expshut w) 0) "after_shutdown:exporter_called")
  | PEv _ (EExpShutdown _) =>
      let w' := mk_w2 (w_added w) (w_done w) (w_fly w) (w_fl w) (w_latch w) (S (w_expshut w)) (w_shutret w) (w_late w) (w_lateflush w) (w_fail w) in
      w2_fail w' (check (Nat.eqb (w_expshut w) 0) "exporter_shutdown:twice")
  | PEv t ECallFlush =>
      if w_shutret w
      then mk_w2 (w_added w) (w_done w) (w_fly w) (w_fl w) (w_latch w) (w_expshut w) (w_shutret w) (w_late w) (t :: w_lateflush w) (w_fail w)
      else w
  | PEv t (EFaddPending _) =>
      mk_w2 (w_added w) (w_done w) (w_fly w) ((t, (w_added w, false)) :: fl_del t (w_fl w)) (w_latch w) (w_expshut w) (w_shutret w) (w_late w) (w_lateflush w) (w_fail w)
  | PEv t (ERetFlush r) =>
      let w' := mk_w2 (w_added w) (w_done w) (w_fly w) (fl_del t (w_fl w)) (w_latch w) (w_expshut w) (w_shutret w) (w_late w)
                      (filter (fun x => negb (Nat.eqb x t)) (w_lateflush w)) (w_fail w) in
      if r
      then w2_fail w' (check (negb (mem t (w_lateflush w))) "after_shutdown:flush_true" ++
                       match fl_get t (w_fl w) with
                       | Some (a, b) => check (subset a (w_done w)) "flush_true_complete:missing" ++
                                        check b "flush_true_complete:no_exporter_flush"
                       | None => fail "flush_true_complete:no_ticket"
                       end)
      else w'
  | PEv _ (EXchgShut false) =>
      mk_w2 (w_added w) (w_done w) (w_fly w) (w_fl w) (opt_or (w_latch w) (w_added w)) (w_expshut w) (w_shutret w) (w_late w) (w_lateflush w) (w_fail w)
  | PEv _ (ERetShutdown _) =>
      let w' := mk_w2 (w_added w) (w_done w) (w_fly w) (w_fl w) (w_latch w) (w_expshut w) true (w_late w) (w_lateflush w) (w_fail w) in
      w2_fail w' (shutdown_ok w)
  | PEv _ ERetDestroy =>
      let w' := mk_w2 (w_added w) (w_done w) (w_fly w) (w_fl w) (w_latch w) (w_expshut w) true (w_late w) (w_lateflush w) (w_fail w) in
      w2_fail w' (shutdown_ok w)
  | PEv _ (ECallOnEnd id) =>
      if w_shutret w
      then mk_w2 (w_added w) (w_done w) (w_fly w) (w_fl w) (w_latch w) (w_expshut w) (w_shutret w) (id :: w_late w) (w_lateflush w) (w_fail w)
      else w
  | _ => w
  end.

Definition spec_c02 (h : hist) : list tok :=
  w_fail (fold_left c02_step h (mk_w2 [] [] [] [] None 0 false [] [] [])).

(* "after Shutdown returns ... later OnEnd/OnEmit/ForceFlush calls return promptly without effect": a call that BEGAN after a
   Shutdown (or the destructor) returned never touches a mutex or a condition variable of the processor before it returns *)
Fixpoint c02_late_walk (shutret : bool) (late : list nat) (h : hist) : bool :=
  match h with
  | [] => true
  | PEv _ (ERetShutdown _) :: h' => c02_late_walk true late h'
  | PEv _ ERetDestroy :: h' => c02_late_walk true late h'
  | PEv t ECallFlush :: h' => c02_late_walk shutret (if shutret then t :: late else late) h'
  | PEv t (ECallOnEnd _) :: h' => c02_late_walk shutret (if shutret then t :: late else late) h'
  | PEv t (ERetFlush _) :: h' => c02_late_walk shutret (filter (fun x => negb (Nat.eqb x t)) late) h'
  | PEv t (ERetOnEnd _) :: h' => c02_late_walk shutret (filter (fun x => negb (Nat.eqb x t)) late) h'
  | PBlock t :: h' => negb (mem t late) && c02_late_walk shutret late h'
  | _ :: h' => c02_late_walk shutret late h'
  end.
Definition c02_late_calls_prompt (h : hist) : list tok :=
  check (c02_late_walk false [] h) "after_shutdown:call_waits".

(* ------------------------------------------------------------------ independence probe (harness/batch_purity.cc)
   The models describe ONE processor; that distinct processors share no hidden state is an assumption, probed at run time by
   real threads each driving its own processor under ThreadSanitizer.  The only observation the models predict is PURE. *)
Definition is_purity (l : list tok) : bool := match l with t :: _ => is_tag "PURITY" t | [] => false end.
Definition spec_purity_ok (obs : list tok) : list tok :=
  match obs with
  | [t] => if is_tag "PURE" t then [] else fail "obs:unparsable"
  | t :: _ => if is_tag "RACE" t then fail "purity:data_race"
              else if is_tag "DIFFERS" t then fail "purity:result_differs"
              else if is_tag "HARNESSRACE" t then fail "harness:probe_race"
              else if is_tag "HANG" t then fail "purity:hang"
              else if is_tag "CRASH" t then fail "purity:crash"
              else fail "obs:unparsable"
  | [] => fail "obs:unparsable"
  end.

(* ------------------------------------------------------------------ C03 *)
(* exporter calls never overlap; every batch has between 1 and B records *)
Fixpoint c03_walk (b : nat) (fly : bool) (h : hist) : list tok :=
  match h with
  | [] => []
  | PEv _ (EExpBegin ids) :: h' =>
      check (negb fly) "export:overlap" ++ check (Nat.ltb 0 (length ids)) "batch:empty" ++
      check (Nat.leb (length ids) b) "batch:too_large" ++ c03_walk b true h'
  | PEv _ (EExpEnd _) :: h' => check fly "export:end_without_begin" ++ c03_walk b false h'
  | PEv _ (EExpFlush _) :: h' => check (negb fly) "export:overlap_flush" ++ c03_walk b fly h'
  | PEv _ (EExpShutdown _) :: h' => check (negb fly) "export:overlap_shutdown" ++ c03_walk b fly h'
  | _ :: h' => c03_walk b fly h'
  end.
Definition spec_c03 (b : nat) (h : hist) : list tok := c03_walk b false h.

(* ------------------------------------------------------------------ observation = the harness's own summary *)
(* "X ids B sizes F .. H .. S n": the ids and batch sizes the harness exporter counted must be those of the trace *)
Fixpoint take_ints (l : list tok) : list nat * list tok :=
  match l with
  | TZ z :: l' => let (a, r) := take_ints l' in (zn z :: a, r)
  | _ => ([], l)
  end.
Definition obs_consistent (h : hist) (obs : list tok) : list tok :=
  match obs with
  | t :: rest =>
      if is_tag "X" t then
        let (xs, r1) := take_ints rest in
        match r1 with
        | tb :: r2 => let (bsz, _) := take_ints r2 in
                      check (is_tag "B" tb && list_eqb xs (exported_ids h) && list_eqb bsz (batch_sizes h)) "obs:summary_mismatch"
        | [] => fail "obs:unparsable"
        end
      else if is_tag "CRASH" t then fail "terminate:crash_or_deadlock"
      else fail "obs:unparsable"
  | [] => fail "obs:unparsable"
  end.

Definition has_bad (h : hist) : bool := existsb (fun e => match e with PBad => true | _ => false end) h.
