(* MODEL |= SPEC for C01, completed: every trace the batch acceptor accepts passes the whole history checker spec_c01
   (Batch/Spec.v) that ./check runs on the implementation's traces.  TraceSpec.v: c01_drop_only_when_full; TraceSpec2.v:
   c01_exactly_once, c01_no_drop_between_flushes; here the rest and the conjunction:

     accepted_trace_meets_spec_c01_never_blocks        c01_producer_never_blocks (pevs tr) = []            (no hypothesis)
     accepted_trace_meets_spec_c01_per_producer_order  c01_per_producer_order (pevs tr) = []   given c01_order_walk [] (added_ids ..)
     accepted_trace_meets_spec_c01_no_loss             c01_no_loss (pevs tr) = []   given distinct call ids and dtor_exclusive
     accepted_trace_meets_spec_c01                     spec_c01 q (pevs tr) = []    given the three hypotheses

   The hypotheses are conditions on the trace alone and concern the application, which the model does not constrain: the
   ids it passes to OnEnd and how it uses the destructor.  Each one is needed: overlapping_destructor_loses and
   reused_id_loses are accepted traces that fail c01_no_loss without hypothesis (3) resp. (2). *)
From Coq Require Import Lia List Arith Bool.
From V Require Import Batch.Model Batch.Glue Batch.Spec Batch.ProofsA Batch.ProofsB Batch.Theorems Batch.TraceSpec Batch.TraceSpec2.
Import ListNotations.
Local Arguments Nat.div : simpl never.

(* ---------------------------------------------------------------- what one step does to the OnEnd program counters *)
Definition onend_id (a : apc) : option nat :=
  match a with AOnEnd id | AOnEndChecked id | AOnEndAdded id | AOnEndOut id => Some id | _ => None end.
(* the thread may still hand its record to the queue *)
Definition may_add (a : apc) : option nat := match a with AOnEnd id | AOnEndChecked id => Some id | _ => None end.

Definition walker_relevant (e : ev) : bool :=
  match e with ECallOnEnd _ | ERetOnEnd _ | EBufAdd _ _ | EXchgShut _ | EJoin _ | ELockShut | ERetDestroy => true | _ => false end.

Lemma worker_keep s e s' : accept_worker s e = Some s' ->
  ap s' = ap s /\ enq s' = enq s /\ latch s' = latch s /\ walker_relevant e = false.
Proof. intros H. wcases H W e; simpl; auto. Qed.

Lemma onend_step s t e s' : accept_app s t e = Some s' ->
  match e with
  | ECallOnEnd id => ap s t = AIdle /\ ap s' t = AOnEnd id
  | _ => (forall id, onend_id (ap s' t) = Some id -> onend_id (ap s t) = Some id) /\
         (forall id, may_add (ap s' t) = Some id -> may_add (ap s t) = Some id)
  end /\
  match e with
  | EBufAdd id true => may_add (ap s t) = Some id /\ enq s' = enq s ++ [id]
  | _ => enq s' = enq s
  end /\
  match e with
  | EJoin _ | ELockShut => onend_id (ap s t) = None
  | ERetOnEnd id => ap s t = AOnEndOut id /\ ap s' t = AIdle
  | _ => onend_id (ap s t) <> None -> onend_id (ap s' t) <> None
  end /\
  match e with
  | EXchgShut old => latch s' = opt_or (latch s) (length (enq s)) /\ old = is_shut s
  | _ => latch s' = latch s
  end.
Proof.
  intros H. acases H A e; subst; simpl; rewrite ?upd_same, ?A; simpl; repeat split; auto; try discriminate; try congruence.
Qed.

(* ================================================================ (a) producers never wait *)
(* the walker's [inside] list only holds threads that are inside OnEnd; lock / join events are accepted at Shutdown
   program counters only (and pevs tr contains no PBlock: the acceptor never sees cv/mutex events of a producer) *)
Lemma block_walk_accepts : forall tr s s' inside,
  (forall t, In t inside -> onend_id (ap s t) <> None) -> run s tr = Some s' -> c01_block_walk inside (pevs tr) = true.
Proof.
  induction tr as [|[t e] tr IH]; intros s s' inside HI H; simpl in H; [reflexivity|].
  destruct (accept s (t, e)) as [s1|] eqn:A; [|discriminate].
  pose proof (ap_frame _ _ _ _ A) as FR. change (pevs ((t, e) :: tr)) with (PEv t e :: pevs tr).
  destruct t as [|t]; unfold accept in A; simpl in A.
  - destruct (worker_keep _ _ _ A) as (_ & _ & _ & WR).
    assert (HI1 : forall t0, In t0 inside -> onend_id (ap s1 t0) <> None).
    { intros t0 X. rewrite (FR t0 (or_intror eq_refl)). exact (HI t0 X). }
    destruct e; try discriminate WR; simpl; exact (IH s1 s' inside HI1 H).
  - destruct (onend_step _ _ _ _ A) as (C1 & _ & C3 & _).
    assert (Keep : (onend_id (ap s (S t)) <> None -> onend_id (ap s1 (S t)) <> None) ->
                   forall t0, In t0 inside -> onend_id (ap s1 t0) <> None).
    { intros Fw t0 X. destruct (Nat.eq_dec t0 (S t)) as [->|N]; [exact (Fw (HI _ X))|].
      rewrite (FR t0 (or_introl N)). exact (HI t0 X). }
    assert (NotIn : onend_id (ap s (S t)) = None -> negb (mem (S t) inside) = true).
    { intros Z. destruct (mem (S t) inside) eqn:M; [|reflexivity]. apply mem_In in M. exfalso. exact (HI _ M Z). }
    destruct e; simpl; try (apply (IH s1 s'); [exact (Keep C3) | exact H]).
    + (* OnEnd is called *)
      destruct C1 as [_ C1]. apply (IH s1 s'); [|exact H]. intros t0 [<-|X]; [rewrite C1; discriminate|].
      apply Keep; [rewrite C1; discriminate | exact X].
    + (* OnEnd returns *)
      apply (IH s1 s'); [|exact H]. intros t0 X. apply In_filter_neq in X. destruct X as [X N].
      rewrite (FR t0 (or_introl N)). exact (HI t0 X).
    + (* lock shutdown_m *)
      rewrite (NotIn C3). simpl. apply (IH s1 s'); [|exact H]. apply Keep. intros Z; contradiction.
    + (* join *)
      rewrite (NotIn C3). simpl. apply (IH s1 s'); [|exact H]. apply Keep. intros Z; contradiction.
Qed.

Theorem accepted_trace_meets_spec_c01_never_blocks q b tr s :
  run (init q b) tr = Some s -> c01_producer_never_blocks (pevs tr) = [].
Proof.
  intros H. unfold c01_producer_never_blocks. apply check_true.
  apply (block_walk_accepts tr (init q b) s []); [intros t [] | exact H].
Qed.

(* ================================================================ (b) per-producer order *)
Lemma order_walk_prefix a : forall seen b, c01_order_walk seen (a ++ b) = true -> c01_order_walk seen a = true.
Proof.
  induction a as [|x a IH]; intros seen b H; simpl in *; [reflexivity|].
  apply andb_prop in H. destruct H as [H1 H2]. rewrite H1. simpl. exact (IH _ _ H2).
Qed.

Lemma order_walk_bound x : forall seen, c01_order_walk seen x = true -> forall y, In y x -> last_of (y / 1000) seen < y.
Proof.
  induction x as [|id x IH]; intros seen H y Hy; simpl in *; [contradiction|].
  apply andb_prop in H. destruct H as [H1 H2]. apply Nat.ltb_lt in H1.
  destruct Hy as [<-|Hy]; [exact H1|].
  pose proof (IH _ H2 y Hy) as L. simpl in L.
  destruct (Nat.eqb_spec (y / 1000) (id / 1000)) as [E|E]; [rewrite E; lia | exact L].
Qed.

(* ids that grow per producer are distinct *)
Lemma order_walk_nodup x : forall seen, c01_order_walk seen x = true -> NoDup x.
Proof.
  induction x as [|id x IH]; intros seen H; [constructor|]. simpl in H.
  apply andb_prop in H. destruct H as [H1 H2]. constructor; [|exact (IH _ H2)].
  intros Hin. pose proof (order_walk_bound x _ H2 id Hin) as L. simpl in L. rewrite Nat.eqb_refl in L. lia.
Qed.

(* Hypothesis: the ids of each producer (id / 1000) grow in the order the queue accepted them.  The model does not constrain
   ids at all (OnEnd takes any id), so some such hypothesis is needed; for well-formed producers (each thread numbers its
   records increasingly, id / 1000 identifies the thread) it follows from program order: a producer's next OnEnd starts
   after the previous one returned, hence after its record was offered to the queue.  The theorem then says the exporter
   sees them in that order: what is exported is a prefix of what the queue accepted. *)
Theorem accepted_trace_meets_spec_c01_per_producer_order q b tr s :
  run (init q b) tr = Some s -> c01_order_walk [] (added_ids (pevs tr)) = true -> c01_per_producer_order (pevs tr) = [].
Proof.
  intros H O. unfold c01_per_producer_order. apply check_true.
  destruct (accepted_trace_projections q b tr s H) as [E1 E2].
  destruct (begun_prefix s (proj1 (run_preserves tr _ _ (Inv_init q b) H))) as [n Pn].
  rewrite E1, Pn. rewrite E2 in O. rewrite <- (firstn_skipn n (enq s)) in O. exact (order_walk_prefix _ _ _ O).
Qed.

(* ================================================================ (c) no loss *)
Fixpoint called_ids (h : hist) : list nat :=
  match h with
  | PEv _ (ECallOnEnd id) :: h' => id :: called_ids h'
  | _ :: h' => called_ids h'
  | [] => []
  end.

(* ghost state: the ids of every OnEnd call so far; acc = the walker's list of ids whose OnEnd returned before the latch *)
Record KI (called acc : list nat) (s : st) : Prop := {
  ki_called : forall t id, onend_id (ap s t) = Some id -> In id called;
  ki_acc : forall id, In id acc -> In id called;
  ki_uniq : forall t1 t2 id, onend_id (ap s t1) = Some id -> onend_id (ap s t2) = Some id -> t1 = t2;
  ki_noadd : forall id t, In id acc -> may_add (ap s t) <> Some id;
  ki_latch : forall l id, latch s = Some l -> In id acc -> In id (enq s) -> In id (firstn l (enq s))
}.

Definition called_next (e : ev) (called : list nat) : list nat :=
  match e with ECallOnEnd id => id :: called | _ => called end.

Lemma KI_back called acc s s' : KI called acc s ->
  (forall t id, onend_id (ap s' t) = Some id -> onend_id (ap s t) = Some id) ->
  (forall t id, may_add (ap s' t) = Some id -> may_add (ap s t) = Some id) ->
  (forall l id, latch s' = Some l -> In id acc -> In id (enq s') -> In id (firstn l (enq s'))) ->
  KI called acc s'.
Proof.
  intros [K1 K2 K3 K4 K5] B1 B2 L. constructor; auto.
  - intros t id X. exact (K1 t id (B1 _ _ X)).
  - intros t1 t2 id X1 X2. exact (K3 t1 t2 id (B1 _ _ X1) (B1 _ _ X2)).
  - intros id t X Y. exact (K4 id t X (B2 _ _ Y)).
Qed.

Lemma KI_step called acc s t e s' : InvA s -> KI called acc s -> accept s (t, e) = Some s' ->
  (forall id, e = ECallOnEnd id -> ~ In id called) -> KI (called_next e called) acc s'.
Proof.
  intros IA HK H Fresh. pose proof (ap_frame _ _ _ _ H) as FR. destruct (a_latch s IA) as [[L0 L1] L2].
  destruct t as [|t]; unfold accept in H; simpl in H.
  - destruct (worker_keep _ _ _ H) as (E1 & E2 & E3 & WR).
    assert (C : called_next e called = called) by (destruct e; try reflexivity; discriminate WR). rewrite C.
    apply (KI_back called acc s s' HK); rewrite ?E1, ?E2, ?E3; auto. exact (ki_latch _ _ _ HK).
  - destruct (onend_step _ _ _ _ H) as (C1 & C2 & _ & C4).
    assert (Back : (forall id, onend_id (ap s' (S t)) = Some id -> onend_id (ap s (S t)) = Some id) ->
                   forall t0 id, onend_id (ap s' t0) = Some id -> onend_id (ap s t0) = Some id).
    { intros B t0 id X. destruct (Nat.eq_dec t0 (S t)) as [->|N]; [exact (B id X)|]. rewrite <- (FR t0 (or_introl N)). exact X. }
    assert (BackM : (forall id, may_add (ap s' (S t)) = Some id -> may_add (ap s (S t)) = Some id) ->
                    forall t0 id, may_add (ap s' t0) = Some id -> may_add (ap s t0) = Some id).
    { intros B t0 id X. destruct (Nat.eq_dec t0 (S t)) as [->|N]; [exact (B id X)|]. rewrite <- (FR t0 (or_introl N)). exact X. }
    destruct HK as [K1 K2 K3 K4 K5].
    assert (HK : KI called acc s) by (constructor; assumption).
    destruct e; simpl called_next;
      try (destruct C1 as [B1 B2]; apply (KI_back called acc s s' HK (Back B1) (BackM B2)); rewrite C2, C4; exact K5).
    + (* OnEnd is called with a fresh id *)
      destruct C1 as [A0 A1]. specialize (Fresh id eq_refl).
      assert (Old : forall t0 i, t0 <> S t -> onend_id (ap s' t0) = Some i -> In i called).
      { intros t0 i N X. rewrite (FR t0 (or_introl N)) in X. exact (K1 _ _ X). }
      constructor.
      * intros t0 i X. destruct (Nat.eq_dec t0 (S t)) as [->|N]; [rewrite A1 in X; inversion X; left; reflexivity | right; exact (Old t0 i N X)].
      * intros i X. right. exact (K2 i X).
      * intros t1 t2 i X1 X2.
        destruct (Nat.eq_dec t1 (S t)) as [->|N1]; destruct (Nat.eq_dec t2 (S t)) as [->|N2]; auto.
        -- rewrite A1 in X1. inversion X1; subst i. exfalso. exact (Fresh (Old t2 id N2 X2)).
        -- rewrite A1 in X2. inversion X2; subst i. exfalso. exact (Fresh (Old t1 id N1 X1)).
        -- rewrite (FR t1 (or_introl N1)) in X1. rewrite (FR t2 (or_introl N2)) in X2. exact (K3 _ _ _ X1 X2).
      * intros i t0 X Y. destruct (Nat.eq_dec t0 (S t)) as [->|N].
        -- rewrite A1 in Y. inversion Y; subst i. exact (Fresh (K2 _ X)).
        -- rewrite (FR t0 (or_introl N)) in Y. exact (K4 i t0 X Y).
      * rewrite C2, C4. exact K5.
    + (* the exchange of is_shutdown *)
      destruct C1 as [B1 B2]. apply (KI_back called acc s s' HK (Back B1) (BackM B2)). destruct C4 as [C4 _]. rewrite C2, C4.
      intros l i La X Y. destruct (latch s) as [l0|] eqn:E; simpl in La.
      * exact (K5 l i La X Y).
      * inversion La; subst l. rewrite firstn_all. exact Y.
    + (* a record is offered to the queue *)
      destruct C1 as [B1 B2]. apply (KI_back called acc s s' HK (Back B1) (BackM B2)). rewrite C4.
      destruct ok; [|rewrite C2; exact K5]. destruct C2 as [M ->].
      intros l i La X Y. rewrite firstn_app_le by (exact (L2 l La)).
      apply in_app_or in Y. destruct Y as [Y|[<-|[]]]; [exact (K5 l i La X Y)|]. exfalso. exact (K4 _ _ X M).
Qed.

Lemma called_split t e h called :
  NoDup (called_ids (PEv t e :: h)) -> (forall id, In id called -> ~ In id (called_ids (PEv t e :: h))) ->
  (forall id, e = ECallOnEnd id -> ~ In id called) /\ NoDup (called_ids h) /\
  (forall id, In id (called_next e called) -> ~ In id (called_ids h)).
Proof.
  intros ND DJ. destruct e; simpl in *; try (split; [intros i X; discriminate X | auto]).
  inversion ND; subst. split; [|split; [assumption|]].
  - intros i X Y. inversion X; subst i. exact (DJ _ Y (or_introl eq_refl)).
  - intros i [<-|Y] Z; [contradiction|]. exact (DJ _ Y (or_intror Z)).
Qed.

(* after the latch the walker's list no longer changes *)
Lemma KI_run_frozen : forall tr s s' called acc, Inv s -> KI called acc s ->
  NoDup (called_ids (pevs tr)) -> (forall id, In id called -> ~ In id (called_ids (pevs tr))) ->
  run s tr = Some s' -> exists called', KI called' acc s'.
Proof.
  induction tr as [|[t e] tr IH]; intros s s' called acc I HK ND DJ H; simpl in H.
  - inversion H; subst. exists called. exact HK.
  - destruct (accept s (t, e)) as [s1|] eqn:A; [|discriminate].
    change (pevs ((t, e) :: tr)) with (PEv t e :: pevs tr) in ND, DJ.
    destruct (called_split t e _ called ND DJ) as (Fr & ND1 & DJ1).
    exact (IH s1 s' _ acc (accept_preserves _ _ _ I A) (KI_step called acc s t e s1 (proj1 I) HK A Fr) ND1 DJ1 H).
Qed.

Definition is_latch (e : ev) : bool := match e with EXchgShut false => true | _ => false end.
Definition acc_next (e : ev) (acc : list nat) : list nat := match e with ERetOnEnd id => id :: acc | _ => acc end.

Lemma rbl_cons t e h acc :
  returned_before_latch (PEv t e :: h) acc = if is_latch e then acc else returned_before_latch h (acc_next e acc).
Proof. destruct e; try reflexivity. destruct old; reflexivity. Qed.

Lemma latch_none_step s t e s' : InvA s -> latch s = None -> accept s (t, e) = Some s' -> is_latch e = false -> latch s' = None.
Proof.
  intros IA La H NL. destruct (a_latch s IA) as [[L0 L1] _]. destruct t as [|t]; unfold accept in H; simpl in H.
  - destruct (worker_keep _ _ _ H) as (_ & _ & E3 & _). congruence.
  - destruct (onend_step _ _ _ _ H) as (_ & _ & _ & C4). destruct e; try congruence.
    destruct C4 as [_ C4]. destruct old; [|discriminate NL]. exfalso. symmetry in C4. apply (L0 C4). exact La.
Qed.

Lemma KI_run : forall tr s s' called acc, Inv s -> KI called acc s -> latch s = None ->
  NoDup (called_ids (pevs tr)) -> (forall id, In id called -> ~ In id (called_ids (pevs tr))) ->
  run s tr = Some s' -> exists called', KI called' (returned_before_latch (pevs tr) acc) s'.
Proof.
  induction tr as [|[t e] tr IH]; intros s s' called acc I HK La ND DJ H; simpl in H.
  - inversion H; subst. exists called. exact HK.
  - destruct (accept s (t, e)) as [s1|] eqn:A; [|discriminate].
    change (pevs ((t, e) :: tr)) with (PEv t e :: pevs tr) in *. rewrite rbl_cons.
    destruct (called_split t e _ called ND DJ) as (Fr & ND1 & DJ1).
    pose proof (KI_step called acc s t e s1 (proj1 I) HK A Fr) as HK1. pose proof (accept_preserves _ _ _ I A) as I1.
    destruct (is_latch e) eqn:IL.
    + exact (KI_run_frozen tr s1 s' _ acc I1 HK1 ND1 DJ1 H).
    + pose proof (latch_none_step s t e s1 (proj1 I) La A IL) as La1.
      apply (IH s1 s' (called_next e called)); auto.
      destruct e; try exact HK1. simpl.
      (* OnEnd returns before the latch: its id can never be offered to the queue again *)
      pose proof (ap_frame _ _ _ _ A) as FR.
      destruct t as [|t]; unfold accept in A; simpl in A; [destruct (worker_keep _ _ _ A) as (_ & _ & _ & WR); discriminate WR|].
      destruct (onend_step _ _ _ _ A) as (_ & _ & [A0 A1] & _).
      destruct HK as [K1 K2 K3 K4 K5]. destruct HK1 as [J1 J2 J3 J4 J5]. simpl in *.
      assert (Ic : In id called) by (apply (K1 (S t)); rewrite A0; reflexivity).
      constructor; auto.
      * intros i [<-|X]; auto.
      * intros i t0 [E|X]; [subst i|exact (J4 i t0 X)]. intros Y.
        destruct (Nat.eq_dec t0 (S t)) as [->|N]; [rewrite A1 in Y; discriminate Y|].
        rewrite (FR t0 (or_introl N)) in Y. apply N. apply (K3 t0 (S t) id); [|rewrite A0; reflexivity].
        destruct (ap s t0); try discriminate Y; simpl in *; exact Y.
      * intros l i X. rewrite La1 in X. discriminate X.
Qed.

Lemma KI_init q b : KI [] [] (init q b).
Proof. constructor; simpl; try discriminate; try contradiction. Qed.

(* the destructor has returned: under the side condition the processor is final from then on *)
Lemma final_run : forall tr s s', Inv s -> final s -> run s tr = Some s' -> final s'.
Proof.
  induction tr as [|te tr IH]; intros s s' I F H; simpl in H.
  - inversion H; subst; exact F.
  - destruct (accept s te) as [s1|] eqn:A; [|discriminate].
    exact (IH s1 s' (accept_preserves _ _ _ I A) (final_stable _ _ _ I A F) H).
Qed.

Lemma complete_final : forall tr d s s', Inv s -> RK d s -> dtor_walk d tr = true -> run s tr = Some s' ->
  history_complete (pevs tr) = true -> final s'.
Proof.
  induction tr as [|[t e] tr IH]; intros d s s' I HK DW H HC; simpl in H, HC; [discriminate HC|].
  destruct (accept s (t, e)) as [s1|] eqn:A; [|discriminate].
  simpl in DW. apply andb_prop in DW. destruct DW as [D1 D2].
  pose proof (accept_preserves _ _ _ I A) as I1.
  destruct (match e with ERetDestroy => true | _ => false end) eqn:IsRet.
  - destruct e; try discriminate IsRet.
    exact (final_run tr s1 s' I1 (final_stable _ _ _ I A (ret_destroy_state d s t s1 I HK A)) H).
  - apply (IH (dt_next d t e) s1 s' I1 (RK_step d s t e s1 I HK A D1) D2 H).
    destruct e; first [exact HC | discriminate IsRet].
Qed.

(* Hypotheses: distinct OnEnd calls carry distinct ids (otherwise a record refused before the latch and offered again,
   with the same id, by a producer that slips in after the latch would count as lost: the checker identifies records by id),
   and the destructor overlaps no Shutdown / destructor call (TraceSpec2: otherwise the model accepts a destructor that
   returns while another thread's Shutdown is still draining - lost_by_overlapping_destructor below). *)
Theorem accepted_trace_meets_spec_c01_no_loss q b tr s :
  run (init q b) tr = Some s -> nodup (called_ids (pevs tr)) = true -> dtor_exclusive tr -> c01_no_loss (pevs tr) = [].
Proof.
  intros H ND DX. unfold c01_no_loss. destruct (history_complete (pevs tr)) eqn:HC; [|reflexivity]. apply check_true.
  pose proof (run_preserves tr _ _ (Inv_init q b) H) as [IA IB].
  destruct (complete_final tr ([], None) (init q b) s (Inv_init q b) (RK_init q b) DX H HC) as (S1 & J & E1).
  destruct (KI_run tr (init q b) s [] [] (Inv_init q b) (KI_init q b) eq_refl (proj1 (nodup_spec _) ND) (fun id X => False_ind _ X) H)
    as (called' & HK).
  destruct (accepted_trace_projections q b tr s H) as [P1 P2].
  pose proof (b_joined s IB J) as W. pose proof (a_wp s IA) as Iwp. unfold wp_inv in Iwp. rewrite W in Iwp. destruct Iwp as [_ Hl].
  destruct (a_latch s IA) as [[L1 _] _]. destruct (latch s) as [l|] eqn:La; [|exfalso; apply (L1 S1); reflexivity].
  specialize (Hl l eq_refl).
  apply forallb_forall. intros id Hin.
  destruct (mem id (added_ids (pevs tr))) eqn:M; [|reflexivity]. simpl. apply mem_In. apply mem_In in M.
  rewrite P1. rewrite P2 in M. unfold begun. apply in_or_app. left.
  pose proof (ki_latch _ _ _ HK l id La Hin M) as X.
  rewrite (firstn_of_prefix _ _ _ _ _ (a_prefix s IA) Hl) in X. exact (In_firstn _ _ _ X).
Qed.

(* ================================================================ (d) the whole C01 checker *)
(* Hypotheses, all on the trace alone and all about the APPLICATION (the model constrains neither ids nor how the
   destructor is used): (1) each producer's ids grow in the order the queue accepted them (this also makes the accepted
   ids distinct); (2) distinct OnEnd calls carry distinct ids; (3) a destructor call overlaps no Shutdown call and no
   other destructor call. *)
Theorem accepted_trace_meets_spec_c01 q b tr s :
  run (init q b) tr = Some s ->
  c01_order_walk [] (added_ids (pevs tr)) = true -> nodup (called_ids (pevs tr)) = true -> dtor_exclusive tr ->
  spec_c01 q (pevs tr) = [].
Proof.
  intros H O ND DX. unfold spec_c01.
  rewrite (accepted_trace_meets_spec_c01_exactly_once q b tr s H (proj2 (nodup_spec _) (order_walk_nodup _ _ O))).
  rewrite (accepted_trace_meets_spec_c01_drop q b tr s H).
  rewrite (accepted_trace_meets_spec_c01_budget q b tr s H).
  rewrite (accepted_trace_meets_spec_c01_per_producer_order q b tr s H O).
  rewrite (accepted_trace_meets_spec_c01_no_loss q b tr s H ND DX).
  rewrite (accepted_trace_meets_spec_c01_never_blocks q b tr s H).
  reflexivity.
Qed.

(* non-vacuity: the demo trace followed by a destructor; a destructor that performs the shutdown itself *)
Example demo_dtor_meets_spec_c01 :
  (exists s, run (init 1 1) demo_trace_dtor = Some s) /\ c01_order_walk [] (added_ids (pevs demo_trace_dtor)) = true /\
  nodup (called_ids (pevs demo_trace_dtor)) = true /\ dtor_exclusive demo_trace_dtor /\
  history_complete (pevs demo_trace_dtor) = true /\ spec_c01 1 (pevs demo_trace_dtor) = [].
Proof. split; [eexists; vm_compute; reflexivity|]. repeat split; vm_compute; reflexivity. Qed.

Example dtor_shutdown_meets_spec_c01 :
  (exists s, run (init 1 1) dtor_shutdown_trace = Some s) /\ c01_order_walk [] (added_ids (pevs dtor_shutdown_trace)) = true /\
  nodup (called_ids (pevs dtor_shutdown_trace)) = true /\ dtor_exclusive dtor_shutdown_trace /\
  returned_before_latch (pevs dtor_shutdown_trace) [] = [11] /\ spec_c01 1 (pevs dtor_shutdown_trace) = [].
Proof. split; [eexists; vm_compute; reflexivity|]. repeat split; vm_compute; reflexivity. Qed.

(* the checker is not vacuous, and hypothesis (3) is needed: the acceptor accepts a destructor that returns while another
   thread's Shutdown has only just set the latch (application misuse); record 11 was accepted and its OnEnd returned
   before the latch, but it has not been exported when the destructor returns *)
Definition lost_by_overlapping_destructor : list (nat * ev) :=
  [(1, ECallOnEnd 11); (1, ELdShut false); (1, EBufAdd 11 true); (1, EBufSize 1); (1, ERetOnEnd 11);
   (2, ECallShutdown); (2, ELockShut); (2, EXchgShut false); (1, ECallDestroy); (1, ELdShut true); (1, ERetDestroy)].
Example overlapping_destructor_loses :
  (exists s, run (init 1 1) lost_by_overlapping_destructor = Some s) /\
  c01_no_loss (pevs lost_by_overlapping_destructor) = fail "no_loss:lost_before_shutdown" /\
  dtor_walk ([], None) lost_by_overlapping_destructor = false.
Proof. split; [eexists; vm_compute; reflexivity|]. split; vm_compute; reflexivity. Qed.

(* hypothesis (2) is needed: id 12 is refused (queue full) before the latch, and a second OnEnd with the same id, which
   passed its shutdown test before the latch, is accepted by the queue after the worker's final drain *)
Definition lost_by_reused_id : list (nat * ev) :=
  [(1, ECallOnEnd 11); (1, ELdShut false); (1, EBufAdd 11 true); (1, EBufSize 1); (1, ERetOnEnd 11);
   (1, ECallOnEnd 12); (1, ELdShut false); (1, EBufAdd 12 false); (1, ERetOnEnd 12);
   (2, ECallOnEnd 12); (2, ELdShut false);
   (3, ECallShutdown); (3, ELockShut); (3, EXchgShut false);
   (0, ELdShut true); (0, EBufEmpty false); (0, ELdPending 0); (0, EBufSize 1); (0, EBufConsume 1); (0, EExpBegin [11]);
   (0, EExpEnd true); (0, ELdNotified 0); (0, ELdPending 0); (0, EBufSize 0); (0, ELdNotified 0);
   (0, EBufEmpty true); (0, ELdPending 0); (0, ELdNotified 0);
   (2, EBufAdd 12 true); (2, EBufSize 1); (2, ERetOnEnd 12);
   (3, EJoin 0); (3, EExpShutdown true); (3, EUnlockShut); (3, ERetShutdown true);
   (3, ECallDestroy); (3, ELdShut true); (3, ERetDestroy)].
Example reused_id_loses :
  (exists s, run (init 1 1) lost_by_reused_id = Some s) /\ dtor_exclusive lost_by_reused_id /\
  nodup (called_ids (pevs lost_by_reused_id)) = false /\
  c01_no_loss (pevs lost_by_reused_id) = fail "no_loss:lost_before_shutdown".
Proof. split; [eexists; vm_compute; reflexivity|]. repeat split; vm_compute; reflexivity. Qed.

(* the "late calls return promptly" checker of C02 fails only on blocking events (mutex / condition variable of the processor),
   which accepted traces do not contain: in the model a call that finds the processor shut down goes straight to its return *)
Lemma c02_late_walk_pevs : forall tr sr late, c02_late_walk sr late (pevs tr) = true.
Proof.
  induction tr as [|[t e] tr IH]; intros sr late; simpl; auto.
  destruct e; simpl; auto.
Qed.

Theorem accepted_trace_meets_spec_c02_late_calls_prompt tr : c02_late_calls_prompt (pevs tr) = [].
Proof. unfold c02_late_calls_prompt. rewrite c02_late_walk_pevs. reflexivity. Qed.

Example late_call_that_waits_fails :
  c02_late_calls_prompt [PEv 3 (ERetShutdown true); PEv 1 ECallFlush; PBlock 1; PEv 1 (ERetFlush false)] <> [].
Proof. vm_compute. discriminate. Qed.
