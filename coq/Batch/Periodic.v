(* MODEL (acceptor LTS) of sdk::metrics::PeriodicExportingMetricReader
   (sdk/src/metrics/export/periodic_exporting_metric_reader.cc, sdk/src/metrics/metric_reader.cc):
   thread 0 is the periodic worker; each cycle it reads the flush ticket, spawns a collect thread (Collect = Produce +
   exporter->Export unless the cycle was cancelled by the export time-out), joins it and publishes the ticket.
   Application threads record measurements, call ForceFlush (ticket, wait, exporter->ForceFlush) and Shutdown
   (latch, join the worker, exporter->Shutdown).  Condition variables, their mutexes, the wake-up flag and yields
   are filtered before acceptance.  Definitions only; proofs in Batch/PeriodicProofs.v.  Ghost fields are marked. *)
From V Require Export Base.Tok.
From Coq Require Export Arith.

Inductive rev :=
| RRec (n : nat)
| RCallFlush | RRetFlush (r : bool) | RCallShut | RRetShut (r : bool)
| RLdShut (v : bool) | RStShut
| RLdPending (v : nat) | RFaddPending (old : nat)
| RLdNotified (v : nat) | RCasNotified (exp des seen : nat) (ok : bool)
| RSpawn (c : nat) | RJoin (c : nat)
| RFutReady | RFutTimeout | RStCancel | RLdCancel (v : bool)
| RCollect (n : nat) | RSetValue
| RExpBegin (n : nat) | RExpEnd (r : bool) | RExpFlush (r : bool) | RExpShutdown (r : bool).

(* worker: k = ticket of the cycle, c = its collect thread *)
Inductive rwpc :=
| RWIdle (lastshut : bool)          (* between cycles; lastshut = what the last read of shutdown_ returned *)
| RWTicket (k : nat)                (* ticket read, collect thread not yet spawned *)
| RWWait (k c : nat)                (* waiting on the future *)
| RWTimedOut (k c : nat)            (* the wait timed out: about to store the cancel flag *)
| RWJoin (k c : nat)                (* future ready or cycle cancelled: about to join *)
| RWJoined (k : nat)                (* joined: reads the cancel flag; a cancelled cycle publishes nothing *)
| RWNotify (k : nat)                (* reads notified *)
| RWCas (k v : nat)
| RWEnd.                            (* the cycle is over: the loop condition `while (IsShutdown() != true)` (and possibly the wait
                                       predicate before it) reads shutdown_ before another cycle can begin *)

(* collect thread *)
Inductive rcpc :=
| RC0 | RC1 | RCGot (n : nat) | RCExp (n : nat) | RCExpEnd (n : nat) | RCSet | RCDone.

(* application threads *)
Inductive rapc :=
| RAIdle
| RAFlush0 | RAFlush1 | RAFlushWait (k : nat) (last : option nat) (fl : option bool)
| RAShut0 | RAShut1 | RAShut2 | RAShut3 | RAShut4 (r : bool).

Record rst := mk_rst {
  r_pending : nat; r_notified : nat; r_shut : bool;
  r_nrec : nat;
  r_cancel : bool;                     (* cancel_export_for_timeout of the current cycle *)
  r_wp : rwpc;
  r_coll : option (nat * rcpc);        (* the collect thread of the current cycle *)
  r_ap : nat -> rapc;
  r_joined : bool;                     (* the worker has been joined *)
  r_fly : option nat;                  (* collect thread inside exporter->Export *)
  r_exports : list nat;                (* n of every Export, in order *)
  r_marks : list nat;                  (* ghost: nrec when ticket j+1 was issued *)
  r_covered : nat;                     (* ghost: the largest collection handed to Export in a completed cycle *)
  r_cyc : nat;                         (* ghost: what the current cycle's Produce saw *)
  r_skipped : nat;                     (* ghost: cycles whose Export was skipped because the collection timed out *)
  r_expshut : nat;
  r_fl_done : list (nat * nat * bool); (* ghost: (thread, ticket, result) of returned ForceFlush calls *)
  r_sh_done : nat                      (* ghost: returned Shutdown calls *)
}.

Definition rinit : rst :=
  mk_rst 0 0 false 0 false (RWIdle false) None (fun _ => RAIdle) false None [] [] 0 0 0 0 [] 0.

Definition rupd (f : nat -> rapc) (k : nat) (v : rapc) : nat -> rapc := fun j => if Nat.eqb j k then v else f j.

Definition rset_wp (s : rst) (w : rwpc) : rst :=
  mk_rst (r_pending s) (r_notified s) (r_shut s) (r_nrec s) (r_cancel s) w (r_coll s) (r_ap s) (r_joined s) (r_fly s)
         (r_exports s) (r_marks s) (r_covered s) (r_cyc s) (r_skipped s) (r_expshut s) (r_fl_done s) (r_sh_done s).
Definition rset_coll (s : rst) (c : option (nat * rcpc)) : rst :=
  mk_rst (r_pending s) (r_notified s) (r_shut s) (r_nrec s) (r_cancel s) (r_wp s) c (r_ap s) (r_joined s) (r_fly s)
         (r_exports s) (r_marks s) (r_covered s) (r_cyc s) (r_skipped s) (r_expshut s) (r_fl_done s) (r_sh_done s).
Definition rset_ap (s : rst) (t : nat) (a : rapc) : rst :=
  mk_rst (r_pending s) (r_notified s) (r_shut s) (r_nrec s) (r_cancel s) (r_wp s) (r_coll s) (rupd (r_ap s) t a) (r_joined s) (r_fly s)
         (r_exports s) (r_marks s) (r_covered s) (r_cyc s) (r_skipped s) (r_expshut s) (r_fl_done s) (r_sh_done s).

Definition raccept_worker (s : rst) (e : rev) : option rst :=
  match r_wp s, e with
  (* the wait predicate and the loop condition read shutdown_ *)
  | RWIdle _, RLdShut v => if Bool.eqb v (r_shut s) then Some (rset_wp s (RWIdle v)) else None
  | RWEnd, RLdShut v => if Bool.eqb v (r_shut s) then Some (rset_wp s (RWIdle v)) else None
  (* CollectAndExportOnce: ticket, then the collect thread; a new cancel flag (false) *)
  | RWIdle false, RLdPending k =>
      if Nat.eqb k (r_pending s)
      then Some (mk_rst (r_pending s) (r_notified s) (r_shut s) (r_nrec s) false (RWTicket k) (r_coll s) (r_ap s) (r_joined s) (r_fly s)
                        (r_exports s) (r_marks s) (r_covered s) (r_cyc s) (r_skipped s) (r_expshut s) (r_fl_done s) (r_sh_done s))
      else None
  | RWTicket k, RSpawn c =>
      match r_coll s, c, r_ap s c with
      | None, S _, RAIdle => Some (mk_rst (r_pending s) (r_notified s) (r_shut s) (r_nrec s) (r_cancel s) (RWWait k c) (Some (c, RC0)) (r_ap s) (r_joined s) (r_fly s)
                             (r_exports s) (r_marks s) (r_covered s) (r_cyc s) (r_skipped s) (r_expshut s) (r_fl_done s) (r_sh_done s))
      | _, _, _ => None
      end
  | RWWait k c, RFutReady =>
      match r_coll s with
      | Some (c', RCDone) => if Nat.eqb c c' then Some (rset_wp s (RWJoin k c)) else None
      | _ => None
      end
  | RWWait k c, RFutTimeout => Some (rset_wp s (RWTimedOut k c))
  | RWTimedOut k c, RStCancel =>
      Some (mk_rst (r_pending s) (r_notified s) (r_shut s) (r_nrec s) true (RWJoin k c) (r_coll s) (r_ap s) (r_joined s) (r_fly s)
                   (r_exports s) (r_marks s) (r_covered s) (r_cyc s) (r_skipped s) (r_expshut s) (r_fl_done s) (r_sh_done s))
  | RWJoin k c, RJoin c' =>
      match r_coll s with
      | Some (c'', RCDone) =>
          if Nat.eqb c c' && Nat.eqb c c''
          then Some (mk_rst (r_pending s) (r_notified s) (r_shut s) (r_nrec s) (r_cancel s) (RWJoined k) None (r_ap s) (r_joined s) (r_fly s)
                            (r_exports s) (r_marks s) (r_covered s) (r_cyc s) (r_skipped s) (r_expshut s) (r_fl_done s) (r_sh_done s))
          else None
      | _ => None
      end
  | RWJoined k, RLdCancel v =>
      if Bool.eqb v (r_cancel s) then Some (rset_wp s (if v then RWEnd else RWNotify k)) else None
  | RWNotify k, RLdNotified v =>
      if Nat.eqb v (r_notified s) then Some (rset_wp s (if Nat.ltb v k then RWCas k v else RWEnd)) else None
  | RWCas k v, RCasNotified ex des seen ok =>
      if Nat.eqb ex v && Nat.eqb des k && Nat.eqb seen (r_notified s) && Bool.eqb ok (Nat.eqb seen v)
      then if ok
           then Some (mk_rst (r_pending s) k (r_shut s) (r_nrec s) (r_cancel s) (RWCas k v) (r_coll s) (r_ap s) (r_joined s) (r_fly s)
                             (r_exports s) (r_marks s) (r_covered s) (r_cyc s) (r_skipped s) (r_expshut s) (r_fl_done s) (r_sh_done s))
           else Some (rset_wp s (if Nat.ltb seen k then RWCas k seen else RWEnd))
      else None
  | _, _ => None
  end.

Definition raccept_coll (s : rst) (c : nat) (p : rcpc) (e : rev) : option rst :=
  match p, e with
  | RC0, RLdShut v => if Bool.eqb v (r_shut s) then Some (rset_coll s (Some (c, RC1))) else None
  | RC1, RCollect n =>
      if Nat.eqb n (r_nrec s)
      then Some (mk_rst (r_pending s) (r_notified s) (r_shut s) (r_nrec s) (r_cancel s) (r_wp s) (Some (c, RCGot n)) (r_ap s) (r_joined s) (r_fly s)
                        (r_exports s) (r_marks s) (r_covered s) n (r_skipped s) (r_expshut s) (r_fl_done s) (r_sh_done s))
      else None
  | RCGot n, RLdCancel v =>
      if Bool.eqb v (r_cancel s)
      then if v
           then Some (mk_rst (r_pending s) (r_notified s) (r_shut s) (r_nrec s) (r_cancel s) (r_wp s) (Some (c, RCSet)) (r_ap s) (r_joined s) (r_fly s)
                             (r_exports s) (r_marks s) (r_covered s) (r_cyc s) (S (r_skipped s)) (r_expshut s) (r_fl_done s) (r_sh_done s))
           else Some (rset_coll s (Some (c, RCExp n)))
      else None
  (* the acceptor does NOT test that no other Export is in flight: that is the theorem *)
  | RCExp n, RExpBegin n' =>
      if Nat.eqb n n'
      then Some (mk_rst (r_pending s) (r_notified s) (r_shut s) (r_nrec s) (r_cancel s) (r_wp s) (Some (c, RCExpEnd n)) (r_ap s) (r_joined s) (Some c)
                        (r_exports s ++ [n]) (r_marks s) (r_covered s) (r_cyc s) (r_skipped s) (r_expshut s) (r_fl_done s) (r_sh_done s))
      else None
  | RCExpEnd n, RExpEnd _ =>
      Some (mk_rst (r_pending s) (r_notified s) (r_shut s) (r_nrec s) (r_cancel s) (r_wp s) (Some (c, RCSet)) (r_ap s) (r_joined s) None
                   (r_exports s) (r_marks s) (Nat.max (r_covered s) n) (r_cyc s) (r_skipped s) (r_expshut s) (r_fl_done s) (r_sh_done s))
  | RCSet, RSetValue => Some (rset_coll s (Some (c, RCDone)))
  | _, _ => None
  end.

Definition raccept_app (s : rst) (t : nat) (e : rev) : option rst :=
  match r_ap s t, e with
  | RAIdle, RRec n =>
      if Nat.eqb n (S (r_nrec s))
      then Some (mk_rst (r_pending s) (r_notified s) (r_shut s) n (r_cancel s) (r_wp s) (r_coll s) (r_ap s) (r_joined s) (r_fly s)
                        (r_exports s) (r_marks s) (r_covered s) (r_cyc s) (r_skipped s) (r_expshut s) (r_fl_done s) (r_sh_done s))
      else None
  (* MetricReader::ForceFlush -> OnForceFlush *)
  | RAIdle, RCallFlush => Some (rset_ap s t RAFlush0)
  | RAFlush0, RLdShut v => if Bool.eqb v (r_shut s) then Some (rset_ap s t RAFlush1) else None
  | RAFlush1, RFaddPending old =>
      if Nat.eqb old (r_pending s)
      then Some (mk_rst (S (r_pending s)) (r_notified s) (r_shut s) (r_nrec s) (r_cancel s) (r_wp s) (r_coll s)
                        (rupd (r_ap s) t (RAFlushWait (S old) None None)) (r_joined s) (r_fly s)
                        (r_exports s) (r_marks s ++ [r_nrec s]) (r_covered s) (r_cyc s) (r_skipped s) (r_expshut s) (r_fl_done s) (r_sh_done s))
      else None
  | RAFlushWait k last fl, RLdShut v => if Bool.eqb v (r_shut s) then Some s else None
  | RAFlushWait k last fl, RLdPending v => if Nat.eqb v (r_pending s) then Some s else None
  | RAFlushWait k last fl, RLdNotified v => if Nat.eqb v (r_notified s) then Some (rset_ap s t (RAFlushWait k (Some v) fl)) else None
  (* the exporter is flushed only after the caller has read its ticket as published (a caller woken by Shutdown returns false) *)
  | RAFlushWait k (Some v) None, RExpFlush r =>
      if Nat.leb k v then Some (rset_ap s t (RAFlushWait k (Some v) (Some r))) else None   (* `notified` only grows: the value read stays a lower bound, a fresh load before returning is optional *)
  | RAFlushWait k last fl, RRetFlush r =>
      let expected := match fl, last with
                      | Some true, Some v => Nat.leb k v        (* result && notified.load() >= ticket *)
                      | _, _ => false
                      end in
      if Bool.eqb r expected
      then Some (mk_rst (r_pending s) (r_notified s) (r_shut s) (r_nrec s) (r_cancel s) (r_wp s) (r_coll s) (rupd (r_ap s) t RAIdle) (r_joined s) (r_fly s)
                        (r_exports s) (r_marks s) (r_covered s) (r_cyc s) (r_skipped s) (r_expshut s) (r_fl_done s ++ [(t, k, r)]) (r_sh_done s))
      else None
  (* MetricReader::Shutdown -> OnShutDown *)
  | RAIdle, RCallShut => Some (rset_ap s t RAShut0)
  | RAShut0, RLdShut v => if Bool.eqb v (r_shut s) then Some (rset_ap s t RAShut1) else None
  | RAShut1, RStShut =>
      Some (mk_rst (r_pending s) (r_notified s) true (r_nrec s) (r_cancel s) (r_wp s) (r_coll s)
                   (rupd (r_ap s) t (if r_joined s then RAShut3 else RAShut2)) (r_joined s) (r_fly s)
                   (r_exports s) (r_marks s) (r_covered s) (r_cyc s) (r_skipped s) (r_expshut s) (r_fl_done s) (r_sh_done s))
  (* OnShutDown serializes "joinable? then join" (worker_join_m_, F31): the worker is joined at most once; a caller that
     finds it already joined goes straight to the exporter *)
  | RAShut2, RExpShutdown r =>
      if r_joined s
      then Some (mk_rst (r_pending s) (r_notified s) (r_shut s) (r_nrec s) (r_cancel s) (r_wp s) (r_coll s) (rupd (r_ap s) t (RAShut4 r)) (r_joined s) (r_fly s)
                        (r_exports s) (r_marks s) (r_covered s) (r_cyc s) (r_skipped s) (S (r_expshut s)) (r_fl_done s) (r_sh_done s))
      else None
  | RAShut2, RJoin w =>
      if r_joined s then None else
      match w, r_wp s, r_coll s with
      | 0, RWIdle true, None =>       (* the worker left its loop: its last read of shutdown_ returned true *)
          Some (mk_rst (r_pending s) (r_notified s) (r_shut s) (r_nrec s) (r_cancel s) (r_wp s) (r_coll s) (rupd (r_ap s) t RAShut3) true (r_fly s)
                       (r_exports s) (r_marks s) (r_covered s) (r_cyc s) (r_skipped s) (r_expshut s) (r_fl_done s) (r_sh_done s))
      | _, _, _ => None
      end
  | RAShut3, RExpShutdown r =>
      Some (mk_rst (r_pending s) (r_notified s) (r_shut s) (r_nrec s) (r_cancel s) (r_wp s) (r_coll s) (rupd (r_ap s) t (RAShut4 r)) (r_joined s) (r_fly s)
                   (r_exports s) (r_marks s) (r_covered s) (r_cyc s) (r_skipped s) (S (r_expshut s)) (r_fl_done s) (r_sh_done s))
  | RAShut4 r, RRetShut r' =>
      if Bool.eqb r r'
      then Some (mk_rst (r_pending s) (r_notified s) (r_shut s) (r_nrec s) (r_cancel s) (r_wp s) (r_coll s) (rupd (r_ap s) t RAIdle) (r_joined s) (r_fly s)
                        (r_exports s) (r_marks s) (r_covered s) (r_cyc s) (r_skipped s) (r_expshut s) (r_fl_done s) (S (r_sh_done s)))
      else None
  | _, _ => None
  end.

(* thread 0 = worker; the thread named by r_coll = the collect thread; every other thread = application *)
Definition raccept (s : rst) (te : nat * rev) : option rst :=
  match fst te with
  | 0 => if r_joined s then None else raccept_worker s (snd te)
  | t => match r_coll s with
         | Some (c, p) => if Nat.eqb t c then raccept_coll s c p (snd te) else raccept_app s t (snd te)
         | None => raccept_app s t (snd te)
         end
  end.

Fixpoint rrun (s : rst) (tr : list (nat * rev)) : option rst :=
  match tr with
  | [] => Some s
  | te :: tr' => match raccept s te with Some s' => rrun s' tr' | None => None end
  end.

(* ------------------------------------------------------------------ wire format *)
Local Open Scope Z_scope.
Definition rzn (z : Z) : nat := Z.to_nat z.
Definition rzb (z : Z) : bool := negb (Z.eqb z 0).

Inductive rpev := RPEv (t : nat) (e : rev) | RPSkip | RPBad.

(* unnamed shim objects are printed o<k>: in these runs the only one is the per-cycle cancel flag *)
Definition is_anon (t : tok) : bool :=
  match t with
  | TT (c :: rest) => Byte.eqb c "o"%byte && negb (match rest with [] => true | _ => false end) &&
                      forallb (fun b => (48 <=? Z.of_N (Byte.to_N b)) && (Z.of_N (Byte.to_N b) <=? 57)) rest
  | _ => false
  end.

Definition rparse_event (l : list tok) : rpev :=
  match l with
  | TZ z :: body =>
      if z <? 0 then RPSkip else
      let t := rzn z in
      match body with
      | [op] => if is_tag "yield" op || is_tag "sleep" op then RPSkip
                else if is_tag "setvalue" op then RPEv t RSetValue else RPBad
      | [op; what] =>
          if is_tag "call" op && is_tag "flush" what then RPEv t RCallFlush
          else if is_tag "call" op && is_tag "shutdown" what then RPEv t RCallShut
          else if is_tag "fut" op && is_tag "ready" what then RPEv t RFutReady
          else if is_tag "fut" op && is_tag "timeout" what then RPEv t RFutTimeout
          else if is_tag "lock" op || is_tag "unlock" op || is_tag "notify" op then RPSkip
          else match what with
               | TZ a =>
                   if is_tag "rec" op then RPEv t (RRec (rzn a))
                   else if is_tag "collect" op then RPEv t (RCollect (rzn a))
                   else if is_tag "spawn" op then RPEv t (RSpawn (rzn a))
                   else if is_tag "join" op then RPEv t (RJoin (rzn a))
                   else if is_tag "expbegin" op then RPEv t (RExpBegin (rzn a))
                   else if is_tag "expend" op then RPEv t (RExpEnd (rzb a))
                   else if is_tag "expflush" op then RPEv t (RExpFlush (rzb a))
                   else if is_tag "expshutdown" op then RPEv t (RExpShutdown (rzb a))
                   else RPBad
               | _ => RPBad
               end
      | [op; what; x] =>
          if is_tag "wake" op || is_tag "wait" op then RPSkip
          else match x with
               | TZ a =>
                   if is_tag "ret" op && is_tag "flush" what then RPEv t (RRetFlush (rzb a))
                   else if is_tag "ret" op && is_tag "shutdown" what then RPEv t (RRetShut (rzb a))
                   else if is_tag "ld" op && is_tag "shutdown" what then RPEv t (RLdShut (rzb a))
                   else if is_tag "st" op && is_tag "shutdown" what && Z.eqb a 1 then RPEv t RStShut
                   else if is_tag "ld" op && is_tag "pending" what then RPEv t (RLdPending (rzn a))
                   else if is_tag "ld" op && is_tag "notified" what then RPEv t (RLdNotified (rzn a))
                   else if (is_tag "ld" op || is_tag "st" op) && is_tag "wake" what then RPSkip
                   else if is_tag "st" op && is_anon what && Z.eqb a 1 then RPEv t RStCancel
                   else if is_tag "ld" op && is_anon what then RPEv t (RLdCancel (rzb a))
                   else RPBad
               | _ => RPBad
               end
      | [op; what; TZ a; TZ b] =>
          if is_tag "fadd" op && is_tag "pending" what && Z.eqb a 1 then RPEv t (RFaddPending (rzn b)) else RPBad
      | [op; what; TZ a; TZ b; TZ c; TZ d] =>
          if is_tag "cass" op && is_tag "notified" what then RPEv t (RCasNotified (rzn a) (rzn b) (rzn c) (rzb d)) else RPBad
      | _ => RPBad
      end
  | _ => RPBad
  end.

(* one logged event = one model event, except an atomic exchange of the shutdown flag, which is read as the load followed by the
   store that MetricReader::Shutdown performs separately in the modelled code (an atomic exchange is a refinement of that pair) *)
Definition rparse_events (l : list tok) : list rpev :=
  match l with
  | [TZ z; op; what; TZ a; TZ b] =>
      if (0 <=? z) && is_tag "xchg" op && is_tag "shutdown" what && Z.eqb a 1
      then [RPEv (rzn z) (RLdShut (rzb b)); RPEv (rzn z) RStShut]
      else [rparse_event l]
  | _ => [rparse_event l]
  end.
Definition rparse_trace (l : list tok) : list rpev :=
  match l with [] => [] | _ => flat_map rparse_events (split_toks ";" l) end.

Inductive rverdict := RVOk (s : rst) | RVRej (i : nat).
Fixpoint rreplay (s : rst) (tr : list rpev) (i : nat) : rverdict :=
  match tr with
  | [] => RVOk s
  | RPBad :: _ => RVRej i
  | RPSkip :: tr' => rreplay s tr' (S i)
  | RPEv t e :: tr' => match raccept s (t, e) with Some s' => rreplay s' tr' (S i) | None => RVRej i end
  end.

Definition periodic_model (tr : list tok) : list tok :=
  match rreplay rinit (rparse_trace tr) 0 with
  | RVOk s => [tag "X"] ++ map tnat (r_exports s) ++ [tag "S"; tnat (r_expshut s)]
  | RVRej i => [tag "REJECT"; tnat i]
  end.
Definition periodic_tag (tr : list tok) : list tok :=
  match rreplay rinit (rparse_trace tr) 0 with
  | RVOk s => [tag (if Nat.ltb 0 (r_skipped s) then "periodic_cancelled" else
                    if existsb (fun x => snd x) (r_fl_done s) then "periodic_flushok" else "periodic")]
  | RVRej _ => [tag "rejected"]
  end.

(* ------------------------------------------------------------------ SPEC on the history *)
Local Open Scope nat_scope.
(* C03: Export never starts while another Export is running *)
Fixpoint periodic_walk3 (fly : bool) (h : list rpev) : list tok :=
  match h with
  | [] => []
  | RPEv _ (RExpBegin _) :: h' => check (negb fly) "export:overlap" ++ periodic_walk3 true h'
  | RPEv _ (RExpEnd _) :: h' => check fly "export:end_without_begin" ++ periodic_walk3 false h'
  | RPBad :: h' => fail "obs:unknown_event" ++ periodic_walk3 fly h'
  | _ :: h' => periodic_walk3 fly h'
  end.

(* C02: no Export after a Shutdown has returned; a ForceFlush that returns true was preceded, after its call began, by a
   completed Export of a collection that saw every measurement recorded before the call, and by the exporter's ForceFlush *)
Record pw := mk_pw {
  pw_nrec : nat; pw_shutret : bool; pw_cancels : nat;
  pw_fl : list (nat * (nat * nat * bool * bool));   (* thread -> (recorded at call, cancels at call, covering export done, exporter flushed after it) *)
  pw_cur : option nat;                              (* collection being exported *)
  pw_fail : list tok
}.
Fixpoint pw_get (t : nat) (l : list (nat * (nat * nat * bool * bool))) : option (nat * nat * bool * bool) :=
  match l with [] => None | (t', v) :: l' => if Nat.eqb t t' then Some v else pw_get t l' end.
Definition pw_del (t : nat) (l : list (nat * (nat * nat * bool * bool))) := filter (fun x => negb (Nat.eqb (fst x) t)) l.

Definition pw_step (w : pw) (e : rpev) : pw :=
  match e with
  | RPEv _ (RRec n) => mk_pw n (pw_shutret w) (pw_cancels w) (pw_fl w) (pw_cur w) (pw_fail w)
  | RPEv _ RStCancel => mk_pw (pw_nrec w) (pw_shutret w) (S (pw_cancels w)) (pw_fl w) (pw_cur w) (pw_fail w)
  | RPEv t RCallFlush =>
      mk_pw (pw_nrec w) (pw_shutret w) (pw_cancels w) ((t, (pw_nrec w, pw_cancels w, false, false)) :: pw_del t (pw_fl w)) (pw_cur w) (pw_fail w)
  | RPEv _ (RExpBegin n) =>
      mk_pw (pw_nrec w) (pw_shutret w) (pw_cancels w) (pw_fl w) (Some n)
            (pw_fail w ++ check (negb (pw_shutret w)) "after_shutdown:exporter_called")
  | RPEv _ (RExpEnd _) =>
      let n := match pw_cur w with Some n => n | None => 0 end in
      mk_pw (pw_nrec w) (pw_shutret w) (pw_cancels w)
            (map (fun x => let '(t, (r0, c0, cov, fl)) := x in (t, (r0, c0, cov || Nat.leb r0 n, fl))) (pw_fl w)) None (pw_fail w)
  | RPEv t (RExpFlush _) =>
      mk_pw (pw_nrec w) (pw_shutret w) (pw_cancels w)
            (map (fun x => let '(t', (r0, c0, cov, fl)) := x in (t', (r0, c0, cov, fl || (Nat.eqb t t' && cov)))) (pw_fl w)) (pw_cur w) (pw_fail w)
  | RPEv t (RRetFlush true) =>
      let f := match pw_get t (pw_fl w) with
               | Some (r0, c0, cov, fl) =>
                   if cov && fl then []
                   else if Nat.ltb c0 (pw_cancels w) then fail "flush_true_complete:periodic_collect_timeout"
                   else if cov then fail "flush_true_complete:no_exporter_flush"
                   else fail "flush_true_complete:missing_periodic"
               | None => fail "flush_true_complete:no_call"
               end in
      mk_pw (pw_nrec w) (pw_shutret w) (pw_cancels w) (pw_del t (pw_fl w)) (pw_cur w) (pw_fail w ++ f)
  | RPEv t (RRetFlush false) => mk_pw (pw_nrec w) (pw_shutret w) (pw_cancels w) (pw_del t (pw_fl w)) (pw_cur w) (pw_fail w)
  | RPEv _ (RRetShut _) => mk_pw (pw_nrec w) true (pw_cancels w) (pw_fl w) (pw_cur w) (pw_fail w)
  | _ => w
  end.
Definition periodic_spec2 (tr : list tok) : list tok :=
  pw_fail (fold_left pw_step (rparse_trace tr) (mk_pw 0 false 0 [] None [])).
Definition periodic_spec3 (tr : list tok) : list tok := periodic_walk3 false (rparse_trace tr).

(* C02, Shutdown from several threads: the worker thread is joined at most once (a second join acts on a thread that is no
   longer joinable: std::system_error in a noexcept function, F31) *)
Fixpoint periodic_join_walk (joined : bool) (h : list rpev) : list tok :=
  match h with
  | [] => []
  | RPEv _ (RJoin 0) :: h' => check (negb joined) "shutdown:worker_joined_twice" ++ periodic_join_walk true h'
  | _ :: h' => periodic_join_walk joined h'
  end.
Definition periodic_spec_join (tr : list tok) : list tok := periodic_join_walk false (rparse_trace tr).
