(* PROOFS for Batch/Compose.v: for every provider kind, every set of scripted children and every sequence of
   provider-level calls, the model's observation satisfies the composition SPEC. *)
From V Require Import Batch.Compose.
From Coq Require Import Arith Lia List Bool.
Import ListNotations.

Lemma call_all_spec w : forall cs cnt i ev cnt',
  length cnt = length cs -> call_all w cs cnt i = (ev, cnt') ->
  children_of w ev = seq i (length cs) /\ length ev = length cs /\ length cnt' = length cs.
Proof.
  induction cs as [|c cs IH]; intros cnt i ev cnt' L H; destruct cnt as [|k cnt]; simpl in *; try discriminate.
  - inversion H; subst. auto.
  - destruct (call_all w cs cnt (S i)) as [ev1 cnt1] eqn:E. inversion H; subst; clear H.
    destruct (IH cnt (S i) ev1 cnt1 ltac:(lia) E) as (A & B & C).
    unfold children_of in *. simpl. destruct w; simpl; rewrite A; repeat split; simpl; auto; lia.
Qed.

Lemma nats_eqb_refl l : nats_eqb l l = true.
Proof. induction l; simpl; auto. rewrite Nat.eqb_refl; auto. Qed.

Definition wf_cst (cs : list child) (s : cst) : Prop := length (c_nf s) = length cs /\ length (c_nh s) = length cs.

Lemma step_spec k cs s o c s' sb :
  wf_cst cs s -> (k = KMetrics -> c_latch s = sb) -> step k cs s o = (c, s') ->
  spec_call k (length cs) sb c = [] /\ wf_cst cs s' /\
  (k = KMetrics -> c_latch s' = (sb || match p_kind c with PH => true | _ => false end)).
Proof.
  intros [W1 W2] HL H. unfold step in H. destruct o.
  - unfold do_flush in H. destruct (call_all WF cs (c_nf s) 0) as [ev nf] eqn:E. inversion H; subst; clear H.
    destruct (call_all_spec WF cs (c_nf s) 0 ev nf W1 E) as (A & B & C).
    unfold spec_call, wf_cst; simpl. rewrite Bool.eqb_reflx, A, nats_eqb_refl, B, Nat.eqb_refl. simpl.
    repeat split; auto. intros K. rewrite (HL K). rewrite orb_false_r. reflexivity.
  - destruct k.
    + unfold do_shut in H. destruct (call_all WH cs (c_nh s) 0) as [ev nh] eqn:E. inversion H; subst; clear H.
      destruct (call_all_spec WH cs (c_nh s) 0 ev nh W2 E) as (A & B & C).
      unfold spec_call, wf_cst; simpl. rewrite Bool.eqb_reflx, A, nats_eqb_refl, B, Nat.eqb_refl. simpl.
      repeat split; auto. discriminate.
    + unfold do_shut in H. destruct (call_all WH cs (c_nh s) 0) as [ev nh] eqn:E. inversion H; subst; clear H.
      destruct (call_all_spec WH cs (c_nh s) 0 ev nh W2 E) as (A & B & C).
      unfold spec_call, wf_cst; simpl. rewrite Bool.eqb_reflx, A, nats_eqb_refl, B, Nat.eqb_refl. simpl.
      repeat split; auto. discriminate.
    + specialize (HL eq_refl). destruct (c_latch s) eqn:La.
      * inversion H; subst; clear H. unfold spec_call, wf_cst; simpl. repeat split; auto.
      * unfold do_shut in H. destruct (call_all WH cs (c_nh s) 0) as [ev nh] eqn:E. inversion H; subst; clear H.
        destruct (call_all_spec WH cs (c_nh s) 0 ev nh W2 E) as (A & B & C).
        unfold spec_call, wf_cst; simpl. rewrite Bool.eqb_reflx, A, nats_eqb_refl, B, Nat.eqb_refl. simpl.
        repeat split; auto.
Qed.

Lemma destroy_spec k cs s sb : spec_call k (length cs) sb (destroy k cs s) = [].
Proof.
  unfold destroy. destruct k.
  - destruct (do_shut cs s) as [e1 s1]. destruct (do_shut cs s1) as [e2 s2]. reflexivity.
  - destruct (do_shut cs s) as [e1 s1]. destruct (do_flush cs s1) as [e2 s2]. destruct (do_shut cs s2) as [e3 s3]. reflexivity.
  - destruct (c_latch s); [reflexivity|]. destruct (do_shut cs s) as [e1 s1]. reflexivity.
Qed.

Lemma run_ops_spec k cs : forall ops s sb,
  wf_cst cs s -> (k = KMetrics -> c_latch s = sb) -> spec_calls k (length cs) sb (run_ops k cs s ops) = [].
Proof.
  induction ops as [|o ops IH]; intros s sb W HL; simpl.
  - rewrite destroy_spec. reflexivity.
  - destruct (step k cs s o) as [c s'] eqn:E. destruct (step_spec k cs s o c s' sb W HL E) as (A & W' & HL').
    simpl. rewrite A. simpl. apply IH; auto.
Qed.

(* every provider-level call: result = conjunction of the results of the child calls it made, every child called exactly
   once and in order, and a MeterProvider never shuts its readers down twice *)
Theorem compose_meets_spec k cs ops : spec_compose k (length cs) (model k cs ops) = [].
Proof.
  unfold spec_compose, model. apply run_ops_spec.
  - unfold wf_cst, init_cst; simpl. rewrite !repeat_length. auto.
  - reflexivity.
Qed.

(* the conjunction clause spelled out: a provider call that reports success made no failing child call *)
Theorem provider_true_implies_children_true k cs ops c r :
  In c (model k cs ops) -> p_result c = Some r -> r = all_true (p_children c).
Proof.
  unfold model. generalize (init_cst cs). induction ops as [|o ops IH]; intros s Hin Hr; simpl in Hin.
  - destruct Hin as [<-|[]]. unfold destroy in Hr.
    destruct k; repeat match goal with |- _ => progress simpl in Hr | H : context [let (_, _) := ?x in _] |- _ => destruct x end;
      try discriminate; destruct (c_latch s); simpl in Hr; try discriminate;
      repeat match goal with H : context [let (_, _) := ?x in _] |- _ => destruct x end; discriminate.
  - destruct (step k cs s o) as [c1 s1] eqn:E. destruct Hin as [<-|Hin]; [|eapply IH; eauto].
    unfold step in E. destruct o.
    + destruct (do_flush cs s). inversion E; subst. simpl in *. inversion Hr. reflexivity.
    + destruct k; try (destruct (do_shut cs s); inversion E; subst; simpl in *; inversion Hr; reflexivity).
      destruct (c_latch s); [inversion E; subst; simpl in *; inversion Hr; reflexivity|].
      destruct (do_shut cs s). inversion E; subst. simpl in *. inversion Hr. reflexivity.
Qed.

Example compose_example :
  print_calls (model KMetrics [mk_child 65535 65535; mk_child 65533 65534] [OFlush; OFlush; OShut; OShut]) =
  [tag "f"; tnat 0; tag "f"; tbool true; tnat 1; tag "f"; tbool true; tag "="; tbool true;
   tag "f"; tnat 0; tag "f"; tbool true; tnat 1; tag "f"; tbool false; tag "="; tbool false;
   tag "h"; tnat 0; tag "h"; tbool true; tnat 1; tag "h"; tbool false; tag "="; tbool false;
   tag "h"; tag "="; tbool true; tag "d"].
Proof. vm_compute. reflexivity. Qed.
