(* MODEL + SPEC of the provider-level composition of ForceFlush / Shutdown (C02):
   sdk::trace::TracerProvider -> TracerContext -> MultiSpanProcessor (multi_span_processor.h),
   sdk::logs::LoggerProvider -> LoggerContext -> MultiLogRecordProcessor (multi_log_record_processor.cc),
   sdk::metrics::MeterProvider -> MeterContext (meter_context.cc: shutdown latch) -> MetricCollector -> MetricReader.
   Children are scripted: the k-th ForceFlush / Shutdown call of child i returns bit (k mod 16) of its mask.
   Everything here is sequential; the concurrent part of C02 is Batch/Model.v. *)
From V Require Export Base.Tok.
From Coq Require Import Arith Lia.
Local Open Scope nat_scope.

Inductive ckind := KTrace | KLogs | KMetrics.
Inductive cop := OFlush | OShut.                 (* provider-level calls; the final destruction is implicit *)
Inductive which := WF | WH.                      (* child-level call: ForceFlush / Shutdown *)

Record child := mk_child { fmask : N; hmask : N }.
Definition bit (m : N) (k : nat) : bool := N.testbit m (N.of_nat (k mod 16)).

(* one provider-level call as observed: which call, the child calls it made (child, which, result), its result *)
Inductive pkind := PF | PH | PD.
Record pcall := mk_pcall { p_kind : pkind; p_children : list (nat * which * bool); p_result : option bool }.

Record cst := mk_cst { c_nf : list nat; c_nh : list nat; c_latch : bool }.

(* call every child once, in order *)
Fixpoint call_all (w : which) (cs : list child) (cnt : list nat) (i : nat) : list (nat * which * bool) * list nat :=
  match cs, cnt with
  | c :: cs', k :: cnt' =>
      let r := match w with WF => bit (fmask c) k | WH => bit (hmask c) k end in
      let (ev, cnt'') := call_all w cs' cnt' (S i) in
      ((i, w, r) :: ev, S k :: cnt'')
  | _, _ => ([], cnt)
  end.

Definition all_true (ev : list (nat * which * bool)) : bool := forallb (fun e => snd e) ev.

Definition do_flush (cs : list child) (s : cst) : list (nat * which * bool) * cst :=
  let (ev, nf) := call_all WF cs (c_nf s) 0 in (ev, mk_cst nf (c_nh s) (c_latch s)).
Definition do_shut (cs : list child) (s : cst) : list (nat * which * bool) * cst :=
  let (ev, nh) := call_all WH cs (c_nh s) 0 in (ev, mk_cst (c_nf s) nh (c_latch s)).

Definition step (k : ckind) (cs : list child) (s : cst) (o : cop) : pcall * cst :=
  match o with
  | OFlush => let (ev, s') := do_flush cs s in (mk_pcall PF ev (Some (all_true ev)), s')
  | OShut =>
      match k with
      | KMetrics =>
          if c_latch s then (mk_pcall PH [] (Some true), s)      (* "Shutdown can be invoked only once" *)
          else let (ev, s') := do_shut cs s in (mk_pcall PH ev (Some (all_true ev)), mk_cst (c_nf s') (c_nh s') true)
      | _ => let (ev, s') := do_shut cs s in (mk_pcall PH ev (Some (all_true ev)), s')
      end
  end.

(* destruction: ~TracerProvider shuts the context down, then ~MultiSpanProcessor does it again;
   ~LoggerProvider shuts down, then ~MultiLogRecordProcessor flushes and shuts down; ~MeterProvider shuts down (latched) *)
Definition destroy (k : ckind) (cs : list child) (s : cst) : pcall :=
  match k with
  | KTrace => let (e1, s1) := do_shut cs s in let (e2, _) := do_shut cs s1 in mk_pcall PD (e1 ++ e2) None
  | KLogs => let (e1, s1) := do_shut cs s in let (e2, s2) := do_flush cs s1 in let (e3, _) := do_shut cs s2 in
             mk_pcall PD (e1 ++ e2 ++ e3) None
  | KMetrics => if c_latch s then mk_pcall PD [] None else let (e1, _) := do_shut cs s in mk_pcall PD e1 None
  end.

Fixpoint run_ops (k : ckind) (cs : list child) (s : cst) (ops : list cop) : list pcall :=
  match ops with
  | [] => [destroy k cs s]
  | o :: ops' => let (c, s') := step k cs s o in c :: run_ops k cs s' ops'
  end.

Definition init_cst (cs : list child) : cst := mk_cst (repeat 0 (length cs)) (repeat 0 (length cs)) false.
Definition model (k : ckind) (cs : list child) (ops : list cop) : list pcall := run_ops k cs (init_cst cs) ops.

(* ------------------------------------------------------------------ SPEC (on the observed calls) *)
(* a provider-level ForceFlush/Shutdown reports success only if every child call it made succeeded, and it calls every
   child exactly once, in order - except a MeterProvider Shutdown after the first one, which calls nobody *)
Definition children_of (w : which) (ev : list (nat * which * bool)) : list nat :=
  map (fun e => fst (fst e)) (filter (fun e => match snd (fst e), w with WF, WF => true | WH, WH => true | _, _ => false end) ev).
Fixpoint nats_eqb (a b : list nat) : bool :=
  match a, b with
  | [], [] => true
  | x :: a', y :: b' => Nat.eqb x y && nats_eqb a' b'
  | _, _ => false
  end.

Definition spec_call (k : ckind) (n : nat) (shut_before : bool) (c : pcall) : list tok :=
  match p_kind c, p_result c with
  | PF, Some r =>
      check (Bool.eqb r (all_true (p_children c))) "compose:true_with_failed_child" ++
      check (nats_eqb (children_of WF (p_children c)) (seq 0 n) && Nat.eqb (length (p_children c)) n) "compose:child_skipped"
  | PH, Some r =>
      check (Bool.eqb r (all_true (p_children c))) "compose:true_with_failed_child" ++
      (match k, shut_before with
       | KMetrics, true => check (Nat.eqb (length (p_children c)) 0) "compose:reader_shutdown_twice"
       | _, _ => check (nats_eqb (children_of WH (p_children c)) (seq 0 n) && Nat.eqb (length (p_children c)) n) "compose:child_skipped"
       end)
  | PD, None => []
  | _, _ => fail "compose:malformed"
  end.

Fixpoint spec_calls (k : ckind) (n : nat) (shut_before : bool) (l : list pcall) : list tok :=
  match l with
  | [] => []
  | c :: l' => spec_call k n shut_before c ++
               spec_calls k n (shut_before || match p_kind c with PH => true | _ => false end) l'
  end.
Definition spec_compose (k : ckind) (n : nat) (l : list pcall) : list tok := spec_calls k n false l.

(* ------------------------------------------------------------------ wire format *)
Definition print_which (w : which) : tok := match w with WF => tag "f" | WH => tag "h" end.
Definition print_call (c : pcall) : list tok :=
  [match p_kind c with PF => tag "f" | PH => tag "h" | PD => tag "d" end] ++
  flat_map (fun e => [tnat (fst (fst e)); print_which (snd (fst e)); tbool (snd e)]) (p_children c) ++
  match p_result c with Some r => [tag "="; tbool r] | None => [] end.
Definition print_calls (l : list pcall) : list tok := flat_map print_call l.

(* parser of the same format: a call starts at a tag f/h/d that is not preceded by a child index *)
Fixpoint parse_children (l : list tok) (fuel : nat) : list (nat * which * bool) * list tok :=
  match fuel with
  | O => ([], l)
  | S fuel' =>
      match l with
      | TZ i :: w :: TZ r :: l' =>
          if is_tag "f" w then let (ev, rest) := parse_children l' fuel' in ((Z.to_nat i, WF, negb (Z.eqb r 0)) :: ev, rest)
          else if is_tag "h" w then let (ev, rest) := parse_children l' fuel' in ((Z.to_nat i, WH, negb (Z.eqb r 0)) :: ev, rest)
          else ([], l)
      | _ => ([], l)
      end
  end.
Fixpoint parse_calls (l : list tok) (fuel : nat) : option (list pcall) :=
  match fuel with
  | O => None
  | S fuel' =>
      match l with
      | [] => Some []
      | t :: l1 =>
          let k := if is_tag "f" t then Some PF else if is_tag "h" t then Some PH else if is_tag "d" t then Some PD else None in
          match k with
          | None => None
          | Some pk =>
              let (ev, l2) := parse_children l1 (length l1) in
              match l2 with
              | e :: TZ r :: l3 =>
                  if is_tag "=" e
                  then match parse_calls l3 fuel' with Some cs => Some (mk_pcall pk ev (Some (negb (Z.eqb r 0))) :: cs) | None => None end
                  else match parse_calls l2 fuel' with Some cs => Some (mk_pcall pk ev None :: cs) | None => None end
              | _ => match parse_calls l2 fuel' with Some cs => Some (mk_pcall pk ev None :: cs) | None => None end
              end
          end
      end
  end.

(* case:  COMPOSE <trace|logs|metrics> | c fm hm | .. | o f h ft ht ..
   ft / ht = the same call with a finite timeout that the FIRST child call already exceeds (the children are slow during such a
   call): the providers spread the caller's timeout over the children, and a used-up budget must not skip the remaining ones *)
Record ccase := mk_ccase { cc_kind : ckind; cc_children : list child; cc_ops : list cop }.
Definition parse_kind (t : tok) : option ckind :=
  if is_tag "trace" t then Some KTrace else if is_tag "logs" t then Some KLogs else if is_tag "metrics" t then Some KMetrics else None.
Fixpoint parse_secs (secs : list (list tok)) (cs : list child) (ops : list cop) : option (list child * list cop) :=
  match secs with
  | [] => Some (cs, ops)
  | (t :: TZ a :: TZ b :: []) :: secs' =>
      if is_tag "c" t then parse_secs secs' (cs ++ [mk_child (Z.to_N a) (Z.to_N b)]) ops else None
  | (t :: rest) :: secs' =>
      if is_tag "o" t
      then parse_secs secs' cs (ops ++ flat_map (fun x => if is_tag "f" x || is_tag "ft" x then [OFlush] else if is_tag "h" x || is_tag "ht" x then [OShut] else []) rest)
      else None
  | [] :: secs' => parse_secs secs' cs ops
  end.
Definition parse_ccase (l : list tok) : option ccase :=
  match split_toks "|" l with
  | (t0 :: tk :: _) :: secs =>
      if is_tag "COMPOSE" t0
      then match parse_kind tk, parse_secs secs [] [] with
           | Some k, Some (cs, ops) => Some (mk_ccase k cs ops)
           | _, _ => None
           end
      else None
  | _ => None
  end.

Definition compose_model (c : ccase) : list tok := print_calls (model (cc_kind c) (cc_children c) (cc_ops c)).
Definition compose_spec (c : ccase) (obs : list tok) : list tok :=
  match parse_calls obs (S (length obs)) with
  | Some calls => spec_compose (cc_kind c) (length (cc_children c)) calls
  | None => fail "obs:unparsable"
  end.
Definition compose_tag (c : ccase) : list tok :=
  [tag (match cc_kind c with KTrace => "compose_trace" | KLogs => "compose_logs" | KMetrics => "compose_metrics" end)].
