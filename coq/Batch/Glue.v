(* Token-level glue for the batch-processor acceptor: parsing of cases and event traces, the summary
   the model derives from an accepted trace, branch tags.  Extracted (through C01/C02/C03). *)
From V Require Export Batch.Model.
Local Open Scope Z_scope.

(* an event of the raw trace: modelled, known-and-ignored (may block: lock/wait/join/wake), or unknown *)
Inductive pev :=
| PEv (t : nat) (e : ev)
| PBlock (t : nat)          (* lock/unlock/wait/wake of cv_m, ff_m or a condition variable *)
| PSkip (t : nat)           (* wake-up flag, time-out value, notify, yield, spawn *)
| PBad.

Definition isnil {A} (l : list A) : bool := match l with [] => true | _ => false end.
Definition zn (z : Z) : nat := Z.to_nat z.
Definition zb (z : Z) : bool := negb (Z.eqb z 0).
Definition ztid (z : Z) : option nat := if z <? 0 then None else Some (Z.to_nat z).

Fixpoint all_ints (l : list tok) : option (list nat) :=
  match l with
  | [] => Some []
  | TZ z :: l' => match all_ints l' with Some r => Some (zn z :: r) | None => None end
  | _ => None
  end.

Definition parse_body (t : nat) (l : list tok) : pev :=
  match l with
  | [op; what] =>
      if is_tag "call" op && is_tag "flush" what then PEv t ECallFlush
      else if is_tag "call" op && is_tag "shutdown" what then PEv t ECallShutdown
      else if is_tag "call" op && is_tag "destroy" what then PEv t ECallDestroy
      else if is_tag "ret" op && is_tag "destroy" what then PEv t ERetDestroy
      else if is_tag "lock" op && is_tag "shutdown_m" what then PEv t ELockShut
      else if is_tag "unlock" op && is_tag "shutdown_m" what then PEv t EUnlockShut
      else if (is_tag "lock" op || is_tag "unlock" op) && (is_tag "cv_m" what || is_tag "ff_m" what) then PBlock t
      else if is_tag "notify" op then PSkip t
      else if is_tag "join" op then match what with TZ w => PEv t (EJoin (zn w)) | _ => PBad end
      else if is_tag "spawn" op then PSkip t
      else if is_tag "expend" op then match what with TZ r => PEv t (EExpEnd (zb r)) | _ => PBad end
      else if is_tag "expflush" op then match what with TZ r => PEv t (EExpFlush (zb r)) | _ => PBad end
      else if is_tag "expshutdown" op then match what with TZ r => PEv t (EExpShutdown (zb r)) | _ => PBad end
      else if is_tag "expbegin" op then match what with TZ i => PEv t (EExpBegin [zn i]) | _ => PBad end
      else PBad
  | [op] =>
      if is_tag "yield" op || is_tag "sleep" op then PSkip t
      else if is_tag "expbegin" op then PEv t (EExpBegin [])
      else PBad
  | op :: what :: rest =>
      if is_tag "expbegin" op then match all_ints (what :: rest) with Some ids => PEv t (EExpBegin ids) | None => PBad end
      else if is_tag "wake" op || is_tag "wait" op then PBlock t
      else
      match rest with
      | [TZ a] =>
          if is_tag "call" op && is_tag "onend" what then PEv t (ECallOnEnd (zn a))
          else if is_tag "ret" op && is_tag "onend" what then PEv t (ERetOnEnd (zn a))
          else if is_tag "ret" op && is_tag "flush" what then PEv t (ERetFlush (zb a))
          else if is_tag "ret" op && is_tag "shutdown" what then PEv t (ERetShutdown (zb a))
          else if is_tag "ld" op && is_tag "is_shutdown" what then PEv t (ELdShut (zb a))
          else if is_tag "ld" op && is_tag "pending" what then PEv t (ELdPending (zn a))
          else if is_tag "ld" op && is_tag "notified" what then PEv t (ELdNotified (zn a))
          else if (is_tag "ld" op || is_tag "st" op) && (is_tag "wake" what || is_tag "timeout_us" what) then PSkip t
          else if is_tag "buf" op && is_tag "size" what then PEv t (EBufSize (zn a))
          else if is_tag "buf" op && is_tag "empty" what then PEv t (EBufEmpty (zb a))
          else if is_tag "buf" op && is_tag "consume" what then PEv t (EBufConsume (zn a))
          else PBad
      | [TZ a; TZ b] =>
          if is_tag "xchg" op && is_tag "is_shutdown" what && Z.eqb a 1 then PEv t (EXchgShut (zb b))
          else if is_tag "fadd" op && is_tag "pending" what && Z.eqb a 1 then PEv t (EFaddPending (zn b))
          else if is_tag "buf" op && is_tag "add" what then PEv t (EBufAdd (zn a) (zb b))
          else if is_tag "xchg" op && is_tag "wake" what then PSkip t
          else PBad
      | [TZ a; TZ b; TZ c; TZ d] =>
          if is_tag "cass" op && is_tag "notified" what then PEv t (ECasNotified (zn a) (zn b) (zn c) (zb d))
          else PBad
      | _ => PBad
      end
  | [] => PBad
  end.

Definition parse_event (l : list tok) : pev :=
  match l with
  | TZ z :: body =>
      (* the controller thread (-1) only appears for "spawn 0" while the processor is constructed *)
      if z <? 0 then (match body with [op; TZ _] => if is_tag "spawn" op then PSkip 0 else PBad | _ => PBad end)
      else parse_body (zn z) body
  | _ => PBad
  end.

Definition parse_trace (l : list tok) : list pev :=
  match l with
  | [] => []
  | _ => map parse_event (split_toks ";" l)
  end.

(* what goes to the acceptor.  Blocking events are accepted only where the code may block:
   the worker, ForceFlush and Shutdown - never inside OnEnd/OnEmit ("producers never wait") *)
Definition may_block (a : apc) : bool :=
  match a with
  | AOnEnd _ | AOnEndChecked _ | AOnEndAdded _ | AOnEndOut _ => false
  | _ => true
  end.

Inductive verdict := VOk (s : st) | VRej (i : nat) (why : string).

Fixpoint replay (s : st) (tr : list pev) (i : nat) : verdict :=
  match tr with
  | [] => VOk s
  | PBad :: _ => VRej i "unknown_event"
  | PSkip _ :: tr' => replay s tr' (S i)
  | PBlock t :: tr' =>
      if Nat.eqb t 0 || may_block (ap s t) then replay s tr' (S i) else VRej i "producer_blocks"
  | PEv t e :: tr' =>
      match accept s (t, e) with
      | Some s' => replay s' tr' (S i)
      | None => VRej i "not_accepted"
      end
  end.

Record bcase := mk_case { c_q : nat; c_b : nat; c_trace : list pev; c_raw : list tok }.

Definition parse_case (l : list tok) : option bcase :=
  match split_toks "||" l with
  | [cs; tr] =>
      match cs with
      | t0 :: _ :: TZ q :: TZ b :: _ =>
          if is_tag "BATCH" t0 then Some (mk_case (zn q) (zn b) (parse_trace tr) tr) else None
      | _ => None
      end
  | _ => None
  end.

Definition tnats (l : list nat) : list tok := map tnat l.

Definition summary (s : st) : list tok :=
  [tag "X"] ++ tnats (concat (exported s) ++ match inflight s with Some b => b | None => [] end) ++
  [tag "B"] ++ tnats (map (@length nat) (exported s) ++ match inflight s with Some b => [length b] | None => [] end) ++
  [tag "F"] ++ map (fun x => tbool (snd x)) (fl_done s) ++
  [tag "H"] ++ map (fun x => tbool (snd x)) (sh_done s) ++
  [tag "S"; tnat (expshut s)].

Definition batch_run_model (l : list tok) : list tok :=
  match parse_case l with
  | None => bad_case
  | Some c =>
      match replay (init (c_q c) (c_b c)) (c_trace c) 0 with
      | VOk s => summary s
      | VRej i why => [tag "REJECT"; tnat i; tag why]
      end
  end.

(* coverage: which features of the protocol this trace exercised *)
Definition has_flush (r : bool) (s : st) : bool := existsb (fun x => Bool.eqb (snd x) r && negb (Nat.eqb (snd (fst x)) 0)) (fl_done s).
Definition batch_run_tag (l : list tok) : list tok :=
  match parse_case l with
  | None => bad_case
  | Some c =>
      match replay (init (c_q c) (c_b c)) (c_trace c) 0 with
      | VRej _ _ => [tag "rejected"]
      | VOk s =>
          [TT (bs "t" ++
               (if negb (isnil (dropped s)) then bs "_drop" else []) ++
               (if negb (isnil (discarded s)) then bs "_late" else []) ++
               (if has_flush true s then bs "_flushok" else []) ++
               (if has_flush false s then bs "_flushto" else []) ++
               (if existsb (fun b => Nat.ltb 1 (length b)) (exported s) then bs "_multi" else []) ++
               (if Nat.ltb (nexported s) (length (enq s)) then bs "_stuck" else []) ++
               (if Nat.ltb 1 (length (sh_done s)) then bs "_shut2" else []))]
      end
  end.
