(* MODEL |= SPEC for the batch processors, continued (Batch/TraceSpec.v has spec_c03 and the C01 drop checker):
   every event trace the acceptor (Batch/Model.v) accepts from [init q b] passes the remaining history checkers of
   Batch/Spec.v that ./check runs on the implementation's traces.

   C01  accepted_trace_meets_spec_c01_exactly_once   c01_exactly_once (pevs tr) = []   (given nodup of the added ids: the
                                                      harness hands out distinct ids; the model does not constrain them)
        accepted_trace_exported_prefix               is_prefix / subset / nodup of exported_ids w.r.t. added_ids
        accepted_trace_meets_spec_c01_budget         c01_no_drop_between_flushes q (pevs tr) = []
   C02  accepted_trace_meets_spec_c02                spec_c02 (pevs tr) = []  for traces without ECallDestroy/ERetDestroy
        accepted_trace_meets_spec_c02_noret          ... it is enough that no destructor RETURNS in the trace
        accepted_trace_meets_spec_c02_dtor           ... or that destructor calls overlap no Shutdown call and no other
                                                      destructor call ([dtor_exclusive], a check on the trace alone)
        accepted_trace_simulates_c02                 the checker's walker state describes the model state (relation R)

   Why the restriction for C02: the model lets a destructor that finds is_shutdown already set return while another
   thread's Shutdown is still in progress (destroying an object another thread is using: application misuse); the
   checker's shutdown_ok at ERetDestroy then fails although the processor did nothing wrong.  [dtor_overlap_refutes]
   is such an accepted trace, so some side condition is necessary.

   Proof of C02: a simulation relation R between the checker's walker state w2 and the model state, preserved by
   c02_step / accept: RA (the data: added = enq, done = concat exported, fly, expshut, latch), RB (every thread waiting in
   ForceFlush with ticket k has the walker entry (firstn (mark k) enq, b), and b is set once k <= wflushed, i.e. once the
   worker has called exporter->ForceFlush for a ticket >= k), RC (after a returned Shutdown the processor is final; late
   ForceFlush callers are on the failing path), and w_fail = [].  Proof of the budget: walker att = |enq| + |dropped|, a
   waiting flusher's recorded value is <= mark k + |dropped|, done <= flushed + |dropped|. *)
From Coq Require Import Lia List Arith Bool.
From V Require Import Batch.Model Batch.Glue Batch.Spec Batch.ProofsA Batch.ProofsB Batch.Theorems Batch.TraceSpec.
Import ListNotations.

Lemma mem_In x l : mem x l = true <-> In x l.
Proof.
  induction l as [|y l IH]; simpl; [split; [discriminate|tauto]|].
  rewrite orb_true_iff, Nat.eqb_eq, IH. split; intros [H|H]; auto.
Qed.

Lemma subset_spec a b : subset a b = true <-> (forall x, In x a -> In x b).
Proof. unfold subset. rewrite forallb_forall. split; intros H x Hx; apply mem_In; auto. Qed.

Lemma nodup_spec l : nodup l = true <-> NoDup l.
Proof.
  induction l as [|x l IH]; simpl.
  - split; [constructor | reflexivity].
  - rewrite andb_true_iff, negb_true_iff, IH. split.
    + intros [H1 H2]. constructor; auto. intros Hin. apply mem_In in Hin. congruence.
    + intros H. inversion H; subst. split; auto. destruct (mem x l) eqn:M; auto. apply mem_In in M. contradiction.
Qed.

Lemma is_prefix_firstn n : forall l, is_prefix (firstn n l) l = true.
Proof. induction n as [|n IH]; intros [|x l]; simpl; auto. rewrite Nat.eqb_refl. simpl. apply IH. Qed.

Lemma subset_firstn n l : subset (firstn n l) l = true.
Proof. apply subset_spec. intros x. apply In_firstn. Qed.

Lemma check_true b m : b = true -> check b m = [].
Proof. intros ->. reflexivity. Qed.

(* ================================================================ C01: exactly once, in queue order *)
Definition begun (s : st) : list nat :=
  concat (exported s) ++ match inflight s with Some b => b | None => [] end.

Lemma exported_ids_cons x h : exported_ids (x :: h) = exported_ids [x] ++ exported_ids h.
Proof. destruct x as [t e|t|t|]; try reflexivity. destruct e; simpl; rewrite ?app_nil_r; reflexivity. Qed.

Lemma added_ids_cons x h : added_ids (x :: h) = added_ids [x] ++ added_ids h.
Proof. destruct x as [t e|t|t|]; try reflexivity. destruct e; try reflexivity. destruct ok; reflexivity. Qed.

Lemma proj_step s t e s' : InvA s -> accept s (t, e) = Some s' ->
  begun s' = begun s ++ exported_ids [PEv t e] /\ enq s' = enq s ++ added_ids [PEv t e].
Proof.
  intros IA H. pose proof (a_inflight s IA) as I. unfold begun.
  destruct t as [|t]; unfold accept in H; simpl in H.
  - unfold accept_worker in H.
    destruct (wp s) eqn:Wp; destruct e; try discriminate H;
      repeat match goal with o : option nat |- _ => destruct o end; simpl in H;
      repeat break_if; try discriminate H; inv_some; simpl; rewrite ?I, ?app_nil_r; auto.
    all: try (apply list_eqb_eq in E; subst; auto).
    all: rewrite concat_app; simpl; rewrite !app_nil_r; auto.
  - unfold accept_app, with_ap in H.
    destruct (ap s (S t)) eqn:A; destruct e; try discriminate H;
      repeat match goal with o : option nat |- _ => destruct o end; simpl in H;
      repeat break_if; try discriminate H;
      repeat match goal with
             | H : match ?x with _ => _ end = Some _ |- _ => destruct x eqn:?; try discriminate H
             end; inv_some; bools; subst; simpl; rewrite ?app_nil_r; auto.
Qed.

Lemma proj_run : forall tr s s', Inv s -> run s tr = Some s' ->
  begun s' = begun s ++ exported_ids (pevs tr) /\ enq s' = enq s ++ added_ids (pevs tr).
Proof.
  induction tr as [|[t e] tr IH]; intros s s' I H; simpl in H.
  - inversion H; subst. simpl. rewrite !app_nil_r. auto.
  - destruct (accept s (t, e)) as [s1|] eqn:A; [|discriminate].
    destruct (proj_step s t e s1 (proj1 I) A) as [P1 P2].
    destruct (IH s1 s' (accept_preserves _ _ _ I A) H) as [Q1 Q2].
    change (pevs ((t, e) :: tr)) with (PEv t e :: pevs tr).
    rewrite exported_ids_cons, added_ids_cons, !app_assoc, <- P1, <- P2. auto.
Qed.

Lemma begun_prefix s : InvA s -> exists n, begun s = firstn n (enq s).
Proof.
  intros IA. pose proof (a_prefix s IA) as P. pose proof (a_inflight s IA) as I. unfold begun, pb in *.
  assert (G : exists n, concat (exported s) ++ [] = firstn n (enq s)).
  { exists (nexported s). rewrite app_nil_r. unfold nexported.
    rewrite (firstn_of_prefix _ _ _ _ _ P (le_n _)). symmetry. apply firstn_all. }
  destruct (wp s); rewrite I; auto. exists (deq s). auto.
Qed.

(* what the history projections are, in terms of the final state *)
Theorem accepted_trace_projections q b tr s : run (init q b) tr = Some s ->
  exported_ids (pevs tr) = begun s /\ added_ids (pevs tr) = enq s.
Proof. intros H. destruct (proj_run tr _ _ (Inv_init q b) H) as [P1 P2]. simpl in *. auto. Qed.

Theorem accepted_trace_exported_prefix q b tr s : run (init q b) tr = Some s ->
  is_prefix (exported_ids (pevs tr)) (added_ids (pevs tr)) = true /\
  subset (exported_ids (pevs tr)) (added_ids (pevs tr)) = true /\
  (nodup (added_ids (pevs tr)) = true -> nodup (exported_ids (pevs tr)) = true).
Proof.
  intros H. destruct (accepted_trace_projections q b tr s H) as [-> ->].
  destruct (begun_prefix s (proj1 (run_preserves tr _ _ (Inv_init q b) H))) as [n ->].
  repeat split; [apply is_prefix_firstn | apply subset_firstn |].
  intros N. apply nodup_spec. apply NoDup_firstn. apply nodup_spec. exact N.
Qed.

Theorem accepted_trace_meets_spec_c01_exactly_once q b tr s :
  run (init q b) tr = Some s -> nodup (added_ids (pevs tr)) = true -> c01_exactly_once (pevs tr) = [].
Proof.
  intros H N. destruct (accepted_trace_exported_prefix q b tr s H) as (P & S & D).
  unfold c01_exactly_once. rewrite (D N), S, P. reflexivity.
Qed.

(* ================================================================ C02 *)
Local Arguments Nat.sub : simpl never.

Definition is_destroy (e : ev) : bool := match e with ECallDestroy | ERetDestroy => true | _ => false end.
Definition no_destroy (tr : list (nat * ev)) : Prop := forallb (fun te => negb (is_destroy (snd te))) tr = true.
Definition w2_init : w2 := mk_w2 [] [] [] [] None 0 false [] [] [].

(* sanity of the statement: the demo trace is destructor free and passes; a history in which ForceFlush returns true
   before the export happened does not pass (and is not accepted) *)
Example demo_no_destroy : no_destroy demo_trace.
Proof. vm_compute. reflexivity. Qed.
Example demo_passes_spec_c02 : spec_c02 (pevs demo_trace) = [].
Proof. vm_compute. reflexivity. Qed.
Definition early_true_trace : list (nat * ev) :=
  [(1, ECallOnEnd 11); (1, ELdShut false); (1, EBufAdd 11 true); (1, EBufSize 1); (1, ERetOnEnd 11);
   (2, ECallFlush); (2, ELdShut false); (2, EFaddPending 0); (2, ELdNotified 1); (2, ERetFlush true)].
Example early_true_fails_spec_c02 : spec_c02 (pevs early_true_trace) <> [] /\ run (init 1 1) early_true_trace = None.
Proof. split; [vm_compute; discriminate | vm_compute; reflexivity]. Qed.

Lemma run_app a : forall s b, run s (a ++ b) = match run s a with Some s1 => run s1 b | None => None end.
Proof. induction a as [|te a IH]; simpl; intros s b; auto. destruct (accept s te); auto. Qed.

Lemma reachable_step q b s te s' : reachable q b s -> accept s te = Some s' -> reachable q b s'.
Proof. intros [tr H] A. exists (tr ++ [te]). rewrite run_app, H. simpl. rewrite A. reflexivity. Qed.

Lemma exp_call_expshut0 q b s t e s' :
  reachable q b s -> accept s (t, e) = Some s' -> exporter_call e = true -> expshut s = 0.
Proof.
  intros R H X. pose proof (exporter_shutdown_at_most_once q b s R) as L.
  destruct (Nat.eq_dec (expshut s) 1) as [E|E]; [|lia].
  rewrite (no_exporter_call_after_shutdown q b s t e R E X) in H. discriminate.
Qed.

Ltac wcases H W e :=
  unfold accept_worker in H;
  match type of H with context [wp ?s] => destruct (wp s) eqn:W end;
  destruct e; try discriminate H;
  repeat match goal with o : option nat |- _ => destruct o end; simpl in H;
  repeat break_if; try discriminate H; inv_some; bools.

Ltac acases H A e :=
  unfold accept_app, with_ap in H;
  match type of H with context [ap ?s ?t] => destruct (ap s t) eqn:A end;
  destruct e; try discriminate H;
  repeat match goal with o : option nat |- _ => destruct o end; simpl in H;
  repeat break_if; try discriminate H;
  repeat match goal with
         | H : match ?x with _ => _ end = Some _ |- _ => destruct x eqn:?; try discriminate H
         end; inv_some; bools.

Lemma ap_frame s t e s' : accept s (t, e) = Some s' -> forall t0, t0 <> t \/ t = 0 -> ap s' t0 = ap s t0.
Proof.
  intros H. destruct t as [|t]; unfold accept in H; simpl in H.
  - wcases H W e; intros t0 _; reflexivity.
  - acases H A e; intros t0 [N|N]; try discriminate N; simpl; try (apply upd_other; exact N); reflexivity.
Qed.

Lemma shut_mono s te s' : accept s te = Some s' -> (joined s = true -> joined s' = true) /\ expshut s <= expshut s'.
Proof.
  intros H. destruct te as [[|t] e]; unfold accept in H; simpl in H.
  - wcases H W e; simpl; split; auto.
  - acases H A e; simpl; split; auto.
Qed.

(* ---------------------------------------------------------------- the simulation relation, part A: data *)
Record RA (w : w2) (s : st) : Prop := {
  ra_added : w_added w = enq s;
  ra_done : w_done w = concat (exported s);
  ra_fly : forall b, inflight s = Some b -> w_fly w = b;
  ra_expshut : w_expshut w = expshut s;
  ra_latch : w_latch w = option_map (fun l => firstn l (enq s)) (latch s)
}.

Lemma RA_step w s t e s' : InvA s -> RA w s -> accept s (t, e) = Some s' -> RA (c02_step w (PEv t e)) s'.
Proof.
  intros IA [Ha Hd Hf He Hl] H. pose proof (a_inflight s IA) as I. destruct (a_latch s IA) as [[L0 L1] L2].
  destruct t as [|t]; unfold accept in H; simpl in H.
  - wcases H W e.
    all: constructor; unfold c02_step, w2_fail; simpl; auto.
    all: try (intros b0 Hb0; inversion Hb0; subst; apply list_eqb_eq; assumption).
    all: try (intros b0 Hb0; discriminate Hb0).
    all: rewrite concat_app; simpl; rewrite app_nil_r, Hd, (Hf _ I); reflexivity.
  - acases H A e.
    all: unfold c02_step, w2_fail.
    all: try match goal with |- context [if w_shutret ?w then _ else _] => destruct (w_shutret w) eqn:SR end.
    all: repeat match goal with r : bool |- _ => destruct r end.
    all: constructor; simpl; auto; try congruence.
    all: try match goal with |- _ = option_map _ _ => rewrite ?Hl; destruct (latch s) as [l|] eqn:La; simpl; rewrite ?Ha end.
    all: try (rewrite firstn_app_le by (apply L2; reflexivity); reflexivity).
    all: try reflexivity.
    all: try (rewrite firstn_all; reflexivity).
    all: exfalso; symmetry in E; exact (L0 E eq_refl).
Qed.

(* ---------------------------------------------------------------- walker-only facts *)
Definition RL (w : w2) : Prop := w_shutret w = false -> w_late w = [] /\ w_lateflush w = [].

Lemma RL_step w e : RL w -> RL (c02_step w e).
Proof.
  intros H. destruct e as [t e|t|t|]; try exact H. unfold RL in *.
  destruct e; try exact H; unfold c02_step, w2_fail;
    repeat match goal with r : bool |- _ => destruct r end; try exact H; simpl; try (intros X; discriminate X).
  all: try (destruct (w_shutret w) eqn:SR; simpl; [intros X; congruence | intros _; apply H; first [exact SR | reflexivity]]).
  all: intros X; destruct (H X) as [A B]; rewrite ?A, ?B; auto.
Qed.

Lemma c02_shutret w t e :
  w_shutret (c02_step w (PEv t e)) = match e with ERetShutdown _ | ERetDestroy => true | _ => w_shutret w end.
Proof.
  destruct e; unfold c02_step, w2_fail; repeat match goal with r : bool |- _ => destruct r end; simpl; try reflexivity.
  all: destruct (w_shutret w) eqn:SR; simpl; rewrite ?SR; reflexivity.
Qed.

Lemma In_filter_neq t0 t l : In t0 (filter (fun x => negb (Nat.eqb x t)) l) <-> In t0 l /\ t0 <> t.
Proof.
  rewrite filter_In, negb_true_iff, Nat.eqb_neq. tauto.
Qed.

Lemma c02_lateflush_in w t e t0 : In t0 (w_lateflush (c02_step w (PEv t e))) ->
  (In t0 (w_lateflush w) /\ (t0 = t -> forall r, e <> ERetFlush r)) \/ (t0 = t /\ e = ECallFlush /\ w_shutret w = true).
Proof.
  destruct e; unfold c02_step, w2_fail; repeat match goal with r : bool |- _ => destruct r end; simpl;
    try (intros H; left; split; [exact H | intros _ r0; discriminate]).
  - destruct (w_shutret w); intros H; left; (split; [exact H | intros _ r0; discriminate]).
  - destruct (w_shutret w) eqn:SR; simpl; [|intros H; left; split; [exact H | intros _ r0; discriminate]].
    intros [H|H]; [right; auto | left; split; [exact H | intros _ r0; discriminate]].
  - intros H. apply In_filter_neq in H. destruct H as [H N]. left; split; [exact H | intros X; contradiction].
  - intros H. apply In_filter_neq in H. destruct H as [H N]. left; split; [exact H | intros X; contradiction].
Qed.

Lemma fl_get_del_other t t' l : t' <> t -> fl_get t' (fl_del t l) = fl_get t' l.
Proof.
  intros N. induction l as [|[u v] l IH]; simpl; auto.
  destruct (Nat.eqb_spec u t) as [->|M]; simpl.
  - destruct (Nat.eqb_spec t' t); [contradiction | exact IH].
  - rewrite IH. reflexivity.
Qed.

Lemma fl_get_map_flush t dn l :
  fl_get t (map (fun x : nat * (list nat * bool) => let '(t, (a, b)) := x in (t, (a, b || subset a dn))) l) =
  option_map (fun ab => (fst ab, snd ab || subset (fst ab) dn)) (fl_get t l).
Proof. induction l as [|[u [a b]] l IH]; simpl; auto. destruct (Nat.eqb t u); auto. Qed.

Lemma c02_fl_other w t e t0 : t0 <> t -> (forall r, e <> EExpFlush r) ->
  fl_get t0 (w_fl (c02_step w (PEv t e))) = fl_get t0 (w_fl w).
Proof.
  intros N NF. destruct e; unfold c02_step, w2_fail; repeat match goal with r : bool |- _ => destruct r end; simpl; try reflexivity.
  all: try (exfalso; eapply NF; reflexivity).
  all: try (destruct (w_shutret w); reflexivity).
  all: try (apply fl_get_del_other; exact N).
  apply Nat.eqb_neq in N. rewrite N. apply Nat.eqb_neq in N. apply fl_get_del_other; exact N.
Qed.

(* ---------------------------------------------------------------- part B: flush tickets *)
(* tickets up to [wflushed s] have seen an exporter ForceFlush after their records were exported: those the worker
   has published, and the ticket it is about to publish once exporter->ForceFlush has returned *)
Definition wflushed (s : st) : nat :=
  match wp s with
  | WLd2 _ k _ | WCas _ k _ _ => Nat.max k (notified s)
  | _ => notified s
  end.

Definition RB (w : w2) (s : st) : Prop :=
  forall t k last, ap s t = AFlushWait k last ->
    exists b, fl_get t (w_fl w) = Some (firstn (mark s k) (enq s), b) /\ (k <= wflushed s -> b = true).

Lemma notified_le_wflushed s : notified s <= wflushed s.
Proof. unfold wflushed. destruct (wp s); lia. Qed.

Lemma wflushed_le_pending s : InvA s -> wflushed s <= pending s.
Proof.
  intros IA. pose proof (a_wp s IA) as Iwp. pose proof (a_notified s IA) as N. unfold wp_inv, covers in Iwp. unfold wflushed.
  destruct (wp s); lia.
Qed.

Lemma wflushed_worker s e s' : InvA s -> accept_worker s e = Some s' ->
  match e with EExpFlush _ => True | _ => wflushed s' = wflushed s end.
Proof.
  intros IA H. pose proof (a_wp s IA) as Iwp. unfold wp_inv in Iwp.
  wcases H W e; auto.
  all: unfold wflushed, after_notify, set_wp; simpl; rewrite ?W.
  all: repeat match goal with r : bool |- _ => destruct r end; simpl; try reflexivity; try lia.
  all: bools; try lia.
Qed.

Lemma subset_prefix s m : InvA s -> m <= nexported s -> subset (firstn m (enq s)) (concat (exported s)) = true.
Proof.
  intros IA L. rewrite (firstn_of_prefix _ _ _ _ _ (a_prefix s IA) L). apply subset_firstn.
Qed.

Lemma RB_frame w w' s s' : RB w s -> ap s' = ap s -> enq s' = enq s -> marks s' = marks s ->
  wflushed s' = wflushed s -> w_fl w' = w_fl w -> RB w' s'.
Proof.
  intros HB E1 E2 E3 E4 E5 t k last A. unfold mark. rewrite E1 in A. rewrite E2, E3, E4, E5. exact (HB t k last A).
Qed.

(* an application thread t moves: the others keep their tickets; enq and marks only grow at the end *)
Lemma RB_gen w w' s s' t : InvA s -> InvB s -> RB w s ->
  (forall t0, t0 <> t -> ap s' t0 = ap s t0) ->
  (forall t0, t0 <> t -> fl_get t0 (w_fl w') = fl_get t0 (w_fl w)) ->
  (exists x, enq s' = enq s ++ x) -> (exists m, marks s' = marks s ++ m) -> wflushed s' = wflushed s ->
  (forall k l, ap s' t = AFlushWait k l ->
     exists b, fl_get t (w_fl w') = Some (firstn (mark s' k) (enq s'), b) /\ (k <= wflushed s' -> b = true)) ->
  RB w' s'.
Proof.
  intros IA IB HB F1 F2 [x Ex] [m Em] Ew Own t0 k last A.
  destruct (Nat.eq_dec t0 t) as [->|N]; [exact (Own k last A)|].
  rewrite (F1 t0 N) in A. destruct (HB t0 k last A) as (b0 & G0 & P0).
  pose proof (b_thr s IB t0) as T. unfold thr_inv in T. rewrite A in T. destruct T as [Tk _].
  pose proof (a_marks_le s IA k Tk) as ML. pose proof (a_marks_len s IA) as MLen.
  exists b0. rewrite (F2 t0 N), Ew. split; [|exact P0]. rewrite G0. f_equal. f_equal.
  unfold mark in *. rewrite Em, Ex. rewrite app_nth1 by lia.
  rewrite firstn_app. replace (nth (k - 1) (marks s) 0 - length (enq s)) with 0 by lia. simpl. symmetry. apply app_nil_r.
Qed.

Lemma RB_step w s t e s' : Inv s -> RA w s -> RB w s -> accept s (t, e) = Some s' -> RB (c02_step w (PEv t e)) s'.
Proof.
  intros [IA IB] HA HB H.
  destruct t as [|t]; unfold accept in H; simpl in H.
  - pose proof (wflushed_worker s e s' IA H) as WF. pose proof (a_wp s IA) as Iwp. unfold wp_inv in Iwp.
    wcases H W e; cbv beta iota in WF.
    all: try (eapply (RB_frame w); [exact HB | reflexivity | reflexivity | reflexivity | exact WF | reflexivity]).
    (* exporter->ForceFlush *)
    intros t0 k0 l0 A0. simpl in A0. destruct (HB t0 k0 l0 A0) as (b0 & G0 & F0).
    unfold c02_step, w2_fail. simpl. rewrite fl_get_map_flush, G0. simpl.
    eexists; split; [reflexivity|]. intros L. unfold wflushed in L; simpl in L.
    destruct (le_lt_dec k0 (notified s)) as [L1|L1].
    + rewrite F0; [reflexivity | unfold wflushed; rewrite W; exact L1].
    + apply orb_true_iff; right. rewrite (ra_done w s HA).
      pose proof (b_thr s IB t0) as T. unfold thr_inv in T. rewrite A0 in T. destruct T as [Tk _].
      destruct Iwp as [_ Cov]. apply subset_prefix; [exact IA | apply Cov; lia].
  - pose proof (wflushed_le_pending s IA) as WP. pose proof (a_marks_len s IA) as MLen.
    acases H A e.
    all: eapply (RB_gen w _ _ _ (S t) IA IB HB).
    all: try (intros t0 N; simpl; try (apply upd_other; exact N); reflexivity).
    all: try (intros t0 N; apply c02_fl_other; [exact N | intros r0; discriminate]).
    all: try (simpl; first [exists []; rewrite app_nil_r; reflexivity | eexists; reflexivity]).
    all: try reflexivity.
    all: try (intros k1 l1 A1; simpl in A1; rewrite ?upd_same in A1; discriminate A1).
    all: try (match goal with Hw : wp _ = _ |- _ => unfold wflushed; simpl; rewrite Hw; reflexivity end).
    all: try (intros k1 l1 A1; exact (HB _ _ _ A1)).
    all: intros k1 l1 A1; simpl in A1; rewrite upd_same in A1; inversion A1; subst; clear A1.
    all: try (destruct (HB _ _ _ A) as (b0 & G0 & F0); exists b0; split; [exact G0 | exact F0]).
    (* a new ticket *)
    exists false. unfold c02_step. simpl. rewrite Nat.eqb_refl. unfold mark. simpl.
    replace (S (pending s) - 1) with (length (marks s)) by lia. rewrite nth_middle, firstn_all, (ra_added w s HA).
    split; [reflexivity|]. intros L. exfalso.
    assert (X : wflushed s < S (pending s)) by lia. revert L X. unfold wflushed. simpl. lia.
Qed.

(* ---------------------------------------------------------------- part C: after a returned Shutdown *)
Record RC (w : w2) (s : st) : Prop := {
  rc_shut : w_shutret w = true -> joined s = true /\ expshut s = 1 /\ is_shut s = true;
  rc_late : RL w;
  rc_lateflush : forall t, In t (w_lateflush w) -> ap s t = AFlush0 \/ ap s t = AFlushFail
}.

Lemma ret_shutdown_state s t r s' : InvB s -> accept s (t, ERetShutdown r) = Some s' ->
  is_shut s = true /\ joined s = true /\ expshut s = 1.
Proof.
  intros IB H. destruct t as [|t]; unfold accept in H; simpl in H.
  - unfold accept_worker in H. destruct (wp s); discriminate.
  - pose proof (b_thr s IB (S t)) as T. unfold thr_inv in T. unfold accept_app in H.
    destruct (ap s (S t)) as [| | | | | | | |k0 last| | | | |dd old|dd old| |dd r0]; try discriminate H;
      try (destruct last; discriminate H); try (destruct old; discriminate H). exact T.
Qed.

Lemma RC_step w s t e s' : Inv s -> RC w s -> accept s (t, e) = Some s' ->
  (e = ERetDestroy -> is_shut s = true /\ joined s = true /\ expshut s = 1) -> RC (c02_step w (PEv t e)) s'.
Proof.
  intros I [Hs Hl Hf] H ND. pose proof (accept_preserves _ _ _ I H) as I'. destruct I as [IA IB]. destruct I' as [IA' IB'].
  destruct (shut_mono _ _ _ H) as [MJ ME]. pose proof (is_shut_stable _ _ _ H) as MS. pose proof (b_expshut s' IB') as E1.
  constructor.
  - rewrite c02_shutret. intros X.
    assert (Y : joined s = true /\ expshut s = 1 /\ is_shut s = true).
    { destruct e; try (apply Hs; exact X).
      - destruct (ret_shutdown_state _ _ _ _ IB H) as (Y1 & Y2 & Y3). auto.
      - destruct (ND eq_refl) as (Y1 & Y2 & Y3). auto. }
    destruct Y as (Y1 & Y2 & Y3). repeat split; auto. lia.
  - apply RL_step. exact Hl.
  - intros t0 Hin. apply c02_lateflush_in in Hin. destruct Hin as [[Hin NR] | (-> & -> & SR)].
    + assert (S1 : is_shut s = true).
      { destruct (w_shutret w) eqn:SR; [apply Hs; reflexivity|]. destruct (Hl SR) as [_ X]. rewrite X in Hin. destruct Hin. }
      destruct (Nat.eq_dec t0 t) as [->|N]; [|rewrite (ap_frame _ _ _ _ H t0 (or_introl N)); apply Hf; exact Hin].
      destruct t as [|t]; [rewrite (ap_frame _ _ _ _ H 0 (or_intror eq_refl)); apply Hf; exact Hin|].
      specialize (NR eq_refl). unfold accept in H; simpl in H. unfold accept_app, with_ap in H.
      destruct (Hf _ Hin) as [A|A]; rewrite A in H; destruct e; try discriminate H.
      * rewrite S1 in H. destruct v; simpl in H; [|discriminate H]. inversion H; subst; simpl. rewrite upd_same. auto.
      * exfalso. eapply NR; reflexivity.
    + destruct t as [|t]; unfold accept in H; simpl in H.
      * unfold accept_worker in H. destruct (wp s); discriminate.
      * unfold accept_app, with_ap in H.
        destruct (ap s (S t)) as [| | | | | | | |k0 last| | | | |dd old|dd old| |dd r0]; try discriminate H;
          try (destruct last; discriminate H); try (destruct old; discriminate H); try (destruct dd; discriminate H).
        inversion H; subst; simpl. rewrite upd_same. auto.
Qed.

(* ---------------------------------------------------------------- part D: no clause of the checker fails *)
Lemma ret_flush_true_state s t s' : Inv s -> accept s (t, ERetFlush true) = Some s' ->
  exists k last, ap s t = AFlushWait k last /\ 1 <= k <= notified s.
Proof.
  intros [IA IB] H. destruct t as [|t]; unfold accept in H; simpl in H.
  - unfold accept_worker in H. destruct (wp s); discriminate.
  - pose proof (b_thr s IB (S t)) as T. unfold thr_inv in T. unfold accept_app in H.
    destruct (ap s (S t)) as [| | | | | | | |k0 last| | | | |dd old|dd old| |dd r0]; try discriminate H;
      try (destruct old; discriminate H); try (destruct dd; discriminate H).
    destruct last as [v|]; [|discriminate H].
    destruct (Bool.eqb true (k0 <=? v)) eqn:E; [|discriminate H]. apply Bool.eqb_prop in E. symmetry in E. apply Nat.leb_le in E.
    destruct T as [Tk Tv]. specialize (Tv v eq_refl). exists k0, (Some v). split; [reflexivity | lia].
Qed.

Lemma RD_step q b w s t e s' :
  reachable q b s -> RA w s -> RB w s -> RC w s -> w_fail w = [] -> accept s (t, e) = Some s' ->
  (e = ERetDestroy -> is_shut s = true /\ joined s = true /\ expshut s = 1) -> w_fail (c02_step w (PEv t e)) = [].
Proof.
  intros Rch HA HB HC HF H ND. pose proof (reachable_inv _ _ _ Rch) as I. destruct I as [IA IB].
  assert (X0 : exporter_call e = true -> (w_expshut w =? 0) = true).
  { intros X. rewrite (ra_expshut w s HA), (exp_call_expshut0 _ _ _ _ _ _ Rch H X). reflexivity. }
  assert (SOK : is_shut s = true /\ joined s = true /\ expshut s = 1 -> shutdown_ok w = []).
  { intros (S1 & J & E1).
    unfold shutdown_ok. rewrite (ra_expshut w s HA), E1, (ra_latch w s HA), (ra_done w s HA). simpl.
    pose proof (b_joined s IB J) as W. pose proof (a_wp s IA) as Iwp. unfold wp_inv in Iwp. rewrite W in Iwp. destruct Iwp as [_ Hl].
    destruct (a_latch s IA) as [[L1 _] _]. destruct (latch s) as [l|] eqn:La; [|exfalso; apply (L1 S1); reflexivity].
    simpl. rewrite subset_prefix; [reflexivity | exact IA | apply Hl; reflexivity]. }
  destruct e; unfold c02_step, w2_fail; repeat match goal with r : bool |- _ => destruct r end; simpl; try exact HF;
    try (destruct (w_shutret w); exact HF); rewrite HF; simpl.
  - (* ForceFlush returns true *)
    destruct (ret_flush_true_state s t s' (conj IA IB) H) as (k & last & A & Hk).
    destruct (HB t k last A) as (b0 & G0 & F0). rewrite G0.
    assert (M : mem t (w_lateflush w) = false).
    { destruct (mem t (w_lateflush w)) eqn:M; auto. apply mem_In in M. destruct (rc_lateflush w s HC t M) as [Y|Y]; congruence. }
    rewrite M. simpl. rewrite F0 by (pose proof (notified_le_wflushed s); lia). rewrite (ra_done w s HA).
    rewrite subset_prefix; [reflexivity | exact IA |].
    pose proof (a_published s IA k Hk). pose proof (a_flushed s IA). lia.
  - apply SOK. exact (ret_shutdown_state _ _ _ _ IB H).
  - apply SOK. exact (ret_shutdown_state _ _ _ _ IB H).
  - apply SOK. exact (ND eq_refl).
  - (* Export begins *)
    rewrite (X0 eq_refl). simpl. apply check_true.
    destruct (w_shutret w) eqn:SR.
    + destruct (rc_shut w s HC SR) as (_ & E1 & _). specialize (X0 eq_refl). apply Nat.eqb_eq in X0.
      rewrite (ra_expshut w s HA) in X0. lia.
    + destruct (rc_late w s HC SR) as [-> _]. apply forallb_forall. intros x _. reflexivity.
  - rewrite (X0 eq_refl). reflexivity.
  - rewrite (X0 eq_refl). reflexivity.
  - rewrite (X0 eq_refl). reflexivity.
  - rewrite (X0 eq_refl). reflexivity.
Qed.

(* ---------------------------------------------------------------- the relation and the fold *)
Record R (w : w2) (s : st) : Prop := { r_a : RA w s; r_b : RB w s; r_c : RC w s; r_f : w_fail w = [] }.

Lemma R_init q b : R w2_init (init q b).
Proof.
  constructor.
  - constructor; simpl; auto. intros b0 X; discriminate X.
  - intros t k last A. discriminate A.
  - constructor; simpl; [intros X; discriminate X | intros _; auto | intros t []].
  - reflexivity.
Qed.

Lemma R_step q b w s t e s' :
  reachable q b s -> R w s -> accept s (t, e) = Some s' ->
  (e = ERetDestroy -> is_shut s = true /\ joined s = true /\ expshut s = 1) -> R (c02_step w (PEv t e)) s'.
Proof.
  intros Rch [HA HB HC HF] H ND. pose proof (reachable_inv _ _ _ Rch) as I.
  constructor.
  - exact (RA_step w s t e s' (proj1 I) HA H).
  - exact (RB_step w s t e s' I HA HB H).
  - exact (RC_step w s t e s' I HC H ND).
  - exact (RD_step q b w s t e s' Rch HA HB HC HF H ND).
Qed.

Definition is_retdestroy (e : ev) : bool := match e with ERetDestroy => true | _ => false end.
Definition no_retdestroy (tr : list (nat * ev)) : Prop := forallb (fun te => negb (is_retdestroy (snd te))) tr = true.

Lemma R_run q b : forall tr w s s',
  reachable q b s -> R w s -> run s tr = Some s' -> no_retdestroy tr -> R (fold_left c02_step (pevs tr) w) s'.
Proof.
  induction tr as [|[t e] tr IH]; intros w s s' Rch HR H ND; simpl in H.
  - inversion H; subst. exact HR.
  - destruct (accept s (t, e)) as [s1|] eqn:A; [|discriminate].
    unfold no_retdestroy in ND. simpl in ND. apply andb_prop in ND. destruct ND as [ND1 ND2].
    simpl. apply (IH _ s1 s'); [eapply reachable_step; eauto | | exact H | exact ND2].
    eapply R_step; [exact Rch | exact HR | exact A |]. intros ->. discriminate ND1.
Qed.

Lemma no_destroy_noret tr : no_destroy tr -> no_retdestroy tr.
Proof.
  unfold no_destroy, no_retdestroy. rewrite !forallb_forall. intros H te Hin. specialize (H te Hin).
  destruct (snd te); simpl in *; auto; discriminate.
Qed.

(* every accepted trace in which no destructor returns passes the C02 history checker, and the checker's state
   describes the model state reached *)
Theorem accepted_trace_simulates_c02 q b tr s :
  run (init q b) tr = Some s -> no_retdestroy tr -> R (fold_left c02_step (pevs tr) w2_init) s.
Proof. intros H ND. exact (R_run q b tr w2_init (init q b) s (ex_intro _ [] eq_refl) (R_init q b) H ND). Qed.

Theorem accepted_trace_meets_spec_c02_noret q b tr s :
  run (init q b) tr = Some s -> no_retdestroy tr -> spec_c02 (pevs tr) = [].
Proof. intros H ND. exact (r_f _ _ (accepted_trace_simulates_c02 q b tr s H ND)). Qed.

Theorem accepted_trace_meets_spec_c02 q b tr s :
  run (init q b) tr = Some s -> no_destroy tr -> spec_c02 (pevs tr) = [].
Proof. intros H ND. exact (accepted_trace_meets_spec_c02_noret q b tr s H (no_destroy_noret tr ND)). Qed.

(* ================================================================ C01: the flush budget *)
(* walker state of c01_budget_walk: att = records offered to the queue so far, tk = per flusher the value of att when
   it took its ticket, done = the largest such value among the ForceFlush calls that returned true *)
Definition att_next (att : nat) (e : ev) : nat := match e with EBufAdd _ _ => S att | _ => att end.
Definition tk_next (tk : list (nat * nat)) (att t : nat) (e : ev) : list (nat * nat) :=
  match e with
  | EFaddPending _ => (t, att) :: filter (fun x => negb (Nat.eqb (fst x) t)) tk
  | _ => tk
  end.
Definition done_next (done : option nat) (tk : list (nat * nat)) (t : nat) (e : ev) : option nat :=
  match e with
  | ERetFlush true => Some (match done with Some d => Nat.max d (last_of t tk) | None => last_of t tk end)
  | _ => done
  end.
Definition bud_ok (q att : nat) (done : option nat) (e : ev) : bool :=
  match e with
  | EBufAdd _ false => match done with Some a => Nat.ltb q (S att - a) | None => true end
  | _ => true
  end.

Lemma budget_walk_cons q att tk done t e h :
  c01_budget_walk q att tk done (PEv t e :: h) =
  bud_ok q att done e && c01_budget_walk q (att_next att e) (tk_next tk att t e) (done_next done tk t e) h.
Proof. destruct e; try reflexivity; repeat match goal with r : bool |- _ => destruct r end; reflexivity. Qed.

Lemma last_of_filter_other t t0 tk : t0 <> t -> last_of t0 (filter (fun x => negb (Nat.eqb (fst x) t)) tk) = last_of t0 tk.
Proof.
  intros N. induction tk as [|[p v] tk IH]; simpl; auto.
  destruct (Nat.eqb_spec p t) as [->|M]; simpl.
  - destruct (Nat.eqb_spec t0 t); [contradiction | exact IH].
  - rewrite IH. reflexivity.
Qed.

Definition TK (tk : list (nat * nat)) (s : st) : Prop :=
  forall t k last, ap s t = AFlushWait k last -> last_of t tk <= mark s k + length (dropped s).
Definition DN (done : option nat) (s : st) : Prop := forall d, done = Some d -> d <= flushed s + length (dropped s).

Lemma TK_gen tk tk' s s' t : InvA s -> InvB s -> TK tk s ->
  (forall t0, t0 <> t -> ap s' t0 = ap s t0) -> (forall t0, t0 <> t -> last_of t0 tk' = last_of t0 tk) ->
  (exists m, marks s' = marks s ++ m) -> length (dropped s) <= length (dropped s') ->
  (forall k l, ap s' t = AFlushWait k l -> last_of t tk' <= mark s' k + length (dropped s')) -> TK tk' s'.
Proof.
  intros IA IB HT F1 F2 [m Em] Dr Own t0 k last A.
  destruct (Nat.eq_dec t0 t) as [->|N]; [exact (Own k last A)|].
  rewrite (F1 t0 N) in A. pose proof (HT t0 k last A) as L.
  pose proof (b_thr s IB t0) as T. unfold thr_inv in T. rewrite A in T. destruct T as [Tk _].
  pose proof (a_marks_len s IA) as MLen.
  rewrite (F2 t0 N). unfold mark in *. rewrite Em, app_nth1 by lia. lia.
Qed.

Lemma TK_step tk att s t e s' : Inv s -> att = length (enq s) + length (dropped s) -> TK tk s ->
  accept s (t, e) = Some s' -> TK (tk_next tk att t e) s'.
Proof.
  intros [IA IB] Hatt HT H. destruct t as [|t]; unfold accept in H; simpl in H.
  - wcases H W e; exact HT.
  - pose proof (a_marks_len s IA) as MLen.
    acases H A e.
    all: eapply (TK_gen tk _ _ _ (S t) IA IB HT).
    all: try (intros t0 N; simpl; try (apply upd_other; exact N); reflexivity).
    all: try (simpl; first [exists []; rewrite app_nil_r; reflexivity | eexists; reflexivity]).
    all: try (simpl; rewrite ?app_length; lia).
    all: try (intros k1 l1 A1; simpl in A1; rewrite ?upd_same in A1; discriminate A1).
    all: try (intros k1 l1 A1; exact (HT _ _ _ A1)).
    all: try (intros t0 N; simpl; apply Nat.eqb_neq in N; rewrite N; apply Nat.eqb_neq in N; apply last_of_filter_other; exact N).
    all: intros k1 l1 A1; simpl in A1; rewrite upd_same in A1; inversion A1; subst; clear A1.
    all: try exact (HT _ _ _ A).
    simpl. rewrite Nat.eqb_refl. unfold mark. simpl.
    replace (S (pending s) - 1) with (length (marks s)) by lia. rewrite nth_middle. lia.
Qed.

Lemma bud_mono s te s' : InvA s -> accept s te = Some s' ->
  flushed s <= flushed s' /\ length (dropped s) <= length (dropped s').
Proof.
  intros IA H. pose proof (a_flushed s IA) as F. destruct te as [[|t] e]; unfold accept in H; simpl in H.
  - wcases H W e; simpl; split; auto.
  - acases H A e; simpl; rewrite ?app_length; split; auto; lia.
Qed.

Lemma att_step s te s' : accept s te = Some s' ->
  length (enq s') + length (dropped s') = att_next (length (enq s) + length (dropped s)) (snd te).
Proof.
  intros H. destruct te as [[|t] e]; unfold accept in H; simpl in H.
  - wcases H W e; reflexivity.
  - acases H A e; simpl; rewrite ?app_length; simpl; lia.
Qed.

Lemma DN_step done tk s t e s' : Inv s -> TK tk s -> DN done s -> accept s (t, e) = Some s' -> DN (done_next done tk t e) s'.
Proof.
  intros I HT HD H. destruct (bud_mono _ _ _ (proj1 I) H) as [M1 M2].
  assert (G : DN done s') by (intros d Hd; specialize (HD d Hd); lia).
  destruct e; try exact G. destruct r; [|exact G].
  destruct (ret_flush_true_state s t s' I H) as (k & last & A & Hk).
  pose proof (HT t k last A) as L. pose proof (a_published s (proj1 I) k Hk) as P.
  intros d Hd. simpl in Hd. inversion Hd; subst; clear Hd.
  destruct done as [d0|]; [specialize (HD d0 eq_refl)|]; lia.
Qed.

Lemma bud_ok_step att done s t e s' : Inv s -> att = length (enq s) + length (dropped s) -> DN done s ->
  accept s (t, e) = Some s' -> bud_ok (Qsz s) att done e = true.
Proof.
  intros I Hatt HD H. destruct e; try reflexivity. destruct ok; [reflexivity|].
  destruct (c01_drop_step s t _ s' I H) as (Q & _ & _).
  pose proof (a_flushed s (proj1 I)) as F. pose proof (nexp_deq s (proj1 I)) as ND. pose proof (a_deq s (proj1 I)) as DQ.
  simpl. destruct done as [a|]; [|reflexivity]. specialize (HD a eq_refl). apply Nat.ltb_lt. lia.
Qed.

Lemma budget_walk_accepts : forall tr s s' att tk done,
  Inv s -> att = length (enq s) + length (dropped s) -> TK tk s -> DN done s -> run s tr = Some s' ->
  c01_budget_walk (Qsz s) att tk done (pevs tr) = true.
Proof.
  induction tr as [|[t e] tr IH]; intros s s' att tk done I Hatt HT HD H; simpl in H; [reflexivity|].
  destruct (accept s (t, e)) as [s1|] eqn:A; [|discriminate].
  change (pevs ((t, e) :: tr)) with (PEv t e :: pevs tr). rewrite budget_walk_cons.
  rewrite (bud_ok_step att done s t e s1 I Hatt HD A). simpl.
  destruct (accept_Bsz s (t, e) s1 A) as [_ Qq]. rewrite <- Qq.
  apply (IH s1 s'); [exact (accept_preserves _ _ _ I A) | | | | exact H].
  - rewrite Hatt. symmetry. exact (att_step s (t, e) s1 A).
  - exact (TK_step tk att s t e s1 I Hatt HT A).
  - exact (DN_step done tk s t e s1 I HT HD A).
Qed.

(* every accepted trace passes the flush-budget checker: a record is refused only when more than max_queue_size records
   were offered since the ticket of every ForceFlush that has returned true *)
Theorem accepted_trace_meets_spec_c01_budget q b tr s :
  run (init q b) tr = Some s -> c01_no_drop_between_flushes q (pevs tr) = [].
Proof.
  intros H. unfold c01_no_drop_between_flushes. apply check_true.
  apply (budget_walk_accepts tr (init q b) s 0 [] None (Inv_init q b)); [reflexivity | | | exact H].
  - intros t k last A. discriminate A.
  - intros d Hd. discriminate Hd.
Qed.

(* ================================================================ C02, continued: traces with destructor calls *)
(* side condition on the trace: a destructor call overlaps no Shutdown call and no other destructor call
   (OnEnd / ForceFlush calls of other threads may overlap it).  Walker state: the threads inside Shutdown, the thread
   inside the destructor. *)
Definition dstate := (list nat * option nat)%type.
Definition dt_ok (d : dstate) (e : ev) : bool :=
  match e with
  | ECallDestroy => isnil (fst d) && match snd d with None => true | Some _ => false end
  | ECallShutdown => match snd d with None => true | Some _ => false end
  | _ => true
  end.
Definition dt_next (d : dstate) (t : nat) (e : ev) : dstate :=
  match e with
  | ECallShutdown => (t :: fst d, snd d)
  | ERetShutdown _ => (filter (fun x => negb (Nat.eqb x t)) (fst d), snd d)
  | ECallDestroy => (fst d, Some t)
  | ERetDestroy => (fst d, None)
  | _ => d
  end.
Fixpoint dtor_walk (d : dstate) (tr : list (nat * ev)) : bool :=
  match tr with
  | [] => true
  | te :: tr' => dt_ok d (snd te) && dtor_walk (dt_next d (fst te) (snd te)) tr'
  end.
Definition dtor_exclusive (tr : list (nat * ev)) : Prop := dtor_walk ([], None) tr = true.

Definition shut_dd (a : apc) : option bool :=
  match a with
  | AShutCalled dd | AShutLocked dd | AShutX dd _ | AShutJoined dd _ | AShutExp dd _ | AShutOut dd _ => Some dd
  | _ => None
  end.
Definition in_dtor (a : apc) : bool :=
  match a with
  | ADestroy0 | ADestroyOut => true
  | _ => match shut_dd a with Some true => true | _ => false end
  end.

Definition final (s : st) : Prop := is_shut s = true /\ joined s = true /\ expshut s = 1.

Record RK (d : dstate) (s : st) : Prop := {
  k_sh : forall t, shut_dd (ap s t) = Some false -> In t (fst d);
  k_dt : forall t, in_dtor (ap s t) = true -> snd d = Some t;
  k_excl : snd d <> None -> fst d = [];
  k_out : forall t, ap s t = ADestroyOut -> final s
}.

Lemma final_stable s te s' : Inv s -> accept s te = Some s' -> final s -> final s'.
Proof.
  intros I H (A & B & C). destruct (accept_preserves _ _ _ I H) as [_ IB']. destruct (shut_mono _ _ _ H) as [MJ ME].
  pose proof (b_expshut s' IB'). repeat split; [eapply is_shut_stable; eauto | auto | lia].
Qed.

(* a destructor that finds is_shutdown set: under the side condition the Shutdown that set it has completed *)
Lemma dtor_sees_final d s t : Inv s -> RK d s -> ap s t = ADestroy0 -> is_shut s = true -> final s.
Proof.
  intros [IA IB] [K1 K2 K3 K4] A S1.
  destruct (b_phase s IB S1) as [[J E1]|(t1 & dd & Hh & X)]; [repeat split; auto|]. exfalso.
  assert (D : snd d = Some t) by (apply K2; rewrite A; reflexivity).
  destruct dd.
  - assert (D1 : snd d = Some t1) by (apply K2; destruct X as [X|X]; rewrite X; reflexivity).
    assert (t1 = t) by congruence. subst. destruct X as [X|X]; congruence.
  - assert (I1 : In t1 (fst d)) by (apply K1; destruct X as [X|X]; rewrite X; reflexivity).
    rewrite K3 in I1 by congruence. destruct I1.
Qed.

Lemma step_class s t e s' : accept_app s t e = Some s' ->
  match e with
  | ECallShutdown => ap s t = AIdle /\ ap s' t = AShutCalled false
  | ERetShutdown _ => shut_dd (ap s t) = Some false /\ ap s' t = AIdle
  | ECallDestroy => ap s t = AIdle /\ ap s' t = ADestroy0
  | ERetDestroy => in_dtor (ap s t) = true /\ ap s' t = AIdle
  | _ => (shut_dd (ap s' t) = Some false -> shut_dd (ap s t) = Some false) /\
         (in_dtor (ap s' t) = true -> in_dtor (ap s t) = true) /\
         (ap s' t = ADestroyOut -> ap s t = ADestroyOut \/ (ap s t = ADestroy0 /\ is_shut s = true))
  end.
Proof.
  intros H. acases H A e; simpl; rewrite ?upd_same, ?A; simpl; auto.
  all: repeat match goal with r : bool |- _ => destruct r end; simpl; auto.
  all: repeat split; auto; try discriminate.
Qed.

Lemma isnil_nil {A} (l : list A) : isnil l = true -> l = [].
Proof. destruct l; [reflexivity | discriminate]. Qed.

Lemma RK_step d s t e s' : Inv s -> RK d s -> accept s (t, e) = Some s' -> dt_ok d e = true -> RK (dt_next d t e) s'.
Proof.
  intros I HK H OK. pose proof (final_stable _ _ _ I H) as FS. pose proof (ap_frame _ _ _ _ H) as FR.
  destruct t as [|t]; unfold accept in H; simpl in H.
  - assert (FR0 : forall t0, ap s' t0 = ap s t0) by (intros t0; apply FR; right; reflexivity).
    destruct HK as [K1 K2 K3 K4].
    assert (D : dt_next d 0 e = d) by (clear FS FR FR0; wcases H W e; reflexivity).
    rewrite D. constructor; [| |exact K3|]; intros t0; rewrite FR0; auto.
    intros X. apply FS. exact (K4 t0 X).
  - pose proof (step_class _ _ _ _ H) as SC. pose proof (dtor_sees_final d s (S t) I HK) as DF.
    destruct HK as [K1 K2 K3 K4]. clear H.
    assert (FRo : forall t0, t0 <> S t -> ap s' t0 = ap s t0) by (intros t0 N; apply FR; left; exact N). clear FR.
    destruct e; simpl in SC, OK; simpl dt_next.
    (* the calls and returns of Shutdown and of the destructor *)
    5: { destruct SC as [C1 C2]. assert (D : snd d = None) by (destruct (snd d); [discriminate OK | reflexivity]). constructor; simpl.
         - intros t0 X. destruct (Nat.eq_dec t0 (S t)) as [->|N]; [left; reflexivity | right; apply K1; rewrite <- (FRo t0 N); exact X].
         - intros t0 X. destruct (Nat.eq_dec t0 (S t)) as [->|N]; [rewrite C2 in X; discriminate X|].
           exfalso. rewrite (K2 t0) in D; [discriminate D | rewrite <- (FRo t0 N); exact X].
         - rewrite D. intros X; contradiction.
         - intros t0 X. destruct (Nat.eq_dec t0 (S t)) as [->|N]; [rewrite C2 in X; discriminate X | apply FS; apply (K4 t0); rewrite <- (FRo t0 N); exact X]. }
    5: { destruct SC as [C1 C2]. constructor; simpl.
         - intros t0 X. destruct (Nat.eq_dec t0 (S t)) as [->|N]; [rewrite C2 in X; discriminate X|].
           apply In_filter_neq. split; [apply K1; rewrite <- (FRo t0 N); exact X | exact N].
         - intros t0 X. destruct (Nat.eq_dec t0 (S t)) as [->|N]; [rewrite C2 in X; discriminate X | apply K2; rewrite <- (FRo t0 N); exact X].
         - intros X. rewrite (K3 X). reflexivity.
         - intros t0 X. destruct (Nat.eq_dec t0 (S t)) as [->|N]; [rewrite C2 in X; discriminate X | apply FS; apply (K4 t0); rewrite <- (FRo t0 N); exact X]. }
    5: { destruct SC as [C1 C2]. apply andb_prop in OK. destruct OK as [O1 O2]. apply isnil_nil in O1.
         assert (D : snd d = None) by (destruct (snd d); [discriminate O2 | reflexivity]). constructor; simpl.
         - intros t0 X. destruct (Nat.eq_dec t0 (S t)) as [->|N]; [rewrite C2 in X; discriminate X | apply K1; rewrite <- (FRo t0 N); exact X].
         - intros t0 X. destruct (Nat.eq_dec t0 (S t)) as [->|N]; [reflexivity|].
           exfalso. rewrite (K2 t0) in D; [discriminate D | rewrite <- (FRo t0 N); exact X].
         - intros _. exact O1.
         - intros t0 X. destruct (Nat.eq_dec t0 (S t)) as [->|N]; [rewrite C2 in X; discriminate X | apply FS; apply (K4 t0); rewrite <- (FRo t0 N); exact X]. }
    5: { destruct SC as [C1 C2]. pose proof (K2 _ C1) as D. constructor; simpl.
         - intros t0 X. destruct (Nat.eq_dec t0 (S t)) as [->|N]; [rewrite C2 in X; discriminate X | apply K1; rewrite <- (FRo t0 N); exact X].
         - intros t0 X. destruct (Nat.eq_dec t0 (S t)) as [->|N]; [rewrite C2 in X; discriminate X|].
           assert (D0 : snd d = Some t0) by (apply K2; rewrite <- (FRo t0 N); exact X). congruence.
         - intros X; contradiction.
         - intros t0 X. destruct (Nat.eq_dec t0 (S t)) as [->|N]; [rewrite C2 in X; discriminate X | apply FS; apply (K4 t0); rewrite <- (FRo t0 N); exact X]. }
    (* every other event: the thread stays where it is with respect to Shutdown / the destructor *)
    all: destruct SC as (C1 & C2 & C3); constructor; [| |exact K3|].
    all: intros u X; destruct (Nat.eq_dec u (S t)) as [->|N].
    all: try (apply K1; first [apply C1; exact X | rewrite <- (FRo u N); exact X]).
    all: try (apply K2; first [apply C2; exact X | rewrite <- (FRo u N); exact X]).
    all: try (apply FS; apply (K4 u); rewrite <- (FRo u N); exact X).
    all: apply FS; destruct (C3 X) as [Y|[Y S1]]; [exact (K4 _ Y) | exact (DF Y S1)].
Qed.

Lemma RK_init q b : RK ([], None) (init q b).
Proof. constructor; simpl; try discriminate. intros X; contradiction. Qed.

Lemma ret_destroy_state d s t s' : Inv s -> RK d s -> accept s (t, ERetDestroy) = Some s' -> final s.
Proof.
  intros [IA IB] HK H. destruct t as [|t]; unfold accept in H; simpl in H.
  - unfold accept_worker in H. destruct (wp s); discriminate.
  - pose proof (b_thr s IB (S t)) as T. unfold thr_inv in T. unfold accept_app in H.
    destruct (ap s (S t)) as [| | | | | | | |k0 last| | | | |dd old|dd old| |dd r0] eqn:A; try discriminate H;
      try (destruct last; discriminate H); try (destruct old; discriminate H).
    + exact (k_out d s HK (S t) A).
    + exact T.
Qed.

Lemma R_run_dtor q b : forall tr w d s s',
  reachable q b s -> R w s -> RK d s -> run s tr = Some s' -> dtor_walk d tr = true ->
  R (fold_left c02_step (pevs tr) w) s'.
Proof.
  induction tr as [|[t e] tr IH]; intros w d s s' Rch HR HK H DW; simpl in H.
  - inversion H; subst. exact HR.
  - destruct (accept s (t, e)) as [s1|] eqn:A; [|discriminate].
    simpl in DW. apply andb_prop in DW. destruct DW as [D1 D2]. pose proof (reachable_inv _ _ _ Rch) as I.
    simpl. apply (IH _ (dt_next d t e) s1 s'); [eapply reachable_step; eauto | | | exact H | exact D2].
    + eapply R_step; [exact Rch | exact HR | exact A |]. intros ->. exact (ret_destroy_state d s t s1 I HK A).
    + exact (RK_step d s t e s1 I HK A D1).
Qed.

(* every accepted trace in which destructor calls overlap no Shutdown call and no other destructor call passes the
   C02 history checker *)
Theorem accepted_trace_meets_spec_c02_dtor q b tr s :
  run (init q b) tr = Some s -> dtor_exclusive tr -> spec_c02 (pevs tr) = [].
Proof.
  intros H DW.
  exact (r_f _ _ (R_run_dtor q b tr w2_init ([], None) (init q b) s (ex_intro _ [] eq_refl) (R_init q b) (RK_init q b) H DW)).
Qed.

(* non-vacuity: a destructor after a completed Shutdown; a destructor that performs the shutdown itself *)
Definition demo_trace_dtor : list (nat * ev) := demo_trace ++ [(3, ECallDestroy); (3, ELdShut true); (3, ERetDestroy)].
Example demo_dtor_ok :
  dtor_exclusive demo_trace_dtor /\ (exists s, run (init 1 1) demo_trace_dtor = Some s) /\ spec_c02 (pevs demo_trace_dtor) = [].
Proof. split; [vm_compute; reflexivity|]. split; [eexists; vm_compute; reflexivity | vm_compute; reflexivity]. Qed.

Definition dtor_shutdown_trace : list (nat * ev) :=
  [(1, ECallOnEnd 11); (1, ELdShut false); (1, EBufAdd 11 true); (1, EBufSize 1); (1, ERetOnEnd 11);
   (3, ECallDestroy); (3, ELdShut false); (3, ELockShut); (3, EXchgShut false);
   (0, ELdShut true); (0, EBufEmpty false); (0, ELdPending 0); (0, EBufSize 1); (0, EBufConsume 1); (0, EExpBegin [11]);
   (0, EExpEnd true); (0, ELdNotified 0); (0, ELdPending 0); (0, EBufSize 0); (0, ELdNotified 0);
   (0, EBufEmpty true); (0, ELdPending 0); (0, ELdNotified 0);
   (3, EJoin 0); (3, EExpShutdown true); (3, EUnlockShut); (3, ERetDestroy)].
Example dtor_shutdown_ok :
  dtor_exclusive dtor_shutdown_trace /\ (exists s, run (init 1 1) dtor_shutdown_trace = Some s /\ exported s = [[11]]) /\
  spec_c02 (pevs dtor_shutdown_trace) = [].
Proof. split; [vm_compute; reflexivity|]. split; [eexists; vm_compute; split; reflexivity | vm_compute; reflexivity]. Qed.

(* the side condition is needed: the acceptor accepts a destructor that returns while another thread's Shutdown is still
   in progress (application misuse), and the checker's shutdown_complete clause then fails *)
Definition dtor_overlap_trace : list (nat * ev) :=
  [(2, ECallShutdown); (2, ELockShut); (2, EXchgShut false); (1, ECallDestroy); (1, ELdShut true); (1, ERetDestroy)].
Example dtor_overlap_refutes :
  (exists s, run (init 1 1) dtor_overlap_trace = Some s) /\ spec_c02 (pevs dtor_overlap_trace) <> [] /\
  dtor_walk ([], None) dtor_overlap_trace = false.
Proof. split; [eexists; vm_compute; reflexivity|]. split; [vm_compute; discriminate | vm_compute; reflexivity]. Qed.
