(* MODEL of sdk::trace::BatchSpanProcessor / sdk::logs::BatchLogRecordProcessor
   (sdk/src/trace/batch_span_processor.cc, sdk/src/logs/batch_log_record_processor.cc) as a labelled
   transition system used as an ACCEPTOR of event traces (engine E-sched, DESIGN.md 2.3):

     accept : st -> nat * ev -> option st

   One event = one access to a variable another thread can write, one call on the bounded queue
   (abstracted as an atomic bounded FIFO - its linearizability is property C11), one exporter call, one
   call/return of the public interface, lock/unlock of shutdown_m, join of the worker.  Any number of
   application threads, any queue size Q and batch size B, any interleaving: a thread's event is accepted
   iff it is what that thread's code does next at its program counter and its operands/results agree with
   the shared state.  Condition variables, cv_m / force_flush_cv_m, the wake-up flag, the time-out value
   and clock reads are filtered out before acceptance (they only delay threads; every wait is timed).
   The span and the log processor produce the same events (they differ in who sets the wake-up flag).
   Definitions only; the invariants are in Batch/Proofs*.v.  Ghost fields are marked. *)
From V Require Export Base.Tok.
From Coq Require Export Arith.

Inductive ev :=
| ECallOnEnd (id : nat) | ERetOnEnd (id : nat)
| ECallFlush | ERetFlush (r : bool)
| ECallShutdown | ERetShutdown (r : bool)
| ECallDestroy | ERetDestroy
| ELdShut (v : bool) | EXchgShut (old : bool)
| ELdPending (v : nat) | EFaddPending (old : nat)
| ELdNotified (v : nat) | ECasNotified (exp des seen : nat) (ok : bool)
| EBufAdd (id : nat) (ok : bool) | EBufSize (n : nat) | EBufEmpty (e : bool) | EBufConsume (n : nat)
| EExpBegin (ids : list nat) | EExpEnd (r : bool) | EExpFlush (r : bool) | EExpShutdown (r : bool)
| ELockShut | EUnlockShut
| EJoin (t : nat).

(* worker (thread 0).  d = inside DrainQueue; k = the flush ticket read at the top of Export's loop;
   rem = records of the size snapshot not yet consumed; more = the snapshot was non-empty *)
Inductive wpc :=
| WIdle
| WTop (d : bool)
| WTicket (d : bool) (k : nat)
| WBatch (d : bool) (k rem : nat)
| WExpBegin (d : bool) (k rem : nat) (b : list nat)
| WExpEnd (d : bool) (k rem : nat) (b : list nat)
| WNotify (d : bool) (k : nat) (more : bool)
| WFlushCall (d : bool) (k : nat) (more : bool)
| WLd2 (d : bool) (k : nat) (more : bool)
| WCas (d : bool) (k v : nat) (more : bool)
| WDrain0
| WDrainLd (p n : option nat)
| WDone.

(* application threads.  dd = the Shutdown body runs inside the destructor *)
Inductive apc :=
| AIdle
| AOnEnd (id : nat) | AOnEndChecked (id : nat) | AOnEndAdded (id : nat) | AOnEndOut (id : nat)
| AFlush0 | AFlushFail | AFlush1 | AFlushWait (k : nat) (last : option nat)
| ADestroy0 | ADestroyOut
| AShutCalled (dd : bool) | AShutLocked (dd : bool) | AShutX (dd old : bool)
| AShutJoined (dd old : bool) | AShutExp (dd r : bool) | AShutOut (dd r : bool).

Record st := mk {
  Qsz : nat; Bsz : nat;
  enq : list nat;                 (* every record the queue accepted, in order *)
  deq : nat;                      (* how many of them were consumed: queue = skipn deq enq *)
  is_shut : bool; pending : nat; notified : nat;
  marks : list nat;               (* ghost: length enq when ticket j+1 was issued *)
  wp : wpc; ap : nat -> apc;
  holder : option nat;            (* shutdown_m *)
  joined : bool;
  exported : list (list nat);     (* batches whose Export call has returned, oldest first *)
  inflight : option (list nat);   (* batch inside exporter->Export *)
  flushed : nat;                  (* ghost: number of records exported when exporter->ForceFlush was last called *)
  expshut : nat;                  (* exporter->Shutdown calls *)
  latch : option nat;             (* ghost: length enq when is_shutdown was first set *)
  dropped : list nat;             (* records refused by the queue *)
  discarded : list nat;           (* records whose OnEnd found the processor shut down *)
  fl_done : list (nat * nat * bool);  (* ghost: (thread, ticket, result) of returned ForceFlush calls; ticket 0 = refused at entry *)
  sh_done : list (nat * bool)     (* ghost: returned Shutdown calls *)
}.

Definition queue (s : st) : list nat := skipn (deq s) (enq s).
Definition nexported (s : st) : nat := length (concat (exported s)).

Definition init (q b : nat) : st :=
  mk q b [] 0 false 0 0 [] WIdle (fun _ => AIdle) None false [] None 0 0 None [] [] [] [].

Definition upd {A} (f : nat -> A) (k : nat) (v : A) : nat -> A := fun j => if Nat.eqb j k then v else f j.

Definition set_wp (s : st) (w : wpc) : st :=
  mk (Qsz s) (Bsz s) (enq s) (deq s) (is_shut s) (pending s) (notified s) (marks s) w (ap s) (holder s) (joined s)
     (exported s) (inflight s) (flushed s) (expshut s) (latch s) (dropped s) (discarded s) (fl_done s) (sh_done s).
Definition set_ap (s : st) (t : nat) (a : apc) : st :=
  mk (Qsz s) (Bsz s) (enq s) (deq s) (is_shut s) (pending s) (notified s) (marks s) (wp s) (upd (ap s) t a) (holder s) (joined s)
     (exported s) (inflight s) (flushed s) (expshut s) (latch s) (dropped s) (discarded s) (fl_done s) (sh_done s).

(* where the worker goes when NotifyCompletion returns *)
Definition after_notify (d more : bool) : wpc :=
  if more then WTop d else if d then WDrain0 else WIdle.

Fixpoint list_eqb (a b : list nat) : bool :=
  match a, b with
  | [], [] => true
  | x :: a', y :: b' => Nat.eqb x y && list_eqb a' b'
  | _, _ => false
  end.

Definition opt_or {A} (o : option A) (v : A) : option A := match o with Some _ => o | None => Some v end.

(* ------------------------------------------------------------------ the worker *)
Definition accept_worker (s : st) (e : ev) : option st :=
  match wp s, e with
  (* DoBackgroundWork: the wait predicate looks at the queue; then the shutdown test *)
  | WIdle, EBufEmpty b => if Bool.eqb b (Nat.eqb (length (queue s)) 0) then Some s else None
  | WIdle, ELdShut v => if Bool.eqb v (is_shut s) then Some (set_wp s (if v then WDrain0 else WTop false)) else None
  (* Export(): ticket first, then the size snapshot *)
  | WTop d, ELdPending k => if Nat.eqb k (pending s) then Some (set_wp s (WTicket d k)) else None
  | WTicket d k, EBufSize n =>
      if Nat.eqb n (length (queue s))
      then Some (set_wp s (if Nat.eqb n 0 then WNotify d k false else WBatch d k n)) else None
  | WBatch d k rem, EBufConsume m =>
      if Nat.eqb m (Nat.min rem (Bsz s)) && Nat.ltb 0 m && Nat.leb m (length (queue s))
      then Some (mk (Qsz s) (Bsz s) (enq s) (deq s + m) (is_shut s) (pending s) (notified s) (marks s)
                    (WExpBegin d k (rem - m) (firstn m (queue s))) (ap s) (holder s) (joined s)
                    (exported s) (inflight s) (flushed s) (expshut s) (latch s) (dropped s) (discarded s) (fl_done s) (sh_done s))
      else None
  | WExpBegin d k rem b, EExpBegin ids =>
      if list_eqb ids b
      then Some (mk (Qsz s) (Bsz s) (enq s) (deq s) (is_shut s) (pending s) (notified s) (marks s)
                    (WExpEnd d k rem b) (ap s) (holder s) (joined s)
                    (exported s) (Some b) (flushed s) (expshut s) (latch s) (dropped s) (discarded s) (fl_done s) (sh_done s))
      else None
  | WExpEnd d k rem b, EExpEnd _ =>
      Some (mk (Qsz s) (Bsz s) (enq s) (deq s) (is_shut s) (pending s) (notified s) (marks s)
               (if Nat.eqb rem 0 then WNotify d k true else WBatch d k rem) (ap s) (holder s) (joined s)
               (exported s ++ [b]) None (flushed s) (expshut s) (latch s) (dropped s) (discarded s) (fl_done s) (sh_done s))
  (* NotifyCompletion(k) *)
  | WNotify d k more, ELdNotified v =>
      if Nat.eqb v (notified s)
      then Some (set_wp s (if Nat.ltb v k then WFlushCall d k more else after_notify d more)) else None
  | WFlushCall d k more, EExpFlush _ =>
      Some (mk (Qsz s) (Bsz s) (enq s) (deq s) (is_shut s) (pending s) (notified s) (marks s)
               (WLd2 d k more) (ap s) (holder s) (joined s)
               (exported s) (inflight s) (nexported s) (expshut s) (latch s) (dropped s) (discarded s) (fl_done s) (sh_done s))
  | WLd2 d k more, ELdNotified v =>
      if Nat.eqb v (notified s)
      then Some (set_wp s (if Nat.ltb v k then WCas d k v more else after_notify d more)) else None
  | WCas d k v more, ECasNotified ex des seen ok =>
      if Nat.eqb ex v && Nat.eqb des k && Nat.eqb seen (notified s) && Bool.eqb ok (Nat.eqb seen v)
      then if ok
           then Some (mk (Qsz s) (Bsz s) (enq s) (deq s) (is_shut s) (pending s) k (marks s)
                         (WCas d k v more) (ap s) (holder s) (joined s)
                         (exported s) (inflight s) (flushed s) (expshut s) (latch s) (dropped s) (discarded s) (fl_done s) (sh_done s))
           else Some (set_wp s (if Nat.ltb seen k then WCas d k seen more else after_notify d more))
      else None
  (* DrainQueue *)
  | WDrain0, EBufEmpty b =>
      if Bool.eqb b (Nat.eqb (length (queue s)) 0)
      then Some (set_wp s (if b then WDrainLd None None else WTop true)) else None
  | WDrainLd p n, ELdPending v =>
      match p with
      | Some _ => None
      | None => if Nat.eqb v (pending s)
                then Some (set_wp s (match n with
                                     | Some nv => if Nat.leb v nv then WDone else WTop true
                                     | None => WDrainLd (Some v) None
                                     end))
                else None
      end
  | WDrainLd p n, ELdNotified v =>
      match n with
      | Some _ => None
      | None => if Nat.eqb v (notified s)
                then Some (set_wp s (match p with
                                     | Some pv => if Nat.leb pv v then WDone else WTop true
                                     | None => WDrainLd None (Some v)
                                     end))
                else None
      end
  | _, _ => None
  end.

(* ------------------------------------------------------------------ application threads *)
Definition with_ap (s : st) (t : nat) (a : apc) : option st := Some (set_ap s t a).

Definition accept_app (s : st) (t : nat) (e : ev) : option st :=
  match ap s t, e with
  (* OnEnd / OnEmit *)
  | AIdle, ECallOnEnd id => with_ap s t (AOnEnd id)
  | AOnEnd id, ELdShut v =>
      if Bool.eqb v (is_shut s)
      then if v
           then Some (mk (Qsz s) (Bsz s) (enq s) (deq s) (is_shut s) (pending s) (notified s) (marks s) (wp s)
                         (upd (ap s) t (AOnEndOut id)) (holder s) (joined s) (exported s) (inflight s) (flushed s) (expshut s)
                         (latch s) (dropped s) (discarded s ++ [id]) (fl_done s) (sh_done s))
           else with_ap s t (AOnEndChecked id)
      else None
  | AOnEndChecked id, EBufAdd id' ok =>
      if Nat.eqb id' id && Bool.eqb ok (Nat.ltb (length (queue s)) (Qsz s))
      then if ok
           then Some (mk (Qsz s) (Bsz s) (enq s ++ [id]) (deq s) (is_shut s) (pending s) (notified s) (marks s) (wp s)
                         (upd (ap s) t (AOnEndAdded id)) (holder s) (joined s) (exported s) (inflight s) (flushed s) (expshut s)
                         (latch s) (dropped s) (discarded s) (fl_done s) (sh_done s))
           else Some (mk (Qsz s) (Bsz s) (enq s) (deq s) (is_shut s) (pending s) (notified s) (marks s) (wp s)
                         (upd (ap s) t (AOnEndOut id)) (holder s) (joined s) (exported s) (inflight s) (flushed s) (expshut s)
                         (latch s) (dropped s ++ [id]) (discarded s) (fl_done s) (sh_done s))
      else None
  | AOnEndAdded id, EBufSize n =>        (* the half-full wake-up test *)
      if Nat.eqb n (length (queue s)) then with_ap s t (AOnEndOut id) else None
  | AOnEndOut id, ERetOnEnd id' => if Nat.eqb id' id then with_ap s t AIdle else None
  (* ForceFlush *)
  | AIdle, ECallFlush => with_ap s t AFlush0
  | AFlush0, ELdShut v =>
      if Bool.eqb v (is_shut s) then with_ap s t (if v then AFlushFail else AFlush1) else None
  | AFlushFail, ERetFlush r =>
      if r then None
      else Some (mk (Qsz s) (Bsz s) (enq s) (deq s) (is_shut s) (pending s) (notified s) (marks s) (wp s)
                    (upd (ap s) t AIdle) (holder s) (joined s) (exported s) (inflight s) (flushed s) (expshut s)
                    (latch s) (dropped s) (discarded s) (fl_done s ++ [(t, 0, false)]) (sh_done s))
  | AFlush1, EFaddPending old =>
      if Nat.eqb old (pending s)
      then Some (mk (Qsz s) (Bsz s) (enq s) (deq s) (is_shut s) (S (pending s)) (notified s) (marks s ++ [length (enq s)]) (wp s)
                    (upd (ap s) t (AFlushWait (S old) None)) (holder s) (joined s) (exported s) (inflight s) (flushed s) (expshut s)
                    (latch s) (dropped s) (discarded s) (fl_done s) (sh_done s))
      else None
  (* the waiting loop: any number of reads of the three variables; the result must be computed from the last read of notified *)
  | AFlushWait k last, ELdShut v => if Bool.eqb v (is_shut s) then Some s else None
  | AFlushWait k last, ELdPending v => if Nat.eqb v (pending s) then Some s else None
  | AFlushWait k last, ELdNotified v => if Nat.eqb v (notified s) then with_ap s t (AFlushWait k (Some v)) else None
  | AFlushWait k (Some v), ERetFlush r =>
      if Bool.eqb r (Nat.leb k v)
      then Some (mk (Qsz s) (Bsz s) (enq s) (deq s) (is_shut s) (pending s) (notified s) (marks s) (wp s)
                    (upd (ap s) t AIdle) (holder s) (joined s) (exported s) (inflight s) (flushed s) (expshut s)
                    (latch s) (dropped s) (discarded s) (fl_done s ++ [(t, k, r)]) (sh_done s))
      else None
  (* destructor *)
  | AIdle, ECallDestroy => with_ap s t ADestroy0
  | ADestroy0, ELdShut v =>
      if Bool.eqb v (is_shut s) then with_ap s t (if v then ADestroyOut else AShutCalled true) else None
  | ADestroyOut, ERetDestroy => with_ap s t AIdle
  (* Shutdown *)
  | AIdle, ECallShutdown => with_ap s t (AShutCalled false)
  | AShutCalled dd, ELockShut =>
      match holder s with
      | Some _ => None
      | None => Some (mk (Qsz s) (Bsz s) (enq s) (deq s) (is_shut s) (pending s) (notified s) (marks s) (wp s)
                         (upd (ap s) t (AShutLocked dd)) (Some t) (joined s) (exported s) (inflight s) (flushed s) (expshut s)
                         (latch s) (dropped s) (discarded s) (fl_done s) (sh_done s))
      end
  | AShutLocked dd, EXchgShut old =>
      if Bool.eqb old (is_shut s)
      then Some (mk (Qsz s) (Bsz s) (enq s) (deq s) true (pending s) (notified s) (marks s) (wp s)
                    (upd (ap s) t (if joined s then AShutJoined dd old else AShutX dd old)) (holder s) (joined s)
                    (exported s) (inflight s) (flushed s) (expshut s)
                    (opt_or (latch s) (length (enq s))) (dropped s) (discarded s) (fl_done s) (sh_done s))
      else None
  | AShutX dd old, EJoin w =>
      match w, wp s with
      | 0, WDone => Some (mk (Qsz s) (Bsz s) (enq s) (deq s) (is_shut s) (pending s) (notified s) (marks s) (wp s)
                             (upd (ap s) t (AShutJoined dd old)) (holder s) true (exported s) (inflight s) (flushed s) (expshut s)
                             (latch s) (dropped s) (discarded s) (fl_done s) (sh_done s))
      | _, _ => None
      end
  | AShutJoined dd false, EExpShutdown r =>
      Some (mk (Qsz s) (Bsz s) (enq s) (deq s) (is_shut s) (pending s) (notified s) (marks s) (wp s)
               (upd (ap s) t (AShutExp dd r)) (holder s) (joined s) (exported s) (inflight s) (flushed s) (S (expshut s))
               (latch s) (dropped s) (discarded s) (fl_done s) (sh_done s))
  | AShutJoined dd true, EUnlockShut =>
      Some (mk (Qsz s) (Bsz s) (enq s) (deq s) (is_shut s) (pending s) (notified s) (marks s) (wp s)
               (upd (ap s) t (AShutOut dd true)) None (joined s) (exported s) (inflight s) (flushed s) (expshut s)
               (latch s) (dropped s) (discarded s) (fl_done s) (sh_done s))
  | AShutExp dd r, EUnlockShut =>
      Some (mk (Qsz s) (Bsz s) (enq s) (deq s) (is_shut s) (pending s) (notified s) (marks s) (wp s)
               (upd (ap s) t (AShutOut dd r)) None (joined s) (exported s) (inflight s) (flushed s) (expshut s)
               (latch s) (dropped s) (discarded s) (fl_done s) (sh_done s))
  | AShutOut true _, ERetDestroy => with_ap s t AIdle
  | AShutOut false r, ERetShutdown r' =>
      if Bool.eqb r r'
      then Some (mk (Qsz s) (Bsz s) (enq s) (deq s) (is_shut s) (pending s) (notified s) (marks s) (wp s)
                    (upd (ap s) t AIdle) (holder s) (joined s) (exported s) (inflight s) (flushed s) (expshut s)
                    (latch s) (dropped s) (discarded s) (fl_done s) (sh_done s ++ [(t, r)]))
      else None
  | _, _ => None
  end.

(* thread 0 is the worker the constructor starts; every other thread id is an application thread *)
Definition accept (s : st) (te : nat * ev) : option st :=
  match fst te with
  | 0 => accept_worker s (snd te)
  | t => accept_app s t (snd te)
  end.

Fixpoint run (s : st) (tr : list (nat * ev)) : option st :=
  match tr with
  | [] => Some s
  | te :: tr' => match accept s te with Some s' => run s' tr' | None => None end
  end.

(* index of the first event that is not accepted *)
Fixpoint run_idx (s : st) (tr : list (nat * ev)) (i : nat) : st + nat :=
  match tr with
  | [] => inl s
  | te :: tr' => match accept s te with Some s' => run_idx s' tr' (S i) | None => inr i end
  end.
